import S2T.Lemmas.PySheets
import S2T.Lemmas.TablesOds
import S2T.Model.C02SheetsOds
/-!
ODS `_extract_sheet`: the specification the translated function is proved equal to (`Props/C13_Src.lean`), stated over
the PARSED rows (what the loops read off the element tree: repeat counts, `_extract_cell_value`'s and
`_extract_annotations`' answers), its closed forms, and the bridge to the hand model `S2T.Tables.Ods` of C13.

Nothing here mentions the generated code or generated constants: the caps `C`, tag and attribute names are
parameters.  Core Lean only.  Namespace `S2T.Py.Sheets.OdsSpec`.
-/
set_option linter.unusedSimpArgs false
namespace S2T.Py.Sheets.OdsSpec
open S2T.Py S2T.Py.Sheets S2T.Tables

/-- one parsed `table:table-cell`: `number-columns-repeated`, `(typed_value, display_text)`, its annotations -/
abbrev PCell := Int × (Val × Py.Str) × List Annot
/-- one parsed `table:table-row`: `number-rows-repeated` and its cells -/
abbrev PRow := Int × List PCell

/-- the effects of one iteration of the cell loop, in source order -/
def parseCell (env : OdsEnv) (repCols : Py.Str) (cell : Node) : M PCell := do
  let rep ← env.intOfStr (elemGetD cell repCols "1".toList)
  let v ← env.extractCellValue cell
  let a ← env.extractAnnotations cell
  pure (rep, v, a)

/-- the effects of one iteration of the row loop, in source order -/
def parseRow (env : OdsEnv) (repRows cellTag repCols : Py.Str) (row : Node) : M PRow := do
  let rep ← env.intOfStr (elemGetD row repRows "1".toList)
  let cells ← (findall cellTag row).mapM (parseCell env repCols)
  pure (rep, cells)

/-- everything `_extract_sheet` reads off the table element before it shapes the sheet; the first exception of
    `int()` / `_extract_cell_value` / `_extract_annotations` in document order is the function's exception -/
def parseRows (env : OdsEnv) (rowTag repRows cellTag repCols : Py.Str) (table : Node) : M (List PRow) :=
  (findall rowTag table).mapM (parseRow env repRows cellTag repCols)

/-! ## first pass (`raw_rows`, `all_annotations`), over `(typed_value, display_text)` pairs -/

/-- what one cell adds to `row_values` -/
def cellPiece2 (C : Ods.Caps) (c : PCell) : List (Val × Py.Str) :=
  if c.2.1.1 == Val.none && decide (c.1 > (C.cell : Int)) then [(Val.none, [])] else List.replicate c.1.toNat c.2.1

def cellStep (C : Ods.Caps) (s : List Annot × List (Val × Py.Str)) (c : PCell) : List Annot × List (Val × Py.Str) :=
  (s.1 ++ c.2.2, s.2 ++ cellPiece2 C c)

/-- `row_values` -/
def rowVals2 (C : Ods.Caps) (cells : List PCell) : List (Val × Py.Str) := cells.flatMap (cellPiece2 C)

/-- what one row adds to `raw_rows` -/
def rowPiece2 (C : Ods.Caps) (r : PRow) : List (List (Val × Py.Str)) :=
  if decide (r.1 > (C.row : Int)) && (rowVals2 C r.2).all (fun v => v.1 == Val.none) then [rowVals2 C r.2]
  else List.replicate r.1.toNat (rowVals2 C r.2)

/-- state of the row loop: `(raw_rows, all_annotations, max_cols)` -/
def rowStep (C : Ods.Caps) (s : List (List (Val × Py.Str)) × List Annot × Int) (r : PRow) :
    List (List (Val × Py.Str)) × List Annot × Int :=
  (s.1 ++ rowPiece2 C r, (r.2.foldl (cellStep C) (s.2.1, [])).1,
    if (rowVals2 C r.2).isEmpty then s.2.2 else max s.2.2 (len (rowVals2 C r.2)))

theorem foldl_cellStep (C : Ods.Caps) (cells : List PCell) (a : List Annot) (v : List (Val × Py.Str)) :
    cells.foldl (cellStep C) (a, v) = (a ++ cells.flatMap (·.2.2), v ++ rowVals2 C cells) := by
  induction cells generalizing a v with
  | nil => simp [rowVals2]
  | cons c r ih => simp [List.foldl_cons, cellStep, ih, rowVals2, List.append_assoc]

/-- `cellStep` / `rowStep` with their tests as `Bool`s (`cond` carries no `Decidable` instance: the tests can be
    generalised and case-split, whatever shape the translated `if`s have) -/
theorem cellStep_cond (C : Ods.Caps) (s : List Annot × List (Val × Py.Str)) (rep : Int) (tv : Val × Py.Str) (ann : List Annot) :
    cellStep C s (rep, tv, ann) = (s.1 ++ ann,
      s.2 ++ cond (tv.1 == Val.none && decide (rep > (C.cell : Int))) [(Val.none, [])] (List.replicate rep.toNat tv)) := by
  simp only [cellStep, cellPiece2]
  cases (tv.1 == Val.none && decide (rep > (C.cell : Int))) <;> rfl

theorem rowStep_cond (C : Ods.Caps) (s : List (List (Val × Py.Str)) × List Annot × Int) (rep : Int) (cells : List PCell) :
    rowStep C s (rep, cells) = (s.1 ++ cond (decide (rep > (C.row : Int)) && (rowVals2 C cells).all (fun v => v.1 == Val.none))
        [rowVals2 C cells] (List.replicate rep.toNat (rowVals2 C cells)),
      s.2.1 ++ cells.flatMap (·.2.2),
      cond (rowVals2 C cells).isEmpty s.2.2 (max s.2.2 (len (rowVals2 C cells)))) := by
  simp only [rowStep, rowPiece2, foldl_cellStep]
  cases (decide (rep > (C.row : Int)) && (rowVals2 C cells).all (fun v => v.1 == Val.none)) <;>
    cases (rowVals2 C cells).isEmpty <;> rfl

/-- `raw_rows` after the first pass -/
def rawOf (C : Ods.Caps) (rows : List PRow) : List (List (Val × Py.Str)) := rows.flatMap (rowPiece2 C)
/-- `all_annotations` -/
def annOf (rows : List PRow) : List Annot := rows.flatMap (fun r => r.2.flatMap (·.2.2))

theorem foldl_rowStep (C : Ods.Caps) (rows : List PRow) (raw : List (List (Val × Py.Str))) (a : List Annot) (m : Int) :
    ∃ m', rows.foldl (rowStep C) (raw, a, m) = (raw ++ rawOf C rows, a ++ annOf rows, m') := by
  induction rows generalizing raw a m with
  | nil => exact ⟨m, by simp [rawOf, annOf]⟩
  | cons r rs ih =>
    simp only [List.foldl_cons, rowStep, foldl_cellStep]
    obtain ⟨m', h⟩ := ih (raw ++ rowPiece2 C r) (a ++ r.2.flatMap (·.2.2)) _
    exact ⟨m', by rw [h]; simp [rawOf, annOf, List.append_assoc]⟩

/-! ## trimming, last data column, padding -/

/-- a row without data -/
def emptyRow2 (row : List (Val × Py.Str)) : Bool := row.all (fun v => v.1 == Val.none)
/-- `while raw_rows and all(v[0] is None for v in raw_rows[-1]): raw_rows.pop()` -/
def trim2 (raw : List (List (Val × Py.Str))) : List (List (Val × Py.Str)) := (raw.reverse.dropWhile emptyRow2).reverse
/-- `last_data_col` -/
def lastCol2 (raw : List (List (Val × Py.Str))) : Nat :=
  raw.foldl (fun m row => max m (Xlsx.lastIdx (fun v => v.1 != Val.none) row)) 0
/-- `row_data` -/
def padData (w : Nat) (row : List (Val × Py.Str)) : List Val :=
  (List.range w).map (fun i => match row[i]? with | some v => v.1 | none => Val.none)
/-- `row_texts` -/
def rowTexts (w : Nat) (row : List (Val × Py.Str)) : List Py.Str :=
  (List.range w).filterMap (fun i => match row[i]? with | some v => if v.2.isEmpty then none else some v.2 | none => none)
/-- `text_lines` -/
def textLines (w : Nat) (raw : List (List (Val × Py.Str))) : List Py.Str :=
  raw.filterMap (fun row => if (rowTexts w row).isEmpty then none else some (strJoin "\t".toList (rowTexts w row)))

/-- one step of the padding loop (column `i` of `row`) -/
def padStep (row : List (Val × Py.Str)) (s : List Val × List Py.Str) (i : Nat) : List Val × List Py.Str :=
  match row[i]? with
  | some v => (s.1 ++ [v.1], if v.2.isEmpty then s.2 else s.2 ++ [v.2])
  | none => (s.1 ++ [Val.none], s.2)

theorem foldl_padStep (row : List (Val × Py.Str)) (w : Nat) (s : List Val × List Py.Str) :
    (List.range w).foldl (padStep row) s = (s.1 ++ padData w row, s.2 ++ rowTexts w row) := by
  induction w with
  | zero => simp [padData, rowTexts]
  | succ w ih =>
    rw [List.range_succ, List.foldl_append, ih]
    simp only [List.foldl_cons, List.foldl_nil, padStep, padData, rowTexts, List.range_succ, List.map_append,
      List.filterMap_append, List.map_cons, List.map_nil, List.filterMap_cons, List.filterMap_nil]
    cases h : row[w]? with
    | none => simp
    | some v => by_cases hv : v.2.isEmpty = true <;> simp [hv]

/-- the inner padding loop `for i in range(max_cols)` for ANY body that agrees with `padStep` on the indices of the range -/
theorem pad_inner (row : List (Val × Py.Str)) (w : Int)
    (f : Int → List Val × List Py.Str → M (ForInStep (List Val × List Py.Str)))
    (hf : ∀ (i : Nat), i < w.toNat → ∀ s, f (i : Int) s = Except.ok (ForInStep.yield (padStep row s i))) :
    forIn (rangeI 0 w) ([], []) f = Except.ok (padData w.toNat row, rowTexts w.toNat row) := by
  rw [forIn_rangeI_fold (padStep row) w f hf, foldl_padStep]
  simp

/-- state of the outer padding loop: `(rows_data, text_lines)` -/
def padRowStep (w : Nat) (s : List (List Val) × List Py.Str) (row : List (Val × Py.Str)) : List (List Val) × List Py.Str :=
  (s.1 ++ [padData w row], if (rowTexts w row).isEmpty then s.2 else s.2 ++ [strJoin "\t".toList (rowTexts w row)])

theorem padRowStep_cond (w : Nat) (s : List (List Val) × List Py.Str) (row : List (Val × Py.Str)) :
    padRowStep w s row = (s.1 ++ [padData w row],
      cond (rowTexts w row).isEmpty s.2 (s.2 ++ [strJoin "\t".toList (rowTexts w row)])) := by
  simp only [padRowStep]
  cases (rowTexts w row).isEmpty <;> rfl

theorem foldl_padRowStep (w : Nat) (T : List (List (Val × Py.Str))) (s : List (List Val) × List Py.Str) :
    T.foldl (padRowStep w) s = (s.1 ++ T.map (padData w), s.2 ++ textLines w T) := by
  induction T generalizing s with
  | nil => simp [textLines]
  | cons r rs ih =>
    rw [List.foldl_cons, ih]
    by_cases h : rowTexts w r = [] <;> simp [padRowStep, textLines, List.filterMap_cons, h]

/-- the outer padding loop for ANY body that agrees with `padRowStep` -/
theorem pad_outer (w : Nat) (T : List (List (Val × Py.Str)))
    (f : List (Val × Py.Str) → List (List Val) × List Py.Str → M (ForInStep (List (List Val) × List Py.Str)))
    (hf : ∀ row ∈ T, ∀ s, f row s = Except.ok (ForInStep.yield (padRowStep w s row))) :
    forIn T ([], []) f = Except.ok (T.map (padData w), textLines w T) := by
  rw [forIn_ok_fold (padRowStep w) T f hf, foldl_padRowStep]
  simp

/-- `sheet.data` -/
def dataOf (C : Ods.Caps) (rows : List PRow) : List (List Val) :=
  (trim2 (rawOf C rows)).map (padData (lastCol2 (trim2 (rawOf C rows))))
/-- `sheet.text` -/
def textOf (C : Ods.Caps) (rows : List PRow) : Py.Str :=
  strJoin "\n".toList (textLines (lastCol2 (trim2 (rawOf C rows))) (trim2 (rawOf C rows)))

/-! ## bridge to the hand model of C13 (`S2T.Tables.Ods`) -/

/-- the hand model's view of a parsed cell: `[x] * n` is empty for `n ≤ 0`, so the count enters as `n.toNat` -/
def toRCell (c : PCell) : Ods.RCell := (c.1.toNat, c.2.1.1)
def toRRow (r : PRow) : Ods.RRow := (r.1.toNat, r.2.map toRCell)
def toRRows (rows : List PRow) : List Ods.RRow := rows.map toRRow

theorem cellPiece2_fst (C : Ods.Caps) (c : PCell) : (cellPiece2 C c).map (·.1) = Ods.cellPiece C (toRCell c) := by
  unfold cellPiece2 Ods.cellPiece toRCell
  have e : decide (c.1 > (C.cell : Int)) = decide (c.1.toNat > C.cell) := by
    apply decide_eq_decide.mpr; omega
  rw [e]
  split <;> simp

theorem rowVals2_fst (C : Ods.Caps) (cells : List PCell) : (rowVals2 C cells).map (·.1) = Ods.rowValues C (cells.map toRCell) := by
  unfold rowVals2 Ods.rowValues
  induction cells with
  | nil => rfl
  | cons c r ih => simp [List.flatMap_cons, cellPiece2_fst, ih]

theorem emptyRow2_eq (row : List (Val × Py.Str)) : emptyRow2 row = (row.map (·.1)).all (· == Val.none) := by
  simp [emptyRow2, List.all_map, Function.comp_def]

theorem rowPiece2_fst (C : Ods.Caps) (r : PRow) : (rowPiece2 C r).map (·.map (·.1)) = Ods.rowPiece C (toRRow r) := by
  unfold rowPiece2 Ods.rowPiece toRRow
  have e : decide (r.1 > (C.row : Int)) = decide (r.1.toNat > C.row) := by
    apply decide_eq_decide.mpr; omega
  have e2 := emptyRow2_eq (rowVals2 C r.2)
  unfold emptyRow2 at e2
  simp only [e, e2, rowVals2_fst]
  split <;> simp [rowVals2_fst]

theorem rawOf_fst (C : Ods.Caps) (rows : List PRow) : (rawOf C rows).map (·.map (·.1)) = Ods.rawRows C (toRRows rows) := by
  unfold rawOf Ods.rawRows toRRows
  induction rows with
  | nil => rfl
  | cons r rs ih => simp [List.flatMap_cons, rowPiece2_fst, ih]

theorem dropWhile_map' {α β} (f : α → β) (p : β → Bool) (l : List α) :
    (l.map f).dropWhile p = (l.dropWhile (fun a => p (f a))).map f := by
  induction l with
  | nil => rfl
  | cons a r ih => simp only [List.map_cons, List.dropWhile_cons]; split <;> simp [ih]

theorem trim2_fst (raw : List (List (Val × Py.Str))) : (trim2 raw).map (·.map (·.1)) = Ods.trimRows (raw.map (·.map (·.1))) := by
  unfold trim2 Ods.trimRows
  rw [← List.map_reverse, dropWhile_map', ← List.map_reverse]
  congr 3
  funext row
  exact emptyRow2_eq row

theorem lastIdx_map {α β} (f : α → β) (p : β → Bool) (l : List α) :
    Xlsx.lastIdx p (l.map f) = Xlsx.lastIdx (fun a => p (f a)) l := by
  induction l with
  | nil => rfl
  | cons a r ih => simp [Xlsx.lastIdx, ih]

theorem lastCol2_eq (raw : List (List (Val × Py.Str))) : lastCol2 raw = Ods.lastDataCol (raw.map (·.map (·.1))) := by
  unfold lastCol2 Ods.lastDataCol
  rw [List.foldl_map]
  congr 1
  funext m row
  rw [lastIdx_map]

theorem padData_eq (w : Nat) (row : List (Val × Py.Str)) : padData w row = Ods.padRow w (row.map (·.1)) := by
  unfold padData Ods.padRow
  apply List.map_congr_left
  intro i _
  rw [List.getElem?_map]
  cases row[i]? <;> rfl

/-- **the data side of the specification IS the hand model `Ods.sheetData`** of the parsed rows -/
theorem dataOf_eq (C : Ods.Caps) (rows : List PRow) : dataOf C rows = Ods.sheetData C (toRRows rows) := by
  unfold Ods.sheetData dataOf
  simp only [← rawOf_fst, ← trim2_fst, List.map_map, lastCol2_eq]
  apply List.map_congr_left
  intro row _
  simp [padData_eq]


/-! ## bridge to the text model of C02 (`S2T.C02.Sheets.Ods.textOfRows`)

The C02 model works on the display texts alone and reads "no data" as "empty display text"; the source tests the typed
value.  The two agree when `_extract_cell_value` answers `None` exactly with an empty display text (`PairsOk`: true of
the current `_extract_cell_value`, whose every `return` is `(x, value)` with a non-empty `value` or `(None, "")`). -/

/-- typed value `None` ⇔ display text empty, for every cell of the raw rows -/
def PairsOk (raw : List (List (Val × Py.Str))) : Prop := ∀ row ∈ raw, ∀ v ∈ row, (v.1 = Val.none ↔ v.2 = [])

/-- the display texts of the raw rows -/
def dispRows (raw : List (List (Val × Py.Str))) : List (List Py.Str) := raw.map (·.map (·.2))

theorem dropWhile_congr_mem {α} (p q : α → Bool) (l : List α) (h : ∀ a ∈ l, p a = q a) : l.dropWhile p = l.dropWhile q := by
  induction l with
  | nil => rfl
  | cons a r ih =>
    simp only [List.dropWhile_cons, h a (List.mem_cons_self ..)]
    split
    · exact ih (fun b hb => h b (List.mem_cons_of_mem _ hb))
    · rfl

theorem emptyRow2_disp (row : List (Val × Py.Str)) (h : ∀ v ∈ row, (v.1 = Val.none ↔ v.2 = [])) :
    emptyRow2 row = S2T.C02.Sheets.Ods.rowEmpty (row.map (·.2)) := by
  unfold emptyRow2 S2T.C02.Sheets.Ods.rowEmpty
  induction row with
  | nil => rfl
  | cons v r ih =>
    have hv := h v (List.mem_cons_self ..)
    have ih' := ih (fun u hu => h u (List.mem_cons_of_mem _ hu))
    simp only [List.all_cons, List.map_cons, ih']
    congr 1
    by_cases h1 : v.1 = Val.none <;> simp_all

theorem trim2_sublist (raw : List (List (Val × Py.Str))) : ∀ row ∈ trim2 raw, row ∈ raw := by
  intro row hrow
  unfold trim2 at hrow
  rw [List.mem_reverse] at hrow
  exact List.mem_reverse.mp ((List.dropWhile_sublist _).mem hrow)

theorem trim2_disp (raw : List (List (Val × Py.Str))) (h : PairsOk raw) :
    dispRows (trim2 raw) = S2T.C02.Sheets.Ods.trimRows (dispRows raw) := by
  unfold trim2 S2T.C02.Sheets.Ods.trimRows S2T.Tok.rstrip dispRows
  rw [← List.map_reverse, dropWhile_map', List.map_reverse]
  congr 2
  apply dropWhile_congr_mem
  intro row hrow
  exact emptyRow2_disp row (h row (List.mem_reverse.mp hrow))

theorem lastIdx_eq_rstrip_length {α} (p : α → Bool) (l : List α) :
    Xlsx.lastIdx p l = (l.reverse.dropWhile (fun x => !p x)).length := by
  induction l using rev_ind with
  | nil => rfl
  | snoc ys a ih =>
    rw [lastIdx_append_singleton, List.reverse_append, List.reverse_singleton, List.singleton_append, List.dropWhile_cons]
    by_cases hp : p a = true
    · simp [hp]
    · simp [hp, ih]

theorem lastData_disp (row : List (Val × Py.Str)) (h : ∀ v ∈ row, (v.1 = Val.none ↔ v.2 = [])) :
    Xlsx.lastIdx (fun v => v.1 != Val.none) row = S2T.C02.Sheets.Ods.lastData (row.map (·.2)) := by
  rw [lastIdx_eq_rstrip_length]
  unfold S2T.C02.Sheets.Ods.lastData S2T.Tok.rstrip
  rw [List.length_reverse, ← List.map_reverse, dropWhile_map', List.length_map]
  congr 1
  apply dropWhile_congr_mem
  intro v hv
  have := h v (List.mem_reverse.mp hv)
  by_cases h1 : v.1 = Val.none <;> simp_all

theorem lastCol2_disp (T : List (List (Val × Py.Str))) (h : PairsOk T) :
    lastCol2 T = S2T.C02.Sheets.Ods.maxCols (dispRows T) := by
  unfold lastCol2 S2T.C02.Sheets.Ods.maxCols dispRows
  rw [List.foldl_map]
  have key : ∀ (T : List (List (Val × Py.Str))) (m : Nat), PairsOk T →
      T.foldl (fun m row => max m (Xlsx.lastIdx (fun v => v.1 != Val.none) row)) m =
      T.foldl (fun m row => max m (S2T.C02.Sheets.Ods.lastData (row.map (·.2)))) m := by
    intro T
    induction T with
    | nil => intro m _; rfl
    | cons r rs ih =>
      intro m h
      simp only [List.foldl_cons, lastData_disp r (h r (List.mem_cons_self ..))]
      exact ih _ (fun row hr => h row (List.mem_cons_of_mem _ hr))
  exact key T 0 h

theorem filterMap_range_getElem? {α β} (f : α → Option β) (row : List α) (w : Nat) :
    (List.range w).filterMap (fun i => match row[i]? with | some v => f v | none => none) = (row.take w).filterMap f := by
  induction w with
  | zero => simp
  | succ w ih =>
    rw [List.range_succ, List.filterMap_append, ih]
    rcases Nat.lt_or_ge w row.length with hw | hw
    · rw [List.take_succ_eq_append_getElem hw, List.filterMap_append]
      simp [List.filterMap_cons, List.getElem?_eq_getElem hw]
    · rw [List.take_of_length_le hw, List.take_of_length_le (by omega)]
      simp [List.getElem?_eq_none hw]

theorem filterMap_congr_mem {α β} (f g : α → Option β) (l : List α) (h : ∀ a ∈ l, f a = g a) : l.filterMap f = l.filterMap g := by
  induction l with
  | nil => rfl
  | cons a r ih =>
    simp only [List.filterMap_cons, h a (List.mem_cons_self ..), ih (fun b hb => h b (List.mem_cons_of_mem _ hb))]

theorem rowTexts_disp (w : Nat) (row : List (Val × Py.Str)) :
    rowTexts w row = ((row.map (·.2)).take w).filter (fun v => decide (v ≠ [])) := by
  induction w with
  | zero => simp [rowTexts]
  | succ w ih =>
    have hstep : rowTexts (w + 1) row = rowTexts w row ++
        (match row[w]? with | some v => if v.2.isEmpty then [] else [v.2] | none => []) := by
      simp only [rowTexts, List.range_succ, List.filterMap_append, List.filterMap_cons, List.filterMap_nil]
      cases row[w]? with
      | none => rfl
      | some v => by_cases hv : v.2.isEmpty = true <;> simp [hv]
    rw [hstep, ih]
    rcases Nat.lt_or_ge w row.length with hw | hw
    · have hw' : w < (row.map (·.2)).length := by simpa using hw
      rw [List.take_succ_eq_append_getElem hw', List.filter_append, List.getElem?_eq_getElem hw]
      by_cases hv : (row[w]).2 = [] <;> simp [hv]
    · rw [List.take_of_length_le (by simpa using hw), List.take_of_length_le (by simp; omega), List.getElem?_eq_none hw]
      simp

/-- **the text side of the specification IS the C02 text model** of the display rows (separators `"\t"` / `"\n"`) -/
theorem text_eq (T : S2T.C02.Sheets.OdsT) (hc : T.cellSep = "\t".toList) (hl : T.lineSep = "\n".toList)
    (raw : List (List (Val × Py.Str))) (h : PairsOk raw) :
    strJoin "\n".toList (textLines (lastCol2 (trim2 raw)) (trim2 raw)) = S2T.C02.Sheets.Ods.textOfRows T (dispRows raw) := by
  have ht : PairsOk (trim2 raw) := fun row hrow => h row (trim2_sublist raw row hrow)
  unfold S2T.C02.Sheets.Ods.textOfRows
  simp only [← trim2_disp raw h, ← lastCol2_disp _ ht, strJoin_eq_join, hl]
  congr 1
  unfold textLines dispRows
  rw [List.filterMap_map]
  apply filterMap_congr_mem
  intro row _
  simp only [Function.comp, S2T.C02.Sheets.Ods.rowLine, rowTexts_disp, strJoin_eq_join, hc]
  by_cases he : List.filter (fun v => decide (v ≠ [])) (List.take (lastCol2 (trim2 raw)) (List.map (fun x => x.2) row)) = [] <;>
    simp [he]


/-! ## where the raw pairs come from -/

theorem mapM_ok_mem {α β} (g : α → M β) (l : List α) (ys : List β) (h : l.mapM g = Except.ok ys) :
    ∀ y ∈ ys, ∃ x ∈ l, g x = Except.ok y := by
  induction l generalizing ys with
  | nil => simp at h; cases h; intro y hy; cases hy
  | cons a r ih =>
    rw [List.mapM_cons] at h
    cases ha : g a with
    | error e => rw [ha] at h; cases h
    | ok b =>
      rw [ha] at h
      cases hr : List.mapM g r with
      | error e => rw [hr] at h; cases h
      | ok bs =>
        rw [hr] at h
        cases h
        intro y hy
        rcases List.mem_cons.mp hy with rfl | hy
        · exact ⟨a, List.mem_cons_self .., ha⟩
        · obtain ⟨x, hx, hg⟩ := ih bs hr y hy
          exact ⟨x, List.mem_cons_of_mem _ hx, hg⟩

/-- every `(typed_value, display_text)` of the parsed rows is an answer of `_extract_cell_value` -/
theorem parseRows_values (env : OdsEnv) (rowTag repRows cellTag repCols : Py.Str) (table : Node) (rows : List PRow)
    (h : parseRows env rowTag repRows cellTag repCols table = Except.ok rows) :
    ∀ r ∈ rows, ∀ c ∈ r.2, ∃ cell, env.extractCellValue cell = Except.ok c.2.1 := by
  intro r hr c hc
  obtain ⟨row, _, hrow⟩ := mapM_ok_mem _ _ _ h r hr
  simp only [parseRow] at hrow
  cases h1 : env.intOfStr (elemGetD row repRows "1".toList) with
  | error e => rw [h1] at hrow; cases hrow
  | ok rep =>
    rw [h1] at hrow
    cases h2 : List.mapM (parseCell env repCols) (findall cellTag row) with
    | error e => rw [h2] at hrow; cases hrow
    | ok cells =>
      rw [h2] at hrow
      cases hrow
      obtain ⟨cell, _, hcell⟩ := mapM_ok_mem _ _ _ h2 c hc
      refine ⟨cell, ?_⟩
      simp only [parseCell] at hcell
      cases h3 : env.intOfStr (elemGetD cell repCols "1".toList) with
      | error e => rw [h3] at hcell; cases hcell
      | ok k =>
        rw [h3] at hcell
        cases h4 : env.extractCellValue cell with
        | error e => rw [h4] at hcell; cases hcell
        | ok v =>
          rw [h4] at hcell
          cases h5 : env.extractAnnotations cell with
          | error e => rw [h5] at hcell; cases hcell
          | ok a =>
            rw [h5] at hcell
            cases hcell
            rfl

/-- if every parsed value pairs `None` with the empty text, so does every cell of the raw rows (the collapsed runs are
    `(None, "")`) -/
theorem pairsOk_rawOf (C : Ods.Caps) (rows : List PRow) (h : ∀ r ∈ rows, ∀ c ∈ r.2, (c.2.1.1 = Val.none ↔ c.2.1.2 = [])) :
    PairsOk (rawOf C rows) := by
  have hvals : ∀ r ∈ rows, ∀ v ∈ rowVals2 C r.2, (v.1 = Val.none ↔ v.2 = []) := by
    intro r hr v hv
    simp only [rowVals2, List.mem_flatMap] at hv
    obtain ⟨c, hc, hvc⟩ := hv
    unfold cellPiece2 at hvc
    split at hvc
    · simp only [List.mem_singleton] at hvc; subst hvc; simp
    · rw [List.mem_replicate] at hvc; rw [hvc.2]; exact h r hr c hc
  intro row hrow v hv
  simp only [rawOf, List.mem_flatMap] at hrow
  obtain ⟨r, hr, hrr⟩ := hrow
  unfold rowPiece2 at hrr
  split at hrr
  · simp only [List.mem_singleton] at hrr; subst hrr; exact hvals r hr v hv
  · rw [List.mem_replicate] at hrr; rw [hrr.2] at hv; exact hvals r hr v hv

end S2T.Py.Sheets.OdsSpec
