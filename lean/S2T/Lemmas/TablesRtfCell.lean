import S2T.Lemmas.TablesRtfText
/-! The joined text of a plain cell is clean; the backslash-anchored passes on a written cell. -/
namespace S2T.Tables.Rtf
open S2T.HtmlSkip (Str)
open S2T.Tables

theorem joinWith_cons_cons (sep x y : Str) (r : List Str) :
    joinWith sep (x :: y :: r) = x ++ sep ++ joinWith sep (y :: r) := by simp [joinWith]

/-! ## joined text -/

theorem plainChar_not_nl {c : Char} (h : plainChar c = true) : c ≠ '\n' := by
  intro hc; subst hc; exact absurd h (by decide)

theorem isWs_of_plain {c : Char} (h : plainChar c = true) (hs : c ≠ ' ') : isWs c = false := by
  simp [isWs, hs, plainChar_not_nl h]

theorem clean_append (p t : Str) (hall : p.all plainChar = true) (hnd : noDoubleSpace p = true)
    (hlast : p.getLast? ≠ some ' ') (ht : clean t = true) : clean (p ++ t) = true := by
  induction p with
  | nil => simpa using ht
  | cons c p ih =>
    simp only [List.all_cons, Bool.and_eq_true] at hall
    cases p with
    | nil =>
      have hc : c ≠ ' ' := by intro h; subst h; exact hlast rfl
      simp only [List.cons_append, List.nil_append, clean, Bool.and_eq_true, Bool.or_eq_true]
      refine ⟨⟨Or.inr hall.1, Or.inl (by simp [isWs_of_plain hall.1 hc])⟩, ht⟩
    | cons d p =>
      have hd := hall.2
      simp only [List.all_cons, Bool.and_eq_true] at hd
      have ih' := ih hall.2 (by simp only [noDoubleSpace, Bool.and_eq_true] at hnd; exact hnd.2)
        (by rw [List.getLast?_cons_cons] at hlast; exact hlast)
      simp only [List.cons_append] at ih' ⊢
      simp only [clean, Bool.and_eq_true, Bool.or_eq_true] at ih' ⊢
      refine ⟨⟨Or.inr hall.1, ?_⟩, ih'⟩
      by_cases hc : c = ' '
      · subst hc
        right
        simp only [noDoubleSpace, Bool.and_eq_true, Bool.not_eq_true', Bool.and_eq_false_iff] at hnd
        have : d ≠ ' ' := by
          rcases hnd.1 with h | h
          · exact absurd h (by decide)
          · simpa using h
        simp [isWs_of_plain hd.1 this]
      · left; simp [isWs_of_plain hall.1 hc]

theorem takeWhile_append_stop (p : Char → Bool) (s : Str) (c : Char) (t : Str) (hc : p c = false) :
    (s ++ c :: t).takeWhile p = s.takeWhile p := by
  induction s with
  | nil => simp [List.takeWhile, hc]
  | cons x s ih =>
    simp only [List.cons_append, List.takeWhile]
    cases p x <;> simp [ih]

theorem hexRunFree_append (s t : Str) (c : Char) (hc : isHex c = false) (hs : hexRunFree s = true)
    (ht : hexRunFree t = true) : hexRunFree (s ++ c :: t) = true := by
  induction s with
  | nil =>
    simp only [List.nil_append, hexRunFree, Bool.and_eq_true, decide_eq_true_eq]
    refine ⟨?_, ht⟩
    simp [List.takeWhile, hc]
  | cons x s ih =>
    simp only [hexRunFree, Bool.and_eq_true, decide_eq_true_eq] at hs
    simp only [List.cons_append, hexRunFree, Bool.and_eq_true, decide_eq_true_eq]
    refine ⟨?_, ih hs.2⟩
    have := takeWhile_append_stop isHex (x :: s) c t hc
    simp only [List.cons_append] at this
    rw [this]; exact hs.1

structure Joined (N : Str) : Prop where
  clean : clean N = true
  head : ∀ c r, N = c :: r → isWs c = false
  hex : hexRunFree N = true
  ne : N ≠ []

theorem plainPara_parts {p : Str} (h : plainPara p = true) :
    p ≠ [] ∧ p.all plainChar = true ∧ p.head? ≠ some ' ' ∧ p.getLast? ≠ some ' ' ∧ noDoubleSpace p = true ∧
      hexRunFree p = true := by
  simp only [plainPara, Bool.and_eq_true, Bool.not_eq_true', bne_iff_ne, ne_eq] at h
  obtain ⟨⟨⟨⟨⟨h1, h2⟩, h3⟩, h4⟩, h5⟩, h6⟩ := h
  refine ⟨?_, h2, h3, h4, h5, h6⟩
  intro he; subst he; simp at h1

theorem plainPara_head {p : Str} (h : plainPara p = true) : ∃ c r, p = c :: r ∧ isWs c = false ∧ plainChar c = true := by
  obtain ⟨hne, hall, hh, _⟩ := plainPara_parts h
  cases p with
  | nil => exact absurd rfl hne
  | cons c r =>
    simp only [List.all_cons, Bool.and_eq_true] at hall
    refine ⟨c, r, rfl, isWs_of_plain hall.1 ?_, hall.1⟩
    intro hc; subst hc; exact hh rfl

theorem joined_of_plain : ∀ (ps : List Str), ps.all plainPara = true → ps ≠ [] → Joined (joinWith ['\n'] ps)
  | [], _, hne => absurd rfl hne
  | [p], h, _ => by
    simp only [List.all_cons, List.all_nil, Bool.and_true] at h
    obtain ⟨hne, hall, hh, hl, hnd, hx⟩ := plainPara_parts h
    have hc := clean_append p [] hall hnd hl rfl
    simp only [List.append_nil] at hc
    refine ⟨by simpa [joinWith] using hc, ?_, by simpa [joinWith] using hx, by simpa [joinWith] using hne⟩
    intro c r he
    obtain ⟨c', r', he', hw, _⟩ := plainPara_head h
    simp only [joinWith] at he
    rw [he'] at he; cases he; exact hw
  | p :: q :: r, h, _ => by
    simp only [List.all_cons, Bool.and_eq_true] at h
    have ih := joined_of_plain (q :: r) (by simp only [List.all_cons, Bool.and_eq_true]; exact h.2) (by simp)
    obtain ⟨hne, hall, hh, hl, hnd, hx⟩ := plainPara_parts h.1
    rw [joinWith_cons_cons]
    obtain ⟨d, t', hd⟩ : ∃ d t', joinWith ['\n'] (q :: r) = d :: t' := by
      cases hj : joinWith ['\n'] (q :: r) with
      | nil => exact absurd hj ih.ne
      | cons d t' => exact ⟨d, t', rfl⟩
    have hdw := ih.head d t' hd
    have hnl : clean ('\n' :: joinWith ['\n'] (q :: r)) = true := by
      rw [hd]
      simp only [clean, Bool.and_eq_true, Bool.or_eq_true]
      refine ⟨⟨Or.inl (by decide), Or.inr (by simp [hdw])⟩, ?_⟩
      have := ih.clean; rw [hd] at this; simpa [clean] using this
    refine ⟨?_, ?_, ?_, ?_⟩
    · simpa using clean_append p _ hall hnd hl hnl
    · intro c t he
      obtain ⟨c', r', he', hw, _⟩ := plainPara_head h.1
      rw [he'] at he; simp only [List.cons_append, List.append_assoc] at he
      cases he; exact hw
    · simpa using hexRunFree_append p _ '\n' (by decide) hx ih.hex
    · cases p with
      | nil => exact absurd rfl hne
      | cons c p => simp

theorem clean_noBs {s : Str} (h : clean s = true) : NoBs s := by
  intro c hc
  induction s with
  | nil => cases hc
  | cons x r ih =>
    rcases List.mem_cons.mp hc with rfl | hm
    · simp only [clean, Bool.and_eq_true, Bool.or_eq_true, beq_iff_eq] at h
      rcases h.1.1 with h1 | h1
      · subst h1; decide
      · simp only [plainChar, Bool.and_eq_true, bne_iff_ne] at h1
        exact h1.1.1.1.1
    · exact ih (clean_tail h) hm

/-- everything behind the control-word removal, on the text of a non-empty plain cell (with or without the
    space that the delimiter of the previous `\cell` leaves in front) -/
theorem tail_passes (N : Str) (J : Joined N) (lead : Str) (hl : lead = [] ∨ lead = [' ']) :
    pyStrip (multiNl (cellNl (cellSpace (hexRun (pyStrip (multiNl (multiSpace (removeBraces (lead ++ N))))))))) = N := by
  obtain ⟨hc, hh, hx, hne⟩ := J
  have hinner : pyStrip (multiNl (multiSpace (removeBraces (lead ++ N)))) = N := by
    rcases hl with rfl | rfl
    · simp only [List.nil_append]
      rw [removeBraces_clean N hc, multiSpace_clean N hc, multiNl_clean N hc]
      exact (pyStrip_clean N hc hh).1
    · have hc2 : clean (' ' :: N) = true := by
        cases N with
        | nil => exact absurd rfl hne
        | cons d t =>
          simp only [clean, Bool.and_eq_true, Bool.or_eq_true]
          refine ⟨⟨Or.inr (by decide), Or.inr (by simp [hh d t rfl])⟩, ?_⟩
          simpa [clean] using hc
      simp only [List.cons_append, List.nil_append]
      rw [removeBraces_clean _ hc2, multiSpace_clean _ hc2, multiNl_clean _ hc2]
      exact (pyStrip_clean N hc hh).2
  rw [hinner, hexRun_free N hx, cellSpace_clean N hc, cellNl_clean N hc, multiNl_clean N hc]
  exact (pyStrip_clean N hc hh).1

end S2T.Tables.Rtf
