import S2T.Lemmas.AesKatVec
/-! Known-answer validation of the specification `S2T.Spec.Fips197`, evaluated by the kernel.  SP 800-38A F.2.3/F.2.4 (CBC-AES192)
    (static file; independent of the Python source) -/
namespace S2T.AesL.Kat
open S2T.Spec.Fips197
set_option maxRecDepth 100000

/-- SP 800-38A F.2.3 CBC-AES192.Encrypt -/
theorem cbc192_encrypt : cbcEncrypt key192 iv pt = cbc192 := by decide +kernel
/-- SP 800-38A F.2.4 CBC-AES192.Decrypt -/
theorem cbc192_decrypt : cbcDecrypt key192 iv cbc192 = pt := by decide +kernel

end S2T.AesL.Kat
