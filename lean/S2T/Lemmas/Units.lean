import S2T.Model.Units
/-! Helper lemmas for C03 (core Lean only). -/
namespace S2T.Units

/-- strictly increasing and all ≥ 1: "numbers are strictly increasing and never repeat", 1-based -/
def StrictPos (l : List Nat) : Prop := l.Pairwise (· < ·) ∧ ∀ n ∈ l, 0 < n

theorem strictPos_range' (k n : Nat) (hk : 0 < k) : StrictPos (List.range' k n) := by
  refine ⟨List.pairwise_lt_range' 1, ?_⟩
  intro m hm
  have := (List.mem_range'_1.mp hm).1
  omega

/-! ### enumerate -/

theorem enumUnits_length {α} (f : Nat → α → DUnit) (k : Nat) (l : List α) : (enumUnits f k l).length = l.length := by
  induction l generalizing k with
  | nil => rfl
  | cons x r ih => simp [enumUnits, ih]

theorem enumUnits_numbers {α} (f : Nat → α → DUnit) (hf : ∀ k x, (f k x).number = k) (k : Nat) (l : List α) :
    (enumUnits f k l).map (·.number) = List.range' k l.length := by
  induction l generalizing k with
  | nil => rfl
  | cons x r ih => simp [enumUnits, hf, ih, List.range'_succ]

theorem enumUnits_get {α} (f : Nat → α → DUnit) (k : Nat) (l : List α) (i : Nat) (h : i < l.length) :
    (enumUnits f k l)[i]? = some (f (k + i) l[i]) := by
  induction l generalizing k i with
  | nil => simp at h
  | cons x r ih =>
    cases i with
    | zero => simp [enumUnits]
    | succ j =>
      simp only [enumUnits, List.getElem?_cons_succ, List.getElem_cons_succ]
      have := ih (k + 1) j (by simpa using h)
      rw [this]
      congr 2
      omega

/-! ### strip / blank -/

theorem dropWhile_eq_nil_iff' {α} (p : α → Bool) (l : List α) : l.dropWhile p = [] ↔ ∀ x ∈ l, p x = true := by
  induction l with
  | nil => simp
  | cons a r ih =>
    simp only [List.dropWhile_cons]
    split
    · rename_i h; simp [ih, h]
    · rename_i h; simp [h]

theorem strip_eq_nil_iff (T : Tables) (s : Str) : strip T s = [] ↔ blank T s = true := by
  unfold strip rstrip lstrip blank
  rw [List.reverse_eq_nil_iff, dropWhile_eq_nil_iff', List.all_eq_true]
  constructor
  · intro h
    -- every char of dropWhile ws s is ws ⇒ dropWhile ws s = [] ⇒ all of s is ws
    have h2 : List.dropWhile (isWs T) s = [] := by
      by_cases hn : List.dropWhile (isWs T) s = []
      · exact hn
      · have hh := List.head_dropWhile_not (isWs T) hn
        have hm : (List.dropWhile (isWs T) s).head hn ∈ (List.dropWhile (isWs T) s).reverse :=
          List.mem_reverse.mpr (List.head_mem hn)
        rw [h _ hm] at hh
        cases hh
    exact (dropWhile_eq_nil_iff' _ _).mp h2
  · intro h x hx
    have hx' : x ∈ List.dropWhile (isWs T) s := List.mem_reverse.mp hx
    exact h x ((List.dropWhile_suffix _).subset hx')

theorem strip_ne_nil_iff (T : Tables) (s : Str) : strip T s ≠ [] ↔ blank T s = false := by
  rw [Ne, strip_eq_nil_iff]; simp

/-- a non-empty `strip` result is itself not blank -/
theorem blank_strip_of_ne (T : Tables) (s : Str) (h : strip T s ≠ []) : blank T (strip T s) = false := by
  unfold strip rstrip at *
  have hy : List.dropWhile (isWs T) (lstrip T s).reverse ≠ [] := by
    intro hc; rw [hc] at h; exact h rfl
  have hh := List.head_dropWhile_not (isWs T) hy
  have hm : (List.dropWhile (isWs T) (lstrip T s).reverse).head hy ∈ (List.dropWhile (isWs T) (lstrip T s).reverse).reverse :=
    List.mem_reverse.mpr (List.head_mem hy)
  unfold blank
  apply Bool.eq_false_iff.mpr
  intro hall
  rw [List.all_eq_true] at hall
  rw [hall _ hm] at hh
  cases hh

theorem blank_append_left (T : Tables) (a b : Str) (h : blank T a = false) : blank T (a ++ b) = false := by
  unfold blank at *
  rw [List.all_append, h]; rfl

theorem joinNl_cons_blank (T : Tables) (l : Str) (ls : List Str) (h : blank T l = false) : blank T (joinNl (l :: ls)) = false := by
  cases ls with
  | nil => simpa [joinNl, List.intercalate] using h
  | cons m r =>
    have : joinNl (l :: m :: r) = l ++ ('\n' :: joinNl (m :: r)) := by
      simp [joinNl, List.intercalate, List.intersperse]
    rw [this]
    exact blank_append_left T _ _ h

/-- the text assembled from a non-empty list of non-blank lines is not empty (filter by `line != ""`) -/
theorem text_ne_nil_of_lines (T : Tables) (lines : List Str) (hne : lines ≠ []) (hl : ∀ l ∈ lines, blank T l = false) :
    strip T (joinNl (lines.filter (· ≠ []))) ≠ [] := by
  have hf : lines.filter (· ≠ []) = lines := by
    apply List.filter_eq_self.mpr
    intro l hm
    have := hl l hm
    simp only [ne_eq, decide_eq_true_eq]
    intro hc; subst hc; simp [blank] at this
  rw [hf, strip_ne_nil_iff]
  cases lines with
  | nil => exact absurd rfl hne
  | cons l ls => exact joinNl_cons_blank T l ls (hl l (List.mem_cons_self))

/-- same, for the DOCX filter `line.strip() != ""` -/
theorem text_ne_nil_of_lines' (T : Tables) (lines : List Str) (hne : lines ≠ []) (hl : ∀ l ∈ lines, blank T l = false) :
    strip T (joinNl (lines.filter (fun l => strip T l ≠ []))) ≠ [] := by
  have hf : lines.filter (fun l => strip T l ≠ []) = lines := by
    apply List.filter_eq_self.mpr
    intro l hm
    simp only [decide_eq_true_eq]
    exact (strip_ne_nil_iff T l).mpr (hl l hm)
  rw [hf, strip_ne_nil_iff]
  cases lines with
  | nil => exact absurd rfl hne
  | cons l ls => exact joinNl_cons_blank T l ls (hl l (List.mem_cons_self))

/-! ### heading-section machine (DOC / ODT) -/

/-- body pieces of an event list, in order -/
def evBodies : List Ev → List Str
  | [] => []
  | .body t :: r => t :: evBodies r
  | _ :: r => evBodies r

/-- what the machine may assume of its input: body texts are not blank (they are `strip` results) -/
def EvOk (T : Tables) : Ev → Prop
  | .body t => blank T t = false
  | _ => True

def textOfLines (T : Tables) (lines : List Str) : Str := strip T (joinNl (lines.filter (· ≠ [])))

structure SecInv (T : Tables) (s : Sec) : Prop where
  good : ∀ l ∈ s.lines, blank T l = false
  nums : s.units.map (·.number) = List.range' 1 s.units.length
  texts : ∀ u ∈ s.units, u.text = textOfLines T u.lines

def secCov (s : Sec) : List Str := s.units.flatMap (·.lines) ++ s.lines

theorem secFlush_spec (T : Tables) (mk : List Str → List Str) (s : Sec) (h : SecInv T s) :
    SecInv T (secFlush T mk s) ∧ secCov (secFlush T mk s) = secCov s ∧ (secFlush T mk s).lines = []
    ∧ (secFlush T mk s).any = s.any ∧ (secFlush T mk s).stackRev = s.stackRev ∧ (secFlush T mk s).pending = s.pending := by
  unfold secFlush
  simp only
  split
  · rename_i hc
    have hl : s.lines = [] := by
      by_cases hn : s.lines = []
      · exact hn
      · exact absurd hc.1 (text_ne_nil_of_lines T s.lines hn h.good)
    refine ⟨⟨by simp, h.nums, h.texts⟩, ?_, rfl, rfl, rfl, rfl⟩
    simp [secCov, hl]
  · refine ⟨⟨by simp, ?_, ?_⟩, ?_, rfl, rfl, rfl, rfl⟩
    · simp only [List.map_append, List.map_cons, List.map_nil, List.length_append, List.length_cons, List.length_nil]
      rw [h.nums, List.range'_1_concat]
      congr 2
      omega
    · intro u hu
      rcases List.mem_append.mp hu with hu | hu
      · exact h.texts u hu
      · simp only [List.mem_singleton] at hu
        subst hu; rfl
    · simp [secCov, List.flatMap_append]

theorem secStep_spec (T : Tables) (mk : List Str → List Str) (s : Sec) (e : Ev) (h : SecInv T s) (he : EvOk T e) :
    SecInv T (secStep T mk s e) ∧ secCov (secStep T mk s e) = secCov s ++ evBodies [e] := by
  cases e with
  | table => exact ⟨⟨h.good, h.nums, h.texts⟩, by simp [secStep, secCov, evBodies]⟩
  | body t =>
    refine ⟨⟨?_, h.nums, h.texts⟩, by simp [secStep, secCov, evBodies]⟩
    intro l hl
    simp only [secStep] at hl
    rcases List.mem_append.mp hl with hl | hl
    · exact h.good l hl
    · simp only [List.mem_singleton] at hl; subst hl; exact he
  | heading lv t =>
    have h0 : SecInv T { s with any := true } := ⟨h.good, h.nums, h.texts⟩
    obtain ⟨hi, hc, hl, _, _, _⟩ := secFlush_spec T mk { s with any := true } h0
    refine ⟨⟨?_, hi.nums, hi.texts⟩, ?_⟩
    · intro l hm
      simp only [secStep] at hm
      rw [hl] at hm; cases hm
    · simp only [secStep, secCov, evBodies, List.append_nil] at *
      rw [hl] at hc ⊢
      simpa using hc

theorem evBodies_append (a b : List Ev) : evBodies (a ++ b) = evBodies a ++ evBodies b := by
  induction a with
  | nil => rfl
  | cons e r ih => cases e <;> simp [evBodies, ih]

theorem secFold_spec (T : Tables) (mk : List Str → List Str) (evs : List Ev) (s : Sec) (h : SecInv T s)
    (he : ∀ e ∈ evs, EvOk T e) :
    SecInv T (evs.foldl (secStep T mk) s) ∧ secCov (evs.foldl (secStep T mk) s) = secCov s ++ evBodies evs := by
  induction evs generalizing s with
  | nil => simp [evBodies, h]
  | cons e r ih =>
    obtain ⟨h1, c1⟩ := secStep_spec T mk s e h (he e List.mem_cons_self)
    obtain ⟨h2, c2⟩ := ih (secStep T mk s e) h1 (fun x hx => he x (List.mem_cons_of_mem _ hx))
    refine ⟨h2, ?_⟩
    simp only [List.foldl_cons]
    rw [c2, c1, List.append_assoc]
    congr 1
    exact (evBodies_append [e] r).symm

def Ev.isHeading : Ev → Bool
  | .heading _ _ => true
  | _ => false

theorem secFlush_any (T : Tables) (mk : List Str → List Str) (s : Sec) : (secFlush T mk s).any = s.any := by
  unfold secFlush; simp only; split <;> rfl

theorem secStep_any (T : Tables) (mk : List Str → List Str) (s : Sec) (e : Ev) :
    (secStep T mk s e).any = (s.any || e.isHeading) := by
  cases e <;> simp [secStep, Ev.isHeading, secFlush_any]

theorem secFold_any (T : Tables) (mk : List Str → List Str) (evs : List Ev) (s : Sec) :
    (evs.foldl (secStep T mk) s).any = (s.any || evs.any Ev.isHeading) := by
  induction evs generalizing s with
  | nil => simp
  | cons e r ih => simp [ih, secStep_any, Bool.or_assoc]

theorem secRun_any (T : Tables) (mk : List Str → List Str) (evs : List Ev) :
    (secRun T mk evs).any = evs.any Ev.isHeading := by
  unfold secRun
  simp only [secFlush_any]
  rw [secFold_any]; rfl

theorem secInv_init (T : Tables) : SecInv T {} := ⟨by simp, by simp, by simp⟩

/-- the machine's result: numbering, text assembly, and exact cover of the body pieces -/
theorem secRun_spec (T : Tables) (mk : List Str → List Str) (evs : List Ev) (he : ∀ e ∈ evs, EvOk T e) :
    ((secRun T mk evs).units.map (·.number) = List.range' 1 (secRun T mk evs).units.length)
    ∧ (∀ u ∈ (secRun T mk evs).units, u.text = textOfLines T u.lines)
    ∧ (secRun T mk evs).units.flatMap (·.lines) = evBodies evs := by
  obtain ⟨h1, c1⟩ := secFold_spec T mk evs {} (secInv_init T) he
  unfold secRun
  simp only
  generalize hs : List.foldl (secStep T mk) {} evs = s at *
  have h2 : SecInv T { s with curTables := s.curTables + s.pending, pending := 0 } := ⟨h1.good, h1.nums, h1.texts⟩
  obtain ⟨hi, hc, hl, _⟩ := secFlush_spec T mk _ h2
  refine ⟨hi.nums, hi.texts, ?_⟩
  have : secCov (secFlush T mk { s with curTables := s.curTables + s.pending, pending := 0 }) = evBodies evs := by
    rw [hc]; simpa [secCov] using c1
  simpa [secCov, hl] using this

/-! ### DOCX loop -/

/-- body pieces of a DOCX paragraph list: stripped texts of the non-heading, non-blank paragraphs -/
def docxBodies (T : Tables) : List DocxPara → List Str
  | [] => []
  | p :: r => (if p.level = none ∧ strip T p.text ≠ [] then [strip T p.text] else []) ++ docxBodies T r

/-- `heading_stack` after paragraph `p` -/
def nextStack (T : Tables) (st : List (Int × Str)) (p : DocxPara) : List (Int × Str) :=
  match p.level with
  | some lv => (lv, strip T p.text) :: popStack lv st
  | none => st

/-- the body piece of `p` if the heading path is non-empty when `p` occurs -/
def docxKept1 (T : Tables) (st : List (Int × Str)) (p : DocxPara) : List Str :=
  if p.level = none ∧ pathOf st ≠ [] ∧ strip T p.text ≠ [] then [strip T p.text] else []

/-- the body piece of `p` if the heading path is empty when `p` occurs (before the first heading, or under
blank headings only) -/
def docxLost1 (T : Tables) (st : List (Int × Str)) (p : DocxPara) : List Str :=
  if p.level = none ∧ pathOf st = [] ∧ strip T p.text ≠ [] then [strip T p.text] else []

/-- body pieces that occur under a non-empty heading path, in order (`st` = heading stack so far) -/
def docxKept (T : Tables) : List (Int × Str) → List DocxPara → List Str
  | _, [] => []
  | st, p :: r => docxKept1 T st p ++ docxKept T (nextStack T st p) r

/-- body pieces that occur while the heading path is empty, in order -/
def docxLost (T : Tables) : List (Int × Str) → List DocxPara → List Str
  | _, [] => []
  | st, p :: r => docxLost1 T st p ++ docxLost T (nextStack T st p) r

theorem docxKept_eq_bodies (T : Tables) (ps : List DocxPara) (st : List (Int × Str)) (h : docxLost T st ps = []) :
    docxKept T st ps = docxBodies T ps := by
  induction ps generalizing st with
  | nil => rfl
  | cons p r ih =>
    simp only [docxLost, List.append_eq_nil_iff] at h
    simp only [docxKept, docxBodies, ih _ h.2]
    congr 1
    have h1 := h.1
    unfold docxLost1 at h1
    unfold docxKept1
    by_cases hl : p.level = none <;> by_cases ht : strip T p.text = [] <;> by_cases hp : pathOf st = [] <;> simp_all

def textOfLines' (T : Tables) (lines : List Str) : Str := strip T (joinNl (lines.filter (fun l => strip T l ≠ [])))

structure DocxInv (T : Tables) (s : DocxSt) : Prop where
  good : ∀ l ∈ s.lines, blank T l = false
  nums : s.units.map (·.number) = List.range' 1 s.units.length
  texts : ∀ u ∈ s.units, u.text = textOfLines' T u.lines
  pathEq : s.path = pathOf s.stackRev

/-- what is, or will be, in a unit: pending lines count only while the heading path is non-empty -/
def docxCov (s : DocxSt) : List Str := s.units.flatMap (·.lines) ++ (if s.path = [] then [] else s.lines)

theorem docxFlush_spec (T : Tables) (nx : Option Int) (s : DocxSt) (h : DocxInv T s) :
    (docxFlush T nx s).units.map (·.number) = List.range' 1 (docxFlush T nx s).units.length
    ∧ (∀ u ∈ (docxFlush T nx s).units, u.text = textOfLines' T u.lines)
    ∧ (docxFlush T nx s).units.flatMap (·.lines) = docxCov s
    ∧ (docxFlush T nx s).any = s.any ∧ (docxFlush T nx s).path = s.path ∧ (docxFlush T nx s).stackRev = s.stackRev := by
  have hempty : strip T (joinNl (s.lines.filter (fun l => strip T l ≠ []))) = [] → s.lines = [] := by
    intro hc
    by_cases hn : s.lines = []
    · exact hn
    · exact absurd hc (text_ne_nil_of_lines' T s.lines hn h.good)
  unfold docxFlush
  split
  · rename_i hp
    exact ⟨h.nums, h.texts, by simp [docxCov, hp], rfl, rfl, rfl⟩
  · rename_i hp
    simp only
    split
    · rename_i hc
      refine ⟨h.nums, h.texts, ?_, rfl, rfl, rfl⟩
      simp [docxCov, hempty hc.1.1]
    · refine ⟨?_, ?_, ?_, rfl, rfl, rfl⟩
      · simp only [List.map_append, List.map_cons, List.map_nil, List.length_append, List.length_cons, List.length_nil]
        rw [h.nums, List.range'_1_concat]
        congr 2
        omega
      · intro u hu
        rcases List.mem_append.mp hu with hu | hu
        · exact h.texts u hu
        · simp only [List.mem_singleton] at hu
          subst hu; rfl
      · simp [docxCov, List.flatMap_append, hp]

theorem docxBump_inv (T : Tables) (s : DocxSt) (p : DocxPara) (h : DocxInv T s) : DocxInv T (docxBump s p) :=
  ⟨h.good, h.nums, h.texts, h.pathEq⟩

theorem docxStep_spec (T : Tables) (s : DocxSt) (p : DocxPara) (rest : List DocxPara) (h : DocxInv T s) :
    DocxInv T (docxStep T s p rest) ∧ docxCov (docxStep T s p rest) = docxCov s ++ docxKept1 T s.stackRev p
    ∧ (docxStep T s p rest).any = (s.any || p.level.isSome)
    ∧ (docxStep T s p rest).stackRev = nextStack T s.stackRev p := by
  unfold docxStep
  cases hlv : p.level with
  | some lv =>
    simp only
    have h0 : DocxInv T { s with any := true } := ⟨h.good, h.nums, h.texts, h.pathEq⟩
    obtain ⟨hn, ht, hc, hany, _, hst⟩ := docxFlush_spec T (some lv) { s with any := true } h0
    refine ⟨⟨by simp, hn, ht, rfl⟩, ?_, by simpa using hany, by simp [nextStack, hlv, hst]⟩
    simp [docxCov, docxKept1, hlv, hc]
  | none =>
    simp only
    have h0 := docxBump_inv T s p h
    have hb1 : (docxBump s p).lines = s.lines := rfl
    have hb2 : (docxBump s p).units = s.units := rfl
    have hb3 : (docxBump s p).any = s.any := rfl
    have hb4 : (docxBump s p).path = s.path := rfl
    have hb5 : (docxBump s p).stackRev = s.stackRev := rfl
    have hcov : docxCov (docxBump s p) = docxCov s := rfl
    have hpe : pathOf s.stackRev = s.path := h.pathEq.symm
    generalize docxBump s p = s0 at *
    split
    · rename_i hc
      obtain ⟨hn, ht, hcv, hany, hpath, hst⟩ := docxFlush_spec T none s0 h0
      refine ⟨⟨by simp, hn, ht, by simp [hpath, hst, h0.pathEq]⟩, ?_, by simp [hany, hb3], by simp [nextStack, hlv, hst, hb5]⟩
      have hx : docxCov { (docxFlush T none s0) with lines := [], accImages := 0, accTables := 0, hasPayload := false }
          = (docxFlush T none s0).units.flatMap (·.lines) := by simp [docxCov]
      rw [hx, hcv, hcov]
      simp [docxKept1, hlv, hc.2.2.2.1]
    · split
      · rename_i ht
        refine ⟨⟨?_, h0.nums, h0.texts, h0.pathEq⟩, ?_, by simp [hb3], by simp [nextStack, hlv, hb5]⟩
        · intro l hl
          rcases List.mem_append.mp hl with hl | hl
          · exact h0.good l hl
          · simp only [List.mem_singleton] at hl; subst hl
            exact blank_strip_of_ne T _ ht
        · rw [← hcov]
          simp only [docxCov, docxKept1, hlv, hpe, ← hb4, ht, ne_eq, not_false_eq_true, and_true, true_and]
          by_cases hp : s0.path = [] <;> simp [hp]
      · rename_i ht
        refine ⟨h0, ?_, by simp [hb3], by simp [nextStack, hlv, hb5]⟩
        simp [hcov, docxKept1, hlv, ht]

theorem docxBodies_cons (T : Tables) (p : DocxPara) (r : List DocxPara) :
    docxBodies T (p :: r) = docxBodies T [p] ++ docxBodies T r := by
  simp [docxBodies]

theorem docxLoop_spec (T : Tables) (ps : List DocxPara) (s : DocxSt) (h : DocxInv T s) :
    DocxInv T (docxLoop T s ps) ∧ docxCov (docxLoop T s ps) = docxCov s ++ docxKept T s.stackRev ps
    ∧ (docxLoop T s ps).any = (s.any || ps.any (·.level.isSome)) := by
  induction ps generalizing s with
  | nil => simp [docxLoop, docxKept, h]
  | cons p r ih =>
    obtain ⟨h1, c1, a1, st1⟩ := docxStep_spec T s p r h
    obtain ⟨h2, c2, a2⟩ := ih (docxStep T s p r) h1
    refine ⟨h2, ?_, ?_⟩
    · simp only [docxLoop, docxKept]
      rw [c2, c1, st1, List.append_assoc]
    · simp only [docxLoop]
      rw [a2, a1]; simp [Bool.or_assoc]

theorem docxInv_init (T : Tables) : DocxInv T {} := ⟨by simp, by simp, by simp, rfl⟩

/-! ### event streams of DOC / ODT carry only non-blank body texts -/

theorem docLine_ok (T : Tables) (line : Str) : ∀ e ∈ docLine T line, EvOk T e := by
  intro e he
  unfold docLine at he
  split at he
  · simp only [List.mem_singleton] at he; subst he; trivial
  · simp only at he
    split at he
    · cases he
    · rename_i hne
      simp only [List.mem_singleton] at he; subst he
      exact blank_strip_of_ne T _ hne

theorem docEvents_ok (T : Tables) (lines : List Str) (tables : List (List Str)) : ∀ e ∈ docEvents T lines tables, EvOk T e := by
  induction lines generalizing tables with
  | nil => intro e he; simp [docEvents] at he
  | cons l r ih =>
    intro e he
    cases tables with
    | nil =>
      simp only [docEvents, List.mem_append] at he
      rcases he with he | he
      · exact docLine_ok T l e he
      · exact ih [] e he
    | cons tb tr =>
      simp only [docEvents] at he
      split at he
      · rcases List.mem_cons.mp he with he | he
        · subst he; trivial
        · exact ih tr e he
      · rcases List.mem_append.mp he with he | he
        · exact docLine_ok T l e he
        · exact ih (tb :: tr) e he

theorem odtEvents_ok (T : Tables) (ps : List OdtPara) (inT : Bool) (k : Nat) : ∀ e ∈ odtEvents T ps inT k, EvOk T e := by
  induction ps generalizing inT k with
  | nil => intro e he; simp [odtEvents] at he
  | cons p r ih =>
    intro e he
    unfold odtEvents at he
    split at he
    · simp only at he
      split at he
      · rcases List.mem_cons.mp he with he | he
        · subst he; trivial
        · exact ih _ _ e he
      · exact ih _ _ e he
    · split at he
      · split at he
        · split at he
          · exact ih _ _ e he
          · rcases List.mem_cons.mp he with he | he
            · subst he; trivial
            · exact ih _ _ e he
        · exact ih _ _ e he
      · simp only at he
        split at he
        · rename_i hne
          rcases List.mem_cons.mp he with he | he
          · subst he; exact blank_strip_of_ne T _ hne
          · exact ih _ _ e he
        · exact ih _ _ e he

/-! ### DOCX: heading texts stay reachable (stack / path invariant) -/

/-- stripped non-blank texts of the heading paragraphs -/
def docxHeads (T : Tables) : List DocxPara → List Str
  | [] => []
  | p :: r => (if p.level.isSome ∧ strip T p.text ≠ [] then [strip T p.text] else []) ++ docxHeads T r

theorem pathOf_cons (x : Int × Str) (st : List (Int × Str)) :
    pathOf (x :: st) = pathOf st ++ (if x.2 ≠ [] then [x.2] else []) := by
  unfold pathOf
  simp only [List.reverse_cons, List.map_append, List.filter_append, List.map_cons, List.map_nil]
  congr 1
  by_cases h : x.2 = [] <;> simp [h]

theorem popStack_of_top_lt (lv c : Int) (t : Str) (r : List (Int × Str)) (h : lv > c) :
    popStack lv ((c, t) :: r) = (c, t) :: r := by
  unfold popStack
  have : ¬ c ≥ lv := by omega
  simp [this]

theorem docxFlush_cases (T : Tables) (nx : Option Int) (s : DocxSt) :
    (docxFlush T nx s = s ∧ (s.path = [] ∨ deeper nx s.level = true))
    ∨ (∃ u : DUnit, u.path = s.path ∧ docxFlush T nx s = { s with units := s.units ++ [u] }) := by
  unfold docxFlush
  split
  · rename_i hp; exact Or.inl ⟨rfl, Or.inl hp⟩
  · simp only
    split
    · rename_i hc; exact Or.inl ⟨rfl, Or.inr hc.2⟩
    · exact Or.inr ⟨_, rfl, rfl⟩

structure HInv (s : DocxSt) (seen : List Str) : Prop where
  top : (s.stackRev.head?).map (·.1) = s.level
  pathEq : s.path = pathOf s.stackRev
  cov : ∀ h ∈ seen, h ∈ s.path ∨ ∃ u ∈ s.units, h ∈ u.path

theorem docxStep_heads (T : Tables) (s : DocxSt) (p : DocxPara) (rest : List DocxPara) (seen : List Str) (h : HInv s seen) :
    HInv (docxStep T s p rest) (seen ++ docxHeads T [p]) := by
  unfold docxStep
  cases hlv : p.level with
  | some lv =>
    simp only
    rcases docxFlush_cases T (some lv) { s with any := true } with ⟨he, hcase⟩ | ⟨u, hu, he⟩
    · -- nothing emitted
      rw [he]
      refine ⟨rfl, rfl, ?_⟩
      intro x hx
      simp only [docxHeads, hlv, Option.isSome_some, true_and, List.append_nil, List.mem_append] at hx
      rcases hx with hx | hx
      · rcases h.cov x hx with hp | hu
        · rcases hcase with hnil | hdeep
          · simp only at hnil; rw [hnil] at hp; cases hp
          · -- deeper: the old stack top stays below the new heading
            simp only at hdeep
            left
            simp only
            have htop := h.top
            cases hst : s.stackRev with
            | nil => rw [hst] at htop; simp at htop; rw [← htop] at hdeep; simp [deeper] at hdeep
            | cons a r =>
              rw [hst] at htop; simp at htop
              rw [← htop] at hdeep
              simp only [deeper, decide_eq_true_eq] at hdeep
              obtain ⟨c, t⟩ := a
              rw [popStack_of_top_lt lv c t r hdeep, pathOf_cons]
              apply List.mem_append_left
              rw [← hst, ← h.pathEq]; exact hp
        · exact Or.inr hu
      · left
        simp only
        rw [pathOf_cons]
        apply List.mem_append_right
        split at hx
        · rename_i hne; simp only [List.mem_singleton] at hx; subst hx; simp [hne]
        · cases hx
    · rw [he]
      refine ⟨rfl, rfl, ?_⟩
      intro x hx
      simp only [docxHeads, hlv, Option.isSome_some, true_and, List.append_nil, List.mem_append] at hx
      rcases hx with hx | hx
      · right
        rcases h.cov x hx with hp | ⟨w, hw, hxw⟩
        · exact ⟨u, by simp, by rw [hu]; exact hp⟩
        · exact ⟨w, by simp [hw], hxw⟩
      · left
        simp only
        rw [pathOf_cons]
        apply List.mem_append_right
        split at hx
        · rename_i hne; simp only [List.mem_singleton] at hx; subst hx; simp [hne]
        · cases hx
  | none =>
    simp only
    have hseen : seen ++ docxHeads T [p] = seen := by simp [docxHeads, hlv]
    rw [hseen]
    have h0 : HInv (docxBump s p) seen := ⟨h.top, h.pathEq, h.cov⟩
    generalize docxBump s p = s0 at *
    split
    · rename_i hc
      rcases docxFlush_cases T none s0 with ⟨he, hcase⟩ | ⟨u, hu, he⟩
      · rcases hcase with hnil | hdeep
        · exact absurd hnil hc.1
        · simp [deeper] at hdeep
      · rw [he]
        refine ⟨h0.top, h0.pathEq, ?_⟩
        intro x hx
        rcases h0.cov x hx with hp | ⟨w, hw, hxw⟩
        · exact Or.inl hp
        · exact Or.inr ⟨w, by simp [hw], hxw⟩
    · split
      · exact ⟨h0.top, h0.pathEq, h0.cov⟩
      · exact h0

theorem docxHeads_cons (T : Tables) (p : DocxPara) (r : List DocxPara) : docxHeads T (p :: r) = docxHeads T [p] ++ docxHeads T r := by
  simp [docxHeads]

theorem docxLoop_heads (T : Tables) (ps : List DocxPara) (s : DocxSt) (seen : List Str) (h : HInv s seen) :
    HInv (docxLoop T s ps) (seen ++ docxHeads T ps) := by
  induction ps generalizing s seen with
  | nil => simpa [docxLoop, docxHeads] using h
  | cons p r ih =>
    have := ih _ _ (docxStep_heads T s p r seen h)
    simp only [docxLoop]
    rw [docxHeads_cons, ← List.append_assoc]
    exact this

theorem docxHeads_any (T : Tables) (ps : List DocxPara) (x : Str) (hx : x ∈ docxHeads T ps) :
    ps.any (·.level.isSome) = true := by
  induction ps with
  | nil => simp [docxHeads] at hx
  | cons p r ih =>
    simp only [docxHeads, List.mem_append] at hx
    simp only [List.any_cons, Bool.or_eq_true]
    rcases hx with hx | hx
    · left
      split at hx
      · rename_i hc; exact hc.1
      · cases hx
    · exact Or.inr (ih hx)

theorem hinv_init : HInv {} [] := ⟨rfl, rfl, by simp⟩


/-! ### PPTX slide order -/

theorem slideOrder_eq_filterMap (rels : List Rel) (ids : List (Option Str)) :
    slideOrder rels ids = ids.filterMap (sldResolve rels) := by
  unfold slideOrder
  congr 1

/-! ### RTF: surrogate pairs and page buffers -/

/-- the buffer ends in a high surrogate (its low half, if any, would be in the next page's buffer) -/
def endsHigh : List Nat → Bool
  | [] => false
  | [c] => isHighSur c
  | _ :: r => endsHigh r

/-- number of `\page` / `\sbkpage` events -/
def rtfBreaks : List RtfEv → Nat
  | [] => 0
  | .brk :: r => rtfBreaks r + 1
  | .ch _ :: r => rtfBreaks r

theorem isSur_of_high {c : Nat} (h : isHighSur c = true) : isSur c = true := by
  simp only [isHighSur, isSur, Bool.and_eq_true, decide_eq_true_eq] at *
  omega

theorem not_high_of_low {c : Nat} (h : isLowSur c = true) : isHighSur c = false := by
  simp only [isHighSur, isLowSur, Bool.and_eq_true, decide_eq_true_eq, Bool.and_eq_false_iff, decide_eq_false_iff_not] at *
  omega

theorem endsHigh_cons_cons (a b : Nat) (r : List Nat) : endsHigh (a :: b :: r) = endsHigh (b :: r) := by
  simp [endsHigh]

theorem combineSur_cons_of_not_high (c : Nat) (r : List Nat) (h : isHighSur c = false) :
    combineSur (c :: r) = (if isSur c then 0xFFFD else c) :: combineSur r := by
  cases r with
  | nil => by_cases hs : isSur c = true <;> simp [combineSur, hs]
  | cons l r => simp [combineSur, h]

/-- cutting a buffer where it does not end in a high surrogate commutes with combining the pairs -/
theorem combineSur_append (a b : List Nat) (h : endsHigh a = false) :
    combineSur (a ++ b) = combineSur a ++ combineSur b := by
  induction a using combineSur.induct with
  | case1 => simp [combineSur]
  | case2 c _ =>
    have hc : isHighSur c = false := by simpa [endsHigh] using h
    rw [List.singleton_append, combineSur_cons_of_not_high c b hc, combineSur_cons_of_not_high c [] hc]
    simp [combineSur]
  | case3 c _ =>
    have hc : isHighSur c = false := by simpa [endsHigh] using h
    rw [List.singleton_append, combineSur_cons_of_not_high c b hc, combineSur_cons_of_not_high c [] hc]
    simp [combineSur]
  | case4 hi lo r hp ih =>
    have hr : endsHigh r = false := by
      cases r with
      | nil => rfl
      | cons x xs => rw [endsHigh_cons_cons, endsHigh_cons_cons] at h; exact h
    simp only [List.cons_append, combineSur, hp, ih hr]
    simp
  | case5 hi lo r hp ih =>
    have hr : endsHigh (lo :: r) = false := by rw [endsHigh_cons_cons] at h; exact h
    have := ih hr
    simp only [List.cons_append] at this ⊢
    simp only [combineSur, hp, this]
    simp

theorem combineSur_flatten (ps : List (List Nat)) (h : ∀ p ∈ ps, endsHigh p = false) :
    (ps.map combineSur).flatten = combineSur ps.flatten := by
  induction ps with
  | nil => simp [combineSur]
  | cons p r ih =>
    simp only [List.map_cons, List.flatten_cons]
    rw [combineSur_append p _ (h p (by simp)), ih (fun q hq => h q (by simp [hq]))]

theorem combineSur_pair (h l : Nat) (r : List Nat) (hp : (isHighSur h && isLowSur l) = true) :
    combineSur (h :: l :: r) = (0x10000 + (h - 0xD800) * 0x400 + (l - 0xDC00)) :: combineSur r := by
  simp [combineSur, hp]

theorem combineSur_nonpair (h l : Nat) (r : List Nat) (hp : ¬(isHighSur h && isLowSur l) = true) :
    combineSur (h :: l :: r) = (if isSur h then 0xFFFD else h) :: combineSur (l :: r) := by
  simp [combineSur, hp]

theorem isSur_fffd : isSur 0xFFFD = false := by decide

theorem isSur_ite (c : Nat) : isSur (if isSur c = true then 0xFFFD else c) = false := by
  by_cases hs : isSur c = true
  · rw [if_pos hs]; exact isSur_fffd
  · rw [if_neg hs]; simpa using hs

/-- the result of combining holds no surrogate code point: "the text stays encodable" -/
theorem combineSur_no_sur (l : List Nat) : ∀ x ∈ combineSur l, isSur x = false := by
  induction l using combineSur.induct with
  | case1 => simp [combineSur]
  | case2 c hs =>
    intro x hx
    have : combineSur [c] = [0xFFFD] := by simp [combineSur, hs]
    rw [this, List.mem_singleton] at hx
    rw [hx]; exact isSur_fffd
  | case3 c hs =>
    intro x hx
    have : combineSur [c] = [c] := by simp [combineSur, hs]
    rw [this, List.mem_singleton] at hx
    rw [hx]; simpa using hs
  | case4 hi lo r hp ih =>
    intro x hx
    rw [combineSur_pair hi lo r hp, List.mem_cons] at hx
    rcases hx with hx | hx
    · have hge : 0x10000 ≤ x := by omega
      simp only [isSur, Bool.and_eq_false_iff, decide_eq_false_iff_not]
      omega
    · exact ih x hx
  | case5 hi lo r hp ih =>
    intro x hx
    rw [combineSur_nonpair hi lo r hp, List.mem_cons] at hx
    rcases hx with hx | hx
    · rw [hx]; exact isSur_ite hi
    · exact ih x hx

/-- text without surrogates is unchanged (the function's early return is not a special case) -/
theorem combineSur_id (l : List Nat) (h : ∀ x ∈ l, isSur x = false) : combineSur l = l := by
  induction l with
  | nil => rfl
  | cons c r ih =>
    have hc : isSur c = false := h c (by simp)
    have hh : isHighSur c = false := by
      cases hq : isHighSur c with
      | false => rfl
      | true => rw [isSur_of_high hq] at hc; cases hc
    rw [combineSur_cons_of_not_high c r hh, ih (fun x hx => h x (by simp [hx]))]
    simp [hc]

theorem rtfPiecesAux_flatten (evs : List RtfEv) (cur : List Nat) :
    (rtfPiecesAux evs cur).flatten = cur.reverse ++ rtfChars evs := by
  induction evs generalizing cur with
  | nil => simp [rtfPiecesAux, rtfChars]
  | cons e r ih =>
    cases e with
    | ch c => simp [rtfPiecesAux, rtfChars, ih]
    | brk => simp [rtfPiecesAux, rtfChars, ih]

theorem rtfPiecesAux_length (evs : List RtfEv) (cur : List Nat) :
    (rtfPiecesAux evs cur).length = rtfBreaks evs + 1 := by
  induction evs generalizing cur with
  | nil => simp [rtfPiecesAux, rtfBreaks]
  | cons e r ih =>
    cases e with
    | ch c => simp [rtfPiecesAux, rtfBreaks, ih]
    | brk => simp [rtfPiecesAux, rtfBreaks, ih]

end S2T.Units
