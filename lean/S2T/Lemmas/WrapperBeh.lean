import S2T.Model.WrapperBeh
import S2T.Lemmas.Wrapper
/-! Soundness of the write/outcome behaviour analysis `behav`. -/
namespace S2T.Wrapper

theorem sat_add (a b : Nat) : sat (a + b) = addc (sat a) (sat b) := by
  unfold addc sat; (repeat' split) <;> omega

theorem addc_zero_sat (n : Nat) : addc 0 (sat n) = sat n := by
  unfold addc sat; (repeat' split) <;> omega

theorem countCh_append (c : Ch) (t t' : List Ch) : countCh c (t ++ t') = countCh c t + countCh c t' := by
  simp [countCh, List.filter_append]

theorem behOf_append (t t' : List Ch) (o : Out) : behOf (t ++ t') o = combine (behOf t .normal) (behOf t' o) := by
  simp only [behOf, combine, countCh_append, sat_add]

theorem kindOf_normal_iff (o : Out) : kindOf o = .normal ↔ o = .normal := by
  cases o with
  | raised e => cases e <;> simp [kindOf]
  | _ => simp [kindOf]

theorem behOf_fin (t t' : List Ch) (o o' : Out) :
    behOf (t ++ t') (if o' = .normal then o else o') = withFin (behOf t o) (behOf t' o') := by
  simp only [behOf, withFin, countCh_append, sat_add]
  by_cases h : o' = .normal
  · simp [h, kindOf]
  · have : ¬ kindOf o' = .normal := fun hk => h ((kindOf_normal_iff o').mp hk)
    simp [h, this]

theorem combine_behOf (t th : List Ch) (o0 o : Out) :
    combine (behOf t o0) (behOf th o) = behOf (t ++ th) o := by
  simp only [behOf, combine, countCh_append, sat_add]

def CurK (cur : Option Exn) (ck : List K) : Prop :=
  match cur with
  | none => ck = []
  | some e => kindOf (.raised e) ∈ ck

theorem exec_wf {H : Hier} {isFam : String → Bool} {root : String} (ok : HierOk H isFam root)
    {cur : Option Exn} {s : Stmt} {t : List Ch} {o : Out} (hex : Exec H isFam root cur s t o) :
    (∀ e0, cur = some e0 → WfExn H isFam root e0) → ∀ e, o = .raised e → WfExn H isFam root e := by
  induction hex with
  | atomOk => intro _ e he; cases he
  | atomRaise hwf => intro _ e he; cases he; exact hwf
  | writeOk => intro _ e he; cases he
  | writeRaise hwf _ => intro _ e he; cases he; exact hwf
  | raiseFam hf => intro _ e he; cases he; exact ⟨hf, ok.famRoot _ hf⟩
  | raiseOther _ => intro _ e he; cases he; trivial
  | reraise => intro hw e he; cases he; exact hw _ rfl
  | reraiseNone => intro _ e he; cases he; trivial
  | ret => intro _ e he; cases he
  | brk => intro _ e he; cases he
  | cont => intro _ e he; cases he
  | yield_ => intro _ e he; cases he
  | seqStop _ _ ih => exact ih
  | seqGo _ _ _ ih2 => exact ih2
  | iteL _ ih => exact ih
  | iteR _ ih => exact ih
  | loopDone => intro _ e he; cases he
  | loopBrk _ _ => intro _ e he; cases he
  | loopStep _ _ _ _ ih2 => exact ih2
  | loopExit _ _ ih => exact ih
  | tryNoExc _ hne _ ihb ihf =>
    intro hw e he
    rename_i o o' _ _
    by_cases hn : o' = .normal
    · simp only [hn, ↓reduceIte] at he; exact absurd he (hne e)
    · simp only [hn, ↓reduceIte] at he; exact ihf hw e he
  | tryUncaught _ _ _ ihb ihf =>
    intro hw e he
    rename_i e0 t t' o' _ _ _
    by_cases hn : o' = .normal
    · simp only [hn, ↓reduceIte] at he; cases he; exact ihb hw e0 rfl
    · simp only [hn, ↓reduceIte] at he; exact ihf hw e he
  | tryCaught _ _ _ _ _ ihb ihh ihf =>
    intro hw e he
    rename_i cur' body fin e0 o o' t th t' pre h post _ _ _ _ _
    by_cases hn : o' = .normal
    · simp only [hn, ↓reduceIte] at he
      exact ihh (by intro e1 he1; cases he1; exact ihb hw e0 rfl) e he
    · simp only [hn, ↓reduceIte] at he; exact ihf hw e he

theorem catchAll_catches (H : Hier) (isFam : String → Bool) (pats : List String) (e : Exn)
    (h : catchAll pats = true) : catchesAny H isFam pats e = true := by
  unfold catchAll at h
  obtain ⟨p, hp, hpc⟩ := List.any_eq_true.mp h
  exact List.any_eq_true.mpr ⟨p, hp, catches_catchall H isFam p e hpc⟩

theorem canPass_of_uncaught {H : Hier} {isFam : String → Bool} {root : String} (ok : HierOk H isFam root)
    (hs : List (List String × Stmt)) (e : Exn) (hwf : WfExn H isFam root e)
    (hun : ∀ h ∈ hs, catchesAny H isFam h.1 e = false) : canPass root hs (kindOf (.raised e)) = true := by
  unfold canPass
  simp only [Bool.and_eq_true, Bool.not_eq_true', Bool.and_eq_false_imp, decide_eq_true_eq]
  constructor
  · apply Bool.eq_false_iff.mpr
    intro hany
    obtain ⟨h, hh, hc⟩ := List.any_eq_true.mp hany
    have := hun h hh
    rw [catchAll_catches H isFam h.1 e hc] at this
    cases this
  · intro hk
    apply Bool.eq_false_iff.mpr
    intro hany
    obtain ⟨h, hh, hc⟩ := List.any_eq_true.mp hany
    cases e with
    | other n => simp [kindOf] at hk
    | fam c =>
      have hroot : root ∈ h.1 := by simpa using hc
      have hcat : catches H isFam root (.fam c) = true := by
        unfold catches
        split
        · rfl
        · simp only [WfExn] at hwf
          simp [ok.rootFam, hwf.2]
      have : catchesAny H isFam h.1 (.fam c) = true := List.any_eq_true.mpr ⟨root, hroot, hcat⟩
      rw [hun h hh] at this
      cases this

theorem mayCatch_of_catches {H : Hier} {isFam : String → Bool} (pats : List String) (e : Exn)
    (hc : catchesAny H isFam pats e = true) : mayCatch isFam pats (kindOf (.raised e)) = true := by
  unfold mayCatch
  by_cases hall : catchAll pats = true
  · simp [hall]
  · obtain ⟨p, hp, hpc⟩ := List.any_eq_true.mp hc
    have hnp : ¬ (p = "Exception" ∨ p = "BaseException" ∨ p = "") := by
      intro hcon
      apply hall
      exact List.any_eq_true.mpr ⟨p, hp, by rcases hcon with h | h | h <;> simp [h]⟩
    unfold catches at hpc
    simp only [hnp, ↓reduceIte] at hpc
    cases e with
    | fam c =>
      simp only [Bool.and_eq_true] at hpc
      simp only [kindOf, Bool.or_eq_true]
      right
      exact List.any_eq_true.mpr ⟨p, hp, hpc.1⟩
    | other n =>
      simp only [Bool.and_eq_true] at hpc
      simp only [kindOf, Bool.or_eq_true]
      right
      exact List.any_eq_true.mpr ⟨p, hp, hpc.1⟩

theorem behavHandlers_mem {root : String} {isFam : String → Bool} (x y : Beh)
    (pre : List (List String × Stmt)) (h : List String × Stmt) (post : List (List String × Stmt))
    (hm : mayCatch isFam h.1 x.k = true) (hy : y ∈ behav root isFam [x.k] h.2) :
    combine x y ∈ behavHandlers root isFam x (pre ++ h :: post) := by
  induction pre with
  | nil =>
    obtain ⟨pats, hb⟩ := h
    simp only [List.nil_append, behavHandlers]
    apply List.mem_append_left
    simp only at hm hy
    simp only [hm, ↓reduceIte]
    exact List.mem_map.mpr ⟨y, hy, rfl⟩
  | cons p ps ih =>
    obtain ⟨pp, pb⟩ := p
    simp only [List.cons_append, behavHandlers]
    exact List.mem_append_right _ ih

theorem isExit_kindOf (o : Out) (h : (∃ g, o = .ret g) ∨ ∃ e, o = .raised e) : isExit (kindOf o) = true := by
  rcases h with ⟨g, rfl⟩ | ⟨e, rfl⟩
  · rfl
  · cases e <;> rfl

theorem mem_loopTop (bs : List Beh) (a b : Nat) (k : K) (hk : k = .normal ∨ (k ∈ bs.map (·.k) ∧ isExit k = true)) :
    (⟨sat a, sat b, k⟩ : Beh) ∈ loopTop bs := by
  unfold loopTop
  apply List.mem_flatMap.mpr
  refine ⟨k, ?_, ?_⟩
  · rcases hk with h | ⟨h1, h2⟩
    · simp [h]
    · exact List.mem_cons_of_mem _ (List.mem_filter.mpr ⟨h1, h2⟩)
  · apply List.mem_flatMap.mpr
    have hsat : ∀ n, sat n ∈ [0, 1, 2] := by
      intro n; unfold sat; split
      · simp
      · have : n = 0 ∨ n = 1 := by omega
        rcases this with h | h <;> simp [h]
    exact ⟨sat a, hsat a, List.mem_map.mpr ⟨sat b, hsat b, rfl⟩⟩

/-- **Soundness of the behaviour analysis.** -/
theorem behav_sound {H : Hier} {isFam : String → Bool} {root : String} (ok : HierOk H isFam root)
    {cur : Option Exn} {s : Stmt} {t : List Ch} {o : Out} (hex : Exec H isFam root cur s t o) :
    ∀ (ck : List K), CurK cur ck → (∀ e0, cur = some e0 → WfExn H isFam root e0) →
      behOf t o ∈ behav root isFam ck s := by
  induction hex with
  | atomOk => intro ck _ _; simp [behav, behOf, countCh, sat, kindOf]
  | @atomRaise cur tag e hwf =>
    intro ck _ _
    cases e <;> simp [behav, behOf, countCh, sat, kindOf]
  | @writeOk cur ch total =>
    intro ck _ _
    cases ch <;> cases total <;> simp [behav, behOf, countCh, sat, kindOf]
  | @writeRaise cur ch e tr hwf htr =>
    intro ck _ _
    rcases htr with rfl | rfl <;> cases ch <;> cases e <;> simp [behav, behOf, countCh, sat, kindOf]
  | raiseFam hf => intro ck _ _; simp [behav, behOf, countCh, sat, kindOf, hf]
  | raiseOther hf => intro ck _ _; simp [behav, behOf, countCh, sat, kindOf, hf]
  | @reraise e =>
    intro ck hc _
    simp only [CurK] at hc
    simp only [behav]
    have hne : ck.isEmpty = false := by
      cases ck with
      | nil => cases hc
      | cons _ _ => rfl
    simp only [hne, Bool.false_eq_true, ↓reduceIte]
    exact List.mem_map.mpr ⟨_, hc, by simp [behOf, countCh, sat]⟩
  | reraiseNone =>
    intro ck hc _
    simp only [CurK] at hc
    subst hc
    simp [behav, behOf, countCh, sat, kindOf]
  | ret => intro ck _ _; simp [behav, behOf, countCh, sat, kindOf]
  | brk => intro ck _ _; simp [behav, behOf, countCh, sat, kindOf]
  | cont => intro ck _ _; simp [behav, behOf, countCh, sat, kindOf]
  | yield_ => intro ck _ _; simp [behav, behOf, countCh, sat, kindOf]
  | @seqStop cur a b t o _ hne ih =>
    intro ck hc hw
    simp only [behav]
    apply List.mem_flatMap.mpr
    refine ⟨_, ih ck hc hw, ?_⟩
    have : ¬ (behOf t o).k = K.normal := fun hk => hne ((kindOf_normal_iff _).mp hk)
    simp only [this, ↓reduceIte, List.mem_singleton]
  | @seqGo cur a b t t' o _ _ ih1 ih2 =>
    intro ck hc hw
    simp only [behav]
    apply List.mem_flatMap.mpr
    refine ⟨_, ih1 ck hc hw, ?_⟩
    have : (behOf t Out.normal).k = K.normal := rfl
    simp only [this, ↓reduceIte]
    exact List.mem_map.mpr ⟨_, ih2 ck hc hw, (combine_behOf _ _ _ _)⟩
  | iteL _ ih => intro ck hc hw; simp only [behav]; exact List.mem_append_left _ (ih ck hc hw)
  | iteR _ ih => intro ck hc hw; simp only [behav]; exact List.mem_append_right _ (ih ck hc hw)
  | loopDone =>
    intro ck _ _
    simp only [behav]
    split
    · simp [behOf, countCh, sat, kindOf]
    · exact mem_loopTop _ 0 0 _ (Or.inl rfl)
  | @loopBrk cur b t _ ih =>
    intro ck hc hw
    have hb := ih ck hc hw
    simp only [behav]
    split
    · rename_i hall
      have := List.all_eq_true.mp hall _ hb
      simp only [behOf, Bool.and_eq_true, decide_eq_true_eq] at this
      have this := And.intro (of_decide_eq_true this.1) (of_decide_eq_true this.2)
      show (⟨sat (countCh Ch.out t), sat (countCh Ch.err t), K.normal⟩ : Beh) ∈ _
      rw [this.1, this.2]
      exact List.mem_cons_self
    · exact mem_loopTop _ _ _ _ (Or.inl rfl)
  | @loopStep cur b t t' o o' _ hno _ ih1 ih2 =>
    intro ck hc hw
    have hb := ih1 ck hc hw
    have hl := ih2 ck hc hw
    simp only [behav] at hl ⊢
    split
    · rename_i hall
      simp only [hall, ↓reduceIte] at hl
      have := List.all_eq_true.mp hall _ hb
      simp only [behOf, Bool.and_eq_true, decide_eq_true_eq] at this
      have this := And.intro (of_decide_eq_true this.1) (of_decide_eq_true this.2)
      have h0 : behOf (t ++ t') o' = behOf t' o' := by
        show (⟨sat (countCh Ch.out (t ++ t')), sat (countCh Ch.err (t ++ t')), kindOf o'⟩ : Beh) = _
        rw [countCh_append, countCh_append, sat_add, sat_add, this.1, this.2, addc_zero_sat, addc_zero_sat]
        rfl
      rw [h0]; exact hl
    · rename_i hall
      simp only [hall, Bool.false_eq_true, ↓reduceIte] at hl
      -- kind of the remainder is allowed in loopTop; counts arbitrary
      unfold loopTop at hl
      obtain ⟨k, hk, hrest⟩ := List.mem_flatMap.mp hl
      obtain ⟨o1, _, hrest2⟩ := List.mem_flatMap.mp hrest
      obtain ⟨e1, _, heq⟩ := List.mem_map.mp hrest2
      have hkk : k = kindOf o' := by
        have := congrArg Beh.k heq
        simpa [behOf] using this
      subst hkk
      apply mem_loopTop
      rcases List.mem_cons.mp hk with h | h
      · left; exact h
      · right; exact ⟨(List.mem_filter.mp h).1, (List.mem_filter.mp h).2⟩
  | loopExit _ hex ih =>
    intro ck hc hw
    have hb := ih ck hc hw
    simp only [behav]
    split
    · apply List.mem_cons_of_mem
      exact List.mem_filter.mpr ⟨hb, isExit_kindOf _ hex⟩
    · apply mem_loopTop
      right
      exact ⟨List.mem_map.mpr ⟨_, hb, rfl⟩, isExit_kindOf _ hex⟩
  | @tryNoExc cur body hs fin t t' o o' _ hne _ ihb ihf =>
    intro ck hc hw
    simp only [behav]
    apply List.mem_flatMap.mpr
    refine ⟨behOf t o, ?_, List.mem_map.mpr ⟨_, ihf ck hc hw, (behOf_fin _ _ _ _).symm⟩⟩
    apply List.mem_flatMap.mpr
    refine ⟨_, ihb ck hc hw, ?_⟩
    have : isRaise (behOf t o).k = false := by
      cases o with
      | raised e => exact absurd rfl (hne e)
      | _ => rfl
    simp [this]
  | @tryUncaught cur body hs fin e t t' o' hexb hun _ ihb ihf =>
    intro ck hc hw
    simp only [behav]
    apply List.mem_flatMap.mpr
    refine ⟨behOf t (.raised e), ?_, List.mem_map.mpr ⟨_, ihf ck hc hw, (behOf_fin _ _ _ _).symm⟩⟩
    apply List.mem_flatMap.mpr
    refine ⟨_, ihb ck hc hw, ?_⟩
    have hr : isRaise (behOf t (.raised e)).k = true := by cases e <;> rfl
    simp only [hr, ↓reduceIte]
    apply List.mem_append_left
    have hwf := exec_wf ok hexb hw e rfl
    have := canPass_of_uncaught ok hs e hwf hun
    simp only [behOf] at this ⊢
    simp [this]
  | @tryCaught cur body fin e o o' t th t' pre h post hexb hpre hcatch _ _ ihb ihh ihf =>
    intro ck hc hw
    simp only [behav]
    apply List.mem_flatMap.mpr
    refine ⟨behOf (t ++ th) o, ?_, List.mem_map.mpr ⟨_, ihf ck hc hw, ?_⟩⟩
    · apply List.mem_flatMap.mpr
      refine ⟨_, ihb ck hc hw, ?_⟩
      have hr : isRaise (behOf t (.raised e)).k = true := by cases e <;> rfl
      simp only [hr, ↓reduceIte]
      apply List.mem_append_right
      have hwf := exec_wf ok hexb hw e rfl
      have hy := ihh [kindOf (.raised e)] (by simp [CurK]) (by intro e1 he1; cases he1; exact hwf)
      have := behavHandlers_mem (root := root) (isFam := isFam) (behOf t (.raised e)) (behOf th o) pre h post
        (mayCatch_of_catches h.1 e hcatch) hy
      rw [combine_behOf] at this
      exact this
    · rw [List.append_assoc]
      have := (behOf_fin (t ++ th) t' o o').symm
      rw [List.append_assoc] at this
      exact this

end S2T.Wrapper
