import S2T.Lemmas.TablesRtfCellText
/-! Where `\trowd`, `\row`, `\cell` match in written text; the cells of a written row. -/
namespace S2T.Tables.Rtf
open S2T.HtmlSkip (Str)
open S2T.Tables

/-! ## where `\\kw\b` cannot match -/

/-- no match of `\\kw\b` starts inside `a` when `b` follows -/
def Quiet (P : Params) (kw a b : Str) : Prop := AllSuffix (fun t => kwAt P kw (t ++ b) = false) a

theorem kwAt_noBs (P : Params) (kw : Str) (c : Char) (r : Str) (h : c ≠ '\\') : kwAt P kw (c :: r) = false := by
  unfold kwAt
  split
  · rename_i heq; cases heq; exact absurd rfl h
  · rfl

theorem quiet_noBs (P : Params) (kw a b : Str) (ha : NoBs a) : Quiet P kw a b := by
  induction a with
  | nil => trivial
  | cons c a ih =>
    exact ⟨kwAt_noBs P kw c _ (ha c List.mem_cons_self), ih (fun x hx => ha x (List.mem_cons_of_mem _ hx))⟩

theorem quiet_append (P : Params) (kw a1 a2 b : Str) (h1 : Quiet P kw a1 (a2 ++ b)) (h2 : Quiet P kw a2 b) :
    Quiet P kw (a1 ++ a2) b := by
  induction a1 with
  | nil => exact h2
  | cons c a ih =>
    obtain ⟨h, h'⟩ := h1
    exact ⟨by simpa using h, ih h'⟩

theorem quiet_nil (P : Params) (kw b : Str) : Quiet P kw [] b := trivial

/-- the word after the backslash is not `kw` -/
theorem kwAt_other (P : Params) (kw r : Str) (h : kw.isPrefixOf r = false) : kwAt P kw ('\\' :: r) = false := by
  simp [kwAt, h]

/-- a control word that starts with another letter than `kw` -/
theorem quiet_first (P : Params) (kw : Str) (x : Char) (w b : Str) (hw : NoBs (x :: w)) (hx : kw.head? ≠ some x)
    (hne : kw ≠ []) : Quiet P kw ('\\' :: x :: w) b := by
  refine ⟨?_, quiet_noBs P kw (x :: w) b hw⟩
  apply kwAt_other
  cases kw with
  | nil => exact absurd rfl hne
  | cons k0 kw' =>
    have : k0 ≠ x := by intro h; subst h; exact hx rfl
    simp [List.isPrefixOf, this]

/-- the three keywords the table extraction looks for -/
def IsKw (kw : Str) : Prop := kw = sCell ∨ kw = sTrowd ∨ kw = sRow

theorem isKw_first {kw : Str} (h : IsKw kw) (x : Char) (hx : x ≠ 'c' ∧ x ≠ 't' ∧ x ≠ 'r') :
    kw.head? ≠ some x ∧ kw ≠ [] := by
  rcases h with rfl | rfl | rfl
  · exact ⟨by simp [sCell]; exact fun h => hx.1 h.symm, by decide⟩
  · exact ⟨by simp [sTrowd]; exact fun h => hx.2.1 h.symm, by decide⟩
  · exact ⟨by simp [sRow]; exact fun h => hx.2.2 h.symm, by decide⟩

theorem noBs_escUnit_tail (u : Nat) : ∃ w, escUnit u = '\\' :: 'u' :: w ∧ NoBs ('u' :: w) := by
  unfold escUnit
  split
  · exact ⟨_, rfl, noBs_append (a := ['u']) (noBs_of_all _ (by decide)) (noBs_append (noBs_digits _) (noBs_of_all _ (by decide)))⟩
  · exact ⟨_, rfl, noBs_append (a := ['u', '-']) (noBs_of_all _ (by decide)) (noBs_append (noBs_digits _) (noBs_of_all _ (by decide)))⟩

theorem quiet_esc (P : Params) {kw : Str} (hk : IsKw kw) (p b : Str) (hp : p.all textChar = true) :
    Quiet P kw (esc p) b := by
  induction p generalizing b with
  | nil => exact quiet_nil P kw b
  | cons c p ih =>
    simp only [List.all_cons, Bool.and_eq_true] at hp
    have hc := hp.1
    simp only [textChar, Bool.and_eq_true, bne_iff_ne, ne_eq, decide_eq_true_eq] at hc
    obtain ⟨⟨⟨h1, h2⟩, h3⟩, h4⟩ := hc
    have : esc (c :: p) = escChar c ++ esc p := by simp [esc]
    rw [this]
    apply quiet_append _ _ _ _ _ _ (ih b hp.2)
    by_cases h128 : c.toNat < 128
    · have : escChar c = [c] := by simp [escChar, h1, h2, h3, h128]
      rw [this]; exact quiet_noBs P kw [c] _ (by intro x hx; simp at hx; subst hx; exact h1)
    · have : escChar c = escUnit c.toNat := by simp [escChar, h1, h2, h3, h128, h4]
      rw [this]
      obtain ⟨w, hw, hnb⟩ := noBs_escUnit_tail c.toNat
      rw [hw]
      obtain ⟨hf, hne⟩ := isKw_first hk 'u' (by decide)
      exact quiet_first P kw 'u' w _ hnb hf hne

theorem quiet_sPar (P : Params) {kw : Str} (hk : IsKw kw) (b : Str) : Quiet P kw sPar b := by
  obtain ⟨hf, hne⟩ := isKw_first hk 'p' (by decide)
  exact quiet_first P kw 'p' "ar ".toList b (noBs_of_all _ (by decide)) hf hne

theorem quiet_join (P : Params) {kw : Str} (hk : IsKw kw) : ∀ (ps : List Str) (b : Str),
    (∀ p ∈ ps, p.all textChar = true) → Quiet P kw (joinWith sPar (ps.map esc)) b
  | [], b, _ => quiet_nil P kw b
  | [p], b, h => by simpa [joinWith] using quiet_esc P hk p b (h p List.mem_cons_self)
  | p :: q :: r, b, h => by
    simp only [List.map_cons]
    rw [joinWith_cons_cons]
    have ih := quiet_join P hk (q :: r) b (fun x hx => h x (List.mem_cons_of_mem _ hx))
    simp only [List.map_cons] at ih
    exact quiet_append _ _ _ _ _ (quiet_append _ _ _ _ _ (quiet_esc P hk p _ (h p List.mem_cons_self)) (quiet_sPar P hk _)) ih

theorem quiet_cellStart (P : Params) {kw : Str} (hk : IsKw kw) (b : Str) : Quiet P kw sCellStart b := by
  have e : sCellStart = ('\\' :: 'p' :: "ard".toList) ++ ('\\' :: 'i' :: "ntbl ".toList) := by rfl
  rw [e]
  obtain ⟨hf, hne⟩ := isKw_first hk 'p' (by decide)
  obtain ⟨hf2, _⟩ := isKw_first hk 'i' (by decide)
  exact quiet_append _ _ _ _ _ (quiet_first P kw 'p' _ _ (noBs_of_all _ (by decide)) hf hne)
    (quiet_first P kw 'i' _ _ (noBs_of_all _ (by decide)) hf2 hne)

/-- `\cellxN`: `\cell` is followed by a word character, the other two keywords start with another letter -/
theorem quiet_cellxW (P : Params) {kw : Str} (hk : IsKw kw) (k : Nat) (b : Str) : Quiet P kw (cellxW k) b := by
  have hnb : NoBs ("cellx".toList ++ toDec k) := noBs_append (noBs_of_all _ (by decide)) (noBs_digits k)
  refine ⟨?_, quiet_noBs P kw _ b hnb⟩
  rcases hk with rfl | rfl | rfl
  · have : ('\\' :: ("cellx".toList ++ toDec k)) ++ b = '\\' :: 'c' :: 'e' :: 'l' :: 'l' :: 'x' :: (toDec k ++ b) := by simp
    rw [this]
    simp [kwAt, sCell, List.isPrefixOf, isWord, isAsciiAlpha]
  · exact kwAt_other P _ _ (by simp [sTrowd, List.isPrefixOf])
  · exact kwAt_other P _ _ (by simp [sRow, List.isPrefixOf])

theorem quiet_cellxs (P : Params) {kw : Str} (hk : IsKw kw) : ∀ (n i : Nat) (b : Str), Quiet P kw (cellxs i n) b
  | 0, _, b => quiet_nil P kw b
  | n + 1, i, b => by
    rw [cellxs_succ]
    exact quiet_append _ _ _ _ _ (quiet_cellxW P hk _ _) (quiet_cellxs P hk n (i + 1) b)

/-- the body of a written cell (between `\pard\intbl ` and `\cell `) -/
def bodyRtf (c : RCell) : Str := joinWith sPar (c.map esc)

theorem cellRtf_eq (c : RCell) : cellRtf c = sCellStart ++ bodyRtf c ++ sCellEnd := rfl

theorem quiet_cellFront (P : Params) {kw : Str} (hk : IsKw kw) (c : RCell) (hc : plainCell c = true) (b : Str) :
    Quiet P kw (sCellStart ++ bodyRtf c) b :=
  quiet_append _ _ _ _ _ (quiet_cellStart P hk _)
    (quiet_join P hk c b (fun p hp => plainPara_textChar (List.all_eq_true.mp hc p hp)))

/-! ## `re.split(r"\\cell\b", row)` -/

theorem splitKw_skip (P : Params) (kw a b cur : Str) (k : Nat) :
    splitKw P kw (a.length + k) cur (a ++ b) = splitKw P kw k cur b := by
  induction a with
  | nil => simp
  | cons c a ih =>
    have : (c :: a).length + k = (a.length + k) + 1 := by simp; omega
    rw [this]; simp only [List.cons_append, splitKw]; exact ih

theorem splitKw_quiet (P : Params) (kw a b cur : Str) (h : Quiet P kw a b) :
    splitKw P kw 0 cur (a ++ b) = splitKw P kw 0 (a.reverse ++ cur) b := by
  induction a generalizing cur with
  | nil => rfl
  | cons c a ih =>
    obtain ⟨h1, h2⟩ := h
    simp only [List.cons_append] at h1 ⊢
    simp only [splitKw, h1, Bool.false_eq_true, if_false]
    rw [ih _ h2]; simp

theorem splitKw_hit (P : Params) (kw b cur : Str) (h : kwAt P kw ('\\' :: (kw ++ b)) = true) :
    splitKw P kw 0 cur ('\\' :: (kw ++ b)) = cur.reverse :: splitKw P kw 0 [] b := by
  simp only [splitKw, h, if_true]
  have := splitKw_skip P kw kw b [] 0
  simpa using this

theorem kwAt_cellEnd (P : Params) (b : Str) : kwAt P sCell ('\\' :: (sCell ++ (' ' :: b))) = true := by
  have : '\\' :: (sCell ++ (' ' :: b)) = '\\' :: 'c' :: 'e' :: 'l' :: 'l' :: ' ' :: b := by rfl
  rw [this]
  simp [kwAt, sCell, List.isPrefixOf, isWord, isAsciiAlpha, isDigit]

/-- the pieces of the cells of a row, each with the space the previous `\cell ` leaves in front -/
theorem split_cells (P : Params) : ∀ (cs : List RCell) (tail : Str), (∀ c ∈ cs, plainCell c = true) →
    Quiet P sCell tail [] →
    splitKw P sCell 0 [' '] (cs.flatMap cellRtf ++ tail) =
      cs.map (fun c => [' '] ++ sCellStart ++ bodyRtf c) ++ [[' '] ++ tail]
  | [], tail, _, ht => by
    have := splitKw_quiet P sCell tail [] [' '] ht
    simp only [List.append_nil] at this
    simp only [List.flatMap_nil, List.nil_append, List.map_nil, this, splitKw]
    simp
  | c :: cs, tail, h, ht => by
    have e : (c :: cs).flatMap cellRtf ++ tail =
        (sCellStart ++ bodyRtf c) ++ ('\\' :: (sCell ++ (' ' :: (cs.flatMap cellRtf ++ tail)))) := by
      simp only [List.flatMap_cons, cellRtf_eq, List.append_assoc]
      rfl
    rw [e, splitKw_quiet P sCell _ _ _ (quiet_cellFront P (Or.inl rfl) c (h c List.mem_cons_self) _),
      splitKw_hit P sCell _ _ (kwAt_cellEnd P _)]
    have ih := split_cells P cs tail (fun x hx => h x (List.mem_cons_of_mem _ hx)) ht
    -- the next piece starts with the space behind `\cell`
    have e2 : splitKw P sCell 0 [] (' ' :: (cs.flatMap cellRtf ++ tail)) =
        splitKw P sCell 0 [' '] (cs.flatMap cellRtf ++ tail) := by
      simp only [splitKw, kwAt_noBs P sCell ' ' _ (by decide), Bool.false_eq_true, if_false]
    rw [e2, ih]
    simp

end S2T.Tables.Rtf
