import S2T.Lemmas.HtmlSkip
import S2T.Spec.HtmlBook
/-! Helper lemmas for C17 on histories of documents (unclosed tails, one parser per document vs. a reused one). -/
namespace S2T.HtmlSkip

variable {σ : Type} (T : Tables) (D : Down σ)

/-- An unclosed removed element at the end of a document: the gate stays inside it (same tag, depth ≥ 1) and
    nothing of it reaches the class-specific part. -/
theorem run_unclosed (t : Str) (a : Attrs) (junk : List Ev) (h : TailOk T (.unclosed t a junk) = true)
    (st : St σ) (hc : Clean st) :
    ∃ k : Nat, run T D st (Tail.unclosed t a junk).events =
      { st with skipTag := some t, skipDepth := (k : Int) + 1 } := by
  obtain ⟨hd, _⟩ := hc
  have hnp : ¬ (st.skipDepth > 0) := by omega
  simp only [TailOk, Bool.and_eq_true, Bool.not_eq_true'] at h
  obtain ⟨⟨hr, hv⟩, hb⟩ := h
  have hr' : t ∈ T.remove := by simpa using hr
  have hv' : t ∉ T.void := by simpa using hv
  obtain ⟨k, hk⟩ := Option.isSome_iff_exists.mp hb
  refine ⟨k, ?_⟩
  simp only [Tail.events]
  rw [run_cons]
  have hs : step T D st (.start t a) = { st with skipTag := some t, skipDepth := 1 } := by
    simp [step, handleStarttag, hnp, hr', hv']
  rw [hs]
  exact run_junk T D t junk 0 k { st with skipTag := some t, skipDepth := 1 } rfl (by simp) hk

theorem run_tail_down (tl : Tail) (h : TailOk T tl = true) (st : St σ) (hc : Clean st) :
    (run T D st tl.events).down = st.down := by
  cases tl with
  | complete => rfl
  | unclosed t a junk =>
    obtain ⟨k, hk⟩ := run_unclosed T D t a junk h st hc
    rw [hk]

/-- One content document, started outside any removed element: the class-specific part receives exactly the
    calls of the visible items that precede the unclosed tail (all of them when there is none). -/
theorem run_chapter_down (c : Chapter) (h : ChapterOk T c = true) (st : St σ) (hc : Clean st) :
    (run T D st c.events).down = D.feed st.down (downEvents c.doc) := by
  simp only [ChapterOk, Bool.and_eq_true] at h
  simp only [Chapter.events]
  rw [run_append, run_doc T D c.doc st h.1 hc]
  exact run_tail_down T D c.tail h.2 _ hc

theorem chapter_strip_ok (c : Chapter) (h : ChapterOk T c = true) : ChapterOk T c.strip = true := by
  simp only [ChapterOk, Bool.and_eq_true] at h
  simp [ChapterOk, Chapter.strip, TailOk, strip_ok T c.doc h.1]

theorem specChapterOk_iff (h : TablesMatchSpec T = true) (c : Chapter) : ChapterOk T c = SpecChapterOk c := by
  obtain ⟨hr, hv⟩ := matchSpec_parts T h
  simp only [ChapterOk, SpecChapterOk, specDocOk_iff T h]
  cases c with
  | mk doc tail =>
    cases tail with
    | complete => rfl
    | unclosed t a junk =>
      simp only [TailOk, SpecTailOk, hr t]
      cases hs : specRemovable.contains t with
      | false => simp
      | true => rw [hv t hs]

/-- the reused parser and the fresh one agree as long as no document ends inside a removed element -/
theorem reuse_eq_fresh (d0 : σ) (book : List Chapter) :
    ∀ (st : St σ), Clean st → (book.all fun c => DocOk T c.doc && c.tail == Tail.complete) = true →
      Reuse.readBook T D d0 st (book.map Chapter.events) = readBook T D d0 (book.map Chapter.events) := by
  induction book with
  | nil => intro st _ _; rfl
  | cons c r ih =>
    intro st hc h
    simp only [List.all_cons, Bool.and_eq_true, beq_iff_eq] at h
    obtain ⟨⟨hd, ht⟩, hr⟩ := h
    have hst : ({ st with down := d0 } : St σ) = init d0 := by
      obtain ⟨h1, h2⟩ := hc
      cases st; simp_all [init]
    have hev : c.events = events c.doc := by simp [Chapter.events, ht, Tail.events]
    simp only [List.map_cons, Reuse.readBook, readBook, hst, hev]
    rw [run_doc T D c.doc (init d0) hd ⟨rfl, rfl⟩]
    have hc' : Clean ({ init d0 with down := D.feed (init d0).down (downEvents c.doc) } : St σ) := ⟨rfl, rfl⟩
    have := ih _ hc' hr
    simp only [readBook] at this
    rw [this]

end S2T.HtmlSkip
