import S2T.Spec.C02SheetsDoc
import S2T.Model.OoxmlHtml
import S2T.Lemmas.OoxmlWords
/-! EPUB chapter text: the event machine of `_XhtmlTextExtractor` (C17's model, `S2T.HtmlSkip`) and the clean-up of
`get_text` (the 'ooxml' part's model, `S2T.C02.Ooxml.Html.Epub.getText`) on rendered chapters (C02, part 'sheets'). -/
namespace S2T.C02.Sheets.Epub
open S2T.HtmlSkip S2T.C02.Sheets.EpubDoc
open S2T.C02.Ooxml (words concat AllWs Eqv)

abbrev ES := S2T.HtmlSkip.Epub.State
abbrev Str := List Char

def D (B : List Str) : Down ES := S2T.HtmlSkip.Epub.down B
def nl : Str := ['\n']
def nlIf (b : Bool) : List Str := if b then [nl] else []

/-- the parser is not inside a removed element, a table or the title -/
structure Open (st : St ES) : Prop where
  depth : st.skipDepth = 0
  tag : st.skipTag = none
  noTable : st.down.inTable = false
  noCell : st.down.inCell = false
  noTitle : st.down.inTitle = false

/-- `text_parts` extended by `P` (`in_block`, which nothing reads, set to `ib`) -/
def addParts (st : St ES) (P : List Str) (ib : Bool) : St ES :=
  { st with down := { st.down with textParts := st.down.textParts ++ P, inBlock := ib } }

theorem addParts_open {st : St ES} (h : Open st) (P : List Str) (ib : Bool) : Open (addParts st P ib) :=
  ⟨h.depth, h.tag, h.noTable, h.noCell, h.noTitle⟩

theorem addParts_addParts (st : St ES) (P Q : List Str) (a b : Bool) :
    addParts (addParts st P a) Q b = addParts st (P ++ Q) b := by
  simp [addParts, List.append_assoc]

theorem addParts_nil (st : St ES) : addParts st [] st.down.inBlock = st := by
  simp [addParts]

/-- what the theorems need from REMOVE_TAGS / _VOID_TAGS / BLOCK_TAGS -/
structure EpubOk (T : Tables) (B : List Str) : Prop where
  inl : ∀ t ∈ inlineTags, T.remove.contains t = false ∧ B.contains t = false
  blk : ∀ t ∈ blockTags, T.remove.contains t = false ∧ B.contains t = true
  br : T.remove.contains sBr = false
  title : T.remove.contains sTitle = false
  removeNe : T.remove ≠ []

def Quiet (tag : Str) : Prop :=
  tag ≠ "title".toList ∧ tag ≠ "table".toList ∧ tag ≠ "tr".toList ∧ tag ≠ "td".toList ∧ tag ≠ "th".toList ∧ tag ≠ "br".toList

theorem inlineTag_mem (t : Nat) : inlineTag t ∈ inlineTags := by
  have : t % 5 < 5 := Nat.mod_lt _ (by decide)
  simp only [inlineTag, inlineTags]
  match hm : t % 5, this with
  | 0, _ => simp
  | 1, _ => simp
  | 2, _ => simp
  | 3, _ => simp
  | 4, _ => simp

theorem blockTag_mem (t : Nat) : blockTag t ∈ blockTags := by
  have : t % 6 < 6 := Nat.mod_lt _ (by decide)
  simp only [blockTag, blockTags]
  match hm : t % 6, this with
  | 0, _ => simp
  | 1, _ => simp
  | 2, _ => simp
  | 3, _ => simp
  | 4, _ => simp
  | 5, _ => simp

theorem quiet_of_mem {t : Str} (h : t ∈ inlineTags ++ blockTags) : Quiet t := by
  have : ∀ t ∈ inlineTags ++ blockTags, Quiet t := by unfold Quiet; decide
  exact this t h

theorem getD_mem {α} (l : List α) (i : Nat) (d : α) (h : i < l.length) : l.getD i d ∈ l := by
  induction l generalizing i with
  | nil => simp at h
  | cons a r ih =>
    cases i with
    | zero => simp
    | succ k => simp at h ⊢; exact Or.inr (ih k h)

theorem removeTag_mem {T : Tables} (h : T.remove ≠ []) (t : Nat) : T.remove.contains (removeTag T.remove t) = true := by
  have hl : 0 < T.remove.length := List.length_pos_iff.mpr h
  have : t % T.remove.length < T.remove.length := Nat.mod_lt _ hl
  simp only [removeTag, List.contains_iff_mem]
  exact getD_mem _ _ _ this

/-! ## the handlers on an open state -/

theorem start_quiet (B : List Str) (s : ES) (tag : Str) (a : Attrs) (hq : Quiet tag) (hn : s.inTable = false) :
    S2T.HtmlSkip.Epub.start B s tag a
      = if B.contains tag then { s with textParts := s.textParts ++ [nl], inBlock := true } else s := by
  obtain ⟨h1, h2, _, _, _, h6⟩ := hq
  simp only [S2T.HtmlSkip.Epub.start, h1, h2, h6, hn, if_false, Bool.false_eq_true, nl]

theorem end_quiet (B : List Str) (s : ES) (tag : Str) (hq : Quiet tag) (hn : s.inTable = false) :
    S2T.HtmlSkip.Epub.end_ B s tag
      = if B.contains tag then { s with textParts := s.textParts ++ [nl], inBlock := false } else s := by
  obtain ⟨h1, h2, _, _, _, _⟩ := hq
  simp only [S2T.HtmlSkip.Epub.end_, h1, h2, hn, if_false, Bool.false_eq_true, nl]

section
variable {T : Tables} {B : List Str}

theorem run_append (st : St ES) (a b : List Ev) : run T (D B) st (a ++ b) = run T (D B) (run T (D B) st a) b := by
  simp [run, List.foldl_append]

theorem run_cons (st : St ES) (e : Ev) (r : List Ev) : run T (D B) st (e :: r) = run T (D B) (step T (D B) st e) r := rfl

theorem run_nil (st : St ES) : run T (D B) st [] = st := rfl

/-- a start tag that is neither removed nor special, on an open state -/
theorem step_start_quiet {st : St ES} (ho : Open st) (tag : Str) (hr : T.remove.contains tag = false) (hq : Quiet tag) :
    step T (D B) st (.start tag []) = if B.contains tag then addParts st [nl] true else st := by
  have hd : ¬ (st.skipDepth > 0) := by rw [ho.depth]; decide
  simp only [step, handleStarttag, hd, if_false, hr, Bool.false_eq_true, D, S2T.HtmlSkip.Epub.down,
    start_quiet B st.down tag [] hq ho.noTable]
  by_cases hb : tag ∈ B
  · simp [hb, addParts]
  · simp [hb]

theorem step_end_quiet {st : St ES} (ho : Open st) (tag : Str) (hq : Quiet tag) :
    step T (D B) st (.end_ tag) = if B.contains tag then addParts st [nl] false else st := by
  have hd : ¬ (st.skipDepth > 0) := by rw [ho.depth]; decide
  simp only [step, handleEndtag, hd, if_false, D, S2T.HtmlSkip.Epub.down, end_quiet B st.down tag hq ho.noTable]
  by_cases hb : tag ∈ B
  · simp [hb, addParts]
  · simp [hb]

theorem step_data {st : St ES} (ho : Open st) (s : Str) :
    step T (D B) st (.data s) = addParts st [s] st.down.inBlock := by
  have hd : ¬ (st.skipDepth > 0) := by rw [ho.depth]; decide
  simp [step, handleData, hd, D, S2T.HtmlSkip.Epub.down, S2T.HtmlSkip.Epub.data, ho.noTitle, ho.noCell, addParts]

/-- the parts `<br/>` contributes (one newline, plus two when `br` is a block tag) -/
def brParts (B : List Str) : List Str := nlIf (B.contains sBr) ++ [nl] ++ nlIf (B.contains sBr)

theorem step_br {st : St ES} (ho : Open st) (hr : T.remove.contains sBr = false) :
    ∃ ib, step T (D B) st (.startend sBr []) = addParts st (brParts B) ib := by
  have hd : ¬ (st.skipDepth > 0) := by rw [ho.depth]; decide
  have e1 : sBr ≠ "title".toList := by decide
  have e2 : sBr ≠ "table".toList := by decide
  simp only [step, handleStartendtag, hd, hr, Bool.or_self, Bool.false_eq_true, if_false, decide_false, handleStarttag,
    handleEndtag, D, S2T.HtmlSkip.Epub.down]
  by_cases hb : (['b', 'r'] : Str) ∈ B
  · refine ⟨false, ?_⟩
    simp [S2T.HtmlSkip.Epub.start, S2T.HtmlSkip.Epub.end_, e1, e2, ho.noTable, hb, sBr, addParts, brParts, nlIf, nl]
  · refine ⟨st.down.inBlock, ?_⟩
    simp [S2T.HtmlSkip.Epub.start, S2T.HtmlSkip.Epub.end_, e1, e2, ho.noTable, hb, sBr, addParts, brParts, nlIf, nl]

/-! ## removed elements -/

/-- inside a removed element `tag` at depth `d ≥ 1`: hidden content leaves the state alone -/
theorem run_hidden (tag : Str) (hid : List Hid) (st : St ES) (hd : st.skipDepth ≥ 1) (ht : st.skipTag = some tag)
    (hne : ∀ t, inlineTag t ≠ tag) : run T (D B) st (hid.flatMap (evHid tag)) = st := by
  obtain ⟨sd, stg, dn⟩ := st
  simp only at hd ht
  subst ht
  have hpos : sd > 0 := by omega
  have hnz : sd ≠ 0 := by omega
  induction hid with
  | nil => rfl
  | cons h r ih =>
    simp only [List.flatMap_cons, run_append]
    suffices run T (D B) ⟨sd, some tag, dn⟩ (evHid tag h) = ⟨sd, some tag, dn⟩ by rw [this, ih]
    cases h with
    | text s => simp [evHid, run_cons, run_nil, step, handleData, hpos]
    | same s =>
      have h1 : sd + 1 > 0 := by omega
      have h3 : sd + 1 - 1 = sd := by omega
      simp [evHid, run_cons, run_nil, step, handleStarttag, handleEndtag, handleData, hpos, h1, h3, hnz]
    | other t s =>
      have hn : some (inlineTag t) ≠ some tag := by simpa using hne t
      simp [evHid, run_cons, run_nil, step, handleStarttag, handleEndtag, handleData, hpos, hn]

theorem run_removed (h : EpubOk T B) (t : Nat) (hid : List Hid) {st : St ES} (ho : Open st) :
    run T (D B) st (evInl T (.removed t hid)) = st := by
  have hd : ¬ (st.skipDepth > 0) := by rw [ho.depth]; decide
  have hrm := removeTag_mem h.removeNe t
  have hne : ∀ u, inlineTag u ≠ removeTag T.remove t := by
    intro u hc
    have := (h.inl _ (inlineTag_mem u)).1
    rw [hc, hrm] at this
    exact absurd this (by decide)
  have hrm' : removeTag T.remove t ∈ T.remove := by simpa using hrm
  simp only [evInl]
  by_cases hv : removeTag T.remove t ∈ T.void
  · simp [hv, run_cons, run_nil, step, handleStarttag, hd, hrm']
  · simp only [List.contains_iff_mem, hv, if_false, run_cons, run_append, run_nil]
    have e1 : step T (D B) st (.start (removeTag T.remove t) [])
        = { st with skipTag := some (removeTag T.remove t), skipDepth := 1 } := by
      simp [step, handleStarttag, hd, hrm', hv]
    rw [e1, run_hidden _ hid _ (by simp) rfl hne]
    obtain ⟨sd, stg, dn⟩ := st
    have hsd : sd = 0 := ho.depth
    have hst : stg = none := ho.tag
    subst hsd hst
    simp [step, handleEndtag]

/-! ## inline content -/

mutual
def partsInl (B : List Str) : EInl → List Str
  | .text s => [s]
  | .el _ kids => partsInls B kids
  | .removed _ _ => []
  | .br => brParts B
def partsInls (B : List Str) : List EInl → List Str
  | [] => []
  | i :: r => partsInl B i ++ partsInls B r
end

mutual
theorem run_inl (h : EpubOk T B) (i : EInl) (st : St ES) (ho : Open st) :
    ∃ ib, run T (D B) st (evInl T i) = addParts st (partsInl B i) ib := by
  cases i with
  | text s => exact ⟨st.down.inBlock, by simp [evInl, run_cons, run_nil, step_data ho, partsInl]⟩
  | el t kids =>
    have hm := inlineTag_mem t
    have hq : Quiet (inlineTag t) := quiet_of_mem (by simp [hm])
    obtain ⟨hr, hb⟩ := h.inl _ hm
    obtain ⟨ib, hk⟩ := run_inls h kids st ho
    refine ⟨ib, ?_⟩
    simp only [evInl, run_cons, run_append, run_nil, step_start_quiet ho _ hr hq, hb, Bool.false_eq_true, if_false, hk,
      step_end_quiet (addParts_open ho _ _) _ hq, partsInl]
  | removed t hid => exact ⟨st.down.inBlock, by rw [run_removed h t hid ho]; simp [partsInl, addParts]⟩
  | br =>
    obtain ⟨ib, hb⟩ := step_br (T := T) (B := B) ho h.br
    exact ⟨ib, by simp [evInl, run_cons, run_nil, hb, partsInl]⟩
theorem run_inls (h : EpubOk T B) (is : List EInl) (st : St ES) (ho : Open st) :
    ∃ ib, run T (D B) st (evInls T is) = addParts st (partsInls B is) ib := by
  cases is with
  | nil => exact ⟨st.down.inBlock, by simp [evInls, run_nil, partsInls, addParts]⟩
  | cons i r =>
    obtain ⟨ib1, h1⟩ := run_inl h i st ho
    obtain ⟨ib2, h2⟩ := run_inls h r (addParts st (partsInl B i) ib1) (addParts_open ho _ _)
    exact ⟨ib2, by simp only [evInls, run_append, h1, h2, addParts_addParts, partsInls]⟩
end

def partsBlk (B : List Str) (b : EBlk) : List Str := [nl] ++ partsInls B b.kids ++ [nl]

theorem run_blk (h : EpubOk T B) (b : EBlk) (st : St ES) (ho : Open st) :
    run T (D B) st (evBlk T b) = addParts st (partsBlk B b) false := by
  have hm := blockTag_mem b.tag
  have hq : Quiet (blockTag b.tag) := quiet_of_mem (by simp [hm])
  obtain ⟨hr, hb⟩ := h.blk _ hm
  obtain ⟨ib, hk⟩ := run_inls h b.kids (addParts st [nl] true) (addParts_open ho _ _)
  have ho2 := addParts_open (addParts_open ho [nl] true) (partsInls B b.kids) ib
  simp only [evBlk, run_cons, run_append, run_nil]
  rw [step_start_quiet ho _ hr hq]
  simp only [hb, if_true]
  rw [hk, step_end_quiet ho2 _ hq]
  simp only [hb, if_true, addParts_addParts, partsBlk, List.append_assoc]

theorem run_blks (h : EpubOk T B) (bs : List EBlk) (st : St ES) (ho : Open st) :
    ∃ ib, run T (D B) st (bs.flatMap (evBlk T)) = addParts st (bs.flatMap (partsBlk B)) ib := by
  induction bs generalizing st with
  | nil => exact ⟨st.down.inBlock, by simp [run_nil, addParts]⟩
  | cons b r ih =>
    obtain ⟨ib, hr⟩ := ih (addParts st (partsBlk B b) false) (addParts_open ho _ _)
    exact ⟨ib, by simp only [List.flatMap_cons, run_append, run_blk h b st ho, hr, addParts_addParts]⟩

/-- `text_parts` after feeding a whole chapter document: the title is not among them -/
theorem run_chapter (h : EpubOk T B) (c : Chapter) :
    (run T (D B) (init S2T.HtmlSkip.Epub.initState) (chapterEvs T c)).down.textParts = c.blocks.flatMap (partsBlk B) := by
  have hd : ¬ ((init S2T.HtmlSkip.Epub.initState : St ES).skipDepth > 0) := by simp [init]
  have e0 : run T (D B) (init S2T.HtmlSkip.Epub.initState) [.start sTitle [], .data c.title, .end_ sTitle]
      = { (init S2T.HtmlSkip.Epub.initState : St ES) with
          down := { S2T.HtmlSkip.Epub.initState with title := c.title } } := by
    have ht : ¬ (['t', 'i', 't', 'l', 'e'] : Str) ∈ T.remove := by
      have := h.title
      simpa [sTitle] using this
    simp only [run_cons, run_nil]
    simp [step, handleStarttag, handleEndtag, handleData, init, ht, D, S2T.HtmlSkip.Epub.down,
      S2T.HtmlSkip.Epub.start, S2T.HtmlSkip.Epub.end_, S2T.HtmlSkip.Epub.data, sTitle, S2T.HtmlSkip.Epub.initState]
  have ho : Open ({ (init S2T.HtmlSkip.Epub.initState : St ES) with
      down := { S2T.HtmlSkip.Epub.initState with title := c.title } }) :=
    ⟨rfl, rfl, rfl, rfl, rfl⟩
  obtain ⟨ib, hb⟩ := run_blks h c.blocks _ ho
  simp only [chapterEvs, run_append, e0, hb]
  simp [addParts, S2T.HtmlSkip.Epub.initState]

end

/-! ## `get_text` keeps the words -/

open S2T.C02.Ooxml in
theorem collapseBlanks_eqv {ws : Char → Bool} (s : Str) (hsp : ws ' ' = true) (htab : ws '\t' = true) :
    (∀ pre post : Str, words ws (pre ++ (Html.Epub.collapseBlanks false s ++ post)) = words ws (pre ++ (s ++ post))) ∧
    (∀ pre post : Str, ∀ w : Char, ws w = true →
      words ws (pre ++ (w :: (Html.Epub.collapseBlanks true s ++ post))) = words ws (pre ++ (w :: (s ++ post)))) := by
  induction s with
  | nil => simp [Html.Epub.collapseBlanks]
  | cons c s ih =>
    obtain ⟨ih1, ih2⟩ := ih
    have hcw : (c = ' ' || c = '\t') = true → ws c = true := by
      intro hc
      simp only [Bool.or_eq_true, decide_eq_true_eq] at hc
      rcases hc with rfl | rfl <;> assumption
    constructor
    · intro pre post
      by_cases hc : (c = ' ' || c = '\t') = true
      · simp only [Html.Epub.collapseBlanks, hc, if_true, Bool.false_eq_true, if_false, List.cons_append]
        rw [ih2 pre post ' ' hsp, words_append_sep _ _ _ hsp, words_append_sep _ _ _ (hcw hc)]
      · simp only [Html.Epub.collapseBlanks, hc, Bool.false_eq_true, if_false, List.cons_append]
        have := ih1 (pre ++ [c]) post
        simpa [List.append_assoc] using this
    · intro pre post w hw
      by_cases hc : (c = ' ' || c = '\t') = true
      · simp only [Html.Epub.collapseBlanks, hc, if_true, List.cons_append]
        rw [ih2 pre post w hw, words_append_sep _ _ _ hw, words_append_sep _ _ _ hw, words_cons_ws _ _ (hcw hc)]
      · simp only [Html.Epub.collapseBlanks, hc, Bool.false_eq_true, if_false, List.cons_append]
        have := ih1 (pre ++ [w, c]) post
        simpa [List.append_assoc] using this

open S2T.C02.Ooxml in
/-- the clean-up of `get_text` (newline runs squeezed, blank runs collapsed, lines stripped, text stripped) only
    rewrites whitespace -/
theorem getText_words {ws : Char → Bool} (hsp : ws ' ' = true) (htab : ws '\t' = true) (hnl : ws '\n' = true)
    (parts : List Str) : words ws (Html.Epub.getText ws parts) = words ws (concat parts) := by
  unfold Html.Epub.getText
  rw [words_strip ws (fun _ h => h), words_strip_lines hnl]
  have := (collapseBlanks_eqv (ws := ws) (squeezeNl (concat parts)) hsp htab).1 [] []
  simp only [List.nil_append, List.append_nil] at this
  rw [this, words_squeezeNl hnl]

/-! ## the words of the collected parts -/

theorem concat_append (a b : List Str) : concat (a ++ b) = concat a ++ concat b := by
  induction a with
  | nil => rfl
  | cons x r ih => simp [concat, ih, List.append_assoc]

theorem allWs_nl {ws : Char → Bool} (hnl : ws '\n' = true) : AllWs ws nl := by
  intro c hc; simp [nl] at hc; subst hc; exact hnl

mutual
theorem parts_eqv {ws : Char → Bool} (hnl : ws '\n' = true) (B : List Str) (i : EInl) :
    Eqv ws (concat (partsInl B i)) (vis i) := by
  cases i with
  | text s => simp [partsInl, concat, vis]; exact Eqv.refl _
  | el t kids => simp only [partsInl, vis]; exact parts_eqvL hnl B kids
  | removed t hid => simp [partsInl, concat, vis]; exact Eqv.refl _
  | br =>
    simp only [partsInl, vis]
    have hall : AllWs ws (concat (brParts B)) := by
      intro c hc
      have : c = '\n' := by
        by_cases hb : sBr ∈ B <;> simp [brParts, nlIf, hb, concat, nl] at hc <;> exact hc
      rw [this]; exact hnl
    have hne : concat (brParts B) ≠ [] := by
      by_cases hb : sBr ∈ B <;> simp [brParts, nlIf, hb, concat, nl]
    exact Eqv.seps hne (by simp) hall (by intro c hc; simp at hc; subst hc; exact hnl)
theorem parts_eqvL {ws : Char → Bool} (hnl : ws '\n' = true) (B : List Str) (is : List EInl) :
    Eqv ws (concat (partsInls B is)) (visL is) := by
  cases is with
  | nil => simp [partsInls, concat, visL]; exact Eqv.refl _
  | cons i r =>
    simp only [partsInls, visL, concat_append]
    exact Eqv.append (parts_eqv hnl B i) (parts_eqvL hnl B r)
end

/-- the words of a chapter: block by block, the words of the visible inline text -/
def chapterWords (ws : Char → Bool) (c : Chapter) : List Str := c.blocks.flatMap (fun b => words ws (visL b.kids))

open S2T.C02.Ooxml in
theorem words_blocks {ws : Char → Bool} (hnl : ws '\n' = true) (B : List Str) (bs : List EBlk) :
    words ws (concat (bs.flatMap (partsBlk B))) = bs.flatMap (fun b => words ws (visL b.kids)) := by
  induction bs with
  | nil => simp [concat, words_nil]
  | cons b r ih =>
    simp only [List.flatMap_cons, concat_append, partsBlk]
    have e1 : concat [nl] = ['\n'] := by simp [concat, nl]
    rw [e1]
    have e : ['\n'] ++ concat (partsInls B b.kids) ++ ['\n'] ++ concat (List.flatMap (partsBlk B) r)
        = '\n' :: (concat (partsInls B b.kids) ++ '\n' :: concat (List.flatMap (partsBlk B) r)) := by
      simp [List.append_assoc]
    rw [e, words_concat_wrapped' '\n' '\n' hnl hnl, ih, (parts_eqvL hnl B b.kids).toWords]

end S2T.C02.Sheets.Epub
