import S2T.Spec.Omml
/-! Helper lemmas for C19 (OMML → LaTeX): tree induction, unfolding of the record-based recursion,
    brace-depth algebra, whitespace/strip facts. -/
namespace S2T.Omml

/-! ## tree induction and unfolding -/

theorem Xml.ind {P : Xml → Prop}
    (h : ∀ m n v t ks, (∀ c ∈ ks, P c) → P (.node m n v t ks)) : ∀ x, P x := by
  intro x
  exact Xml.rec (motive_1 := P) (motive_2 := fun ks => ∀ c ∈ ks, P c)
    (fun m n v t ks ih => h m n v t ks ih)
    (by intro c hc; cases hc)
    (fun hd tl ih1 ih2 => by
      intro c hc
      rcases List.mem_cons.mp hc with rfl | hc
      · exact ih1
      · exact ih2 c hc) x

theorem infos_eq_map (T : Tables) (ks : List Xml) : infos T ks = ks.map (info T) := by
  induction ks with
  | nil => simp [infos]
  | cons k ks ih => simp [infos, ih]

@[simp] theorem info_mns (T : Tables) (x : Xml) : (info T x).mns = x.mns := by
  cases x; simp [info, Xml.mns]
@[simp] theorem info_name (T : Tables) (x : Xml) : (info T x).name = x.name := by
  cases x; simp [info, Xml.name]
@[simp] theorem info_run (T : Tables) (x : Xml) : (info T x).run = proc T x := rfl

theorem isTagR_info (T : Tables) (n : Str) (x : Xml) : isTagR n (info T x) = isTag n x := by
  simp [isTagR, isTag]

theorem find_infos (T : Tables) (n : Str) (ks : List Xml) :
    (ks.map (info T)).find? (isTagR n) = (ks.find? (isTag n)).map (info T) := by
  induction ks with
  | nil => simp
  | cons k ks ih =>
    simp only [List.map_cons, List.find?_cons, isTagR_info]
    cases isTag n k <;> simp [ih]

theorem filter_infos (T : Tables) (n : Str) (ks : List Xml) :
    (ks.map (info T)).filter (isTagR n) = (ks.filter (isTag n)).map (info T) := by
  induction ks with
  | nil => simp
  | cons k ks ih =>
    simp only [List.map_cons, List.filter_cons, isTagR_info]
    cases isTag n k <;> simp [ih]

theorem info_cells (T : Tables) (x : Xml) :
    (info T x).cells = (x.kids.filter (isTag n_e)).map (proc T) := by
  cases x with
  | node m n v t ks =>
    simp only [info, Xml.kids, infos_eq_map, filter_infos, List.map_map]
    rfl

/-- `process_element(elem.find(M_NS+n))` on the children records is `proc` of the first such child -/
def opndX (T : Tables) (n : Str) (ks : List Xml) : M :=
  match ks.find? (isTag n) with
  | some c => proc T c
  | none => ret []

theorem opnd_infos (T : Tables) (n : Str) (ks : List Xml) :
    opnd n (ks.map (info T)) = opndX T n ks := by
  unfold opnd opndX
  rw [find_infos]
  cases ks.find? (isTag n) <;> simp

theorem proc_node (T : Tables) (m : Bool) (n : Str) (v : Option Str) (t : Str) (ks : List Xml) :
    proc T (.node m n v t ks) = procNode T n t ks (ks.map (info T)) := by
  simp [proc, info, infos_eq_map]

theorem hasMr_infos (T : Tables) (ks : List Xml) :
    ((ks.map (info T)).find? (isTagR n_mr)).isSome = (ks.find? (isTag n_mr)).isSome := by
  rw [find_infos]; cases ks.find? (isTag n_mr) <;> simp

end S2T.Omml
