import S2T.Lemmas.TablesRtfFinal
/-!
Row layouts: every written row carries what its writer puts behind its `\row` (nothing at all — `\row\trowd`, rows
directly one after the other, as compact writers emit them —, a space, LF, CR LF, a closing / opening brace, …).
The text of a document then is gaps and rows in turn, as before, with the separator of a row as the gap in front of
the next; `extractTables_body` (the generic layer) does not care what the gaps are, as long as `\trowd` / `\row` do
not match inside them and the text behind every `\row` lets `\\row\b` match (`StartsNW`).
-/
namespace S2T.Tables.Rtf
open S2T.HtmlSkip (Str)
open S2T.Tables

/-- a row and what is written behind its `\row` -/
abbrev SRow := RRow × Str
abbrev STable := List SRow

def rowsOfS (t : STable) : RTable := t.map (·.1)

def tableRtfS (t : STable) : Str := t.flatMap (fun r => rowRtf r.1 ++ r.2)

/-- what is written behind the last `\row` of the table (`g` for a table without rows) -/
def lastSep (g : Str) : STable → Str
  | [] => g
  | r :: rs => lastSep r.2 rs

/-- the rows, each with the text in front of it: `g` in front of the first, then the separator of the row before -/
def segsS (g : Str) : STable → List Seg
  | [] => []
  | r :: rs => (g, r.1) :: segsS r.2 rs

def tablesRtfS (ts : List (STable × List Str)) : Str := ts.flatMap (fun tp => tableRtfS tp.1 ++ parasRtf tp.2)

/-- a document written with row layouts: leading paragraphs, tables, each followed by paragraphs -/
def docRtfS (lead : List Str) (ts : List (STable × List Str)) : Str :=
  (header ++ parasRtf lead) ++ tablesRtfS ts ++ ['}']

def tblsOf (g : Str) : List (STable × List Str) → List (List Seg)
  | [] => []
  | tp :: rest => segsS g tp.1 :: tblsOf (lastSep g tp.1 ++ parasRtf tp.2) rest

def tailS (g : Str) : List (STable × List Str) → Str
  | [] => g ++ ['}']
  | tp :: rest => tailS (lastSep g tp.1 ++ parasRtf tp.2) rest

/-- (text in front of the table, its rows) -/
def gtsOfS (g : Str) : List (STable × List Str) → List GT
  | [] => []
  | tp :: rest => (g, rowsOfS tp.1) :: gtsOfS (lastSep [] tp.1 ++ parasRtf tp.2) rest

def gtOf (t : List Seg) : GT := ((t.head?.map (·.1)).getD [], t.map (·.2))

/-! ## the text as gaps and rows -/

theorem segsS_text : ∀ (t : STable) (g Y : Str),
    g ++ (tableRtfS t ++ Y) = (segsS g t).flatMap (fun s => s.1 ++ rowRtf s.2) ++ (lastSep g t ++ Y)
  | [], g, Y => by simp [tableRtfS, segsS, lastSep]
  | r :: rs, g, Y => by
    have ih := segsS_text rs r.2 Y
    simp only [tableRtfS, List.flatMap_cons, segsS, lastSep, List.append_assoc] at ih ⊢
    rw [ih]

theorem text_as_bodyS : ∀ (ts : List (STable × List Str)) (g : Str),
    g ++ tablesRtfS ts ++ ['}'] = body2 (tblsOf g ts).flatten (tailS g ts)
  | [], g => by simp [tablesRtfS, tblsOf, body2, tailS]
  | tp :: rest, g => by
    have ih := text_as_bodyS rest (lastSep g tp.1 ++ parasRtf tp.2)
    have h1 := segsS_text tp.1 g (parasRtf tp.2 ++ (tablesRtfS rest ++ ['}']))
    simp only [tblsOf, List.flatten_cons, body2_append, tailS, ← ih]
    simp only [tablesRtfS, List.flatMap_cons, List.append_assoc] at h1 ⊢
    rw [h1]

theorem lastSep_ne : ∀ (t : STable) (g g' : Str), t ≠ [] → lastSep g t = lastSep g' t
  | [], _, _, h => absurd rfl h
  | _ :: _, _, _, _ => rfl

theorem segsS_rows : ∀ (t : STable) (g : Str), (segsS g t).map (·.2) = rowsOfS t
  | [], _ => rfl
  | r :: rs, g => by simp [segsS, rowsOfS, segsS_rows rs r.2]

theorem gtOf_segsS (t : STable) (g : Str) (h : t ≠ []) : gtOf (segsS g t) = (g, rowsOfS t) := by
  cases t with
  | nil => exact absurd rfl h
  | cons r rs => simp [gtOf, segsS, rowsOfS, segsS_rows rs r.2]

theorem tblsOf_gts : ∀ (ts : List (STable × List Str)) (g : Str), (∀ tp ∈ ts, tp.1 ≠ []) →
    (tblsOf g ts).map gtOf = gtsOfS g ts
  | [], _, _ => rfl
  | tp :: rest, g, h => by
    simp only [tblsOf, gtsOfS, List.map_cons]
    rw [gtOf_segsS tp.1 g (h tp List.mem_cons_self), lastSep_ne tp.1 g [] (h tp List.mem_cons_self),
      tblsOf_gts rest _ (fun x hx => h x (List.mem_cons_of_mem _ hx))]

theorem mem_segsS : ∀ (t : STable) (g : Str) (s : Seg), s ∈ segsS g t → (s.1 = g ∨ ∃ r ∈ t, s.1 = r.2) ∧ ∃ r ∈ t, s.2 = r.1
  | [], _, s, h => by simp [segsS] at h
  | r :: rs, g, s, h => by
    simp only [segsS, List.mem_cons] at h
    rcases h with rfl | h
    · exact ⟨Or.inl rfl, r, List.mem_cons_self, rfl⟩
    · obtain ⟨h1, r', hr', h2⟩ := mem_segsS rs r.2 s h
      refine ⟨Or.inr ?_, r', List.mem_cons_of_mem _ hr', h2⟩
      rcases h1 with h1 | ⟨r'', hr'', h1⟩
      · exact ⟨r, List.mem_cons_self, h1⟩
      · exact ⟨r'', List.mem_cons_of_mem _ hr'', h1⟩

theorem mem_segsS_tail (t : STable) (g : Str) (s : Seg) (h : s ∈ (segsS g t).tail) : ∃ r ∈ t, s.1 = r.2 := by
  cases t with
  | nil => simp [segsS] at h
  | cons r rs =>
    simp only [segsS, List.tail_cons] at h
    obtain ⟨h1, _⟩ := mem_segsS rs r.2 s h
    rcases h1 with h1 | ⟨r', hr', h1⟩
    · exact ⟨r, List.mem_cons_self, h1⟩
    · exact ⟨r', List.mem_cons_of_mem _ hr', h1⟩

/-! ## the grouping loop over tables whose rows are separated by anything the heuristic takes for no break -/

theorem fold_rowsS (P : Params) (hP : paramsOk P = true) : ∀ (rs : List Seg) (cur : Grid) (out : List Grid),
    (∀ s ∈ rs, RowOk s.2 ∧ breaks P s.1 = false) →
    rs.foldl (segStep P) (cur, out) = (cur ++ gridSpec (rs.map (·.2)), out)
  | [], cur, out, _ => by simp [gridSpec]
  | s :: rs, cur, out, h => by
    obtain ⟨hr, hb⟩ := h s List.mem_cons_self
    rw [List.foldl_cons, show s = (s.1, s.2) from rfl, segStep_row P hP _ _ s.2 hr, hb]
    simp only [Bool.and_false, Bool.false_eq_true, if_false]
    rw [fold_rowsS P hP rs _ _ (fun x hx => h x (List.mem_cons_of_mem _ hx))]
    simp [gridSpec]

theorem fold_tableS (P : Params) (hP : paramsOk P = true) (t : List Seg) (hne : t ≠ []) (hr : ∀ s ∈ t, RowOk s.2)
    (hin : ∀ s ∈ t.tail, breaks P s.1 = false) (cur : Grid) (out : List Grid) :
    t.foldl (segStep P) (cur, out) =
      if !cur.isEmpty && breaks P (gtOf t).1 then (gridSpec (gtOf t).2, out ++ [saveTable cur])
      else (cur ++ gridSpec (gtOf t).2, out) := by
  cases t with
  | nil => exact absurd rfl hne
  | cons s rs =>
    have hrest : ∀ x ∈ rs, RowOk x.2 ∧ breaks P x.1 = false :=
      fun x hx => ⟨hr x (List.mem_cons_of_mem _ hx), hin x (by simpa using hx)⟩
    simp only [List.foldl_cons, gtOf, List.head?_cons, Option.map_some, Option.getD_some, List.map_cons]
    rw [show s = (s.1, s.2) from rfl, segStep_row P hP _ _ s.2 (hr s List.mem_cons_self)]
    split
    · rw [fold_rowsS P hP rs _ _ hrest]; simp [gridSpec]
    · rw [fold_rowsS P hP rs _ _ hrest]; simp [gridSpec]

theorem fold_tablesS (P : Params) (hP : paramsOk P = true) : ∀ (tbls : List (List Seg)) (cur : Grid) (out : List Grid),
    (∀ t ∈ tbls, t ≠ [] ∧ (∀ s ∈ t, RowOk s.2) ∧ ∀ s ∈ t.tail, breaks P s.1 = false) →
    finish (tbls.flatten.foldl (segStep P) (cur, out)) = out ++ groupTables P cur (tbls.map gtOf)
  | [], cur, out, _ => by
    simp only [List.flatten_nil, List.foldl_nil, finish, List.map_nil, groupTables]
    split <;> simp_all [List.isEmpty_iff]
  | t :: rest, cur, out, h => by
    obtain ⟨hne, hr, hin⟩ := h t List.mem_cons_self
    have hrest := fun x hx => h x (List.mem_cons_of_mem _ hx)
    rw [List.flatten_cons, List.foldl_append, fold_tableS P hP t hne hr hin, List.map_cons]
    simp only [groupTables]
    split
    · rw [fold_tablesS P hP rest _ _ hrest]; simp
    · rw [fold_tablesS P hP rest _ _ hrest]

/-! ## `WellSeg` from conditions on the gaps alone -/

theorem startsNW_nil (P : Params) : StartsNW P [] := fun _ _ h => by cases h

theorem startsNW_bs (P : Params) (t : Str) : StartsNW P ('\\' :: t) := by
  intro c t' h; cases h; exact isWord_bs P

theorem startsNW_append (P : Params) (a b : Str) (ha : StartsNW P a) (hb : a = [] → StartsNW P b) : StartsNW P (a ++ b) := by
  cases a with
  | nil => simpa using hb rfl
  | cons c t => intro c' t' h; cases h; exact ha c t rfl

theorem rowRtf_bs (r : RRow) : ∃ t, rowRtf r = '\\' :: t := ⟨_, rowRtf_trowd r⟩

theorem startsNW_body2 (P : Params) (tail : Str) (htn : StartsNW P tail) : ∀ (segs : List Seg),
    (∀ s ∈ segs, StartsNW P s.1) → StartsNW P (body2 segs tail)
  | [], _ => by simpa [body2] using htn
  | s :: segs, h => by
    rw [body2_cons]
    apply startsNW_append P _ _ (h s List.mem_cons_self)
    intro _
    obtain ⟨t, ht⟩ := rowRtf_bs s.2
    rw [ht]; exact startsNW_bs P _

theorem wellSegS (P : Params) (tail : Str) (htq : Quiet P sTrowd tail [] ∧ Quiet P sRow tail []) (htn : StartsNW P tail) :
    ∀ (segs : List Seg), (∀ s ∈ segs, QuietGap P s.1 ∧ RowOk s.2 ∧ StartsNW P s.1) → WellSeg P segs tail
  | [], _ => htq
  | s :: segs, h => by
    have hrest := fun x hx => h x (List.mem_cons_of_mem _ hx)
    exact ⟨(h s List.mem_cons_self).1, (h s List.mem_cons_self).2.1,
      startsNW_body2 P tail htn segs (fun x hx => (hrest x hx).2.2), wellSegS P tail htq htn segs hrest⟩

/-- what `_extract_tables` returns for a text of tables whose rows stand behind ANY quiet gaps: the tables in order,
    a table glued to its predecessor exactly where the gap in front of it is no break for the heuristic; inside a
    table no gap is a break -/
theorem extractTables_segTables (P : Params) (hP : paramsOk P = true) (tbls : List (List Seg)) (tail : Str)
    (h : ∀ t ∈ tbls, t ≠ [] ∧ (∀ s ∈ t, QuietGap P s.1 ∧ RowOk s.2 ∧ StartsNW P s.1) ∧ ∀ s ∈ t.tail, breaks P s.1 = false)
    (htq : Quiet P sTrowd tail [] ∧ Quiet P sRow tail []) (htn : StartsNW P tail) :
    extractTables P (body2 tbls.flatten tail) = groupTables P [] (tbls.map gtOf) := by
  have hw : WellSeg P tbls.flatten tail := by
    apply wellSegS P tail htq htn
    intro s hs
    obtain ⟨t, ht, hst⟩ := List.mem_flatten.mp hs
    exact (h t ht).2.1 s hst
  rw [extractTables_body P _ tail hw,
    fold_tablesS P hP tbls [] [] (fun t ht => ⟨(h t ht).1, fun s hs => ((h t ht).2.1 s hs).2.1, (h t ht).2.2⟩)]
  simp

/-! ## row separators, as a decidable check -/

/-- a row separator: no backslash (white space, line ends, braces, any text that is not a control word), not longer
    than the raw-gap literal (so the heuristic cannot take it for a table break), empty or starting with a character
    that ends the control word `\row` -/
def sepOk (P : Params) (g : Str) : Bool :=
  g.all (fun c => c != '\\') && decide (g.length ≤ P.rawGap) && (match g with | [] => true | c :: _ => !isWord P c)

theorem sepOk_parts {P : Params} {g : Str} (h : sepOk P g = true) :
    NoBs g ∧ breaks P g = false ∧ StartsNW P g := by
  simp only [sepOk, Bool.and_eq_true, decide_eq_true_eq] at h
  obtain ⟨⟨h1, h2⟩, h3⟩ := h
  refine ⟨noBs_of_all g h1, ?_, ?_⟩
  · simp only [breaks, Bool.and_eq_false_iff, decide_eq_false_iff_not]; left; omega
  · intro c t he; subst he; simpa using h3

theorem quietGap_noBs (P : Params) (g : Str) (h : NoBs g) : QuietGap P g :=
  fun b => ⟨quiet_noBs P _ _ b h, quiet_noBs P _ _ b h⟩

theorem quietGap_append (P : Params) (a b : Str) (ha : QuietGap P a) (hb : QuietGap P b) : QuietGap P (a ++ b) :=
  fun x => ⟨quiet_append _ _ _ _ _ (ha _).1 (hb x).1, quiet_append _ _ _ _ _ (ha _).2 (hb x).2⟩

theorem quietGap_paras (P : Params) (ps : List Str) (h : ∀ p ∈ ps, plainText p = true) : QuietGap P (parasRtf ps) :=
  fun b => ⟨quiet_paras P (Or.inl rfl) ps b h, quiet_paras P (Or.inr rfl) ps b h⟩

theorem startsNW_paras (P : Params) (ps : List Str) : StartsNW P (parasRtf ps) := by
  cases ps with
  | nil => exact startsNW_nil P
  | cons p ps =>
    have : parasRtf (p :: ps) = '\\' :: ("pard ".toList ++ esc p ++ "\\par\n".toList ++ parasRtf ps) := by
      simp [parasRtf, paraRtf]
    rw [this]; exact startsNW_bs P _

theorem startsNW_header (P : Params) (x : Str) : StartsNW P (header ++ x) := by
  intro c t h
  have : header ++ x = '{' :: ("\\rtf1\\ansi\\deff0 {\\fonttbl{\\f0 Times New Roman;}}\n".toList ++ x) := rfl
  rw [this] at h; cases h
  simp [isWord, isAsciiAlpha, isDigit]

theorem lastSep_mem : ∀ (t : STable) (g : Str), lastSep g t = g ∨ ∃ r ∈ t, lastSep g t = r.2
  | [], _ => Or.inl rfl
  | r :: rs, g => by
    rcases lastSep_mem rs r.2 with h | ⟨r', hr', h⟩
    · exact Or.inr ⟨r, List.mem_cons_self, h⟩
    · exact Or.inr ⟨r', List.mem_cons_of_mem _ hr', h⟩

/-- tables of rows of plain cells whose separators are `sepOk`, plain paragraphs behind them -/
def STableOk (P : Params) (t : STable) : Prop := t ≠ [] ∧ ∀ r ∈ t, RowOk r.1 ∧ sepOk P r.2 = true

/-- a gap in front of a table: quiet, and `\row` can end in front of it -/
def GapOk (P : Params) (g : Str) : Prop := QuietGap P g ∧ StartsNW P g

theorem gapOk_after (P : Params) (t : STable) (ht : STableOk P t) (g : Str) (ps : List Str)
    (hps : ∀ p ∈ ps, plainText p = true) : GapOk P (lastSep g t ++ parasRtf ps) := by
  obtain ⟨hne, hr⟩ := ht
  rcases lastSep_mem t [] with h | ⟨r, hr', h⟩
  · cases t with
    | nil => exact absurd rfl hne
    | cons r rs =>
      rcases lastSep_mem rs r.2 with h' | ⟨r', hr', h'⟩
      · have e : lastSep g (r :: rs) = r.2 := h'
        obtain ⟨h1, _, h3⟩ := sepOk_parts (hr r List.mem_cons_self).2
        rw [e]
        exact ⟨quietGap_append P _ _ (quietGap_noBs P _ h1) (quietGap_paras P ps hps),
          startsNW_append P _ _ h3 (fun _ => startsNW_paras P ps)⟩
      · have e : lastSep g (r :: rs) = r'.2 := h'
        obtain ⟨h1, _, h3⟩ := sepOk_parts (hr r' (List.mem_cons_of_mem _ hr')).2
        rw [e]
        exact ⟨quietGap_append P _ _ (quietGap_noBs P _ h1) (quietGap_paras P ps hps),
          startsNW_append P _ _ h3 (fun _ => startsNW_paras P ps)⟩
  · rw [lastSep_ne t g [] hne, h]
    obtain ⟨h1, _, h3⟩ := sepOk_parts (hr r hr').2
    exact ⟨quietGap_append P _ _ (quietGap_noBs P _ h1) (quietGap_paras P ps hps),
      startsNW_append P _ _ h3 (fun _ => startsNW_paras P ps)⟩

theorem tblsOf_props (P : Params) : ∀ (ts : List (STable × List Str)) (g : Str), GapOk P g →
    (∀ tp ∈ ts, STableOk P tp.1 ∧ ∀ p ∈ tp.2, plainText p = true) →
    (∀ t ∈ tblsOf g ts, t ≠ [] ∧ (∀ s ∈ t, QuietGap P s.1 ∧ RowOk s.2 ∧ StartsNW P s.1) ∧ ∀ s ∈ t.tail, breaks P s.1 = false) ∧
      (Quiet P sTrowd (tailS g ts) [] ∧ Quiet P sRow (tailS g ts) []) ∧ StartsNW P (tailS g ts)
  | [], g, hg, _ => by
    refine ⟨by simp [tblsOf], ⟨?_, ?_⟩, ?_⟩
    · exact quiet_append _ _ _ _ _ (hg.1 _).1 (quiet_noBs _ _ _ _ (noBs_of_all _ (by decide)))
    · exact quiet_append _ _ _ _ _ (hg.1 _).2 (quiet_noBs _ _ _ _ (noBs_of_all _ (by decide)))
    · apply startsNW_append P _ _ hg.2
      intro _ c t h; cases h; simp [isWord, isAsciiAlpha, isDigit]
  | tp :: rest, g, hg, h => by
    obtain ⟨htp, hps⟩ := h tp List.mem_cons_self
    have ih := tblsOf_props P rest (lastSep g tp.1 ++ parasRtf tp.2) (gapOk_after P tp.1 htp g tp.2 hps)
      (fun x hx => h x (List.mem_cons_of_mem _ hx))
    refine ⟨?_, ih.2⟩
    intro t ht
    simp only [tblsOf, List.mem_cons] at ht
    rcases ht with rfl | ht
    · refine ⟨?_, ?_, ?_⟩
      · obtain ⟨hne, _⟩ := htp
        cases h1 : tp.1 with
        | nil => exact absurd h1 hne
        | cons r rs => simp [segsS]
      · intro s hs
        obtain ⟨hgap, r, hr, hrow⟩ := mem_segsS tp.1 g s hs
        refine ⟨?_, by rw [hrow]; exact (htp.2 r hr).1, ?_⟩
        · rcases hgap with h1 | ⟨r', hr', h1⟩
          · rw [h1]; exact hg.1
          · rw [h1]; exact quietGap_noBs P _ (sepOk_parts (htp.2 r' hr').2).1
        · rcases hgap with h1 | ⟨r', hr', h1⟩
          · rw [h1]; exact hg.2
          · rw [h1]; exact (sepOk_parts (htp.2 r' hr').2).2.2
      · intro s hs
        obtain ⟨r, hr, h1⟩ := mem_segsS_tail tp.1 g s hs
        rw [h1]; exact (sepOk_parts (htp.2 r hr).2).2.1
    · exact ih.1 t ht

/-- the rows of a table written with the line end of the first round behind every `\row` -/
def withNl (t : RTable) : STable := t.map (fun r => (r, ['\n']))

theorem tableRtfS_withNl (t : RTable) : tableRtfS (withNl t) = tableRtf t := by
  simp [tableRtfS, withNl, tableRtf, List.flatMap_map]

theorem docRtfS_withNl (lead : List Str) (ts : List (RTable × List Str)) :
    docRtfS lead (ts.map (fun tp => (withNl tp.1, tp.2))) = docRtf (docOf lead ts) := by
  rw [docRtf_docOf]
  simp [docRtfS, tablesRtfS, tablesRtf, List.flatMap_map, tableRtfS_withNl]

end S2T.Tables.Rtf
