import S2T.Lemmas.AesKatVec
/-! Known-answer validation of the specification `S2T.Spec.Fips197`, evaluated by the kernel.  SP 800-38A F.1.1/F.1.2 (ECB-AES128)
    (static file; independent of the Python source) -/
namespace S2T.AesL.Kat
open S2T.Spec.Fips197
set_option maxRecDepth 100000

/-- SP 800-38A F.1.1 ECB-AES128.Encrypt -/
theorem ecb128_encrypt : ecbEncrypt key128 pt = ecb128 := by decide +kernel
/-- SP 800-38A F.1.2 ECB-AES128.Decrypt -/
theorem ecb128_decrypt : ecbDecrypt key128 ecb128 = pt := by decide +kernel

end S2T.AesL.Kat
