import S2T.Lemmas.AesKatVec
/-! Known-answer validation of the specification `S2T.Spec.Fips197`, evaluated by the kernel.  SP 800-38A F.1.5/F.1.6 (ECB-AES256)
    (static file; independent of the Python source) -/
namespace S2T.AesL.Kat
open S2T.Spec.Fips197
set_option maxRecDepth 100000

/-- SP 800-38A F.1.5 ECB-AES256.Encrypt -/
theorem ecb256_encrypt : ecbEncrypt key256 pt = ecb256 := by decide +kernel
/-- SP 800-38A F.1.6 ECB-AES256.Decrypt -/
theorem ecb256_decrypt : ecbDecrypt key256 ecb256 = pt := by decide +kernel

end S2T.AesL.Kat
