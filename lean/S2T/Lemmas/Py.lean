import S2T.Py.Prelude
/-!
Generic lemmas and tactics for the equivalence proofs `translated function = hand model`
(`Props/Cxx_Src.lean`).  Core Lean only.

Proof scheme used by the `_Src` files (robust against harmless rewrites of the source):
1. `unfold` the translated function, normalise the monad plumbing with `simp +instances`
   (`+instances`: rewritten `if` conditions keep a syntactically matching `Decidable` instance,
   otherwise `split` cannot generalise them);
2. loops: a generic `forIn` lemma "if the body is the model's step then the loop is the model's
   loop", whose body obligation is a goal of kind 3;
3. straight-line code: `py_close` = split every `if`/`match` on both sides, close each leaf by
   `omega` / `simp_all`.
-/
namespace S2T.Py

@[simp] theorem M.pure_def {α} (a : α) : (pure a : M α) = Except.ok a := rfl
@[simp] theorem M.throw_def {α} (e : Exc) : (throw e : M α) = Except.error e := rfl
@[simp] theorem M.ok_bind {α β} (a : α) (f : α → M β) : (Except.ok a : M α) >>= f = f a := rfl
@[simp] theorem M.error_bind {α β} (e : Exc) (f : α → M β) : (Except.error e : M α) >>= f = Except.error e := rfl
@[simp] theorem M.tryCatch_ok {α} (a : α) (h : Exc → M α) : tryCatch (Except.ok a : M α) h = Except.ok a := rfl
@[simp] theorem M.tryCatch_error {α} (e : Exc) (h : Exc → M α) : tryCatch (Except.error e : M α) h = h e := rfl

@[simp] theorem unwrap_some {α} (a : α) : unwrap (some a) = Except.ok a := rfl
@[simp] theorem unwrap_none {α} : (unwrap (none : Option α)) = Except.error noneUsedAsValue := rfl

@[simp] theorem truthy_bool (b : Bool) : truthy b = b := rfl
@[simp] theorem truthy_int (n : Int) : truthy n = (n != 0) := rfl
@[simp] theorem truthy_list {α} (l : List α) : truthy l = !l.isEmpty := rfl
@[simp] theorem truthy_none {α} [Truthy α] : truthy (none : Option α) = false := rfl
@[simp] theorem truthy_some {α} [Truthy α] (a : α) : truthy (some a) = truthy a := rfl

@[simp] theorem orV_int_zero (n : Int) : orV n 0 = n := by
  unfold orV; split <;> simp_all

/-! ## `x / y` -/

/-- every non-negative quotient with numerator below `fmax` is a finite double -/
def fmax : Nat := 2 ^ 1023

theorem fmax_le : fmax ≤ floatOverflowBound := by
  unfold fmax floatOverflowBound
  have e : (2:Nat) ^ 1024 = 2 ^ 1023 * 2 := Nat.pow_succ 2 1023
  have l : (2:Nat) ^ 970 ≤ 2 ^ 1023 := Nat.pow_le_pow_right (by decide) (by decide)
  generalize (2:Nat) ^ 1024 = A at *
  generalize (2:Nat) ^ 1023 = B at *
  generalize (2:Nat) ^ 970 = C at *
  omega

theorem not_overflows (x y : Int) (hy : 0 < y) (hx0 : 0 ≤ x) (hx : x < (fmax : Int)) : ¬ TruedivOverflows x y := by
  unfold TruedivOverflows
  have hy' : 1 ≤ y.natAbs := by omega
  have : x.natAbs < fmax := by omega
  have := Nat.mul_le_mul_right floatOverflowBound hy'
  have := fmax_le
  omega

/-- `let v ← a / b; k v` as a chain of `if`s (so that `split` sees the two ways it raises) -/
theorem truediv_bind {β} (x y : Int) (k : FloatV → M β) :
    (truediv x y >>= k) = if y = 0 then Except.error zeroDivisionError
      else if TruedivOverflows x y then Except.error overflowError else k ⟨x, y⟩ := by
  unfold truediv
  split
  · rfl
  · split <;> rfl

/-- split every `if` / `match` of the goal (both sides), then close each leaf: contradictory
    arithmetic by `omega`, an impossible float overflow by `not_overflows`, the rest by `simp_all`. -/
macro "py_close" : tactic => `(tactic| (
  repeat' split
  all_goals (first
    | omega
    | (refine absurd ‹TruedivOverflows _ _› (not_overflows _ _ ?_ ?_ ?_) <;> omega)
    | (simp_all; done)
    | (simp_all; omega))))

end S2T.Py
