import S2T.Spec.OoxmlDeck
import S2T.Lemmas.OoxmlLin
/-! C02 (part "ooxml"): PPTX paragraph text and slide assembly. -/
namespace S2T.C02.Ooxml.Pptx
open S2T.C02.Ooxml

variable {ws : Char → Bool}

theorem iterP_append (a b : List Xml) : iterP (a ++ b) = iterP a ++ iterP b := by
  induction a with
  | nil => simp [iterP]
  | cons x a ih => simp [iterP, ih]

theorem iterP_runs (rs : List Run) : iterP (rs.map renderRun) = [] := by
  induction rs with
  | nil => simp [iterP]
  | cons r rs ih => cases r <;> simp [renderRun, el, leaf, iterP, iterPNode, ih, o]

theorem iterP_para (rs : List Run) : iterPNode (renderPara rs) = [renderPara rs] := by
  simp [renderPara, el, iterPNode, iterP, iterP_append, iterP_runs, o]

theorem iterP_paras (ps : List (List Run)) : iterP (ps.map renderPara) = ps.map renderPara := by
  induction ps with
  | nil => simp [iterP]
  | cons p ps ih => simp [iterP, iterP_para, ih]

theorem paraParts_append (a b : List Xml) : paraParts (a ++ b) = paraParts a ++ paraParts b := by
  induction a with
  | nil => simp [paraParts]
  | cons x a ih => cases x with | node t a1 tx k => simp [paraParts, ih]

/-- the text of one run as `_extract_text_from_paragraphs` reads it -/
def runPart : Run → Str
  | .text s => s
  | .br => ['\x0b']
  | .field s => s

theorem paraParts_runs (rs : List Run) : concat (paraParts (rs.map renderRun)) = concat (rs.map runPart) := by
  induction rs with
  | nil => simp [paraParts]
  | cons r rs ih => cases r <;> simp [renderRun, el, leaf, paraParts, firstT, concat, ih, runPart, o]

theorem concat_append (a b : List Str) : concat (a ++ b) = concat a ++ concat b := by
  induction a with
  | nil => rfl
  | cons x a ih => simp [concat, ih]

theorem para_text (rs : List Run) : concat (paraParts (renderPara rs).kids) = concat (rs.map runPart) := by
  have e : (renderPara rs).kids
      = [el (o "a:pPr") []] ++ (List.map renderRun rs ++ [el (o "a:endParaRPr") []]) := rfl
  rw [e, paraParts_append, paraParts_append, concat_append, concat_append, paraParts_runs]
  simp [el, paraParts, concat, o]

theorem runs_eqv (hw : WsOk ws) (rs : List Run) : Eqv ws (concat (rs.map runPart)) (linRuns rs) := by
  induction rs with
  | nil => exact Eqv.refl _
  | cons r rs ih =>
    simp only [List.map_cons, concat, linRuns] at ih ⊢
    refine Eqv.append ?_ ih
    cases r
    · exact Eqv.refl _
    · exact Eqv.seps (by simp [runPart]) (by simp [linRun])
        (by intro c hc; simp [runPart] at hc; subst hc; exact hw.vt) (by simpa [linRun] using allws_sp hw)
    · exact Eqv.refl _

theorem words_linParas (hw : WsOk ws) (ps : List (List Run)) :
    words ws (linParas ps) = ps.flatMap (fun p => words ws (linRuns p)) := by
  induction ps with
  | nil => simp [linParas, concat, words_nil]
  | cons p ps ih =>
    simp only [linParas, List.map_cons, concat] at ih ⊢
    rw [(Delim.wrap ' ' ' ' (linRuns p) hw.sp hw.sp).words_right, ih, List.cons_append, words_cons_ws _ _ hw.sp,
      words_append_ws_end _ _ hw.sp]
    simp

/-- `_extract_text_from_paragraphs` on a rendered text body: the words of its paragraphs, in order;
    a paragraph boundary and a line break (`a:br`, emitted as vertical tab) are whitespace -/
theorem parasText_words (hw : WsOk ws) (tag : String) (ps : List (List Run)) :
    words ws (parasText (renderTxBody tag ps)) = words ws (linParas ps) := by
  have h1 : iterP [renderTxBody tag ps] = ps.map renderPara := by
    simp [renderTxBody, el, iterP, iterPNode, iterP_paras, o]
  rw [parasText, h1, words_join _ (by simp) (allws_nl hw), words_linParas hw]
  clear h1
  induction ps with
  | nil => rfl
  | cons p ps ih =>
    simp only [List.map_cons, List.flatMap_cons]
    rw [para_text, (runs_eqv hw p).toWords, ih]

theorem flatMap_filterMap {α β γ : Type} (f : α → Option β) (g : β → List γ) (l : List α) :
    (l.filterMap f).flatMap g = l.flatMap (fun a => (f a).elim [] g) := by
  induction l with
  | nil => rfl
  | cons a l ih =>
    simp only [List.filterMap_cons, List.flatMap_cons]
    cases f a <;> simp [ih]

/-- `PptxSlide.base_text`, for ANY list of shapes: the words of the shapes' texts in the order of the
    stable sort by (top, left) offset; a shape boundary is a newline -/
theorem baseText_words (hw : WsOk ws) (C : Consts) (shapes : List Shape) :
    words ws (baseText C ws shapes) =
      (ordered C shapes).flatMap (fun s => (shapeText C ws s).elim [] (words ws)) := by
  rw [baseText, words_join _ (by simp) (allws_nl hw), flatMap_filterMap]

/-- `PptxContent.get_full_text()`, for ANY deck: slide after slide -/
theorem fullText_words (hw : WsOk ws) (C : Consts) (slides : List (List Shape)) :
    words ws (fullText C ws slides) = slides.flatMap (fun s => words ws (baseText C ws s)) := by
  rw [fullText, words_strip ws (fun _ h => h), words_join _ (by simp) (allws_nl hw), List.flatMap_map]
  congr 1
  funext s
  exact words_strip ws (fun _ h => h) _

end S2T.C02.Ooxml.Pptx
