import S2T.Lemmas.TablesRtf
/-! Text-level passes (everything behind the control-word removal) on the joined text of a plain cell. -/
namespace S2T.Tables.Rtf
open S2T.HtmlSkip (Str)
open S2T.Tables

def isWs (c : Char) : Bool := c == ' ' || c == '\n'

/-- the text of a plain cell: plain characters and newlines, every white-space character followed by a
    character that is none -/
def clean : Str → Bool
  | [] => true
  | c :: r => (c == '\n' || plainChar c) && (!isWs c || (match r with | d :: _ => !isWs d | [] => false)) && clean r

theorem plainChar_not_space {c : Char} (h : plainChar c = true) (h2 : c ≠ ' ') : isPySpace c = false := by
  simp only [plainChar, Bool.and_eq_true, Bool.or_eq_true, beq_iff_eq, Bool.not_eq_true'] at h
  rcases h.1.2 with h3 | h3
  · exact absurd h3 h2
  · exact h3

theorem isPySpace_nl : isPySpace '\n' = true := by decide
theorem isPySpace_sp : isPySpace ' ' = true := by decide

/-- a clean character that is not white space for us is not white space for Python -/
theorem clean_head_not_pyspace {c : Char} {r : Str} (h : clean (c :: r) = true) (hw : isWs c = false) :
    isPySpace c = false := by
  simp only [clean, Bool.and_eq_true, Bool.or_eq_true, beq_iff_eq] at h
  simp only [isWs, Bool.or_eq_false_iff, beq_eq_false_iff_ne] at hw
  rcases h.1.1 with h1 | h1
  · exact absurd h1 hw.2
  · exact plainChar_not_space h1 hw.1

theorem clean_tail {c : Char} {r : Str} (h : clean (c :: r) = true) : clean r = true := by
  simp only [clean, Bool.and_eq_true] at h; exact h.2

/-- the character behind a white-space character -/
theorem clean_after_ws {c : Char} {r : Str} (h : clean (c :: r) = true) (hw : isWs c = true) :
    ∃ d r', r = d :: r' ∧ isWs d = false := by
  simp only [clean, Bool.and_eq_true, Bool.or_eq_true, Bool.not_eq_true'] at h
  rcases h.1.2 with h1 | h1
  · rw [hw] at h1; exact absurd h1 (by decide)
  · cases r with
    | nil => exact absurd h1 (by decide)
    | cons d r' => exact ⟨d, r', rfl, by simpa using h1⟩

theorem clean_allSuffix {P : Str → Prop} (hP : ∀ c r, clean (c :: r) = true → P (c :: r)) :
    ∀ s, clean s = true → AllSuffix P s
  | [], _ => trivial
  | c :: r, h => ⟨hP c r h, clean_allSuffix hP r (clean_tail h)⟩

/-! ### the passes are the identity on clean text -/

theorem takeWhile_head_false {α} (p : α → Bool) (c : α) (r : List α) (h : p c = false) : (c :: r).takeWhile p = [] := by
  simp [List.takeWhile, h]

theorem runM_none_of_head (cls : Char → Bool) (least : Nat) (rep : Str) (c : Char) (r : Str) (h : cls c = false) :
    runM cls least rep (c :: r) = none := by
  simp [runM, takeWhile_head_false cls c r h]

/-- a one-character run in front of a character outside the class -/
theorem takeWhile_single (cls : Char → Bool) (c d : Char) (r : Str) (hc : cls c = true) (hd : cls d = false) :
    ((c :: d :: r).takeWhile cls).length = 1 := by
  simp [List.takeWhile, hc, hd]

theorem ws_class_false {c : Char} {r : Str} (h : clean (c :: r) = true) (hw : isWs c = false)
    (cls : Char → Bool) (hcls : ∀ x, cls x = true → isPySpace x = true) : cls c = false := by
  cases hc : cls c with
  | false => rfl
  | true => have := hcls c hc; rw [clean_head_not_pyspace h hw] at this; exact absurd this (by decide)

theorem multiSpace_clean (s : Str) (h : clean s = true) : multiSpace s = s := by
  unfold multiSpace
  apply subst_id
  refine clean_allSuffix ?_ s h
  intro c r hc
  have hcls : ∀ x : Char, (x == ' ' || x == '\t') = true → isPySpace x = true := by
    intro x hx
    simp only [Bool.or_eq_true, beq_iff_eq] at hx
    rcases hx with rfl | rfl <;> decide
  cases hw : isWs c with
  | false => left; exact runM_none_of_head _ _ _ c r (ws_class_false hc hw _ hcls)
  | true =>
    obtain ⟨d, r', rfl, hd⟩ := clean_after_ws hc hw
    have hdc := ws_class_false (clean_tail hc) hd _ hcls
    simp only [isWs, Bool.or_eq_true, beq_iff_eq] at hw
    rcases hw with rfl | rfl
    · right; refine ⟨' ', d :: r', rfl, ?_⟩
      have hlen := takeWhile_single (fun c => c == ' ' || c == '\t') ' ' d r' (by decide) hdc
      simp only [runM, hlen]; rfl
    · left; exact runM_none_of_head _ _ _ _ _ (by decide)

theorem cellSpace_clean (s : Str) (h : clean s = true) : cellSpace s = s := by
  unfold cellSpace
  apply subst_id
  refine clean_allSuffix ?_ s h
  intro c r hc
  have hcls : ∀ x : Char, (x == ' ' || x == '\t' || x.toNat == 12 || x.toNat == 11) = true → isPySpace x = true := by
    intro x hx
    simp only [Bool.or_eq_true, beq_iff_eq] at hx
    simp only [isPySpace, S2T.HtmlSkip.Epub.isPySpace]
    rcases hx with ((rfl | rfl) | hx) | hx
    · decide
    · decide
    · simp [hx]
    · simp [hx]
  cases hw : isWs c with
  | false => left; exact runM_none_of_head _ _ _ c r (ws_class_false hc hw _ hcls)
  | true =>
    obtain ⟨d, r', rfl, hd⟩ := clean_after_ws hc hw
    have hdc := ws_class_false (clean_tail hc) hd _ hcls
    simp only [isWs, Bool.or_eq_true, beq_iff_eq] at hw
    rcases hw with rfl | rfl
    · right; refine ⟨' ', d :: r', rfl, ?_⟩
      have hlen := takeWhile_single (fun c => c == ' ' || c == '\t' || c.toNat == 12 || c.toNat == 11) ' ' d r' (by decide) hdc
      simp only [runM, hlen]; rfl
    · left; exact runM_none_of_head _ _ _ _ _ (by decide)

theorem multiNl_clean (s : Str) (h : clean s = true) : multiNl s = s := by
  unfold multiNl
  apply subst_id
  refine clean_allSuffix ?_ s h
  intro c r hc
  left
  by_cases hn : c = '\n'
  · subst hn
    obtain ⟨d, r', rfl, hd⟩ := clean_after_ws hc (by decide)
    have : (d == '\n') = false := by
      simp only [isWs, Bool.or_eq_false_iff] at hd; exact hd.2
    have hlen := takeWhile_single (fun c => c == '\n') '\n' d r' (by decide) this
    simp only [runM, hlen]; rfl
  · exact runM_none_of_head _ _ _ _ _ (by simpa using hn)

theorem cellNl_clean (s : Str) (h : clean s = true) : cellNl s = s := by
  unfold cellNl
  apply subst_id
  refine clean_allSuffix ?_ s h
  intro c r hc
  by_cases hs : c = ' '
  · subst hs
    obtain ⟨d, r', rfl, hd⟩ := clean_after_ws hc (by decide)
    simp only [isWs, Bool.or_eq_false_iff, beq_eq_false_iff_ne] at hd
    left
    have hd1 : (d == ' ') = false := by simpa using hd.1
    have h1 : (' ' :: d :: r').takeWhile (· == ' ') = [' '] := by
      rw [List.takeWhile_cons_of_pos (by decide), takeWhile_head_false _ d r' hd1]
    simp only [cellNlM, h1, List.length_singleton, List.drop_succ_cons, List.drop_zero]
    split
    · rename_i heq; cases heq; exact absurd rfl hd.2
    · rfl
  · by_cases hn : c = '\n'
    · subst hn
      obtain ⟨d, r', rfl, hd⟩ := clean_after_ws hc (by decide)
      simp only [isWs, Bool.or_eq_false_iff, beq_eq_false_iff_ne] at hd
      right
      refine ⟨'\n', d :: r', rfl, ?_⟩
      have hd1 : (d == ' ') = false := by simpa using hd.1
      have h1 : ('\n' :: d :: r').takeWhile (· == ' ') = [] := takeWhile_head_false _ _ _ (by decide)
      have h2 : (d :: r').takeWhile (· == ' ') = [] := takeWhile_head_false _ d r' hd1
      simp [cellNlM, h1, h2]
    · left
      have h1 : (c :: r).takeWhile (· == ' ') = [] := takeWhile_head_false _ c r (by simpa using hs)
      simp only [cellNlM, h1, List.length_nil, List.drop_zero]
      split
      · rename_i heq; cases heq; exact absurd rfl hn
      · rfl

theorem removeBraces_clean (s : Str) (h : clean s = true) : removeBraces s = s := by
  unfold removeBraces
  rw [List.filter_eq_self]
  intro c hc
  induction s with
  | nil => cases hc
  | cons x r ih =>
    rcases List.mem_cons.mp hc with rfl | hm
    · simp only [clean, Bool.and_eq_true, Bool.or_eq_true, beq_iff_eq] at h
      rcases h.1.1 with h1 | h1
      · subst h1; decide
      · simp only [plainChar, Bool.and_eq_true, bne_iff_ne] at h1
        simp [h1.1.1.1.2, h1.1.1.2]
    · exact ih (clean_tail h) hm

/-- no run of 64 hexadecimal digits anywhere -/
theorem hexRun_free (s : Str) (h : hexRunFree s = true) : hexRun s = s := by
  unfold hexRun
  apply subst_id
  induction s with
  | nil => trivial
  | cons c r ih =>
    simp only [hexRunFree, Bool.and_eq_true, decide_eq_true_eq] at h
    refine ⟨?_, ih h.2⟩
    left
    simp only [runM]
    rw [if_neg]
    simp only [Bool.and_eq_true, decide_eq_true_eq, not_and]
    intro h1; omega

/-! ### strip -/

theorem lstrip_of_head {c : Char} {r : Str} (h : isPySpace c = false) : lstrip (c :: r) = c :: r := by
  have : Tables.isPySpace c = false := h
  simp [lstrip, this]

theorem lstrip_space (s : Str) : lstrip (' ' :: s) = lstrip s := by
  have : Tables.isPySpace ' ' = true := by decide
  simp [lstrip, this]

theorem clean_getLast {s : Str} (h : clean s = true) (hne : s ≠ []) : isPySpace (s.getLast hne) = false := by
  induction s with
  | nil => exact absurd rfl hne
  | cons c r ih =>
    cases r with
    | nil =>
      simp only [List.getLast_singleton]
      cases hw : isWs c with
      | false => exact clean_head_not_pyspace h hw
      | true => obtain ⟨d, r', he, _⟩ := clean_after_ws h hw; cases he
    | cons d r' =>
      rw [List.getLast_cons (by simp)]
      exact ih (clean_tail h) (by simp)

/-- clean text that does not start with white space is what `strip()` leaves of it, also behind one space -/
theorem pyStrip_clean (s : Str) (h : clean s = true) (hh : ∀ c r, s = c :: r → isWs c = false) :
    pyStrip s = s ∧ pyStrip (' ' :: s) = s := by
  have key : pyStrip s = s := by
    cases s with
    | nil => rfl
    | cons c r =>
      have h1 := clean_head_not_pyspace h (hh c r rfl)
      unfold pyStrip
      rw [lstrip_of_head h1]
      have hl := clean_getLast h (by simp)
      have : (c :: r).reverse = (c :: r).getLast (by simp) :: ((c :: r).dropLast).reverse := by
        conv => lhs; rw [← List.dropLast_concat_getLast (l := c :: r) (by simp)]
        simp
      rw [this, lstrip_of_head hl, ← this, List.reverse_reverse]
  refine ⟨key, ?_⟩
  have : pyStrip (' ' :: s) = pyStrip s := by
    unfold pyStrip; rw [lstrip_space]
  rw [this, key]

end S2T.Tables.Rtf
