import S2T.Lemmas.Py
import S2T.Lemmas.PyPaths
import S2T.Lemmas.Omml
import S2T.Py.Omml
/-!
Lemmas for the source tie of C19 (`Props/C19_Src.lean`): the abstraction `abs` from ElementTree elements
(`S2T.Py.Omml.Xml`: tag, attrib, text, tail, children) to the hand model's trees (`S2T.Omml.Xml`: namespace flag, local
name, `m:val`, text, children), the representation of the model's stack of pending brackets as the list the source keeps
(`unstack`), and the bridges between the prelude operations (`S2T/Py/Omml.lean`, `Paths.lean`) and the model's helper
functions.  Core Lean only; every declaration lives in `S2T.Py.Omml`.
-/
namespace S2T.Py.Omml
open S2T.Py

abbrev MXml := S2T.Omml.Xml
abbrev Tables := S2T.Omml.Tables
abbrev Stack := S2T.Omml.Stack
abbrev Out := S2T.Omml.Out

/-! ## abstraction -/

/-- `tag.split("}")[-1]` -/
def localName (tag : Str) : Str := ((splitOn '}' tag).getLast?).getD []

mutual
/-- what the hand model looks at in an element: is the tag `ns + local name`, the local name, the attribute `ns + "val"`,
    `text or ""`, the children -/
def abs (ns : Str) : Xml → MXml
  | ⟨tag, attrib, text, _, children⟩ =>
    .node (tag == ns ++ localName tag) (localName tag) (S2T.Omml.lookup (ns ++ ['v', 'a', 'l']) attrib)
      (orOpt text []) (absL ns children)
def absL (ns : Str) : List Xml → List MXml
  | [] => []
  | c :: cs => abs ns c :: absL ns cs
end

theorem absL_eq_map (ns : Str) (cs : List Xml) : absL ns cs = cs.map (abs ns) := by
  induction cs with
  | nil => simp [absL]
  | cons c cs ih => simp [absL, ih]

theorem abs_eq (ns : Str) (x : Xml) :
    abs ns x = .node (x.tag == ns ++ localName x.tag) (localName x.tag) (x.get? (ns ++ ['v', 'a', 'l']))
      (orOpt x.text []) (x.children.map (abs ns)) := by
  cases x; simp [abs, absL_eq_map, Xml.get?]

/-- the model's stack (innermost first, characters) as the source's list (innermost last, one-character strings) -/
def unstack (s : Stack) : List Str := s.reverse.map (fun c => [c])

@[simp] theorem unstack_nil : unstack [] = [] := rfl
theorem unstack_cons (c : Char) (s : Stack) : unstack (c :: s) = unstack s ++ [[c]] := by simp [unstack]
@[simp] theorem unstack_length (s : Stack) : (unstack s).length = s.length := by simp [unstack]

/-! ## strong induction on the size of an element -/

theorem Xml.strongInd {P : Xml → Prop} (h : ∀ x, (∀ y, sizeOf y < sizeOf x → P y) → P x) : ∀ x, P x := by
  intro x
  generalize hn : sizeOf x = n
  induction n using Nat.strongRecOn generalizing x with
  | _ n ih => exact h x (fun y hy => ih (sizeOf y) (hn ▸ hy) y rfl)

/-! ## `tag.split("}")[-1]` -/

theorem getItem_last {α} (l : List α) (h : l ≠ []) : listGetItem l (-1) = Except.ok (l.getLast h) := by
  unfold listGetItem
  have hl : 0 < l.length := List.length_pos_iff.mpr h
  have e : ((-1 : Int) + (l.length : Int)).toNat = l.length - 1 := by omega
  simp only [show ((-1 : Int) < 0) from by decide, if_true]
  rw [if_neg (by omega), e]
  rw [List.getLast_eq_getElem]
  simp [List.getElem?_eq_getElem (show l.length - 1 < l.length by omega)]

theorem getItem_split (tag : Str) : listGetItem (splitOn '}' tag) (-1) = Except.ok (localName tag) := by
  rw [getItem_last _ (splitOn_ne_nil _ _)]
  simp [localName, List.getLast?_eq_getLast (splitOn_ne_nil '}' tag)]

theorem splitOn_no (c : Char) (n : Str) (h : n.contains c = false) : splitOn c n = [n] := by
  induction n with
  | nil => rfl
  | cons a r ih =>
    simp only [List.contains_cons, Bool.or_eq_false_iff] at h
    have : a ≠ c := by intro e; subst e; simp at h
    simp [splitOn, this, ih h.2]

theorem splitOn_append_sep' (c : Char) (a n : Str) :
    splitOn c (a ++ c :: n) = splitOn c a ++ splitOn c n := by
  induction a with
  | nil => simp [splitOn]
  | cons x r ih =>
    simp only [List.cons_append, splitOn]
    split
    · simp [ih]
    · rw [ih]
      rcases h : splitOn c r with _ | ⟨s, t⟩
      · exact absurd h (splitOn_ne_nil _ _)
      · simp

theorem splitOn_append_sep (c : Char) (a n : Str) :
    (splitOn c (a ++ c :: n)).getLast? = (splitOn c n).getLast? := by
  rw [splitOn_append_sep', List.getLast?_append]
  rcases h : splitOn c n with _ | ⟨s, t⟩
  · exact absurd h (splitOn_ne_nil _ _)
  · simp [List.getLast?_cons]

/-- a namespace is `{uri}`: it ends with the closing brace -/
def NsOk (ns : Str) : Prop := ns.getLast? = some '}'
instance (ns : Str) : Decidable (NsOk ns) := inferInstanceAs (Decidable (_ = _))

theorem localName_ns (ns n : Str) (hns : NsOk ns) (hn : n.contains '}' = false) : localName (ns ++ n) = n := by
  unfold NsOk at hns
  obtain ⟨a, rfl⟩ : ∃ a, ns = a ++ ['}'] := List.getLast?_eq_some_iff.mp hns
  simp only [localName, List.append_assoc, List.singleton_append]
  rw [splitOn_append_sep, splitOn_no _ _ hn]
  rfl

/-- the model's tag test on an abstracted element is the source's comparison of the whole tag -/
theorem isTag_abs (ns n : Str) (hns : NsOk ns) (hn : n.contains '}' = false) (c : Xml) :
    S2T.Omml.isTag n (abs ns c) = (c.tag == ns ++ n) := by
  rw [abs_eq]
  show ((c.tag == ns ++ localName c.tag) && decide (localName c.tag = n)) = (c.tag == ns ++ n)
  by_cases h : c.tag = ns ++ n
  · simp [h, localName_ns ns n hns hn]
  · have : ¬ (c.tag = ns ++ localName c.tag ∧ localName c.tag = n) := by
      rintro ⟨h1, h2⟩; exact h (h2 ▸ h1)
    rw [show (c.tag == ns ++ n) = false from by simpa using h]
    simpa using this

/-! ## `find` / `findall` on an element vs. the model's lookups on the abstracted children -/

theorem stepAll_singleton (x : Xml) (t : Str) : stepAll [x] t = x.children.filter (fun c => c.tag == t) := by
  simp [stepAll]

theorem findall_one (x : Xml) (t : Str) : x.findall ⟨t, []⟩ = x.children.filter (fun c => c.tag == t) := by
  simp [Xml.findall, stepAll_singleton]

theorem find_one (x : Xml) (t : Str) : x.find ⟨t, []⟩ = x.children.find? (fun c => c.tag == t) := by
  simp [Xml.find, findall_one, List.head?_filter]

theorem findall_two (x : Xml) (a b : Str) :
    x.findall ⟨a, [b]⟩ = (x.children.filter (fun c => c.tag == a)).flatMap (fun y => y.children.filter (fun c => c.tag == b)) := by
  simp [Xml.findall, stepAll_singleton, stepAll]

theorem mem_children_of_find {x c : Xml} {t : Str} (h : x.find ⟨t, []⟩ = some c) : c ∈ x.children := by
  rw [find_one] at h; exact List.mem_of_find?_eq_some h

theorem filter_abs (ns n : Str) (hns : NsOk ns) (hn : n.contains '}' = false) (cs : List Xml) :
    (cs.map (abs ns)).filter (S2T.Omml.isTag n) = (cs.filter (fun c => c.tag == ns ++ n)).map (abs ns) := by
  rw [List.filter_map]
  congr 1
  apply List.filter_congr
  intro c _
  simp [isTag_abs ns n hns hn]

theorem find?_abs (ns n : Str) (hns : NsOk ns) (hn : n.contains '}' = false) (cs : List Xml) :
    (cs.map (abs ns)).find? (S2T.Omml.isTag n) = (cs.find? (fun c => c.tag == ns ++ n)).map (abs ns) := by
  induction cs with
  | nil => rfl
  | cons c cs ih =>
    simp only [List.map_cons, List.find?_cons, isTag_abs ns n hns hn]
    cases c.tag == ns ++ n <;> simp [ih]

theorem abs_kids (ns : Str) (x : Xml) : (abs ns x).kids = x.children.map (abs ns) := by
  rw [abs_eq]; rfl

/-- `elem.find(ns+a + "/" + ns+b)` is the model's `pathFind` -/
theorem pathFind_abs (ns a b : Str) (hns : NsOk ns) (ha : a.contains '}' = false) (hb : b.contains '}' = false)
    (x : Xml) :
    S2T.Omml.pathFind a b (x.children.map (abs ns)) = (x.find ⟨ns ++ a, [ns ++ b]⟩).map (abs ns) := by
  unfold S2T.Omml.pathFind Xml.find
  rw [findall_two, filter_abs ns a hns ha, List.flatMap_map]
  simp only [abs_kids]
  rw [← List.map_flatMap, find?_abs ns b hns hb, List.find?_flatMap]
  simp only [List.head?_flatMap, List.head?_filter]

/-- `x.get(ns+"val", d) if x is not None else d` -/
theorem attrOr_abs (ns d : Str) (o : Option Xml) :
    S2T.Omml.attrOr d (o.map (abs ns)) = (match o with | some c => c.getD (ns ++ ['v', 'a', 'l']) d | none => d) := by
  cases o with
  | none => rfl
  | some c => rw [Option.map_some, abs_eq]; rfl

/-! ## strings: `render`, `join`, `strip`, `partition`, dict lookups -/

theorem lookup_router {β} (k : Str) (d : List (Str × β)) : S2T.Router.lookup k d = S2T.Omml.lookup k d := by
  induction d with
  | nil => rfl
  | cons kv r ih => obtain ⟨k', v⟩ := kv; simp [S2T.Router.lookup, S2T.Omml.lookup, ih]

@[simp] theorem render_nil : S2T.Omml.render [] = [] := rfl
@[simp] theorem render_append (a b : Out) : S2T.Omml.render (a ++ b) = S2T.Omml.render a ++ S2T.Omml.render b := by
  simp [S2T.Omml.render]
@[simp] theorem render_cons (x : S2T.Omml.TC) (a : Out) : S2T.Omml.render (x :: a) = x.1 :: S2T.Omml.render a := rfl
@[simp] theorem render_lit (s : Str) : S2T.Omml.render (S2T.Omml.lit s) = s := by
  simp [S2T.Omml.render, S2T.Omml.lit, Function.comp_def]
@[simp] theorem render_run (s : Str) : S2T.Omml.render (S2T.Omml.run s) = s := by
  simp [S2T.Omml.render, S2T.Omml.run, Function.comp_def]
theorem render_eq_nil (o : Out) : S2T.Omml.render o = [] ↔ o = [] := by
  cases o <;> simp [S2T.Omml.render]
theorem render_flatten (l : List Out) : S2T.Omml.render l.flatten = (l.map S2T.Omml.render).flatten := by
  induction l with
  | nil => rfl
  | cons a r ih => simp [ih]

theorem strJoin_cons (sep s : Str) (t : List Str) :
    strJoin sep (s :: t) = s ++ (t.map (fun y => sep ++ y)).flatten := by
  induction t generalizing s with
  | nil => simp [strJoin]
  | cons u v ih => rw [strJoin]; · rw [ih]; simp
                   · exact fun h => nomatch h

theorem strJoin_nil (l : List Str) : strJoin [] l = l.flatten := by
  cases l with
  | nil => rfl
  | cons s t => rw [strJoin_cons]; simp

/-- `sep.join(parts)` is the model's `joinWith` -/
theorem strJoin_render (sep : Str) (outs : List Out) :
    strJoin sep (outs.map S2T.Omml.render) = S2T.Omml.render (S2T.Omml.joinWith (S2T.Omml.lit sep) outs) := by
  cases outs with
  | nil => rfl
  | cons a r =>
    rw [List.map_cons, strJoin_cons]
    simp only [S2T.Omml.joinWith, S2T.Omml.joinTail, render_append, render_flatten, List.map_map]
    congr 2
    apply List.map_congr_left
    intro y _
    simp

theorem strip_render (T : Tables) (o : Out) :
    strip T.spaces (S2T.Omml.render o) = S2T.Omml.render (S2T.Omml.strip T o) := by
  have e : ∀ l : Out, (l.map (·.1)).dropWhile (fun c => T.spaces.contains c.toNat)
      = (l.dropWhile (S2T.Omml.isSp T)).map (·.1) := by
    intro l; rw [List.dropWhile_map]; rfl
  simp only [strip, S2T.Omml.strip, S2T.Omml.lstrip, S2T.Omml.render]
  rw [e, ← List.map_reverse, e, List.map_reverse]

theorem strip_eq_nil (T : Tables) (o : Out) :
    S2T.Omml.strip T o = [] ↔ strip T.spaces (S2T.Omml.render o) = [] := by
  rw [strip_render, render_eq_nil]

theorem partitionAux_render (c : Char) (o : Out) :
    partitionAux [c] (S2T.Omml.render o)
      = (S2T.Omml.splitFirst c o).map (fun p => (S2T.Omml.render p.1, S2T.Omml.render p.2)) := by
  induction o with
  | nil => rfl
  | cons x r ih =>
    simp only [render_cons, partitionAux, S2T.Omml.splitFirst]
    by_cases h : x.1 = c
    · simp [h, List.isPrefixOf]
    · have h' : ¬ c = x.1 := fun e => h e.symm
      simp [h, h', List.isPrefixOf, ih, Option.map_map, Function.comp_def]

theorem strContains_render (c : Char) (o : Out) :
    strContains (S2T.Omml.render o) [c] = (S2T.Omml.splitFirst c o).isSome := by
  induction o with
  | nil => rfl
  | cons x r ih =>
    simp only [render_cons, strContains, S2T.Omml.splitFirst]
    by_cases h : x.1 = c
    · simp [h, List.isPrefixOf]
    · have h' : ¬ c = x.1 := fun e => h e.symm
      simp [h, h', List.isPrefixOf, ih]

theorem partition_render (c : Char) (o : Out) :
    partition (S2T.Omml.render o) [c] = Except.ok (match S2T.Omml.splitFirst c o with
      | some (a, b) => (S2T.Omml.render a, [c], S2T.Omml.render b)
      | none => (S2T.Omml.render o, [], [])) := by
  unfold partition
  rw [partitionAux_render]
  cases S2T.Omml.splitFirst c o with
  | none => rfl
  | some p => rfl

/-! ## the stack of pending brackets -/

theorem truthy_unstack (s : Stack) : truthy (unstack s) = !s.isEmpty := by
  cases s <;> simp [unstack]

theorem getItem_unstack (c : Char) (s : Stack) : listGetItem (unstack (c :: s)) (-1) = Except.ok [c] := by
  rw [getItem_last _ (by simp [unstack_cons])]
  simp [unstack_cons]

theorem listPop_unstack (c : Char) (s : Stack) : listPop (unstack (c :: s)) = Except.ok (unstack s, [c]) := by
  rw [listPop_of_ne_nil _ (by simp [unstack_cons])]
  simp [unstack_cons]

theorem dropLast_unstack (c : Char) (s : Stack) : (unstack (c :: s)).dropLast = unstack s := by
  simp [unstack_cons]

theorem len_unstack (s : Stack) : len (unstack s) = (s.length : Int) := by simp [len]

theorem strRepeat_one (c : Char) (n : Nat) : strRepeat [c] (n : Int) = List.replicate n c := by
  simp only [strRepeat, Int.toNat_natCast]
  induction n with
  | zero => rfl
  | succ k ih => simp [List.replicate_succ, ih]

/-- what the `while pending and pending[-1] in converted` loop leaves in `converted` and `pieces` (the model's
    `closeLoop`, on plain strings, with the pieces not yet joined) -/
def loopRes : Stack → Out → List Str → Str × List Str
  | [], o, ps => (S2T.Omml.render o, ps)
  | c :: st, o, ps =>
    match S2T.Omml.splitFirst c o with
    | none => (S2T.Omml.render o, ps)
    | some (a, b) => loopRes st b (ps ++ [S2T.Omml.render a ++ ['}']])

theorem loopRes_join (st : Stack) (o : Out) (ps : List Str) :
    ((loopRes st o ps).2 ++ [(loopRes st o ps).1]).flatten
      = ps.flatten ++ S2T.Omml.render (S2T.Omml.closeLoop st o).1 := by
  induction st generalizing o ps with
  | nil => simp [loopRes, S2T.Omml.closeLoop]
  | cons c st ih =>
    simp only [loopRes, S2T.Omml.closeLoop]
    rcases h : S2T.Omml.splitFirst c o with _ | ⟨a, b⟩
    · simp
    · simp only [ih]; simp

/-! ## `convert_greek_and_symbols` -/

theorem cdictContains_one {β} (d : List (Char × β)) (c : Char) :
    cdictContains d [c] = (S2T.Omml.lookup c d).isSome := rfl

theorem cdictGetItem_one {β} (d : List (Char × β)) (c : Char) :
    cdictGetItem d [c] = (match S2T.Omml.lookup c d with | some v => Except.ok v | none => Except.error keyError) := by
  simp only [cdictGetItem]; rfl

/-- the loop of `convert_greek_and_symbols`: any body that appends the model's `conv1` of the character -/
theorem forIn_conv (T : Tables) (f : Str → List Str → M (ForInStep (List Str)))
    (h : ∀ c acc, f [c] acc = Except.ok (ForInStep.yield (acc ++ [S2T.Omml.conv1 T c]))) (text : Str) (acc : List Str) :
    forIn (strIter text) acc f = Except.ok (acc ++ text.map (S2T.Omml.conv1 T)) := by
  induction text generalizing acc with
  | nil => simp [strIter]
  | cons c r ih =>
    simp only [strIter, List.map_cons, List.forIn_cons, h, M.ok_bind] at ih ⊢
    rw [ih]; simp

theorem convert_eq (T : Tables) (s : Str) : S2T.Omml.convert T s = (s.map (S2T.Omml.conv1 T)).flatten := by
  simp [S2T.Omml.convert, List.flatMap]

/-! ## templates -/

theorem render_radHead (dg : Out) :
    S2T.Omml.render (S2T.Omml.radHead dg) = (if dg = []
      then ['\\', 's', 'q', 'r', 't', '{'] else ['\\', 's', 'q', 'r', 't', '['] ++ S2T.Omml.render dg ++ [']', '{']) := by
  unfold S2T.Omml.radHead
  cases dg with
  | nil => simp [S2T.Omml.s_sqrt]
  | cons a r => simp [S2T.Omml.s_sqrtB, S2T.Omml.s_sqrtBmid]

theorem render_limit (T : Tables) (o : Str) (x : Out) :
    S2T.Omml.render (S2T.Omml.limit T o x) = (if S2T.Omml.strip T x = []
      then [] else o ++ S2T.Omml.render x ++ ['}']) := by
  unfold S2T.Omml.limit
  split <;> simp [S2T.Omml.s_close]

theorem render_funcName (T : Tables) (o : Out) :
    S2T.Omml.render (S2T.Omml.funcName T o)
      = (S2T.Omml.lookup (strip T.spaces (S2T.Omml.render o)) T.funcs).getD (S2T.Omml.render o) := by
  unfold S2T.Omml.funcName
  simp only [strip_render]
  cases h : S2T.Omml.lookup (S2T.Omml.render (S2T.Omml.strip T o)) T.funcs with
  | none => simp
  | some v =>
    simp only [Option.getD_some]
    split
    · next hv => simp [hv]
    · simp

/-! ## loops over elements (`[process_element(e) for e in …]`, `for child in elem`) -/

/-- every element is processed by `g`, the state threaded, the results collected in order -/
theorem forIn_seq (cs : List Xml) (g : Xml → S2T.Omml.M)
    (f : Xml → List Str × List Str → M (ForInStep (List Str × List Str)))
    (h : ∀ c ∈ cs, ∀ s acc, f c (unstack s, acc)
      = Except.ok (ForInStep.yield (unstack (g c s).2, acc ++ [S2T.Omml.render (g c s).1])))
    (s : Stack) (acc : List Str) :
    forIn cs (unstack s, acc) f = Except.ok (unstack (S2T.Omml.seqAll (cs.map g) s).2,
      acc ++ (S2T.Omml.seqAll (cs.map g) s).1.map S2T.Omml.render) := by
  induction cs generalizing s acc with
  | nil => simp [S2T.Omml.seqAll]
  | cons c r ih =>
    rw [List.forIn_cons, h c (by simp)]
    simp only [M.ok_bind, List.map_cons, S2T.Omml.seqAll]
    rw [ih (fun c' hc' => h c' (by simp [hc']))]
    simp

/-- same loop when only the concatenation of the collected strings matters (empty results may be dropped) -/
theorem forIn_seq_flat (cs : List Xml) (g : Xml → S2T.Omml.M)
    (f : Xml → List Str × List Str → M (ForInStep (List Str × List Str)))
    (h : ∀ c ∈ cs, ∀ s acc, ∃ acc', f c (unstack s, acc) = Except.ok (ForInStep.yield (unstack (g c s).2, acc'))
      ∧ acc'.flatten = acc.flatten ++ S2T.Omml.render (g c s).1)
    (s : Stack) (acc : List Str) :
    ∃ acc', forIn cs (unstack s, acc) f = Except.ok (unstack (S2T.Omml.seqAll (cs.map g) s).2, acc')
      ∧ acc'.flatten = acc.flatten ++ S2T.Omml.render (S2T.Omml.seqAll (cs.map g) s).1.flatten := by
  induction cs generalizing s acc with
  | nil => exact ⟨acc, by simp [S2T.Omml.seqAll]⟩
  | cons c r ih =>
    obtain ⟨a1, h1, h2⟩ := h c (by simp) s acc
    obtain ⟨a2, h3, h4⟩ := ih (fun c' hc' => h c' (by simp [hc'])) (g c s).2 a1
    refine ⟨a2, ?_, ?_⟩
    · rw [List.forIn_cons, h1]; simp only [M.ok_bind, List.map_cons, S2T.Omml.seqAll]; exact h3
    · simp only [List.map_cons, S2T.Omml.seqAll, List.flatten_cons, render_append]
      rw [h4, h2]; simp

/-! ## local literal tables of the source = generated tables (`simp (disch := decide)` finds which is which) -/

theorem dictGetD_table (tbl tbl' : List (Str × Str)) (h : tbl = tbl') (k d : Str) :
    dictGetD tbl k d = (S2T.Omml.lookup k tbl').getD d := by
  subst h; simp [dictGetD, lookup_router]

/-- a dict whose values are one-character strings, against the generated table with `Char` values -/
theorem dictGetD_chars (tbl : List (Str × Str)) (tbl' : List (Str × Char))
    (h : tbl = tbl'.map (fun kc => (kc.1, [kc.2]))) (k : Str) (d : Char) :
    dictGetD tbl k [d] = [(S2T.Omml.lookup k tbl').getD d] := by
  subst h
  simp only [dictGetD, lookup_router]
  induction tbl' with
  | nil => rfl
  | cons kc r ih =>
    obtain ⟨k', c⟩ := kc
    simp only [List.map_cons, S2T.Omml.lookup]
    split <;> simp_all

theorem setContains_table (tbl tbl' : List Str) (h : tbl = tbl') (k : Str) : setContains tbl k = tbl'.contains k := by
  subst h; rfl

/-! ## simulation of the model by a translated `process_element` -/

/-- `pe` (a translated `process_element`) simulates the model on the element `y`: from the list representing the
    model's stack it returns the rendered output and the list representing the model's new stack -/
def Sim (T : Tables) (ns : Str) (pe : Option Xml → List Str → M (Str × List Str)) (y : Xml) : Prop :=
  ∀ s : Stack, pe (some y) (unstack s)
    = Except.ok (S2T.Omml.render (S2T.Omml.proc T (abs ns y) s).1, unstack (S2T.Omml.proc T (abs ns y) s).2)

/-- `process_element(elem.find(ns + n))` is the model's operand `opndX n` -/
theorem sim_find (T : Tables) (ns : Str) (pe : Option Xml → List Str → M (Str × List Str)) (hns : NsOk ns)
    (hnone : ∀ p, pe none p = Except.ok ([], p)) (x : Xml) (ih : ∀ y, sizeOf y < sizeOf x → Sim T ns pe y)
    (n : Str) (hn : n.contains '}' = false) (s : Stack) :
    pe (x.find ⟨ns ++ n, []⟩) (unstack s)
      = Except.ok (S2T.Omml.render (S2T.Omml.opndX T n (x.children.map (abs ns)) s).1,
                   unstack (S2T.Omml.opndX T n (x.children.map (abs ns)) s).2) := by
  unfold S2T.Omml.opndX
  rw [find?_abs ns n hns hn, ← find_one]
  rcases h : x.find ⟨ns ++ n, []⟩ with _ | c
  · simp [hnone, S2T.Omml.ret]
  · exact ih c (Xml.sizeOf_lt_of_mem_children (mem_children_of_find h)) s

/-- the cells of a matrix row / the operands of a delimiter: `[process_element(e) for e in y.findall(ns + n)]` -/
theorem map_proc_findall (T : Tables) (ns n : Str) (hns : NsOk ns) (hn : n.contains '}' = false) (y : Xml) :
    (((y.children.map (abs ns)).map (S2T.Omml.info T)).filter (S2T.Omml.isTagR n)).map (·.run)
      = (y.findall ⟨ns ++ n, []⟩).map (fun c => S2T.Omml.proc T (abs ns c)) := by
  rw [S2T.Omml.filter_infos, filter_abs ns n hns hn, findall_one]
  simp [List.map_map, Function.comp_def]

theorem hasMr_abs (T : Tables) (ns n : Str) (hns : NsOk ns) (hn : n.contains '}' = false) (x : Xml) :
    (((x.children.map (abs ns)).map (S2T.Omml.info T)).find? (S2T.Omml.isTagR n)).isSome
      = (x.find ⟨ns ++ n, []⟩).isSome := by
  rw [S2T.Omml.find_infos, find?_abs ns n hns hn, find_one]
  cases x.children.find? (fun c => c.tag == ns ++ n) <;> rfl

/-- the rows of a matrix: for every `ns + nr` child the processed `ns + n` children of that child -/
theorem map_cells_findall (T : Tables) (ns nr : Str) (hns : NsOk ns) (hnr : nr.contains '}' = false) (x : Xml) :
    (((x.children.map (abs ns)).map (S2T.Omml.info T)).filter (S2T.Omml.isTagR nr)).map (·.cells)
      = (x.findall ⟨ns ++ nr, []⟩).map (fun mr =>
          (mr.findall ⟨ns ++ S2T.Omml.n_e, []⟩).map (fun c => S2T.Omml.proc T (abs ns c))) := by
  rw [S2T.Omml.filter_infos, filter_abs ns nr hns hnr, findall_one]
  simp only [List.map_map]
  apply List.map_congr_left
  intro mr _
  simp only [Function.comp_def, S2T.Omml.info_cells, abs_kids, filter_abs ns S2T.Omml.n_e hns (by decide), findall_one,
    List.map_map]

/-- the default block: every child is processed -/
theorem map_run_children (T : Tables) (ns : Str) (x : Xml) :
    ((x.children.map (abs ns)).map (S2T.Omml.info T)).map (·.run)
      = x.iter.map (fun c => S2T.Omml.proc T (abs ns c)) := by
  simp [List.map_map, Function.comp_def, Xml.iter]

/-- `forIn_seq_flat` in the shape the goal has: the loop followed by a continuation that only looks at the
    concatenation of the collected strings -/
theorem forIn_seq_flat_bind {α} (cs : List Xml) (g : Xml → S2T.Omml.M)
    (f : Xml → List Str × List Str → M (ForInStep (List Str × List Str)))
    (s : Stack) (acc : List Str) (k : List Str × List Str → M α) (res : M α)
    (h : ∀ c ∈ cs, ∀ s acc, ∃ acc', f c (unstack s, acc) = Except.ok (ForInStep.yield (unstack (g c s).2, acc'))
      ∧ acc'.flatten = acc.flatten ++ S2T.Omml.render (g c s).1)
    (hk : ∀ acc', acc'.flatten = acc.flatten ++ S2T.Omml.render (S2T.Omml.seqAll (cs.map g) s).1.flatten →
      k (unstack (S2T.Omml.seqAll (cs.map g) s).2, acc') = res) :
    (forIn cs (unstack s, acc) f >>= k) = res := by
  obtain ⟨acc', h1, h2⟩ := forIn_seq_flat cs g f h s acc
  rw [h1]
  exact hk acc' h2

/-! the same three lemmas when the loop state is `(collected, pending)` instead of `(pending, collected)` (the order
    is the declaration order of the two locals in the source) -/

theorem forIn_seq' (cs : List Xml) (g : Xml → S2T.Omml.M)
    (f : Xml → List Str × List Str → M (ForInStep (List Str × List Str)))
    (h : ∀ c ∈ cs, ∀ s acc, f c (acc, unstack s)
      = Except.ok (ForInStep.yield (acc ++ [S2T.Omml.render (g c s).1], unstack (g c s).2)))
    (s : Stack) (acc : List Str) :
    forIn cs (acc, unstack s) f = Except.ok (acc ++ (S2T.Omml.seqAll (cs.map g) s).1.map S2T.Omml.render,
      unstack (S2T.Omml.seqAll (cs.map g) s).2) := by
  induction cs generalizing s acc with
  | nil => simp [S2T.Omml.seqAll]
  | cons c r ih =>
    rw [List.forIn_cons, h c (by simp)]
    simp only [M.ok_bind, List.map_cons, S2T.Omml.seqAll]
    rw [ih (fun c' hc' => h c' (by simp [hc']))]
    simp

theorem forIn_seq_flat' (cs : List Xml) (g : Xml → S2T.Omml.M)
    (f : Xml → List Str × List Str → M (ForInStep (List Str × List Str)))
    (h : ∀ c ∈ cs, ∀ s acc, ∃ acc', f c (acc, unstack s) = Except.ok (ForInStep.yield (acc', unstack (g c s).2))
      ∧ acc'.flatten = acc.flatten ++ S2T.Omml.render (g c s).1)
    (s : Stack) (acc : List Str) :
    ∃ acc', forIn cs (acc, unstack s) f = Except.ok (acc', unstack (S2T.Omml.seqAll (cs.map g) s).2)
      ∧ acc'.flatten = acc.flatten ++ S2T.Omml.render (S2T.Omml.seqAll (cs.map g) s).1.flatten := by
  induction cs generalizing s acc with
  | nil => exact ⟨acc, by simp [S2T.Omml.seqAll]⟩
  | cons c r ih =>
    obtain ⟨a1, h1, h2⟩ := h c (by simp) s acc
    obtain ⟨a2, h3, h4⟩ := ih (fun c' hc' => h c' (by simp [hc'])) (g c s).2 a1
    refine ⟨a2, ?_, ?_⟩
    · rw [List.forIn_cons, h1]; simp only [M.ok_bind, List.map_cons, S2T.Omml.seqAll]; exact h3
    · simp only [List.map_cons, S2T.Omml.seqAll, List.flatten_cons, render_append]
      rw [h4, h2]; simp

theorem forIn_seq_flat_bind' {α} (cs : List Xml) (g : Xml → S2T.Omml.M)
    (f : Xml → List Str × List Str → M (ForInStep (List Str × List Str)))
    (s : Stack) (acc : List Str) (k : List Str × List Str → M α) (res : M α)
    (h : ∀ c ∈ cs, ∀ s acc, ∃ acc', f c (acc, unstack s) = Except.ok (ForInStep.yield (acc', unstack (g c s).2))
      ∧ acc'.flatten = acc.flatten ++ S2T.Omml.render (g c s).1)
    (hk : ∀ acc', acc'.flatten = acc.flatten ++ S2T.Omml.render (S2T.Omml.seqAll (cs.map g) s).1.flatten →
      k (acc', unstack (S2T.Omml.seqAll (cs.map g) s).2) = res) :
    (forIn cs (acc, unstack s) f >>= k) = res := by
  obtain ⟨acc', h1, h2⟩ := forIn_seq_flat' cs g f h s acc
  rw [h1]
  exact hk acc' h2

/-! ## which block of the dispatch an element reaches -/

open S2T.Omml in
theorem kindOf_spec (T : Tables) (n : Str) (b : Bool) :
    (kindOf T n b = .skip ∧ T.skip.contains n = true) ∨
    (T.skip.contains n = false ∧
      ((kindOf T n b = .text ∧ n = n_t) ∨ (kindOf T n b = .frac ∧ n = n_f) ∨ (kindOf T n b = .sup ∧ n = n_sSup)
      ∨ (kindOf T n b = .sub ∧ n = n_sSub) ∨ (kindOf T n b = .subsup ∧ n = n_sSubSup) ∨ (kindOf T n b = .rad ∧ n = n_rad)
      ∨ (kindOf T n b = .nary ∧ n = n_nary) ∨ (kindOf T n b = .delim ∧ n = n_d)
      ∨ (kindOf T n b = .matrix ∧ n = n_m ∧ b = true) ∨ (kindOf T n b = .func ∧ n = n_func)
      ∨ (kindOf T n b = .bar ∧ n = n_bar) ∨ (kindOf T n b = .acc ∧ n = n_acc)
      ∨ (kindOf T n b = .other ∧ n ≠ n_t ∧ n ≠ n_f ∧ n ≠ n_sSup ∧ n ≠ n_sSub ∧ n ≠ n_sSubSup ∧ n ≠ n_rad ∧ n ≠ n_nary
          ∧ n ≠ n_d ∧ (n = n_m → b = false) ∧ n ≠ n_func ∧ n ≠ n_bar ∧ n ≠ n_acc))) := by
  unfold kindOf kindRest
  by_cases h0 : T.skip.contains n = true
  · left; exact ⟨by rw [if_pos h0], h0⟩
  · right
    refine ⟨by simpa using h0, ?_⟩
    simp only [h0, if_false, Bool.false_eq_true]
    by_cases h1 : n = n_t; · simp [h1]
    by_cases h2 : n = n_f; · subst h2; simp [n_f, n_t]
    by_cases h3 : n = n_sSup; · subst h3; simp [n_f, n_t, n_sSup]
    by_cases h4 : n = n_sSub; · subst h4; simp [n_f, n_t, n_sSup, n_sSub]
    by_cases h5 : n = n_sSubSup; · subst h5; simp [n_f, n_t, n_sSup, n_sSub, n_sSubSup]
    by_cases h6 : n = n_rad; · subst h6; simp [n_f, n_t, n_sSup, n_sSub, n_sSubSup, n_rad]
    by_cases h7 : n = n_nary; · subst h7; simp [n_f, n_t, n_sSup, n_sSub, n_sSubSup, n_rad, n_nary]
    by_cases h8 : n = n_d; · subst h8; simp [n_f, n_t, n_sSup, n_sSub, n_sSubSup, n_rad, n_nary, n_d]
    by_cases h9 : n = n_m ∧ b = true
    · obtain ⟨h9, hb⟩ := h9; subst h9; simp [n_f, n_t, n_sSup, n_sSub, n_sSubSup, n_rad, n_nary, n_d, n_m, hb]
    by_cases h10 : n = n_func
    · subst h10; simp [n_f, n_t, n_sSup, n_sSub, n_sSubSup, n_rad, n_nary, n_d, n_m, n_func]
    by_cases h11 : n = n_bar
    · subst h11; simp [n_f, n_t, n_sSup, n_sSub, n_sSubSup, n_rad, n_nary, n_d, n_m, n_func, n_bar]
    by_cases h12 : n = n_acc
    · subst h12; simp [n_f, n_t, n_sSup, n_sSub, n_sSubSup, n_rad, n_nary, n_d, n_m, n_func, n_bar, n_acc]
    have h9' : n = n_m → b = false := by
      intro e; cases b <;> simp_all
    simp only [h1, h2, h3, h4, h5, h6, h7, h8, h9, h10, h11, h12, if_false]
    simp
    exact ⟨h1, h2, h3, h4, h5, h6, h7, h8, h9', h10, h11, h12⟩

/-! ## every model tree (with `}`-free names) is the abstraction of an element -/

mutual
/-- an element whose abstraction is the given model tree -/
def conc (ns : Str) : MXml → Xml
  | .node mns name val text kids =>
    { tag := (if mns then ns else []) ++ name,
      attrib := (match val with | some v => [(ns ++ ['v', 'a', 'l'], v)] | none => []),
      text := some text, tail := none, children := concL ns kids }
def concL (ns : Str) : List MXml → List Xml
  | [] => []
  | k :: ks => conc ns k :: concL ns ks
end

mutual
/-- no local name of the tree contains `}` (true of every name `tag.split("}")[-1]`) -/
def namesOk : MXml → Bool
  | .node _ name _ _ kids => !name.contains '}' && namesOkL kids
def namesOkL : List MXml → Bool
  | [] => true
  | k :: ks => namesOk k && namesOkL ks
end

theorem concL_eq_map (ns : Str) (ks : List MXml) : concL ns ks = ks.map (conc ns) := by
  induction ks with
  | nil => simp [concL]
  | cons k ks ih => simp [concL, ih]

theorem namesOkL_iff (ks : List MXml) : namesOkL ks = true ↔ ∀ k ∈ ks, namesOk k = true := by
  induction ks with
  | nil => simp [namesOkL]
  | cons k ks ih => simp [namesOkL, ih]

theorem localName_no (n : Str) (h : n.contains '}' = false) : localName n = n := by
  simp [localName, splitOn_no _ _ h]

theorem abs_conc (ns : Str) (hns : NsOk ns) : ∀ m : MXml, namesOk m = true → abs ns (conc ns m) = m := by
  apply S2T.Omml.Xml.ind
  intro mns name val text kids ih h
  simp only [namesOk, Bool.and_eq_true, Bool.not_eq_true'] at h
  obtain ⟨hn, hk⟩ := h
  have hne : ns ≠ [] := by intro e; simp [NsOk, e] at hns
  rw [abs_eq]
  simp only [conc, concL_eq_map, List.map_map]
  have hkids : kids.map (abs ns ∘ conc ns) = kids := by
    have := (namesOkL_iff kids).mp hk
    calc kids.map (abs ns ∘ conc ns) = kids.map id :=
          List.map_congr_left (fun k hk' => ih k hk' (this k hk'))
      _ = kids := List.map_id _
  have htext : orOpt (some text) [] = text := by
    cases text <;> simp [orOpt]
  have hval : ∀ tg tx tl ch, Xml.get? ⟨tg, (match val with | some v => [(ns ++ ['v', 'a', 'l'], v)] | none => []),
      tx, tl, ch⟩ (ns ++ ['v', 'a', 'l']) = val := by
    intro tg tx tl ch
    cases val <;> simp [Xml.get?, S2T.Omml.lookup]
  rw [hval, htext, hkids]
  cases mns with
  | true => simp [localName_ns ns name hns hn]
  | false =>
    have : (name == ns ++ name) = false := by
      have hl : name.length ≠ (ns ++ name).length := by
        have : 0 < ns.length := List.length_pos_iff.mpr hne
        simp; omega
      simpa using fun e : name = ns ++ name => hl (congrArg List.length e)
    simp [localName_no name hn, this]

/-! ## the namespace flag of the C19 harness (`tag.startswith(M_NS)`) -/

/-- on tags without a second `}` after the namespace (every tag an XML parser produces) the model's flag
    `tag == ns + local name` is `tag.startswith(ns)` -/
theorem mns_eq_startswith (ns rest : Str) (hns : NsOk ns) (h : rest.contains '}' = false) :
    (ns ++ rest == ns ++ localName (ns ++ rest)) = ns.isPrefixOf (ns ++ rest) := by
  simp [localName_ns ns rest hns h]

mutual
/-- the abstraction with the namespace flag computed as the C19 harness does (`tag.startswith(ns)`) -/
def absSW (ns : Str) : Xml → MXml
  | ⟨tag, attrib, text, _, children⟩ =>
    .node (ns.isPrefixOf tag) (localName tag) (S2T.Omml.lookup (ns ++ ['v', 'a', 'l']) attrib)
      (orOpt text []) (absSWL ns children)
def absSWL (ns : Str) : List Xml → List MXml
  | [] => []
  | c :: cs => absSW ns c :: absSWL ns cs
end

end S2T.Py.Omml
