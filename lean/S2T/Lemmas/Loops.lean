import S2T.Model.Loops
/-! Step-count lemmas for the loop models, in the form "from offset `o`, at most `len − o` iterations"
(the loop variant bounds the iteration count).  Core Lean only. -/
namespace S2T.Loops

theorem xlsFilepass_steps_le (fp : Nat) (d : Bytes) (off : Nat) : (xlsFilepass fp d off).2 ≤ d.length - off := by
  fun_induction xlsFilepass fp d off <;> simp_all +zetaDelta <;> omega

theorem jpegDims_steps_le (sof : List Nat) (d : Bytes) (off : Nat) : (jpegDims sof d off).2 ≤ d.length - off := by
  fun_induction jpegDims sof d off <;> simp_all +zetaDelta <;> omega

theorem sofScan_steps_le (sof : List Nat) (strict : Bool) (d : Bytes) (i : Nat) :
    (sofScan sof strict d i).2 ≤ d.length - i := by
  fun_induction sofScan sof strict d i <;> simp_all +zetaDelta <;> omega

theorem pptIter_steps_le (d : Bytes) (off : Nat) : (pptIter d off).2.1 ≤ d.length - off := by
  fun_induction pptIter d off <;> simp_all +zetaDelta <;> omega

theorem pptIter_length_le (d : Bytes) (off : Nat) : (pptIter d off).1.length ≤ (pptIter d off).2.1 := by
  fun_induction pptIter d off <;> simp_all +zetaDelta <;> omega

theorem xlsBlipScan_steps_le (blip : List Nat) (d : Bytes) (off : Nat) :
    (xlsBlipScan blip d off).length ≤ d.length - off := by
  fun_induction xlsBlipScan blip d off <;> simp_all +zetaDelta <;> omega

theorem pngChunks_steps_le (d : Bytes) (pos : Nat) : (pngChunks d pos).2 ≤ d.length - pos := by
  fun_induction pngChunks d pos <;> simp_all +zetaDelta <;> omega

theorem skipGroup_steps (s : Str) (i : Nat) (depth : Int) : (skipGroup s i depth).2 + i = (skipGroup s i depth).1 := by
  fun_induction skipGroup s i depth <;> simp_all +zetaDelta <;> omega

theorem scanWhile_steps (p : Nat → Bool) (s : Str) (j : Nat) : (scanWhile p s j).2 + j = (scanWhile p s j).1 := by
  fun_induction scanWhile p s j <;> simp_all +zetaDelta <;> omega

theorem scanWhile_le (p : Nat → Bool) (s : Str) (j : Nat) (h : j ≤ s.length) : (scanWhile p s j).1 ≤ s.length := by
  fun_induction scanWhile p s j <;> simp_all +zetaDelta <;> omega

theorem trimBack_steps_le (p : Nat → Bool) (w : List Nat) : (trimBack p w).2 ≤ w.length := by
  fun_induction trimBack p w <;> simp_all +zetaDelta <;> omega

theorem popHeadings_steps_le (lvl : Int) (st : List Int) : (popHeadings lvl st).2 ≤ st.length := by
  fun_induction popHeadings lvl st <;> simp_all +zetaDelta <;> omega

theorem popHeadings_length (lvl : Int) (st : List Int) : (popHeadings lvl st).1.length + (popHeadings lvl st).2 = st.length := by
  fun_induction popHeadings lvl st <;> simp_all +zetaDelta <;> omega

theorem popEnded_steps_le (o : Nat) (st : List (Nat × Nat)) : (popEnded o st).2 ≤ st.length := by
  fun_induction popEnded o st <;> simp_all +zetaDelta <;> omega

theorem trimEmptyRows_steps_le (rows : List (List Bool)) : (trimEmptyRows rows).2 ≤ rows.length := by
  fun_induction trimEmptyRows rows <;> simp_all +zetaDelta <;> omega

theorem trailingNumeric_steps_le (fl : List Bool) : (trailingNumeric fl).2 ≤ fl.length := by
  fun_induction trailingNumeric fl <;> simp_all +zetaDelta <;> omega

theorem lookAhead_steps_le (mb : Nat) (fl : List Bool) (blk : Nat) : (lookAhead mb fl blk).2 ≤ fl.length := by
  fun_induction lookAhead mb fl blk <;> simp_all +zetaDelta <;> omega

theorem popSqrtClose_steps_le (st : List Bool) : (popSqrtClose st).2 ≤ st.length ∧ (popSqrtClose st).1 + (popSqrtClose st).2 = st.length := by
  fun_induction popSqrtClose st <;> simp_all +zetaDelta <;> omega

theorem gfMulLoop_steps_le (k : Nat) : ∀ a b r, b < 2 ^ k → (gfMulLoop a b r).2 ≤ k := by
  induction k with
  | zero => intro a b r h; have : b = 0 := by omega
            subst this; unfold gfMulLoop; simp
  | succ k ih =>
    intro a b r h
    unfold gfMulLoop
    split
    · simp
    · have := ih (xtime a) (b / 2) (if b % 2 = 1 then r ^^^ a else r) (by omega)
      simp +zetaDelta; omega

theorem normalizeLoop_steps_le (e : Nat) (m : List (List Char)) : (normalizeLoop e m).2 + e ≤ max m.length e := by
  fun_induction normalizeLoop e m
  · rename_i hm r ih
    have := mergeFirstPair_length _ _ hm
    simp +zetaDelta; omega
  · rename_i h hm r ih
    simp +zetaDelta at *; omega
  · rename_i h hm; simp at h; omega
  · rename_i h hm; simp at h
  · simp; omega

theorem readName_steps_le (d : Bytes) (pos : Nat) {nm p s} (h : readName d pos = .ok (nm, p, s)) :
    2 * s + pos = p ∧ p ≤ d.length := by
  fun_induction readName d pos generalizing nm p s
  · simp at h; omega
  · simp at h
  · rename_i heq ih
    have := ih heq
    simp at h; omega
  · simp at h

theorem skipArchiveProps_steps_le (d : Bytes) (pos : Nat) {q s} (h : skipArchiveProps d pos = .ok (q, s)) :
    s ≤ d.length - pos ∧ pos < q := by
  fun_induction skipArchiveProps d pos generalizing q s
  · simp at h
  · rename_i hp hz
    have := readU8_pos hp
    simp at h; omega
  · simp at h
  · simp at h
  · simp at h
  · rename_i hp hz sz hn b hb q' s' hr ih
    have := ih hr
    have := readU8_pos hp
    have := readNumber_pos hn
    have := readBytes_pos hb
    simp at h; omega

theorem dibCarve_steps_le (d : Bytes) (i : Nat) : (dibCarve d i).2 ≤ d.length - i := by
  fun_induction dibCarve d i
  · simp; omega
  · simp; omega
  · rename_i hf hs hl r ih
    have := (findFrom_ge hf).1
    simp +zetaDelta at *; omega
  · rename_i hf hs dl hl r ih
    have := (findFrom_ge hf).1
    have := dibLenAt_ge hl
    simp +zetaDelta at *; omega
  · simp

theorem pngCarve_outer_le (d : Bytes) (off : Nat) : (pngCarve d off).2.1 ≤ d.length - off + 1 := by
  fun_induction pngCarve d off
  · simp
  · rename_i start hf w r ih
    have := findFrom_ge hf
    simp [pngSig] at this
    simp +zetaDelta at *; omega

/-- every chunk walk is bounded by the data length, so the inner steps are at most quadratic -/
theorem pngCarve_inner_le (d : Bytes) (off : Nat) : (pngCarve d off).2.2 ≤ (d.length - off) * d.length := by
  fun_induction pngCarve d off
  · simp
  · rename_i off start hf w r ih
    have h1 := findFrom_ge hf
    simp [pngSig] at h1
    have h2 := pngChunks_steps_le d (start + 8)
    simp +zetaDelta at *
    have h3 : d.length - off = (d.length - (start + 1)) + (start + 1 - off) := by omega
    rw [h3, Nat.add_mul]
    have h4 : d.length ≤ (start + 1 - off) * d.length := Nat.le_mul_of_pos_left _ (by omega)
    omega

theorem removeIgnorable_steps_le (pf : List Str) (t l : Str) (i : Nat) :
    (removeIgnorable pf t l i).2.1 + (removeIgnorable pf t l i).2.2 ≤ 2 * (t.length - i) := by
  fun_induction removeIgnorable pf t l i
  · simp +zetaDelta at *; omega
  · rename_i i h hb hp g r ih
    have h1 := skipGroup_steps t i 0
    have h2 := skipGroup_gt t i 0 h
    have h3 := skipGroup_le t i 0 (Nat.le_of_lt h)
    simp +zetaDelta at *; omega
  · simp +zetaDelta at *; omega
  · simp

theorem removeIgnorable_out_le (pf : List Str) (t l : Str) (i : Nat) :
    (removeIgnorable pf t l i).1.length ≤ t.length - i := by
  fun_induction removeIgnorable pf t l i
  · simp +zetaDelta at *; omega
  · rename_i i h hb hp g r ih
    have h2 := skipGroup_gt t i 0 h
    simp +zetaDelta at *; omega
  · simp +zetaDelta at *; omega
  · simp

theorem rtfWalk_length_le (alpha digit : Nat → Bool) (sd : Str → Nat → Bool) (s : Str) (i : Nat) (st : RtfState) :
    (rtfWalk alpha digit sd s i st).length ≤ s.length - i := by
  fun_induction rtfWalk alpha digit sd s i st
  all_goals (try (simp +zetaDelta at *; omega))
  · rename_i ih
    simp +zetaDelta only [List.length_cons] at *
    split at ih <;> simp_all <;> omega
  · rename_i i st _ _ _ _ _ _ _ _ _ _ _ ih
    simp +zetaDelta only [List.length_cons] at *
    by_cases hc : i + 3 < s.length <;> simp only [hc, ↓reduceDIte, ↓reduceIte] at ih ⊢ <;> omega
  · rename_i i st hlen c _ _ _ _ hi nc _ _ _ ha j1 j2 j3 ih
    have g1 := scanWhile_gt alpha s (i + 1) (by omega) ha
    have g1' := scanWhile_le alpha s (i + 1) (by omega)
    have g2 := scanWhile_ge (fun c => digit c || c == 45) s (scanWhile alpha s (i + 1)).1
    have g2' := scanWhile_le (fun c => digit c || c == 45) s (scanWhile alpha s (i + 1)).1 g1'
    have hj3 : i + 2 ≤ j3 ∧ j3 ≤ s.length := by
      simp +zetaDelta only []
      repeat' split
      all_goals omega
    simp only [List.length_cons]
    omega
  · simp

theorem filesInfoLoop_steps_le (d : Bytes) (n pos : Nat) (names : Option (List (List Nat))) (ec st ns al : Nat) {r}
    (h : filesInfoLoop d n pos names ec st ns al = .ok r) : r.steps ≤ st + (d.length - pos) ∧ r.numFiles = n := by
  fun_induction filesInfoLoop d n pos names ec st ns al generalizing r
  all_goals (try (simp at h; done))
  · rename_i hp hz
    have := readU8_pos hp
    simp at h; subst h; simp; omega
  · rename_i hp hz sz hn endPos handled _ _ _ _ _ _ ih
    have := ih h
    have := readU8_pos hp
    have := readNumber_pos hn
    simp +zetaDelta at *
    omega

end S2T.Loops
