import S2T.Model.ZipBomb
/-! Specification vocabulary and helper lemmas for the ZIP-bomb guard (C11). Core Lean only. -/
namespace S2T.ZipBomb

/-- the entries the guard looks at: everything that is not a directory -/
def files (es : List Entry) : List Entry := es.filter (fun e => !e.isDir)
/-- total claimed uncompressed / compressed size of the non-directory entries -/
def totalU (es : List Entry) : Nat := ((files es).map (·.fileSize)).sum
def totalC (es : List Entry) : Nat := ((files es).map (·.compressSize)).sum

/-- a single entry violates a per-entry limit -/
def EntryBad (lim : Limits) (e : Entry) : Prop :=
  e.fileSize > lim.maxSingle
  ∨ (e.fileSize > 0 ∧ e.compressSize = 0)
  ∨ (e.compressSize > 0 ∧ lim.entryRatio.num * e.compressSize < e.fileSize * lim.entryRatio.den)

instance (lim : Limits) (e : Entry) : Decidable (EntryBad lim e) := by unfold EntryBad; infer_instance

/-- **The property's predicate**: what makes a container a ZIP bomb under `lim`.
    Ratios by exact cross-multiplication: `size / csize > num/den ⇔ size·den > num·csize`. -/
def Bomb (lim : Limits) (es : List Entry) : Prop :=
  es.length > lim.maxEntries
  ∨ (∃ e ∈ es, e.isDir = false ∧ EntryBad lim e)
  ∨ totalU es > lim.maxTotal
  ∨ (totalC es > 0 ∧ lim.totalRatio.num * totalC es < totalU es * lim.totalRatio.den)

@[simp] theorem files_nil : files [] = [] := rfl
theorem files_cons_dir (e : Entry) (es : List Entry) (h : e.isDir = true) : files (e :: es) = files es := by
  simp [files, h]
theorem files_cons_file (e : Entry) (es : List Entry) (h : e.isDir = false) : files (e :: es) = e :: files es := by
  simp [files, h]

theorem mem_files (e : Entry) (es : List Entry) : e ∈ files es ↔ e ∈ es ∧ e.isDir = false := by
  simp [files]

theorem step_dir (lim : Limits) (tu tc : Nat) (e : Entry) (h : e.isDir = true) :
    step lim tu tc e = .ok (tu, tc) := by simp [step, h]

theorem pos_of_mul_lt {a b c : Nat} (h : a < b * c) : 0 < b := by
  cases b with
  | zero => simp at h
  | succ n => omega

theorem step_file_ok (lim : Limits) (tu tc : Nat) (e : Entry) (h : e.isDir = false) (p : Nat × Nat) :
    step lim tu tc e = .ok p ↔
      ¬ EntryBad lim e ∧ tu + e.fileSize ≤ lim.maxTotal ∧ p = (tu + e.fileSize, tc + e.compressSize) := by
  unfold step EntryBad ratioExceeds
  simp only [h, Bool.false_eq_true, ↓reduceIte, Bool.and_eq_true, decide_eq_true_eq, beq_iff_eq]
  split
  · rename_i h1; simp [h1]
  · rename_i h1
    split
    · rename_i h2; simp [h2]
    · rename_i h2
      split
      · rename_i h3
        have hc : e.compressSize > 0 := by
          cases hc : e.compressSize with
          | zero => exact absurd ⟨h3.1, hc⟩ h2
          | succ n => omega
        simp [h3, hc]
      · rename_i h3
        have h3' : ¬ (lim.entryRatio.num * e.compressSize < e.fileSize * lim.entryRatio.den) := by
          intro hlt; exact h3 ⟨pos_of_mul_lt hlt, hlt⟩
        split
        · rename_i h4
          constructor
          · intro hh; cases hh
          · intro ⟨_, hh, _⟩; omega
        · rename_i h4
          constructor
          · intro hh
            cases hh
            refine ⟨?_, by omega, rfl⟩
            intro hbad
            rcases hbad with hb | hb | hb
            · exact h1 hb
            · exact h2 hb
            · exact h3' hb.2
          · intro ⟨_, _, hp⟩; rw [hp]
/-- the loop succeeds exactly when no non-directory entry is bad and the total stays within the
    limit; the running totals are then the sums (prefix totals are monotone, so checking every
    prefix equals checking the total). -/
theorem loop_ok_iff (lim : Limits) (es : List Entry) : ∀ (tu tc : Nat) (p : Nat × Nat),
    tu ≤ lim.maxTotal →
    (loop lim tu tc es = .ok p ↔
      (∀ e ∈ files es, ¬ EntryBad lim e) ∧ tu + totalU es ≤ lim.maxTotal
        ∧ p = (tu + totalU es, tc + totalC es)) := by
  induction es with
  | nil =>
    intro tu tc p htu
    simp only [loop, totalU, totalC, files_nil, List.map_nil, List.sum_nil, Nat.add_zero, List.not_mem_nil,
      false_imp_iff, implies_true, true_and, Except.ok.injEq]
    constructor
    · intro h; exact ⟨htu, h.symm⟩
    · intro h; exact h.2.symm
  | cons e es ih =>
    intro tu tc p htu
    by_cases hd : e.isDir = true
    · simp only [loop, step_dir lim tu tc e hd, ih tu tc p htu]
      simp [files_cons_dir e es hd, totalU, totalC]
    · have hd' : e.isDir = false := by simpa using hd
      unfold loop
      cases hs : step lim tu tc e with
      | error r =>
        have := mt (step_file_ok lim tu tc e hd' (tu + e.fileSize, tc + e.compressSize)).mpr (by rw [hs]; simp)
        simp only
        constructor
        · intro h; cases h
        · intro ⟨hall, htot, _⟩
          exfalso; apply this
          refine ⟨hall e (by simp [files_cons_file e es hd']), ?_, rfl⟩
          simp [totalU, files_cons_file e es hd'] at htot; omega
      | ok q =>
        obtain ⟨hb, ht, hq⟩ := (step_file_ok lim tu tc e hd' q).mp hs
        subst hq
        simp only [ih _ _ p ht]
        simp only [totalU, totalC, files_cons_file e es hd', List.map_cons, List.sum_cons, List.mem_cons,
          forall_eq_or_imp]
        constructor
        · intro ⟨h1, h2, h3⟩
          refine ⟨⟨hb, h1⟩, by omega, ?_⟩
          rw [h3]; simp [Nat.add_assoc]
        · intro ⟨⟨_, h1⟩, h2, h3⟩
          refine ⟨h1, by omega, ?_⟩
          rw [h3]; simp [Nat.add_assoc]

theorem loop_error_iff (lim : Limits) (es : List Entry) (tu tc : Nat) (htu : tu ≤ lim.maxTotal) :
    (∃ r, loop lim tu tc es = .error r) ↔
      ¬ ((∀ e ∈ files es, ¬ EntryBad lim e) ∧ tu + totalU es ≤ lim.maxTotal) := by
  have h := loop_ok_iff lim es tu tc (tu + totalU es, tc + totalC es) htu
  cases hl : loop lim tu tc es with
  | error r =>
    rw [hl] at h
    constructor
    · intro _ hc; exact absurd (h.mpr ⟨hc.1, hc.2, rfl⟩) (by simp)
    · intro _; exact ⟨r, rfl⟩
  | ok p =>
    have := (loop_ok_iff lim es tu tc p htu).mp hl
    constructor
    · intro ⟨r, hr⟩; cases hr
    · intro hn; exact absurd ⟨this.1, this.2.1⟩ hn

/-- if no file entry claims "non-empty but zero compressed bytes", a positive total size has a
    positive total compressed size — the `total_compressed <= 0` raise is unreachable. -/
theorem sumC_pos (l : List Entry) (h : ∀ e ∈ l, ¬ (e.fileSize > 0 ∧ e.compressSize = 0))
    (hu : (l.map (·.fileSize)).sum > 0) : (l.map (·.compressSize)).sum > 0 := by
  induction l with
  | nil => simp at hu
  | cons e l ih =>
    simp only [List.map_cons, List.sum_cons] at hu ⊢
    have he := h e (by simp)
    by_cases hf : e.fileSize > 0
    · have : e.compressSize ≠ 0 := fun hc => he ⟨hf, hc⟩
      omega
    · have := ih (fun x hx => h x (by simp [hx])) (by omega)
      omega

end S2T.ZipBomb
