import S2T.Model.C02SheetsOds
import S2T.Lemmas.C02SheetsOdp
/-! ODS sheet text on rendered spreadsheets (C02, part 'sheets'). -/
namespace S2T.C02.Sheets.Ods
open S2T.Tok S2T.OdfText S2T.OdfDoc S2T.C02.Sheets
open S2T.C02.Sheets.Odp (filter_map_tag_true filter_map_tag_false strip_eq_nil_iff flatMap_tokens_map_strip dropWhile_nil_iff)

theorem flatMap_congr' {α β} {f g : α → List β} (l : List α) (h : ∀ a ∈ l, f a = g a) : l.flatMap f = l.flatMap g := by
  induction l with
  | nil => rfl
  | cons a r ih => simp [h a (by simp), ih (fun x hx => h x (by simp [hx]))]

/-! ## the covered-set walk is the pruned recursion -/

mutual
theorem walkCov_true (T : OdsT) (x : Xml) : walkCov T true x = [] := by
  cases x with
  | node tag a t l kids =>
    simp only [walkCov, Bool.true_or, if_true]
    exact walkCovL_true T kids
theorem walkCovL_true (T : OdsT) (l : List Xml) : walkCovL T true l = [] := by
  cases l with
  | nil => simp [walkCovL]
  | cons k ks => simp [walkCovL, walkCov_true T k, walkCovL_true T ks]
end

mutual
theorem walkCov_false (T : OdsT) (x : Xml) : walkCov T false x = pruned T x := by
  cases x with
  | node tag a t l kids =>
    have ih := walkCovL_false T kids
    by_cases h1 : tag ∈ T.fmt.skip <;> by_cases h2 : tag = T.pTag <;>
      simp [walkCov, pruned, h1, h2, walkCovL_true, ih]
theorem walkCovL_false (T : OdsT) (l : List Xml) : walkCovL T false l = prunedL T l := by
  cases l with
  | nil => simp [walkCovL, prunedL]
  | cons k ks => simp [walkCovL, prunedL, walkCov_false T k, walkCovL_false T ks]
end

/-! ## constants -/

/-- the typed branches of `_extract_cell_value` as ODF 1.2 names them -/
def stdKinds : List (List Str × Str) :=
  [ (["float".toList, "currency".toList, "percentage".toList], q nsOffice "value"),
    (["date".toList], q nsOffice "date-value"),
    (["time".toList], q nsOffice "time-value"),
    (["boolean".toList], q nsOffice "boolean-value") ]

def SepOk (p : Char → Bool) (sep : Str) : Prop := sep ≠ [] ∧ sep.all p = true

structure OdsOk (T : OdsT) : Prop where
  fmt : T.fmt = stdFmt [tAnnot]
  pTag : T.pTag = tP
  tableTag : T.tableTag = q nsTable "table"
  rowTag : T.rowTag = q nsTable "table-row"
  cellTag : T.cellTag = q nsTable "table-cell"
  nameAttr : T.nameAttr = q nsTable "name"
  repRows : T.repRows = q nsTable "number-rows-repeated"
  repCols : T.repCols = q nsTable "number-columns-repeated"
  valueType : T.valueType = q nsOffice "value-type"
  kinds : T.kinds = stdKinds
  paraSep : SepOk T.isWs T.paraSep
  cellSep : SepOk T.isWs T.cellSep
  lineSep : SepOk T.isWs T.lineSep
  unitSep : SepOk T.isWs T.unitSep
  joinSep : SepOk T.isWs T.joinSep
  nl : T.isWs '\n' = true
  noDigit : NoDigitWs T.isWs

/-! ## generic facts -/

theorem flatMap_tokens_replicate {p : Char → Bool} (n : Nat) (d : Str) :
    (List.replicate n d).flatMap (tokens p) = (List.replicate n (tokens p d)).flatten := by
  induction n with
  | zero => rfl
  | succ k ih => simp [List.replicate_succ, ih]

theorem flatten_replicate_nil {α} (n : Nat) : (List.replicate n ([] : List α)).flatten = [] := by
  induction n with
  | zero => rfl
  | succ k ih => simp [List.replicate_succ, ih]

theorem flatMap_replicate {α β} (n : Nat) (a : α) (f : α → List β) :
    (List.replicate n a).flatMap f = (List.replicate n (f a)).flatten := by
  induction n with
  | zero => rfl
  | succ k ih => simp [List.replicate_succ, ih]

/-- `rstrip`: the string is the stripped part followed by elements satisfying the predicate -/
theorem rstrip_split {α : Type} (q : α → Bool) (l : List α) : ∃ w, l = rstrip q l ++ w ∧ ∀ x ∈ w, q x = true := by
  obtain ⟨w, h1, h2⟩ := rstrip_decomp (p := q) l
  exact ⟨w, h1, by simpa [List.all_eq_true] using h2⟩

theorem tokens_filter_nonempty {p : Char → Bool} (l : List Str) :
    (l.filter (fun v => decide (v ≠ []))).flatMap (tokens p) = l.flatMap (tokens p) := by
  induction l with
  | nil => rfl
  | cons a r ih =>
    by_cases ha : a = []
    · subst ha; simpa using ih
    · simpa [List.filter_cons, ha] using ih

theorem flatMap_tokens_all_empty {p : Char → Bool} (w : List Str) (h : ∀ x ∈ w, decide (x = []) = true) :
    w.flatMap (tokens p) = [] := by
  induction w with
  | nil => rfl
  | cons a r ih =>
    have ha : a = [] := by simpa using h a (by simp)
    subst ha
    simp [ih (fun x hx => h x (by simp [hx]))]

/-- taking at least `lastData` cells of a row loses no token -/
theorem take_tokens {p : Char → Bool} (r : List Str) (n : Nat) (hn : lastData r ≤ n) :
    (r.take n).flatMap (tokens p) = r.flatMap (tokens p) := by
  obtain ⟨w, h1, h2⟩ := rstrip_split (fun v => decide (v = [])) r
  unfold lastData at hn
  generalize rstrip (fun v => decide (v = [])) r = a at h1 hn
  subst h1
  rw [List.take_append, List.take_of_length_le hn]
  simp only [List.flatMap_append]
  rw [flatMap_tokens_all_empty w h2,
    flatMap_tokens_all_empty (w.take (n - a.length)) (fun x hx => h2 x (List.mem_of_mem_take hx))]

theorem le_foldl_max (f : List Str → Nat) (rows : List (List Str)) (m : Nat) :
    m ≤ rows.foldl (fun m r => max m (f r)) m ∧ ∀ r ∈ rows, f r ≤ rows.foldl (fun m r => max m (f r)) m := by
  induction rows generalizing m with
  | nil => simp
  | cons a t ih =>
    simp only [List.foldl_cons]
    obtain ⟨h1, h2⟩ := ih (max m (f a))
    refine ⟨by omega, ?_⟩
    intro r hr
    simp at hr
    rcases hr with rfl | hr
    · omega
    · exact h2 r hr

theorem rowLine_tokens {T : OdsT} (h : OdsOk T) (n : Nat) (r : List Str) (hn : lastData r ≤ n) :
    ((rowLine T n r).toList).flatMap (tokens T.isWs) = r.flatMap (tokens T.isWs) := by
  unfold rowLine
  simp only
  have ht : ((r.take n).filter (fun v => decide (v ≠ []))).flatMap (tokens T.isWs) = r.flatMap (tokens T.isWs) := by
    rw [tokens_filter_nonempty, take_tokens r n hn]
  by_cases he : (r.take n).filter (fun v => decide (v ≠ [])) = []
  · have h0 : r.flatMap (tokens T.isWs) = [] := by rw [← ht, he]; rfl
    rw [if_pos he, h0]; rfl
  · rw [if_neg he]
    simp only [Option.toList, List.flatMap_cons, List.flatMap_nil, List.append_nil]
    rw [tokens_join h.cellSep.2 h.cellSep.1, ht]

theorem filterMap_toList {α β} (f : α → Option β) (l : List α) : l.filterMap f = l.flatMap (fun a => (f a).toList) := by
  induction l with
  | nil => rfl
  | cons a r ih => cases hf : f a <;> simp [List.filterMap_cons, hf, ih]

theorem rowEmpty_tokens {p : Char → Bool} (vals : List Str) (h : rowEmpty vals = true) : vals.flatMap (tokens p) = [] := by
  unfold rowEmpty at h
  exact flatMap_tokens_all_empty vals (List.all_eq_true.mp h)

theorem rows_empty_tokens {p : Char → Bool} (w : List (List Str)) (h2 : ∀ x ∈ w, rowEmpty x = true) :
    w.flatMap (fun r => r.flatMap (tokens p)) = [] := by
  induction w with
  | nil => rfl
  | cons a t ih =>
    simp only [List.flatMap_cons, rowEmpty_tokens a (h2 a (by simp)), List.nil_append]
    exact ih (fun x hx => h2 x (by simp [hx]))

/-- the sheet text carries exactly the tokens of the raw rows, row by row, left to right -/
theorem textOfRows_tokens {T : OdsT} (h : OdsOk T) (raw : List (List Str)) :
    tokens T.isWs (textOfRows T raw) = raw.flatMap (fun r => r.flatMap (tokens T.isWs)) := by
  unfold textOfRows
  simp only
  rw [tokens_join h.lineSep.2 h.lineSep.1, filterMap_toList, List.flatMap_assoc]
  obtain ⟨w, h1, h2⟩ := rstrip_split rowEmpty raw
  unfold trimRows
  conv => rhs; rw [h1]
  generalize rstrip rowEmpty raw = rows
  rw [List.flatMap_append]
  rw [rows_empty_tokens w h2, List.append_nil]
  have hm := (le_foldl_max lastData rows 0).2
  exact flatMap_congr' _ (fun r hr => rowLine_tokens h _ r (hm r hr))

/-! ## rendered cells -/

def cellOk (c : OCell) : Bool := c.paras.all noNoteInls
def rowOk (r : ORow) : Bool := r.cells.all cellOk
def sheetOk (s : OSheet) : Bool := s.rows.all rowOk
def sheetsOk (d : List OSheet) : Bool := d.all sheetOk

theorem typedValue_eq (kinds : List (List Str × Str)) (vt : Str) (attrs : List (Str × Str)) :
    typedValue kinds vt attrs
      = (((kinds.filter (fun ka => ka.1.contains vt)).map (fun ka => (attr ka.2 attrs).getD [])).find? (fun v => decide (v ≠ []))) := by
  induction kinds with
  | nil => rfl
  | cons ka r ih =>
    obtain ⟨names, a⟩ := ka
    simp only [typedValue, List.filter_cons]
    by_cases hc : names.contains vt = true
    · simp only [hc, if_true, List.map_cons, List.find?_cons]
      by_cases hv : (attr a attrs).getD [] = []
      · simp only [hv, ne_eq, not_true_eq_false, decide_false, if_false]; exact ih
      · simp only [hv, ne_eq, not_false_eq_true, decide_true, if_true]
    · simp only [hc, Bool.false_eq_true, if_false]; exact ih

theorem kinds_filter (k : VKind) :
    stdKinds.filter (fun ka => ka.1.contains (vkindName k)) = [(stdKinds.getD (match k with
      | .float | .currency | .percentage => 0 | .date => 1 | .time => 2 | .boolean => 3) ([], [])).1].map
        (fun ns => (ns, vkindAttr k)) := by
  cases k <;> decide

theorem kinds_filter_string : stdKinds.filter (fun ka => ka.1.contains "string".toList) = [] := by decide

theorem vkindAttr_ne (k : VKind) : vkindAttr k ≠ q nsOffice "value-type" ∧ vkindAttr k ≠ q nsTable "number-columns-repeated" := by
  cases k <;> decide

/-- the attributes of a rendered cell -/
def cellAttrs (c : OCell) : List (Str × Str) :=
  (match c.typed with
    | some (k, v) => [(q nsOffice "value-type", vkindName k), (vkindAttr k, v)]
    | none => [(q nsOffice "value-type", "string".toList)]) ++ repAttr (q nsTable "number-columns-repeated") c.rep

theorem rOCell_attrs (c : OCell) : (rOCell c).attrs = cellAttrs c := rfl

theorem typedValue_cell (c : OCell) :
    typedValue stdKinds ((attr (q nsOffice "value-type") (cellAttrs c)).getD []) (cellAttrs c)
      = match c.typed with
        | some (_, v) => if v ≠ [] then some v else none
        | none => none := by
  rw [typedValue_eq]
  cases ht : c.typed with
  | none =>
    simp only [cellAttrs, ht, List.cons_append, List.nil_append, attr_self, Option.getD_some, kinds_filter_string]
    rfl
  | some kv =>
    obtain ⟨k, v⟩ := kv
    obtain ⟨h1, _⟩ := vkindAttr_ne k
    simp only [cellAttrs, ht, List.cons_append, List.nil_append, attr_self, Option.getD_some, kinds_filter,
      List.map_cons, List.map_nil]
    have : attr (vkindAttr k) ((q nsOffice "value-type", vkindName k) :: (vkindAttr k, v)
        :: repAttr (q nsTable "number-columns-repeated") c.rep) = some v := by
      simp only [attr, h1, if_false, if_true]
    rw [this]
    by_cases hv : v = []
    · simp [hv]
    · simp [hv]

theorem pyInt_one {p : Char → Bool} (hp : NoDigitWs p) : pyInt p ['1'] = some 1 := by
  have := pyInt_natToDec hp 1
  have e : natToDec 1 = ['1'] := by unfold natToDec; rw [digitsRev]; decide
  rw [e] at this
  exact this

theorem repeat_lookup {p : Char → Bool} (hp : NoDigitWs p) (name : Str) (pre : List (Str × Str)) (n : Nat)
    (hpre : attr name (pre ++ repAttr name n) = attr name (repAttr name n)) :
    pyInt p ((attr name (pre ++ repAttr name n)).getD ['1']) = some (n : Int) := by
  rw [hpre]
  unfold repAttr
  by_cases h1 : n = 1
  · subst h1; simp [attr, pyInt_one hp]
  · simp [h1, attr, pyInt_natToDec hp]

theorem repeatOf_cell {T : OdsT} (h : OdsOk T) (c : OCell) : repeatOf T T.repCols (rOCell c) = .ok (c.rep : Int) := by
  unfold repeatOf
  rw [rOCell_attrs, h.repCols]
  have hne : q nsTable "number-columns-repeated" ≠ q nsOffice "value-type" := by decide
  have := repeat_lookup (p := T.isWs) h.noDigit (q nsTable "number-columns-repeated")
    (match c.typed with
      | some (k, v) => [(q nsOffice "value-type", vkindName k), (vkindAttr k, v)]
      | none => [(q nsOffice "value-type", "string".toList)]) c.rep (by
        cases c.typed with
        | none => simp [attr, hne]
        | some kv =>
          obtain ⟨k, v⟩ := kv
          have := (vkindAttr_ne k).2
          simp [attr, hne, Ne.symm this])
  unfold cellAttrs
  rw [this]

theorem elemText_rCellP {T : OdsT} (h : OdsOk T) (ks : List Inl) (hk : noNoteInls ks = true) :
    elemText T.isWs T.fmt (rCellP ks) = visibleL ks := by
  rw [h.fmt]
  exact elemText_para (p := T.isWs) h.noDigit skipOk_odg tP [] ks (Or.inr hk)

theorem prunedL_paras {T : OdsT} (h : OdsOk T) (ps : List (List Inl)) : prunedL T (ps.map rCellP) = ps.map rCellP := by
  have h1 : tP ∉ (stdFmt [tAnnot]).skip := by simp only [stdFmt]; decide
  induction ps with
  | nil => rfl
  | cons a r ih =>
    simp only [List.map_cons, prunedL, ih]
    simp only [rCellP, elem, pruned, h.fmt, h.pTag, List.contains_iff_mem, h1, if_false, if_true, List.singleton_append]

theorem cellParas_cell {T : OdsT} (h : OdsOk T) (c : OCell) : cellParas T (rOCell c) = c.paras.map rCellP := by
  have h1 : q nsTable "table-cell" ∉ (stdFmt [tAnnot]).skip := by simp only [stdFmt]; decide
  have h2 : q nsTable "table-cell" ≠ tP := by decide
  have h3 : tAnnot ∈ (stdFmt [tAnnot]).skip := by simp [stdFmt]
  unfold cellParas
  rw [walkCov_false]
  simp only [rOCell, pruned, h.fmt, h.pTag, List.contains_iff_mem, h1, h2, if_false]
  cases c.comment with
  | none => simpa using prunedL_paras h c.paras
  | some k =>
    simp only [List.cons_append, List.nil_append, prunedL, pruned, h.fmt, List.contains_iff_mem, h3, if_true]
    simpa using prunedL_paras h c.paras

theorem cellDisplay_tokens {T : OdsT} (h : OdsOk T) (c : OCell) (hc : cellOk c = true) :
    tokens T.isWs (cellDisplay T (rOCell c)) = tokens T.isWs (cellShown c) := by
  have hfall : tokens T.isWs (join T.paraSep ((cellParas T (rOCell c)).map (elemText T.isWs T.fmt)))
      = tokens T.isWs (joinNl (c.paras.map visibleL)) := by
    rw [tokens_join h.paraSep.2 h.paraSep.1, tokens_joinNl h.nl, cellParas_cell h, List.map_map]
    congr 1
    unfold cellOk at hc
    rw [List.all_eq_true] at hc
    apply List.map_congr_left
    intro ks hks
    exact elemText_rCellP h ks (hc ks hks)
  unfold cellDisplay cellShown
  rw [rOCell_attrs, h.valueType, h.kinds, typedValue_cell]
  cases c.typed with
  | none => exact hfall
  | some kv =>
    obtain ⟨k, v⟩ := kv
    by_cases hv : v = []
    · simp only [hv, ne_eq, not_true_eq_false, if_false]; exact hfall
    · simp [hv]

/-- `d = []` implies no tokens -/
theorem cellDisplay_empty {T : OdsT} (h : OdsOk T) (c : OCell) (hc : cellOk c = true)
    (he : cellDisplay T (rOCell c) = []) : tokens T.isWs (cellShown c) = [] := by
  rw [← cellDisplay_tokens h c hc, he]; rfl

def cellToks (p : Char → Bool) (c : OCell) : List Str := (List.replicate c.rep (tokens p (cellShown c))).flatten

theorem rowValues_cells {T : OdsT} (h : OdsOk T) (cs : List OCell) (hc : cs.all cellOk = true) :
    ∃ vals, rowValues T (cs.map rOCell) = .ok vals ∧ vals.flatMap (tokens T.isWs) = cs.flatMap (cellToks T.isWs) := by
  induction cs with
  | nil => exact ⟨[], rfl, rfl⟩
  | cons c r ih =>
    simp only [List.all_cons, Bool.and_eq_true] at hc
    obtain ⟨rest, hr1, hr2⟩ := ih hc.2
    simp only [List.map_cons, rowValues, repeatOf_cell h c, hr1]
    by_cases hcap : cellDisplay T (rOCell c) = [] ∧ (c.rep : Int) > (T.cellCap : Int)
    · refine ⟨[] :: rest, by rw [if_pos hcap], ?_⟩
      have := cellDisplay_empty h c hc.1 hcap.1
      simp [hr2, cellToks, this, flatten_replicate_nil]
    · refine ⟨List.replicate c.rep (cellDisplay T (rOCell c)) ++ rest, by rw [if_neg hcap, Int.toNat_natCast], ?_⟩
      simp [hr2, cellToks, flatMap_tokens_replicate, cellDisplay_tokens h c hc.1]

theorem findall_cells {T : OdsT} (h : OdsOk T) (r : ORow) : findall T.cellTag (rORow r) = r.cells.map rOCell := by
  unfold findall rORow
  simp only [Xml.kids, h.cellTag]
  exact filter_map_tag_true _ _ _ (fun _ => rfl)

theorem repeatOf_row {T : OdsT} (h : OdsOk T) (r : ORow) : repeatOf T T.repRows (rORow r) = .ok (r.rep : Int) := by
  unfold repeatOf
  have := repeat_lookup (p := T.isWs) h.noDigit (q nsTable "number-rows-repeated") [] r.rep rfl
  have ha : (rORow r).attrs = [] ++ repAttr (q nsTable "number-rows-repeated") r.rep := rfl
  rw [ha, h.repRows, this]

theorem rawRows_rows {T : OdsT} (h : OdsOk T) (rs : List ORow) (hr : rs.all rowOk = true) :
    ∃ raw, rawRows T (rs.map rORow) = .ok raw
      ∧ raw.flatMap (fun r => r.flatMap (tokens T.isWs)) = rs.flatMap (rowTokens T.isWs) := by
  induction rs with
  | nil => exact ⟨[], rfl, rfl⟩
  | cons r t ih =>
    simp only [List.all_cons, Bool.and_eq_true] at hr
    obtain ⟨rest, hr1, hr2⟩ := ih hr.2
    obtain ⟨vals, hv1, hv2⟩ := rowValues_cells h r.cells (by simpa [rowOk] using hr.1)
    simp only [List.map_cons, rawRows, repeatOf_row h r, findall_cells h r, hv1, hr1]
    have hrt : rowTokens T.isWs r = (List.replicate r.rep (vals.flatMap (tokens T.isWs))).flatten := by
      unfold rowTokens; rw [hv2]; rfl
    by_cases hcap : (r.rep : Int) > (T.rowCap : Int) ∧ rowEmpty vals = true
    · refine ⟨vals :: rest, by rw [if_pos hcap], ?_⟩
      have := rowEmpty_tokens (p := T.isWs) vals hcap.2
      simp [hr2, hrt, this, flatten_replicate_nil]
    · refine ⟨List.replicate r.rep vals ++ rest, by rw [if_neg hcap, Int.toNat_natCast], ?_⟩
      simp [hr2, hrt, flatMap_replicate]

theorem findall_rows {T : OdsT} (h : OdsOk T) (s : OSheet) : findall T.rowTag (rOSheet s) = s.rows.map rORow := by
  unfold findall rOSheet
  simp only [Xml.kids, h.rowTag, List.filter_append]
  rw [filter_map_tag_true (q nsTable "table-row") rORow s.rows (fun _ => rfl)]
  by_cases hh : s.headerRows = []
  · simp [hh]
  · have : q nsTable "table-header-rows" ≠ q nsTable "table-row" := by decide
    simp [hh, List.filter, Xml.tag, this]

theorem unitOf_tokens {T : OdsT} (h : OdsOk T) (name text : Str) :
    tokens T.isWs (unitOf T name text) = tokens T.isWs name ++ tokens T.isWs text := by
  unfold unitOf
  simp only
  have : tokens T.isWs (name ++ T.unitSep ++ strip T.isWs text) = tokens T.isWs name ++ tokens T.isWs text := by
    rw [tokens_append_sep _ _ _ h.unitSep.2 h.unitSep.1, tokens_strip]
  rw [List.append_assoc] at this
  by_cases hs : T.unitStrip = true
  · simp [hs, tokens_strip, this]
  · simp [hs, this]

theorem sheetUnitText_sheet {T : OdsT} (h : OdsOk T) (s : OSheet) (hs : sheetOk s = true) :
    ∃ u, sheetUnitText T (rOSheet s) = .ok u ∧ tokens T.isWs u = sheetTokens T.isWs s := by
  obtain ⟨raw, h1, h2⟩ := rawRows_rows h s.rows hs
  have ha : (attr T.nameAttr (rOSheet s).attrs).getD [] = s.name := by
    rw [h.nameAttr]; simp [rOSheet, Xml.attrs, attr]
  refine ⟨unitOf T s.name (textOfRows T raw), ?_, ?_⟩
  · unfold sheetUnitText sheetText
    rw [findall_rows h, h1]
    simp only [ha]
  · rw [unitOf_tokens h, textOfRows_tokens h, h2]; rfl

theorem mapE_sheets {T : OdsT} (h : OdsOk T) (d : List OSheet) (hd : d.all sheetOk = true) :
    ∃ us, mapE (sheetUnitText T) (d.map rOSheet) = .ok us
      ∧ us.flatMap (tokens T.isWs) = d.flatMap (sheetTokens T.isWs) := by
  induction d with
  | nil => exact ⟨[], rfl, rfl⟩
  | cons s r ih =>
    simp only [List.all_cons, Bool.and_eq_true] at hd
    obtain ⟨us, hu1, hu2⟩ := ih hd.2
    obtain ⟨u, h1, h2⟩ := sheetUnitText_sheet h s hd.1
    exact ⟨u :: us, by simp [mapE, h1, hu1], by simp [h2, hu2]⟩

theorem findall_tables {T : OdsT} (h : OdsOk T) (d : List OSheet) : findall T.tableTag (renderOds d) = d.map rOSheet := by
  unfold findall renderOds
  simp only [Xml.kids, h.tableTag]
  exact filter_map_tag_true _ _ _ (fun _ => rfl)

/-- the extraction succeeds and the full text's tokens are the sheets' tokens -/
theorem fullText_render {T : OdsT} (h : OdsOk T) (d : List OSheet) (hd : sheetsOk d = true) :
    ∃ text, fullText T (renderOds d) = .ok text ∧ tokens T.isWs text = d.flatMap (sheetTokens T.isWs) := by
  obtain ⟨us, h1, h2⟩ := mapE_sheets h d hd
  refine ⟨strip T.isWs (join T.joinSep us), ?_, ?_⟩
  · unfold fullText; rw [findall_tables h, h1]
  · rw [tokens_strip, tokens_join h.joinSep.2 h.joinSep.1, h2]

end S2T.C02.Sheets.Ods
