import S2T.Model.Iface
/-! Helper lemmas for C04 (core Lean only). -/
namespace S2T.Iface

/-! ### tables -/

theorem maxLen_ge {α : Type} (t : List (List α)) : ∀ r ∈ t, r.length ≤ maxLen t := by
  induction t with
  | nil => intro r h; cases h
  | cons x xs ih =>
    intro r h
    simp only [maxLen]
    rcases List.mem_cons.mp h with h | h
    · subst h; exact Nat.le_max_left _ _
    · exact Nat.le_trans (ih r h) (Nat.le_max_right _ _)

theorem maxLen_attained {α : Type} (t : List (List α)) (h : t ≠ []) : ∃ r ∈ t, r.length = maxLen t := by
  induction t with
  | nil => exact absurd rfl h
  | cons x xs ih =>
    simp only [maxLen]
    by_cases hx : xs = []
    · subst hx; exact ⟨x, List.mem_cons_self, by simp [maxLen]⟩
    · obtain ⟨r, hr, hl⟩ := ih hx
      by_cases hc : maxLen xs ≤ x.length
      · exact ⟨x, List.mem_cons_self, by rw [Nat.max_eq_left hc]⟩
      · refine ⟨r, List.mem_cons_of_mem _ hr, ?_⟩
        rw [hl, Nat.max_eq_right (by omega)]

theorem maxLen_rect {α : Type} (t : List (List α)) (c : Nat) (h : ∀ r ∈ t, r.length = c) (hne : t ≠ []) :
    maxLen t = c := by
  obtain ⟨r, hr, hl⟩ := maxLen_attained t hne
  rw [← hl]; exact h r hr

/-! ### numbers -/

theorem enumerateFrom_ge {α : Type} (xs : List α) : ∀ start, ∀ p ∈ enumerateFrom start xs, start ≤ p.1 := by
  induction xs with
  | nil => intro s p h; cases h
  | cons x xs ih =>
    intro s p h
    simp only [enumerateFrom] at h
    rcases List.mem_cons.mp h with h | h
    · subst h; exact Nat.le_refl _
    · exact Nat.le_trans (Nat.le_succ s) (ih (s + 1) p h)

theorem enumerateFrom_fst {α : Type} (xs : List α) : ∀ start, (enumerateFrom start xs).map (·.1) = List.range' start xs.length := by
  induction xs with
  | nil => intro s; rfl
  | cons x xs ih => intro s; simp [enumerateFrom, ih (s + 1), List.range'_succ]

theorem counterLoop_gt {α : Type} (keep : α → Bool) (xs : List α) : ∀ c, ∀ n ∈ counterLoop keep c xs, c < n := by
  induction xs with
  | nil => intro c n h; cases h
  | cons x xs ih =>
    intro c n h
    simp only [counterLoop] at h
    split at h
    · rcases List.mem_cons.mp h with h | h
      · omega
      · have := ih (c + 1) n h; omega
    · exact ih c n h

theorem getPageForPosition_ge (position : Nat) (bps : List Nat) : ∀ page, page ≤ getPageForPosition position bps page := by
  induction bps with
  | nil => intro p; exact Nat.le_refl _
  | cons b bs ih =>
    intro p
    simp only [getPageForPosition]
    split
    · exact Nat.le_trans (Nat.le_succ p) (ih (p + 1))
    · exact Nat.le_refl _

/-! ### unicode -/

theorem scalar_lt {c : Nat} (h : scalar c = true) : c < 0x110000 := by
  simp [scalar] at h; exact h.1

theorem scalar_of_not_surrogate {c : Nat} (h1 : c < 0x110000) (h2 : isSurrogate c = false) : scalar c = true := by
  simp [scalar, h1, h2]

theorem scalar_fffd : scalar 0xFFFD = true := by decide

theorem scalar_pair {c d : Nat} (hc : isHigh c = true) (hd : isLow d = true) :
    scalar (0x10000 + (c - 0xD800) * 0x400 + (d - 0xDC00)) = true := by
  simp only [isHigh, isLow, Bool.and_eq_true, decide_eq_true_eq] at hc hd
  simp only [scalar, isSurrogate, Bool.and_eq_true, decide_eq_true_eq, Bool.not_eq_true', Bool.and_eq_false_iff,
    decide_eq_false_iff_not]
  omega

theorem repl_scalar {c : Nat} (h : c < 0x110000) : scalar (if isSurrogate c then 0xFFFD else c) = true := by
  split
  · exact scalar_fffd
  · rename_i hs; exact scalar_of_not_surrogate h (by simpa using hs)

theorem combine_wellFormed : ∀ (l : CPs), (∀ c ∈ l, c < 0x110000) → wellFormed (combineSurrogates l) = true := by
  intro l
  induction l using combineSurrogates.induct with
  | case1 => intro _; rfl
  | case2 c =>
    intro h
    simp only [combineSurrogates, wellFormed, List.all_cons, List.all_nil, Bool.and_true]
    exact repl_scalar (h c (by simp))
  | case3 c d rest hcd ih =>
    intro h
    simp only [Bool.and_eq_true] at hcd
    rw [combineSurrogates, if_pos (by simp [hcd.1, hcd.2])]
    simp only [wellFormed, List.all_cons, Bool.and_eq_true]
    refine ⟨scalar_pair hcd.1 hcd.2, ?_⟩
    exact ih (fun x hx => h x (by simp [hx]))
  | case4 c d rest hcd ih =>
    intro h
    rw [combineSurrogates, if_neg hcd]
    simp only [wellFormed, List.all_cons, Bool.and_eq_true]
    refine ⟨repl_scalar (h c (by simp)), ?_⟩
    exact ih (fun x hx => h x (by simp [hx]))

theorem high_is_surrogate {c : Nat} (h : isHigh c = true) : isSurrogate c = true := by
  simp only [isHigh, Bool.and_eq_true, decide_eq_true_eq] at h
  simp only [isSurrogate, Bool.and_eq_true, decide_eq_true_eq]; omega

theorem combine_id : ∀ (l : CPs), wellFormed l = true → combineSurrogates l = l := by
  intro l
  induction l using combineSurrogates.induct with
  | case1 => intro _; rfl
  | case2 c =>
    intro h
    simp only [wellFormed, List.all_cons, List.all_nil, Bool.and_true, scalar, Bool.and_eq_true, Bool.not_eq_true'] at h
    simp [combineSurrogates, h.2]
  | case3 c d rest hcd ih =>
    intro h
    simp only [Bool.and_eq_true] at hcd
    simp only [wellFormed, List.all_cons, scalar, Bool.and_eq_true, Bool.not_eq_true'] at h
    have := high_is_surrogate hcd.1
    rw [h.1.2] at this; cases this
  | case4 c d rest hcd ih =>
    intro h
    rw [combineSurrogates, if_neg hcd]
    simp only [wellFormed, List.all_cons, Bool.and_eq_true] at h
    have hc := h.1
    simp only [scalar, Bool.and_eq_true, Bool.not_eq_true'] at hc
    rw [ih (by simp only [wellFormed, List.all_cons, Bool.and_eq_true]; exact h.2)]
    simp [hc.2]

theorem uParamToUnit_lt (n : Int) : uParamToUnit n < 65536 := by
  unfold uParamToUnit
  have h1 : 0 ≤ n % 65536 := Int.emod_nonneg n (by decide)
  have h2 : n % 65536 < 65536 := Int.emod_lt_of_pos n (by decide)
  omega

theorem wellFormed_append (a b : CPs) : wellFormed (a ++ b) = (wellFormed a && wellFormed b) := by
  simp [wellFormed, List.all_append]

theorem wellFormed_sublist {a b : CPs} (h : a.Sublist b) (hb : wellFormed b = true) : wellFormed a = true := by
  simp only [wellFormed, List.all_eq_true] at *
  exact fun x hx => hb x (h.subset hx)

theorem matchDigits_unit {dig : DigitVal} {neg : Bool} {cs : CPs} {u k : Nat}
    (h : matchDigits dig neg cs = some (u, k)) : u < 65536 := by
  unfold matchDigits at h
  split at h
  · cases h
  · simp only [Option.some.injEq, Prod.mk.injEq] at h
    rw [← h.1]; exact uParamToUnit_lt _

theorem matchUParam_unit {dig : DigitVal} {cs : CPs} {u k : Nat}
    (h : matchUParam dig cs = some (u, k)) : u < 65536 := by
  unfold matchUParam at h
  split at h
  · simp only [Option.map_eq_some_iff, Prod.mk.injEq] at h
    obtain ⟨⟨u', k'⟩, hm, hu, _⟩ := h
    have := matchDigits_unit hm
    simp only at hu; omega
  · exact matchDigits_unit h

/-- every element of the `\uN` pass output is an input element or a 16-bit unit -/
theorem subUnicodeAux_bound (dig : DigitVal) (B : Nat) (hB : 65536 ≤ B) :
    ∀ (skip : Nat) (cs : CPs), (∀ c ∈ cs, c < B) → ∀ c ∈ subUnicodeAux dig skip cs, c < B := by
  intro skip cs
  fun_induction subUnicodeAux dig skip cs with
  | case1 => intro _ c h; cases h
  | case2 skip x cs ih => intro h c hc; exact ih (fun y hy => h y (by simp [hy])) c hc
  | case3 rest u k hm ih =>
    intro h c hc
    rcases List.mem_cons.mp hc with hc | hc
    · subst hc; have := matchUParam_unit hm; omega
    · exact ih (fun y hy => h y (by simp at hy ⊢; rcases hy with hy | hy <;> simp [hy])) c hc
  | case4 rest hm ih =>
    intro h c hc
    rcases List.mem_cons.mp hc with hc | hc
    · subst hc; exact h 92 (by simp)
    · exact ih (fun y hy => h y (by simp at hy ⊢; rcases hy with hy | hy <;> simp [hy])) c hc
  | case5 x cs hne ih =>
    intro h c hc
    rcases List.mem_cons.mp hc with hc | hc
    · subst hc; exact h _ (by simp)
    · exact ih (fun y hy => h y (by simp [hy])) c hc

theorem subUnicode_bound (dig : DigitVal) (B : Nat) (hB : 65536 ≤ B) (cs : CPs) (h : ∀ c ∈ cs, c < B) :
    ∀ c ∈ subUnicode dig cs, c < B := subUnicodeAux_bound dig B hB 0 cs h

theorem hexVal_le {a : Nat} (h : isHexDigit a = true) : hexVal a ≤ 15 := by
  simp only [isHexDigit, Bool.or_eq_true, Bool.and_eq_true, decide_eq_true_eq] at h
  unfold hexVal
  split
  · omega
  · split <;> omega

/-- `subHex` keeps well-formedness: it only inserts code points below 256 -/
theorem subHexAux_wellFormed : ∀ (skip : Nat) (cs : CPs), wellFormed cs = true → wellFormed (subHexAux skip cs) = true := by
  intro skip cs
  fun_induction subHexAux skip cs with
  | case1 => intro _; rfl
  | case2 skip x cs ih =>
    intro h
    simp only [wellFormed, List.all_cons, Bool.and_eq_true] at h
    exact ih h.2
  | case3 a b rest hab ih =>
    intro h
    simp only [wellFormed, List.all_cons, Bool.and_eq_true] at h ⊢
    refine ⟨?_, ih (by simp only [wellFormed, List.all_cons, Bool.and_eq_true]; exact h.2)⟩
    simp only [Bool.and_eq_true] at hab
    have ha := hexVal_le hab.1
    have hb := hexVal_le hab.2
    simp only [scalar, isSurrogate, Bool.and_eq_true, decide_eq_true_eq, Bool.not_eq_true', Bool.and_eq_false_iff,
      decide_eq_false_iff_not]
    omega
  | case4 a b rest hab ih =>
    intro h
    simp only [wellFormed, List.all_cons, Bool.and_eq_true] at h ⊢
    exact ⟨h.1, ih (by simp only [wellFormed, List.all_cons, Bool.and_eq_true]; exact h.2)⟩
  | case5 c cs hne ih =>
    intro h
    simp only [wellFormed, List.all_cons, Bool.and_eq_true] at h ⊢
    exact ⟨h.1, ih h.2⟩

theorem subHex_wellFormed (cs : CPs) (h : wellFormed cs = true) : wellFormed (subHex cs) = true :=
  subHexAux_wellFormed 0 cs h

/-! ### path -/

theorem splitSlash_ne_nil (s : Str) : splitSlash s ≠ [] := by
  cases s with
  | nil => simp [splitSlash]
  | cons c cs =>
    unfold splitSlash
    split
    · simp
    · split <;> simp

theorem splitSlash_no_slash (s : Str) : ∀ seg ∈ splitSlash s, '/' ∉ seg := by
  induction s with
  | nil => intro seg h; simp [splitSlash] at h; subst h; simp
  | cons c cs ih =>
    intro seg h
    unfold splitSlash at h
    split at h
    · rcases List.mem_cons.mp h with h | h
      · subst h; simp
      · exact ih seg h
    · rename_i hc
      split at h
      · rename_i sg rest heq
        rcases List.mem_cons.mp h with h | h
        · subst h
          have := ih sg (by rw [heq]; simp)
          intro hm
          rcases List.mem_cons.mp hm with hm | hm
          · exact hc hm.symm
          · exact this hm
        · exact ih seg (by rw [heq]; simp [h])
      · simp at h; subst h; simp; exact fun h => hc h.symm

theorem splitSlash_of_no_slash (m : Str) (h : '/' ∉ m) : splitSlash m = [m] := by
  induction m with
  | nil => rfl
  | cons c cs ih =>
    have hc : c ≠ '/' := fun e => h (by simp [e])
    have := ih (fun hm => h (List.mem_cons_of_mem _ hm))
    unfold splitSlash
    simp [hc, this]

theorem splitSlash_append (pre m : Str) : splitSlash (pre ++ '/' :: m) = splitSlash pre ++ splitSlash m := by
  induction pre with
  | nil => simp [splitSlash]
  | cons c cs ih =>
    simp only [List.cons_append]
    by_cases hc : c = '/'
    · subst hc
      rw [splitSlash, if_pos rfl, ih]
      conv => rhs; rw [splitSlash, if_pos rfl]
      rfl
    · rw [splitSlash, if_neg hc, ih]
      conv => rhs; rw [splitSlash, if_neg hc]
      have hne := splitSlash_ne_nil cs
      cases hsp : splitSlash cs with
      | nil => exact absurd hsp hne
      | cons sg rest => simp

/-- name of a relative part: last component that is neither empty nor `.` -/
def relName (rel : Str) : Str := (((splitSlash rel).filter fun x => x ≠ [] && x ≠ ['.']).getLast?).getD []

theorem relName_last (pre m : Str) (h1 : '/' ∉ m) (h2 : m ≠ []) (h3 : m ≠ ['.']) :
    relName (pre ++ '/' :: m) = m := by
  unfold relName
  rw [splitSlash_append, splitSlash_of_no_slash m h1, List.filter_append]
  have : ([m].filter fun x => x ≠ [] && x ≠ ['.']) = [m] := by simp [h2, h3]
  rw [this]; simp

theorem relName_single (m : Str) (h1 : '/' ∉ m) (h2 : m ≠ []) (h3 : m ≠ ['.']) : relName m = m := by
  unfold relName
  rw [splitSlash_of_no_slash m h1]
  simp [h2, h3]

theorem name_eq_relName (s : Str) : (parsePath s).name = relName (splitRoot s).2 := by
  simp [parsePath, PurePath.name, relName]

theorem name_no_slash (s : Str) : '/' ∉ (parsePath s).name := by
  rw [name_eq_relName]
  unfold relName
  generalize hl : ((splitSlash (splitRoot s).2).filter fun x => x ≠ [] && x ≠ ['.']) = l
  cases hg : l.getLast? with
  | none => simp
  | some x =>
    simp only [Option.getD_some]
    have hx : x ∈ l := List.mem_of_getLast? hg
    rw [← hl] at hx
    exact splitSlash_no_slash _ x (List.mem_filter.mp hx).1

/-- the relative part left by `splitroot` still ends with `/m` (or is `m` itself) -/
theorem splitRoot_keeps_last (pre m : Str) (h1 : '/' ∉ m) :
    (splitRoot (pre ++ '/' :: m)).2 = m ∨ ∃ pre', (splitRoot (pre ++ '/' :: m)).2 = pre' ++ '/' :: m := by
  have hm : ∀ r, m ≠ '/' :: r := fun r e => h1 (by simp [e])
  match pre with
  | [] =>
    left
    cases m with
    | nil => simp [splitRoot]
    | cons a r =>
      have : a ≠ '/' := fun e => hm r (by simp [e])
      simp [splitRoot, this]
  | [c] =>
    by_cases hc : c = '/'
    · subst hc
      left
      cases m with
      | nil => simp [splitRoot]
      | cons a r =>
        have : a ≠ '/' := fun e => hm r (by simp [e])
        simp [splitRoot]
    · right; exact ⟨[c], by simp [splitRoot, hc]⟩
  | c1 :: c2 :: p =>
    right
    by_cases h1' : c1 = '/'
    · subst h1'
      by_cases h2' : c2 = '/'
      · subst h2'
        cases p with
        | nil => exact ⟨['/'], by simp [splitRoot]⟩
        | cons c3 q =>
          by_cases h3' : c3 = '/'
          · subst h3'; exact ⟨'/' :: '/' :: q, by simp [splitRoot]⟩
          · exact ⟨c3 :: q, by simp [splitRoot, h3']⟩
      · exact ⟨c2 :: p, by simp [splitRoot, h2']⟩
    · exact ⟨c1 :: c2 :: p, by simp [splitRoot, h1']⟩

/-! `suffix` -/

theorem rfindDot_spec (name : Str) : ∀ i, rfindDot name = some i →
    i < name.length ∧ (name.drop i).head? = some '.' ∧ '.' ∉ (name.drop i).tail := by
  induction name with
  | nil => intro i h; simp [rfindDot] at h
  | cons c cs ih =>
    intro i h
    unfold rfindDot at h
    split at h
    · rename_i j hj
      simp only [Option.some.injEq] at h; subst h
      have := ih j hj
      simp only [List.length_cons, List.drop_succ_cons]
      exact ⟨by omega, this.2.1, this.2.2⟩
    · rename_i hn
      split at h
      · rename_i hc
        simp only [Option.some.injEq] at h; subst h; subst hc
        refine ⟨by simp, by simp, ?_⟩
        simp only [List.drop_zero, List.tail_cons]
        intro hm
        -- a later dot would have been found
        clear ih
        induction cs with
        | nil => cases hm
        | cons d ds ih2 =>
          unfold rfindDot at hn
          split at hn
          · cases hn
          · rename_i hn2
            split at hn
            · cases hn
            · rename_i hd
              rcases List.mem_cons.mp hm with e | e
              · exact hd e.symm
              · exact ih2 hn2 e
      · cases h

end S2T.Iface
