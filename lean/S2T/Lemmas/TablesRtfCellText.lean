import S2T.Lemmas.TablesRtfPart
/-! `cellText` of a written cell = the text of the cell. -/
namespace S2T.Tables.Rtf
open S2T.HtmlSkip (Str)
open S2T.Tables

/-- what the theorems need of the generated `SPECIAL_CHARS`: `par ↦ "\n"` comes first and no keyword is (or starts
    with) one of the control words `\trowd \cellx \pard \intbl` of a written row -/
def specialsOk (P : Params) : Bool :=
  match P.specials with
  | kc :: rest => kc.1 == "par".toList && kc.2 == ['\n'] && rest.all (fun kc => inertKw kc.1)
  | [] => false

def NoBrace (s : Str) : Prop := ∀ c ∈ s, c ≠ '{'

theorem removeIgnorable_noBrace (s : Str) (h : NoBrace s) : removeIgnorable 0 s = s := by
  induction s with
  | nil => rfl
  | cons c s ih =>
    have hc : (c == '{') = false := by simpa using h c List.mem_cons_self
    simp only [removeIgnorable, hc, Bool.false_and, Bool.false_eq_true, if_false]
    rw [ih (fun x hx => h x (List.mem_cons_of_mem _ hx))]

theorem noBrace_append {a b : Str} (ha : NoBrace a) (hb : NoBrace b) : NoBrace (a ++ b) := by
  intro c hc; rcases List.mem_append.mp hc with h | h
  · exact ha c h
  · exact hb c h

theorem noBrace_of_all (s : Str) (h : s.all (fun c => c != '{') = true) : NoBrace s := by
  intro c hc
  simp only [List.all_eq_true, bne_iff_ne, ne_eq] at h
  exact h c hc

theorem noBrace_digits (k : Nat) : NoBrace (toDec k) := by
  intro c hc h; subst h
  exact absurd (toDec_digits k _ hc) (by decide)

theorem noBrace_escUnit (u : Nat) : NoBrace (escUnit u) := by
  unfold escUnit
  split
  · exact noBrace_append (a := ['\\', 'u']) (noBrace_of_all _ (by decide))
      (noBrace_append (noBrace_digits _) (noBrace_of_all _ (by decide)))
  · exact noBrace_append (a := ['\\', 'u', '-']) (noBrace_of_all _ (by decide))
      (noBrace_append (noBrace_digits _) (noBrace_of_all _ (by decide)))

theorem noBrace_esc (p : Str) (h : p.all textChar = true) : NoBrace (esc p) := by
  induction p with
  | nil => intro c hc; cases hc
  | cons c p ih =>
    simp only [List.all_cons, Bool.and_eq_true] at h
    have hc := h.1
    simp only [textChar, Bool.and_eq_true, bne_iff_ne, ne_eq, decide_eq_true_eq] at hc
    obtain ⟨⟨⟨h1, h2⟩, h3⟩, h4⟩ := hc
    have : esc (c :: p) = escChar c ++ esc p := by simp [esc]
    rw [this]
    apply noBrace_append _ (ih h.2)
    by_cases h128 : c.toNat < 128
    · have : escChar c = [c] := by simp [escChar, h1, h2, h3, h128]
      rw [this]; intro x hx; simp at hx; subst hx; exact h2
    · have : escChar c = escUnit c.toNat := by simp [escChar, h1, h2, h3, h128, h4]
      rw [this]; exact noBrace_escUnit _

theorem noBrace_join (sep : Str) (hs : NoBrace sep) : ∀ (ps : List Str), (∀ p ∈ ps, NoBrace p) → NoBrace (joinWith sep ps)
  | [], _ => by intro c hc; cases hc
  | [p], h => by simpa [joinWith] using h p List.mem_cons_self
  | p :: q :: r, h => by
    rw [joinWith_cons_cons]
    exact noBrace_append (noBrace_append (h p List.mem_cons_self) hs)
      (noBrace_join sep hs (q :: r) (fun x hx => h x (List.mem_cons_of_mem _ hx)))

theorem noBrace_cellxs : ∀ n i, NoBrace (cellxs i n)
  | 0, _ => by intro c hc; cases hc
  | n + 1, i => by
    rw [cellxs_succ]
    have h1 : NoBrace (cellxW (1500 * (i + 1))) := by
      unfold cellxW
      exact noBrace_append (a := ['\\']) (noBrace_of_all _ (by decide))
        (noBrace_append (noBrace_of_all "cellx".toList (by decide)) (noBrace_digits _))
    exact noBrace_append h1 (noBrace_cellxs n (i + 1))

theorem noBrace_lead0 (n : Nat) : NoBrace (lead0 n) := by
  unfold lead0
  exact noBrace_append (noBrace_append (noBrace_of_all _ (by decide)) (noBrace_cellxs n 0)) (noBrace_of_all _ (by decide))

theorem foldl_id {α β : Type} (f : β → α → β) : ∀ (l : List α) (s : β), (∀ a ∈ l, f s a = s) → l.foldl f s = s
  | [], _, _ => rfl
  | a :: l, s, h => by
    rw [List.foldl_cons, h a List.mem_cons_self]
    exact foldl_id f l s (fun x hx => h x (List.mem_cons_of_mem _ hx))

/-- the two shapes of what stands in front of `\pard\intbl` in a piece: the row definition (first cell), or the
    space that delimits the previous `\cell`; `L'` is what the control-word removal leaves of it -/
inductive LeadOf : Str → Str → Prop
  | first (n : Nat) : LeadOf (lead0 (n + 1)) []
  | later : LeadOf [' '] [' ']

theorem pass_lead (m) (hm : Anch m) (hi : InertM m) {L L' : Str} (hL : LeadOf L L') (X : Str) :
    subst m 0 (L ++ sCellStart ++ X) = L ++ sCellStart ++ subst m 0 X := by
  cases hL with
  | first n => exact pass_lead0 m hm hi _ X
  | later => exact pass_lead1 m hm hi X

theorem ctl_lead {L L' : Str} (hL : LeadOf L L') (N : Str) (h : NoBs N) :
    ctlWords (L ++ sCellStart ++ N) = L' ++ N := by
  cases hL with
  | first n => exact ctl_lead0 n N h
  | later => exact ctl_lead1 N h

theorem noBrace_lead {L L' : Str} (hL : LeadOf L L') : NoBrace L := by
  cases hL with
  | first n => exact noBrace_lead0 _
  | later => exact noBrace_of_all _ (by decide)

theorem noBs_join_nl (ps : List Str) (h : ps.all plainPara = true) : NoBs (joinWith ['\n'] ps) := by
  cases ps with
  | nil => intro c hc; cases hc
  | cons p r => exact clean_noBs (joined_of_plain (p :: r) h (by simp)).clean

/-- the text of a cell from the piece in front of its `\cell` -/
theorem cellText_part (P : Params) (hP : specialsOk P = true) (c : RCell) (hc : plainCell c = true)
    {L L' : Str} (hL : LeadOf L L') :
    cellText P (L ++ sCellStart ++ joinWith sPar (c.map esc)) = cellSpec c := by
  have htc : ∀ p ∈ c, p.all textChar = true := fun p hp => plainPara_textChar (List.all_eq_true.mp hc p hp)
  -- ignorable groups
  have h0 : removeIgnorable 0 (L ++ sCellStart ++ joinWith sPar (c.map esc)) = L ++ sCellStart ++ joinWith sPar (c.map esc) := by
    apply removeIgnorable_noBrace
    refine noBrace_append (noBrace_append (noBrace_lead hL) (noBrace_of_all _ (by decide))) ?_
    apply noBrace_join _ (noBrace_of_all _ (by decide))
    intro p hp
    obtain ⟨q, hq, rfl⟩ := List.mem_map.mp hp
    exact noBrace_esc q (htc q hq)
  -- \uN
  have h1 : uniEsc (L ++ sCellStart ++ joinWith sPar (c.map esc)) = L ++ sCellStart ++ joinWith sPar c := by
    unfold uniEsc
    rw [pass_lead uniM anch_uniM inert_uniM hL]
    have := uniEsc_join c htc
    unfold uniEsc at this
    rw [this]
  -- \'hh
  have h2 : hexEsc (L ++ sCellStart ++ joinWith sPar c) = L ++ sCellStart ++ joinWith sPar c := by
    have := hexEsc_join c (fun p hp => textChar_noBs (htc p hp))
    unfold hexEsc at this ⊢
    rw [pass_lead hexEscM anch_hexEscM inert_hexEscM hL, this]
  -- special characters
  have hN := noBs_join_nl c hc
  have h3 : specials P (L ++ sCellStart ++ joinWith sPar c) = L ++ sCellStart ++ joinWith ['\n'] c := by
    unfold specials
    unfold specialsOk at hP
    split at hP
    · rename_i kc rest hsp
      simp only [Bool.and_eq_true, beq_iff_eq] at hP
      obtain ⟨⟨hk, hch⟩, hrest⟩ := hP
      rw [hsp, List.foldl_cons, hk, hch,
        pass_lead _ (anch_specialM _ _) (inert_specialM _ _ (by decide)) hL, par_join c hc]
      apply foldl_id
      intro kc' hkc'
      rw [pass_lead _ (anch_specialM _ _) (inert_specialM _ _ (List.all_eq_true.mp hrest kc' hkc')) hL,
        subst_noBs' _ (anch_specialM _ _) _ hN]
    · exact absurd hP (by decide)
  have h4 := ctl_lead hL (joinWith ['\n'] c) hN
  unfold cellText stripSimple
  rw [h0, h1, h2, h3, h4]
  cases c with
  | nil =>
    cases hL with
    | first n => decide
    | later => decide
  | cons p r =>
    have J := joined_of_plain (p :: r) hc (by simp)
    have hl : L' = [] ∨ L' = [' '] := by cases hL <;> simp
    exact tail_passes _ J L' hl

end S2T.Tables.Rtf
