import S2T.Lemmas.AesKatVec
/-! Known-answer validation of the specification `S2T.Spec.Fips197`, evaluated by the kernel.  SP 800-38A F.2.1/F.2.2 (CBC-AES128)
    (static file; independent of the Python source) -/
namespace S2T.AesL.Kat
open S2T.Spec.Fips197
set_option maxRecDepth 100000

/-- SP 800-38A F.2.1 CBC-AES128.Encrypt -/
theorem cbc128_encrypt : cbcEncrypt key128 iv pt = cbc128 := by decide +kernel
/-- SP 800-38A F.2.2 CBC-AES128.Decrypt -/
theorem cbc128_decrypt : cbcDecrypt key128 iv cbc128 = pt := by decide +kernel

end S2T.AesL.Kat
