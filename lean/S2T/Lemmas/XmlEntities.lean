import S2T.Model.XmlEntities
/-! Helper lemmas for `Props/C12_Xml.lean` (core Lean only). -/
namespace S2T.XmlEnt
open S2T.Limits (digits)

theorem Item.len_nil_le (it : Item) (n : Nat) (h : it.len [] = some n) : n ≤ it.bytes := by
  cases it with
  | lit k => simp [Item.len] at h; simp [Item.bytes, h]
  | ref i => simp [Item.len] at h
  | amp => simp [Item.len] at h; simp [Item.bytes, ← h]

/-- without any declared entity the characters produced are at most the bytes written -/
theorem itemsLen_nil_le (l : List Item) : ∀ n, itemsLen [] l = some n → n ≤ itemsBytes l := by
  induction l with
  | nil => intro n h; simp [itemsLen] at h; omega
  | cons it r ih =>
    intro n h
    unfold itemsLen at h
    split at h
    · rename_i a b ha hb
      have h1 := Item.len_nil_le it a ha
      have h2 := ih b hb
      simp at h
      simp [itemsBytes] at h2 ⊢
      omega
    · simp at h

theorem body_le_bytes (sz : Sizes) (p : Part) : itemsBytes p.body ≤ p.bytes sz := by
  unfold Part.bytes; omega

theorem runStage_refusing_le (s : Stage) (p : Part) (hs : s.forbidEntities = true) (n : Nat)
    (h : runStage s p = .ok n) : n ≤ itemsBytes p.body := by
  unfold runStage at h
  split at h
  · simp at h
  · split at h
    · simp at h
    · split at h
      · simp at h
      · rename_i hne
        have hd : p.declared = [] := by
          cases hp : p.declared with
          | nil => rfl
          | cons a b => simp [hp, hs] at hne
        rw [hd] at h
        simp only [tableLens] at h
        split at h
        · simp at h
        · rename_i k hk
          simp at h
          exact itemsLen_nil_le p.body n (by rw [← h]; exact hk)

theorem runChain_refusing_le (c : List Stage) (p : Part) (hc : ∀ s ∈ c, s.forbidEntities = true) (n : Nat)
    (h : runChain c p = .ok n) : n ≤ itemsBytes p.body := by
  induction c with
  | nil => simp [runChain] at h
  | cons s rest ih =>
    cases rest with
    | nil => exact runStage_refusing_le s p (hc s (by simp)) n (by simpa [runChain] using h)
    | cons t rest' =>
      have ih' := ih (fun x hx => hc x (by simp [hx]))
      unfold runChain at h
      split at h
      · rename_i k hk
        simp at h
        exact runStage_refusing_le s p (hc s (by simp)) n (by rw [hk, h])
      · split at h
        · exact ih' h
        · simp at h
      · split at h
        · exact ih' h
        · simp at h

/-- a refusing parser never accepts a part that declares an entity (referenced or not) -/
theorem runStage_refusing_declared (s : Stage) (hs : s.forbidEntities = true) (p : Part) (hne : p.declared ≠ []) (n : Nat) :
    runStage s p ≠ .ok n := by
  intro h
  unfold runStage at h
  have he : p.declared.isEmpty = false := by
    cases hp : p.declared with
    | nil => exact absurd hp hne
    | cons a b => simp
  simp [hs, he] at h
  split at h <;> simp at h

theorem runChain_refusing_declared (c : List Stage) (p : Part) (hc : ∀ s ∈ c, s.forbidEntities = true)
    (hne : p.declared ≠ []) (n : Nat) : runChain c p ≠ .ok n := by
  induction c with
  | nil => simp [runChain]
  | cons s rest ih =>
    cases rest with
    | nil => simpa [runChain] using runStage_refusing_declared s (hc s (by simp)) p hne n
    | cons t rest' =>
      have ih' := ih (fun x hx => hc x (by simp [hx]))
      intro h
      unfold runChain at h
      split at h
      · rename_i k hk
        simp at h
        exact runStage_refusing_declared s (hc s (by simp)) p hne n (by rw [hk, h])
      · split at h
        · exact ih' h
        · simp at h
      · split at h
        · exact ih' h
        · simp at h

theorem laughsEnts_ne_nil (a fan k : Nat) : laughsEnts a fan k ≠ [] := by
  cases k <;> simp [laughsEnts]

theorem digits_of_lt {n : Nat} (h : n < 10) : digits n = 1 := by rw [digits]; simp [h]

theorem itemsLen_replicate_ref (lens : List Nat) (i a : Nat) (h : lens[i]? = some a) (m : Nat) :
    itemsLen lens (List.replicate m (.ref i)) = some (m * a) := by
  induction m with
  | zero => simp [itemsLen]
  | succ k ih =>
    rw [List.replicate_succ, itemsLen, ih]
    simp [Item.len, h, Nat.succ_mul, Nat.add_comm]

theorem itemsBytes_replicate (it : Item) (m : Nat) : itemsBytes (List.replicate m it) = m * it.bytes := by
  simp [itemsBytes]

theorem digits_zero : digits 0 = 1 := by rw [digits]; simp

/-- m·m beats K times (C + 5m) for m = K(C+5)+1 -/
theorem square_beats_linear (K C : Nat) : K * (C + 5 * (K * (C + 5) + 1)) < (K * (C + 5) + 1) * (K * (C + 5) + 1) := by
  generalize hm : K * (C + 5) + 1 = m
  have h1 : K * (C + 5 * m) ≤ K * ((C + 5) * m) := by
    apply Nat.mul_le_mul_left
    have : 1 ≤ m := by omega
    calc C + 5 * m ≤ C * m + 5 * m := by
            have : C ≤ C * m := Nat.le_mul_of_pos_right C (by omega)
            omega
      _ = (C + 5) * m := by rw [Nat.add_mul]
  have h2 : K * ((C + 5) * m) = (K * (C + 5)) * m := by rw [Nat.mul_assoc]
  have h3 : m * m = (K * (C + 5)) * m + m := by
    conv => lhs; arg 1; rw [← hm]
    rw [Nat.add_mul, Nat.one_mul]
  omega

end S2T.XmlEnt
