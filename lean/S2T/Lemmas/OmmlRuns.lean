import S2T.Lemmas.OmmlGood
/-! C19 runs: on schema-ordered trees without bracket-only radicals the run-flagged output characters
    are, blanks aside, the converted run texts in document order. -/
namespace S2T.Omml

@[simp] theorem runsOf_append (a b : Out) : runsOf (a ++ b) = runsOf a ++ runsOf b := by simp [runsOf]
@[simp] theorem runsOf_nil : runsOf [] = [] := rfl
@[simp] theorem runsOf_lit (s : Str) : runsOf (lit s) = [] := by
  simp [runsOf, lit, List.filter_map, Function.comp_def]
@[simp] theorem runsOf_run (s : Str) : runsOf (run s) = s := by
  simp [runsOf, run, List.filter_map, Function.comp_def]
theorem runsOf_cons_false (c : Char) (o : Out) : runsOf ((c, false) :: o) = runsOf o := by simp [runsOf]

@[simp] theorem nonWs_append (T : Tables) (a b : Str) : nonWs T (a ++ b) = nonWs T a ++ nonWs T b := by
  simp [nonWs]
@[simp] theorem nonWs_nil (T : Tables) : nonWs T [] = [] := rfl

/-- run characters of an output, blanks dropped -/
def rwo (T : Tables) (o : Out) : Str := nonWs T (runsOf o)
/-- converted run texts, blanks dropped -/
def txs (T : Tables) (rs : List Str) : Str := nonWs T (rs.flatMap (convert T))

@[simp] theorem rwo_append (T : Tables) (a b : Out) : rwo T (a ++ b) = rwo T a ++ rwo T b := by simp [rwo]
@[simp] theorem rwo_nil (T : Tables) : rwo T [] = [] := rfl
@[simp] theorem rwo_lit (T : Tables) (s : Str) : rwo T (lit s) = [] := by simp [rwo]
@[simp] theorem txs_append (T : Tables) (a b : List Str) : txs T (a ++ b) = txs T a ++ txs T b := by
  simp [txs]
@[simp] theorem txs_nil (T : Tables) : txs T [] = [] := rfl

theorem rwo_all_sp {T : Tables} {o : Out} (h : ∀ x ∈ o, isSp T x = true) : rwo T o = [] := by
  simp only [rwo, nonWs, runsOf, List.filter_eq_nil_iff, List.mem_map, List.mem_filter]
  rintro c ⟨x, ⟨hx, _⟩, rfl⟩
  have := h x hx
  simpa [isSp] using this

theorem rwo_strip (T : Tables) (o : Out) : rwo T (strip T o) = rwo T o := by
  obtain ⟨a, b, ho, ha, hb⟩ := strip_decomp T o
  conv => rhs; rw [ho]
  simp [rwo_all_sp ha, rwo_all_sp hb]

/-- started with nothing pending, `f` leaves nothing pending and emits the runs `rs` -/
def Emits (T : Tables) (f : M) (rs : List Str) : Prop :=
  (f []).2 = [] ∧ rwo T (f []).1 = txs T rs

section templates
variable {T : Tables}

theorem emits_ret_nil : Emits T (ret []) [] := ⟨rfl, rfl⟩

theorem emits_text (text : Str) : Emits T (tText T text) [text] := by
  refine ⟨rfl, ?_⟩
  simp [tText, closeLoop, rwo, txs]

theorem emits_frac {a b : M} {ra rb : List Str} (ha : Emits T a ra) (hb : Emits T b rb) :
    Emits T (tFrac a b) (ra ++ rb) := by
  obtain ⟨a1, a2⟩ := ha; obtain ⟨b1, b2⟩ := hb
  simp [Emits, tFrac, a1, b1, a2, b2]

theorem emits_sup {a b : M} {ra rb : List Str} (ha : Emits T a ra) (hb : Emits T b rb) :
    Emits T (tSup a b) (ra ++ rb) := by
  obtain ⟨a1, a2⟩ := ha; obtain ⟨b1, b2⟩ := hb
  simp [Emits, tSup, a1, b1, a2, b2]

theorem emits_sub {a b : M} {ra rb : List Str} (ha : Emits T a ra) (hb : Emits T b rb) :
    Emits T (tSub a b) (ra ++ rb) := by
  obtain ⟨a1, a2⟩ := ha; obtain ⟨b1, b2⟩ := hb
  simp [Emits, tSub, a1, b1, a2, b2]

theorem emits_subsup {a b c : M} {ra rb rc : List Str} (ha : Emits T a ra) (hb : Emits T b rb)
    (hc : Emits T c rc) : Emits T (tSubSup a b c) (ra ++ rb ++ rc) := by
  obtain ⟨a1, a2⟩ := ha; obtain ⟨b1, b2⟩ := hb; obtain ⟨c1, c2⟩ := hc
  simp [Emits, tSubSup, a1, b1, c1, a2, b2, c2]

theorem emits_bar {c : M} {rc : List Str} (hc : Emits T c rc) : Emits T (tBar c) rc := by
  obtain ⟨c1, c2⟩ := hc
  simp [Emits, tBar, c1, c2]

theorem emits_acc (accent : Str) {c : M} {rc : List Str} (hc : Emits T c rc) :
    Emits T (tAcc T accent c) rc := by
  obtain ⟨c1, c2⟩ := hc
  simp [Emits, tAcc, c1, c2]

theorem rwo_radHead (dg : Out) : rwo T (radHead dg) = rwo T dg := by
  unfold radHead; split
  · rename_i h; subst h; simp
  · simp

theorem emits_rad {dg c : M} {rd rc : List Str} (hd : Emits T dg rd) (hc : Emits T c rc)
    (hq : T.opens.contains (render (strip T (c []).1)) = false) : Emits T (tRad T dg c) (rd ++ rc) := by
  obtain ⟨d1, d2⟩ := hd; obtain ⟨c1, c2⟩ := hc
  have hq' : ¬ render (strip T (c []).1) ∈ T.opens := by simpa using hq
  simp [Emits, tRad, d1, hq', c1, rwo_radHead, rwo_strip, d2, c2]

theorem rwo_limit (o : Str) (x : Out) : rwo T (limit T o x) = rwo T x := by
  unfold limit; split
  · rename_i h; rw [rwo_all_sp (all_sp_of_strip_nil h)]; rfl
  · simp

theorem emits_nary (op : Str) {a b c : M} {ra rb rc : List Str} (ha : Emits T a ra) (hb : Emits T b rb)
    (hc : Emits T c rc) : Emits T (tNary T op a b c) (ra ++ rb ++ rc) := by
  obtain ⟨a1, a2⟩ := ha; obtain ⟨b1, b2⟩ := hb; obtain ⟨c1, c2⟩ := hc
  simp [Emits, tNary, a1, b1, c1, rwo_limit, a2, b2, c2]

theorem rwo_funcName (h : TOk T) (x : Out) : rwo T (funcName T x) = rwo T x := by
  unfold funcName
  simp only
  cases hl : lookup (render (strip T x)) T.funcs with
  | none => rfl
  | some v =>
    simp only
    have hf := h.funcs _ v (lookup_mem _ _ _ hl)
    split
    · simp only [rwo, runsOf_cons_false]
      exact rwo_strip T x
    · rename_i hne; exact absurd hf.2 hne

theorem emits_func (h : TOk T) {a c : M} {ra rc : List Str} (ha : Emits T a ra) (hc : Emits T c rc) :
    Emits T (tFunc T a c) (ra ++ rc) := by
  obtain ⟨a1, a2⟩ := ha; obtain ⟨c1, c2⟩ := hc
  simp [Emits, tFunc, a1, c1, rwo_funcName h, a2, c2]

/-- a list of transformers indexed by `ks`, each emitting its own runs, joined with a literal separator -/
theorem seq_emits {α} (ks : List α) (f : α → M) (g : α → List Str) (sep : Str)
    (h : ∀ c ∈ ks, Emits T (f c) (g c)) :
    (seqAll (ks.map f) []).2 = [] ∧ rwo T (joinTail (lit sep) (seqAll (ks.map f) []).1) = txs T (ks.flatMap g)
      ∧ rwo T (joinWith (lit sep) (seqAll (ks.map f) []).1) = txs T (ks.flatMap g) := by
  induction ks with
  | nil => simp [seqAll, joinTail, joinWith]
  | cons k ks ih =>
    obtain ⟨k1, k2⟩ := h k (by simp)
    obtain ⟨i1, i2, _⟩ := ih (fun c hc => h c (by simp [hc]))
    simp only [List.map_cons, seqAll, k1, List.flatMap_cons, txs_append]
    refine ⟨i1, ?_, ?_⟩
    · rw [joinTail_cons]; simp [k2, i2]
    · simp [joinWith, k2, i2]

theorem emits_default {α} (ks : List α) (f : α → M) (g : α → List Str)
    (h : ∀ c ∈ ks, Emits T (f c) (g c)) : Emits T (tDefault (ks.map f)) (ks.flatMap g) := by
  obtain ⟨i1, _, i3⟩ := seq_emits ks f g [] h
  refine ⟨i1, ?_⟩
  simp only [tDefault, flatten_eq_joinWith]
  exact i3

theorem emits_delim {α} (l r : Str) (ks : List α) (f : α → M) (g : α → List Str)
    (h : ∀ c ∈ ks, Emits T (f c) (g c)) : Emits T (tDelim l r (ks.map f)) (ks.flatMap g) := by
  obtain ⟨i1, _, i3⟩ := seq_emits ks f g s_comma h
  refine ⟨i1, ?_⟩
  simp [tDelim, i3]

theorem emits_row {α} (ks : List α) (f : α → M) (g : α → List Str)
    (h : ∀ c ∈ ks, Emits T (f c) (g c)) : Emits T (rowM (ks.map f)) (ks.flatMap g) := by
  obtain ⟨i1, _, i3⟩ := seq_emits ks f g s_amp h
  exact ⟨i1, by simp [rowM, i3]⟩

theorem emits_matrix {α} (rows : List α) (f : α → List M) (g : α → List Str)
    (h : ∀ r ∈ rows, Emits T (rowM (f r)) (g r)) : Emits T (tMatrix (rows.map f)) (rows.flatMap g) := by
  have := seq_emits rows (fun r => rowM (f r)) g s_rowsep h
  obtain ⟨i1, _, i3⟩ := this
  have hm : (rows.map f).map rowM = rows.map (fun r => rowM (f r)) := by simp
  refine ⟨?_, ?_⟩
  · simp only [tMatrix, hm]; exact i1
  · simp only [tMatrix, hm, rwo_append, rwo_lit, i3]; simp

end templates

/-! ### the tree -/
theorem allRunsL_eq (ks : List Xml) : allRunsL ks = ks.flatMap allRuns := by
  induction ks with
  | nil => simp [allRunsL]
  | cons k ks ih => simp [allRunsL, ih]

theorem shapeOkL_iff (T : Tables) (ks : List Xml) : shapeOkL T ks = true ↔ ∀ c ∈ ks, shapeOk T c = true := by
  induction ks with
  | nil => simp [shapeOkL]
  | cons k ks ih => simp [shapeOkL, ih]

theorem quietL_iff (T : Tables) (ks : List Xml) : quietL T ks = true ↔ ∀ c ∈ ks, quiet T c = true := by
  induction ks with
  | nil => simp [quietL]
  | cons k ks ih => simp [quietL, ih]

theorem shapeOk_kids {T : Tables} {x : Xml} (h : shapeOk T x = true) : ∀ c ∈ x.kids, shapeOk T c = true := by
  cases x with
  | node m n v t ks =>
    simp only [shapeOk, Bool.and_eq_true] at h
    exact (shapeOkL_iff T ks).mp h.1

theorem quiet_kids {T : Tables} {x : Xml} (h : quiet T x = true) : ∀ c ∈ x.kids, quiet T c = true := by
  cases x with
  | node m n v t ks =>
    simp only [quiet, Bool.and_eq_true] at h
    exact (quietL_iff T ks).mp h.1

theorem kindRest_ne_text (n : Str) (b : Bool) : kindRest n b ≠ .text := by
  unfold kindRest
  repeat' split
  all_goals (intro h; cases h)

theorem kindOf_text {T : Tables} (h : TOk T) (n : Str) (b : Bool) : kindOf T n b = .text ↔ n = n_t := by
  constructor
  · intro hk
    unfold kindOf at hk
    split at hk
    · cases hk
    · split at hk
      · assumption
      · exact absurd hk (kindRest_ne_text n b)
  · intro hn; subst hn
    simp only [kindOf, h.skip_t, Bool.false_eq_true, ↓reduceIte]

theorem emits_opndX {T : Tables} (n : Str) {ks : List Xml}
    (hk : ∀ c ∈ ks, Emits T (proc T c) (allRuns c)) : Emits T (opndX T n ks) (opRuns n ks) := by
  unfold opndX opRuns
  cases hf : ks.find? (isTag n) with
  | none => exact emits_ret_nil
  | some c => exact hk c (List.mem_of_find?_eq_some hf)

theorem radContent_eq (T : Tables) (ks : List Xml) : radContent T ks = (opndX T n_e ks []).1 := by
  unfold radContent opndX
  cases ks.find? (isTag n_e) <;> rfl

/-- **every element** of a schema-ordered tree without bracket-only radicals emits exactly its runs -/
theorem proc_emits {T : Tables} (h : TOk T) :
    ∀ x, shapeOk T x = true → quiet T x = true →
      Emits T (proc T x) (allRuns x) ∧ ∀ c ∈ x.kids, Emits T (proc T c) (allRuns c) := by
  apply Xml.ind
  intro m n v t ks ih hsh hqu
  have hshk := shapeOk_kids hsh
  have hquk := quiet_kids hqu
  simp only [Xml.kids] at hshk hquk
  have hk : ∀ c ∈ ks, Emits T (proc T c) (allRuns c) := fun c hc => (ih c hc (hshk c hc) (hquk c hc)).1
  refine ⟨?_, hk⟩
  simp only [shapeOk, Bool.and_eq_true, decide_eq_true_eq] at hsh
  simp only [quiet, Bool.and_eq_true, Bool.not_eq_true', Bool.and_eq_false_iff, beq_eq_false_iff_ne] at hqu
  have heq := hsh.2
  have hrad := hqu.2
  rw [proc_node]
  simp only [allRuns, heq]
  unfold procNode expectedRuns
  rw [hasMr_infos]
  simp only [opnd_infos, filter_infos, List.map_map]
  have hnt := kindOf_text h n (ks.find? (isTag n_mr)).isSome
  generalize hkd : kindOf T n (ks.find? (isTag n_mr)).isSome = kd at *
  have hne : kd ≠ .text → (if n = n_t then [t] else []) = ([] : List Str) := by
    intro hx
    have : ¬ n = n_t := fun hh => hx (hnt.mpr hh)
    simp [this]
  cases kd with
  | text =>
    have : n = n_t := hnt.mp rfl
    dsimp only
    simp only [this, ↓reduceIte, List.append_nil]
    exact emits_text t
  | skip =>
    dsimp only
    rw [hne (by simp), List.nil_append]; exact emits_ret_nil
  | frac =>
    dsimp only
    rw [hne (by simp), List.nil_append]; exact emits_frac (emits_opndX _ hk) (emits_opndX _ hk)
  | sup =>
    dsimp only
    rw [hne (by simp), List.nil_append]; exact emits_sup (emits_opndX _ hk) (emits_opndX _ hk)
  | sub =>
    dsimp only
    rw [hne (by simp), List.nil_append]; exact emits_sub (emits_opndX _ hk) (emits_opndX _ hk)
  | subsup =>
    dsimp only
    rw [hne (by simp), List.nil_append]; exact emits_subsup (emits_opndX _ hk) (emits_opndX _ hk) (emits_opndX _ hk)
  | rad =>
    dsimp only
    rw [hne (by simp), List.nil_append]
    apply emits_rad (emits_opndX _ hk) (emits_opndX _ hk)
    rw [← radContent_eq]
    rcases hrad with hrad | hrad
    · exact absurd rfl hrad
    · exact hrad
  | nary =>
    dsimp only
    rw [hne (by simp), List.nil_append]; exact emits_nary _ (emits_opndX _ hk) (emits_opndX _ hk) (emits_opndX _ hk)
  | delim =>
    dsimp only
    rw [hne (by simp), allRunsL_eq]
    simp only [List.nil_append]
    apply emits_delim
    intro c hc; exact hk c (List.mem_filter.mp hc).1
  | matrix =>
    dsimp only
    rw [hne (by simp)]
    simp only [List.nil_append, ← List.flatMap_def]
    have := emits_matrix (T := T) (ks.filter (isTag n_mr)) (fun r => (info T r).cells)
      (fun r => allRunsL (r.kids.filter (isTag n_e))) (by
        intro r hr
        have hr' := (List.mem_filter.mp hr).1
        simp only [info_cells, allRunsL_eq]
        apply emits_row
        intro c hc
        exact (ih r hr' (hshk r hr') (hquk r hr')).2 c (List.mem_filter.mp hc).1)
    simpa [Function.comp_def] using this
  | func =>
    dsimp only
    rw [hne (by simp), List.nil_append]; exact emits_func h (emits_opndX _ hk) (emits_opndX _ hk)
  | bar =>
    dsimp only
    rw [hne (by simp), List.nil_append]; exact emits_bar (emits_opndX _ hk)
  | acc =>
    dsimp only
    rw [hne (by simp), List.nil_append]; exact emits_acc _ (emits_opndX _ hk)
  | other =>
    dsimp only
    rw [hne (by simp), allRunsL_eq]
    simp only [List.nil_append]
    have := emits_default (T := T) ks (proc T) allRuns hk
    simpa [Function.comp_def] using this

/-- the whole conversion: run-flagged output characters = converted runs in document order (blanks aside) -/
theorem omml_runs {T : Tables} (h : TOk T) (root : Xml) (hs : shapeOkL T root.kids = true)
    (hq : quietL T root.kids = true) :
    nonWs T (runsOf (ommlOut T root)) = nonWs T (sourceText T root) := by
  have hk : ∀ c ∈ root.kids, Emits T (proc T c) (allRuns c) := fun c hc =>
    (proc_emits h c ((shapeOkL_iff T _).mp hs c hc) ((quietL_iff T _).mp hq c hc)).1
  obtain ⟨i1, i2⟩ := emits_default (T := T) root.kids (proc T) allRuns hk
  have hm : (infos T root.kids).map (·.run) = root.kids.map (proc T) := by
    rw [infos_eq_map]; simp [Function.comp_def]
  simp only [tDefault] at i1 i2
  show rwo T (ommlOut T root) = txs T (allRunsL root.kids)
  simp only [ommlOut, hm, i1, rwo_append, i2, allRunsL_eq]
  simp

end S2T.Omml
