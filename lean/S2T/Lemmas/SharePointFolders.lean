import S2T.Lemmas.SharePoint
/-! Helper lemmas for C18, part "start folders by path + lazy delivery" (core Lean only). -/
namespace S2T.SP

/-! ### A. strings: `strip("/")`, `quote(·, safe="/")`, path components -/

/-- path components a start folder may be made of: non-empty, no `/` -/
def ValidComps (cs : List Str) : Prop := ∀ c ∈ cs, c ≠ [] ∧ '/' ∉ c

theorem char_toNat_lt (c : Char) : c.toNat < 0x110000 := by
  have h := c.valid
  simp only [UInt32.isValidChar, Nat.isValidChar] at h
  show c.val.toNat < 0x110000
  omega

theorem quote_append (a b : Str) : quote (a ++ b) = quote a ++ quote b := by
  simp [quote, List.flatMap_append]

theorem quote_cons (ch : Char) (r : Str) : quote (ch :: r) = quoteChar ch ++ quote r := by
  simp [quote, List.flatMap_cons]

theorem quoteChar_slash : quoteChar '/' = ['/'] := by decide

theorem utf8_ne_nil (n : Nat) : utf8 n ≠ [] := by
  unfold utf8; split
  · simp
  · split
    · simp
    · split <;> simp

theorem utf8_lt (n : Nat) (hn : n < 0x110000) : ∀ b ∈ utf8 n, b < 256 := by
  intro b hb
  unfold utf8 at hb
  split at hb
  · simp at hb; omega
  · split at hb
    · simp at hb; omega
    · split at hb
      · simp at hb; omega
      · simp at hb; omega

theorem hexDigit_ne_slash : ∀ d, d < 16 → hexDigit d ≠ '/' := by decide

theorem pct_no_slash (bs : List Nat) (hb : ∀ b ∈ bs, b < 256) : '/' ∉ bs.flatMap pctByte := by
  intro h
  rw [List.mem_flatMap] at h
  obtain ⟨b, hbm, hin⟩ := h
  have := hb b hbm
  simp only [pctByte, List.mem_cons, List.not_mem_nil, or_false] at hin
  rcases hin with h | h | h
  · exact absurd h (by decide)
  · exact hexDigit_ne_slash (b / 16) (by omega) h.symm
  · exact hexDigit_ne_slash (b % 16) (by omega) h.symm

theorem quoteChar_no_slash (ch : Char) (h : ch ≠ '/') : '/' ∉ quoteChar ch := by
  unfold quoteChar
  split
  · simp; exact fun e => h e.symm
  · exact pct_no_slash _ (utf8_lt _ (char_toNat_lt ch))

theorem quoteChar_ne_nil (ch : Char) : quoteChar ch ≠ [] := by
  unfold quoteChar
  split
  · simp
  · cases hu : utf8 ch.toNat with
    | nil => exact absurd hu (utf8_ne_nil _)
    | cons b r => simp [pctByte]

theorem quote_no_slash (c : Str) (h : '/' ∉ c) : '/' ∉ quote c := by
  induction c with
  | nil => simp [quote]
  | cons ch r ih =>
    simp only [List.mem_cons, not_or] at h
    rw [quote_cons, List.mem_append, not_or]
    exact ⟨quoteChar_no_slash ch (fun e => h.1 e.symm), ih h.2⟩

theorem quote_ne_nil (c : Str) (h : c ≠ []) : quote c ≠ [] := by
  cases c with
  | nil => exact absurd rfl h
  | cons ch r =>
    rw [quote_cons]
    intro e
    exact quoteChar_ne_nil ch (List.append_eq_nil_iff.mp e).1

theorem validComps_map_quote {cs : List Str} (h : ValidComps cs) : ValidComps (cs.map quote) := by
  intro q hq
  rw [List.mem_map] at hq
  obtain ⟨c, hc, rfl⟩ := hq
  exact ⟨quote_ne_nil c (h c hc).1, quote_no_slash c (h c hc).2⟩

theorem quote_joinPath (cs : List Str) : quote (joinPath cs) = joinPath (cs.map quote) := by
  induction cs with
  | nil => rfl
  | cons c r ih =>
    simp only [joinPath, List.map_cons]
    cases r with
    | nil => simp
    | cons d r' =>
      simp only [List.isEmpty_cons, Bool.false_eq_true, if_false, List.map_cons] at ih ⊢
      rw [quote_append, quote_cons, quoteChar_slash, ih]
      simp

/-! splitting at `/` undoes joining valid components -/

theorem splitRaw_noslash (c : Str) (h : '/' ∉ c) : splitRaw c = (c, []) := by
  induction c with
  | nil => rfl
  | cons ch r ih =>
    simp only [List.mem_cons, not_or] at h
    have hne : (ch == '/') = false := by
      simp only [beq_eq_false_iff_ne, ne_eq]; exact fun e => h.1 e.symm
    simp [splitRaw, hne, ih h.2]

theorem splitRaw_seg (c rest : Str) (h : '/' ∉ c) :
    splitRaw (c ++ '/' :: rest) = (c, (splitRaw rest).1 :: (splitRaw rest).2) := by
  induction c with
  | nil => simp [splitRaw]
  | cons ch r ih =>
    simp only [List.mem_cons, not_or] at h
    have hne : (ch == '/') = false := by
      simp only [beq_eq_false_iff_ne, ne_eq]; exact fun e => h.1 e.symm
    simp [splitRaw, hne, ih h.2]

theorem segs_joinPath (ds : List Str) (hne : ds ≠ []) (hv : ValidComps ds) :
    (splitRaw (joinPath ds)).1 :: (splitRaw (joinPath ds)).2 = ds := by
  induction ds with
  | nil => exact absurd rfl hne
  | cons d r ih =>
    have hd := hv d (by simp)
    cases r with
    | nil => simp [joinPath, splitRaw_noslash d hd.2]
    | cons e r' =>
      have := ih (by simp) (fun c hc => hv c (List.mem_cons_of_mem _ hc))
      simp only [joinPath, List.isEmpty_cons, Bool.false_eq_true, if_false] at this ⊢
      rw [splitRaw_seg d _ hd.2]
      simp only
      rw [this]

theorem splitSlash_joinPath (ds : List Str) (hv : ValidComps ds) : splitSlash (joinPath ds) = ds := by
  cases ds with
  | nil => rfl
  | cons d r =>
    unfold splitSlash
    rw [segs_joinPath _ (by simp) hv]
    rw [List.filter_eq_self]
    intro c hc
    have := (hv c hc).1
    cases c with
    | nil => exact absurd rfl this
    | cons _ _ => rfl

/-! `quote` is injective: different names are requested by different URLs -/

theorem hexDigit_inj : ∀ d, d < 16 → ∀ d', d' < 16 → hexDigit d = hexDigit d' → d = d' := by decide

/-- two percent-encoded byte strings that agree up to a remainder come from prefix-comparable byte lists -/
theorem pct_prefix : ∀ (bs bs' : List Nat) (x y : Str), (∀ b ∈ bs, b < 256) → (∀ b ∈ bs', b < 256) →
    bs.flatMap pctByte ++ x = bs'.flatMap pctByte ++ y → bs <+: bs' ∨ bs' <+: bs := by
  intro bs
  induction bs with
  | nil => intro bs' _ _ _ _ _; exact Or.inl (List.nil_prefix)
  | cons b r ih =>
    intro bs' x y hb hb' h
    cases bs' with
    | nil => exact Or.inr List.nil_prefix
    | cons b' r' =>
      simp only [List.flatMap_cons, pctByte, List.cons_append, List.nil_append, List.cons.injEq, true_and] at h
      obtain ⟨h1, h2, h3⟩ := h
      have hlt := hb b (by simp)
      have hlt' := hb' b' (by simp)
      have e1 := hexDigit_inj _ (by omega) _ (by omega) h1
      have e2 := hexDigit_inj _ (by omega) _ (by omega) h2
      have : b = b' := by omega
      subst this
      rcases ih r' x y (fun c hc => hb c (List.mem_cons_of_mem _ hc)) (fun c hc => hb' c (List.mem_cons_of_mem _ hc)) h3 with h | h
      · exact Or.inl (List.cons_prefix_cons.mpr ⟨rfl, h⟩)
      · exact Or.inr (List.cons_prefix_cons.mpr ⟨rfl, h⟩)

theorem utf8_cases (n : Nat) :
    (n < 0x80 ∧ utf8 n = [n]) ∨
    (0x80 ≤ n ∧ n < 0x800 ∧ utf8 n = [0xC0 + n / 64, 0x80 + n % 64]) ∨
    (0x800 ≤ n ∧ n < 0x10000 ∧ utf8 n = [0xE0 + n / 4096, 0x80 + n / 64 % 64, 0x80 + n % 64]) ∨
    (0x10000 ≤ n ∧ utf8 n = [0xF0 + n / 262144, 0x80 + n / 4096 % 64, 0x80 + n / 64 % 64, 0x80 + n % 64]) := by
  by_cases h1 : n < 0x80
  · exact Or.inl ⟨h1, by simp [utf8, h1]⟩
  · by_cases h2 : n < 0x800
    · exact Or.inr (Or.inl ⟨by omega, h2, by simp [utf8, h1, h2]⟩)
    · by_cases h3 : n < 0x10000
      · exact Or.inr (Or.inr (Or.inl ⟨by omega, h3, by simp [utf8, h1, h2, h3]⟩))
      · exact Or.inr (Or.inr (Or.inr ⟨by omega, by simp [utf8, h1, h2, h3]⟩))

/-- the number of UTF-8 bytes is determined by the first byte -/
theorem utf8_length (n m : Nat) (hn : n < 0x110000) (hm : m < 0x110000)
    (h : (utf8 n).headD 0 = (utf8 m).headD 0) : (utf8 n).length = (utf8 m).length := by
  rcases utf8_cases n with ⟨h1, e⟩ | ⟨h1, h1', e⟩ | ⟨h1, h1', e⟩ | ⟨h1, e⟩ <;>
  rcases utf8_cases m with ⟨h2, e'⟩ | ⟨h2, h2', e'⟩ | ⟨h2, h2', e'⟩ | ⟨h2, e'⟩ <;>
  rw [e, e'] at h ⊢ <;>
  simp only [List.headD_cons, List.length_cons, List.length_nil] at h ⊢ <;>
  omega

theorem utf8_inj (n m : Nat) (hn : n < 0x110000) (hm : m < 0x110000) (h : utf8 n = utf8 m) : n = m := by
  rcases utf8_cases n with ⟨h1, e⟩ | ⟨h1, h1', e⟩ | ⟨h1, h1', e⟩ | ⟨h1, e⟩ <;>
  rcases utf8_cases m with ⟨h2, e'⟩ | ⟨h2, h2', e'⟩ | ⟨h2, h2', e'⟩ | ⟨h2, e'⟩ <;>
  rw [e, e'] at h <;>
  first
    | (simp only [List.cons.injEq, and_true] at h; omega)
    | (simp at h)

theorem prefix_eq_of_length {α} {a b : List α} (h : a <+: b) (hl : a.length = b.length) : a = b := by
  obtain ⟨t, rfl⟩ := h
  simp only [List.length_append] at hl
  have : t = [] := List.eq_nil_of_length_eq_zero (by omega)
  simp [this]

theorem prefix_headD {a b : List Nat} (h : a <+: b) (ha : a ≠ []) : a.headD 0 = b.headD 0 := by
  obtain ⟨t, rfl⟩ := h
  cases a with
  | nil => exact absurd rfl ha
  | cons x r => rfl

theorem quoteChar_head (a b : Char) (x y : Str) (h : quoteChar a ++ x = quoteChar b ++ y) : a = b := by
  unfold quoteChar at h
  by_cases ha : quoteSafe a = true <;> by_cases hb : quoteSafe b = true
  · simp only [ha, hb, if_true, List.cons_append, List.nil_append, List.cons.injEq] at h
    exact h.1
  · simp only [ha, hb, if_true, Bool.false_eq_true, if_false] at h
    cases hu : utf8 b.toNat with
    | nil => exact absurd hu (utf8_ne_nil _)
    | cons b0 r =>
      rw [hu] at h
      simp only [List.flatMap_cons, pctByte, List.cons_append, List.nil_append, List.cons.injEq] at h
      rw [h.1] at ha
      exact absurd ha (by decide)
  · simp only [ha, hb, if_true, Bool.false_eq_true, if_false] at h
    cases hu : utf8 a.toNat with
    | nil => exact absurd hu (utf8_ne_nil _)
    | cons a0 r =>
      rw [hu] at h
      simp only [List.flatMap_cons, pctByte, List.cons_append, List.nil_append, List.cons.injEq] at h
      rw [← h.1] at hb
      exact absurd hb (by decide)
  · simp only [ha, hb, Bool.false_eq_true, if_false] at h
    have hna := char_toNat_lt a
    have hnb := char_toNat_lt b
    have key : utf8 a.toNat = utf8 b.toNat := by
      rcases pct_prefix _ _ _ _ (utf8_lt _ hna) (utf8_lt _ hnb) h with hp | hp
      · exact prefix_eq_of_length hp (utf8_length _ _ hna hnb (prefix_headD hp (utf8_ne_nil _)))
      · exact (prefix_eq_of_length hp (utf8_length _ _ hnb hna (prefix_headD hp (utf8_ne_nil _)))).symm
    exact Char.toNat_inj.mp (utf8_inj _ _ hna hnb key)

/-- `urllib.parse.quote(·, safe="/")` is injective -/
theorem quote_injective : ∀ (s1 s2 : Str), quote s1 = quote s2 → s1 = s2 := by
  intro s1
  induction s1 with
  | nil =>
    intro s2 h
    cases s2 with
    | nil => rfl
    | cons b r =>
      rw [quote_cons] at h
      exact absurd (List.append_eq_nil_iff.mp h.symm).1 (quoteChar_ne_nil b)
  | cons a r ih =>
    intro s2 h
    cases s2 with
    | nil =>
      rw [quote_cons] at h
      exact absurd (List.append_eq_nil_iff.mp h).1 (quoteChar_ne_nil a)
    | cons b r' =>
      rw [quote_cons, quote_cons] at h
      have hab := quoteChar_head a b _ _ h
      subst hab
      rw [ih r' (List.append_cancel_left h)]

theorem quote_beq (nm c : Str) : (quote nm == quote c) = (nm == c) := by
  by_cases h : nm = c
  · subst h; simp
  · have : quote nm ≠ quote c := fun e => h (quote_injective _ _ e)
    rw [beq_eq_false_iff_ne.mpr this, beq_eq_false_iff_ne.mpr h]

/-! `strip("/")` removes exactly the outer slashes of a decorated canonical path -/

theorem dropWhile_replicate_slash (a : Nat) (x : Str) :
    (List.replicate a '/' ++ x).dropWhile (· == '/') = x.dropWhile (· == '/') := by
  induction a with
  | zero => simp
  | succ a ih => simp [List.replicate_succ, ih]

theorem dropWhile_slash_of_head (x : Str) (h : x.head? ≠ some '/') : x.dropWhile (· == '/') = x := by
  cases x with
  | nil => rfl
  | cons c r =>
    have : (c == '/') = false := by
      simp only [beq_eq_false_iff_ne, ne_eq]; intro e; exact h (by simp [e])
    simp [this]

theorem stripSlash_decorate (a b : Nat) (core : Str) (h1 : core.head? ≠ some '/') (h2 : core.getLast? ≠ some '/') :
    stripSlash (List.replicate a '/' ++ core ++ List.replicate b '/') = core := by
  unfold stripSlash
  rw [List.append_assoc, dropWhile_replicate_slash]
  cases core with
  | nil =>
    have : (List.replicate b '/').dropWhile (· == '/') = [] := by
      have := dropWhile_replicate_slash b []
      simpa using this
    simp [this]
  | cons c r =>
    have e1 : ((c :: r) ++ List.replicate b '/').dropWhile (· == '/') = (c :: r) ++ List.replicate b '/' :=
      dropWhile_slash_of_head _ (by simpa using h1)
    have e2 : ((c :: r).reverse).dropWhile (· == '/') = (c :: r).reverse :=
      dropWhile_slash_of_head _ (by rw [List.head?_reverse]; exact h2)
    rw [e1, List.reverse_append, List.reverse_replicate, dropWhile_replicate_slash, e2, List.reverse_reverse]

theorem getLast?_append_cons {α} (a : List α) (x : α) (J : List α) (hJ : J ≠ []) :
    (a ++ x :: J).getLast? = J.getLast? := by
  cases J with
  | nil => exact absurd rfl hJ
  | cons j js =>
    simp only [List.getLast?_append, List.getLast?_cons_cons]
    rw [List.getLast?_eq_some_getLast (l := j :: js) (by simp)]
    rfl

theorem joinPath_ne_nil (cs : List Str) (hne : cs ≠ []) (hv : ValidComps cs) : joinPath cs ≠ [] := by
  cases cs with
  | nil => exact absurd rfl hne
  | cons c r =>
    have hc := (hv c (by simp)).1
    unfold joinPath
    split
    · exact hc
    · simp

theorem joinPath_head (cs : List Str) (hv : ValidComps cs) : (joinPath cs).head? ≠ some '/' := by
  cases cs with
  | nil => simp [joinPath]
  | cons c r =>
    have hc := hv c (by simp)
    cases c with
    | nil => exact absurd rfl hc.1
    | cons x y =>
      have hx : x ≠ '/' := fun e => hc.2 (by simp [e])
      unfold joinPath
      split <;> simp [hx]

theorem joinPath_last (cs : List Str) (hv : ValidComps cs) : (joinPath cs).getLast? ≠ some '/' := by
  induction cs with
  | nil => simp [joinPath]
  | cons c r ih =>
    have hc := hv c (by simp)
    cases r with
    | nil =>
      simp only [joinPath, List.isEmpty_nil, if_true]
      intro h
      exact hc.2 (List.mem_of_getLast? h)
    | cons d r' =>
      have hv' : ValidComps (d :: r') := fun x hx => hv x (List.mem_cons_of_mem _ hx)
      have := ih hv'
      have hne := joinPath_ne_nil (d :: r') (by simp) hv'
      simp only [joinPath, List.isEmpty_cons, Bool.false_eq_true, if_false] at this hne ⊢
      rw [getLast?_append_cons _ _ _ hne]
      exact this


/-! ### B. the healthy server finds the item a canonical path addresses -/

theorem firstNamed_congr {p q : Str → Bool} (h : ∀ x, p x = q x) : ∀ L : Lib, firstNamed p L = firstNamed q L := by
  intro L
  induction L with
  | nil => rfl
  | file f r ih => simp [firstNamed, h, ih]
  | other r ih => simp [firstNamed, ih]
  | folder n id k r _ ih => simp [firstNamed, h, ih]

theorem nodeAt_quote : ∀ (cs : List Str) (nd : Node),
    nodeAt (fun seg nm => quote nm == seg) (cs.map quote) nd = nodeAt (fun c nm => nm == c) cs nd := by
  intro cs
  induction cs with
  | nil => intro nd; rfl
  | cons c r ih =>
    intro nd
    cases nd with
    | file f => rfl
    | folder i k =>
      simp only [List.map_cons, nodeAt]
      rw [firstNamed_congr (q := fun nm => nm == c) (fun x => quote_beq x c) k]
      cases firstNamed (fun nm => nm == c) k with
      | none => rfl
      | some nd' => exact ih nd'

/-- the answer of the healthy server for the item found (or not) at a path -/
def byPathAnswer : Option Node → Outcome
  | some (.folder id _) => .resp 200 (.obj { id := some id, hasFolder := true })
  | some (.file f) => .resp 200 (.obj { id := some f.id })
  | none => .httpError 404

theorem serveByPath_spec (L : Lib) (cs : List Str) (hne : cs ≠ []) (hv : ValidComps cs) :
    serveByPath L (quote (joinPath cs)) = byPathAnswer (nodeAt (fun c nm => nm == c) cs (.folder [] L)) := by
  unfold serveByPath
  rw [quote_joinPath, splitSlash_joinPath _ (validComps_map_quote hv)]
  cases cs with
  | nil => exact absurd rfl hne
  | cons c r =>
    simp only [List.map_cons]
    rw [show quote c :: r.map quote = (c :: r).map quote from rfl, nodeAt_quote]
    cases nodeAt (fun c nm => nm == c) (c :: r) (.folder [] L) with
    | none => rfl
    | some nd => cases nd <;> rfl

/-! ### C. the client against the healthy server: start folders -/

section healthyFolders
variable (c : Cfg) (L : Lib) (n : Nat)

theorem getJson_healthy_err (u : Url) (code : Nat) (h : serve L n u = .httpError code) (s : St) :
    ∃ s', getJson c (healthy L n) u s = (.error (.request (some code) u), s') ∧ s'.site = s.site := by
  have hsend : ∀ s1 : St, ∃ s2, send c (healthy L n) u s1 = (.error (.request (some code) u), s2) ∧ s2.site = s1.site := by
    intro s1
    unfold send
    have : healthy L n s1.log.length u = .httpError code := h
    simp only [this]
    exact ⟨_, rfl, rfl⟩
  unfold getJson ensureToken
  cases htok : s.token with
  | some tok =>
    simp only
    obtain ⟨s2, h2, hs2⟩ := hsend s
    rw [h2]
    exact ⟨s2, rfl, hs2⟩
  | none =>
    simp only
    obtain ⟨s1, h1, hs1⟩ := fetchToken_healthy c L n s
    rw [h1]
    simp only
    obtain ⟨s2, h2, hs2⟩ := hsend s1
    rw [h2]
    exact ⟨s2, rfl, hs2.trans hs1⟩

/-- the folder a non-empty component path addresses: (id, children) -/
def startOf (cs : List Str) (L : Lib) : Option (Str × Lib) :=
  match nodeAt (fun c nm => nm == c) cs (.folder [] L) with
  | some (.folder id k) => some (id, k)
  | _ => none

theorem getFolderByPath_healthy (raw : Str) (cs : List Str) (hraw : stripSlash raw = joinPath cs)
    (hne : cs ≠ []) (hv : ValidComps cs) (s : St) :
    ∃ s', getFolderByPath c (healthy L n) srvSite raw s =
        (.ok ((startOf cs L).map (fun x => ({ id := some x.1, hasFolder := true } : Obj))), s') ∧
      s'.site = s.site := by
  have hserve : serve L n (.byPath srvSite (quote (stripSlash raw))) =
      byPathAnswer (nodeAt (fun c nm => nm == c) cs (.folder [] L)) := by
    simp only [serve, if_true, hraw]
    exact serveByPath_spec L cs hne hv
  unfold getFolderByPath startOf
  cases hnd : nodeAt (fun c nm => nm == c) cs (.folder [] L) with
  | none =>
    rw [hnd] at hserve
    obtain ⟨s', h, hs⟩ := getJson_healthy_err c L n _ 404 hserve s
    rw [h]
    exact ⟨s', by simp [notFound], hs⟩
  | some nd =>
    rw [hnd] at hserve
    cases nd with
    | file f =>
      obtain ⟨s', h, hs⟩ := getJson_healthy c L n _ _ hserve s
      rw [h]
      exact ⟨s', by simp, hs⟩
    | folder id k =>
      obtain ⟨s', h, hs⟩ := getJson_healthy c L n _ _ hserve s
      rw [h]
      exact ⟨s', by simp, hs⟩

end healthyFolders

/-! the consumer `list(gen)` of the lazy functions is the eager function -/

theorem toR_none {α} (xs : List α) (s : St) : G.toR ((⟨xs, none⟩ : Part α), s) = (.ok xs, s) := rfl
theorem toR_some {α} (xs : List α) (e : Err) (s : St) : G.toR ((⟨xs, some e⟩ : Part α), s) = (.error e, s) := rfl

theorem toR_ok {α} {g : G α} {xs : List α} {s' : St} (h : g.toR = (.ok xs, s')) : g = (⟨xs, none⟩, s') := by
  obtain ⟨⟨o, e⟩, s⟩ := g
  cases e with
  | none => simp only [toR_none, Prod.mk.injEq, Except.ok.injEq] at h; obtain ⟨rfl, rfl⟩ := h; rfl
  | some e => simp [toR_some] at h

theorem pagesL_toR {α} (c : Cfg) (t : Transport) (proj : Item → Option α) :
    ∀ fuel u s, (pagesL c t proj fuel u s).toR = pagesWith c t proj fuel u s := by
  intro fuel
  induction fuel with
  | zero => intro u s; rfl
  | succ f ih =>
    intro u s
    unfold pagesL pagesWith
    cases hj : getJson c t u s with
    | mk r s1 =>
      cases r with
      | error e => rfl
      | ok o =>
        simp only
        cases hn : o.next with
        | none => rfl
        | some u' =>
          simp only
          have := ih u' s1
          rcases hp : pagesL c t proj f u' s1 with ⟨⟨po, pe⟩, s2⟩
          rw [hp] at this
          cases pe with
          | none => rw [toR_none] at this; rw [← this]; rfl
          | some e => rw [toR_some] at this; rw [← this]; rfl

theorem forFoldersL_toR {recL : Str → Str → St → G FileMeta} {rec : Str → Str → St → R (List FileMeta)}
    (hrec : ∀ fid p s, (recL fid p s).toR = rec fid p s) (parent : Str) :
    ∀ fs s, (forFoldersL recL parent fs s).toR = forFolders rec parent fs s := by
  intro fs
  induction fs with
  | nil => intro s; rfl
  | cons x rest ih =>
    intro s
    obtain ⟨name, id⟩ := x
    unfold forFoldersL forFolders
    cases id with
    | none => exact ih s
    | some fid =>
      simp only
      by_cases he : fid.isEmpty = true
      · simp only [he, if_true]; exact ih s
      · simp only [he, Bool.false_eq_true, if_false]
        have h1 := hrec fid (childPath parent name) s
        rcases hp : recL fid (childPath parent name) s with ⟨⟨a, ae⟩, s1⟩
        rw [hp] at h1
        cases ae with
        | some e => rw [toR_some] at h1; rw [← h1]; rfl
        | none =>
          rw [toR_none] at h1; rw [← h1]
          simp only
          have h2 := ih s1
          rcases hq : forFoldersL recL parent rest s1 with ⟨⟨b, be⟩, s2⟩
          rw [hq] at h2
          cases be with
          | none => rw [toR_none] at h2; rw [← h2]; rfl
          | some e => rw [toR_some] at h2; rw [← h2]; rfl

theorem walkL_toR (c : Cfg) (t : Transport) (site : Str) :
    ∀ fuel item parent s, (walkL c t site fuel item parent s).toR = walk c t site fuel item parent s := by
  intro fuel
  induction fuel with
  | zero => intro item parent s; rfl
  | succ f ih =>
    intro item parent s
    unfold walkL walk
    simp only [listPaginated]
    have h1 := pagesL_toR c t (fileOf parent) f (Url.children site item) s
    rcases hp : pagesL c t (fileOf parent) f (Url.children site item) s with ⟨⟨files, fe⟩, s1⟩
    rw [hp] at h1
    cases fe with
    | some e => rw [toR_some] at h1; rw [← h1]; rfl
    | none =>
      rw [toR_none] at h1; rw [← h1]
      simp only
      cases hg : getFolders c t f (Url.children site item) s1 with
      | mk r s2 =>
        cases r with
        | error e => rfl
        | ok folders =>
          simp only
          have h3 := forFoldersL_toR (recL := fun fid p s => walkL c t site f (some fid) p s)
            (rec := fun fid p s => walk c t site f (some fid) p s) (fun fid p s => ih (some fid) p s) parent folders s2
          rcases hq : forFoldersL (fun fid p s => walkL c t site f (some fid) p s) parent folders s2 with ⟨⟨b, be⟩, s3⟩
          rw [hq] at h3
          cases be with
          | none => rw [toR_none] at h3; rw [← h3]; rfl
          | some e => rw [toR_some] at h3; rw [← h3]; rfl

/-! a folder found by path in a well-addressed library can be walked by its id -/

theorem resolves_firstNamed (L : Lib) (p : Str → Bool) : ∀ (K : Lib) (id : Str) (k : Lib),
    resolves L K = true → firstNamed p K = some (.folder id k) →
    findFolder id L = some k ∧ resolves L k = true ∧ k.size < K.size := by
  intro K
  induction K with
  | nil => intro id k _ h; simp [firstNamed] at h
  | file f r ih =>
    intro id k hr h
    simp only [resolves] at hr
    simp only [firstNamed] at h
    split at h
    · cases h
    · obtain ⟨a, b, c⟩ := ih id k hr h
      exact ⟨a, b, by simp only [Lib.size]; omega⟩
  | other r ih =>
    intro id k hr h
    simp only [resolves] at hr
    simp only [firstNamed] at h
    obtain ⟨a, b, c⟩ := ih id k hr h
    exact ⟨a, b, by simp only [Lib.size]; omega⟩
  | folder nm id' k' r _ ihr =>
    intro id k hr h
    simp only [resolves, Bool.and_eq_true, Bool.not_eq_true', decide_eq_true_eq] at hr
    obtain ⟨⟨⟨_, hfind⟩, hk⟩, hrr⟩ := hr
    simp only [firstNamed] at h
    split at h
    · simp only [Option.some.injEq, Node.folder.injEq] at h
      obtain ⟨rfl, rfl⟩ := h
      exact ⟨hfind, hk, by simp only [Lib.size]; omega⟩
    · obtain ⟨a, b, c⟩ := ihr id k hrr h
      exact ⟨a, b, by simp only [Lib.size]; omega⟩

theorem resolves_nodeAt (L : Lib) (eq : Str → Str → Bool) : ∀ (cs : List Str) (K : Lib) (i id : Str) (k : Lib),
    cs ≠ [] → resolves L K = true → nodeAt eq cs (.folder i K) = some (.folder id k) →
    findFolder id L = some k ∧ resolves L k = true ∧ k.size < K.size := by
  intro cs
  induction cs with
  | nil => intro K i id k h; exact absurd rfl h
  | cons c r ih =>
    intro K i id k _ hr h
    simp only [nodeAt] at h
    cases hf : firstNamed (eq c) K with
    | none => simp [hf] at h
    | some nd =>
      rw [hf] at h
      simp only at h
      cases nd with
      | file f =>
        cases r with
        | nil => simp [nodeAt] at h
        | cons d r' => simp [nodeAt] at h
      | folder id1 k1 =>
        obtain ⟨a, b, c1⟩ := resolves_firstNamed L (eq c) K id1 k1 hr hf
        cases r with
        | nil =>
          simp only [nodeAt, Option.some.injEq, Node.folder.injEq] at h
          obtain ⟨rfl, rfl⟩ := h
          exact ⟨a, b, c1⟩
        | cons d r' =>
          obtain ⟨a2, b2, c2⟩ := ih k1 id1 id k (by simp) b h
          exact ⟨a2, b2, by omega⟩

section healthyFolders2
variable (c : Cfg) (L : Lib) (n : Nat)

theorem walkL_healthy (hn : 0 < n) (fuel : Nat) (K : Lib) (item : Option Str) (parent : Str) (s : St)
    (hsz : K.size + 2 ≤ fuel) (hres : resolves L K = true) (hits : folderItems L item = some K.items) :
    ∃ s', walkL c (healthy L n) srvSite fuel item parent s = (⟨clientListing parent K, none⟩, s') ∧
      s'.site = s.site := by
  obtain ⟨s', h, hs⟩ := walk_healthy c L n hn fuel K item parent s hsz hres hits
  rw [← walkL_toR] at h
  exact ⟨s', toR_ok h, hs⟩

/-- what the client returns for the start folder `cs` (own files first, then sub-folders), before filtering -/
def clientAt (cs : List Str) (L : Lib) : List FileMeta :=
  match folderAt cs L with
  | some (_, k) => clientListing (joinPath cs) k
  | none => []

theorem folderAt_cons (c : Str) (r : List Str) (L : Lib) :
    folderAt (c :: r) L = (startOf (c :: r) L).map (fun x => (some x.1, x.2)) := by
  unfold folderAt startOf
  cases nodeAt (fun c nm => nm == c) (c :: r) (.folder [] L) with
  | none => rfl
  | some nd => cases nd <;> rfl

/-- one start folder: `raw` is what the caller wrote, `cs` the components it denotes -/
theorem walkAndFilterL_healthy (keep : FileMeta → Bool) (hn : 0 < n) (hL : resolves L L = true)
    (fuel : Nat) (hf : L.size + 2 ≤ fuel) (raw : Str) (cs : List Str) (hv : ValidComps cs)
    (hraw : stripSlash raw = joinPath cs) (hroot : cs = [] → raw = []) (s : St) :
    ∃ s', walkAndFilterL c (healthy L n) keep srvSite fuel raw s = (⟨(clientAt cs L).filter keep, none⟩, s') ∧
      s'.site = s.site := by
  unfold walkAndFilterL
  cases cs with
  | nil =>
    rw [hroot rfl]
    simp only [List.isEmpty_nil, if_true]
    obtain ⟨s', h, hs⟩ := walkL_healthy c L n hn fuel L none [] s hf hL rfl
    rw [h]
    exact ⟨s', rfl, hs⟩
  | cons c0 r =>
    have hrne : raw.isEmpty = false := by
      cases raw with
      | nil =>
        have : joinPath (c0 :: r) = [] := by rw [← hraw]; rfl
        exact absurd this (joinPath_ne_nil _ (by simp) hv)
      | cons _ _ => rfl
    simp only [hrne, Bool.false_eq_true, if_false]
    obtain ⟨s1, h1, hs1⟩ := getFolderByPath_healthy c L n raw (c0 :: r) hraw (by simp) hv s
    rw [h1]
    unfold clientAt
    rw [folderAt_cons]
    cases hso : startOf (c0 :: r) L with
    | none => exact ⟨s1, rfl, hs1⟩
    | some x =>
      obtain ⟨id, k⟩ := x
      simp only [Option.map_some]
      have hnode : nodeAt (fun c nm => nm == c) (c0 :: r) (.folder [] L) = some (.folder id k) := by
        unfold startOf at hso
        cases hnd : nodeAt (fun c nm => nm == c) (c0 :: r) (.folder [] L) with
        | none => rw [hnd] at hso; cases hso
        | some nd =>
          rw [hnd] at hso
          cases nd with
          | file f => cases hso
          | folder id' k' => simp only [Option.some.injEq, Prod.mk.injEq] at hso; obtain ⟨rfl, rfl⟩ := hso; rfl
      obtain ⟨hfind, hresk, hszk⟩ := resolves_nodeAt L _ (c0 :: r) L [] id k (by simp) hL hnode
      obtain ⟨s2, h2, hs2⟩ := walkL_healthy c L n hn fuel k (some id) (stripSlash raw) s1 (by omega) hresk
        (by simp [folderItems, hfind])
      rw [h2, hraw]
      exact ⟨s2, rfl, hs2.trans hs1⟩

theorem forStartL_healthy (keep : FileMeta → Bool) (hn : 0 < n) (hL : resolves L L = true)
    (fuel : Nat) (hf : L.size + 2 ≤ fuel) :
    ∀ (sts : List (Str × List Str)),
      (∀ st ∈ sts, ValidComps st.2 ∧ stripSlash st.1 = joinPath st.2 ∧ (st.2 = [] → st.1 = [])) →
      ∀ s : St, ∃ s', forStartL c (healthy L n) keep srvSite fuel (sts.map (·.1)) s =
          (⟨sts.flatMap (fun st => (clientAt st.2 L).filter keep), none⟩, s') ∧ s'.site = s.site := by
  intro sts
  induction sts with
  | nil => intro _ s; exact ⟨s, rfl, rfl⟩
  | cons st rest ih =>
    intro h s
    obtain ⟨hv, hraw, hroot⟩ := h st (by simp)
    obtain ⟨s1, h1, hs1⟩ := walkAndFilterL_healthy c L n keep hn hL fuel hf st.1 st.2 hv hraw hroot s
    obtain ⟨s2, h2, hs2⟩ := ih (fun x hx => h x (List.mem_cons_of_mem _ hx)) s1
    simp only [List.map_cons, forStartL, h1, h2, List.flatMap_cons]
    exact ⟨s2, rfl, hs2.trans hs1⟩

theorem getSiteId_healthy' (s : St) (hs : Consistent s) :
    ∃ s', getSiteId c (healthy L n) s = (.ok srvSite, s') ∧ Consistent s' := by
  unfold getSiteId
  rcases hs with hs | hs
  · rw [hs]; simp only
    obtain ⟨s1, h1, _⟩ := getJson_healthy c L n .site { id := some srvSite } rfl s
    rw [h1]
    exact ⟨_, rfl, Or.inr rfl⟩
  · rw [hs]; exact ⟨_, rfl, Or.inr hs⟩

theorem listFilteredL_healthy (iso lower glob) (f : Filter) (hn : 0 < n) (hL : resolves L L = true)
    (fuel : Nat) (hf : L.size + 2 ≤ fuel) (sts : List (Str × List Str))
    (hsts : ∀ st ∈ sts, ValidComps st.2 ∧ stripSlash st.1 = joinPath st.2 ∧ (st.2 = [] → st.1 = []))
    (s : St) (hs : Consistent s) :
    ∃ s', listFilteredL c (healthy L n) iso lower glob f (sts.map (·.1)) fuel s =
        (⟨if sts = [] then (clientListing [] L).filter (matchesF c iso lower glob f)
          else sts.flatMap (fun st => (clientAt st.2 L).filter (matchesF c iso lower glob f)), none⟩, s') ∧
      Consistent s' := by
  obtain ⟨s1, h1, hs1⟩ := getSiteId_healthy' c L n s hs
  unfold listFilteredL
  rw [h1]
  simp only
  cases sts with
  | nil =>
    simp only [List.map_nil, List.isEmpty_nil, if_true]
    obtain ⟨s2, h2, hs2⟩ := walkAndFilterL_healthy c L n (matchesF c iso lower glob f) hn hL fuel hf [] []
      (by intro x hx; cases hx) rfl (fun _ => rfl) s1
    rw [h2]
    refine ⟨s2, rfl, ?_⟩
    unfold Consistent at hs1 ⊢; rw [hs2]; exact hs1
  | cons st rest =>
    simp only [List.map_cons, List.isEmpty_cons, Bool.false_eq_true, if_false]
    obtain ⟨s2, h2, hs2⟩ := forStartL_healthy c L n (matchesF c iso lower glob f) hn hL fuel hf (st :: rest) hsts s1
    simp only [List.map_cons] at h2
    rw [h2]
    refine ⟨s2, by simp, ?_⟩
    unfold Consistent at hs1 ⊢; rw [hs2]; exact hs1

end healthyFolders2

/-! ### D. what a start folder denotes: sub-listings of the complete listing -/

/-- SPEC: the files below the folder addressed by `cs`, in document order, with their parent paths -/
def specAt (cs : List Str) (L : Lib) : List FileMeta :=
  match folderAt cs L with
  | some (_, k) => specListing (joinPath cs) k
  | none => []

theorem clientAt_perm (cs : List Str) (L : Lib) : (clientAt cs L).Perm (specAt cs L) := by
  unfold clientAt specAt
  cases folderAt cs L with
  | none => exact List.Perm.refl _
  | some x => exact clientListing_perm x.2 _

/-- the same listing by recursion on the path (the parent path is built as `_walk_drive_items` builds it) -/
def subAt : List Str → Str → Lib → List FileMeta
  | [], p, K => specListing p K
  | c :: cs, p, K =>
    match firstNamed (fun nm => nm == c) K with
    | some (.folder _ k) => subAt cs (childPath p c) k
    | _ => []

def pathFrom (p : Str) (cs : List Str) : Str := cs.foldl childPath p

theorem pathFrom_ne_nil (p : Str) (hp : p ≠ []) : ∀ cs : List Str, cs ≠ [] → pathFrom p cs = p ++ '/' :: joinPath cs := by
  intro cs
  induction cs generalizing p with
  | nil => intro h; exact absurd rfl h
  | cons c r ih =>
    intro _
    have hcp : childPath p c = p ++ '/' :: c := by
      unfold childPath
      cases p with
      | nil => exact absurd rfl hp
      | cons _ _ => rfl
    show pathFrom (childPath p c) r = _
    cases r with
    | nil => simp [pathFrom, hcp, joinPath]
    | cons d r' =>
      rw [ih (childPath p c) (by rw [hcp]; simp) (by simp), hcp]
      simp [joinPath]

theorem pathFrom_joinPath (cs : List Str) (hv : ValidComps cs) : pathFrom [] cs = joinPath cs := by
  cases cs with
  | nil => rfl
  | cons c r =>
    have hc := (hv c (by simp)).1
    show pathFrom (childPath [] c) r = _
    have : childPath [] c = c := rfl
    rw [this]
    cases r with
    | nil => simp [pathFrom, joinPath]
    | cons d r' =>
      rw [pathFrom_ne_nil c hc _ (by simp)]
      simp [joinPath]

theorem subAt_nodeAt : ∀ (cs : List Str) (K : Lib) (i p : Str), cs ≠ [] →
    subAt cs p K = match nodeAt (fun c nm => nm == c) cs (.folder i K) with
      | some (.folder _ k) => specListing (pathFrom p cs) k
      | _ => [] := by
  intro cs
  induction cs with
  | nil => intro K i p h; exact absurd rfl h
  | cons c r ih =>
    intro K i p _
    simp only [subAt, nodeAt]
    cases hf : firstNamed (fun nm => nm == c) K with
    | none => rfl
    | some nd =>
      cases nd with
      | file f =>
        cases r with
        | nil => rfl
        | cons d r' => rfl
      | folder id1 k1 =>
        simp only
        cases r with
        | nil => rfl
        | cons d r' => exact ih k1 id1 (childPath p c) (by simp)

theorem specAt_eq_subAt (cs : List Str) (hv : ValidComps cs) (L : Lib) : specAt cs L = subAt cs [] L := by
  cases cs with
  | nil => rfl
  | cons c r =>
    rw [subAt_nodeAt (c :: r) L [] [] (by simp), pathFrom_joinPath _ hv]
    unfold specAt folderAt
    cases nodeAt (fun c nm => nm == c) (c :: r) (.folder [] L) with
    | none => rfl
    | some nd => cases nd <;> rfl

theorem firstNamed_sublist (c p : Str) : ∀ (K : Lib) (id : Str) (k : Lib),
    firstNamed (fun nm => nm == c) K = some (.folder id k) →
    (specListing (childPath p c) k).Sublist (specListing p K) := by
  intro K
  induction K with
  | nil => intro id k h; simp [firstNamed] at h
  | file f r ih =>
    intro id k h
    simp only [firstNamed] at h
    split at h
    · cases h
    · exact (ih id k h).cons _
  | other r ih => intro id k h; exact ih id k h
  | folder n id' k' r _ ihr =>
    intro id k h
    simp only [firstNamed] at h
    simp only [specListing]
    split at h
    · rename_i hn
      simp only [Option.some.injEq, Node.folder.injEq] at h
      obtain ⟨_, rfl⟩ := h
      have : n = c := by simpa using hn
      subst this
      exact List.sublist_append_left _ _
    · exact (ihr id k h).trans (List.sublist_append_right _ _)

theorem subAt_sublist : ∀ (cs : List Str) (p : Str) (K : Lib), (subAt cs p K).Sublist (specListing p K) := by
  intro cs
  induction cs with
  | nil => intro p K; exact List.Sublist.refl _
  | cons c r ih =>
    intro p K
    simp only [subAt]
    cases hf : firstNamed (fun nm => nm == c) K with
    | none => exact List.nil_sublist _
    | some nd =>
      cases nd with
      | file f => exact List.nil_sublist _
      | folder id k => exact (ih (childPath p c) k).trans (firstNamed_sublist c p K id k hf)

/-! start folders none of which is an ancestor of (or equal to) another select disjoint parts of the library -/

/-- no listed folder is an ancestor-or-equal of another one (component-wise prefix) -/
def Indep (css : List (List Str)) : Prop := css.Pairwise (fun a b => ¬ a <+: b ∧ ¬ b <+: a)

theorem indep_nil_mem {css : List (List Str)} (h : Indep css) (hm : [] ∈ css) : css = [[]] := by
  cases css with
  | nil => cases hm
  | cons a rest =>
    unfold Indep at h
    rw [List.pairwise_cons] at h
    cases a with
    | nil =>
      cases rest with
      | nil => rfl
      | cons b _ => exact absurd List.nil_prefix (h.1 b (by simp)).1
    | cons x y =>
      rcases List.mem_cons.mp hm with h' | h'
      · cases h'
      · exact absurd List.nil_prefix (h.1 [] h').2

def tailsOf (n : Str) (css : List (List Str)) : List (List Str) :=
  css.filterMap (fun cs => match cs with | c :: t => if n == c then some t else none | [] => none)

def othersOf (n : Str) (css : List (List Str)) : List (List Str) :=
  css.filter (fun cs => match cs with | c :: _ => !(n == c) | [] => false)

theorem indep_tailsOf (n : Str) {css : List (List Str)} (h : Indep css) : Indep (tailsOf n css) := by
  unfold Indep tailsOf at *
  refine List.Pairwise.filterMap _ ?_ h
  intro a a' hr b hb b' hb'
  cases a with
  | nil => simp at hb
  | cons c t =>
    cases a' with
    | nil => simp at hb'
    | cons c' t' =>
      simp only at hb hb'
      by_cases h1 : (n == c) = true
      · by_cases h2 : (n == c') = true
        · simp only [h1, h2, if_true, Option.some.injEq] at hb hb'
          subst hb; subst hb'
          have e1 : n = c := by simpa using h1
          have e2 : n = c' := by simpa using h2
          subst e1; subst e2
          exact ⟨fun hp => hr.1 (List.cons_prefix_cons.mpr ⟨rfl, hp⟩), fun hp => hr.2 (List.cons_prefix_cons.mpr ⟨rfl, hp⟩)⟩
        · simp [h2] at hb'
      · simp [h1] at hb

theorem indep_othersOf (n : Str) {css : List (List Str)} (h : Indep css) : Indep (othersOf n css) :=
  List.Pairwise.filter _ h

theorem sum_map_le {α} (f g : α → Nat) : ∀ l : List α, (∀ a ∈ l, f a ≤ g a) → (l.map f).sum ≤ (l.map g).sum := by
  intro l
  induction l with
  | nil => intro _; exact Nat.le_refl _
  | cons a r ih =>
    intro h
    simp only [List.map_cons, List.sum_cons]
    have := h a (by simp)
    have := ih (fun b hb => h b (List.mem_cons_of_mem _ hb))
    omega

theorem sum_map_zero {α} (f : α → Nat) : ∀ l : List α, (∀ a ∈ l, f a = 0) → (l.map f).sum = 0 := by
  intro l
  induction l with
  | nil => intro _; rfl
  | cons a r ih =>
    intro h
    simp only [List.map_cons, List.sum_cons, h a (by simp), ih (fun b hb => h b (List.mem_cons_of_mem _ hb))]

theorem split_folder (x : FileMeta) (n id : Str) (k r : Lib) (p : Str) : ∀ css : List (List Str), [] ∉ css →
    (css.map (fun cs => (subAt cs p (.folder n id k r)).count x)).sum =
      ((tailsOf n css).map (fun t => (subAt t (childPath p n) k).count x)).sum +
      ((othersOf n css).map (fun cs => (subAt cs p r).count x)).sum := by
  intro css
  induction css with
  | nil => intro _; rfl
  | cons cs rest ih =>
    intro hnil
    have ih' := ih (fun h => hnil (List.mem_cons_of_mem _ h))
    cases cs with
    | nil => exact absurd (List.mem_cons_self) hnil
    | cons c t =>
      by_cases hn : (n == c) = true
      · have e : n = c := by simpa using hn
        subst e
        have h1 : subAt (n :: t) p (.folder n id k r) = subAt t (childPath p n) k := by
          simp [subAt, firstNamed]
        simp only [List.map_cons, List.sum_cons, h1, ih', tailsOf, othersOf, List.filterMap_cons, List.filter_cons,
          beq_self_eq_true, if_true, Bool.not_true, Bool.false_eq_true, if_false]
        omega
      · have h1 : subAt (c :: t) p (.folder n id k r) = subAt (c :: t) p r := by
          simp [subAt, firstNamed, hn]
        simp only [List.map_cons, List.sum_cons, h1, ih', tailsOf, othersOf, List.filterMap_cons, List.filter_cons,
          hn, Bool.false_eq_true, if_false, Bool.not_false, if_true]
        omega

theorem count_subAt_le (x : FileMeta) : ∀ (K : Lib) (p : Str) (css : List (List Str)), Indep css →
    (css.map (fun cs => (subAt cs p K).count x)).sum ≤ (specListing p K).count x := by
  intro K
  induction K with
  | nil =>
    intro p css _
    rw [sum_map_zero]
    · exact Nat.zero_le _
    · intro cs _
      cases cs with
      | nil => rfl
      | cons c t => rfl
  | file f r ih =>
    intro p css hi
    by_cases hm : [] ∈ css
    · rw [indep_nil_mem hi hm]; simp [subAt]
    · refine Nat.le_trans (sum_map_le _ (fun cs => (subAt cs p r).count x) css ?_) (Nat.le_trans (ih p css hi) ?_)
      · intro cs hcs
        cases cs with
        | nil => exact absurd hcs hm
        | cons c t =>
          by_cases hfc : (f.name == c) = true
          · simp [subAt, firstNamed, hfc]
          · simp [subAt, firstNamed, hfc]
      · simp only [specListing]
        exact List.Sublist.count_le _ (List.sublist_cons_self _ _)
  | other r ih =>
    intro p css hi
    by_cases hm : [] ∈ css
    · rw [indep_nil_mem hi hm]; simp [subAt]
    · refine Nat.le_trans (sum_map_le _ (fun cs => (subAt cs p r).count x) css ?_) (ih p css hi)
      intro cs hcs
      cases cs with
      | nil => exact absurd hcs hm
      | cons c t => exact Nat.le_refl _
  | folder n id k r ihk ihr =>
    intro p css hi
    by_cases hm : [] ∈ css
    · rw [indep_nil_mem hi hm]; simp [subAt]
    · rw [split_folder x n id k r p css hm]
      have h1 := ihk (childPath p n) (tailsOf n css) (indep_tailsOf n hi)
      have h2 := ihr p (othersOf n css) (indep_othersOf n hi)
      simp only [specListing, List.count_append]
      omega

/-- EXACTLY ONCE: unrelated start folders together return no entry more often than the complete listing has it -/
theorem count_starts_le (x : FileMeta) (L : Lib) (css : List (List Str)) (hv : ∀ cs ∈ css, ValidComps cs)
    (hi : Indep css) : (css.flatMap (fun cs => specAt cs L)).count x ≤ (specListing [] L).count x := by
  rw [List.count_flatMap]
  have : css.map (List.count x ∘ fun cs => specAt cs L) = css.map (fun cs => (subAt cs [] L).count x) := by
    apply List.map_congr_left
    intro cs hcs
    simp only [Function.comp, specAt_eq_subAt cs (hv cs hcs)]
  rw [this]
  exact count_subAt_le x L [] css hi

/-! ### E. fault containment for the listing with start folders (any transport) -/

theorem walkL_snd (c : Cfg) (t : Transport) (site : Str) (fuel : Nat) (item : Option Str) (parent : Str) (s : St) :
    (walkL c t site fuel item parent s).2 = (walk c t site fuel item parent s).2 :=
  congrArg Prod.snd (walkL_toR c t site fuel item parent s)

section pres2
variable {c : Cfg} {t : Transport} {P : St → Prop}

theorem getFolderByPath_pres (h : Pres c t P) (site path : Str) (s : St) (hs : P s) :
    P (getFolderByPath c t site path s).2 := by
  have h1 := getJson_pres h (.byPath site (quote (stripSlash path))) s hs
  unfold getFolderByPath
  split
  · rename_i o s' he; rw [he] at h1; exact h1
  · rename_i e s' he; rw [he] at h1
    split <;> exact h1

theorem walkAndFilterL_pres (h : Pres c t P) (keep : FileMeta → Bool) (site : Str) (fuel : Nat) (path : Str)
    (s : St) (hs : P s) : P (walkAndFilterL c t keep site fuel path s).2 := by
  unfold walkAndFilterL
  split
  · show P (walkL c t site fuel none [] s).2
    rw [walkL_snd]; exact walk_pres h site fuel none [] s hs
  · have h1 := getFolderByPath_pres h site path s hs
    split
    · rename_i e s' he; rw [he] at h1; exact h1
    · rename_i s' he; rw [he] at h1; exact h1
    · rename_i o s' he; rw [he] at h1
      show P (walkL c t site fuel o.id (stripSlash path) s').2
      rw [walkL_snd]; exact walk_pres h site fuel _ _ s' h1

theorem forStartL_pres (h : Pres c t P) (keep : FileMeta → Bool) (site : Str) (fuel : Nat) :
    ∀ (ps : List Str) (s : St), P s → P (forStartL c t keep site fuel ps s).2 := by
  intro ps
  induction ps with
  | nil => intro s hs; exact hs
  | cons p rest ih =>
    intro s hs
    have h1 := walkAndFilterL_pres h keep site fuel p s hs
    unfold forStartL
    split
    · rename_i a e s' he; rw [he] at h1; exact h1
    · rename_i a s' he; rw [he] at h1
      exact ih s' h1

theorem listFilteredL_pres (h : Pres c t P)
    (hsite : ∀ s o id, P s → (getJson c t .site s).1 = .ok o → o.id = some id →
      P { (getJson c t .site s).2 with site := some id })
    (iso lower glob) (f : Filter) (folders : List Str) (fuel : Nat) (s : St) (hs : P s) :
    P (listFilteredL c t iso lower glob f folders fuel s).2 := by
  have h1 := getSiteId_pres h hsite s hs
  unfold listFilteredL
  split
  · rename_i e s' he; rw [he] at h1; exact h1
  · rename_i site s' he; rw [he] at h1
    split
    · exact walkAndFilterL_pres h _ site fuel [] s' h1
    · exact forStartL_pres h _ site fuel folders s' h1

end pres2

theorem listFilteredL_bal (c : Cfg) (hc : c.closeHttpError = true) (t : Transport) (iso lower glob) (f : Filter)
    (folders : List Str) (fuel : Nat) (s : St) (hs : Bal s) :
    Bal (listFilteredL c t iso lower glob f folders fuel s).2 :=
  listFilteredL_pres (bal_pres c hc t) (fun _ _ _ _ _ _ => by
    have := getJson_pres (bal_pres c hc t) .site _ ‹Bal _›
    exact this) iso lower glob f folders fuel s hs

theorem listFilteredL_consistent (c : Cfg) (hc : c.checkObject = true) (t : Transport) (ht : SiteHonest t)
    (iso lower glob) (f : Filter) (folders : List Str) (fuel : Nat) (s : St) (hs : Consistent s) :
    Consistent (listFilteredL c t iso lower glob f folders fuel s).2 := by
  refine listFilteredL_pres (consistent_pres c t) ?_ iso lower glob f folders fuel s hs
  intro s o id _ hok hid
  cases hj : getJson c t .site s with
  | mk r s' =>
    rw [hj] at hok; simp only at hok; subst hok
    obtain ⟨s1, st, _, _, hto, hst⟩ := getJson_ok (t := t) c hc hj
    rcases ht _ st o hto hst with h | h
    · rw [h] at hid; cases hid; exact Or.inr rfl
    · rw [h] at hid; cases hid

/-! the trace: with start folders a request answered "404" may be followed by more requests (the lookup of a
    start folder takes it for "no such folder"); every other failed request is the last one -/

/-- outcomes that carry HTTP status 404 -/
def IsNotFound (o : Outcome) : Prop := o = .httpError 404 ∨ ∃ b, o = .resp 404 b

/-- the request was answered normally, or by a 404 -/
def Fine' (o : Outcome) : Prop := Fine o ∨ IsNotFound o

def AllFine' (t : Transport) (l : List (Nat × Url)) : Prop := ∀ p ∈ l, Fine' (t p.1 p.2)

def Tr' (t : Transport) (l : List (Nat × Url)) {α : Type} (r : Except Err α) (l' : List (Nat × Url)) : Prop :=
  ∃ new, l' = new ++ l ∧
    match r with
    | .ok _ => AllFine' t new
    | .error e => (e = .outOfFuel ∧ AllFine' t new) ∨
        ∃ i u rest, new = (i, u) :: rest ∧ AllFine' t rest ∧ Raised (t i u) u e

section tr2
variable {t : Transport}

theorem Tr.weaken {α} {l l'} {r : Except Err α} (h : Tr t l r l') : Tr' t l r l' := by
  obtain ⟨new, hl, hr⟩ := h
  refine ⟨new, hl, ?_⟩
  have w : ∀ x, AllFine t x → AllFine' t x := fun x hx p hp => Or.inl (hx p hp)
  cases r with
  | ok a => exact w _ hr
  | error e =>
    rcases hr with ⟨he, hf⟩ | ⟨i, u, rest, hn, hf, hra⟩
    · exact Or.inl ⟨he, w _ hf⟩
    · exact Or.inr ⟨i, u, rest, hn, w _ hf, hra⟩

theorem Tr'.ok_refl {α} (l : List (Nat × Url)) (a : α) : Tr' t l (.ok a) l :=
  ⟨[], by simp, by intro p hp; cases hp⟩

theorem Tr'.ok_val {α β} {l l'} {a : α} (b : β) (h : Tr' t l (.ok a) l') : Tr' t l (.ok b) l' := h

theorem Tr'.err_ty {α β} {l l'} {e : Err} (h : Tr' t l (α := α) (.error e) l') : Tr' t l (α := β) (.error e) l' := h

theorem Tr'.seq {α β} {l l1 l2} {a : α} {r : Except Err β}
    (h1 : Tr' t l (.ok a) l1) (h2 : Tr' t l1 r l2) : Tr' t l r l2 := by
  obtain ⟨n1, e1, f1⟩ := h1
  obtain ⟨n2, e2, f2⟩ := h2
  refine ⟨n2 ++ n1, by rw [e2, e1, List.append_assoc], ?_⟩
  have happ : ∀ x, AllFine' t x → AllFine' t (x ++ n1) := by
    intro x hx p hp
    rcases List.mem_append.mp hp with h | h
    · exact hx p h
    · exact f1 p h
  cases r with
  | ok b => exact happ n2 f2
  | error e =>
    rcases f2 with ⟨he, hf⟩ | ⟨i, u, rest, hn, hf, hr⟩
    · exact Or.inl ⟨he, happ n2 hf⟩
    · exact Or.inr ⟨i, u, rest ++ n1, by rw [hn]; rfl, happ rest hf, hr⟩

theorem raised_notFound {o : Outcome} {u : Url} {e : Err} (h : Raised o u e) (hn : notFound e = true) :
    IsNotFound o := by
  unfold Raised at h
  cases o with
  | urlError => simp only at h; subst h; simp [notFound] at hn
  | httpError code =>
    simp only at h; subst h
    simp only [notFound, beq_iff_eq] at hn
    subst hn; exact Or.inl rfl
  | resp st b =>
    simp only at h
    split at h
    · rcases h with h | h <;> subst h <;> simp [notFound] at hn
    · subst h
      simp only [notFound, beq_iff_eq] at hn
      subst hn; exact Or.inr ⟨b, rfl⟩

theorem getFolderByPath_tr' (c : Cfg) (hc : c.checkObject = true) (site path : Str) (s : St) :
    Tr' t s.log (getFolderByPath c t site path s).1 (getFolderByPath c t site path s).2.log := by
  have h1 := getJson_tr (t := t) c hc (.byPath site (quote (stripSlash path))) s
  unfold getFolderByPath
  split
  · rename_i o s' he; rw [he] at h1; exact Tr.weaken h1
  · rename_i e s' he; rw [he] at h1; simp only at h1
    split
    · rename_i hnf
      obtain ⟨new, hl, hr⟩ := h1
      refine ⟨new, hl, ?_⟩
      rcases hr with ⟨he', _⟩ | ⟨i, u, rest, hn, hf, hra⟩
      · subst he'; simp [notFound] at hnf
      · intro p hp
        rw [hn] at hp
        rcases List.mem_cons.mp hp with h | h
        · subst h; exact Or.inr (raised_notFound hra hnf)
        · exact Or.inl (hf p h)
    · exact Tr.weaken h1

/-- the trace of a generator run: of what the consumer `list(gen)` sees -/
def TrG (t : Transport) (l : List (Nat × Url)) {α : Type} (g : G α) : Prop := Tr' t l g.toR.1 g.2.log

theorem TrG_filter {α} {l} {g : G α} (keep : α → Bool) (h : TrG t l g) : TrG t l (g.filter keep) := by
  obtain ⟨⟨o, e⟩, s⟩ := g
  cases e <;> exact h

theorem walkL_trG (c : Cfg) (hc : c.checkObject = true) (site : Str) (fuel : Nat) (item : Option Str)
    (parent : Str) (s : St) : TrG t s.log (walkL c t site fuel item parent s) := by
  unfold TrG
  rw [walkL_toR]
  have := walkL_snd c t site fuel item parent s
  rw [this]
  exact Tr.weaken (walk_tr c hc site fuel item parent s)

theorem walkAndFilterL_trG (c : Cfg) (hc : c.checkObject = true) (keep : FileMeta → Bool) (site : Str)
    (fuel : Nat) (path : Str) (s : St) : TrG t s.log (walkAndFilterL c t keep site fuel path s) := by
  unfold walkAndFilterL
  split
  · exact TrG_filter keep (walkL_trG c hc site fuel none [] s)
  · have h1 := getFolderByPath_tr' (t := t) c hc site path s
    split
    · rename_i e s' he; rw [he] at h1; exact h1
    · rename_i s' he; rw [he] at h1; exact h1
    · rename_i o s' he; rw [he] at h1; simp only at h1
      have h2 := TrG_filter keep (walkL_trG (t := t) c hc site fuel o.id (stripSlash path) s')
      unfold TrG at h2 ⊢
      exact Tr'.seq h1 h2

theorem forStartL_trG (c : Cfg) (hc : c.checkObject = true) (keep : FileMeta → Bool) (site : Str) (fuel : Nat) :
    ∀ (ps : List Str) (s : St), TrG t s.log (forStartL c t keep site fuel ps s) := by
  intro ps
  induction ps with
  | nil => intro s; exact Tr'.ok_refl _ _
  | cons p rest ih =>
    intro s
    have h1 := walkAndFilterL_trG (t := t) c hc keep site fuel p s
    unfold forStartL
    split
    · rename_i a e s' he; rw [he] at h1; exact h1
    · rename_i a s' he; rw [he] at h1
      have h2 := ih s'
      unfold TrG at h1 h2 ⊢
      rcases hq : forStartL c t keep site fuel rest s' with ⟨⟨b, be⟩, s2⟩
      rw [hq] at h2
      cases be with
      | none => exact Tr'.seq (Tr'.ok_val () h1) h2
      | some e => exact Tr'.seq (Tr'.ok_val () h1) h2

theorem listFilteredL_trG (c : Cfg) (hc : c.checkObject = true) (iso lower glob) (f : Filter)
    (folders : List Str) (fuel : Nat) (s : St) :
    TrG t s.log (listFilteredL c t iso lower glob f folders fuel s) := by
  have h1 := Tr.weaken (getSiteId_tr (t := t) c hc s)
  unfold listFilteredL
  split
  · rename_i e s' he; rw [he] at h1; exact h1
  · rename_i site s' he; rw [he] at h1; simp only at h1
    split
    · have h2 := walkAndFilterL_trG (t := t) c hc (matchesF c iso lower glob f) site fuel [] s'
      unfold TrG at h2 ⊢
      exact Tr'.seq h1 h2
    · have h2 := forStartL_trG (t := t) c hc (matchesF c iso lower glob f) site fuel folders s'
      unfold TrG at h2 ⊢
      exact Tr'.seq h1 h2

end tr2

/-! ### F. lazy delivery: what was handed out before a failed request is a prefix of the fault-free run

`t` and `t'` are two transports that answer every request alike except the k-th, which `t` answers with
something that is neither fine nor a 404.  Started from the same state, a run against `t` either is the run
against `t'`, or it ends in an error after having yielded a prefix of what the run against `t'` yields. -/

section lazyPrefix
variable {c : Cfg} {t t' : Transport} {k : Nat}

/-- same result, or `r` is an error `_get_folder_by_path` does not swallow -/
def RelR {α : Type} (r r' : R α) : Prop := r = r' ∨ ∃ e, r.1 = .error e ∧ notFound e = false

/-- same run, or `g` ended in such an error after a prefix of what `g'` yields -/
def RelG {α : Type} (g g' : G α) : Prop :=
  g = g' ∨ ((∃ e, g.1.err = some e ∧ notFound e = false) ∧ g.1.out <+: g'.1.out)

theorem RelG.toR {α} {g g' : G α} (h : RelG g g') : RelR g.toR g'.toR := by
  rcases h with h | ⟨⟨e, he, hn⟩, _⟩
  · exact Or.inl (by rw [h])
  · refine Or.inr ⟨e, ?_, hn⟩
    unfold G.toR; simp only [he]

theorem RelG.filter {α} {g g' : G α} (keep : α → Bool) (h : RelG g g') : RelG (g.filter keep) (g'.filter keep) := by
  rcases h with h | ⟨⟨e, he, hn⟩, hp⟩
  · exact Or.inl (by rw [h])
  · exact Or.inr ⟨⟨e, he, hn⟩, hp.filter keep⟩

theorem send_agree (hag : ∀ i u, i ≠ k → t i u = t' i u) (u : Url) (s : St) (hk : s.log.length ≠ k) :
    send c t u s = send c t' u s := by
  unfold send
  simp only [hag _ u hk]

theorem send_at (hbad : ∀ u, ¬ Fine' (t k u)) (u : Url) (s : St) (hk : s.log.length = k) :
    match (send c t u s).1 with
    | .ok b => ∀ o, b ≠ .obj o
    | .error e => notFound e = false := by
  have hs := (send_spec (t := t) c u s).2
  rw [hk] at hs
  cases hr : (send c t u s).1 with
  | ok b =>
    rw [hr] at hs; simp only at hs ⊢
    obtain ⟨st, hto, hok⟩ := hs
    intro o ho
    subst ho
    exact hbad u (Or.inl ⟨st, o, hto, hok⟩)
  | error e =>
    rw [hr] at hs; simp only at hs ⊢
    cases hnf : notFound e with
    | false => rfl
    | true => exact absurd (Or.inr (raised_notFound hs.1 hnf)) (hbad u)

theorem fetchToken_rel (hc : c.checkObject = true) (hag : ∀ i u, i ≠ k → t i u = t' i u)
    (hbad : ∀ u, ¬ Fine' (t k u)) (s : St) : RelR (fetchToken c t s) (fetchToken c t' s) := by
  by_cases hk : s.log.length = k
  · right
    have h := send_at (c := c) hbad .token s hk
    unfold fetchToken
    rcases hs : send c t .token s with ⟨r, s1⟩
    rw [hs] at h
    cases r with
    | error e => exact ⟨e, rfl, h⟩
    | ok b =>
      cases b with
      | notJson => exact ⟨.auth, rfl, rfl⟩
      | nonObject => exact ⟨.auth, by simp [hc], rfl⟩
      | obj o => exact absurd rfl (h o)
  · left
    unfold fetchToken
    rw [send_agree hag .token s hk]

theorem ensureToken_rel (hc : c.checkObject = true) (hag : ∀ i u, i ≠ k → t i u = t' i u)
    (hbad : ∀ u, ¬ Fine' (t k u)) (s : St) : RelR (ensureToken c t s) (ensureToken c t' s) := by
  unfold ensureToken
  cases s.token with
  | some tok => exact Or.inl rfl
  | none => exact fetchToken_rel hc hag hbad s

theorem getJson_rel (hc : c.checkObject = true) (hag : ∀ i u, i ≠ k → t i u = t' i u)
    (hbad : ∀ u, ¬ Fine' (t k u)) (u : Url) (s : St) : RelR (getJson c t u s) (getJson c t' u s) := by
  rcases ensureToken_rel hc hag hbad s with he | ⟨e, he, hn⟩
  · rcases hr : ensureToken c t' s with ⟨r1, s1⟩
    rw [hr] at he
    cases r1 with
    | error e => left; unfold getJson; rw [he, hr]
    | ok tok =>
      by_cases hk : s1.log.length = k
      · right
        have h := send_at (c := c) hbad u s1 hk
        unfold getJson
        rw [he]; simp only
        rcases hs : send c t u s1 with ⟨r, s2⟩
        rw [hs] at h
        cases r with
        | error e => exact ⟨e, rfl, h⟩
        | ok b =>
          cases b with
          | notJson => exact ⟨_, rfl, rfl⟩
          | nonObject => exact ⟨.request none u, by simp [hc], rfl⟩
          | obj o => exact absurd rfl (h o)
      · left
        unfold getJson
        rw [he, hr]; simp only
        rw [send_agree hag u s1 hk]
  · right
    unfold getJson
    rcases hr : ensureToken c t s with ⟨r1, s1⟩
    rw [hr] at he; simp only at he; subst he
    exact ⟨e, rfl, hn⟩

theorem pagesL_rel {α} (hc : c.checkObject = true) (hag : ∀ i u, i ≠ k → t i u = t' i u)
    (hbad : ∀ u, ¬ Fine' (t k u)) (proj : Item → Option α) :
    ∀ fuel u s, RelG (pagesL c t proj fuel u s) (pagesL c t' proj fuel u s) := by
  intro fuel
  induction fuel with
  | zero => intro u s; exact Or.inl rfl
  | succ f ih =>
    intro u s
    rcases getJson_rel hc hag hbad u s with he | ⟨e, he, hn⟩
    · unfold pagesL
      rw [he]
      rcases hr : getJson c t' u s with ⟨r1, s1⟩
      cases r1 with
      | error e => exact Or.inl rfl
      | ok o =>
        simp only
        cases o.next with
        | none => exact Or.inl rfl
        | some u' =>
          simp only
          rcases ih u' s1 with h | ⟨⟨e, he', hn⟩, hp⟩
          · rw [h]; exact Or.inl rfl
          · exact Or.inr ⟨⟨e, he', hn⟩, (List.prefix_append_right_inj _).mpr hp⟩
    · right
      unfold pagesL
      rcases hr : getJson c t u s with ⟨r1, s1⟩
      rw [hr] at he; simp only at he; subst he
      exact ⟨⟨e, rfl, hn⟩, List.nil_prefix⟩

theorem getFolders_rel (hc : c.checkObject = true) (hag : ∀ i u, i ≠ k → t i u = t' i u)
    (hbad : ∀ u, ¬ Fine' (t k u)) (fuel : Nat) (u : Url) (s : St) :
    RelR (getFolders c t fuel u s) (getFolders c t' fuel u s) := by
  have := (pagesL_rel hc hag hbad folderOf fuel u s).toR
  rw [pagesL_toR, pagesL_toR] at this
  exact this

theorem forFoldersL_rel {rec rec' : Str → Str → St → G FileMeta}
    (hrec : ∀ fid p s, RelG (rec fid p s) (rec' fid p s)) (parent : Str) :
    ∀ fs s, RelG (forFoldersL rec parent fs s) (forFoldersL rec' parent fs s) := by
  intro fs
  induction fs with
  | nil => intro s; exact Or.inl rfl
  | cons x rest ih =>
    intro s
    obtain ⟨name, id⟩ := x
    unfold forFoldersL
    cases id with
    | none => exact ih s
    | some fid =>
      simp only
      by_cases he : fid.isEmpty = true
      · simp only [he, if_true]; exact ih s
      · simp only [he, Bool.false_eq_true, if_false]
        rcases hrec fid (childPath parent name) s with h | ⟨⟨e, he', hn⟩, hp⟩
        · rw [h]
          rcases hr : rec' fid (childPath parent name) s with ⟨⟨a, ae⟩, s1⟩
          cases ae with
          | some e => exact Or.inl rfl
          | none =>
            simp only
            rcases ih s1 with h2 | ⟨⟨e, he2, hn⟩, hp⟩
            · rw [h2]; exact Or.inl rfl
            · exact Or.inr ⟨⟨e, he2, hn⟩, (List.prefix_append_right_inj _).mpr hp⟩
        · right
          rcases hr : rec fid (childPath parent name) s with ⟨⟨a, ae⟩, s1⟩
          rw [hr] at he' hp; simp only at he' hp; subst he'
          refine ⟨⟨e, rfl, hn⟩, ?_⟩
          simp only
          rcases hr' : rec' fid (childPath parent name) s with ⟨⟨a', ae'⟩, s1'⟩
          rw [hr'] at hp; simp only at hp
          cases ae' with
          | some e' => exact hp
          | none => exact hp.trans (List.prefix_append _ _)

theorem walkL_rel (hc : c.checkObject = true) (hag : ∀ i u, i ≠ k → t i u = t' i u)
    (hbad : ∀ u, ¬ Fine' (t k u)) (site : Str) :
    ∀ fuel item parent s, RelG (walkL c t site fuel item parent s) (walkL c t' site fuel item parent s) := by
  intro fuel
  induction fuel with
  | zero => intro item parent s; exact Or.inl rfl
  | succ f ih =>
    intro item parent s
    unfold walkL
    simp only
    rcases pagesL_rel hc hag hbad (fileOf parent) f (Url.children site item) s with h | ⟨⟨e, he, hn⟩, hp⟩
    · rw [h]
      rcases hr : pagesL c t' (fileOf parent) f (Url.children site item) s with ⟨⟨files, fe⟩, s1⟩
      cases fe with
      | some e => exact Or.inl rfl
      | none =>
        simp only
        rcases getFolders_rel hc hag hbad f (Url.children site item) s1 with h2 | ⟨e, he, hn⟩
        · rw [h2]
          rcases hr2 : getFolders c t' f (Url.children site item) s1 with ⟨r2, s2⟩
          cases r2 with
          | error e => exact Or.inl rfl
          | ok folders =>
            simp only
            rcases forFoldersL_rel (rec := fun fid p s => walkL c t site f (some fid) p s)
              (rec' := fun fid p s => walkL c t' site f (some fid) p s)
              (fun fid p s => ih (some fid) p s) parent folders s2 with h3 | ⟨⟨e, he3, hn⟩, hp⟩
            · rw [h3]; exact Or.inl rfl
            · exact Or.inr ⟨⟨e, he3, hn⟩, (List.prefix_append_right_inj _).mpr hp⟩
        · right
          rcases hr2 : getFolders c t f (Url.children site item) s1 with ⟨r2, s2⟩
          rw [hr2] at he; simp only at he; subst he
          refine ⟨⟨e, rfl, hn⟩, ?_⟩
          simp only
          rcases hr2' : getFolders c t' f (Url.children site item) s1 with ⟨r2', s2'⟩
          cases r2' with
          | error e' => exact List.prefix_refl _
          | ok folders => exact List.prefix_append _ _
    · right
      rcases hr : pagesL c t (fileOf parent) f (Url.children site item) s with ⟨⟨files, fe⟩, s1⟩
      rw [hr] at he hp; simp only at he hp; subst he
      refine ⟨⟨e, rfl, hn⟩, ?_⟩
      simp only
      rcases hr' : pagesL c t' (fileOf parent) f (Url.children site item) s with ⟨⟨files', fe'⟩, s1'⟩
      rw [hr'] at hp; simp only at hp
      cases fe' with
      | some e' => exact hp
      | none =>
        simp only
        rcases getFolders c t' f (Url.children site item) s1' with ⟨r2', s2'⟩
        cases r2' with
        | error e' => exact hp
        | ok folders => exact hp.trans (List.prefix_append _ _)

theorem getFolderByPath_rel (hc : c.checkObject = true) (hag : ∀ i u, i ≠ k → t i u = t' i u)
    (hbad : ∀ u, ¬ Fine' (t k u)) (site path : Str) (s : St) :
    RelR (getFolderByPath c t site path s) (getFolderByPath c t' site path s) := by
  rcases getJson_rel hc hag hbad (.byPath site (quote (stripSlash path))) s with h | ⟨e, he, hn⟩
  · left; unfold getFolderByPath; rw [h]
  · right
    unfold getFolderByPath
    rcases hr : getJson c t (.byPath site (quote (stripSlash path))) s with ⟨r1, s1⟩
    rw [hr] at he; simp only at he; subst he
    exact ⟨e, by simp [hn], hn⟩

theorem walkAndFilterL_rel (hc : c.checkObject = true) (hag : ∀ i u, i ≠ k → t i u = t' i u)
    (hbad : ∀ u, ¬ Fine' (t k u)) (keep : FileMeta → Bool) (site : Str) (fuel : Nat) (path : Str) (s : St) :
    RelG (walkAndFilterL c t keep site fuel path s) (walkAndFilterL c t' keep site fuel path s) := by
  unfold walkAndFilterL
  split
  · exact (walkL_rel hc hag hbad site fuel none [] s).filter keep
  · rcases getFolderByPath_rel hc hag hbad site path s with h | ⟨e, he, hn⟩
    · rw [h]
      rcases hr : getFolderByPath c t' site path s with ⟨r1, s1⟩
      cases r1 with
      | error e => exact Or.inl rfl
      | ok oo =>
        cases oo with
        | none => exact Or.inl rfl
        | some o => exact (walkL_rel hc hag hbad site fuel o.id (stripSlash path) s1).filter keep
    · right
      rcases hr : getFolderByPath c t site path s with ⟨r1, s1⟩
      rw [hr] at he; simp only at he; subst he
      exact ⟨⟨e, rfl, hn⟩, List.nil_prefix⟩

theorem forStartL_rel (hc : c.checkObject = true) (hag : ∀ i u, i ≠ k → t i u = t' i u)
    (hbad : ∀ u, ¬ Fine' (t k u)) (keep : FileMeta → Bool) (site : Str) (fuel : Nat) :
    ∀ (ps : List Str) (s : St), RelG (forStartL c t keep site fuel ps s) (forStartL c t' keep site fuel ps s) := by
  intro ps
  induction ps with
  | nil => intro s; exact Or.inl rfl
  | cons p rest ih =>
    intro s
    unfold forStartL
    rcases walkAndFilterL_rel hc hag hbad keep site fuel p s with h | ⟨⟨e, he, hn⟩, hp⟩
    · rw [h]
      rcases hr : walkAndFilterL c t' keep site fuel p s with ⟨⟨a, ae⟩, s1⟩
      cases ae with
      | some e => exact Or.inl rfl
      | none =>
        simp only
        rcases ih s1 with h2 | ⟨⟨e, he2, hn⟩, hp⟩
        · rw [h2]; exact Or.inl rfl
        · exact Or.inr ⟨⟨e, he2, hn⟩, (List.prefix_append_right_inj _).mpr hp⟩
    · right
      rcases hr : walkAndFilterL c t keep site fuel p s with ⟨⟨a, ae⟩, s1⟩
      rw [hr] at he hp; simp only at he hp; subst he
      refine ⟨⟨e, rfl, hn⟩, ?_⟩
      simp only
      rcases hr' : walkAndFilterL c t' keep site fuel p s with ⟨⟨a', ae'⟩, s1'⟩
      rw [hr'] at hp; simp only at hp
      cases ae' with
      | some e' => exact hp
      | none => exact hp.trans (List.prefix_append _ _)

theorem getSiteId_rel (hc : c.checkObject = true) (hag : ∀ i u, i ≠ k → t i u = t' i u)
    (hbad : ∀ u, ¬ Fine' (t k u)) (s : St) : RelR (getSiteId c t s) (getSiteId c t' s) := by
  unfold getSiteId
  cases s.site with
  | some id => exact Or.inl rfl
  | none =>
    simp only
    rcases getJson_rel hc hag hbad .site s with h | ⟨e, he, hn⟩
    · rw [h]; exact Or.inl rfl
    · right
      rcases hr : getJson c t .site s with ⟨r1, s1⟩
      rw [hr] at he; simp only at he; subst he
      exact ⟨e, rfl, hn⟩

theorem listFilteredL_rel (hc : c.checkObject = true) (hag : ∀ i u, i ≠ k → t i u = t' i u)
    (hbad : ∀ u, ¬ Fine' (t k u)) (iso lower glob) (f : Filter) (folders : List Str) (fuel : Nat) (s : St) :
    RelG (listFilteredL c t iso lower glob f folders fuel s) (listFilteredL c t' iso lower glob f folders fuel s) := by
  unfold listFilteredL
  rcases getSiteId_rel hc hag hbad s with h | ⟨e, he, hn⟩
  · rw [h]
    rcases hr : getSiteId c t' s with ⟨r1, s1⟩
    cases r1 with
    | error e => exact Or.inl rfl
    | ok site =>
      simp only
      split
      · exact walkAndFilterL_rel hc hag hbad _ site fuel [] s1
      · exact forStartL_rel hc hag hbad _ site fuel folders s1
  · right
    rcases hr : getSiteId c t s with ⟨r1, s1⟩
    rw [hr] at he; simp only at he; subst he
    exact ⟨⟨e, rfl, hn⟩, List.nil_prefix⟩

end lazyPrefix

/-- a start folder below (or equal to) another one selects a part of what the other selects -/
theorem subAt_prefix_sublist : ∀ (a d : List Str) (p : Str) (K : Lib), (subAt (a ++ d) p K).Sublist (subAt a p K) := by
  intro a
  induction a with
  | nil => intro d p K; exact subAt_sublist d p K
  | cons c r ih =>
    intro d p K
    simp only [List.cons_append, subAt]
    cases firstNamed (fun nm => nm == c) K with
    | none => exact List.Sublist.refl _
    | some nd =>
      cases nd with
      | file f => exact List.Sublist.refl _
      | folder id k => exact ih d (childPath p c) k

end S2T.SP
