import S2T.Lemmas.Omml
/-! Brace-depth algebra for C19: `Bal o k k'` = reading `o` at depth `k` never drops below zero
    relative to any surrounding depth and ends at `k'`; `Q o` = `#{ ≤ #} + #\` (additive). -/
namespace S2T.Omml

@[simp] theorem render_append (a b : Out) : render (a ++ b) = render a ++ render b := by simp [render]
@[simp] theorem render_nil : render [] = [] := rfl
@[simp] theorem render_cons (x : TC) (o : Out) : render (x :: o) = x.1 :: render o := rfl
@[simp] theorem render_lit (s : Str) : render (lit s) = s := by
  simp [render, lit, Function.comp_def]
@[simp] theorem render_run (s : Str) : render (run s) = s := by
  simp [render, run, Function.comp_def]

theorem walk_append (a b : Str) (d : Nat) : walk (a ++ b) d = (walk a d).bind (walk b) := by
  induction a generalizing d with
  | nil => simp [walk]
  | cons c r ih =>
    simp only [List.cons_append, walk]
    split
    · exact ih _
    · split
      · cases d with
        | zero => simp
        | succ d' => exact ih _
      · exact ih _

/-- no brace characters -/
def NoBrS (s : Str) : Prop := ∀ c ∈ s, c ≠ '{' ∧ c ≠ '}'

theorem walk_neutral (s : Str) (h : NoBrS s) (d : Nat) : walk s d = some d := by
  induction s with
  | nil => simp [walk]
  | cons c r ih =>
    have hc := h c (by simp)
    simp only [walk, hc.1, hc.2, ↓reduceIte]
    exact ih (fun x hx => h x (by simp [hx]))

theorem braceFree_iff (s : Str) : braceFree s = true ↔ NoBrS s := by
  simp [braceFree, NoBrS, List.all_eq_true]

def Bal (o : Out) (k k' : Nat) : Prop := ∀ d, walk (render o) (d + k) = some (d + k')

theorem Bal_nil (k : Nat) : Bal [] k k := by intro d; simp [walk]

theorem Bal_append {a b : Out} {k k1 k2 : Nat} (ha : Bal a k k1) (hb : Bal b k1 k2) :
    Bal (a ++ b) k k2 := by
  intro d
  rw [render_append, walk_append, ha d]
  exact hb d

theorem Bal_shift {o : Out} {k k' : Nat} (h : Bal o k k') (e : Nat) : Bal o (k + e) (k' + e) := by
  intro d
  have := h (d + e)
  rw [show d + (k + e) = d + e + k by omega, show d + (k' + e) = d + e + k' by omega]
  exact this

theorem Bal_fun {o : Out} {k k1 k2 : Nat} (h1 : Bal o k k1) (h2 : Bal o k k2) : k1 = k2 := by
  have a := h1 0; have b := h2 0
  rw [a] at b; simpa using b

theorem Bal_neutral {o : Out} (h : NoBrS (render o)) (k : Nat) : Bal o k k := by
  intro d; exact walk_neutral _ h _

theorem Bal_lit {s : Str} (h : NoBrS s) (k : Nat) : Bal (lit s) k k :=
  Bal_neutral (by simpa using h) k

theorem Bal_run {s : Str} (h : NoBrS s) (k : Nat) : Bal (run s) k k :=
  Bal_neutral (by simpa using h) k

theorem Bal_open (b : Bool) (k : Nat) : Bal [('{', b)] k (k + 1) := by
  intro d; simp [walk]; omega

theorem Bal_close (b : Bool) (k : Nat) : Bal [('}', b)] (k + 1) k := by
  intro d
  show walk ['}'] (d + (k + 1)) = some (d + k)
  simp [walk]

/-- `'{' :: o ++ "}"` -/
theorem Bal_braced {o : Out} {k k' : Nat} (h : Bal o k k') (b1 b2 : Bool) :
    Bal ([('{', b1)] ++ o ++ [('}', b2)]) k k' :=
  Bal_append (Bal_append (Bal_open b1 k) (Bal_shift h 1)) (Bal_close b2 k')

/-- output at depth-neutral prefix `p`, then `{ o }` -/
theorem Bal_cons_neutral {o : Out} {k k' : Nat} (x : TC) (hx : x.1 ≠ '{' ∧ x.1 ≠ '}') (h : Bal o k k') :
    Bal (x :: o) k k' := by
  have : Bal [x] k k := Bal_neutral (by intro c hc; simp at hc; subst hc; exact hx) k
  exact Bal_append this h

/-! ### counting -/
def cnt (c : Char) (o : Out) : Nat := (render o).count c

@[simp] theorem cnt_append (c : Char) (a b : Out) : cnt c (a ++ b) = cnt c a + cnt c b := by
  simp [cnt, List.count_append]
@[simp] theorem cnt_nil (c : Char) : cnt c [] = 0 := rfl
theorem cnt_cons (c : Char) (x : TC) (o : Out) : cnt c (x :: o) = cnt c o + (if x.1 = c then 1 else 0) := by
  simp [cnt, List.count_cons]
@[simp] theorem cnt_lit (c : Char) (s : Str) : cnt c (lit s) = s.count c := by simp [cnt]
@[simp] theorem cnt_run (c : Char) (s : Str) : cnt c (run s) = s.count c := by simp [cnt]

/-- `#{ ≤ #} + #\` -/
def Q (o : Out) : Prop := cnt '{' o ≤ cnt '}' o + cnt '\\' o

theorem Q_nil : Q [] := by simp [Q]
theorem Q_append {a b : Out} (ha : Q a) (hb : Q b) : Q (a ++ b) := by
  simp only [Q, cnt_append] at *; omega

theorem cnt_open_of_NoBr {o : Out} (h : NoBrS (render o)) : cnt '{' o = 0 := by
  simp only [cnt]
  exact List.count_eq_zero.mpr (fun hm => (h _ hm).1 rfl)

theorem Q_of_NoBr {o : Out} (h : NoBrS (render o)) : Q o := by
  simp [Q, cnt_open_of_NoBr h]

theorem Q_lit {s : Str} (h : NoBrS s) : Q (lit s) := Q_of_NoBr (by simpa using h)

/-! ### whitespace and strip -/

/-- the brace and backslash characters are not blanks -/
def SpOk (T : Tables) : Prop :=
  T.spaces.contains 123 = false ∧ T.spaces.contains 125 = false ∧ T.spaces.contains 92 = false

theorem isSp_ne {T : Tables} (h : SpOk T) {x : TC} (hx : isSp T x = true) :
    x.1 ≠ '{' ∧ x.1 ≠ '}' ∧ x.1 ≠ '\\' := by
  unfold isSp at hx
  refine ⟨?_, ?_, ?_⟩ <;> intro he <;> rw [he] at hx
  · have : ('{' : Char).toNat = 123 := by decide
    rw [this, h.1] at hx; cases hx
  · have : ('}' : Char).toNat = 125 := by decide
    rw [this, h.2.1] at hx; cases hx
  · have : ('\\' : Char).toNat = 92 := by decide
    rw [this, h.2.2] at hx; cases hx

theorem mem_takeWhile_sat {α} (p : α → Bool) (l : List α) (x : α) (h : x ∈ l.takeWhile p) : p x = true := by
  induction l with
  | nil => simp at h
  | cons y r ih =>
    rw [List.takeWhile_cons] at h
    split at h
    · rcases List.mem_cons.mp h with rfl | h
      · assumption
      · exact ih h
    · simp at h

theorem strip_decomp (T : Tables) (o : Out) :
    ∃ a b, o = a ++ strip T o ++ b ∧ (∀ x ∈ a, isSp T x = true) ∧ (∀ x ∈ b, isSp T x = true) := by
  refine ⟨o.takeWhile (isSp T), (((lstrip T o).reverse).takeWhile (isSp T)).reverse, ?_, ?_, ?_⟩
  · have h1 : o = o.takeWhile (isSp T) ++ lstrip T o := by
      unfold lstrip; exact (List.takeWhile_append_dropWhile).symm
    have h2 : lstrip T o = strip T o ++ (((lstrip T o).reverse).takeWhile (isSp T)).reverse := by
      unfold strip
      rw [← List.reverse_append, List.takeWhile_append_dropWhile, List.reverse_reverse]
    rw [List.append_assoc, ← h2, ← h1]
  · intro x hx; exact mem_takeWhile_sat _ _ _ hx
  · intro x hx; exact mem_takeWhile_sat _ _ _ (List.mem_reverse.mp hx)

theorem all_sp_of_strip_nil {T : Tables} {o : Out} (h : strip T o = []) : ∀ x ∈ o, isSp T x = true := by
  obtain ⟨a, b, ho, ha, hb⟩ := strip_decomp T o
  rw [h] at ho
  intro x hx
  rw [ho] at hx
  simp only [List.append_nil, List.mem_append] at hx
  rcases hx with hx | hx
  · exact ha x hx
  · exact hb x hx

theorem NoBr_of_all_sp {T : Tables} (h : SpOk T) {o : Out} (ho : ∀ x ∈ o, isSp T x = true) :
    NoBrS (render o) := by
  intro c hc
  simp only [render, List.mem_map] at hc
  obtain ⟨x, hx, rfl⟩ := hc
  have := isSp_ne h (ho x hx)
  exact ⟨this.1, this.2.1⟩

theorem cnt_all_sp {T : Tables} (h : SpOk T) {o : Out} (ho : ∀ x ∈ o, isSp T x = true)
    (c : Char) (hc : c = '{' ∨ c = '}' ∨ c = '\\') : cnt c o = 0 := by
  simp only [cnt]
  apply List.count_eq_zero.mpr
  intro hm
  simp only [render, List.mem_map] at hm
  obtain ⟨x, hx, hxc⟩ := hm
  have := isSp_ne h (ho x hx)
  rcases hc with rfl | rfl | rfl
  · exact this.1 hxc
  · exact this.2.1 hxc
  · exact this.2.2 hxc

theorem cnt_strip {T : Tables} (h : SpOk T) (o : Out) (c : Char) (hc : c = '{' ∨ c = '}' ∨ c = '\\') :
    cnt c (strip T o) = cnt c o := by
  obtain ⟨a, b, ho, ha, hb⟩ := strip_decomp T o
  conv => rhs; rw [ho]
  simp [cnt_all_sp h ha c hc, cnt_all_sp h hb c hc]

theorem Q_strip {T : Tables} (h : SpOk T) {o : Out} (hq : Q o) : Q (strip T o) := by
  simp only [Q] at *
  rw [cnt_strip h o _ (Or.inl rfl), cnt_strip h o _ (Or.inr (Or.inl rfl)), cnt_strip h o _ (Or.inr (Or.inr rfl))]
  exact hq

theorem walk_strip {T : Tables} (h : SpOk T) (o : Out) (d : Nat) :
    walk (render (strip T o)) d = walk (render o) d := by
  obtain ⟨a, b, ho, ha, hb⟩ := strip_decomp T o
  conv => rhs; rw [ho]
  rw [render_append, render_append, walk_append, walk_append, walk_neutral _ (NoBr_of_all_sp h ha)]
  simp only [Option.bind_some]
  cases hw : walk (render (strip T o)) d with
  | none => simp
  | some d' => simp [walk_neutral _ (NoBr_of_all_sp h hb)]

theorem Bal_strip {T : Tables} (h : SpOk T) {o : Out} {k k' : Nat} (hb : Bal o k k') :
    Bal (strip T o) k k' := by
  intro d; rw [walk_strip h]; exact hb d

end S2T.Omml
