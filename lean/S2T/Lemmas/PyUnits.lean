import S2T.Lemmas.PyPaths
import S2T.Py.Units
import S2T.Lemmas.Units
/-!
Lemmas about the units prelude (`S2T/Py/Units.lean`) and the shapes the translated `iterate_units` /
`get_full_text` methods take after `simp`: `"\n".join` is the model's `joinNl`, a `for … yield` loop is a `map`,
`enumerate(xs, start=k)` numbers like the model's `enumUnits`, the proof-carrying accessors compute what their
hypothesis promises, the `while … pop()` recursion is the model's `popStack`, the group-by-page loop of
`RtfContent` is a `filter`.  Everything in the namespace `S2T.Py.Units`.  Core Lean only.
-/
namespace S2T.Py.Units
open S2T.Py S2T.Units

/-- what the property statement observes of one unit (the model's `DUnit` without its book-keeping `lines`);
numbers are Python ints -/
structure UView where
  number : Int
  text : Str
  path : List Str := []
  level : Option Int := none
  nImages : Nat := 0
  nTables : Nat := 0
  deriving DecidableEq, Repr

/-- the view of a unit of the hand model -/
def viewD (d : DUnit) : UView :=
  { number := (d.number : Int), text := d.text, path := d.path, level := d.level, nImages := d.nImages, nTables := d.nTables }

@[simp] theorem nl_toList : "\n".toList = ['\n'] := by decide
@[simp] theorem empty_toList : "".toList = ([] : List Char) := by decide

/-- `"\n".join(xs)` of the prelude is the model's `joinNl` -/
@[simp] theorem strJoin_nl (l : List Str) : strJoin ['\n'] l = joinNl l := by
  induction l with
  | nil => rfl
  | cons s t ih =>
    cases t with
    | nil => simp [strJoin, joinNl]
    | cons t1 t2 =>
      simp only [strJoin, ih]
      simp [joinNl, List.intercalate]

/-! ## the proof-carrying accessors compute what their hypothesis promises -/
@[simp] theorem getT_some {α} [Truthy α] (a : α) (h) : getT (some a) h = a := rfl
@[simp] theorem getS_some {α} (a : α) (h) : getS (some a) h = a := rfl
theorem getS_of_eq {α} (o : Option α) (a : α) (e : o = some a) (h) : getS o h = a := by subst e; rfl
@[simp] theorem getN_some {α} (a : α) (h) : getN (some a) h = a := rfl
@[simp] theorem getNT_some {α} [Truthy α] (a : α) (h) : getNT (some a) h = a := rfl
@[simp] theorem firstNE_cons {α} (a : α) (l : List α) (h) : firstNE (a :: l) h = a := rfl
@[simp] theorem firstNT_cons {α} (a : α) (l : List α) (h) : firstNT (a :: l) h = a := rfl
@[simp] theorem lastNE_eq {α} (l : List α) (h) : lastNE l h = l.getLast (by intro e; subst e; simp [truthy] at h) := rfl
@[simp] theorem lastNT_eq {α} (l : List α) (h) : lastNT l h = l.getLast (by intro e; subst e; simp [truthy] at h) := rfl
@[simp] theorem popNE_eq {α} (l : List α) (h) : popNE l h = l.dropLast := rfl
@[simp] theorem truthy_str (s : Str) : truthy s = !s.isEmpty := rfl
theorem isEmpty_eq_decide {α} (l : List α) : l.isEmpty = decide (l = []) := by cases l <;> simp
@[simp] theorem orD_none {α} [Truthy α] (d : α) : orD none d = d := rfl
@[simp] theorem orD_some {α} [Truthy α] (a d : α) : orD (some a) d = if truthy a then a else d := rfl

/-- the shape `simp` gives a `for x in xs: yield g x` loop -/
@[simp] theorem flatten_map_singleton {α β} (g : α → β) (l : List α) : (l.map (fun x => [g x])).flatten = l.map g := by
  induction l with
  | nil => rfl
  | cons x r ih => simp [ih]

/-! ## loops that only append to a list (`for x in xs: if c: parts.append(e)` …), whatever the shape of the body -/

/-- the state a loop body hands on -/
def stepVal {β} : ForInStep β → β
  | .yield b => b
  | .done b => b
@[simp] theorem stepVal_yield {β} (b : β) : stepVal (ForInStep.yield b) = b := rfl
@[simp] theorem stepVal_pure_yield {β} (b : β) : stepVal (pure (ForInStep.yield b) : Id (ForInStep β)) = b := rfl

/-- if every iteration appends something to the list and never stops the loop — `f x acc = yield (acc ++ (what f x
appends to []))` — the loop appends the concatenation of what the iterations append -/
theorem forIn_id_append {α β} (xs : List α) (f : α → List β → Id (ForInStep (List β)))
    (hf : ∀ x acc, f x acc = pure (ForInStep.yield (acc ++ stepVal (f x [])))) (init : List β) :
    forIn xs init f = (pure (init ++ xs.flatMap (fun x => stepVal (f x []))) : Id (List β)) := by
  induction xs generalizing init with
  | nil => simp
  | cons x r ih =>
    rw [List.forIn_cons, hf]
    simp [ih]

/-- a loop (in a function that cannot raise) whose every iteration goes on — `f x acc = yield (…)`, whatever the
shape of the body — is the fold of what an iteration leaves -/
theorem forIn_id_step {α β} (xs : List α) (f : α → β → Id (ForInStep β))
    (hf : ∀ x acc, f x acc = pure (ForInStep.yield (stepVal (f x acc)))) (init : β) :
    forIn xs init f = (pure (xs.foldl (fun acc x => stepVal (f x acc)) init) : Id β) := by
  induction xs generalizing init with
  | nil => simp
  | cons x r ih =>
    rw [List.forIn_cons, hf]
    simp [ih]

/-- discharges the body hypothesis of `forIn_id_step`: split the body's `if`s / `match`es, every leaf yields -/
macro "py_yields" : tactic => `(tactic| (
  intro x acc
  (repeat' split) <;> first | rfl | (simp [S2T.Py.Units.stepVal, pure]; done) | fail))

theorem flatMap_ite_singleton {α β} (p : α → Prop) [DecidablePred p] (g : α → β) (l : List α) :
    l.flatMap (fun x => if p x then [g x] else []) = (l.filter (fun x => decide (p x))).map g := by
  induction l with
  | nil => rfl
  | cons x r ih => by_cases h : p x <;> simp [h, ih]

theorem flatMap_ite_singleton' {α β} (p : α → Prop) [DecidablePred p] (g : α → β) (l : List α) :
    l.flatMap (fun x => if p x then [] else [g x]) = (l.filter (fun x => !decide (p x))).map g := by
  induction l with
  | nil => rfl
  | cons x r ih => by_cases h : p x <;> simp [h, ih]

theorem flatMap_ite_singletons {α β} (p : α → Prop) [DecidablePred p] (g h : α → β) (l : List α) :
    l.flatMap (fun x => if p x then [g x] else [h x]) = l.map (fun x => if p x then g x else h x) := by
  induction l with
  | nil => rfl
  | cons x r ih => by_cases hp : p x <;> simp [hp, ih]

/-- discharges the body hypothesis of `forIn_id_append`: split the body's `if`s, every leaf appends -/
macro "py_appends" : tactic => `(tactic| (
  intro x acc
  (repeat' split) <;> first | rfl | (simp [S2T.Py.Units.stepVal, S2T.Py.listAppend, pure]; done) | fail))

/-! ## dictionaries; the group-by loop `for x in xs: k = key(x); if k not in d: d[k] = []; d[k].append(x)` -/
section dict
variable {κ β : Type} [BEq κ] [LawfulBEq κ]

theorem lookup_dSet (k k' : κ) (v : β) (d : List (κ × β)) :
    (dSet k v d).lookup k' = if k' == k then some v else d.lookup k' := by
  induction d with
  | nil =>
    by_cases h : (k' == k) = true <;> simp [dSet, List.lookup, h]
  | cons kv r ih =>
    obtain ⟨k0, v0⟩ := kv
    by_cases h0 : (k0 == k) = true
    · have e : k0 = k := by simpa using h0
      subst e
      by_cases h1 : (k' == k0) = true <;> simp [dSet, List.lookup, h1]
    · by_cases h1 : (k' == k0) = true
      · have e : k' = k0 := by simpa using h1
        subst e
        have h2 : (k' == k) = false := by simpa using h0
        simp [dSet, List.lookup, h0, h2]
      · simp [dSet, List.lookup, h0, h1, ih]

variable {α : Type}

/-- one iteration of the group-by loop -/
def groupStep (key : α → κ) (d : List (κ × List α)) (x : α) : List (κ × List α) :=
  dSet (key x) (dGetD d (key x) [] ++ [x]) d

theorem dGetD_groupStep (key : α → κ) (d : List (κ × List α)) (x : α) (k : κ) :
    dGetD (groupStep key d x) k [] = dGetD d k [] ++ (if key x == k then [x] else []) := by
  simp only [groupStep, dGetD, lookup_dSet]
  by_cases h : (k == key x) = true
  · have e : k = key x := by simpa using h
    subst e
    simp
  · have h' : (key x == k) = false := by
      cases hh : key x == k
      · rfl
      · have e : key x = k := by simpa using hh
        exact absurd (by rw [e]; simp) h
    rw [if_neg h, if_neg (by simp [h'])]
    simp

theorem dGetD_foldl_groupStep (key : α → κ) (xs : List α) (d : List (κ × List α)) (k : κ) :
    dGetD (xs.foldl (groupStep key) d) k [] = dGetD d k [] ++ xs.filter (fun x => key x == k) := by
  induction xs generalizing d with
  | nil => simp
  | cons x r ih =>
    rw [List.foldl_cons, ih, dGetD_groupStep]
    by_cases h : (key x == k) = true <;> simp [h, List.filter_cons]

/-- a `for` loop whose body (whatever its shape) is `groupStep` never raises and is the fold of `groupStep` -/
theorem forIn_groupBy (key : α → κ) (f : α → List (κ × List α) → M (ForInStep (List (κ × List α))))
    (hf : ∀ x d, f x d = Except.ok (ForInStep.yield (groupStep key d x))) (xs : List α) (d : List (κ × List α)) :
    forIn xs d f = Except.ok (xs.foldl (groupStep key) d) := by
  induction xs generalizing d with
  | nil => rfl
  | cons x r ih => simp [List.forIn_cons, hf, ih]

/-- after `if k not in d: d[k] = []` the lookup `d[k]` succeeds and gives `d.get(k, [])` of the dict before -/
theorem group_body_lookup (key : κ) (d : List (κ × List α)) :
    dGetItem (if (!dContains d key) = true then dSet key [] d else d) key = Except.ok (dGetD d key []) := by
  unfold dContains dGetItem dGetD
  cases hl : d.lookup key with
  | none => simp [lookup_dSet]
  | some v => simp [hl]

/-- … and storing the extended list back is `groupStep` -/
theorem group_body_set (key : κ) (d : List (κ × List α)) (l : List α) :
    dSet key l (if (!dContains d key) = true then dSet key [] d else d) = dSet key l d := by
  unfold dContains
  cases hl : d.lookup key with
  | some v => simp
  | none =>
    simp
    induction d with
    | nil => simp [dSet]
    | cons kv r ih =>
      obtain ⟨k0, v0⟩ := kv
      by_cases h0 : (k0 == key) = true
      · have e : k0 = key := by simpa using h0
        subst e
        simp [List.lookup] at hl
      · have : (key == k0) = false := by
          cases hh : key == k0
          · rfl
          · have e : key = k0 := by simpa using hh
            exact absurd (by rw [e]; simp) h0
        simp only [List.lookup, this] at hl
        simp [dSet, h0, ih hl]

theorem dGetItem_of_contains (key : κ) (d : List (κ × List α)) (h : dContains d key = true) :
    dGetItem d key = Except.ok (dGetD d key []) := by
  unfold dContains at h
  unfold dGetItem dGetD
  cases hl : d.lookup key with
  | none => simp [hl] at h
  | some v => simp
theorem dGetItem_fresh (key : κ) (d : List (κ × List α)) : dGetItem (dSet key ([] : List α) d) key = Except.ok [] := by
  simp [dGetItem, lookup_dSet]
theorem dGetD_of_not_contains (key : κ) (d : List (κ × List α)) (h : dContains d key = false) : dGetD d key [] = [] := by
  unfold dContains at h
  unfold dGetD
  cases hl : d.lookup key with
  | none => rfl
  | some v => simp [hl] at h
theorem dSet_dSet_fresh (key : κ) (d : List (κ × List α)) (l : List α) (h : dContains d key = false) :
    dSet key l (dSet key [] d) = dSet key l d := by
  have := group_body_set key d l
  simpa [h] using this

/-- discharges the body hypothesis of `forIn_groupBy` -/
macro "py_group" : tactic => `(tactic| (
  intro x d
  first
    | ((try simp only [])
       split <;> rename_i h <;>
         simp_all [S2T.Py.Units.groupStep, S2T.Py.Units.dGetItem_of_contains, S2T.Py.Units.dGetItem_fresh,
           S2T.Py.Units.dGetD_of_not_contains, S2T.Py.Units.dSet_dSet_fresh] <;> done)
    | fail))

end dict

/-- `x.page_number or 1` of the prelude is the model's `pageOr1` -/
theorem orD_one_eq_pageOr1 (o : Option Int) : orD o 1 = pageOr1 o := by
  cases o with
  | none => rfl
  | some n => simp [orD, pageOr1, truthy]

/-- what the group-by loop leaves under page `k` has the model's `countOnPage` many elements -/
theorem filter_page_length {α} (pn : α → Option Int) (l : List α) (k : Nat) :
    (l.filter (fun x => orD (pn x) 1 == (k : Int))).length = countOnPage (l.map pn) k := by
  induction l with
  | nil => rfl
  | cons x r ih =>
    simp only [countOnPage, List.map_cons, List.filter_cons, orD_one_eq_pageOr1] at ih ⊢
    by_cases h : pageOr1 (pn x) = (k : Int)
    · simp [h, ih]
    · simp [h, ih]

/-- a `for x in xs: yield g x` loop inside a function that can raise (before the loop) -/
@[simp] theorem forIn_ok_yield_map {α β} (xs : List α) (g : α → β) (init : List β) :
    forIn xs init (fun x acc => (Except.ok (ForInStep.yield (acc ++ [g x])) : M _)) = Except.ok (init ++ xs.map g) := by
  induction xs generalizing init with
  | nil => simp
  | cons x r ih => simp [List.forIn_cons, ih]

/-- `for u in units: yield u` -/
@[simp] theorem forIn_yield_all {α} (xs init : List α) :
    forIn xs init (fun x acc => (pure (ForInStep.yield (acc ++ [x])) : M _)) = Except.ok (init ++ xs) := by
  induction xs generalizing init with
  | nil => simp
  | cons x r ih => simp [List.forIn_cons, ih]

@[simp] theorem map_ok {α β} (f : α → β) (a : α) : f <$> (Except.ok a : M α) = Except.ok (f a) := rfl

theorem filter_page_length_one {α} (pn : α → Option Int) (l : List α) :
    (l.filter (fun x => orD (pn x) 1 == 1)).length = countOnPage (l.map pn) 1 := by
  simpa using filter_page_length pn l 1

theorem map_eq_ok {α β} (f : α → β) (x : M α) (b : β) (h : f <$> x = Except.ok b) : ∃ a, x = Except.ok a ∧ f a = b := by
  cases x with
  | error e => cases h
  | ok a => exact ⟨a, rfl, by cases h; rfl⟩

/-- `xs[i]` with `0 ≤ i < len(xs)` does not raise; it is the head of `xs[i:]` -/
theorem listGetItem_ok {α} (xs : List α) (i : Int) (h0 : 0 ≤ i) (h1 : i < len xs) :
    ∃ a, listGetItem xs i = Except.ok a ∧ xs.drop i.toNat = a :: xs.drop (i.toNat + 1) := by
  unfold listGetItem
  have hn : ¬ i < 0 := by omega
  simp only [hn, if_false]
  have hlt : i.toNat < xs.length := by simp only [len] at h1; omega
  rw [List.getElem?_eq_getElem hlt]
  exact ⟨_, rfl, List.drop_eq_getElem_cons hlt⟩

/-! ## references into a local list: the search loop `for u in us: if c(u): r = u; break`, valid positions -/

/-- what the search loop leaves in `r` (a position that is certainly inside the list) -/
def findRes {α} (f : α × Nat → Option Nat → M (ForInStep (Option Nat))) (us : List α) : Option Nat :=
  match forIn (withIndex us) none f with
  | Except.ok (some i) => if i < us.length then some i else none
  | _ => none

theorem findRes_lt {α} (f : α × Nat → Option Nat → M (ForInStep (Option Nat))) (us : List α) (r : Option Nat)
    (h : findRes f us = r) : ∀ i, r = some i → i < us.length := by
  intro i hi
  subst hi
  unfold findRes at h
  split at h
  · split at h
    · cases h; assumption
    · cases h
  · cases h

theorem forIn_find_aux {α} (f : α × Nat → Option Nat → M (ForInStep (Option Nat)))
    (hf : ∀ x, f x none = Except.ok (ForInStep.done (some x.2)) ∨ f x none = Except.ok (ForInStep.yield none))
    (l : List (α × Nat)) (n : Nat) (hl : ∀ q ∈ l, q.2 < n) :
    ∃ r, forIn l none f = Except.ok r ∧ ∀ i, r = some i → i < n := by
  induction l with
  | nil => exact ⟨none, rfl, by intro i hi; cases hi⟩
  | cons q t ih =>
    rcases hf q with h | h
    · exact ⟨some q.2, by simp [List.forIn_cons, h], by intro i hi; cases hi; exact hl q (by simp)⟩
    · obtain ⟨r, hr, hlt⟩ := ih (fun q' hq' => hl q' (by simp [hq']))
      exact ⟨r, by simp [List.forIn_cons, h, hr], hlt⟩

theorem mem_zipIdx_lt {α} (us : List α) (q : α × Nat) (h : q ∈ us.zipIdx) : q.2 < us.length := by
  have := List.mem_zipIdx h
  omega

/-- a search loop (whatever the shape of its body: every iteration either stops with the current position or goes
on with `None`) never raises and leaves `findRes` -/
theorem forIn_find_eq {α} (f : α × Nat → Option Nat → M (ForInStep (Option Nat)))
    (hf : ∀ x, f x none = Except.ok (ForInStep.done (some x.2)) ∨ f x none = Except.ok (ForInStep.yield none))
    (us : List α) : forIn (withIndex us) none f = Except.ok (findRes f us) := by
  obtain ⟨r, hr, hlt⟩ := forIn_find_aux f hf (withIndex us) us.length (fun q hq => mem_zipIdx_lt us q hq)
  unfold findRes
  rw [hr]
  cases r with
  | none => rfl
  | some i => simp [hlt i rfl]

/-- discharges the body hypothesis of `forIn_find_eq` -/
macro "py_find" : tactic => `(tactic| (
  intro x
  (repeat' split) <;> first | (left; exact rfl) | (right; exact rfl) | (left; simp; done) | (right; simp; done) | fail))

theorem refLast_ok {α} (us : List α) (h : us ≠ []) : refLast us = Except.ok (us.length - 1) := by
  cases us with
  | nil => exact absurd rfl h
  | cons a l => rfl
theorem refFirst_ok {α} (us : List α) (h : us ≠ []) : refFirst us = Except.ok 0 := by
  cases us with
  | nil => exact absurd rfl h
  | cons a l => rfl
theorem deref_ok {α} (us : List α) (i : Nat) (h : i < us.length) : deref us i = Except.ok us[i] := by
  simp [deref, List.getElem?_eq_getElem h]
theorem refModify_ok {α} (us : List α) (i : Nat) (f : α → α) (h : i < us.length) :
    refModify us i f = Except.ok (us.modify i f) := by
  simp [refModify, h]
theorem refFindLast_lt {α} (p : α → Bool) (us : List α) (i : Nat) (h : refFindLast p us = some i) : i < us.length := by
  unfold refFindLast at h
  cases hf : us.zipIdx.reverse.find? (fun q => p q.1) with
  | none => simp [hf] at h
  | some q =>
    simp [hf] at h
    have hm := List.mem_of_find?_eq_some hf
    rw [List.mem_reverse] at hm
    have := mem_zipIdx_lt us q hm
    omega

theorem refFindLast_getD_lt {α} (p : α → Bool) (us : List α) (h : 0 < us.length) :
    (refFindLast p us).getD (us.length - 1) < us.length := by
  cases hr : refFindLast p us with
  | none => simp; omega
  | some i => simpa using refFindLast_lt p us i hr

/-- an in-place change of one element that the view `v` does not see -/
theorem map_modify_view {α β} (v : α → β) (f : α → α) (hv : ∀ u, v (f u) = v u) (us : List α) (i : Nat) :
    (us.modify i f).map v = us.map v := by
  induction us generalizing i with
  | nil => simp
  | cons a l ih =>
    cases i with
    | zero => simp [hv]
    | succ k => simp [ih]

/-! ## the attachment phase of the heading formats: in-place changes of units that the view does not see -/

/-- what an attachment loop keeps: the views of the units, and that there is at least one -/
def attachInv {α β} (v : α → β) (V : List β) (us : List α) : Prop := us.map v = V ∧ us ≠ []

theorem attachInv_pos {α β} (v : α → β) (V : List β) (us : List α) (hI : attachInv v V us) : 0 < us.length :=
  List.length_pos_iff.mpr hI.2

theorem attach_modify {α β} (v : α → β) (V : List β) (us : List α) (i : Nat) (f : α → α) (hI : attachInv v V us)
    (hi : i < us.length) (hv : ∀ u, v (f u) = v u) :
    ∃ us', refModify us i f = Except.ok us' ∧ attachInv v V us' := by
  refine ⟨us.modify i f, refModify_ok us i f hi, ?_, ?_⟩
  · rw [map_modify_view v f hv]; exact hI.1
  · intro h
    have := congrArg List.length h
    simp at this
    exact hI.2 (by simpa using this)

/-- `r.attr.append(x)`: one iteration that ends with it keeps the invariant -/
theorem attach_step {α β} (v : α → β) (V : List β) (us : List α) (i : Nat) (f : α → α) (hI : attachInv v V us)
    (hi : i < us.length) (hv : ∀ u, v (f u) = v u) :
    ∃ s', (refModify us i f >>= fun a => pure (ForInStep.yield a) : M _) = Except.ok (ForInStep.yield s') ∧ attachInv v V s' := by
  obtain ⟨us', h1, h2⟩ := attach_modify v V us i f hI hi hv
  exact ⟨us', by rw [h1]; rfl, h2⟩

/-- `r.attr.append(g(r.other))`: the element is read, then changed -/
theorem attach_step_deref {α β} (v : α → β) (V : List β) (us : List α) (j : Nat) (F : α → α → α)
    (hI : attachInv v V us) (hj : j < us.length) (hv : ∀ d u, v (F d u) = v u) :
    ∃ s', (derefOpt us (some j) >>= fun d => refModifyOpt us (some j) (F d) >>= fun a => pure (ForInStep.yield a) : M _)
        = Except.ok (ForInStep.yield s') ∧ attachInv v V s' := by
  simp only [derefOpt, deref_ok us j hj, M.ok_bind', refModifyOpt]
  exact attach_step v V us j _ hI hj (hv _)

/-! ## simulation of a loop with state by a fold of the model -/

/-- if every iteration of the body (whatever its shape) goes on without raising and keeps the relation `R` between
the loop state and the model state stepped by `g`, the loop ends without raising in a state related to the fold -/
theorem forIn_sim {α σ μ : Type} (R : σ → μ → Prop) (g : μ → α → μ) (f : α → σ → M (ForInStep σ))
    (hstep : ∀ x s m, R s m → ∃ s', f x s = Except.ok (ForInStep.yield s') ∧ R s' (g m x))
    (xs : List α) (s0 : σ) (m0 : μ) (h0 : R s0 m0) :
    ∃ s', forIn xs s0 f = Except.ok s' ∧ R s' (xs.foldl g m0) := by
  induction xs generalizing s0 m0 with
  | nil => exact ⟨s0, rfl, h0⟩
  | cons x r ih =>
    obtain ⟨s1, h1, hR1⟩ := hstep x s0 m0 h0
    obtain ⟨s2, h2, hR2⟩ := ih s1 (g m0 x) hR1
    exact ⟨s2, by simp [List.forIn_cons, h1, h2], hR2⟩

/-- the same, in front of the rest of the function -/
theorem forIn_sim_bind {α σ μ β : Type} (R : σ → μ → Prop) (g : μ → α → μ) (m0 : μ) (xs : List α) (s0 : σ)
    (f : α → σ → M (ForInStep σ)) (k : σ → M β) (rhs : M β) (h0 : R s0 m0)
    (hstep : ∀ x s m, R s m → ∃ s', f x s = Except.ok (ForInStep.yield s') ∧ R s' (g m x))
    (hk : ∀ s', R s' (xs.foldl g m0) → k s' = rhs) :
    (forIn xs s0 f >>= k) = rhs := by
  obtain ⟨s', h1, hR⟩ := forIn_sim R g f hstep xs s0 m0 h0
  rw [h1]
  exact hk s' hR

theorem enumerateFrom_map {α β} (m : α → β) (k : Int) (xs : List α) :
    enumerateFrom k (xs.map m) = (enumerateFrom k xs).map (fun p => (p.1, m p.2)) := by
  induction xs generalizing k with
  | nil => rfl
  | cons x r ih => simp [enumerateFrom, ih]

theorem enumerateFrom_length {α} (k : Int) (xs : List α) : (enumerateFrom k xs).length = xs.length := by
  induction xs generalizing k with
  | nil => rfl
  | cons x r ih => simp [enumerateFrom, ih]

/-- `enumerate(xs, start=k)` numbers like the model's `enumUnits`: if the unit built from `(k, x)` is viewed like
the model's unit for `(k, m x)` — for every `k`, `x` — then the whole lists are -/
theorem map_enumerateFrom_enumUnits {α β} (F : Int × α → UView) (m : α → β) (g : Nat → β → DUnit)
    (h : ∀ (k : Nat) x, F ((k : Int), x) = viewD (g k (m x))) (k : Nat) (k' : Int) (hk : k' = (k : Int)) (xs : List α) :
    (enumerateFrom k' xs).map F = (enumUnits g k (xs.map m)).map viewD := by
  subst hk
  induction xs generalizing k with
  | nil => rfl
  | cons x r ih =>
    have := ih (k + 1)
    rw [Int.natCast_add, Int.natCast_one] at this
    simp [enumerateFrom, enumUnits, h, this]

theorem map_enumerateFrom_enumUnits' {α} (F : Int × α → UView) (g : Nat → α → DUnit)
    (h : ∀ (k : Nat) x, F ((k : Int), x) = viewD (g k x)) (k : Nat) (k' : Int) (hk : k' = (k : Int)) (xs : List α) :
    (enumerateFrom k' xs).map F = (enumUnits g k xs).map viewD := by
  simpa using map_enumerateFrom_enumUnits F id g h k k' hk xs

end S2T.Py.Units
