import S2T.Lemmas.Py
import S2T.Py.Bytes
/-!
Lemmas about the list / bytes / index / slice / range primitives of `S2T/Py/Bytes.lean`, and the generic loop
lemmas used by `Props/C20_Src.lean`.  Core Lean only.

Scheme (same as `S2T/Lemmas/Py.lean`): a translated loop `for x in l: BODY` is `forIn l s f`; `forIn_fold`
says "if `f`, whatever its shape, is the model's step `g` on every state satisfying the invariant `P`, then the loop is
`l.foldl g s`".  The body obligation is closed by `simp` with the conditional rewrite rules below, whose side
conditions (`i < l.length`, …) are discharged by `py_side` (`omega` over the hypotheses in scope).
-/
set_option linter.unusedSimpArgs false
namespace S2T.Py

instance {α} [DecidableEq α] : DecidableEq (M α)
  | .ok a, .ok b => if h : a = b then isTrue (by rw [h]) else isFalse (by intro h'; cases h'; exact h rfl)
  | .error a, .error b => if h : a = b then isTrue (by rw [h]) else isFalse (by intro h'; cases h'; exact h rfl)
  | .ok _, .error _ => isFalse (by intro h; cases h)
  | .error _, .ok _ => isFalse (by intro h; cases h)

@[simp] theorem M.map_ok {α β} (f : α → β) (a : α) : f <$> (Except.ok a : M α) = Except.ok (f a) := rfl
@[simp] theorem M.map_error {α β} (f : α → β) (e : Exc) : f <$> (Except.error e : M α) = Except.error e := rfl

/-! ## indexing -/

theorem normIndex_nonneg {n : Nat} {z : Int} (h0 : 0 ≤ z) (h : z.toNat < n) : normIndex n z = some z.toNat := by
  simp [normIndex, h0, h]

theorem normIndex_nonneg_ge {n : Nat} {z : Int} (h0 : 0 ≤ z) (h : ¬ z.toNat < n) : normIndex n z = none := by
  simp [normIndex, h0, h]

theorem getItem_nat (l : List Nat) {z : Int} (h0 : 0 ≤ z) (h : z.toNat < l.length) :
    getItem l z = Except.ok (l.getD z.toNat 0) := by
  simp [getItem, normIndex_nonneg h0 h, List.getD, List.getElem?_eq_getElem h]

theorem getItem_list {α} (l : List (List α)) {z : Int} (h0 : 0 ≤ z) (h : z.toNat < l.length) :
    getItem l z = Except.ok (l.getD z.toNat []) := by
  simp [getItem, normIndex_nonneg h0 h, List.getD, List.getElem?_eq_getElem h]

theorem getItem_ge {α} (l : List α) {z : Int} (h0 : 0 ≤ z) (h : ¬ z.toNat < l.length) :
    getItem l z = Except.error indexError := by
  simp [getItem, normIndex_nonneg_ge h0 h]

theorem setItem_nat {α} (l : List α) {z : Int} (v : α) (h0 : 0 ≤ z) (h : z.toNat < l.length) :
    setItem l z v = Except.ok (l.set z.toNat v) := by
  simp [setItem, normIndex_nonneg h0 h]

theorem setItem_ge {α} (l : List α) {z : Int} (v : α) (h0 : 0 ≤ z) (h : ¬ z.toNat < l.length) :
    setItem l z v = Except.error indexError := by
  simp [setItem, normIndex_nonneg_ge h0 h]

theorem getItem_natCast (l : List Nat) {i : Nat} (h : i < l.length) : getItem l (i : Int) = Except.ok (l.getD i 0) :=
  getItem_nat l (by omega) (by simpa using h)

theorem getItem_list_natCast {α} (l : List (List α)) {i : Nat} (h : i < l.length) :
    getItem l (i : Int) = Except.ok (l.getD i []) :=
  getItem_list l (by omega) (by simpa using h)

theorem setItem_natCast {α} (l : List α) {i : Nat} (v : α) (h : i < l.length) :
    setItem l (i : Int) v = Except.ok (l.set i v) := by
  have := setItem_nat l (z := (i : Int)) v (by omega) (by simpa using h)
  simpa using this

/-! ## slices -/

theorem slice_nat {α} (l : List α) (a b : Nat) :
    slice l (some (a : Int)) (some (b : Int)) = (l.drop a).take (b - a) := by
  simp only [slice, sliceLo, sliceHi, clampIndex]
  have h1 : ¬ ((a : Int) < 0) := by omega
  have h2 : ¬ ((b : Int) < 0) := by omega
  simp only [h1, h2, if_false, Int.toNat_natCast]
  by_cases ha : a ≤ l.length
  · rw [Nat.min_eq_left ha]
    by_cases hb : b ≤ l.length
    · rw [Nat.min_eq_left hb]
    · rw [Nat.min_eq_right (show l.length ≤ b by omega)]
      rw [List.take_of_length_le (by simp), List.take_of_length_le (by simp; omega)]
  · rw [Nat.min_eq_right (show l.length ≤ a by omega), List.drop_of_length_le (Nat.le_refl _),
      List.drop_of_length_le (show l.length ≤ a by omega)]
    simp

theorem slice_from_nat {α} (l : List α) (a : Nat) : slice l (some (a : Int)) none = l.drop a := by
  simp only [slice, sliceLo, sliceHi, clampIndex]
  have h1 : ¬ ((a : Int) < 0) := by omega
  simp only [h1, if_false, Int.toNat_natCast]
  by_cases ha : a ≤ l.length
  · rw [Nat.min_eq_left ha, List.take_of_length_le (by simp)]
  · rw [Nat.min_eq_right (show l.length ≤ a by omega), List.drop_of_length_le (Nat.le_refl _),
      List.drop_of_length_le (show l.length ≤ a by omega)]
    simp

theorem slice_to_nat {α} (l : List α) (b : Nat) : slice l none (some (b : Int)) = l.take b := by
  simp only [slice, sliceLo, sliceHi, clampIndex]
  have h2 : ¬ ((b : Int) < 0) := by omega
  simp only [h2, if_false, Int.toNat_natCast, List.drop_zero, Nat.sub_zero]
  by_cases hb : b ≤ l.length
  · rw [Nat.min_eq_left hb]
  · rw [Nat.min_eq_right (by omega), List.take_of_length_le (by simp), List.take_of_length_le (by omega)]

@[simp] theorem slice_all {α} (l : List α) : slice l none none = l := by
  simp [slice, sliceLo, sliceHi]

/-- `l[-p:]` for `0 < p` -/
theorem slice_from_neg {α} (l : List α) {p : Nat} (hp : 0 < p) :
    slice l (some (-(p : Int))) none = l.drop (l.length - p) := by
  simp only [slice, sliceLo, sliceHi, clampIndex]
  have h1 : (-(p : Int) < 0) := by omega
  simp only [h1, if_true]
  have : (-(p : Int) + (l.length : Int)).toNat = l.length - p := by omega
  rw [this, List.take_of_length_le (by simp)]

/-- `l[:-p]` for `0 < p` -/
theorem slice_to_neg {α} (l : List α) {p : Nat} (hp : 0 < p) :
    slice l none (some (-(p : Int))) = l.take (l.length - p) := by
  simp only [slice, sliceLo, sliceHi, clampIndex]
  have h1 : (-(p : Int) < 0) := by omega
  simp only [h1, if_true, List.drop_zero, Nat.sub_zero]
  have : (-(p : Int) + (l.length : Int)).toNat = l.length - p := by omega
  rw [this]

theorem take4_drop (l : List Nat) (i : Nat) (h : i + 4 ≤ l.length) :
    (l.drop i).take 4 = [l.getD i 0, l.getD (i + 1) 0, l.getD (i + 2) 0, l.getD (i + 3) 0] := by
  apply List.ext_getElem
  · simp; omega
  · intro n h1 h2
    simp at h2
    have : n = 0 ∨ n = 1 ∨ n = 2 ∨ n = 3 := by omega
    rcases this with rfl | rfl | rfl | rfl <;> simp [List.getD, List.getElem?_eq_getElem, h] <;>
      (rw [List.getElem?_eq_getElem (by omega)]; rfl)

/-! ## ranges -/

theorem rangeN_zero (n : Nat) : rangeN 0 n = List.range n := by simp [rangeN, List.range_eq_range']

/-! ## loops -/

/-- if the body is the model's step `g` on every state satisfying `P`, the loop is the fold -/
theorem forIn_fold {β σ} (P : σ → Prop) (g : σ → β → σ) (l : List β) (f : β → σ → M (ForInStep σ))
    (h : ∀ b ∈ l, ∀ s, P s → f b s = Except.ok (ForInStep.yield (g s b)) ∧ P (g s b)) (s : σ) (hs : P s) :
    forIn l s f = Except.ok (l.foldl g s) ∧ P (l.foldl g s) := by
  induction l generalizing s with
  | nil => exact ⟨rfl, hs⟩
  | cons b t ih =>
    obtain ⟨e, p⟩ := h b (List.mem_cons_self ..) s hs
    simp only [List.forIn_cons, e, List.foldl_cons]
    exact ih (fun b' hb' => h b' (List.mem_cons_of_mem _ hb')) _ p

/-- `[e for x in l]` with an element expression that may raise -/
theorem mapM_ok {α β} (g : α → β) (l : List α) (f : α → M β) (h : ∀ a ∈ l, f a = Except.ok (g a)) :
    l.mapM f = Except.ok (l.map g) := by
  induction l with
  | nil => rfl
  | cons a t ih =>
    simp only [List.mapM_cons, h a (List.mem_cons_self ..), ih (fun a' ha' => h a' (List.mem_cons_of_mem _ ha'))]
    rfl

/-- indexed version for `for i in range(a, a + n)`: the invariant may mention the index -/
theorem forIn_range'_fold {σ} (P : Nat → σ → Prop) (g : σ → Nat → σ) (f : Nat → σ → M (ForInStep σ)) :
    ∀ (n a : Nat) (s : σ), P a s →
    (∀ i s, a ≤ i → i < a + n → P i s → f i s = Except.ok (ForInStep.yield (g s i)) ∧ P (i + 1) (g s i)) →
    forIn (List.range' a n) s f = Except.ok ((List.range' a n).foldl g s) ∧ P (a + n) ((List.range' a n).foldl g s) := by
  intro n
  induction n with
  | zero => intro a s hs _; exact ⟨rfl, hs⟩
  | succ n ih =>
    intro a s hs h
    obtain ⟨e, p⟩ := h a s (Nat.le_refl _) (by omega) hs
    simp only [List.range'_succ, List.forIn_cons, e, List.foldl_cons]
    have := ih (a + 1) (g s a) p (fun i s' h1 h2 hp => h i s' (by omega) (by omega) hp)
    rw [show a + (n + 1) = a + 1 + n by omega]
    exact this

/-- a loop followed by the rest of the function (`k`): goal-directed forms of the two lemmas above -/
theorem forIn_range'_bind {σ β} (P : Nat → σ → Prop) (g : σ → Nat → σ) {f : Nat → σ → M (ForInStep σ)} {n a : Nat}
    {s : σ} {k : σ → M β} {r : M β} (h0 : P a s)
    (hstep : ∀ i s, a ≤ i → i < a + n → P i s → f i s = Except.ok (ForInStep.yield (g s i)) ∧ P (i + 1) (g s i))
    (hk : P (a + n) ((List.range' a n).foldl g s) → k ((List.range' a n).foldl g s) = r) :
    (forIn (List.range' a n) s f >>= k) = r := by
  obtain ⟨e, p⟩ := forIn_range'_fold P g f n a s h0 hstep
  rw [e]
  exact hk p

theorem forIn_bind {β σ γ} (P : σ → Prop) (g : σ → β → σ) {l : List β} {f : β → σ → M (ForInStep σ)}
    {s : σ} {k : σ → M γ} {r : M γ} (h0 : P s)
    (hstep : ∀ b ∈ l, ∀ s, P s → f b s = Except.ok (ForInStep.yield (g s b)) ∧ P (g s b))
    (hk : P (l.foldl g s) → k (l.foldl g s) = r) :
    (forIn l s f >>= k) = r := by
  obtain ⟨e, p⟩ := forIn_fold P g l f hstep s h0
  rw [e]
  exact hk p

/-- a loop whose body cannot raise and does not leave the loop -/
theorem forIn_pure_fold {β σ} (g : σ → β → σ) (l : List β) (s : σ) :
    forIn l s (fun b s => (Except.ok (ForInStep.yield (g s b)) : M (ForInStep σ))) = Except.ok (l.foldl g s) :=
  (forIn_fold (fun _ => True) g l _ (fun _ _ _ _ => ⟨rfl, trivial⟩) s trivial).1

theorem foldl_append_flatten {α} (ws : List (List α)) (kb : List α) : ws.foldl (· ++ ·) kb = kb ++ ws.flatten := by
  induction ws generalizing kb with
  | nil => simp
  | cons w t ih => simp [ih, List.append_assoc]

/-- `acc.append(h(x)) for x in l` -/
theorem foldl_append_map {α β} (h : α → β) (l : List α) (acc : List β) :
    l.foldl (fun a x => a ++ [h x]) acc = acc ++ l.map h := by
  induction l generalizing acc with
  | nil => simp
  | cons x t ih => simp [ih, List.append_assoc]

theorem map_zip_xor (a b : List Nat) :
    (List.zip a b).map (fun ((x, y) : Nat × Nat) => x ^^^ y) = List.zipWith (· ^^^ ·) a b := by
  induction a generalizing b with
  | nil => simp
  | cons x t ih => cases b with
    | nil => simp
    | cons y u => simp [ih]

theorem map_zip_xor' (a b : List Nat) :
    (List.zip a b).map (fun x => x.fst ^^^ x.snd) = List.zipWith (· ^^^ ·) a b := map_zip_xor a b

/-! ## arithmetic, bytes -/

theorem natMod_pos (a : Nat) {b : Nat} (h : 0 < b) : natMod a b = Except.ok (a % b) := by
  simp [natMod, Nat.ne_of_gt h]
theorem natFloorDiv_pos (a : Nat) {b : Nat} (h : 0 < b) : natFloorDiv a b = Except.ok (a / b) := by
  simp [natFloorDiv, Nat.ne_of_gt h]
theorem natMod_zero (a : Nat) : natMod a 0 = Except.error zeroDivisionError := by simp [natMod]

theorem bytesOfList_ok {l : List Nat} (h : ∀ b ∈ l, b < 256) : bytesOfList l = Except.ok l := by
  simp only [bytesOfList]
  rw [if_pos]
  · rfl
  · simpa using h

theorem bytesOfList_bad {l : List Nat} (h : ¬ ∀ b ∈ l, b < 256) : bytesOfList l = Except.error valueError := by
  simp only [bytesOfList]
  rw [if_neg]
  · rfl
  · simpa using h

/-! ## ranges -/

theorem rangeI_natCast (a b : Nat) : rangeI (a : Int) (b : Int) = (List.range' a (b - a)).map (fun (k : Nat) => (k : Int)) := by
  simp only [rangeI, Int.toNat_sub, List.range'_eq_map_range, List.map_map]
  apply List.map_congr_left
  intro k _
  simp

/-- `range(n, 0, -1)` = n, n-1, …, 1 -/
theorem rangeStep_down (z : Int) : rangeStep z 0 (-1) = ((List.range' 1 z.toNat).reverse).map (fun (k : Nat) => (k : Int)) := by
  have h1 : ¬ ((0 : Int) < -1) := by omega
  have h2 : ((-1 : Int) < 0) := by omega
  simp only [rangeStep, h1, h2, if_false, if_true]
  have e : ((z - 0 + - -1 - 1) / - -1).toNat = z.toNat := by
    have : (z - 0 + - -1 - 1) / - -1 = z := by
      have : (z - 0 + - -1 - 1) = z := by omega
      rw [this]; simp
    rw [this]
  rw [e]
  apply List.ext_getElem
  · simp
  · intro n h1 h2
    simp at h1
    simp [List.getElem_reverse, List.getElem_range']
    omega

theorem mem_rangeN {a b i : Nat} : i ∈ rangeN a b ↔ a ≤ i ∧ i < b := by
  simp only [rangeN, List.mem_range'_1]; omega

end S2T.Py
