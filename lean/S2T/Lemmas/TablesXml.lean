import S2T.Lemmas.Tables
/-! C13: the XML table walkers on rendered documents (DOCX, ODT, ODP, PPTX). -/
namespace S2T.Tables
open S2T.HtmlSkip (Str)
set_option linter.unusedSectionVars false

theorem joinWith_map_congr {α : Type} (sep : Str) (f g : α → Str) (l : List α) (h : ∀ a ∈ l, f a = g a) :
    joinWith sep (l.map f) = joinWith sep (l.map g) := by
  rw [List.map_congr_left h]

/-! ## DOCX -/

/-- everything the DOCX theorem needs from the tag values (decidable; re-decided on the generated tags) -/
def DocxTags.ok (T : DocxTags) : Bool :=
  (docxXT T docxNoise).ok
  && ![T.tbl, T.tr, T.tc, T.p].contains T.t
  && ![T.tbl, T.tr, T.tc, T.p, T.t].contains (wNs ++ "pPr".toList)
  && ![T.tbl, T.tr, T.tc, T.p, T.t].contains (wNs ++ "r".toList)
  && ![T.tbl, T.tr, T.tc, T.p, T.t].contains (wNs ++ "sectPr".toList)

section docx
variable (T : DocxTags) (hT : T.ok = true)
include hT

theorem docx_parts : (docxXT T docxNoise).ok = true ∧ T.t ≠ T.tbl ∧ T.t ≠ T.tr ∧ T.t ≠ T.tc ∧ T.t ≠ T.p
    ∧ (∀ s ∈ [wNs ++ "pPr".toList, wNs ++ "r".toList, wNs ++ "sectPr".toList],
        s ≠ T.tbl ∧ s ≠ T.tr ∧ s ≠ T.tc ∧ s ≠ T.p ∧ s ≠ T.t) := by
  have h := hT
  simp only [DocxTags.ok, Bool.and_eq_true, Bool.not_eq_true', List.contains_eq_mem, List.mem_cons,
    List.not_mem_nil, or_false, decide_eq_false_iff_not, not_or] at h
  obtain ⟨⟨⟨⟨h1, h2⟩, h3⟩, h4⟩, h5⟩ := h
  refine ⟨h1, h2.1, h2.2.1, h2.2.2.1, h2.2.2.2, ?_⟩
  intro s hs
  simp only [List.mem_cons, List.not_mem_nil, or_false] at hs
  rcases hs with rfl | rfl | rfl
  · exact h3
  · exact h4
  · exact h5

theorem docx_paraOk (runs : DocxPara) : paraOk (docxXT T docxNoise) (docxParaNode T runs) = true := by
  obtain ⟨_, t1, t2, t3, t4, hs⟩ := docx_parts T hT
  have hp := hs (wNs ++ "pPr".toList) (by simp)
  have hr := hs (wNs ++ "r".toList) (by simp)
  simp only [paraOk, docxParaNode, elem_tag, elem_kids, docxXT, beq_self_eq_true, Bool.true_and,
    List.all_eq_true, descL_eq]
  intro m hm
  simp only [List.flatMap_cons, List.mem_append, List.mem_flatMap, List.mem_map] at hm
  have key : ∀ s, s ≠ T.tbl → s ≠ T.tr → s ≠ T.tc → s ≠ T.p →
      (!({ tbl := T.tbl, tr := T.tr, tc := T.tc, p := T.p, wrapHdr := none, wrapBody := none,
            tblPre := docxNoise.1, trPre := docxNoise.2.1, tcPre := docxNoise.2.2 } : XT).S.contains s) = true := by
    intro s a b c d
    simp [XT.S, a, b, c, d]
  rcases hm with hm | ⟨n, ⟨s, _, rfl⟩, hm⟩
  · simp [elem] at hm
    subst hm
    exact key _ hp.1 hp.2.1 hp.2.2.1 hp.2.2.2.1
  · simp [elem] at hm
    rcases hm with rfl | rfl
    · exact key _ hr.1 hr.2.1 hr.2.2.1 hr.2.2.2.1
    · exact key _ t1 t2 t3 t4

theorem docx_collect_para (runs : DocxPara) : docxCollectText T (docxParaNode T runs) = runs.flatMap id := by
  obtain ⟨_, _, _, _, t4, hs⟩ := docx_parts T hT
  have hp := hs (wNs ++ "pPr".toList) (by simp)
  have hr := hs (wNs ++ "r".toList) (by simp)
  unfold docxCollectText docxParaNode
  rw [iter_elem]
  have e1 : (T.p == T.t) = false := by simp; exact fun h => t4 h.symm
  have e2 : (wNs ++ "pPr".toList == T.t) = false := by simp; exact hp.2.2.2.2
  have e3 : (wNs ++ "r".toList == T.t) = false := by simp; exact hr.2.2.2.2
  simp only [e1, Bool.false_eq_true, if_false, List.nil_append, List.flatMap_cons, iter_elem, e2,
    List.flatMap_nil, List.flatMap_map, e3, iter_mk, beq_self_eq_true, if_true, List.append_nil]
  induction runs with
  | nil => rfl
  | cons s r ih => simp [Node.text, ih]

theorem docx_cellText (cell : List (Blk DocxPara)) :
    docxCellText T (tcNode (docxXT T docxNoise) (cell.map (Blk.render (docxXT T docxNoise) (docxParaNode T))))
      = docxCellSpec (cellParas cell) := by
  obtain ⟨hX, _⟩ := docx_parts T hT
  unfold docxCellText docxCellSpec
  have := iter_p_cell (docxXT T docxNoise) (docxParaNode T) hX (docx_paraOk T hT) cell
  have e : (docxXT T docxNoise).p = T.p := rfl
  rw [e] at this
  rw [this, List.map_map]
  apply joinWith_map_congr
  intro runs _
  exact docx_collect_para T hT runs

theorem docx_table (h : Nat) (rows : Rows DocxPara) :
    docxTable T (Blk.render (docxXT T docxNoise) (docxParaNode T) (.tbl h rows)) = gridOf docxCellSpec rows := by
  obtain ⟨hX, _⟩ := docx_parts T hT
  have hpn := docx_paraOk T hT
  rw [render_tbl _ _ hX hpn]
  unfold docxTable
  have e1 : T.tr = (docxXT T docxNoise).tr := rfl
  have e2 : T.tc = (docxXT T docxNoise).tc := rfl
  rw [e1, findall_tr_nowrap _ _ hX hpn rfl rfl _ _ (by intro r hr; simp only [List.mem_map] at hr; obtain ⟨_, _, rfl⟩ := hr; simp [trNode])]
  unfold gridOf
  rw [List.map_map]
  apply List.map_congr_left
  intro row _
  simp only [Function.comp]
  rw [e2, findall_tc _ _ hX hpn _ (by intro c hc; simp only [List.mem_map] at hc; obtain ⟨_, _, rfl⟩ := hc; simp [tcNode]),
    List.map_map]
  apply List.map_congr_left
  intro cell _
  exact docx_cellText T hT cell

/-- DOCX: `_extract_tables_from_context` on a written document returns the document's tables -/
theorem docx_tables (doc : List (Blk DocxPara)) :
    docxTables T (docxBody T doc) = doc.flatMap (Blk.tables docxCellSpec) := by
  obtain ⟨hX, _, _, _, _, hs⟩ := docx_parts T hT
  have hpn := docx_paraOk T hT
  have hsect := hs (wNs ++ "sectPr".toList) (by simp)
  have hok := ok_parts _ _ hX hpn
  unfold docxTables docxBody
  rw [elem_kids, List.flatMap_append, List.flatMap_map]
  have e : (wNs ++ "sectPr".toList == T.tbl) = false := by simp; exact hsect.1
  simp only [List.flatMap_cons, elem_tag, e, List.flatMap_nil, List.append_nil, Bool.false_eq_true, if_false]
  apply flatMap_congr'
  intro b _
  rw [render_tag _ _ hX hpn]
  cases b with
  | para a =>
    have : ((docxXT T docxNoise).p == T.tbl) = false := by
      have := hok.2.2.1; simp; exact fun h => this h.symm
    simp [this, tables_para]
  | tbl h rows =>
    have : ((docxXT T docxNoise).tbl == T.tbl) = true := by simp [docxXT]
    simp only [this, if_true]
    have e : T.tbl = (docxXT T docxNoise).tbl := rfl
    rw [e, ← List.filterMap_eq_map]
    exact iter_tbl_render _ _ hX hpn docxCellSpec (some ∘ docxTable T) (fun _ => true) (fun _ _ _ _ _ _ _ _ _ => rfl)
      (fun h rows _ => by simp [docx_table T hT h rows]) (.tbl h rows) rfl

end docx

/-! ## ODF paragraphs, ODT, ODP -/

/-- what the ODT / ODP theorems need from the tag values -/
def OdfTags.ok (T : OdfTags) : Bool :=
  (odfXT T).ok
  && [spanTag, T.s, T.tab, T.lineBreak].all (fun s => ![T.table, T.row, T.cell, T.p].contains s && !T.skip.contains s)
  && T.s != spanTag && T.tab != spanTag && T.lineBreak != spanTag
  && T.s != T.tab && T.s != T.lineBreak && T.tab != T.lineBreak
  && officeText != T.table && colTag != T.row && colTag != T.table
  && T.headerRows != T.row && T.headerRows != T.table && colTag != T.headerRows

section odf
variable (T : OdfTags) (hT : T.ok = true)
include hT

theorem odf_parts : (odfXT T).ok = true
    ∧ (∀ s ∈ [spanTag, T.s, T.tab, T.lineBreak], s ≠ T.table ∧ s ≠ T.row ∧ s ≠ T.cell ∧ s ≠ T.p ∧ T.skip.contains s = false)
    ∧ T.s ≠ spanTag ∧ T.tab ≠ spanTag ∧ T.lineBreak ≠ spanTag ∧ T.s ≠ T.tab ∧ T.s ≠ T.lineBreak ∧ T.tab ≠ T.lineBreak
    ∧ officeText ≠ T.table ∧ colTag ≠ T.row ∧ colTag ≠ T.table ∧ T.headerRows ≠ T.row ∧ T.headerRows ≠ T.table ∧ colTag ≠ T.headerRows := by
  have h := hT
  simp only [OdfTags.ok, Bool.and_eq_true, bne_iff_ne, ne_eq, List.all_eq_true, Bool.not_eq_true',
    List.contains_eq_mem, List.mem_cons, List.not_mem_nil, or_false, decide_eq_false_iff_not, not_or] at h
  obtain ⟨⟨⟨⟨⟨⟨⟨⟨⟨⟨⟨⟨⟨h0, h1⟩, a1⟩, a2⟩, a3⟩, a4⟩, a5⟩, a6⟩, a7⟩, a8⟩, a9⟩, a10⟩, a11⟩, a12⟩ := h
  refine ⟨h0, ?_, a1, a2, a3, a4, a5, a6, a7, a8, a9, a10, a11, a12⟩
  intro s hs
  have := h1 s (by simpa using hs)
  refine ⟨this.1.1, this.1.2.1, this.1.2.2.1, this.1.2.2.2, ?_⟩
  simpa using this.2

theorem odf_paraOk (p : OdfPara) : paraOk (odfXT T) (odfParaNode T p) = true := by
  obtain ⟨_, hs, _⟩ := odf_parts T hT
  simp only [paraOk, odfParaNode, Node.tag, Node.kids, odfXT, beq_self_eq_true, Bool.true_and,
    List.all_eq_true, descL_eq]
  intro m hm
  simp only [List.mem_flatMap, List.mem_map] at hm
  obtain ⟨n, ⟨pc, _, rfl⟩, hm⟩ := hm
  have key : ∀ s ∈ [spanTag, T.s, T.tab, T.lineBreak],
      (!({ tbl := T.table, tr := T.row, tc := T.cell, p := T.p, wrapHdr := some T.headerRows, wrapBody := none,
            tblPre := [elem colTag []], trPre := [], tcPre := [] } : XT).S.contains s) = true := by
    intro s h
    obtain ⟨a, b, c, d, _⟩ := hs s h
    simp [XT.S, a, b, c, d]
  cases pc <;> simp [OdfPiece.node] at hm <;> subst hm
  · exact key spanTag (by simp)
  · exact key T.s (by simp)
  · exact key T.tab (by simp)
  · exact key T.lineBreak (by simp)

theorem odfTextL_pieces (ps : List OdfPiece) :
    odfTextL T (ps.map (OdfPiece.node T)) = ps.flatMap OdfPiece.text := by
  obtain ⟨_, hs, b1, b2, b3, b4, b5, b6, _⟩ := odf_parts T hT
  have k1 := (hs spanTag (by simp)).2.2.2.2
  have k2 := (hs T.s (by simp)).2.2.2.2
  have k3 := (hs T.tab (by simp)).2.2.2.2
  have k4 := (hs T.lineBreak (by simp)).2.2.2.2
  have k1' : spanTag ∉ T.skip := by simpa using k1
  have k2' : T.s ∉ T.skip := by simpa using k2
  have k3' : T.tab ∉ T.skip := by simpa using k3
  have k4' : T.lineBreak ∉ T.skip := by simpa using k4
  induction ps with
  | nil => simp [odfTextL]
  | cons pc r ih =>
    simp only [List.map_cons, List.flatMap_cons, odfTextL, ih]
    cases pc with
    | span s tl =>
      have e1 : (spanTag == T.s) = false := by simp; exact fun h => b1 h.symm
      have e2 : (spanTag == T.tab) = false := by simp; exact fun h => b2 h.symm
      have e3 : (spanTag == T.lineBreak) = false := by simp; exact fun h => b3 h.symm
      simp [OdfPiece.node, OdfPiece.text, Node.tag, Node.tail, k1', e1, e2, e3, odfText, odfTextL]
    | spaces tl =>
      simp [OdfPiece.node, OdfPiece.text, Node.tag, Node.tail, Node.get, Node.attrs, k2']
    | tab tl =>
      have e1 : (T.tab == T.s) = false := by simp; exact fun h => b4 h.symm
      simp [OdfPiece.node, OdfPiece.text, Node.tag, Node.tail, k3', e1]
    | lineBreak tl =>
      have e1 : (T.lineBreak == T.s) = false := by simp; exact fun h => b5 h.symm
      have e2 : (T.lineBreak == T.tab) = false := by simp; exact fun h => b6 h.symm
      simp [OdfPiece.node, OdfPiece.text, Node.tag, Node.tail, k4', e1, e2]

theorem odfText_para (p : OdfPara) : odfText T (odfParaNode T p) = p.text := by
  simp [odfParaNode, odfText, OdfPara.text, odfTextL_pieces T hT]

theorem odf_cellText (cell : List (Blk OdfPara)) :
    odfCellText T (tcNode (odfXT T) (cell.map (Blk.render (odfXT T) (odfParaNode T)))) = odfCellSpec (cellParas cell) := by
  obtain ⟨hX, _⟩ := odf_parts T hT
  unfold odfCellText odfCellSpec
  have := iter_p_cell (odfXT T) (odfParaNode T) hX (odf_paraOk T hT) cell
  have e : (odfXT T).p = T.p := rfl
  rw [e] at this
  rw [this, List.map_map]
  apply joinWith_map_congr
  intro p _
  exact odfText_para T hT p

omit hT in
theorem odtOwnRowsL_rows (rows : List Node) (hr : ∀ r ∈ rows, r.tag = T.row) : odtOwnRowsL T rows = rows := by
  induction rows with
  | nil => simp [odtOwnRowsL]
  | cons r rs ih =>
    cases r with
    | mk t a x ch tl =>
      have : t = T.row := hr (.mk t a x ch tl) (by simp)
      have ih' := ih (fun r hr' => hr r (by simp [hr']))
      simp [odtOwnRowsL, this, ih']

omit hT in
theorem odtOwnRowsL_append (l₁ l₂ : List Node) : odtOwnRowsL T (l₁ ++ l₂) = odtOwnRowsL T l₁ ++ odtOwnRowsL T l₂ := by
  induction l₁ with
  | nil => simp [odtOwnRowsL]
  | cons c r ih => cases c; simp [odtOwnRowsL, ih]

theorem odt_ownRows (h : Nat) (rows : List Node) (hr : ∀ r ∈ rows, r.tag = T.row) :
    odtOwnRows T (tblNode (odfXT T) h rows) = rows := by
  obtain ⟨_, _, _, _, _, _, _, _, _, c1, c2, c3, c4, _⟩ := odf_parts T hT
  unfold odtOwnRows tblNode
  rw [elem_kids, odtOwnRowsL_append, odtOwnRowsL_append]
  have e1 : odtOwnRowsL T (odfXT T).tblPre = [] := by
    have x1 : (colTag == T.row) = false := by simp; exact c1
    have x2 : (colTag != T.table) = true := by simp; exact c2
    simp [odfXT, elem, odtOwnRowsL, x1, x2]
  have e2 : odtOwnRowsL T (wrap (odfXT T).wrapHdr (rows.take h)) = rows.take h := by
    have x1 : (T.headerRows == T.row) = false := by simp; exact c3
    have x2 : (T.headerRows != T.table) = true := by simp; exact c4
    have hr' : ∀ r ∈ rows.take h, r.tag = T.row := fun r hm => hr r (List.mem_of_mem_take hm)
    simp only [odfXT, wrap]
    by_cases he : (rows.take h).isEmpty
    · simp only [he, if_true]; cases hh : rows.take h <;> simp_all [odtOwnRowsL]
    · simp [he, elem, odtOwnRowsL, x1, x2, odtOwnRowsL_rows T _ hr']
  have e3 : odtOwnRowsL T (wrap (odfXT T).wrapBody (rows.drop h)) = rows.drop h := by
    have hr' : ∀ r ∈ rows.drop h, r.tag = T.row := fun r hm => hr r (List.mem_of_mem_drop hm)
    simp only [odfXT, wrap]
    exact odtOwnRowsL_rows T _ hr'
  rw [e1, e2, e3, List.nil_append, List.take_append_drop]

omit hT in
theorem filterMap_eq_map' {α β : Type} {l : List α} {f : α → Option β} {g : α → β} (h : ∀ a ∈ l, f a = some (g a)) :
    l.filterMap f = l.map g := by
  induction l with
  | nil => rfl
  | cons a r ih =>
    rw [List.filterMap_cons, h a (by simp), ih (fun b hb => h b (by simp [hb]))]
    rfl

theorem odfRow_rendered (row : List (List (Blk OdfPara))) (hne : row.isEmpty = false) :
    (let cells := (findall T.cell (trNode (odfXT T) (row.map (fun cell =>
        tcNode (odfXT T) (cell.map (Blk.render (odfXT T) (odfParaNode T))))))).map (odfCellText T)
     if cells.isEmpty then none else some cells) = some (row.map (fun cell => odfCellSpec (cellParas cell))) := by
  obtain ⟨hX, _⟩ := odf_parts T hT
  have hpn := odf_paraOk T hT
  have e2 : T.cell = (odfXT T).tc := rfl
  rw [e2, findall_tc _ _ hX hpn _ (by intro c hc; simp only [List.mem_map] at hc; obtain ⟨_, _, rfl⟩ := hc; simp [tcNode]),
    List.map_map]
  have : ((row.map ((odfCellText T) ∘ fun cell => tcNode (odfXT T) (cell.map (Blk.render (odfXT T) (odfParaNode T))))).isEmpty) = false := by
    cases row with
    | nil => simp at hne
    | cons _ _ => simp
  simp only [this, Bool.false_eq_true, if_false]
  congr 1
  apply List.map_congr_left
  intro cell _
  exact odf_cellText T hT cell

/-- rows written from non-empty abstract rows all survive the `if row_data:` filter -/
theorem odfRows_rendered (rows : Rows OdfPara) (hne : rows.all (fun row => !row.isEmpty) = true) :
    odfRows T (rows.map (fun row => trNode (odfXT T) (row.map (fun cell =>
      tcNode (odfXT T) (cell.map (Blk.render (odfXT T) (odfParaNode T))))))) = gridOf odfCellSpec rows := by
  unfold odfRows gridOf
  rw [List.filterMap_map]
  apply filterMap_eq_map'
  intro row hrow
  have := List.all_eq_true.mp hne row hrow
  exact odfRow_rendered T hT row (by simpa using this)

theorem odt_table (h : Nat) (rows : Rows OdfPara) (hp : Blk.proper (.tbl h rows) = true) :
    (let data := odfRows T (odtOwnRows T (Blk.render (odfXT T) (odfParaNode T) (.tbl h rows)))
     if data.isEmpty then none else some data) = some (gridOf odfCellSpec rows) := by
  obtain ⟨hX, _⟩ := odf_parts T hT
  have hpn := odf_paraOk T hT
  rw [proper_tbl] at hp
  simp only [Bool.and_eq_true] at hp
  rw [render_tbl _ _ hX hpn, odt_ownRows T hT _ _ (by intro r hr; simp only [List.mem_map] at hr; obtain ⟨_, _, rfl⟩ := hr; simp [trNode, odfXT]),
    odfRows_rendered T hT rows hp.1.2]
  have : (gridOf odfCellSpec rows).isEmpty = false := by
    cases rows with
    | nil => simp at hp
    | cons _ _ => simp [gridOf]
  simp [this]

theorem proper_sub (h : Nat) (rows : Rows OdfPara) (hp : Blk.proper (.tbl h rows) = true) :
    ∀ row ∈ rows, ∀ cell ∈ row, ∀ b ∈ cell, Blk.proper b = true := by
  rw [proper_tbl] at hp
  simp only [Bool.and_eq_true, List.all_eq_true] at hp
  exact fun row hr cell hc b hb => hp.2 row hr cell hc b hb

/-- ODT: `_extract_tables(body)` on a written document (tables 1..R × 1..C, nesting allowed) -/
theorem odt_tables (doc : List (Blk OdfPara)) (hp : doc.all Blk.proper = true) :
    odtTables T (odtBody T doc) = doc.flatMap (Blk.tables odfCellSpec) := by
  obtain ⟨hX, _, _, _, _, _, _, _, c0, _⟩ := odf_parts T hT
  have hpn := odf_paraOk T hT
  unfold odtTables odtBody
  rw [iter_elem]
  have e : (officeText == T.table) = false := by simp; exact c0
  simp only [e, Bool.false_eq_true, if_false, List.nil_append, List.flatMap_map, List.filterMap_flatMap]
  apply flatMap_congr'
  intro b hb
  have e : T.table = (odfXT T).tbl := rfl
  rw [e]
  exact iter_tbl_render _ _ hX hpn odfCellSpec _ Blk.proper (proper_sub T hT) (odt_table T hT) b
    (List.all_eq_true.mp hp b hb)

omit hT in
theorem cellParas_para {α : Type} (cell : List α) : cellParas (cell.map Blk.para) = cell := by
  induction cell with
  | nil => rfl
  | cons a r ih =>
    simp only [cellParas, List.map_cons, List.flatMap_cons, paraList_para] at ih ⊢
    rw [ih]; rfl

omit hT in
theorem gridOf_toBlkRows {α : Type} (ct : List α → Str) (rows : List (List (List α))) :
    gridOf ct (toBlkRows rows) = rows.map (fun row => row.map ct) := by
  simp [gridOf, toBlkRows, cellParas_para, Function.comp_def]

/-- ODP: `_extract_table(table_elem)` on a written table -/
theorem odp_table (t : OdpTable) (hne : t.2.all (fun row => !row.isEmpty) = true) :
    odpTable T (odpTableNode T t) = t.2.map (fun row => row.map odfCellSpec) := by
  obtain ⟨hX, _, _, _, _, _, _, _, _, c1, _, c3, _, c5⟩ := odf_parts T hT
  have hpn := odf_paraOk T hT
  obtain ⟨h, rows⟩ := t
  simp only at hne ⊢
  unfold odpTable odpTableNode
  rw [render_tbl _ _ hX hpn]
  generalize hR : (toBlkRows rows).map (fun row => trNode (odfXT T) (row.map (fun cell =>
      tcNode (odfXT T) (cell.map (Blk.render (odfXT T) (odfParaNode T)))))) = R
  have hr : ∀ r ∈ R, r.tag = T.row := by
    intro r hr; rw [← hR] at hr; simp only [List.mem_map] at hr; obtain ⟨_, _, rfl⟩ := hr; simp [trNode, odfXT]
  have x1 : (colTag == T.row) = false := by simp; exact c1
  have x2 : (colTag == T.headerRows) = false := by simp; exact c5
  have x3 : (T.headerRows == T.row) = false := by simp; exact c3
  have frow : ∀ l : List Node, (∀ r ∈ l, r.tag = T.row) → l.filter (fun m => m.tag == T.row) = l := by
    intro l hl; rw [List.filter_eq_self]; intro n hn; simp [hl n hn]
  have fhdr : ∀ l : List Node, (∀ r ∈ l, r.tag = T.row) → l.filter (fun m => m.tag == T.headerRows) = [] := by
    intro l hl; rw [List.filter_eq_nil_iff]; intro n hn; rw [hl n hn]; simp; exact fun h => c3 h.symm
  have ht : ∀ r ∈ R.take h, r.tag = T.row := fun r hm => hr r (List.mem_of_mem_take hm)
  have hd : ∀ r ∈ R.drop h, r.tag = T.row := fun r hm => hr r (List.mem_of_mem_drop hm)
  have key : (findall T.headerRows (tblNode (odfXT T) h R)).flatMap (findall T.row) ++ findall T.row (tblNode (odfXT T) h R) = R := by
    unfold tblNode
    simp only [findall_elem, odfXT, wrap, List.filter_append, List.filter_cons, elem_tag, x1, x2,
      List.filter_nil, List.nil_append, Bool.false_eq_true, if_false]
    by_cases he : (R.take h).isEmpty
    · have e0 : R.take h = [] := by cases hh : R.take h <;> simp_all
      simp only [he, if_true, List.filter_nil, List.flatMap_nil, List.nil_append, fhdr _ hd, frow _ hd]
      have := List.take_append_drop h R
      rw [e0] at this
      simpa using this
    · simp only [he, Bool.false_eq_true, if_false, List.filter_cons, elem_tag, beq_self_eq_true, if_true, x3,
        List.filter_nil, fhdr _ hd, List.append_nil, List.flatMap_cons, findall_elem, List.flatMap_nil, frow _ ht, frow _ hd,
        List.nil_append, List.take_append_drop]
  rw [key, ← hR, odfRows_rendered T hT (toBlkRows rows) (by
    simp only [toBlkRows, List.all_map, Function.comp_def, List.isEmpty_map] at hne ⊢; exact hne), gridOf_toBlkRows]

end odf

/-! ## PPTX -/

/-- the tag inequalities the PPTX theorem uses -/
def PptxTags.pairs (T : PptxTags) : List (Str × Str) :=
  [(pGraphicFrame, T.graphicData), (pNvPr, T.graphicData), (aGraphic, T.graphicData),
   (aTblPr, T.tr), (aTblGrid, T.tr), (T.txBody, T.p), (aBodyPr, T.p),
   (aPPr, T.p), (T.r, T.p), (T.fld, T.p), (T.br, T.p), (aRPr, T.p), (T.t, T.p),
   (aPPr, T.r), (aPPr, T.fld), (aPPr, T.br), (aPPr, T.t), (T.fld, T.r), (T.br, T.r), (T.br, T.fld),
   (aRPr, T.t), (aTcPr, T.txBody)]

def PptxTags.ok (T : PptxTags) : Bool := T.pairs.all (fun p => p.1 != p.2)

section pptx
variable (T : PptxTags) (hT : T.ok = true)
include hT

theorem pptx_ne {a b : Str} (h : (a, b) ∈ T.pairs) : (a == b) = false := by
  have := List.all_eq_true.mp hT (a, b) h
  simpa using this

theorem pptx_paraText (p : PptxPara) : pptxParaText T (pptxParaNode T p) = p.flatMap PptxPiece.text := by
  have n1 := pptx_ne T hT (a := aPPr) (b := T.r) (by simp [PptxTags.pairs])
  have n2 := pptx_ne T hT (a := aPPr) (b := T.fld) (by simp [PptxTags.pairs])
  have n3 := pptx_ne T hT (a := aPPr) (b := T.br) (by simp [PptxTags.pairs])
  have n4 := pptx_ne T hT (a := aPPr) (b := T.t) (by simp [PptxTags.pairs])
  have n5 := pptx_ne T hT (a := T.fld) (b := T.r) (by simp [PptxTags.pairs])
  have n6 := pptx_ne T hT (a := T.br) (b := T.r) (by simp [PptxTags.pairs])
  have n7 := pptx_ne T hT (a := T.br) (b := T.fld) (by simp [PptxTags.pairs])
  have n8 := pptx_ne T hT (a := aRPr) (b := T.t) (by simp [PptxTags.pairs])
  unfold pptxParaText pptxParaNode
  simp only [elem_kids, List.flatMap_cons, elem_tag, n1, n2, n3, n4, Bool.or_self, Bool.false_eq_true, if_false,
    List.nil_append, List.flatMap_map]
  apply flatMap_congr'
  intro pc _
  cases pc with
  | run s => simp [PptxPiece.node, PptxPiece.text, find_elem, n8]
  | field s => simp [PptxPiece.node, PptxPiece.text, find_elem, n5]
  | br => simp [PptxPiece.node, PptxPiece.text, n6, n7]

theorem pptx_iter_p_para (p : PptxPara) : iter T.p (pptxParaNode T p) = [pptxParaNode T p] := by
  have n1 := pptx_ne T hT (a := aPPr) (b := T.p) (by simp [PptxTags.pairs])
  have n2 := pptx_ne T hT (a := T.r) (b := T.p) (by simp [PptxTags.pairs])
  have n3 := pptx_ne T hT (a := T.fld) (b := T.p) (by simp [PptxTags.pairs])
  have n4 := pptx_ne T hT (a := T.br) (b := T.p) (by simp [PptxTags.pairs])
  have n5 := pptx_ne T hT (a := aRPr) (b := T.p) (by simp [PptxTags.pairs])
  have n6 := pptx_ne T hT (a := T.t) (b := T.p) (by simp [PptxTags.pairs])
  unfold pptxParaNode
  rw [iter_elem]
  simp only [beq_self_eq_true, if_true, List.flatMap_cons, iter_elem, n1, Bool.false_eq_true, if_false,
    List.flatMap_nil, List.append_nil, List.nil_append, List.flatMap_map]
  have : p.flatMap (fun a => iter T.p (PptxPiece.node T a)) = [] := by
    apply flatMap_nil'
    intro pc _
    cases pc <;> simp [PptxPiece.node, iter_elem, iter_mk, n2, n3, n4, n5, n6]
  rw [this]; rfl

theorem pptx_cell (cell : List PptxPara) :
    (match find T.txBody (pptxCellNode T cell) with
     | some b => pyStrip (pptxText T b)
     | none => []) = pyStrip (pptxCellSpec cell) := by
  have n1 := pptx_ne T hT (a := T.txBody) (b := T.p) (by simp [PptxTags.pairs])
  have n2 := pptx_ne T hT (a := aBodyPr) (b := T.p) (by simp [PptxTags.pairs])
  unfold pptxCellNode
  simp only [find_elem, List.find?_cons, elem_tag, beq_self_eq_true]
  unfold pptxText pptxCellSpec
  rw [iter_elem]
  simp only [n1, Bool.false_eq_true, if_false, List.nil_append, List.flatMap_cons, iter_elem, n2, List.flatMap_nil,
    List.flatMap_map]
  have : cell.flatMap (fun a => iter T.p (pptxParaNode T a)) = cell.map (pptxParaNode T) := by
    induction cell with
    | nil => rfl
    | cons p r ih => simp [pptx_iter_p_para T hT p, ih]
  rw [this, List.map_map]
  congr 2
  apply List.map_congr_left
  intro p _
  exact pptx_paraText T hT p

/-- PPTX: `_extract_table_from_graphic_frame` on a written table frame -/
theorem pptx_frame (t : PptxTable) :
    pptxFrameTable T (pptxFrame T t) = some (t.map (fun row => row.map (fun cell => pyStrip (pptxCellSpec cell)))) := by
  have n1 := pptx_ne T hT (a := pGraphicFrame) (b := T.graphicData) (by simp [PptxTags.pairs])
  have n2 := pptx_ne T hT (a := pNvPr) (b := T.graphicData) (by simp [PptxTags.pairs])
  have n3 := pptx_ne T hT (a := aGraphic) (b := T.graphicData) (by simp [PptxTags.pairs])
  have n4 := pptx_ne T hT (a := aTblPr) (b := T.tr) (by simp [PptxTags.pairs])
  have n5 := pptx_ne T hT (a := aTblGrid) (b := T.tr) (by simp [PptxTags.pairs])
  have n6 := pptx_ne T hT (a := aTcPr) (b := T.txBody) (by simp [PptxTags.pairs])
  unfold pptxFrameTable pptxFrame
  simp only [iter_elem, n1, Bool.false_eq_true, if_false, List.nil_append, List.flatMap_cons, n2, List.flatMap_nil,
    n3, iter_mk, beq_self_eq_true, if_true, List.append_nil, List.cons_append, List.head?_cons]
  have g1 : ∀ kids, Node.get (.mk T.graphicData [(sUri, T.tableUri)] [] kids []) sUri = some T.tableUri := by
    intro kids; simp [Node.get]
  have g2 : ∀ (a : List (Str × Str)) (e : List Node), find T.tbl (.mk T.graphicData a [] [elem T.tbl e] []) = some (elem T.tbl e) := by
    intro a e; simp [find]
  simp only [g1, g2, bne_self_eq_false, Bool.false_eq_true, if_false]
  simp only [findall_elem, List.filter_cons, elem_tag, n4, n5, Bool.false_eq_true, if_false]
  congr 1
  have fr : (t.map (fun row => elem T.tr (row.map (pptxCellNode T)))).filter (fun m => m.tag == T.tr)
      = t.map (fun row => elem T.tr (row.map (pptxCellNode T))) := by
    rw [List.filter_eq_self]; intro n hn; simp only [List.mem_map] at hn; obtain ⟨_, _, rfl⟩ := hn; simp
  rw [fr, List.map_map]
  apply List.map_congr_left
  intro row _
  simp only [Function.comp, findall_elem]
  have fc : (row.map (pptxCellNode T)).filter (fun m => m.tag == T.tc) = row.map (pptxCellNode T) := by
    rw [List.filter_eq_self]; intro n hn; simp only [List.mem_map] at hn; obtain ⟨_, _, rfl⟩ := hn; simp [pptxCellNode]
  rw [fc, List.map_map]
  apply List.map_congr_left
  intro cell _
  exact pptx_cell T hT cell

end pptx

end S2T.Tables
