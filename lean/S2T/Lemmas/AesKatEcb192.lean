import S2T.Lemmas.AesKatVec
/-! Known-answer validation of the specification `S2T.Spec.Fips197`, evaluated by the kernel.  SP 800-38A F.1.3/F.1.4 (ECB-AES192)
    (static file; independent of the Python source) -/
namespace S2T.AesL.Kat
open S2T.Spec.Fips197
set_option maxRecDepth 100000

/-- SP 800-38A F.1.3 ECB-AES192.Encrypt -/
theorem ecb192_encrypt : ecbEncrypt key192 pt = ecb192 := by decide +kernel
/-- SP 800-38A F.1.4 ECB-AES192.Decrypt -/
theorem ecb192_decrypt : ecbDecrypt key192 ecb192 = pt := by decide +kernel

end S2T.AesL.Kat
