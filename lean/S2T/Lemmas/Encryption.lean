import S2T.Model.Encryption
/-! Helper lemmas for C08 (FILEPASS scan, ZIP passes, 7z decode, XML search). -/
namespace S2T.Enc

/-! ## BIFF records -/

structure Rec where
  id : Nat
  payload : List Nat
  deriving Repr

/-- BIFF framing: id (u16 LE), length (u16 LE), payload -/
def Rec.ser (r : Rec) : List Nat :=
  r.id % 256 :: r.id / 256 :: r.payload.length % 256 :: r.payload.length / 256 :: r.payload

def serialize : List Rec → List Nat
  | [] => []
  | r :: rs => r.ser ++ serialize rs

/-- fields fit their 16-bit slots -/
def Rec.Ok (r : Rec) : Prop := r.id < 65536 ∧ r.payload.length < 65536

theorem scan_cons4 (fid b0 b1 l0 l1 : Nat) (rest : List Nat) :
    scan fid (b0 :: b1 :: l0 :: l1 :: rest) =
      if b0 + 256 * b1 = fid then true else scan fid (rest.drop (l0 + 256 * l1)) := by
  rw [scan]

theorem scan_short (fid : Nat) (l : List Nat) (h : l.length < 4) : scan fid l = false := by
  match l, h with
  | [], _ => rw [scan]; intros; simp_all
  | [_], _ => rw [scan]; intros; simp_all
  | [_, _], _ => rw [scan]; intros; simp_all
  | [_, _, _], _ => rw [scan]; intros; simp_all
  | _ :: _ :: _ :: _ :: _, h => simp at h; omega

theorem scan_rec_append (fid : Nat) (r : Rec) (hr : r.Ok) (t : List Nat) :
    scan fid (r.ser ++ t) = (r.id == fid || scan fid t) := by
  obtain ⟨h1, h2⟩ := hr
  simp only [Rec.ser, List.cons_append]
  rw [scan_cons4]
  have e1 : r.id % 256 + 256 * (r.id / 256) = r.id := by omega
  have e2 : r.payload.length % 256 + 256 * (r.payload.length / 256) = r.payload.length := by omega
  rw [e1, e2, List.drop_left]
  by_cases h : r.id = fid
  · simp [h]
  · simp [h]

theorem scan_serialize_append (fid : Nat) (rs : List Rec) (hok : ∀ r ∈ rs, r.Ok) (t : List Nat) :
    scan fid (serialize rs ++ t) = (rs.any (fun r => r.id == fid) || scan fid t) := by
  induction rs with
  | nil => simp [serialize]
  | cons r rs ih =>
    simp only [serialize, List.append_assoc, List.any_cons]
    rw [scan_rec_append fid r (hok r (List.mem_cons_self ..)),
        ih (fun x hx => hok x (List.mem_cons_of_mem _ hx)), Bool.or_assoc]

/-- the same scan by structural recursion on the bytes (a skip counter instead of an offset);
    used to evaluate `scan` on concrete streams inside the kernel -/
def scanS (fid : Nat) : Nat → List Nat → Bool
  | _ + 1, [] => false
  | k + 1, _ :: rest => scanS fid k rest
  | 0, b0 :: b1 :: l0 :: l1 :: rest => if b0 + 256 * b1 = fid then true else scanS fid (l0 + 256 * l1) rest
  | 0, _ => false

theorem scanS_eq (fid : Nat) : ∀ (k : Nat) (l : List Nat), scanS fid k l = scan fid (l.drop k)
  | _ + 1, [] => by simp [scanS, scan_short]
  | k + 1, _ :: rest => by simp [scanS, scanS_eq fid k rest]
  | 0, b0 :: b1 :: l0 :: l1 :: rest => by simp [scanS, scan_cons4, scanS_eq fid _ rest]
  | 0, [] => by simp [scanS, scan_short]
  | 0, [_] => by simp [scanS, scan_short]
  | 0, [_, _] => by simp [scanS, scan_short]
  | 0, [_, _, _] => by simp [scanS, scan_short]

theorem scan_eq_scanS (fid : Nat) (l : List Nat) : scan fid l = scanS fid 0 l := by
  rw [scanS_eq]; simp

/-! ## bit tests -/

theorem and_two_pow_ne_zero (x i : Nat) : x &&& 2 ^ i ≠ 0 ↔ x.testBit i = true := by
  constructor
  · intro h
    apply Classical.byContradiction
    intro hb
    apply h
    apply Nat.eq_of_testBit_eq
    intro j
    simp only [Nat.testBit_and, Nat.testBit_two_pow, Nat.zero_testBit]
    by_cases hij : i = j
    · subst hij; simp at hb; simp [hb]
    · simp [hij]
  · intro hb h0
    have := congrArg (fun n => Nat.testBit n i) h0
    simp [Nat.testBit_and, hb] at this

/-! ## ZIP -/

theorem zipPass1_none_iff (C : Consts) (infos : List ZInfo) :
    zipPass1 C infos = none ↔ ∃ i ∈ infos, i.isDir = false ∧ i.flagBits &&& C.zipEncMask ≠ 0 := by
  induction infos with
  | nil => simp [zipPass1]
  | cons i r ih =>
    simp only [zipPass1, List.mem_cons, exists_eq_or_imp]
    by_cases hd : i.isDir = true
    · simp [hd, ih]
    · have hd' : i.isDir = false := by simpa using hd
      by_cases hf : i.flagBits &&& C.zipEncMask ≠ 0
      · simp [hd', hf]
      · have hf' : i.flagBits &&& C.zipEncMask = 0 := by simpa using hf
        by_cases hs : i.skip = true
        · simp [hd', hf', hs, ih]
        · have hs' : i.skip = false := by simpa using hs
          simp [hd', hf', hs', ih]

theorem zipPass1_some_sub (C : Consts) (infos todo : List ZInfo) (h : zipPass1 C infos = some todo) :
    ∀ i ∈ todo, i ∈ infos := by
  induction infos generalizing todo with
  | nil => simp [zipPass1] at h; subst h; intro i hi; cases hi
  | cons x r ih =>
    simp only [zipPass1] at h
    split at h
    · intro i hi; exact List.mem_cons_of_mem _ (ih todo h i hi)
    · split at h
      · cases h
      · split at h
        · intro i hi; exact List.mem_cons_of_mem _ (ih todo h i hi)
        · cases hr : zipPass1 C r with
          | none => rw [hr] at h; cases h
          | some t =>
            rw [hr] at h; simp at h; subst h
            intro i hi
            cases hi with
            | head => exact List.mem_cons_self ..
            | tail _ hi' => exact List.mem_cons_of_mem _ (ih t hr i hi')

/-- the second pass ends "encrypted" only through a failing read whose handler says so -/
theorem zipPass2_encrypted (C : Consts) (todo : List ZInfo) (h : (zipPass2 C todo).2 = .encrypted) :
    ∃ i ∈ todo, i.read ≠ .data ∧ readFailure C i.read = .encrypted := by
  induction todo with
  | nil => simp [zipPass2] at h
  | cons i r ih =>
    simp only [zipPass2] at h
    split at h
    · obtain ⟨j, hj, hj'⟩ := ih h
      exact ⟨j, List.mem_cons_of_mem _ hj, hj'⟩
    · split at h
      · obtain ⟨j, hj, hj'⟩ := ih h
        exact ⟨j, List.mem_cons_of_mem _ hj, hj'⟩
      · rename_i e hne
        simp only at h
        exact ⟨i, List.mem_cons_self .., by intro hd; exact hne hd, h⟩

/-! ## 7z -/

theorem decodeFolder_go_append (C : Consts) (l : Bool) (xs ys : List Coder) :
    decodeFolder.go C l (xs ++ ys) =
      match decodeFolder.go C l xs with
      | .ok => decodeFolder.go C l ys
      | d => d := by
  induction xs with
  | nil => simp [decodeFolder.go]
  | cons c r ih =>
    simp only [List.cons_append, decodeFolder.go]
    cases h : applyDecoder C l c <;> simp [ih]

/-! ## XML -/

mutual
/-- tags of the element and all its descendants, document order -/
def Xml.elems : Xml → List Str
  | .node tag cs => tag :: Xml.elemsL cs
def Xml.elemsL : List Xml → List Str
  | [] => []
  | c :: r => Xml.elems c ++ Xml.elemsL r
end

mutual
theorem Xml.anyTag_iff (t : Str) : ∀ x : Xml, x.anyTag t = true ↔ t ∈ x.elems
  | .node tag cs => by
    simp only [Xml.anyTag, Xml.elems, Bool.or_eq_true, beq_iff_eq, List.mem_cons]
    rw [Xml.anyTagL_iff t cs]
    constructor
    · rintro (h | h)
      · exact Or.inl h.symm
      · exact Or.inr h
    · rintro (h | h)
      · exact Or.inl h.symm
      · exact Or.inr h
theorem Xml.anyTagL_iff (t : Str) : ∀ xs : List Xml, Xml.anyTagL t xs = true ↔ t ∈ Xml.elemsL xs
  | [] => by simp [Xml.anyTagL, Xml.elemsL]
  | c :: r => by
    simp only [Xml.anyTagL, Xml.elemsL, Bool.or_eq_true, List.mem_append]
    rw [Xml.anyTag_iff t c, Xml.anyTagL_iff t r]
end

/-! ## PDF: the translated test is constant beyond its largest constant -/

theorem le_foldr_max {l : List Nat} {x : Nat} (h : x ∈ l) : x ≤ l.foldr max 0 := by
  induction l with
  | nil => cases h
  | cons a r ih =>
    simp only [List.foldr_cons]
    rcases List.mem_cons.mp h with rfl | h
    · exact Nat.le_max_left ..
    · exact Nat.le_trans (ih h) (Nat.le_max_right ..)

/-- from `bound` on the value of the test no longer depends on the decrypt result -/
theorem PdfTest.eval_stable : ∀ (t : PdfTest) (v w : Nat), t.bound ≤ v → t.bound ≤ w → t.eval v = t.eval w
  | .const _, _, _, _, _ => rfl
  | .eq c, v, w, hv, hw => by
    simp only [PdfTest.bound] at hv hw
    simp only [PdfTest.eval]
    rw [beq_eq_false_iff_ne.mpr (by omega), beq_eq_false_iff_ne.mpr (by omega)]
  | .ne c, v, w, hv, hw => by
    simp only [PdfTest.bound] at hv hw
    simp only [PdfTest.eval, bne]
    rw [beq_eq_false_iff_ne.mpr (by omega), beq_eq_false_iff_ne.mpr (by omega)]
  | .lt c, v, w, hv, hw => by
    simp only [PdfTest.bound] at hv hw
    simp only [PdfTest.eval]
    rw [decide_eq_false (by omega), decide_eq_false (by omega)]
  | .ge c, v, w, hv, hw => by
    simp only [PdfTest.bound] at hv hw
    simp only [PdfTest.eval]
    rw [decide_eq_true (by omega), decide_eq_true (by omega)]
  | .mem l, v, w, hv, hw => by
    simp only [PdfTest.bound] at hv hw
    have hn : ∀ u, l.foldr max 0 + 1 ≤ u → l.contains u = false := by
      intro u hu
      cases h : l.contains u with
      | false => rfl
      | true =>
        have := le_foldr_max (List.contains_iff_mem.mp h)
        omega
    simp only [PdfTest.eval]
    rw [hn v hv, hn w hw]
  | .truthy, v, w, hv, hw => by
    simp only [PdfTest.bound] at hv hw
    simp only [PdfTest.eval, bne]
    rw [beq_eq_false_iff_ne.mpr (by omega), beq_eq_false_iff_ne.mpr (by omega)]
  | .not t, v, w, hv, hw => by
    simp only [PdfTest.eval]
    rw [PdfTest.eval_stable t v w hv hw]
  | .and a b, v, w, hv, hw => by
    simp only [PdfTest.bound] at hv hw
    simp only [PdfTest.eval]
    rw [PdfTest.eval_stable a v w (by omega) (by omega), PdfTest.eval_stable b v w (by omega) (by omega)]
  | .or a b, v, w, hv, hw => by
    simp only [PdfTest.bound] at hv hw
    simp only [PdfTest.eval]
    rw [PdfTest.eval_stable a v w (by omega) (by omega), PdfTest.eval_stable b v w (by omega) (by omega)]

theorem PdfTest.bound_pos : ∀ t : PdfTest, 1 ≤ t.bound
  | .const _ | .truthy => Nat.le_refl 1
  | .eq _ | .ne _ | .lt _ | .ge _ | .mem _ => Nat.succ_le_succ (Nat.zero_le _)
  | .not t => PdfTest.bound_pos t
  | .and a _ | .or a _ => Nat.le_trans (PdfTest.bound_pos a) (Nat.le_max_left ..)

/-- deciding the test on `0 … bound` against a predicate that is itself constant from `bound` on
    decides it everywhere; used with "`v == 0`" -/
theorem PdfTest.eval_eq_isZero (t : PdfTest)
    (h : (List.range (t.bound + 1)).all (fun v => t.eval v == (v == 0)) = true) (v : Nat) :
    t.eval v = (v == 0) := by
  have hall : ∀ u, u ≤ t.bound → t.eval u = (u == 0) := by
    intro u hu
    have := List.all_eq_true.mp h u (List.mem_range.mpr (by omega))
    exact beq_iff_eq.mp this
  by_cases hv : v ≤ t.bound
  · exact hall v hv
  · have hb := PdfTest.bound_pos t
    rw [PdfTest.eval_stable t v t.bound (by omega) (Nat.le_refl _), hall t.bound (Nat.le_refl _)]
    rw [beq_eq_false_iff_ne.mpr (by omega), beq_eq_false_iff_ne.mpr (by omega)]

end S2T.Enc
