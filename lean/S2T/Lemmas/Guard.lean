import S2T.Model.Guard
/-! Soundness of the two skeleton analyses of `S2T.Model.Guard` with respect to `Run`. -/
namespace S2T.Guard

variable {encT stuck : String → Bool}

theorem noYieldL_mem {hs : List G} {h : G} (hm : h ∈ hs) (hl : noYieldL encT stuck hs = true) :
    noYield encT stuck h = true := by
  induction hs with
  | nil => cases hm
  | cons x r ih =>
    simp only [noYieldL, Bool.and_eq_true] at hl
    cases hm with
    | head => exact hl.1
    | tail _ hm' => exact ih hm' hl.2

theorem mayNormalL_mem {hs : List G} {h : G} (hm : h ∈ hs) (hn : mayNormal encT stuck h = true) :
    mayNormalL encT stuck hs = true := by
  induction hs with
  | nil => cases hm
  | cons x r ih =>
    simp only [mayNormalL, Bool.or_eq_true]
    cases hm with
    | head => exact Or.inl hn
    | tail _ hm' => exact Or.inr (ih hm')

/-- Analysis 1 is sound: a term judged `noYield` never yields, and a term that completes
    normally is judged `mayNormal`. -/
theorem noYield_sound {s : G} {n : Nat} {o : Out} (h : Run encT stuck s n o) :
    (noYield encT stuck s = true → n = 0) ∧ (o = .normal → mayNormal encT stuck s = true) := by
  induction h with
  | atomOk hs => exact ⟨fun _ => rfl, fun _ => by simp [mayNormal, hs]⟩
  | atomRaise => exact ⟨fun _ => rfl, fun h => by cases h⟩
  | raise_ => exact ⟨fun _ => rfl, fun h => by cases h⟩
  | reraise => exact ⟨fun _ => rfl, fun h => by cases h⟩
  | ret => exact ⟨fun _ => rfl, fun h => by cases h⟩
  | brk => exact ⟨fun _ => rfl, fun h => by cases h⟩
  | cont => exact ⟨fun _ => rfl, fun h => by cases h⟩
  | yield_ => exact ⟨fun h => by simp [noYield] at h, fun _ => by simp [mayNormal]⟩
  | writeOk => exact ⟨fun _ => rfl, fun _ => by simp [mayNormal]⟩
  | writeRaise => exact ⟨fun _ => rfl, fun h => by cases h⟩
  | seqStop _ hne ih =>
    refine ⟨fun hy => ?_, fun ho => absurd ho hne⟩
    simp only [noYield, Bool.and_eq_true] at hy
    exact ih.1 hy.1
  | seqGo _ _ iha ihb =>
    refine ⟨fun hy => ?_, fun ho => ?_⟩
    · simp only [noYield, Bool.and_eq_true, Bool.or_eq_true, Bool.not_eq_true'] at hy
      have ha := iha.1 hy.1
      have hn := iha.2 rfl
      rcases hy.2 with h2 | h2
      · rw [hn] at h2; cases h2
      · have hb := ihb.1 h2; omega
    · simp only [mayNormal, Bool.and_eq_true]
      exact ⟨iha.2 rfl, ihb.2 ho⟩
  | iteL _ ih =>
    refine ⟨fun hy => ?_, fun ho => ?_⟩
    · simp only [noYield, Bool.and_eq_true] at hy; exact ih.1 hy.1
    · simp only [mayNormal, Bool.or_eq_true]; exact Or.inl (ih.2 ho)
  | iteR _ ih =>
    refine ⟨fun hy => ?_, fun ho => ?_⟩
    · simp only [noYield, Bool.and_eq_true] at hy; exact ih.1 hy.2
    · simp only [mayNormal, Bool.or_eq_true]; exact Or.inr (ih.2 ho)
  | ifRaise => exact ⟨fun _ => rfl, fun h => by cases h⟩
  | ifTrue hs _ ih =>
    refine ⟨fun hy => ?_, fun ho => ?_⟩
    · simp only [noYield, hs, Bool.false_or, Bool.and_eq_true] at hy; exact ih.1 hy.1
    · simp only [mayNormal, hs, Bool.not_false, Bool.true_and, Bool.or_eq_true]; exact Or.inl (ih.2 ho)
  | ifFalse hs he _ ih =>
    refine ⟨fun hy => ?_, fun ho => ?_⟩
    · simp only [noYield, hs, he, Bool.false_or, Bool.and_eq_true] at hy; exact ih.1 hy.2
    · simp only [mayNormal, hs, he, Bool.not_false, Bool.true_and, Bool.or_eq_true]; exact Or.inr (ih.2 ho)
  | loopDone => exact ⟨fun _ => rfl, fun _ => by simp [mayNormal]⟩
  | loopBrk _ ih =>
    refine ⟨fun hy => ?_, fun _ => by simp [mayNormal]⟩
    simp only [noYield] at hy; exact ih.1 hy
  | loopStep _ _ _ ihb ihl =>
    refine ⟨fun hy => ?_, fun _ => by simp [mayNormal]⟩
    have h1 := ihl.1 hy
    simp only [noYield] at hy
    have h2 := ihb.1 hy
    omega
  | loopExit _ ho ih =>
    refine ⟨fun hy => ?_, fun hn => ?_⟩
    · simp only [noYield] at hy; exact ih.1 hy
    · rcases ho with h | h <;> (rw [h] at hn; cases hn)
  | @tryNoExc body hs fin n m o o' _ hne _ ihb ihf =>
    refine ⟨fun hy => ?_, fun ho => ?_⟩
    · simp only [noYield, Bool.and_eq_true] at hy
      have := ihb.1 hy.1.1; have := ihf.1 hy.2; omega
    · by_cases h' : o' = .normal
      · simp only [h', if_true] at ho
        simp only [mayNormal, Bool.and_eq_true, Bool.or_eq_true]
        exact ⟨Or.inl (ihb.2 ho), ihf.2 h'⟩
      · simp only [h', if_false] at ho
  | @tryUncaught body hs fin n m o' _ _ ihb ihf =>
    refine ⟨fun hy => ?_, fun ho => ?_⟩
    · simp only [noYield, Bool.and_eq_true] at hy
      have := ihb.1 hy.1.1; have := ihf.1 hy.2; omega
    · by_cases h' : o' = .normal
      · simp only [h', if_true] at ho; cases ho
      · simp only [h', if_false] at ho
  | @tryCaught body hs fin h n k m o o' _ hm _ _ ihb ihh ihf =>
    refine ⟨fun hy => ?_, fun ho => ?_⟩
    · simp only [noYield, Bool.and_eq_true] at hy
      have := ihb.1 hy.1.1; have := ihf.1 hy.2
      have := ihh.1 (noYieldL_mem hm hy.1.2); omega
    · by_cases h' : o' = .normal
      · simp only [h', if_true] at ho
        simp only [mayNormal, Bool.and_eq_true, Bool.or_eq_true]
        exact ⟨Or.inr (mayNormalL_mem hm (ihh.2 ho)), ihf.2 h'⟩
      · simp only [h', if_false] at ho

theorem mayYieldL_mem {hs : List G} {h : G} (hm : h ∈ hs) (hn : mayYield h = true) : mayYieldL hs = true := by
  induction hs with
  | nil => cases hm
  | cons x r ih =>
    simp only [mayYieldL, Bool.or_eq_true]
    cases hm with
    | head => exact Or.inl hn
    | tail _ hm' => exact Or.inr (ih hm')

theorem mayRaiseL_mem {hs : List G} {h : G} (hm : h ∈ hs) (hn : mayRaise h = true) : mayRaiseL hs = true := by
  induction hs with
  | nil => cases hm
  | cons x r ih =>
    simp only [mayRaiseL, Bool.or_eq_true]
    cases hm with
    | head => exact Or.inl hn
    | tail _ hm' => exact Or.inr (ih hm')

theorem quietL_mem {hs : List G} {h : G} (hm : h ∈ hs) (hl : quietL hs = true) : quiet h = true := by
  induction hs with
  | nil => cases hm
  | cons x r ih =>
    simp only [quietL, Bool.and_eq_true] at hl
    cases hm with
    | head => exact hl.1
    | tail _ hm' => exact ih hm' hl.2

/-- `mayYield` / `mayRaise` over-approximate what executions do. -/
theorem may_sound {s : G} {n : Nat} {o : Out} (h : Run encT stuck s n o) :
    (0 < n → mayYield s = true) ∧ (o = .raised → mayRaise s = true) := by
  induction h with
  | atomOk _ => exact ⟨fun h => by omega, fun h => by cases h⟩
  | atomRaise => exact ⟨fun h => by omega, fun _ => by simp [mayRaise]⟩
  | raise_ => exact ⟨fun h => by omega, fun _ => by simp [mayRaise]⟩
  | reraise => exact ⟨fun h => by omega, fun _ => by simp [mayRaise]⟩
  | ret => exact ⟨fun h => by omega, fun h => by cases h⟩
  | brk => exact ⟨fun h => by omega, fun h => by cases h⟩
  | cont => exact ⟨fun h => by omega, fun h => by cases h⟩
  | yield_ => exact ⟨fun _ => by simp [mayYield], fun h => by cases h⟩
  | writeOk => exact ⟨fun h => by omega, fun h => by cases h⟩
  | writeRaise => exact ⟨fun h => by omega, fun _ => by simp [mayRaise]⟩
  | seqStop _ _ ih =>
    exact ⟨fun hn => by simp only [mayYield, Bool.or_eq_true]; exact Or.inl (ih.1 hn),
           fun ho => by simp only [mayRaise, Bool.or_eq_true]; exact Or.inl (ih.2 ho)⟩
  | @seqGo a b n m o _ _ iha ihb =>
    refine ⟨fun hn => ?_, fun ho => ?_⟩
    · simp only [mayYield, Bool.or_eq_true]
      by_cases h0 : 0 < n
      · exact Or.inl (iha.1 h0)
      · exact Or.inr (ihb.1 (by omega))
    · simp only [mayRaise, Bool.or_eq_true]; exact Or.inr (ihb.2 ho)
  | iteL _ ih =>
    exact ⟨fun hn => by simp only [mayYield, Bool.or_eq_true]; exact Or.inl (ih.1 hn),
           fun ho => by simp only [mayRaise, Bool.or_eq_true]; exact Or.inl (ih.2 ho)⟩
  | iteR _ ih =>
    exact ⟨fun hn => by simp only [mayYield, Bool.or_eq_true]; exact Or.inr (ih.1 hn),
           fun ho => by simp only [mayRaise, Bool.or_eq_true]; exact Or.inr (ih.2 ho)⟩
  | ifRaise => exact ⟨fun h => by omega, fun _ => by simp [mayRaise]⟩
  | ifTrue _ _ ih =>
    exact ⟨fun hn => by simp only [mayYield, Bool.or_eq_true]; exact Or.inl (ih.1 hn), fun _ => by simp [mayRaise]⟩
  | ifFalse _ _ _ ih =>
    exact ⟨fun hn => by simp only [mayYield, Bool.or_eq_true]; exact Or.inr (ih.1 hn), fun _ => by simp [mayRaise]⟩
  | loopDone => exact ⟨fun h => by omega, fun h => by cases h⟩
  | loopBrk _ ih => exact ⟨fun hn => by simp only [mayYield]; exact ih.1 hn, fun h => by cases h⟩
  | @loopStep b n m o o' _ _ _ ihb ihl =>
    refine ⟨fun hn => ?_, fun ho => ihl.2 ho⟩
    by_cases h0 : 0 < n
    · simp only [mayYield]; exact ihb.1 h0
    · exact ihl.1 (by omega)
  | loopExit _ _ ih =>
    exact ⟨fun hn => by simp only [mayYield]; exact ih.1 hn, fun ho => by simp only [mayRaise]; exact ih.2 ho⟩
  | @tryNoExc body hs fin n m o o' _ hne _ ihb ihf =>
    refine ⟨fun hn => ?_, fun ho => ?_⟩
    · simp only [mayYield, Bool.or_eq_true]
      by_cases h0 : 0 < n
      · exact Or.inl (Or.inl (ihb.1 h0))
      · exact Or.inr (ihf.1 (by omega))
    · simp only [mayRaise, Bool.or_eq_true]
      by_cases h' : o' = .normal
      · simp only [h', if_true] at ho; exact absurd ho hne
      · simp only [h', if_false] at ho; exact Or.inr (ihf.2 ho)
  | @tryUncaught body hs fin n m o' _ _ ihb ihf =>
    refine ⟨fun hn => ?_, fun _ => ?_⟩
    · simp only [mayYield, Bool.or_eq_true]
      by_cases h0 : 0 < n
      · exact Or.inl (Or.inl (ihb.1 h0))
      · exact Or.inr (ihf.1 (by omega))
    · simp only [mayRaise, Bool.or_eq_true]; exact Or.inl (Or.inl (ihb.2 rfl))
  | @tryCaught body hs fin h n k m o o' _ hm _ _ ihb ihh ihf =>
    refine ⟨fun hn => ?_, fun _ => ?_⟩
    · simp only [mayYield, Bool.or_eq_true]
      by_cases h0 : 0 < n
      · exact Or.inl (Or.inl (ihb.1 h0))
      · by_cases h1 : 0 < k
        · exact Or.inl (Or.inr (mayYieldL_mem hm (ihh.1 h1)))
        · exact Or.inr (ihf.1 (by omega))
    · simp only [mayRaise, Bool.or_eq_true]; exact Or.inl (Or.inl (ihb.2 rfl))

/-- Analysis 2 is sound: in a `quiet` term every execution ending with an exception has yielded nothing. -/
theorem quiet_sound {s : G} {n : Nat} {o : Out} (h : Run encT stuck s n o) :
    quiet s = true → o = .raised → n = 0 := by
  induction h with
  | atomOk _ => intros; rfl
  | atomRaise => intros; rfl
  | raise_ => intros; rfl
  | reraise => intros; rfl
  | ret => intros; rfl
  | brk => intros; rfl
  | cont => intros; rfl
  | yield_ => intro _ h; cases h
  | writeOk => intros; rfl
  | writeRaise => intros; rfl
  | seqStop _ _ ih =>
    intro hq ho
    simp only [quiet, Bool.and_eq_true] at hq
    exact ih hq.1.1 ho
  | @seqGo a b n m o ha hb _ ihb =>
    intro hq ho
    simp only [quiet, Bool.and_eq_true, Bool.not_eq_true', Bool.and_eq_false_iff] at hq
    have hm := ihb hq.1.2 ho
    have hr := (may_sound hb).2 ho
    by_cases h0 : 0 < n
    · have hy := (may_sound ha).1 h0
      rcases hq.2 with h | h
      · rw [hy] at h; cases h
      · rw [hr] at h; cases h
    · omega
  | iteL _ ih => intro hq ho; simp only [quiet, Bool.and_eq_true] at hq; exact ih hq.1 ho
  | iteR _ ih => intro hq ho; simp only [quiet, Bool.and_eq_true] at hq; exact ih hq.2 ho
  | ifRaise => intros; rfl
  | ifTrue _ _ ih => intro hq ho; simp only [quiet, Bool.and_eq_true] at hq; exact ih hq.1 ho
  | ifFalse _ _ _ ih => intro hq ho; simp only [quiet, Bool.and_eq_true] at hq; exact ih hq.2 ho
  | loopDone => intros; rfl
  | loopBrk _ _ => intro _ ho; cases ho
  | @loopStep b n m o o' hb _ hl _ ihl =>
    intro hq ho
    have hm := ihl hq ho
    have hr := (may_sound hl).2 ho
    simp only [quiet, Bool.and_eq_true, Bool.not_eq_true', Bool.and_eq_false_iff] at hq
    simp only [mayRaise] at hr
    by_cases h0 : 0 < n
    · have hy := (may_sound hb).1 h0
      rcases hq.2 with h | h
      · rw [hy] at h; cases h
      · rw [hr] at h; cases h
    · omega
  | loopExit _ _ ih =>
    intro hq ho
    simp only [quiet, Bool.and_eq_true] at hq
    exact ih hq.1 ho
  | @tryNoExc body hs fin n m o o' hb hne hf _ ihf =>
    intro hq ho
    simp only [quiet, Bool.and_eq_true, Bool.not_eq_true', Bool.and_eq_false_iff, Bool.or_eq_false_iff] at hq
    by_cases h' : o' = .normal
    · simp only [h', if_true] at ho; exact absurd ho hne
    · simp only [h', if_false] at ho
      have hm := ihf hq.1.1.2 ho
      have hr := (may_sound hf).2 ho
      by_cases h0 : 0 < n
      · have hy := (may_sound hb).1 h0
        rcases hq.1.2 with h | h
        · rw [hy] at h; cases h.1
        · rw [hr] at h; cases h
      · omega
  | @tryUncaught body hs fin n m o' hb hf ihb ihf =>
    intro hq ho
    simp only [quiet, Bool.and_eq_true, Bool.not_eq_true', Bool.and_eq_false_iff, Bool.or_eq_false_iff] at hq
    have hn := ihb hq.1.1.1.1 rfl
    have hbr := (may_sound hb).2 rfl
    by_cases h0 : 0 < m
    · have hy := (may_sound hf).1 h0
      rcases hq.2 with h | h
      · rw [hy] at h; cases h
      · rw [hbr] at h; cases h.1
    · omega
  | @tryCaught body hs fin h n k m o o' hb hm hh hf ihb ihh ihf =>
    intro hq ho
    simp only [quiet, Bool.and_eq_true, Bool.not_eq_true', Bool.and_eq_false_iff, Bool.or_eq_false_iff] at hq
    have hn := ihb hq.1.1.1.1 rfl
    have hbr := (may_sound hb).2 rfl
    by_cases h0 : 0 < m
    · have hy := (may_sound hf).1 h0
      rcases hq.2 with h | h
      · rw [hy] at h; cases h
      · rw [hbr] at h; cases h.1
    · by_cases h' : o' = .normal
      · simp only [h', if_true] at ho
        have hk := ihh (quietL_mem hm hq.1.1.1.2) ho
        omega
      · simp only [h', if_false] at ho
        have hr := (may_sound hf).2 ho
        by_cases h1 : 0 < k
        · have hy := mayYieldL_mem hm ((may_sound hh).1 h1)
          rcases hq.1.2 with h | h
          · rw [hy] at h; cases h.2
          · rw [hr] at h; cases h
        · omega

end S2T.Guard
