import S2T.Lemmas.PyPaths
import S2T.Py.SharePoint
/-!
Lemmas about the fourth prelude part (`S2T/Py/SharePoint.lean`) used by `Props/C18_Src.lean`: the string
surgery of `_parse_iso_datetime` in terms of the list functions the hand model `S2T.SP.parseIso` is written with.
Core Lean only.
-/
namespace S2T.Py
open S2T.SP (isAsciiDigit digitsVal microOf)

/-- `s.endswith(c)` for a one-character `c` -/
theorem endswith_singleton (s : Str) (c : Char) : endswith s [c] = decide (s.getLast? = some c) := by
  simp only [endswith, List.isSuffixOf, List.reverse_singleton]
  rw [← List.head?_reverse]
  cases s.reverse with
  | nil => simp [List.isPrefixOf]
  | cons x r =>
    simp only [List.isPrefixOf, List.head?_cons, Option.some.injEq, Bool.and_true]
    by_cases h : x = c <;> simp [h, @eq_comm _ c x]

/-- `s.split(c, 1)` of a string that contains `c`: before the first `c`, after it -/
theorem splitOnce_of_contains (c : Char) (s : Str) (h : s.contains c = true) :
    splitOnce c s = [s.takeWhile (· ≠ c), (s.dropWhile (· ≠ c)).drop 1] := by
  simp only [splitOnce, h, if_true]

theorem splitOnce_of_not_contains (c : Char) (s : Str) (h : s.contains c = false) : splitOnce c s = [s] := by
  simp only [splitOnce, h, Bool.false_eq_true, if_false]

@[simp] theorem unpack2_pair {α} (a b : α) : unpack2 [a, b] = Except.ok (a, b) := rfl
@[simp] theorem unpack2_single {α} (a : α) : unpack2 [a] = Except.error pValueError := rfl

/-- slices with a non-negative bound -/
@[simp] theorem pSlice_to_nat {α} (xs : List α) (i : Nat) : pSlice xs none (some (i : Int)) = xs.take i := by
  simp only [pSlice, pClampIndex]
  have h : ¬ ((i : Int) < 0) := by omega
  simp only [h, if_false, Int.toNat_natCast, List.drop_zero]
  rw [List.take_eq_take_iff]; omega
@[simp] theorem pSlice_from_nat {α} (xs : List α) (i : Nat) : pSlice xs (some (i : Int)) none = xs.drop i := by
  simp only [pSlice, pClampIndex]
  have h : ¬ ((i : Int) < 0) := by omega
  simp only [h, if_false, Int.toNat_natCast, List.take_length]
  by_cases hi : i ≤ xs.length
  · simp [Nat.min_eq_left hi]
  · have : xs.length ≤ i := by omega
    simp [Nat.min_eq_right this, List.drop_eq_nil_of_le this]
theorem slice_to_six {α} (xs : List α) : pSlice xs none (some 6) = xs.take 6 := pSlice_to_nat xs 6

@[simp] theorem strFindChar_some (s : Str) (c : Char) (i : Nat) (h : s.findIdx? (· == c) = some i) :
    strFindChar s c = (i : Int) := by simp [strFindChar, h]
@[simp] theorem strFindChar_none (s : Str) (c : Char) (h : s.findIdx? (· == c) = none) :
    strFindChar s c = -1 := by simp [strFindChar, h]

@[simp] theorem natCast_beq_neg_one (i : Nat) : ((i : Int) == -1) = false := by
  simp only [beq_eq_false_iff_ne, ne_eq]; omega
@[simp] theorem natCast_bne_neg_one (i : Nat) : ((i : Int) != -1) = true := by
  simp only [bne, natCast_beq_neg_one, Bool.not_false]

@[simp] theorem natCast_lt_zero (i : Nat) : ((i : Int) < 0) ↔ False :=
  ⟨fun h => by omega, False.elim⟩
@[simp] theorem natCast_ge_zero (i : Nat) : ((i : Int) ≥ 0) ↔ True := by
  constructor <;> intro _ <;> first | trivial | omega
@[simp] theorem zero_le_natCast (i : Nat) : ((0 : Int) ≤ (i : Int)) ↔ True := by
  constructor <;> intro _ <;> first | trivial | omega
@[simp] theorem zero_gt_natCast (i : Nat) : ((0 : Int) > (i : Int)) ↔ False :=
  ⟨fun h => by omega, False.elim⟩

/-! ## datetimes -/

@[simp] theorem truthy_dateTime (d : DateTime) : truthy d = true := rfl
@[simp] theorem dateTime_lt (a b : DateTime) : a < b ↔ a.us < b.us := Iff.rfl
@[simp] theorem dateTime_le (a b : DateTime) : a ≤ b ↔ a.us ≤ b.us := Iff.rfl
@[simp] theorem dateTime_gt (a b : DateTime) : a > b ↔ b.us < a.us := Iff.rfl
@[simp] theorem dateTime_ge (a b : DateTime) : a ≥ b ↔ b.us ≤ a.us := Iff.rfl

/-- an `if` between two finished computations is a finished computation -/
theorem M.ite_ok {α} (c : Prop) [Decidable c] (a b : α) :
    (if c then (Except.ok a : M α) else Except.ok b) = Except.ok (if c then a else b) := by
  split <;> rfl

/-! ## digits -/

theorem isAsciiDigit_bounds (ch : Char) (h : isAsciiDigit ch = true) : 48 ≤ ch.toNat ∧ ch.toNat ≤ 57 := by
  simp only [isAsciiDigit, Bool.and_eq_true, decide_eq_true_eq] at h
  exact h

theorem strIsAscii_of_digits (s : Str) (h : s.all isAsciiDigit = true) : strIsAscii s = true := by
  simp only [strIsAscii, List.all_eq_true, decide_eq_true_eq] at h ⊢
  intro c hc
  have := isAsciiDigit_bounds c (h c hc)
  omega

/-- `f.isascii() and f.isdigit()` is "non-empty and all ASCII digits" -/
theorem ascii_and_isdigit (env : SpEnv) (f : Str) :
    (strIsAscii f && env.isdigit f) = (!f.isEmpty && f.all isAsciiDigit) := by
  by_cases ha : strIsAscii f = true
  · simp [SpEnv.isdigit, ha]
  · have hd : f.all isAsciiDigit = false := by
      cases hh : f.all isAsciiDigit
      · rfl
      · exact absurd (strIsAscii_of_digits f hh) ha
    simp [ha, hd]
theorem isdigit_and_ascii (env : SpEnv) (f : Str) :
    (env.isdigit f && strIsAscii f) = (!f.isEmpty && f.all isAsciiDigit) := by
  rw [Bool.and_comm, ascii_and_isdigit]

theorem digitsVal_bound (l : List Char) (acc : Nat) (h : l.all isAsciiDigit = true) :
    digitsVal l acc < (acc + 1) * 10 ^ l.length := by
  induction l generalizing acc with
  | nil => simp [digitsVal]
  | cons ch r ih =>
    simp only [List.all_cons, Bool.and_eq_true] at h
    have hb := isAsciiDigit_bounds ch h.1
    have := ih (acc * 10 + (ch.toNat - '0'.toNat)) h.2
    simp only [digitsVal, List.length_cons]
    have h0 : '0'.toNat = 48 := by decide
    rw [h0] at this ⊢
    have hle : acc * 10 + (ch.toNat - 48) + 1 ≤ (acc + 1) * 10 := by omega
    calc digitsVal r (acc * 10 + (ch.toNat - 48))
        < (acc * 10 + (ch.toNat - 48) + 1) * 10 ^ r.length := this
      _ ≤ ((acc + 1) * 10) * 10 ^ r.length := Nat.mul_le_mul_right _ hle
      _ = (acc + 1) * 10 ^ (r.length + 1) := by rw [Nat.pow_succ, Nat.mul_assoc, Nat.mul_comm 10]

/-- the padded fraction: six ASCII digits -/
theorem padded_digits (f : Str) (h : f.all isAsciiDigit = true) :
    ((f ++ "000000".toList).take 6).all isAsciiDigit = true ∧ ((f ++ "000000".toList).take 6) ≠ [] := by
  constructor
  · simp only [List.all_eq_true] at h ⊢
    intro c hc
    have := List.mem_of_mem_take hc
    rcases List.mem_append.mp this with h1 | h1
    · exact h c h1
    · simp at h1; subst h1; decide
  · cases f <;> simp

theorem microOf_lt (f : Str) (h : f.all isAsciiDigit = true) : microOf f < 1000000 := by
  have hp := padded_digits f h
  have := digitsVal_bound _ 0 hp.1
  have hl : ((f ++ "000000".toList).take 6).length ≤ 6 := List.length_take_le _ _
  have : digitsVal ((f ++ "000000".toList).take 6) 0 < 10 ^ 6 :=
    Nat.lt_of_lt_of_le (by simpa using this) (Nat.pow_le_pow_right (by decide) hl)
  simpa [microOf] using this

/-- `int((f + "000000")[:6])` on a run of ASCII digits is the model's `microOf` -/
theorem intOfStr_padded (env : SpEnv) (f : Str) (h : f.all isAsciiDigit = true) :
    env.intOfStr ((f ++ "000000".toList).take 6) = Except.ok (microOf f : Int) := by
  have hp := padded_digits f h
  have hne : ((f ++ "000000".toList).take 6).isEmpty = false := by
    cases hh : (f ++ "000000".toList).take 6 with
    | nil => exact absurd hh hp.2
    | cons a b => rfl
  unfold SpEnv.intOfStr
  rw [hne, hp.1]
  simp [microOf]

theorem dtReplace_whole (d : DateTime) (k : Nat) (hk : k < 1000000) (hw : d.us % 1000000 = 0) :
    dtReplaceMicrosecond d (k : Int) = Except.ok ⟨d.us + k⟩ := by
  have h1 : (0 : Int) ≤ k ∧ (k : Int) < 1000000 := by omega
  simp only [dtReplaceMicrosecond, h1, and_self, if_true, hw, Int.sub_zero]
  rfl

end S2T.Py
