import S2T.Lemmas.AesKatVec
/-! Known-answer validation of the specification `S2T.Spec.Fips197`, evaluated by the kernel.  SP 800-38A F.2.5/F.2.6 (CBC-AES256)
    (static file; independent of the Python source) -/
namespace S2T.AesL.Kat
open S2T.Spec.Fips197
set_option maxRecDepth 100000

/-- SP 800-38A F.2.5 CBC-AES256.Encrypt -/
theorem cbc256_encrypt : cbcEncrypt key256 iv pt = cbc256 := by decide +kernel
/-- SP 800-38A F.2.6 CBC-AES256.Decrypt -/
theorem cbc256_decrypt : cbcDecrypt key256 iv cbc256 = pt := by decide +kernel

end S2T.AesL.Kat
