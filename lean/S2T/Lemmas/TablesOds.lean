import S2T.Lemmas.TablesSheet
/-! C13: ODS sheet shaping — every source cell at its place after repeat expansion, trimming, padding. -/
namespace S2T.Tables.Ods
open S2T.HtmlSkip (Str)

/-- value at column j of a row (cells beyond the row are empty) -/
def getV (row : List Val) (j : Nat) : Val := (row[j]?).getD Val.none
/-- value at (i, j) of a grid (cells beyond the grid are empty) -/
def cellAt (G : VGrid) (i j : Nat) : Val := match G[i]? with | some row => getV row j | none => Val.none

/-- the plain expansion of a run-length encoded row / sheet: what the source sheet *is* -/
def expandRow (cells : List RCell) : List Val := cells.flatMap (fun c => List.replicate c.1 c.2)
def expand (rows : List RRow) : VGrid := rows.flatMap (fun r => List.replicate r.1 (expandRow r.2))

def RowEq (a b : List Val) : Prop := ∀ j, getV a j = getV b j
def GridEq (A B : VGrid) : Prop := ∀ i j, cellAt A i j = cellAt B i j

theorem replicate_add' {α : Type} (m n : Nat) (a : α) : List.replicate (m + n) a = List.replicate m a ++ List.replicate n a := by
  induction m with
  | zero => simp
  | succ k ih => rw [Nat.succ_add, List.replicate_succ, ih]; rfl

theorem getV_append_none (acc : List Val) (p : Nat) (j : Nat) :
    getV (acc ++ List.replicate p Val.none) j = getV acc j := by
  unfold getV
  rw [List.getElem?_append]
  split
  · rfl
  · rename_i h
    have : acc[j]? = none := by simp; omega
    rw [this, List.getElem?_replicate]
    split <;> rfl

theorem rowValues_eq (cells : List RCell) : ∀ (acc : List Val) (p : Nat),
    RowEq (rowValues cells acc p) (acc ++ List.replicate p Val.none ++ expandRow cells) := by
  induction cells with
  | nil =>
    intro acc p j
    simp only [rowValues, expandRow, List.flatMap_nil, List.append_nil]
    exact (getV_append_none acc p j).symm
  | cons c r ih =>
    intro acc p j
    obtain ⟨rep, v⟩ := c
    simp only [rowValues]
    by_cases hv : (v == Val.none) = true
    · have hv' : v = Val.none := by simpa using hv
      rw [if_pos hv, ih acc (p + rep) j]
      have : acc ++ List.replicate (p + rep) Val.none ++ expandRow r
          = acc ++ List.replicate p Val.none ++ expandRow ((rep, v) :: r) := by
        simp only [expandRow, List.flatMap_cons, hv', replicate_add', List.append_assoc]
      rw [this]
    · rw [if_neg hv, ih _ 0 j]
      simp [expandRow]

theorem rowEq_nil_getV {e : List Val} (h : RowEq [] e) (j : Nat) : getV e j = Val.none := by
  rw [← h j]; simp [getV]

theorem cellAt_append_left {A B : VGrid} {i : Nat} (h : i < A.length) (j : Nat) : cellAt (A ++ B) i j = cellAt A i j := by
  unfold cellAt; rw [List.getElem?_append_left h]

theorem cellAt_append_right {A B : VGrid} {i : Nat} (h : A.length ≤ i) (j : Nat) :
    cellAt (A ++ B) i j = cellAt B (i - A.length) j := by
  unfold cellAt; rw [List.getElem?_append_right h]

/-- replacing a block of equal rows by an equivalent row changes no cell -/
theorem gridEq_mid (X Y : VGrid) (n : Nat) {a b : List Val} (h : RowEq a b) :
    GridEq (X ++ List.replicate n a ++ Y) (X ++ List.replicate n b ++ Y) := by
  intro i j
  by_cases h1 : i < X.length
  · rw [List.append_assoc, List.append_assoc, cellAt_append_left h1, cellAt_append_left h1]
  · have h1' : X.length ≤ i := by omega
    rw [List.append_assoc, List.append_assoc, cellAt_append_right h1', cellAt_append_right h1']
    by_cases h2 : i - X.length < n
    · rw [cellAt_append_left (by simpa using h2), cellAt_append_left (by simpa using h2)]
      unfold cellAt
      simp only [List.getElem?_replicate, h2, if_true]
      exact h j
    · have h2a : (List.replicate n a).length ≤ i - X.length := by simp; omega
      have h2b : (List.replicate n b).length ≤ i - X.length := by simp; omega
      rw [cellAt_append_right h2a, cellAt_append_right h2b]
      simp

theorem gridEq_trans {A B C : VGrid} (h1 : GridEq A B) (h2 : GridEq B C) : GridEq A C :=
  fun i j => (h1 i j).trans (h2 i j)

/-- appending rows without data changes no cell -/
theorem gridEq_append_empty (A B : VGrid) (hB : ∀ row ∈ B, ∀ j, getV row j = Val.none) : GridEq A (A ++ B) := by
  intro i j
  by_cases h1 : i < A.length
  · rw [cellAt_append_left h1]
  · have h1' : A.length ≤ i := by omega
    rw [cellAt_append_right h1']
    have e1 : cellAt A i j = Val.none := by
      unfold cellAt
      have : A[i]? = none := by simp; omega
      rw [this]
    rw [e1]
    unfold cellAt
    cases hb : B[i - A.length]? with
    | none => rfl
    | some row => exact (hB row (List.mem_of_getElem? hb) j).symm

theorem rawRows_eq (rows : List RRow) : ∀ (acc : VGrid) (p : Nat),
    GridEq (rawRows rows acc p) (acc ++ List.replicate p [] ++ expand rows) := by
  induction rows with
  | nil =>
    intro acc p
    simp only [rawRows, expand, List.flatMap_nil, List.append_nil]
    apply gridEq_append_empty
    intro row hrow j
    have := List.eq_of_mem_replicate hrow
    subst this
    simp [getV]
  | cons r rs ih =>
    intro acc p
    obtain ⟨rep, cells⟩ := r
    have hrv : RowEq (rowValues cells [] 0) (expandRow cells) := by
      have := rowValues_eq cells [] 0
      simpa using this
    simp only [rawRows]
    have hexp : expand ((rep, cells) :: rs) = List.replicate rep (expandRow cells) ++ expand rs := by
      simp [expand]
    by_cases he : (rowValues cells [] 0).isEmpty = true
    · rw [if_pos he]
      have hnil : rowValues cells [] 0 = [] := by simpa using he
      rw [hnil] at hrv
      apply gridEq_trans (ih acc (p + rep))
      rw [hexp, replicate_add']
      have := gridEq_mid (acc ++ List.replicate p []) (expand rs) rep hrv
      simpa [List.append_assoc] using this
    · rw [if_neg he]
      apply gridEq_trans (ih _ 0)
      rw [hexp]
      have := gridEq_mid (acc ++ List.replicate p []) (expand rs) rep hrv
      simpa [List.append_assoc] using this

theorem mem_takeWhile' {α : Type} {p : α → Bool} {l : List α} {a : α} (h : a ∈ l.takeWhile p) : p a = true := by
  induction l with
  | nil => simp at h
  | cons x r ih =>
    simp only [List.takeWhile_cons] at h
    by_cases hx : p x = true
    · rw [if_pos hx] at h
      rcases List.mem_cons.mp h with e | e
      · rw [e]; exact hx
      · exact ih e
    · rw [if_neg hx] at h; simp at h

/-- the trailing rows removed by `trimRows` hold no data -/
theorem trimRows_split (G : VGrid) : ∃ B : VGrid, G = trimRows G ++ B ∧ ∀ row ∈ B, row.all (· == Val.none) = true := by
  refine ⟨(G.reverse.takeWhile (fun row => row.all (· == Val.none))).reverse, ?_, ?_⟩
  · unfold trimRows
    rw [← List.reverse_append, List.takeWhile_append_dropWhile, List.reverse_reverse]
  · intro row hrow
    rw [List.mem_reverse] at hrow
    exact mem_takeWhile' (p := fun row : List Val => row.all (· == Val.none)) hrow

theorem all_none_getV {row : List Val} (h : row.all (· == Val.none) = true) (j : Nat) : getV row j = Val.none := by
  unfold getV
  cases hj : row[j]? with
  | none => rfl
  | some v =>
    have := List.all_eq_true.mp h v (List.mem_of_getElem? hj)
    simpa using this

theorem trimRows_eq (G : VGrid) : GridEq (trimRows G) G := by
  obtain ⟨B, hB, hall⟩ := trimRows_split G
  have := gridEq_append_empty (trimRows G) B (fun row hrow j => all_none_getV (hall row hrow) j)
  rw [← hB] at this
  exact this

/-- no data at or beyond column `lastDataCol` -/
theorem beyond_lastDataCol (G : VGrid) (row : List Val) (hrow : row ∈ G) (j : Nat) (hj : lastDataCol G ≤ j) :
    getV row j = Val.none := by
  unfold getV
  cases hx : row[j]? with
  | none => rfl
  | some x =>
    have h1 := (Xlsx.foldl_max_mono (Xlsx.lastIdx (fun v => v != Val.none)) G 0).2 row hrow
    have := Xlsx.lastIdx_after (fun v => v != Val.none) row j (by unfold lastDataCol at hj; omega) x hx
    simpa using this

theorem getV_padRow (w : Nat) (row : List Val) (j : Nat) : getV (padRow w row) j = if j < w then getV row j else Val.none := by
  unfold getV padRow
  rw [List.getElem?_map]
  by_cases h : j < w
  · rw [List.getElem?_range h]; simp [h]
    cases row[j]? <;> rfl
  · have : (List.range w)[j]? = none := by simp; omega
    simp [this, h]

/-- ODS: every cell of the returned table is the source cell at the same position; beyond the
    returned table the source sheet is empty -/
theorem sheetData_cells (rows : List RRow) : GridEq (sheetData rows) (expand rows) := by
  intro i j
  have hraw : GridEq (trimRows (rawRows rows [] 0)) (expand rows) := by
    apply gridEq_trans (trimRows_eq _)
    have := rawRows_eq rows [] 0
    simpa using this
  rw [← hraw i j]
  unfold sheetData
  simp only
  generalize trimRows (rawRows rows [] 0) = raw
  unfold cellAt
  rw [List.getElem?_map]
  cases hr : raw[i]? with
  | none => rfl
  | some row =>
    simp only [Option.map_some, getV_padRow]
    split
    · rfl
    · rename_i h
      exact (beyond_lastDataCol raw row (List.mem_of_getElem? hr) j (by omega)).symm

/-- the returned table is rectangular -/
theorem sheetData_rect (rows : List RRow) :
    ∃ w, ∀ row ∈ sheetData rows, row.length = w := by
  refine ⟨lastDataCol (trimRows (rawRows rows [] 0)), ?_⟩
  intro row hrow
  unfold sheetData at hrow
  simp only [List.mem_map] at hrow
  obtain ⟨r, _, rfl⟩ := hrow
  simp [padRow]

/-- a row with data keeps its data when padded / cut to `lastDataCol` of a grid it belongs to -/
theorem padRow_keeps_data (G : VGrid) (row : List Val) (hrow : row ∈ G) (h : row.all (· == Val.none) = false) :
    (padRow (lastDataCol G) row).all (· == Val.none) = false := by
  have hex : ∃ v ∈ row, (v == Val.none) = false := by
    rw [List.all_eq_false] at h
    obtain ⟨v, hv, hp⟩ := h
    exact ⟨v, hv, by simpa using hp⟩
  obtain ⟨v, hv, hp⟩ := hex
  obtain ⟨j, hj⟩ := List.getElem?_of_mem hv
  have hjw : j < lastDataCol G := by
    apply Nat.lt_of_not_le
    intro hle
    have := beyond_lastDataCol G row hrow j hle
    unfold getV at this
    rw [hj] at this
    simp at this
    rw [this] at hp
    simp at hp
  rw [List.all_eq_false]
  refine ⟨v, ?_, by simpa using hp⟩
  have := getV_padRow (lastDataCol G) row j
  rw [if_pos hjw] at this
  unfold getV at this
  rw [hj] at this
  cases hk : (padRow (lastDataCol G) row)[j]? with
  | none =>
    have : j < (padRow (lastDataCol G) row).length := by simp [padRow]; exact hjw
    have := List.getElem?_eq_none_iff.mp hk
    omega
  | some x =>
    rw [hk] at this
    simp at this
    rw [this] at hk
    exact List.mem_of_getElem? hk

/-- tight below: the last row of the returned table holds data -/
theorem sheetData_last_row (rows : List RRow) (row : List Val) (h : (sheetData rows).getLast? = some row) :
    row.all (· == Val.none) = false := by
  unfold sheetData at h
  simp only at h
  generalize hraw : trimRows (rawRows rows [] 0) = raw at h
  rw [List.getLast?_map] at h
  cases hl : raw.getLast? with
  | none => rw [hl] at h; simp at h
  | some r0 =>
    rw [hl] at h
    simp only [Option.map_some, Option.some.injEq] at h
    rw [← h]
    have hmem : r0 ∈ raw := List.mem_of_getLast? hl
    apply padRow_keeps_data raw r0 hmem
    have hd := List.head?_dropWhile_not (fun row : List Val => row.all (· == Val.none)) (rawRows rows [] 0).reverse
    have : raw.getLast? = ((rawRows rows [] 0).reverse.dropWhile (fun row => row.all (· == Val.none))).head? := by
      rw [← hraw]; unfold trimRows; rw [List.getLast?_reverse]
    rw [← this, hl] at hd
    exact hd

/-- tight on the right: some row holds data in the last column (so the width is the last column with data) -/
theorem sheetData_last_col (rows : List RRow) (w : Nat) (hw : w > 0) (hall : ∀ row ∈ sheetData rows, row.length = w)
    (hne : sheetData rows ≠ []) : ∃ row ∈ sheetData rows, getV row (w - 1) ≠ Val.none := by
  unfold sheetData at hall hne ⊢
  simp only at hall hne ⊢
  generalize trimRows (rawRows rows [] 0) = raw at hall hne ⊢
  have hw' : lastDataCol raw = w := by
    cases raw with
    | nil => simp at hne
    | cons r rs => have := hall (padRow (lastDataCol (r :: rs)) r) (by simp); simpa [padRow] using this
  -- some row attains the maximum
  have hmax : ∃ row ∈ raw, Xlsx.lastIdx (fun v => v != Val.none) row = w := by
    have : ∀ (G : VGrid) (m : Nat), G.foldl (fun m row => max m (Xlsx.lastIdx (fun v => v != Val.none) row)) m = m ∨
        ∃ row ∈ G, Xlsx.lastIdx (fun v => v != Val.none) row = G.foldl (fun m row => max m (Xlsx.lastIdx (fun v => v != Val.none) row)) m := by
      intro G
      induction G with
      | nil => intro m; left; rfl
      | cons r rs ih =>
        intro m
        simp only [List.foldl_cons]
        rcases ih (max m (Xlsx.lastIdx (fun v => v != Val.none) r)) with h | ⟨row, hr, he⟩
        · rw [h]
          by_cases hm : Xlsx.lastIdx (fun v => v != Val.none) r ≤ m
          · left; omega
          · right; exact ⟨r, by simp, by omega⟩
        · right; exact ⟨row, by simp [hr], he⟩
    rcases this raw 0 with h | ⟨row, hr, he⟩
    · unfold lastDataCol at hw'; omega
    · exact ⟨row, hr, by unfold lastDataCol at hw'; omega⟩
  obtain ⟨row, hr, he⟩ := hmax
  refine ⟨padRow (lastDataCol raw) row, List.mem_map.mpr ⟨row, hr, rfl⟩, ?_⟩
  rw [getV_padRow, hw', if_pos (by omega)]
  obtain ⟨x, hx, hp⟩ := Xlsx.lastIdx_at (fun v => v != Val.none) row (by omega)
  rw [he] at hx
  unfold getV
  rw [hx]
  simpa using hp

end S2T.Tables.Ods
