import S2T.Lemmas.TablesSheet
/-! C13: ODS sheet shaping — every source cell at its place after repeat expansion, trimming, padding. -/
namespace S2T.Tables.Ods
open S2T.HtmlSkip (Str)

/-- value at column j of a row (cells beyond the row are empty) -/
def getV (row : List Val) (j : Nat) : Val := (row[j]?).getD Val.none
/-- value at (i, j) of a grid (cells beyond the grid are empty) -/
def cellAt (G : VGrid) (i j : Nat) : Val := match G[i]? with | some row => getV row j | none => Val.none

/-- the plain expansion of a run-length encoded row / sheet: what the source sheet *is* -/
def expandRow (cells : List RCell) : List Val := cells.flatMap (fun c => List.replicate c.1 c.2)
def expand (rows : List RRow) : VGrid := rows.flatMap (fun r => List.replicate r.1 (expandRow r.2))

def RowEq (a b : List Val) : Prop := ∀ j, getV a j = getV b j
def GridEq (A B : VGrid) : Prop := ∀ i j, cellAt A i j = cellAt B i j

theorem replicate_add' {α : Type} (m n : Nat) (a : α) : List.replicate (m + n) a = List.replicate m a ++ List.replicate n a := by
  induction m with
  | zero => simp
  | succ k ih => rw [Nat.succ_add, List.replicate_succ, ih]; rfl

theorem getV_append_none (acc : List Val) (p : Nat) (j : Nat) :
    getV (acc ++ List.replicate p Val.none) j = getV acc j := by
  unfold getV
  rw [List.getElem?_append]
  split
  · rfl
  · rename_i h
    have : acc[j]? = none := by simp; omega
    rw [this, List.getElem?_replicate]
    split <;> rfl

theorem cellAt_append_left {A B : VGrid} {i : Nat} (h : i < A.length) (j : Nat) : cellAt (A ++ B) i j = cellAt A i j := by
  unfold cellAt; rw [List.getElem?_append_left h]

theorem cellAt_append_right {A B : VGrid} {i : Nat} (h : A.length ≤ i) (j : Nat) :
    cellAt (A ++ B) i j = cellAt B (i - A.length) j := by
  unfold cellAt; rw [List.getElem?_append_right h]

/-- replacing a block of equal rows by an equivalent row changes no cell -/
theorem gridEq_mid (X Y : VGrid) (n : Nat) {a b : List Val} (h : RowEq a b) :
    GridEq (X ++ List.replicate n a ++ Y) (X ++ List.replicate n b ++ Y) := by
  intro i j
  by_cases h1 : i < X.length
  · rw [List.append_assoc, List.append_assoc, cellAt_append_left h1, cellAt_append_left h1]
  · have h1' : X.length ≤ i := by omega
    rw [List.append_assoc, List.append_assoc, cellAt_append_right h1', cellAt_append_right h1']
    by_cases h2 : i - X.length < n
    · rw [cellAt_append_left (by simpa using h2), cellAt_append_left (by simpa using h2)]
      unfold cellAt
      simp only [List.getElem?_replicate, h2, if_true]
      exact h j
    · have h2a : (List.replicate n a).length ≤ i - X.length := by simp; omega
      have h2b : (List.replicate n b).length ≤ i - X.length := by simp; omega
      rw [cellAt_append_right h2a, cellAt_append_right h2b]
      simp

theorem gridEq_trans {A B C : VGrid} (h1 : GridEq A B) (h2 : GridEq B C) : GridEq A C :=
  fun i j => (h1 i j).trans (h2 i j)

/-- appending rows without data changes no cell -/
theorem gridEq_append_empty (A B : VGrid) (hB : ∀ row ∈ B, ∀ j, getV row j = Val.none) : GridEq A (A ++ B) := by
  intro i j
  by_cases h1 : i < A.length
  · rw [cellAt_append_left h1]
  · have h1' : A.length ≤ i := by omega
    rw [cellAt_append_right h1']
    have e1 : cellAt A i j = Val.none := by
      unfold cellAt
      have : A[i]? = none := by simp; omega
      rw [this]
    rw [e1]
    unfold cellAt
    cases hb : B[i - A.length]? with
    | none => rfl
    | some row => exact (hB row (List.mem_of_getElem? hb) j).symm

theorem mem_takeWhile' {α : Type} {p : α → Bool} {l : List α} {a : α} (h : a ∈ l.takeWhile p) : p a = true := by
  induction l with
  | nil => simp at h
  | cons x r ih =>
    simp only [List.takeWhile_cons] at h
    by_cases hx : p x = true
    · rw [if_pos hx] at h
      rcases List.mem_cons.mp h with e | e
      · rw [e]; exact hx
      · exact ih e
    · rw [if_neg hx] at h; simp at h

/-- the trailing rows removed by `trimRows` hold no data -/
theorem trimRows_split (G : VGrid) : ∃ B : VGrid, G = trimRows G ++ B ∧ ∀ row ∈ B, row.all (· == Val.none) = true := by
  refine ⟨(G.reverse.takeWhile (fun row => row.all (· == Val.none))).reverse, ?_, ?_⟩
  · unfold trimRows
    rw [← List.reverse_append, List.takeWhile_append_dropWhile, List.reverse_reverse]
  · intro row hrow
    rw [List.mem_reverse] at hrow
    exact mem_takeWhile' (p := fun row : List Val => row.all (· == Val.none)) hrow

theorem all_none_getV {row : List Val} (h : row.all (· == Val.none) = true) (j : Nat) : getV row j = Val.none := by
  unfold getV
  cases hj : row[j]? with
  | none => rfl
  | some v =>
    have := List.all_eq_true.mp h v (List.mem_of_getElem? hj)
    simpa using this

theorem trimRows_eq (G : VGrid) : GridEq (trimRows G) G := by
  obtain ⟨B, hB, hall⟩ := trimRows_split G
  have := gridEq_append_empty (trimRows G) B (fun row hrow j => all_none_getV (hall row hrow) j)
  rw [← hB] at this
  exact this

/-- no data at or beyond column `lastDataCol` -/
theorem beyond_lastDataCol (G : VGrid) (row : List Val) (hrow : row ∈ G) (j : Nat) (hj : lastDataCol G ≤ j) :
    getV row j = Val.none := by
  unfold getV
  cases hx : row[j]? with
  | none => rfl
  | some x =>
    have h1 := (Xlsx.foldl_max_mono (Xlsx.lastIdx (fun v => v != Val.none)) G 0).2 row hrow
    have := Xlsx.lastIdx_after (fun v => v != Val.none) row j (by unfold lastDataCol at hj; omega) x hx
    simpa using this

theorem getV_padRow (w : Nat) (row : List Val) (j : Nat) : getV (padRow w row) j = if j < w then getV row j else Val.none := by
  unfold getV padRow
  rw [List.getElem?_map]
  by_cases h : j < w
  · rw [List.getElem?_range h]; simp [h]
    cases row[j]? <;> rfl
  · have : (List.range w)[j]? = none := by simp; omega
    simp [this, h]

/-- trimming and padding of `raw_rows` -/
def sheetOf (raw : VGrid) : VGrid := (trimRows raw).map (padRow (lastDataCol (trimRows raw)))

theorem sheetData_eq (C : Caps) (rows : List RRow) : sheetData C rows = sheetOf (rawRows C rows) := rfl

/-- trimming and padding change no cell: every cell of `raw_rows` keeps its place -/
theorem sheetOf_cells (raw0 : VGrid) : GridEq (sheetOf raw0) raw0 := by
  intro i j
  rw [← trimRows_eq raw0 i j]
  unfold sheetOf
  generalize trimRows raw0 = raw
  unfold cellAt
  rw [List.getElem?_map]
  cases hr : raw[i]? with
  | none => rfl
  | some row =>
    simp only [Option.map_some, getV_padRow]
    split
    · rfl
    · rename_i h
      exact (beyond_lastDataCol raw row (List.mem_of_getElem? hr) j (by omega)).symm

theorem sheetOf_rect (raw0 : VGrid) : ∃ w, ∀ row ∈ sheetOf raw0, row.length = w := by
  refine ⟨lastDataCol (trimRows raw0), ?_⟩
  intro row hrow
  unfold sheetOf at hrow
  simp only [List.mem_map] at hrow
  obtain ⟨r, _, rfl⟩ := hrow
  simp [padRow]
/-- a row with data keeps its data when padded / cut to `lastDataCol` of a grid it belongs to -/
theorem padRow_keeps_data (G : VGrid) (row : List Val) (hrow : row ∈ G) (h : row.all (· == Val.none) = false) :
    (padRow (lastDataCol G) row).all (· == Val.none) = false := by
  have hex : ∃ v ∈ row, (v == Val.none) = false := by
    rw [List.all_eq_false] at h
    obtain ⟨v, hv, hp⟩ := h
    exact ⟨v, hv, by simpa using hp⟩
  obtain ⟨v, hv, hp⟩ := hex
  obtain ⟨j, hj⟩ := List.getElem?_of_mem hv
  have hjw : j < lastDataCol G := by
    apply Nat.lt_of_not_le
    intro hle
    have := beyond_lastDataCol G row hrow j hle
    unfold getV at this
    rw [hj] at this
    simp at this
    rw [this] at hp
    simp at hp
  rw [List.all_eq_false]
  refine ⟨v, ?_, by simpa using hp⟩
  have := getV_padRow (lastDataCol G) row j
  rw [if_pos hjw] at this
  unfold getV at this
  rw [hj] at this
  cases hk : (padRow (lastDataCol G) row)[j]? with
  | none =>
    have : j < (padRow (lastDataCol G) row).length := by simp [padRow]; exact hjw
    have := List.getElem?_eq_none_iff.mp hk
    omega
  | some x =>
    rw [hk] at this
    simp at this
    rw [this] at hk
    exact List.mem_of_getElem? hk

/-- tight below: the last row of the returned table holds data -/
theorem sheetOf_last_row (raw0 : VGrid) (row : List Val) (h : (sheetOf raw0).getLast? = some row) :
    row.all (· == Val.none) = false := by
  unfold sheetOf at h
  generalize hraw : trimRows raw0 = raw at h
  rw [List.getLast?_map] at h
  cases hl : raw.getLast? with
  | none => rw [hl] at h; simp at h
  | some r0 =>
    rw [hl] at h
    simp only [Option.map_some, Option.some.injEq] at h
    rw [← h]
    have hmem : r0 ∈ raw := List.mem_of_getLast? hl
    apply padRow_keeps_data raw r0 hmem
    have hd := List.head?_dropWhile_not (fun row : List Val => row.all (· == Val.none)) raw0.reverse
    have : raw.getLast? = (raw0.reverse.dropWhile (fun row => row.all (· == Val.none))).head? := by
      rw [← hraw]; unfold trimRows; rw [List.getLast?_reverse]
    rw [← this, hl] at hd
    exact hd

/-- tight on the right: some row holds data in the last column (so the width is the last column with data) -/
theorem sheetOf_last_col (raw0 : VGrid) (w : Nat) (hw : w > 0) (hall : ∀ row ∈ sheetOf raw0, row.length = w)
    (hne : sheetOf raw0 ≠ []) : ∃ row ∈ sheetOf raw0, getV row (w - 1) ≠ Val.none := by
  unfold sheetOf at hall hne ⊢
  generalize trimRows raw0 = raw at hall hne ⊢
  have hw' : lastDataCol raw = w := by
    cases raw with
    | nil => simp at hne
    | cons r rs => have := hall (padRow (lastDataCol (r :: rs)) r) (by simp); simpa [padRow] using this
  -- some row attains the maximum
  have hmax : ∃ row ∈ raw, Xlsx.lastIdx (fun v => v != Val.none) row = w := by
    have : ∀ (G : VGrid) (m : Nat), G.foldl (fun m row => max m (Xlsx.lastIdx (fun v => v != Val.none) row)) m = m ∨
        ∃ row ∈ G, Xlsx.lastIdx (fun v => v != Val.none) row = G.foldl (fun m row => max m (Xlsx.lastIdx (fun v => v != Val.none) row)) m := by
      intro G
      induction G with
      | nil => intro m; left; rfl
      | cons r rs ih =>
        intro m
        simp only [List.foldl_cons]
        rcases ih (max m (Xlsx.lastIdx (fun v => v != Val.none) r)) with h | ⟨row, hr, he⟩
        · rw [h]
          by_cases hm : Xlsx.lastIdx (fun v => v != Val.none) r ≤ m
          · left; omega
          · right; exact ⟨r, by simp, by omega⟩
        · right; exact ⟨row, by simp [hr], he⟩
    rcases this raw 0 with h | ⟨row, hr, he⟩
    · unfold lastDataCol at hw'; omega
    · exact ⟨row, hr, by unfold lastDataCol at hw'; omega⟩
  obtain ⟨row, hr, he⟩ := hmax
  refine ⟨padRow (lastDataCol raw) row, List.mem_map.mpr ⟨row, hr, rfl⟩, ?_⟩
  rw [getV_padRow, hw', if_pos (by omega)]
  obtain ⟨x, hx, hp⟩ := Xlsx.lastIdx_at (fun v => v != Val.none) row (by omega)
  rw [he] at hx
  unfold getV
  rw [hx]
  simpa using hp

/-! ## the capped runs -/

def allNone (l : List Val) : Bool := l.all (· == Val.none)

/-- no collapsed run of empty cells has a value behind it in its row -/
def noGapRow (C : Caps) : List RCell → Bool
  | [] => true
  | c :: r => (if c.2 == Val.none && c.1 > C.cell then allNone (expandRow r) else true) && noGapRow C r

/-- … and no collapsed run of empty rows has a row with data below it (a row element repeated 0 times
    contributes nothing, whatever its cells) -/
def noGapRows (C : Caps) : List RRow → Bool
  | [] => true
  | r :: rs => (r.1 == 0 || noGapRow C r.2)
      && (if r.1 > C.row && allNone (rowValues C r.2) then (expand rs).all allNone else true)
      && noGapRows C rs

theorem allNone_append (a b : List Val) : allNone (a ++ b) = (allNone a && allNone b) := by simp [allNone]
theorem allNone_replicate_none (n : Nat) : allNone (List.replicate n Val.none) = true := by simp [allNone]

theorem allNone_cellPiece (C : Caps) (c : RCell) : allNone (cellPiece C c) = allNone (List.replicate c.1 c.2) := by
  unfold cellPiece
  split
  · rename_i h
    simp only [Bool.and_eq_true, beq_iff_eq] at h
    rw [h.1, allNone_replicate_none]; simp [allNone]
  · rfl

theorem allNone_rowValues (C : Caps) (cells : List RCell) : allNone (rowValues C cells) = allNone (expandRow cells) := by
  induction cells with
  | nil => rfl
  | cons c r ih =>
    simp only [rowValues, expandRow, List.flatMap_cons] at ih ⊢
    rw [allNone_append, allNone_append, allNone_cellPiece, ih]

theorem rowEq_of_allNone {a b : List Val} (ha : allNone a = true) (hb : allNone b = true) : RowEq a b :=
  fun j => (all_none_getV ha j).trans (all_none_getV hb j).symm

theorem rowEq_append_left (p : List Val) {a b : List Val} (h : RowEq a b) : RowEq (p ++ a) (p ++ b) := by
  intro j
  unfold getV
  rw [List.getElem?_append, List.getElem?_append]
  split
  · rfl
  · exact h (j - p.length)

theorem rowValues_eq (C : Caps) (cells : List RCell) (h : noGapRow C cells = true) :
    RowEq (rowValues C cells) (expandRow cells) := by
  induction cells with
  | nil => intro j; rfl
  | cons c r ih =>
    simp only [noGapRow, Bool.and_eq_true] at h
    by_cases hc : (c.2 == Val.none && c.1 > C.cell) = true
    · have hr : allNone (expandRow r) = true := by
        have := h.1; have hc2 := hc; rw [Bool.and_eq_true] at hc2; rw [if_pos hc2] at this; exact this
      have hv : c.2 = Val.none := by simp only [Bool.and_eq_true, beq_iff_eq] at hc; exact hc.1
      apply rowEq_of_allNone
      · rw [allNone_rowValues]
        simp only [expandRow, List.flatMap_cons] at hr ⊢
        rw [allNone_append, hr, hv, allNone_replicate_none]; rfl
      · simp only [expandRow, List.flatMap_cons] at hr ⊢
        rw [allNone_append, hr, hv, allNone_replicate_none]; rfl
    · have e : cellPiece C c = List.replicate c.1 c.2 := by unfold cellPiece; rw [if_neg hc]
      simp only [rowValues, expandRow, List.flatMap_cons]
      rw [e]
      exact rowEq_append_left _ (ih h.2)

theorem cellAt_allNone {G : VGrid} (h : G.all allNone = true) (i j : Nat) : cellAt G i j = Val.none := by
  unfold cellAt
  cases hr : G[i]? with
  | none => rfl
  | some row => exact all_none_getV (List.all_eq_true.mp h row (List.mem_of_getElem? hr)) j

theorem gridEq_app (n : Nat) {a b : List Val} (h : RowEq a b) {X Y : VGrid} (hxy : GridEq X Y) :
    GridEq (List.replicate n a ++ X) (List.replicate n b ++ Y) := by
  intro i j
  by_cases h2 : i < n
  · rw [cellAt_append_left (by simpa using h2), cellAt_append_left (by simpa using h2)]
    unfold cellAt
    simp only [List.getElem?_replicate, h2, if_true]
    exact h j
  · rw [cellAt_append_right (by simp; omega), cellAt_append_right (by simp; omega)]
    simp only [List.length_replicate]
    exact hxy _ j

theorem expand_cons (r : RRow) (rs : List RRow) : expand (r :: rs) = List.replicate r.1 (expandRow r.2) ++ expand rs := by
  simp [expand]

theorem rawRows_cons (C : Caps) (r : RRow) (rs : List RRow) : rawRows C (r :: rs) = rowPiece C r ++ rawRows C rs := by
  simp [rawRows]

/-- rows below which the source holds no data give `raw_rows` without data -/
theorem rawRows_allNone (C : Caps) (rows : List RRow) (h : (expand rows).all allNone = true) :
    (rawRows C rows).all allNone = true := by
  induction rows with
  | nil => rfl
  | cons r rs ih =>
    rw [expand_cons, List.all_append, Bool.and_eq_true] at h
    rw [rawRows_cons, List.all_append, ih h.2, Bool.and_true]
    unfold rowPiece
    simp only
    split
    · rename_i hc
      simp only [Bool.and_eq_true] at hc
      simpa [allNone] using hc.2
    · have h1 := h.1
      rw [List.all_replicate] at h1 ⊢
      by_cases h0 : r.1 = 0
      · simp [h0]
      · simp only [h0, if_false] at h1 ⊢
        rw [allNone_rowValues]; exact h1

theorem rawRows_eq (C : Caps) (rows : List RRow) (h : noGapRows C rows = true) : GridEq (rawRows C rows) (expand rows) := by
  induction rows with
  | nil => intro i j; rfl
  | cons r rs ih =>
    simp only [noGapRows, Bool.and_eq_true] at h
    obtain ⟨⟨h1, h2⟩, h3⟩ := h
    rw [rawRows_cons, expand_cons]
    by_cases hc : (r.1 > C.row && allNone (rowValues C r.2)) = true
    · have hbelow : (expand rs).all allNone = true := by
        have hc2 := hc; rw [Bool.and_eq_true] at hc2; rw [if_pos hc2] at h2; exact h2
      have hrv : allNone (rowValues C r.2) = true := by simp only [Bool.and_eq_true] at hc; exact hc.2
      intro i j
      rw [cellAt_allNone, cellAt_allNone]
      · rw [List.all_append, hbelow, Bool.and_true, List.all_replicate]
        split
        · rfl
        · rw [← allNone_rowValues C]; exact hrv
      · rw [List.all_append, rawRows_allNone C rs hbelow, Bool.and_true]
        unfold rowPiece
        simp only
        have hc' : (r.1 > C.row && (rowValues C r.2).all (· == Val.none)) = true := hc
        rw [if_pos hc']
        simpa using hrv
    · have e : rowPiece C r = List.replicate r.1 (rowValues C r.2) := by
        unfold rowPiece
        simp only
        have hc' : ¬ (r.1 > C.row && (rowValues C r.2).all (· == Val.none)) = true := hc
        rw [if_neg hc']
      rw [e]
      by_cases h0 : r.1 = 0
      · rw [h0]; exact ih h3
      · have h1' : noGapRow C r.2 = true := by
          rcases (Bool.or_eq_true _ _).mp h1 with hz | hz
          · exact absurd (by simpa using hz) h0
          · exact hz
        exact gridEq_app r.1 (rowValues_eq C r.2 h1') (ih h3)

/-- ODS: when no collapsed run of empty cells / rows has data behind it, every cell of the returned
    table is the source cell at the same position, and beyond the returned table the source is empty -/
theorem sheetData_cells (C : Caps) (rows : List RRow) (h : noGapRows C rows = true) :
    GridEq (sheetData C rows) (expand rows) :=
  gridEq_trans (sheetOf_cells _) (rawRows_eq C rows h)

end S2T.Tables.Ods
