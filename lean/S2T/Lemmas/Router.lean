import S2T.Model.Router
/-! Helper lemmas for the routing theorems (C07). -/
namespace S2T.Router

theorem lookup_isSome_iff {β} (k : Str) (l : List (Str × β)) :
    (lookup k l).isSome = true ↔ k ∈ l.map (·.1) := by
  induction l with
  | nil => simp [lookup]
  | cons h t ih =>
    obtain ⟨k', v⟩ := h
    by_cases hk : k = k'
    · simp [lookup, hk]
    · simp [lookup, hk, ih]

theorem lookup_mem {β} (k : Str) (l : List (Str × β)) (v : β) (h : lookup k l = some v) :
    (k, v) ∈ l := by
  induction l with
  | nil => simp [lookup] at h
  | cons hd t ih =>
    obtain ⟨k', v'⟩ := hd
    by_cases hk : k = k'
    · simp [lookup, hk] at h; simp [hk, h]
    · simp [lookup, hk] at h; exact List.mem_cons_of_mem _ (ih h)

theorem compoundMatch_some_mem (c : List (Str × Str)) (pl t : Str)
    (h : compoundMatch c pl = some t) : ∃ e, (e, t) ∈ c ∧ e.isSuffixOf pl = true := by
  induction c with
  | nil => simp [compoundMatch] at h
  | cons hd r ih =>
    obtain ⟨e, t'⟩ := hd
    by_cases hs : e.isSuffixOf pl = true
    · simp [compoundMatch, hs] at h; exact ⟨e, by simp [h], hs⟩
    · simp [compoundMatch, hs] at h
      obtain ⟨e', hm, hs'⟩ := ih h
      exact ⟨e', List.mem_cons_of_mem _ hm, hs'⟩

theorem compoundMatch_none (c : List (Str × Str)) (pl : Str)
    (h : compoundMatch c pl = none) : ∀ e t, (e, t) ∈ c → e.isSuffixOf pl = false := by
  induction c with
  | nil => simp
  | cons hd r ih =>
    obtain ⟨e, t'⟩ := hd
    by_cases hs : e.isSuffixOf pl = true
    · simp [compoundMatch, hs] at h
    · simp [compoundMatch, hs] at h
      intro e' t hm
      rcases List.mem_cons.mp hm with heq | hm
      · cases heq; exact Bool.eq_false_iff.mpr hs
      · exact ih h e' t hm

theorem dropWhile_head_false {α} (p : α → Bool) (l : List α) (d : α) (ds : List α)
    (h : l.dropWhile p = d :: ds) : p d = false := by
  induction l with
  | nil => simp at h
  | cons x xs ih =>
    rw [List.dropWhile_cons] at h
    split at h
    · exact ih h
    · cases h; exact Bool.eq_false_iff.mpr ‹¬ _›

theorem lastDot_split (b : Str) :
    (b.reverse.takeWhile (· ≠ '.')).length = b.length ∨
    ∃ pre, b = pre ++ '.' :: (b.reverse.takeWhile (· ≠ '.')).reverse := by
  have hsplit := List.takeWhile_append_dropWhile (p := fun c => decide (c ≠ '.')) (l := b.reverse)
  generalize htw : b.reverse.takeWhile (fun c => decide (c ≠ '.')) = tw at *
  generalize hdw : b.reverse.dropWhile (fun c => decide (c ≠ '.')) = dw at *
  cases dw with
  | nil =>
    left
    rw [List.append_nil] at hsplit
    rw [hsplit]; simp
  | cons d ds =>
    right
    have hd : d = '.' := by
      have := dropWhile_head_false _ _ _ _ hdw
      simpa using this
    refine ⟨ds.reverse, ?_⟩
    have := congrArg List.reverse hsplit
    simp [hd] at this
    rw [← this]

theorem baseName_suffix (p : Str) : baseName p <:+ p := by
  unfold baseName
  have := List.takeWhile_prefix (fun c => decide (c ≠ '/')) (l := p.reverse)
  have h2 := List.reverse_suffix.mpr this
  simpa using h2

/-- The extension returned by `splitext` is a suffix of the path. -/
theorem splitextExt_suffix (p : Str) : (splitextExt p) <:+ p := by
  unfold splitextExt
  simp only
  split
  · exact List.nil_suffix
  · split
    · rename_i hlen _
      refine List.IsSuffix.trans ?_ (baseName_suffix p)
      rcases lastDot_split (baseName p) with h | ⟨pre, h⟩
      · exact absurd h hlen
      · exact ⟨pre, h.symm⟩
    · exact List.nil_suffix

end S2T.Router
