import S2T.Lemmas.C02SheetsOdp
/-! ODP: the model on rendered decks (C02, part 'sheets'). -/
namespace S2T.C02.Sheets.Odp
open S2T.Tok S2T.OdfText S2T.OdfDoc S2T.C02.Sheets

/-- what the theorems need from the constants of odp_extractor.py / data_types.py -/
structure OdpOk (T : OdpT) : Prop where
  fmt : T.fmt = stdFmt [tAnnot]
  pTag : T.pTag = tP
  frameTag : T.frameTag = q nsDraw "frame"
  textBoxTag : T.textBoxTag = q nsDraw "text-box"
  pageTag : T.pageTag = q nsDraw "page"
  styleName : T.styleName = q nsText "style-name"
  svgX : T.svgX = q nsSvg "x"
  svgY : T.svgY = q nsSvg "y"
  titleT : ∀ st ∈ titleStyles, isTitle T st = true ∧ isBody T st = false
  bodyT : ∀ st ∈ bodyStyles, isTitle T st = false ∧ isBody T st = true
  otherT : ∀ st ∈ otherStyles, isTitle T st = false ∧ isBody T st = false
  slideSep : T.slideSep ≠ [] ∧ T.slideSep.all T.isWs = true
  joinSep : T.joinSep ≠ [] ∧ T.joinSep.all T.isWs = true
  noDigit : NoDigitWs T.isWs
  noUnit : NoUnitWs T.isWs

/-! ## well-formed decks: no footnotes inside slide paragraphs (`text:note` is not in ODP's skip set) -/

def paraOk (pa : Para) : Bool := noNoteInls pa.kids

mutual
def tbOk : TB → Bool
  | .para p => paraOk p
  | .group _ kids => tbOkL kids
  | .comment _ _ => true
def tbOkL : List TB → Bool
  | [] => true
  | b :: r => tbOk b && tbOkL r
end

def frameOk (f : Frame) : Bool :=
  match f.body with
  | .textBox c => tbOkL c
  | _ => true

def deckOk (d : List DSlide) : Bool := d.all (fun s => s.frames.all frameOk)

/-! ## the walk on a rendered text box -/

theorem pruned_rPara {T : OdpT} (h : OdpOk T) (pa : Para) : pruned T (rPara pa) = [rPara pa] := by
  have h1 : tP ∉ (stdFmt [tAnnot]).skip := by simp only [stdFmt]; decide
  simp only [rPara, elem, pruned, h.fmt, h.pTag, List.contains_iff_mem, h1, if_false, if_true]

mutual
theorem pruned_rTB {T : OdpT} (h : OdpOk T) (b : TB) : pruned T (rTB b) = (tbParas b).map rPara := by
  cases b with
  | para pa => simp [rTB, tbParas, pruned_rPara h]
  | group k kids =>
    have h1 : gkindTag k ∉ (stdFmt [tAnnot]).skip := by cases k <;> (simp only [stdFmt]; decide)
    have h2 : gkindTag k ≠ tP := by cases k <;> decide
    simp only [rTB, pruned, h.fmt, h.pTag, List.contains_iff_mem, h1, h2, if_false, tbParas]
    exact prunedL_rTBs h kids
  | comment c ks =>
    have h1 : tAnnot ∈ (stdFmt [tAnnot]).skip := by simp [stdFmt]
    simp [rTB, pruned, h.fmt, h1, tbParas]
theorem prunedL_rTBs {T : OdpT} (h : OdpOk T) (bs : List TB) : prunedL T (rTBs bs) = (tbParasL bs).map rPara := by
  cases bs with
  | nil => simp [rTBs, prunedL, tbParasL]
  | cons b r => simp [rTBs, prunedL, tbParasL, pruned_rTB h b, prunedL_rTBs h r]
end

/-- what a paragraph contributes on the model side -/
def entryOf (p : Char → Bool) (pa : Para) : Str × Str := (styleOf pa.role pa.variant, strip p (visibleL pa.kids))
def nonBlankP (p : Char → Bool) (pa : Para) : Bool := !blank p (visibleL pa.kids)

theorem paraEntry_rPara {T : OdpT} (h : OdpOk T) (pa : Para) (hp : paraOk pa = true) :
    paraEntry T (rPara pa) = if nonBlankP T.isWs pa then some (entryOf T.isWs pa) else none := by
  have ht := elemText_para (p := T.isWs) h.noDigit skipOk_odg tP [(q nsText "style-name", styleOf pa.role pa.variant)] pa.kids
    (Or.inr hp)
  have ha : (rPara pa).attrs = [(q nsText "style-name", styleOf pa.role pa.variant)] := rfl
  unfold paraEntry
  rw [h.fmt, ha, h.styleName, attr_self]
  simp only [rPara] at ht ⊢
  simp only [ht, nonBlankP, entryOf, Option.getD_some]
  by_cases hb : blank T.isWs (visibleL pa.kids) = true
  · have := (strip_eq_nil_iff (p := T.isWs) (visibleL pa.kids)).mpr hb
    simp [this, hb]
  · have : strip T.isWs (visibleL pa.kids) ≠ [] := fun hc => hb ((strip_eq_nil_iff _).mp hc)
    simp [this, hb]

theorem filterMap_paraEntry {T : OdpT} (h : OdpOk T) (ps : List Para) (hp : ps.all paraOk = true) :
    (ps.map rPara).filterMap (paraEntry T) = (ps.filter (nonBlankP T.isWs)).map (entryOf T.isWs) := by
  induction ps with
  | nil => rfl
  | cons a r ih =>
    simp only [List.all_cons, Bool.and_eq_true] at hp
    simp only [List.map_cons, List.filterMap_cons, paraEntry_rPara h a hp.1, ih hp.2]
    by_cases hb : nonBlankP T.isWs a = true
    · simp [hb, List.filter]
    · simp [hb, List.filter]

mutual
theorem tbParas_ok1 (b : TB) (h : tbOk b = true) : (tbParas b).all paraOk = true := by
  cases b with
  | para pa => simpa [tbParas, tbOk] using h
  | group k kids => simp only [tbParas]; exact tbParas_ok kids (by simpa [tbOk] using h)
  | comment c ks => simp [tbParas]
theorem tbParas_ok (bs : List TB) (h : tbOkL bs = true) : (tbParasL bs).all paraOk = true := by
  cases bs with
  | nil => simp [tbParasL]
  | cons b r =>
    simp only [tbOkL, Bool.and_eq_true] at h
    simp only [tbParasL, List.all_append, Bool.and_eq_true]
    exact ⟨tbParas_ok1 b h.1, tbParas_ok r h.2⟩
end

theorem frameParas_rFrame {T : OdpT} (h : OdpOk T) (u : LUnit) (f : Frame) (hf : frameOk f = true) :
    frameParas T (rFrame u f) = ((frameParasD f).filter (nonBlankP T.isWs)).map (entryOf T.isWs) := by
  unfold frameParas find iterParas
  rw [h.textBoxTag]
  cases hb : f.body with
  | textBox c =>
    have h1 : q nsDraw "text-box" ∉ (stdFmt [tAnnot]).skip := by simp only [stdFmt]; decide
    have h2 : q nsDraw "text-box" ≠ tP := by decide
    have hok : tbOkL c = true := by simpa [frameOk, hb] using hf
    simp only [rFrame, hb, rFrameBody, Xml.kids, List.find?, Xml.tag, decide_true]
    rw [walkCov_false]
    simp only [pruned, h.fmt, h.pTag, List.contains_iff_mem, h1, h2, if_false]
    rw [prunedL_rTBs h c, filterMap_paraEntry h _ (tbParas_ok c hok)]
    simp [frameParasD, hb]
  | table rows =>
    have h1 : q nsTable "table" ≠ q nsDraw "text-box" := by decide
    simp [rFrame, hb, rFrameBody, Xml.kids, List.find?, Xml.tag, h1, frameParasD]
  | image hr =>
    have h1 : q nsDraw "image" ≠ q nsDraw "text-box" := by decide
    simp [rFrame, hb, rFrameBody, Xml.kids, List.find?, Xml.tag, h1, frameParasD]

/-! ## frames of a page, in visiting order -/

theorem findall_frames {T : OdpT} (h : OdpOk T) (s : DSlide) :
    findall T.frameTag (rSlide s) = s.frames.map (rFrame s.unit) := by
  unfold findall rSlide
  simp only [Xml.kids, List.filter_append, h.frameTag]
  rw [filter_map_tag_true (q nsDraw "frame") (rFrame s.unit) s.frames (fun _ => rfl),
    filter_map_tag_false (q nsDraw "frame") rShape s.shapes (fun _ => by show q nsDraw "custom-shape" ≠ _; decide)]
  have : (rNotes s.notes).tag ≠ q nsDraw "frame" := by show q nsPres "notes" ≠ _; decide
  simp [List.filter, this]

theorem frameKey_rFrame {T : OdpT} (h : OdpOk T) (u : LUnit) (f : Frame) :
    frameKey T (rFrame u f) = (⟨f.y * pxNum u, pxDen u⟩, ⟨f.x * pxNum u, pxDen u⟩) := by
  have hne : q nsSvg "y" ≠ q nsSvg "x" := by decide
  unfold frameKey
  simp only [rFrame, Xml.attrs, h.svgX, h.svgY, attr, hne, if_false, if_true,
    lengthPx_lenStr h.noDigit h.noUnit]

theorem keyLe_rFrame {T : OdpT} (h : OdpOk T) (u : LUnit) (a b : Frame) :
    keyLe (frameKey T (rFrame u a)) (frameKey T (rFrame u b)) = posLe a b := by
  rw [frameKey_rFrame h, frameKey_rFrame h]
  simp only [keyLe, posLe, Q_lt_scaled _ _ _ _ (pxNum_pos u) (pxDen_pos u), Q_eq_scaled _ _ _ _ (pxNum_pos u) (pxDen_pos u)]
  by_cases h1 : a.y < b.y <;> by_cases h2 : a.y = b.y <;> by_cases h3 : a.x < b.x <;> by_cases h4 : a.x = b.x <;>
    simp [h1, h2, h3, h4] <;> omega

theorem sortedFrames_rSlide {T : OdpT} (h : OdpOk T) (s : DSlide) :
    sortedFrames T (rSlide s) = (sortBy posLe s.frames).map (rFrame s.unit) := by
  unfold sortedFrames
  rw [findall_frames h]
  exact sortBy_map (rFrame s.unit) (fun a b => keyLe (frameKey T a) (frameKey T b)) posLe
    (fun a b => keyLe_rFrame h s.unit a b) s.frames

theorem mem_insertBy {α} (le : α → α → Bool) (x y : α) (l : List α) : y ∈ insertBy le x l ↔ y = x ∨ y ∈ l := by
  induction l with
  | nil => simp [insertBy]
  | cons a r ih =>
    simp only [insertBy]
    by_cases hc : le x a = true
    · simp [hc]
    · simp only [hc, Bool.false_eq_true, if_false, List.mem_cons, ih]
      constructor <;> (intro h; rcases h with h | h | h <;> simp [h])

theorem mem_sortBy {α} (le : α → α → Bool) (y : α) (l : List α) : y ∈ sortBy le l ↔ y ∈ l := by
  induction l with
  | nil => simp [sortBy]
  | cons a r ih => simp [sortBy, mem_insertBy, ih]

theorem flatMap_frameParas {T : OdpT} (h : OdpOk T) (u : LUnit) (fs : List Frame) (hf : fs.all frameOk = true) :
    (fs.map (rFrame u)).flatMap (frameParas T) = ((fs.flatMap frameParasD).filter (nonBlankP T.isWs)).map (entryOf T.isWs) := by
  induction fs with
  | nil => rfl
  | cons a r ih =>
    simp only [List.all_cons, Bool.and_eq_true] at hf
    simp only [List.map_cons, List.flatMap_cons, frameParas_rFrame h u a hf.1, ih hf.2, List.filter_append, List.map_append]

/-! ## classification -/

theorem styleOf_title {T : OdpT} (h : OdpOk T) (v : Nat) : isTitle T (styleOf .title v) = true ∧ isBody T (styleOf .title v) = false := by
  apply h.titleT
  have : v % 3 < 3 := Nat.mod_lt _ (by decide)
  simp only [styleOf, titleStyles]
  match hm : v % 3, this with
  | 0, _ => simp
  | 1, _ => simp
  | 2, _ => simp

theorem styleOf_body {T : OdpT} (h : OdpOk T) (v : Nat) : isTitle T (styleOf .body v) = false ∧ isBody T (styleOf .body v) = true := by
  apply h.bodyT
  have : v % 3 < 3 := Nat.mod_lt _ (by decide)
  simp only [styleOf, bodyStyles]
  match hm : v % 3, this with
  | 0, _ => simp
  | 1, _ => simp
  | 2, _ => simp

theorem styleOf_other {T : OdpT} (h : OdpOk T) (v : Nat) : isTitle T (styleOf .other v) = false ∧ isBody T (styleOf .other v) = false := by
  apply h.otherT
  have : v % 4 < 4 := Nat.mod_lt _ (by decide)
  simp only [styleOf, otherStyles]
  match hm : v % 4, this with
  | 0, _ => simp
  | 1, _ => simp
  | 2, _ => simp
  | 3, _ => simp

/-- the model's slide for given buckets (texts stripped) -/
def slideOfBuckets (p : Char → Bool) (b : Buckets) : Slide :=
  { title := (b.title.map (strip p)).getD [], body := b.body.map (strip p), other := b.other.map (strip p) }

theorem classify_bucket {T : OdpT} (h : OdpOk T) (ps : List Para) (b : Buckets) :
    classify T (ps.map (entryOf T.isWs)) b.title.isSome (slideOfBuckets T.isWs b)
      = slideOfBuckets T.isWs (bucket (ps.map (fun pa => (pa.role, visibleL pa.kids))) b) := by
  induction ps generalizing b with
  | nil => rfl
  | cons pa r ih =>
    simp only [List.map_cons, entryOf, classify, bucket]
    cases hr : pa.role with
    | title =>
      obtain ⟨h1, h2⟩ := styleOf_title h pa.variant
      cases ht : b.title with
      | none =>
        simp only [Option.isSome_none, Bool.not_false, Bool.true_and, h1, if_true, true_and]
        have := ih { b with title := some (visibleL pa.kids) }
        simpa [slideOfBuckets, ht] using this
      | some t0 =>
        simp only [Option.isSome_some, Bool.not_true, Bool.false_and, Bool.false_eq_true, if_false, h2,
          reduceCtorEq, and_false]
        have := ih { b with other := b.other ++ [visibleL pa.kids] }
        simpa [slideOfBuckets, ht] using this
    | body =>
      obtain ⟨h1, h2⟩ := styleOf_body h pa.variant
      simp only [h1, Bool.and_false, Bool.false_eq_true, if_false, h2, if_true, reduceCtorEq, false_and]
      have := ih { b with body := b.body ++ [visibleL pa.kids] }
      simpa [slideOfBuckets] using this
    | other =>
      obtain ⟨h1, h2⟩ := styleOf_other h pa.variant
      simp only [h1, Bool.and_false, Bool.false_eq_true, if_false, h2, reduceCtorEq, false_and]
      have := ih { b with other := b.other ++ [visibleL pa.kids] }
      simpa [slideOfBuckets] using this

theorem filter_map_entries (p : Char → Bool) (ps : List Para) :
    ((ps.map (fun pa => (pa.role, visibleL pa.kids))).filter (fun e => !blank p e.2))
      = (ps.filter (nonBlankP p)).map (fun pa => (pa.role, visibleL pa.kids)) := by
  induction ps with
  | nil => rfl
  | cons a r ih =>
    by_cases hb : blank p (visibleL a.kids) = true
    · simp [List.filter, nonBlankP, hb, ih]
    · simp [List.filter, nonBlankP, hb, ih]

theorem slideText_tokens {T : OdpT} (h : OdpOk T) (b : Buckets) :
    tokens T.isWs (slideText T (slideOfBuckets T.isWs b)) = b.texts.flatMap (tokens T.isWs) := by
  unfold slideText
  rw [tokens_join h.slideSep.2 h.slideSep.1]
  simp only [slideOfBuckets, Buckets.texts, List.flatMap_append, flatMap_tokens_map_strip]
  congr 1
  obtain ⟨bt, bb, bo⟩ := b
  cases bt with
  | none => simp
  | some t =>
    by_cases ht : strip T.isWs t = []
    · have : tokens T.isWs t = [] := by rw [← tokens_strip, ht]; rfl
      simp [ht, this]
    · simp [ht, tokens_strip]

/-- one slide: the unit text's tokens are the slide's texts' tokens -/
theorem unitText_rSlide {T : OdpT} (h : OdpOk T) (s : DSlide) (hs : s.frames.all frameOk = true) :
    tokens T.isWs (unitText T (slideOf T (rSlide s))) = (slideTexts T.isWs s).flatMap (tokens T.isWs) := by
  have hsorted : (sortBy posLe s.frames).all frameOk = true := by
    rw [List.all_eq_true] at hs ⊢
    intro f hf
    exact hs f ((mem_sortBy _ _ _).mp hf)
  unfold unitText slideOf
  simp only [join]
  rw [sortedFrames_rSlide h, flatMap_frameParas h _ _ hsorted]
  have hcb := classify_bucket h (((sortBy posLe s.frames).flatMap frameParasD).filter (nonBlankP T.isWs)) {}
  have h0 : slideOfBuckets T.isWs {} = ({} : Slide) := rfl
  rw [h0] at hcb
  simp only [Option.isSome_none] at hcb
  rw [hcb, slideText_tokens h]
  simp only [slideTexts, slideEntries, filter_map_entries]

theorem flatMap_congr' {α β} {f g : α → List β} (l : List α) (h : ∀ a ∈ l, f a = g a) : l.flatMap f = l.flatMap g := by
  induction l with
  | nil => rfl
  | cons a r ih => simp [h a (by simp), ih (fun x hx => h x (by simp [hx]))]

theorem findall_pages {T : OdpT} (h : OdpOk T) (d : List DSlide) : findall T.pageTag (renderOdp d) = d.map rSlide := by
  unfold findall renderOdp
  simp only [Xml.kids, h.pageTag]
  exact filter_map_tag_true _ _ _ (fun _ => rfl)

/-- the full text's tokens are the frames' tokens, slide by slide -/
theorem fullText_render {T : OdpT} (h : OdpOk T) (d : List DSlide) (hd : deckOk d = true) :
    tokens T.isWs (fullText T (renderOdp d)) = deckTokens T.isWs d := by
  unfold fullText deckTokens
  rw [tokens_strip, tokens_join h.joinSep.2 h.joinSep.1, findall_pages h, List.map_map, List.flatMap_map]
  unfold deckOk at hd
  rw [List.all_eq_true] at hd
  exact flatMap_congr' _ (fun s hs => by simpa [Function.comp] using unitText_rSlide h s (hd s hs))

end S2T.C02.Sheets.Odp
