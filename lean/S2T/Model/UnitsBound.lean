import S2T.Model.Units
/-!
C03, unit boundaries on the extraction side: the two readers whose unit sequence is cut out of ONE shared carrier.

* mbox — `read_mbox_format_mail` = `message_from_bytes`/`parse_email_message` mapped over
  `_split_mbox_messages(file_like.read())`: the carrier is the byte string of the whole mailbox, the boundaries are the
  "From " separator LINES OF THE FILE AS STORED.  `mboxWrite` is the writer's side (what a mailbox with given
  messages looks like on disk), so that "units mirror messages" can be stated against the messages that were
  written rather than against the splitter itself.
* pdf — `read_pdf` = one `PdfPage` per entry of `reader.pages`, built by `_extract_text_with_spacing(page)` from
  that page alone; the carrier is the object graph, in which pages may share any object (content streams,
  resource dictionaries, fonts, forms, page-tree nodes).

Core Lean only.
-/
namespace S2T.Units

/-! ### mbox -/

/-- a message as the mailbox writer sees it: its "From " separator line and the lines of the RFC 5322 message
(no line contains "\n"; every line is written with a terminating "\n") -/
structure MboxMsg where
  sep : Str
  lines : List Str

/-- the stored text of the message (what must come back as that message's bytes, up to trailing CR / LF) -/
def mboxMsgText (m : MboxMsg) : Str := (m.lines.map (· ++ ['\n'])).flatten

/-- the mailbox file: for every message its separator line, then its lines -/
def mboxWrite (ms : List MboxMsg) : Str := (ms.map (fun m => m.sep ++ '\n' :: mboxMsgText m)).flatten

/-- what a writer guarantees (mboxo / mboxrd quoting exists to guarantee exactly this): separator lines are
separator lines, and no line inside a message is one -/
def MboxWellFormed (ms : List MboxMsg) : Prop :=
  ∀ m ∈ ms, isFromLine m.sep = true ∧ '\n' ∉ m.sep ∧ ∀ l ∈ m.lines, isFromLine l = false ∧ '\n' ∉ l

/-- `read_mbox_format_mail`: the raw bytes go to `_split_mbox_messages`, every piece goes to the message parser -/
def mboxRead {α} (parse : Str → α) (data : Str) : List α := (mboxSplit data).map parse

/-- the variant "normalise the whole file first, split afterwards" (e.g. undoing mboxrd quoting on the mailbox):
NOT what the reader may do — `mbox_prenormalise_counterexample` shows why -/
def mboxReadPre {α} (pre : Str → Str) (parse : Str → α) (data : Str) : List α := (mboxSplit (pre data)).map parse

/-- undo one level of mboxrd quoting on one line: ">From …" ↦ "From …", ">>From …" ↦ ">From …" -/
def unquoteRdLine (l : Str) : Str :=
  match l with
  | '>' :: r => if ("From ".toList).isPrefixOf (r.dropWhile (· = '>')) then r else l
  | _ => l

/-! ### pdf -/

/-- `read_pdf`'s page loop: page k of the result is `mk` of page k of the reader, nothing else -/
def pdfExtract {π} (mk : π → Page) (pages : List π) : List Page := pages.map mk

/-- the variant with a per-document memo table keyed by `key` (a cache "per content stream / per resources") -/
def pdfExtractMemo {π κ} [DecidableEq κ] (key : π → κ) (mk : π → Page) : List π → List (κ × Page) → List Page
  | [], _ => []
  | p :: r, tbl =>
    match tbl.lookup (key p) with
    | some v => v :: pdfExtractMemo key mk r tbl
    | none => mk p :: pdfExtractMemo key mk r ((key p, mk p) :: tbl)

end S2T.Units
