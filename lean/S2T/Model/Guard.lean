import S2T.Model.Wrapper
/-
C08 "before any content is returned": a second reading of the translated wrapper skeletons
(`S2T.Wrapper.Stmt`, generated into `S2T/Gen/Wrappers.lean`) that keeps the link between an
`if` statement and its test.

The translator writes `if <call>: A else: B` as `.seq (.atom "test:<call>" false) (.ite A B)`.
`guardify` folds that shape back into `ifT "test:<call>" A B`.  (An opaque statement atom that
happens to be followed by an `if` on a total test has the same shape; folding it is harmless:
for a tag that is neither `encT` nor `stuck`, `ifT tag A B` and `seq (atom tag) (ite A B)` have
the same executions.)  The semantics `Run` is a big-step
relation counting `yield`s; it over-approximates Python (any handler may take any exception, an
opaque atom may raise, plain `ite` takes either branch) except for what the property fixes:

* `encT tag = true`  — the test with that tag evaluates to True whenever it completes
                        (the input is encrypted, the detector says so);
* `stuck tag = true` — the atom with that tag never completes normally (it raises).

The consumer is assumed to exhaust the generator (no `throw`/`close` at a `yield`).
-/
namespace S2T.Guard
open S2T.Wrapper

inductive G where
  | atom (tag : String) (total : Bool)
  | raise_ (cls : String)
  | reraise
  | ret
  | brk
  | cont
  | yield_
  | write (total : Bool)
  | seq (a b : G)
  | ite (a b : G)
  | ifT (tag : String) (a b : G)
  | loop (body : G)
  | try_ (body : G) (handlers : List G) (fin : G)
  deriving Repr

mutual
def guardify : Stmt → G
  | .atom tag total => .atom tag total
  | .raise_ cls => .raise_ cls
  | .reraise => .reraise
  | .ret _ => .ret
  | .write _ total => .write total
  | .brk => .brk
  | .cont => .cont
  | .yield_ => .yield_
  | .seq (.atom tag false) (.ite a b) => .ifT tag (guardify a) (guardify b)
  | .seq a b => .seq (guardify a) (guardify b)
  | .ite a b => .ite (guardify a) (guardify b)
  | .loop b => .loop (guardify b)
  | .try_ body hs fin => .try_ (guardify body) (guardifyHs hs) (guardify fin)
def guardifyHs : List (List String × Stmt) → List G
  | [] => []
  | (_, h) :: r => guardify h :: guardifyHs r
end

inductive Out | normal | ret | brk | cont | raised
  deriving DecidableEq, Repr

/-- `Run encT stuck s n o`: `s` can run, performing `n` yields, and end with `o`. -/
inductive Run (encT stuck : String → Bool) : G → Nat → Out → Prop where
  | atomOk {tag total} : stuck tag = false → Run encT stuck (.atom tag total) 0 .normal
  | atomRaise {tag} : Run encT stuck (.atom tag false) 0 .raised
  | raise_ {cls} : Run encT stuck (.raise_ cls) 0 .raised
  | reraise : Run encT stuck .reraise 0 .raised
  | ret : Run encT stuck .ret 0 .ret
  | brk : Run encT stuck .brk 0 .brk
  | cont : Run encT stuck .cont 0 .cont
  | yield_ : Run encT stuck .yield_ 1 .normal
  | writeOk {total} : Run encT stuck (.write total) 0 .normal
  | writeRaise : Run encT stuck (.write false) 0 .raised
  | seqStop {a b n o} : Run encT stuck a n o → o ≠ .normal → Run encT stuck (.seq a b) n o
  | seqGo {a b n m o} : Run encT stuck a n .normal → Run encT stuck b m o → Run encT stuck (.seq a b) (n + m) o
  | iteL {a b n o} : Run encT stuck a n o → Run encT stuck (.ite a b) n o
  | iteR {a b n o} : Run encT stuck b n o → Run encT stuck (.ite a b) n o
  | ifRaise {tag a b} : Run encT stuck (.ifT tag a b) 0 .raised          -- the test itself raises
  | ifTrue {tag a b n o} : stuck tag = false → Run encT stuck a n o → Run encT stuck (.ifT tag a b) n o
  | ifFalse {tag a b n o} : stuck tag = false → encT tag = false → Run encT stuck b n o → Run encT stuck (.ifT tag a b) n o
  | loopDone {b} : Run encT stuck (.loop b) 0 .normal
  | loopBrk {b n} : Run encT stuck b n .brk → Run encT stuck (.loop b) n .normal
  | loopStep {b n m o o'} : Run encT stuck b n o → (o = .normal ∨ o = .cont) →
      Run encT stuck (.loop b) m o' → Run encT stuck (.loop b) (n + m) o'
  | loopExit {b n o} : Run encT stuck b n o → (o = .ret ∨ o = .raised) → Run encT stuck (.loop b) n o
  | tryNoExc {body hs fin n m o o'} : Run encT stuck body n o → o ≠ .raised → Run encT stuck fin m o' →
      Run encT stuck (.try_ body hs fin) (n + m) (if o' = .normal then o else o')
  | tryUncaught {body hs fin n m o'} : Run encT stuck body n .raised → Run encT stuck fin m o' →
      Run encT stuck (.try_ body hs fin) (n + m) (if o' = .normal then .raised else o')
  | tryCaught {body hs fin h n k m o o'} : Run encT stuck body n .raised → h ∈ hs →
      Run encT stuck h k o → Run encT stuck fin m o' →
      Run encT stuck (.try_ body hs fin) (n + k + m) (if o' = .normal then o else o')

/-! ## Analysis 1: under the assumptions, can a `yield` be reached at all? -/

mutual
/-- can `s` complete normally (over-approximation)? -/
def mayNormal (encT stuck : String → Bool) : G → Bool
  | .atom tag _ => !stuck tag
  | .raise_ _ => false
  | .reraise => false
  | .ret => false
  | .brk => false
  | .cont => false
  | .yield_ => true
  | .write _ => true
  | .seq a b => mayNormal encT stuck a && mayNormal encT stuck b
  | .ite a b => mayNormal encT stuck a || mayNormal encT stuck b
  | .ifT tag a b => !stuck tag && (mayNormal encT stuck a || (!encT tag && mayNormal encT stuck b))
  | .loop _ => true
  | .try_ body hs fin => (mayNormal encT stuck body || mayNormalL encT stuck hs) && mayNormal encT stuck fin
def mayNormalL (encT stuck : String → Bool) : List G → Bool
  | [] => false
  | h :: r => mayNormal encT stuck h || mayNormalL encT stuck r
end

mutual
/-- no execution of `s` performs a `yield` -/
def noYield (encT stuck : String → Bool) : G → Bool
  | .yield_ => false
  | .seq a b => noYield encT stuck a && (!mayNormal encT stuck a || noYield encT stuck b)
  | .ite a b => noYield encT stuck a && noYield encT stuck b
  | .ifT tag a b => stuck tag || (noYield encT stuck a && (encT tag || noYield encT stuck b))
  | .loop b => noYield encT stuck b
  | .try_ body hs fin => noYield encT stuck body && noYieldL encT stuck hs && noYield encT stuck fin
  | _ => true
def noYieldL (encT stuck : String → Bool) : List G → Bool
  | [] => true
  | h :: r => noYield encT stuck h && noYieldL encT stuck r
end

/-! ## Analysis 2: once something was yielded, nothing can raise any more -/

mutual
def mayYield : G → Bool
  | .yield_ => true
  | .seq a b => mayYield a || mayYield b
  | .ite a b => mayYield a || mayYield b
  | .ifT _ a b => mayYield a || mayYield b
  | .loop b => mayYield b
  | .try_ body hs fin => mayYield body || mayYieldL hs || mayYield fin
  | _ => false
def mayYieldL : List G → Bool
  | [] => false
  | h :: r => mayYield h || mayYieldL r
end

mutual
def mayRaise : G → Bool
  | .atom _ total => !total
  | .raise_ _ => true
  | .reraise => true
  | .write total => !total
  | .seq a b => mayRaise a || mayRaise b
  | .ite a b => mayRaise a || mayRaise b
  | .ifT _ _ _ => true
  | .loop b => mayRaise b
  | .try_ body hs fin => mayRaise body || mayRaiseL hs || mayRaise fin
  | _ => false
def mayRaiseL : List G → Bool
  | [] => false
  | h :: r => mayRaise h || mayRaiseL r
end

mutual
/-- every execution that ends with an exception has yielded nothing -/
def quiet : G → Bool
  | .seq a b => quiet a && quiet b && !(mayYield a && mayRaise b)
  | .ite a b => quiet a && quiet b
  | .ifT _ a b => quiet a && quiet b
  | .loop b => quiet b && !(mayYield b && mayRaise b)
  | .try_ body hs fin => quiet body && quietL hs && quiet fin &&
      !((mayYield body || mayYieldL hs) && mayRaise fin) &&
      !(mayYield fin && (mayRaise body || mayRaiseL hs))
  | _ => true
def quietL : List G → Bool
  | [] => true
  | h :: r => quiet h && quietL r
end

/-- the encryption test of a guarded wrapper raises the encrypted error and nothing else on its true branch -/
def guardRaises (isEnc : String → Bool) (cls : String) : G → Bool
  | .ifT tag a _ => if isEnc tag then (match a with | .raise_ c => c == cls | _ => false) else true
  | .seq a b => guardRaises isEnc cls a && guardRaises isEnc cls b
  | .ite a b => guardRaises isEnc cls a && guardRaises isEnc cls b
  | .loop b => guardRaises isEnc cls b
  | .try_ body _ fin => guardRaises isEnc cls body && guardRaises isEnc cls fin
  | _ => true

/-- does the term contain an `if` on a test with that tag? -/
def hasGuard (tag : String) : G → Bool
  | .ifT t a b => t == tag || hasGuard tag a || hasGuard tag b
  | .seq a b => hasGuard tag a || hasGuard tag b
  | .ite a b => hasGuard tag a || hasGuard tag b
  | .loop b => hasGuard tag b
  | .try_ body _ fin => hasGuard tag body || hasGuard tag fin
  | _ => false

end S2T.Guard
