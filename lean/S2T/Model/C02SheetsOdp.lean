import S2T.Model.C02SheetsTables
/-
Model of the ODP slide text assembly (C02, part 'sheets'):

* odp_extractor.py: `_iter_text_paragraphs` (the covered-set walk of fix-odp-annotation-leak), `_extract_slide`
  (frames sorted by position, first text box of each frame, title / body / other classification),
  `_extract_table` (tables in frames go to `slide.tables`, not to the text);
* data_types.py: `OdpSlide.text_combined`, `OdpContent.iterate_units`, `_join_unit_text` / `OdpContent.get_full_text`.

Every constant (tags, style tests, separators) is a field of `OdpT`; the instance is generated from the source.
`element_text`, `_parse_odf_length_to_px` (as exact rationals), the stable sort and `find` / `findall` are the
definitions of the 'odf' part (imported read-only).  Core Lean only (the driver links this file).
-/
namespace S2T.C02.Sheets.Odp
open S2T.Tok S2T.OdfText S2T.C02.Sheets

/-! ## `_iter_text_paragraphs`

```
covered = set()
for elem in root.iter():            # parents come before their children
    if elem in covered or elem.tag in _TEXT_SKIP_TAGS: covered.update(elem)
    elif elem.tag == _TEXT_P_TAG:                      covered.update(elem); yield elem
```
`covered` is only ever tested for the element being visited, and an element is in it iff its parent put it there
(`covered.update(elem)` adds the children of `elem`); `iter()` is a pre-order walk.  So "`elem in covered`" is a flag
handed from the parent to each child: -/
mutual
def walkCov (T : OdpT) (cov : Bool) : Xml → List Xml
  | .node tag a x l kids =>
    if cov || T.fmt.skip.contains tag then walkCovL T true kids
    else if tag = T.pTag then .node tag a x l kids :: walkCovL T true kids
    else walkCovL T false kids
def walkCovL (T : OdpT) (cov : Bool) : List Xml → List Xml
  | [] => []
  | k :: ks => walkCov T cov k ++ walkCovL T cov ks
end

/-- `list(_iter_text_paragraphs(root))`: `root.iter()` starts with the root itself, which is not covered -/
def iterParas (T : OdpT) (root : Xml) : List Xml := walkCov T false root

mutual
/-- the pruned recursion the walk amounts to: the `text:p` elements in document order, not descending into skipped
    tags (annotations) nor into a paragraph (theorem `walkCov_false` in Lemmas/C02SheetsOdp) -/
def pruned (T : OdpT) : Xml → List Xml
  | .node tag a x l kids =>
    if T.fmt.skip.contains tag then []
    else if tag = T.pTag then [.node tag a x l kids]
    else prunedL T kids
def prunedL (T : OdpT) : List Xml → List Xml
  | [] => []
  | k :: ks => pruned T k ++ prunedL T ks
end

/-! ## `_extract_slide` -/

/-- `text = _get_text_recursive(p).strip(); if text:` ↦ `(style_name, text)` -/
def paraEntry (T : OdpT) (q : Xml) : Option (Str × Str) :=
  let t := strip T.isWs (elemText T.isWs T.fmt q)
  if t = [] then none else some ((attr T.styleName q.attrs).getD [], t)

/-- the text-box part of the frame loop: only the FIRST `draw:text-box` child (`frame.find`) -/
def frameParas (T : OdpT) (f : Xml) : List (Str × Str) :=
  match find T.textBoxTag f with
  | none => []
  | some tb => (iterParas T tb).filterMap (paraEntry T)

/-- `"Title" in style_name or style_name == "TitleText"` -/
def isTitle (T : OdpT) (st : Str) : Bool := isInfix T.titleSub st || decide (st = T.titleExact)
/-- `"Body" in style_name or style_name == "BodyText"` -/
def isBody (T : OdpT) (st : Str) : Bool := isInfix T.bodySub st || decide (st = T.bodyExact)

/-- the classification over the paragraphs `(style, text)` in visiting order (`found` = `found_title`) -/
def classify (T : OdpT) : List (Str × Str) → Bool → Slide → Slide
  | [], _, s => s
  | (style, text) :: r, found, s =>
    if !found && isTitle T style then classify T r true { s with title := text }
    else if isBody T style then classify T r found { s with body := s.body ++ [text] }
    else classify T r found { s with other := s.other ++ [text] }

def frameKey (T : OdpT) (f : Xml) : Q × Q :=
  (lengthPx T.isWs (attr T.svgY f.attrs), lengthPx T.isWs (attr T.svgX f.attrs))

/-- frames in the order the loop visits them: `page.findall("draw:frame")`, stable sort by `(y, x)` -/
def sortedFrames (T : OdpT) (page : Xml) : List Xml :=
  sortBy (fun a b => keyLe (frameKey T a) (frameKey T b)) (findall T.frameTag page)

def slideOf (T : OdpT) (page : Xml) : Slide :=
  classify T ((sortedFrames T page).flatMap (frameParas T)) false {}

/-- `OdpSlide.text_combined` -/
def slideText (T : OdpT) (s : Slide) : Str :=
  join T.slideSep ((if s.title = [] then [] else [s.title]) ++ s.body ++ s.other)

/-- `OdpUnit.text`: `"\n".join([slide.text_combined])` -/
def unitText (T : OdpT) (s : Slide) : Str := join T.unitSep [slideText T s]

/-- `OdpContent.get_full_text()` of `read_odp` on the `office:presentation` element -/
def fullText (T : OdpT) (pres : Xml) : Str :=
  strip T.isWs (join T.joinSep ((findall T.pageTag pres).map (fun pg => unitText T (slideOf T pg))))

end S2T.C02.Sheets.Odp
