import S2T.Spec.Tables
/-!
Model of the *slide level* of the table extraction (property C13): which tables of a slide are
returned and in which order.

* PPTX: the table part of `pptx_extractor._process_slide_from_context`
  (`sp_tree = next(root.iter(P_SPTREE))`, the three `sp_tree.iter(...)` loops, `_get_shape_position`,
  `shape_elements.sort(key=lambda x: x[2])`, `_extract_table_from_graphic_frame` + `if table_data:`).
* ODP: the table part of `odp_extractor._extract_slide` (`page.findall("draw:frame")`,
  the key `(_parse_odf_length_to_px(svg:y), _parse_odf_length_to_px(svg:x))`, the sort,
  `frame.find("table:table")`, `_extract_table` + `if table_data:`).

`list.sort(key=…)` is modelled as THE stable sort by key (`sortBy`: an insertion sort that only ever
asks `key a < key b`, like CPython's).  Python's tuple comparison is `lexLt`.

Tag names, placeholder type sets and the default positions are parameters (`SlideTags`,
`OdpSlideTags`); their values are generated from the source (`S2T/Gen/TablesSlide.lean`).

The second half of the file is the spec side (what a *written* slide is and how it is written down):
it lives here because the slide level has no file of its own under `S2T/Spec`.
-/
namespace S2T.Tables.Slide
open S2T.HtmlSkip (Str)
open S2T.Tables

/-! ## the stable sort by key -/

section sort
variable {α κ : Type}

/-- insert `x` (which stood in front of everything in the list) into a sorted list: behind the
    elements whose key is smaller, in front of the first element whose key is not smaller — so
    in front of every element with an equal key -/
def insBy (lt : κ → κ → Bool) (key : α → κ) (x : α) : List α → List α
  | [] => [x]
  | y :: ys => if lt (key y) (key x) then y :: insBy lt key x ys else x :: y :: ys

/-- `l.sort(key=key)` with `<` on keys being `lt`: stable insertion sort -/
def sortBy (lt : κ → κ → Bool) (key : α → κ) : List α → List α
  | [] => []
  | x :: r => insBy lt key x (sortBy lt key r)

/-- Python's `<` on 2-tuples: the first component decides unless it is equal -/
def lexLt [DecidableEq κ] (lt : κ → κ → Bool) (a b : κ × κ) : Bool :=
  lt a.1 b.1 || (a.1 == b.1 && lt a.2 b.2)

end sort

/-- `<` on `int` -/
def intLt (a b : Int) : Bool := decide (a < b)

/-- `<` on `(int, int)` tuples: positions are `(y, x)` -/
def posLt : Int × Int → Int × Int → Bool := lexLt intLt

/-! ## PPTX -/

/-- the constants of `pptx_extractor` the slide walker uses (generated) -/
structure SlideTags where
  spTree : Str
  sp : Str
  pic : Str
  graphicFrame : Str
  spPr : Str
  aXfrm : Str
  pXfrm : Str
  off : Str
  nvSpPr : Str
  nvPr : Str
  ph : Str
  attrX : Str                -- "x"   in  off.get("x", "0")
  attrY : Str                -- "y"
  attrDflt : Str             -- "0"
  phType : Str               -- "type" in  ph.get("type", "")
  phIdx : Str                -- "idx"
  titleTypes : List Str      -- TITLE_TYPES
  bodyTypes : List Str       -- BODY_TYPES
  footerTypes : List Str     -- FOOTER_TYPES
  sldNum : Str               -- the literal compared with ph_type next to FOOTER_TYPES
  titlePos : Int × Int       -- (0, 0)
  bodyBase : Int             -- 1   in  (1 + idx_num, 0)
  bodyX : Int                -- 0
  footerPos : Int × Int      -- (999999998, 0)
  noPos : Int × Int          -- (999999999, 999999999): no position found
  excPos : Int × Int         -- (999999999, 999999999): `except Exception`

/-- `elem.get(k, default)` -/
def getD (n : Node) (k : Str) (d : Str) : Str := (n.get k).getD d

/-- `s.isdigit()` for ASCII strings: non-empty, decimal digits only (non-ASCII digit characters
    are outside the model, as for `pyInt?`) -/
def isDigitStr (s : Str) : Bool := !s.isEmpty && s.all isAsciiDigit

/-- the placeholder defaults of `_get_shape_position` (the part behind "No explicit position");
    `none` = an exception was raised (`int(ph_idx)`) -/
def placeholderPos? (S : SlideTags) (e : Node) : Option (Int × Int) :=
  match find S.nvSpPr e with
  | none => some S.noPos
  | some nv =>
    match find S.nvPr nv with
    | none => some S.noPos
    | some nvPr =>
      match find S.ph nvPr with
      | none => some S.noPos
      | some ph =>
        let ty := getD ph S.phType []
        let idx := getD ph S.phIdx []
        if S.titleTypes.contains ty then some S.titlePos
        else if S.bodyTypes.contains ty || (ty.isEmpty && !idx.isEmpty) then
          if isDigitStr idx then
            (match pyInt? idx with
             | some k => some (S.bodyBase + k, S.bodyX)
             | none => none)
          else some (S.bodyBase + 0, S.bodyX)
        else if S.footerTypes.contains ty || ty == S.sldNum then some S.footerPos
        else some S.noPos

/-- body of the `try:` of `_get_shape_position`; `none` = an exception was raised
    (`int()` of a non-number) -/
def shapePos? (S : SlideTags) (e : Node) : Option (Int × Int) :=
  -- sp_pr = next(iter(P_SPPR)) or next(iter(A_XFRM)) or shape_elem
  let spPr : Node :=
    match (iter S.spPr e).head? with
    | some n => n
    | none =>
      match (iter S.aXfrm e).head? with
      | some n => n
      | none => e
  -- xfrm = sp_pr.find(A_XFRM) or sp_pr.find(P_XFRM) or next(iter(A_XFRM)) or next(iter(P_XFRM))
  let xfrm : Option Node :=
    match find S.aXfrm spPr with
    | some x => some x
    | none =>
      match find S.pXfrm spPr with
      | some x => some x
      | none =>
        match (iter S.aXfrm e).head? with
        | some x => some x
        | none => (iter S.pXfrm e).head?
  let off : Option Node :=
    match xfrm with
    | none => none
    | some xf => find S.off xf
  match off with
  | some o =>
    -- x = int(off.get("x", "0")); y = int(off.get("y", "0")); return (y, x)
    (match pyInt? (getD o S.attrX S.attrDflt) with
     | none => none
     | some x =>
       match pyInt? (getD o S.attrY S.attrDflt) with
       | none => none
       | some y => some (y, x))
  | none => placeholderPos? S e

/-- `_get_shape_position(shape_elem)` -/
def shapePosition (S : SlideTags) (e : Node) : Int × Int :=
  match shapePos? S e with
  | some p => p
  | none => S.excPos

/-- the first component of the tuples of `shape_elements` -/
inductive Kind where
  | sp
  | pic
  | graphicFrame
  deriving DecidableEq, Repr

/-- one entry of `shape_elements`: `(shape_type, elem, position)` -/
structure Entry where
  kind : Kind
  elem : Node
  pos : Int × Int

/-- `shape_elements` before the sort: all `p:sp`, then all `p:pic`, then all `p:graphicFrame` of
    the shape tree (`iter`: at any depth), each in document order -/
def collectShapes (S : SlideTags) (tree : Node) : List Entry :=
  (iter S.sp tree).map (fun e => ⟨.sp, e, shapePosition S e⟩)
  ++ (iter S.pic tree).map (fun e => ⟨.pic, e, shapePosition S e⟩)
  ++ (iter S.graphicFrame tree).map (fun e => ⟨.graphicFrame, e, shapePosition S e⟩)

/-- `table_data = _extract_table_from_graphic_frame(elem)` followed by `if table_data:`
    (`None` and a table without rows are dropped; a table whose rows have no cells is kept) -/
def frameGrid (T : PptxTags) (e : Node) : Option Grid :=
  match pptxFrameTable T e with
  | some g => if g.isEmpty then none else some g
  | none => none

/-- what the main loop of `_process_slide_from_context` appends to `tables` for one entry -/
def entryGrid (T : PptxTags) (s : Entry) : Option Grid :=
  match s.kind with
  | .graphicFrame => frameGrid T s.elem
  | _ => none

/-- `PptxSlide.tables` as built by `_process_slide_from_context` from the slide's root element -/
def slideTables (T : PptxTags) (S : SlideTags) (root : Node) : List Grid :=
  match (iter S.spTree root).head? with
  | none => []
  | some tree => (sortBy posLt (·.pos) (collectShapes S tree)).filterMap (entryGrid T)

/-! ## ODP -/

/-- the constants of `odp_extractor._extract_slide` (generated) -/
structure OdpSlideTags where
  frame : Str     -- draw:frame
  svgX : Str      -- _ATTR_SVG_X
  svgY : Str      -- _ATTR_SVG_Y

/-- `table_data = _extract_table(table)` followed by `if table_data:` for the first
    `table:table` child of a frame -/
def odpFrameGrid (T : OdfTags) (f : Node) : Option Grid :=
  match find T.table f with
  | none => none
  | some t =>
    let d := odpTable T t
    if d.isEmpty then none else some d

/-- the sort key of a frame: `(_parse_odf_length_to_px(svg:y), _parse_odf_length_to_px(svg:x))`;
    `lenPx` (a `float` in the code) is a parameter -/
def odpKey {K : Type} (D : OdpSlideTags) (lenPx : Option Str → K) (f : Node) : K × K :=
  (lenPx (f.get D.svgY), lenPx (f.get D.svgX))

/-- `OdpSlide.tables` as built by `_extract_slide(ctx, page, …)`; `lt` is `<` on the keys -/
def odpSlideTables {K : Type} [DecidableEq K] (T : OdfTags) (D : OdpSlideTags)
    (lenPx : Option Str → K) (lt : K → K → Bool) (page : Node) : List Grid :=
  (sortBy (lexLt lt) (odpKey D lenPx) (findall D.frame page)).filterMap (odpFrameGrid T)

/-! ### `_parse_odf_length_to_px` in exact arithmetic

The instance of `lenPx` the correspondence uses: the value of `_parse_odf_length_to_px` computed
in ℚ instead of binary floating point, for ASCII input (`\s`, `\d` of the regular expression
restricted to ASCII).  Float rounding is not modelled: the theorems hold for every `lenPx`. -/

def isAsciiWs (c : Char) : Bool := c == ' ' || c == '\t' || c == '\n' || c == '\r' || c.toNat == 11 || c.toNat == 12
def isAsciiAlpha (c : Char) : Bool := ('a' ≤ c && c ≤ 'z') || ('A' ≤ c && c ≤ 'Z')
def asciiLower (c : Char) : Char := if 'A' ≤ c && c ≤ 'Z' then Char.ofNat (c.toNat + 32) else c

def digitsVal (ds : Str) : Nat := ds.foldl (fun acc c => acc * 10 + (c.toNat - 48)) 0

/-- the pieces of `^\s*(\d+(?:\.\d+)?)\s*([a-zA-Z]+)?\s*$`: (negative?, integer digits, fraction digits, unit).
    `signed` = the expression has `-?` in front of the digits (it has not on the current source:
    `S2T.Gen.TablesSlide.odpLengthSigned`, probed on the compiled expression) -/
def lengthParts? (signed : Bool) (s : Str) : Option (Bool × Str × Str × Str) :=
  let s := s.dropWhile isAsciiWs
  let (neg, s) : Bool × Str :=
    match s with
    | '-' :: r => if signed then (true, r) else (false, s)
    | _ => (false, s)
  let ip := s.takeWhile isAsciiDigit
  let s := s.dropWhile isAsciiDigit
  if ip.isEmpty then none
  else
    let frac? : Option (Str × Str) :=
      match s with
      | '.' :: r =>
        let fp := r.takeWhile isAsciiDigit
        if fp.isEmpty then none else some (fp, r.dropWhile isAsciiDigit)
      | r => some ([], r)
    match frac? with
    | none => none
    | some (fp, s) =>
      let s := s.dropWhile isAsciiWs
      let unit := s.takeWhile isAsciiAlpha
      let s := (s.dropWhile isAsciiAlpha).dropWhile isAsciiWs
      -- `$` also matches in front of one trailing newline, which `\s*` has already eaten
      if s.isEmpty then some (neg, ip, fp, unit) else none

/-- factor px per unit -/
def unitFactor (u : Str) : Rat :=
  let u := u.map asciiLower
  if u.isEmpty || u == "px".toList then 1
  else if u == "in".toList then 96
  else if u == "cm".toList then (96 : Rat) / (254 / 100)
  else if u == "mm".toList then (96 : Rat) / (254 / 10)
  else if u == "pt".toList then (96 : Rat) / 72
  else if u == "pc".toList then (12 * 96 : Rat) / 72
  else 1

/-- `_parse_odf_length_to_px(value)` in ℚ; anything the expression does not match is 0 -/
def lenPxQ (signed : Bool) (v : Option Str) : Rat :=
  match v with
  | none => 0
  | some s =>
    match lengthParts? signed s with
    | none => 0
    | some (neg, ip, fp, unit) =>
      let a := ((digitsVal ip : Rat) + (digitsVal fp : Rat) / ((10 : Rat) ^ fp.length)) * unitFactor unit
      if neg then -a else a

def ratLt (a b : Rat) : Bool := decide (a < b)

/-! ## spec side: a written slide -/

def pNs : Str := "{http://schemas.openxmlformats.org/presentationml/2006/main}".toList
/-- the names the formats prescribe (spec side; the generated constants of the code must equal them: `SlideTags.ok`) -/
def pSpTree : Str := pNs ++ "spTree".toList
def pXfrmTag : Str := pNs ++ "xfrm".toList
def aOffTag : Str := aNs ++ "off".toList
def pSld : Str := pNs ++ "sld".toList
def pCSld : Str := pNs ++ "cSld".toList
def pNvGrpSpPr : Str := pNs ++ "nvGrpSpPr".toList
def pGrpSpPr : Str := pNs ++ "grpSpPr".toList
def pGrpSp : Str := pNs ++ "grpSp".toList
def aExt : Str := aNs ++ "ext".toList
def cChart : Str := "{http://schemas.openxmlformats.org/drawingml/2006/chart}chart".toList
def chartUri : Str := "http://schemas.openxmlformats.org/drawingml/2006/chart".toList

def digitChar (d : Nat) : Char :=
  match d with
  | 0 => '0' | 1 => '1' | 2 => '2' | 3 => '3' | 4 => '4'
  | 5 => '5' | 6 => '6' | 7 => '7' | 8 => '8' | _ => '9'

/-- decimal digits of a natural number, no leading zeros -/
def decNat (n : Nat) : Str :=
  if _h : n < 10 then [digitChar n] else decNat (n / 10) ++ [digitChar (n % 10)]
termination_by n
decreasing_by omega

/-- `str(i)` of an `int`: how an EMU offset is written into `a:off/@x`, `@y` -/
def decInt (i : Int) : Str :=
  match i with
  | .ofNat n => decNat n
  | .negSucc n => '-' :: decNat (n + 1)

/-- `<p:xfrm><a:off x=… y=…/><a:ext/></p:xfrm>` for a position `(y, x)` -/
def xfrmNode (S : SlideTags) (pos : Int × Int) : Node :=
  elem S.pXfrm [.mk S.off [(S.attrX, decInt pos.2), (S.attrY, decInt pos.1)] [] [] [], elem aExt []]

def xfrmNodes (S : SlideTags) (pos : Option (Int × Int)) : List Node :=
  match pos with
  | none => []
  | some p => [xfrmNode S p]

/-- `<a:graphic><a:graphicData uri=TABLE_URI><a:tbl>…` : the table part of `pptxFrame` -/
def graphicNode (T : PptxTags) (t : PptxTable) : Node :=
  elem aGraphic
    [.mk T.graphicData [(sUri, T.tableUri)] []
       [elem T.tbl (elem aTblPr [] :: elem aTblGrid [] ::
          t.map (fun row => elem T.tr (row.map (pptxCellNode T))))] []]

/-- a graphic frame of a slide: a table, or something else (a chart), at a position `(y, x)`
    (`none`: written without `p:xfrm`) -/
inductive Frame where
  | table (pos : Option (Int × Int)) (t : PptxTable)
  | chart (pos : Option (Int × Int))

def Frame.pos? : Frame → Option (Int × Int)
  | .table p _ => p
  | .chart p => p

/-- `<a:graphic>…</a:graphic>` of a frame: the table, or a chart reference -/
def Frame.content (T : PptxTags) : Frame → Node
  | .table _ t => graphicNode T t
  | .chart _ => elem aGraphic [.mk T.graphicData [(sUri, chartUri)] [] [elem cChart []] []]

/-- `<p:graphicFrame><p:nvGraphicFramePr/><p:xfrm>…</p:xfrm><a:graphic>…</a:graphic></p:graphicFrame>` -/
def Frame.node (T : PptxTags) (S : SlideTags) (f : Frame) : Node :=
  elem S.graphicFrame (elem pNvPr [] :: (xfrmNodes S f.pos? ++ [f.content T]))

/-- a shape of a slide: a graphic frame, any other element (`p:sp`, `p:pic`, `p:cxnSp`, …) or a
    group of shapes (`p:grpSp`, to any depth) -/
inductive Shape where
  | frame (f : Frame)
  | other (n : Node)
  | group (kids : List Shape)

mutual
/-- the graphic frames of a shape in document order -/
def Shape.frames : Shape → List Frame
  | .frame f => [f]
  | .other _ => []
  | .group ks => framesL ks
def framesL : List Shape → List Frame
  | [] => []
  | s :: r => s.frames ++ framesL r
end

mutual
def Shape.node (T : PptxTags) (S : SlideTags) : Shape → Node
  | .frame f => f.node T S
  | .other n => n
  | .group ks => elem pGrpSp (elem pNvGrpSpPr [] :: elem pGrpSpPr [] :: nodesL T S ks)
def nodesL (T : PptxTags) (S : SlideTags) : List Shape → List Node
  | [] => []
  | s :: r => s.node T S :: nodesL T S r
end

mutual
/-- the `other` elements of a shape hold no graphic frame -/
def Shape.clean (S : SlideTags) : Shape → Bool
  | .frame _ => true
  | .other n => (descSelf n).all (fun m => m.tag != S.graphicFrame)
  | .group ks => cleanL S ks
def cleanL (S : SlideTags) : List Shape → Bool
  | [] => true
  | s :: r => s.clean S && cleanL S r
end

/-- `<p:sld><p:cSld><p:spTree><p:nvGrpSpPr/><p:grpSpPr/> shapes </p:spTree></p:cSld></p:sld>` -/
def slideRoot (T : PptxTags) (S : SlideTags) (shapes : List Shape) : Node :=
  elem pSld [elem pCSld [elem S.spTree (elem pNvGrpSpPr [] :: elem pGrpSpPr [] :: nodesL T S shapes)]]

/-- where a frame is for the sort: its written position, or the "no position" default -/
def Frame.position (S : SlideTags) (f : Frame) : Int × Int := f.pos?.getD S.noPos

/-- what must come back for a frame: the grid of a table with at least one row (cell texts
    stripped: open finding `pptx.cell-outer-whitespace-stripped`), nothing for a table without
    rows or for a chart -/
def Frame.gridStripped : Frame → Option Grid
  | .table _ t => if t.isEmpty then none else some (t.map (fun row => row.map (fun cell => pyStrip (pptxCellSpec cell))))
  | .chart _ => none

/-- … with every cell text exactly as written -/
def Frame.grid : Frame → Option Grid
  | .table _ t => if t.isEmpty then none else some (t.map (fun row => row.map pptxCellSpec))
  | .chart _ => none

/-- two concrete non-frame shapes (used by the driver and the examples): a text box / placeholder
    `p:sp` and a picture `p:pic`, position in `p:spPr/a:xfrm/a:off` -/
def aXfrmNodes (S : SlideTags) (pos : Option (Int × Int)) : List Node :=
  match pos with
  | none => []
  | some p => [elem S.aXfrm [.mk S.off [(S.attrX, decInt p.2), (S.attrY, decInt p.1)] [] [] [], elem aExt []]]

def spNode (T : PptxTags) (S : SlideTags) (pos : Option (Int × Int)) (ph : Option (Str × Str)) (text : Str) : Node :=
  elem S.sp
    [elem S.nvSpPr [elem (pNs ++ "cNvPr".toList) [], elem (pNs ++ "cNvSpPr".toList) [],
       elem S.nvPr (match ph with
         | none => []
         | some (ty, idx) =>
           [.mk S.ph ((if ty.isEmpty then [] else [(S.phType, ty)]) ++ (if idx.isEmpty then [] else [(S.phIdx, idx)])) [] [] []])],
     elem S.spPr (aXfrmNodes S pos),
     elem (pNs ++ "txBody".toList) [elem aBodyPr [], pptxParaNode T [.run text]]]

def picNode (S : SlideTags) (pos : Option (Int × Int)) : Node :=
  elem S.pic
    [elem (pNs ++ "nvPicPr".toList) [elem (pNs ++ "cNvPr".toList) [], elem S.nvPr []],
     elem (pNs ++ "blipFill".toList) [elem (aNs ++ "blip".toList) []],
     elem S.spPr (aXfrmNodes S pos)]

/-! ### ODP: a written page -/

def drawNs : Str := "{urn:oasis:names:tc:opendocument:xmlns:drawing:1.0}".toList
def svgNs : Str := "{urn:oasis:names:tc:opendocument:xmlns:svg-compatible:1.0}".toList
def drawFrame : Str := drawNs ++ "frame".toList
def svgXAttr : Str := svgNs ++ "x".toList
def svgYAttr : Str := svgNs ++ "y".toList
def drawPage : Str := drawNs ++ "page".toList
def drawTextBox : Str := drawNs ++ "text-box".toList

/-- what a `draw:frame` holds -/
inductive OdpContent where
  | table (t : OdpTable)
  | other (kids : List Node)     -- text box, image, object …: no `table:table` child

/-- a `draw:frame` of a page: its `svg:y` / `svg:x` attribute strings (absent = `none`) and its content -/
structure OdpFrame where
  y : Option Str
  x : Option Str
  content : OdpContent

def optAttr (k : Str) (v : Option Str) : List (Str × Str) :=
  match v with
  | none => []
  | some s => [(k, s)]

def OdpFrame.node (T : OdfTags) (D : OdpSlideTags) (f : OdpFrame) : Node :=
  .mk D.frame (optAttr D.svgX f.x ++ optAttr D.svgY f.y) []
    (match f.content with
     | .table t => [odpTableNode T t]
     | .other kids => kids) []

/-- a child of a `draw:page`: a frame or any other element (`draw:custom-shape`, `presentation:notes`, …) -/
inductive OdpItem where
  | frame (f : OdpFrame)
  | other (n : Node)

def OdpItem.node (T : OdfTags) (D : OdpSlideTags) : OdpItem → Node
  | .frame f => f.node T D
  | .other n => n

def OdpItem.frame? : OdpItem → Option OdpFrame
  | .frame f => some f
  | .other _ => none

/-- `<draw:page> items </draw:page>` -/
def pageNode (T : OdfTags) (D : OdpSlideTags) (items : List OdpItem) : Node :=
  elem drawPage (items.map (OdpItem.node T D))

/-- side conditions of a written page: the other children of the page are not frames, the other
    content of a frame is not a table, the rows of a table have at least one cell (the existing
    hypothesis of `C13_grid_odp`) -/
def OdpItem.ok (T : OdfTags) (D : OdpSlideTags) : OdpItem → Bool
  | .other n => n.tag != D.frame
  | .frame f =>
    match f.content with
    | .table t => t.2.all (fun row => !row.isEmpty)
    | .other kids => kids.all (fun k => k.tag != T.table)

def OdpFrame.key {K : Type} (lenPx : Option Str → K) (f : OdpFrame) : K × K := (lenPx f.y, lenPx f.x)

/-- what must come back for a frame: the grid of a table with at least one row -/
def OdpFrame.grid (f : OdpFrame) : Option Grid :=
  match f.content with
  | .table t => if t.2.isEmpty then none else some (t.2.map (fun row => row.map odfCellSpec))
  | .other _ => none

end S2T.Tables.Slide
