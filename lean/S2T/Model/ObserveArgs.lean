import S2T.Model.History
/-
C06 model of an observer that takes an argument: `PptxSlide.get_text(include_image_captions)`.

`text` is the function the source computes today (no state).  `cachedCopy` / `cachedAlias` are the two ways of
keeping the argument-independent part of the answer in a per-instance cache: handing out a copy is unobservable for
every call sequence, appending the optional part to the cached list itself makes every later answer depend on the
arguments of the earlier calls (the same copy/alias split as `History.overlayCopy` / `overlayAlias`).
-/
namespace S2T.ObserveArgs

structure Slide where
  base : String
  formulas : List (Bool × String)      -- (is_display, latex)
  descs : List String                  -- image descriptions (alt texts), "" = none
  deriving Repr

def baseParts (s : Slide) : List String :=
  (if s.base = "" then [] else [s.base]) ++ s.formulas.map (fun f => if f.1 then "$$" ++ f.2 ++ "$$" else "$" ++ f.2 ++ "$")

def captions (s : Slide) : List String :=
  (s.descs.filter (fun d => d ≠ "")).map (fun d => "[Image: " ++ d ++ "]")

def parts (s : Slide) (withCaptions : Bool) : List String :=
  baseParts s ++ (if withCaptions then captions s else [])

/-- `PptxSlide.get_text(include_image_captions)` -/
def text (s : Slide) (withCaptions : Bool) : String := "\n".intercalate (parts s withCaptions)

/-- the cache holds the base parts; every call works on a copy -/
def cachedCopy (s : Slide) (c : Option (List String)) (withCaptions : Bool) : List String × Option (List String) :=
  let p := c.getD (baseParts s)
  (p ++ (if withCaptions then captions s else []), some p)

/-- the cache holds the list the call appends to (`parts = self._cache; parts.append(...)`) -/
def cachedAlias (s : Slide) (c : Option (List String)) (withCaptions : Bool) : List String × Option (List String) :=
  let p := c.getD (baseParts s)
  let p' := p ++ (if withCaptions then captions s else [])
  (p', some p')

end S2T.ObserveArgs
