/-
C08 — executable model of the encryption detectors and of the decisions built on them.

  util/encryption.py      _has_ole_encryption_stream, is_ooxml_encrypted, is_ppt_encrypted,
                          is_xls_encrypted (FILEPASS scan), is_odf_encrypted
  doc_extractor.py        _DocReader._parse_content (prefix up to the FIB flag test)
  archive_extractor.py    _extract_from_zip_optimized (two passes), _extract_from_7z_optimized (prefix)
  util/sevenzip.py        needs_password, _decompress_folder/_apply_decoder (which coder stops the decode)
  epub_extractor.py       _is_epub_encrypted
  pdf_extractor.py        the decrypt('') decision of read_pdf

Third-party parsers enter as parameters: an OLE file is the list of its root entries (name,
stream bytes | storage), a ZIP is its `infolist()`, a 7z archive its parsed folders, an XML
document is a tree (or "does not parse"), a PDF is (is_encrypted, result of decrypt('')); the test
`read_pdf` applies to that result is translated from the source into a `PdfTest` expression.
Bytes are `Nat`s.  Constants come from `S2T.Gen.Encryption.consts` (generated from the source).
Core Lean only.
-/
namespace S2T.Enc

abbrev Str := List Char

/-- the test `read_pdf` applies to the value of `reader.decrypt(<password>)` before it raises the
    encrypted error, as an expression over that one value (translated from the source by
    tools/gen/encryption.py: `==`/`is` ↦ `eq`, `!=`/`is not` ↦ `ne`, `<`,`<=`,`>`,`>=` ↦ `lt`/`ge`,
    `in (…)` ↦ `mem`, bare name ↦ `truthy`, `not`/`and`/`or`; names and attributes are resolved to
    their run-time integer value).  pypdf returns `PasswordType` members (an IntEnum), for which
    identity and equality coincide. -/
inductive PdfTest where
  | const (b : Bool)
  | eq (c : Nat)
  | ne (c : Nat)
  | lt (c : Nat)
  | ge (c : Nat)
  | mem (l : List Nat)
  | truthy
  | not (t : PdfTest)
  | and (a b : PdfTest)
  | or (a b : PdfTest)

/-- value of the test for decrypt result `v` -/
def PdfTest.eval : PdfTest → Nat → Bool
  | .const b, _ => b
  | .eq c, v => v == c
  | .ne c, v => v != c
  | .lt c, v => decide (v < c)
  | .ge c, v => decide (c ≤ v)
  | .mem l, v => l.contains v
  | .truthy, v => v != 0
  | .not t, v => !(t.eval v)
  | .and a b, v => a.eval v && b.eval v
  | .or a b, v => a.eval v || b.eval v

/-- strict upper bound of the constants a test mentions (≥ 1): from there on the test is constant
    (`PdfTest.eval_stable`), so deciding it on `0 … bound` decides it for every result -/
def PdfTest.bound : PdfTest → Nat
  | .const _ => 1
  | .eq c => c + 1
  | .ne c => c + 1
  | .lt c => c + 1
  | .ge c => c + 1
  | .mem l => l.foldr max 0 + 1
  | .truthy => 1
  | .not t => t.bound
  | .and a b => max a.bound b.bound
  | .or a b => max a.bound b.bound

structure Consts where
  oleMarkers : List Str
  pptExtra : List Str
  xlsStreams : List Str
  filepassId : Nat
  fibFlagsOffset : Nat
  fibEncryptedFlag : Nat
  fibMagics : List Nat
  minDocSize : Nat
  zipEncMask : Nat
  /-- `except` clauses around the per-member `zf.read`, in source order: (caught class, raised class) -/
  zipReadHandlers : List (String × String)
  aesPrefix : List Nat
  coderCopy : List Nat
  coderLzma : List Nat
  coderLzma2 : List Nat
  coderBcj : List Nat
  /-- the class `_apply_decoder` raises for an AES coder is translated to the encrypted error by `_extract_from_7z_optimized` -/
  szHeaderEncDetected : Bool
  /-- `needs_password` (reader and its `SevenZipFile` wrapper) writes no state and reads nothing but `self._folders` -/
  szAskPure : Bool
  /-- every store to `self._folders` is an unconditional plain assignment (no first-one-wins guard, no in-place mutation) -/
  szFoldersLastWriteWins : Bool
  odfManifest : Str
  /-- `some tag`: the manifest is parsed and elements are compared with `tag`; `none`: text test only -/
  odfEncTag : Option Str
  odfTextMarkers : List Str
  epubEncPath : Str
  epubRightsPath : Str
  epubEncTag : Str
  pdfPassword : Str
  /-- the test under which `read_pdf` raises the encrypted error, over the value of `decrypt(pdfPassword)` -/
  pdfTest : PdfTest
  /-- value of that test (evaluated on the real objects by the translator) for the value the
      `except` clause around the `decrypt` call assigns -/
  pdfExcRejects : Bool
  /-- pypdf's `PasswordType` members at run time: every outcome `decrypt` can report -/
  pdfPasswordTypes : List (String × Nat)

/-! ## OLE containers (olefile as a parameter) -/

/-- a root-level directory entry: name and stream content (`none` = storage) -/
abbrev OleDir := List (Str × Option (List Nat))

/-- ASCII lower-casing (olefile compares `name.lower()`; entry names outside ASCII are compared
    verbatim here — the correspondence generator stays within characters where both agree). -/
def lower (s : Str) : Str := s.map Char.toLower

/-- `ole.exists(name)` for a one-component name -/
def oleExists (dir : OleDir) (n : Str) : Bool := dir.any (fun e => lower e.1 == lower n)

/-- `_has_ole_encryption_stream` -/
def hasOleEncryptionStream (C : Consts) (dir : OleDir) : Bool := C.oleMarkers.any (oleExists dir)

/-- `is_ooxml_encrypted`; `none` = `olefile.isOleFile` is false -/
def isOoxmlEncrypted (C : Consts) : Option OleDir → Bool
  | none => false
  | some dir => hasOleEncryptionStream C dir

/-- `is_ppt_encrypted` -/
def isPptEncrypted (C : Consts) : Option OleDir → Bool
  | none => false
  | some dir => hasOleEncryptionStream C dir || C.pptExtra.any (oleExists dir)

/-! ## BIFF FILEPASS scan -/

/-- the `while offset + 4 <= data_len` loop of `is_xls_encrypted`: read id and length (little
    endian), stop at the wanted id, else skip `4 + record_len` bytes.  Terminates because every
    step consumes at least the 4 header bytes. -/
def scan (fid : Nat) : List Nat → Bool
  | b0 :: b1 :: l0 :: l1 :: rest =>
      if b0 + 256 * b1 = fid then true else scan fid (rest.drop (l0 + 256 * l1))
  | _ => false
termination_by l => l.length
decreasing_by simp [List.length_drop]; omega

/-- first entry with that (case-insensitive) name -/
def oleFind (dir : OleDir) (n : Str) : Option (Option (List Nat)) :=
  (dir.find? (fun e => lower e.1 == lower n)).map (·.2)

/-- first stream name of `names` that exists (`if ole.exists("Workbook") … elif ole.exists("Book")`) -/
def firstExisting (dir : OleDir) : List Str → Option Str
  | [] => none
  | n :: r => if oleExists dir n then some n else firstExisting dir r

inductive XlsAns | enc (b : Bool) | openFailed
  deriving DecidableEq, Repr

/-- `is_xls_encrypted`; `openstream` on a storage raises (→ `openFailed`, the wrapper turns it
    into a `LegacyMicrosoftParsingError`) -/
def isXlsEncrypted (C : Consts) : Option OleDir → XlsAns
  | none => .enc false
  | some dir =>
    match firstExisting dir C.xlsStreams with
    | none => .enc false
    | some n =>
      match oleFind dir n with
      | some (some data) => .enc (scan C.filepassId data)
      | _ => .openFailed

/-! ## DOC: File Information Block -/

def le16At (d : List Nat) (off : Nat) : Nat := d.getD off 0 + 256 * d.getD (off + 1) 0

inductive DocAns | noStream | tooSmall | badMagic | encrypted | proceed
  deriving DecidableEq, Repr

/-- `_DocReader._parse_content` up to and including the encryption test; `none` = no WordDocument stream -/
def docCheck (C : Consts) : Option (List Nat) → DocAns
  | none => .noStream
  | some wd =>
    if wd.isEmpty then .noStream                       -- `if not word_doc`
    else if wd.length < C.minDocSize then .tooSmall
    else if !C.fibMagics.contains (le16At wd 0) then .badMagic
    else if le16At wd C.fibFlagsOffset &&& C.fibEncryptedFlag ≠ 0 then .encrypted
    else .proceed

/-! ## ZIP archives -/

/-- what `zf.read(info)` does for one member -/
inductive ZRead
  | data                 -- returns the bytes
  | runtimeError         -- RuntimeError that is not a NotImplementedError ("… is encrypted, password required")
  | notImplemented       -- NotImplementedError (unsupported compression method / ZIP feature); a RuntimeError subclass
  | badZip               -- zipfile.BadZipFile (bad CRC, bad magic, …)
  | other                -- any other exception
  deriving DecidableEq, Repr

structure ZInfo where
  isDir : Bool
  flagBits : Nat
  skip : Bool            -- `_should_skip_file(filename, basename)`
  tooLarge : Bool        -- `info.file_size > max_memory_size`
  read : ZRead
  yields : Nat           -- how many results `_process_archive_entry` yields for it (it never raises)
  deriving Repr

inductive ArcEnd | done | encrypted | failed | otherExc
  deriving DecidableEq, Repr

/-- first pass of `_extract_from_zip_optimized`: `none` = an encrypted member was met -/
def zipPass1 (C : Consts) : List ZInfo → Option (List ZInfo)
  | [] => some []
  | i :: r =>
    if i.isDir then zipPass1 C r
    else if i.flagBits &&& C.zipEncMask ≠ 0 then none
    else if i.skip then zipPass1 C r
    else (zipPass1 C r).map (i :: ·)

/-- Python's `except` clause selection for the exception classes `zf.read` can raise here -/
def excIsA (e : ZRead) (cls : String) : Bool :=
  match e with
  | .data => false
  | .runtimeError => cls == "RuntimeError" || cls == "Exception"
  | .notImplemented => cls == "NotImplementedError" || cls == "RuntimeError" || cls == "Exception"
  | .badZip => cls == "zipfile.BadZipFile" || cls == "Exception"
  | .other => cls == "Exception"

def raisedEnd (cls : String) : ArcEnd :=
  if cls == "ExtractionFileEncryptedError" then .encrypted
  else if cls == "ExtractionFailedError" then .failed
  else .otherExc

/-- outcome of a failing read: the first inner handler that matches decides; otherwise the outer
    `except zipfile.BadZipFile` → failed; anything else leaves the function (read_archive wraps it) -/
def readFailure (C : Consts) (e : ZRead) : ArcEnd :=
  match C.zipReadHandlers.find? (fun h => excIsA e h.1) with
  | some h => raisedEnd h.2
  | none => if e = .badZip then .failed else .otherExc

/-- second pass: yields so far and how it ends -/
def zipPass2 (C : Consts) : List ZInfo → Nat × ArcEnd
  | [] => (0, .done)
  | i :: r =>
    if i.tooLarge then zipPass2 C r
    else match i.read with
      | .data => let (n, e) := zipPass2 C r; (i.yields + n, e)
      | e => (0, readFailure C e)

/-- `_extract_from_zip_optimized`; `none` = `zipfile.ZipFile(...)` raised BadZipFile -/
def zipExtract (C : Consts) : Option (List ZInfo) → Nat × ArcEnd
  | none => (0, .failed)
  | some infos =>
    match zipPass1 C infos with
    | none => (0, .encrypted)
    | some todo => zipPass2 C todo

/-! ## 7z archives -/

abbrev Coder := List Nat      -- coder id bytes

/-- `needs_password` -/
def needsPassword (C : Consts) (folders : List (List Coder)) : Bool :=
  folders.any (fun f => f.any (fun c => C.aesPrefix.isPrefixOf c))

inductive Decode | ok | encrypted | bad
  deriving DecidableEq, Repr

/-- `_apply_decoder` for one coder; `lzmaOk` = what the LZMA/LZMA2 decompressor does (parameter) -/
def applyDecoder (C : Consts) (lzmaOk : Bool) (c : Coder) : Decode :=
  if c = C.coderCopy then .ok
  else if c = C.coderLzma then (if lzmaOk then .ok else .bad)
  else if c = C.coderLzma2 then (if lzmaOk then .ok else .bad)
  else if c = C.coderBcj then .ok
  else if C.aesPrefix.isPrefixOf c then .encrypted
  else .bad

/-- `_decompress_folder`: decoders applied in reverse order, the first that raises decides -/
def decodeFolder (C : Consts) (lzmaOk : Bool) (coders : List Coder) : Decode :=
  if coders.isEmpty then .bad
  else go coders.reverse
where
  go : List Coder → Decode
    | [] => .ok
    | c :: r => match applyDecoder C lzmaOk c with
      | .ok => go r
      | d => d

structure SzArchive where
  /-- coders of the folder of an EncodedHeader, if the header is encoded -/
  headerCoders : Option (List Coder)
  folders : List (List Coder)

/-- `_extract_from_7z_optimized` up to the point where listing starts: `.done` = goes on to extract -/
def szOpen (C : Consts) (lzmaOk : Bool) (a : SzArchive) : ArcEnd :=
  let hdr := match a.headerCoders with
    | none => Decode.ok
    | some cs => decodeFolder C lzmaOk cs
  match hdr with
  | .encrypted => if C.szHeaderEncDetected then .encrypted else .failed
  | .bad => .failed
  | .ok => if needsPassword C a.folders then .encrypted else .done

/-! ## 7z reader as a state machine

`SevenZipReader` keeps ONE attribute `_folders`; every streams info that is parsed assigns it (the folder of an
EncodedHeader first — `7z a -p` writes a compressed, not encrypted header —, additional / main streams info after the
header was decoded), and `needs_password()` can be asked at any moment (by the parser itself, by the wrapper, by the
extractor).  The two `Consts` facts say what the CURRENT source does; the alternatives are what a memoising
`needs_password` / a guarded store would do. -/

structure SzReader where
  folders : List (List Coder) := []
  memo : Option Bool := none
  deriving Repr

inductive SzEv
  /-- a streams info was parsed completely (`_parse_unpack_info` stored its folders) -/
  | parsed (fs : List (List Coder))
  /-- somebody calls `needs_password()` and uses / drops the answer -/
  | ask
  deriving Repr

def SzReader.parsed (C : Consts) (r : SzReader) (fs : List (List Coder)) : SzReader :=
  if C.szFoldersLastWriteWins then { r with folders := fs }
  else if r.folders.isEmpty then { r with folders := fs } else r

def SzReader.ask (C : Consts) (r : SzReader) : Bool × SzReader :=
  if C.szAskPure then (needsPassword C r.folders, r)
  else match r.memo with
    | some b => (b, r)
    | none => (needsPassword C r.folders, { r with memo := some (needsPassword C r.folders) })

def SzReader.run (C : Consts) (r : SzReader) : List SzEv → SzReader
  | [] => r
  | .parsed fs :: es => (r.parsed C fs).run C es
  | .ask :: es => (r.ask C).2.run C es

/-- what the extractor is told when it asks the finished reader -/
def szVerdict (C : Consts) (evs : List SzEv) : Bool := ((SzReader.run C {} evs).ask C).1

/-! ## XML trees (ElementTree as a parameter) -/

inductive Xml where
  | node (tag : Str) (children : List Xml)
  deriving Repr

mutual
/-- `any(el.tag == t for el in root.iter())` — the element itself and all descendants -/
def Xml.anyTag (t : Str) : Xml → Bool
  | .node tag cs => tag == t || Xml.anyTagL t cs
def Xml.anyTagL (t : Str) : List Xml → Bool
  | [] => false
  | c :: r => Xml.anyTag t c || Xml.anyTagL t r
end

/-- `root.findall(".//t")` is non-empty — proper descendants only -/
def Xml.anyDescendant (t : Str) : Xml → Bool
  | .node _ cs => Xml.anyTagL t cs

/-! ### Elements as ElementTree shows them (tag, attributes, text, children)

The detectors look at element TAGS only.  Everything else an `encryption.xml` / `manifest.xml` carries — the
`Algorithm` of an `EncryptionMethod`, key information, cipher references, checksum / key-derivation attributes, the
order and number of entries — is content of `XmlA` that `skeleton` forgets; the attributed variants of the detectors are
DEFINED through the skeleton, and the correspondence feeds them the attributed trees of generated packages in which
exactly that content varies. -/
inductive XmlA where
  | node (tag : Str) (attrs : List (Str × Str)) (text : Str) (children : List XmlA)
  deriving Repr

mutual
def XmlA.skeleton : XmlA → Xml
  | .node tag _ _ cs => .node tag (XmlA.skeletonL cs)
def XmlA.skeletonL : List XmlA → List Xml
  | [] => []
  | c :: r => XmlA.skeleton c :: XmlA.skeletonL r
end

mutual
/-- every attribute value of the element and its descendants, document order -/
def XmlA.attrValues (name : Str) : XmlA → List Str
  | .node _ attrs _ cs => (attrs.filter (fun a => a.1 == name)).map (·.2) ++ XmlA.attrValuesL name cs
def XmlA.attrValuesL (name : Str) : List XmlA → List Str
  | [] => []
  | c :: r => XmlA.attrValues name c ++ XmlA.attrValuesL name r
end

/-- `pat in s` -/
def containsSub (pat : Str) : Str → Bool
  | [] => pat.isEmpty
  | c :: r => pat.isPrefixOf (c :: r) || containsSub pat r

/-! ## ODF -/

structure OdfInput where
  isZip : Bool
  /-- manifest member: `none` = absent; else its decoded text and its parse (`none` = not well-formed) -/
  manifest : Option (Str × Option Xml)

/-- `is_odf_encrypted` -/
def isOdfEncrypted (C : Consts) (i : OdfInput) : Bool :=
  if !i.isZip then false
  else match i.manifest with
    | none => false
    | some (text, tree) =>
      match C.odfEncTag, tree with
      | some tag, some t => t.anyTag tag
      | _, _ => C.odfTextMarkers.any (fun m => containsSub m text)

/-! ## EPUB -/

structure EpubInput where
  names : List Str
  /-- parse of META-INF/encryption.xml (`none` = reading/parsing raises) -/
  encXml : Option Xml

/-- `_is_epub_encrypted` -/
def isEpubEncrypted (C : Consts) (i : EpubInput) : Bool :=
  (i.names.contains C.epubEncPath &&
    (match i.encXml with
     | some t => t.anyDescendant C.epubEncTag
     | none => false))
  || i.names.contains C.epubRightsPath

/-- `_is_epub_encrypted` on the attributed tree of encryption.xml -/
def isEpubEncryptedA (C : Consts) (names : List Str) (enc : Option XmlA) : Bool :=
  isEpubEncrypted C ⟨names, enc.map XmlA.skeleton⟩

/-- `is_odf_encrypted` on the attributed tree of the manifest -/
def isOdfEncryptedA (C : Consts) (isZip : Bool) (manifest : Option (Str × Option XmlA)) : Bool :=
  isOdfEncrypted C ⟨isZip, manifest.map (fun m => (m.1, m.2.map XmlA.skeleton))⟩

/-! ## PDF -/

/-- the decision in `read_pdf`: `decrypt` = result of `reader.decrypt(<pdfPassword>)`, `none` = it raised -/
def pdfRejects (C : Consts) (isEncrypted : Bool) (decrypt : Option Nat) : Bool :=
  isEncrypted &&
    (match decrypt with
     | none => C.pdfExcRejects
     | some v => C.pdfTest.eval v)

end S2T.Enc
