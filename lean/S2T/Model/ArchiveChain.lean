import S2T.Model.Limits
/-
C12, archives: (1) member loops over NAMED entries — the size the loop tests and the bytes it reads belong to the
same entry only if the payload is fetched through the entry's own handle; a NAME resolves to the LAST entry that
carries it (`ZipFile.getinfo` = `NameToInfo[name]`, `TarFile.getmember`, a file written to / read back from a temp
directory); (2) 7z folders with a coder CHAIN — every stage of the chain has its own output, and `max_output` has to
reach every stage, not only the one whose output is returned.
Core Lean only.
-/
namespace S2T.ArcChain
open S2T.Limits

/-! ## member loops over named entries -/

structure Entry where
  name : Nat          -- the member name (only equality of names matters)
  declared : Nat      -- the size the loop tests: `ZipInfo.file_size` / `TarInfo.size` / `FileInfo.uncompressed`
  delivers : Nat      -- bytes the entry's OWN handle delivers: `zf.open(info).read()` / `tf.extractfile(member).read()`
deriving Repr, DecidableEq

/-- what a NAME resolves to: the LAST entry carrying it -/
def resolveLast (es : List Entry) (nm : Nat) : Option Entry := es.reverse.find? (·.name == nm)

/-- how the loop gets at the payload of the entry it has just tested -/
inductive ReadBy | handle | name
deriving Repr, DecidableEq

/-- what the translator found at the read site; anything it cannot trace back to the loop's entry object counts as a
    name (worst case) -/
def ReadBy.ofString : String → ReadBy
  | "handle" => .handle
  | _ => .name

def loopDeliveredIn (all : List Entry) (o : Ops) (k : Kind) (rb : ReadBy) (limit : Nat) (es : List Entry) : List Nat :=
  es.filterMap (fun e =>
    if memberSkipped o k limit e.declared then none
    else match rb with
      | .handle => some e.delivers
      | .name => (resolveLast all e.name).map (·.delivers))

/-- lengths of the byte strings the member loop reads into memory, in order -/
def loopDelivered (o : Ops) (k : Kind) (rb : ReadBy) (limit : Nat) (es : List Entry) : List Nat :=
  loopDeliveredIn es o k rb limit es

/-- the one fact about zipfile / tarfile the bound needs: an entry's own handle delivers at most its declared size -/
def Faithful (es : List Entry) : Prop := ∀ e ∈ es, e.delivers ≤ e.declared

/-- no two entries share a name -/
def NamesDistinct (es : List Entry) : Prop := ∀ x ∈ es, ∀ y ∈ es, x.name = y.name → x = y

def payload (es : List Entry) : Nat := (es.map (·.declared)).sum

/-- 7z: the members that passed the filters are written to a temp directory under their NAME and read back by name:
    what the read-back of a wanted entry delivers is the LAST WANTED entry of that name -/
def readBack (o : Ops) (limit : Nat) (es : List Entry) : List Nat :=
  let wanted := es.filter (fun e => !memberSkipped o .sevenZip limit e.declared)
  wanted.filterMap (fun e => (resolveLast wanted e.name).map (·.declared))

/-! ## 7z: a folder's coder chain -/

/-- one stage, in application order (the FIRST stage is the folder's LAST coder, the one that reads the pack stream) -/
inductive Stage
  | decoder (real : Nat)   -- LZMA / LZMA2: `real` = bytes the stream expands to when nothing stops the decoder
  | filter                 -- COPY, BCJ (passed through): output = input
  | unsupported            -- any other coder id: `Bad7zFile`
deriving Repr, DecidableEq

def cut : Option Nat → Nat → Nat
  | none, n => n
  | some b, n => min b n

/-- which stages get `max_output`: stage index (application order) and chain length ↦ Bool -/
abbrev Policy := Nat → Nat → Bool

/-- the source as documented: every stage -/
def Policy.all : Policy := fun _ _ => true
/-- only the stage whose output is returned -/
def Policy.lastOnly : Policy := fun i n => i + 1 == n
/-- what the generated site table amounts to: every stage iff every plumbing site hands the bound on unchanged
    (one site that does not: no stage counts as bounded — worst case) -/
def Policy.ofSites (sites : List (String × Bool)) : Policy := fun _ _ => sites.all (·.2)

def stageOut (bound : Option Nat) : Stage → Nat → Option Nat
  | .decoder real, _ => some (cut bound real)
  | .filter, inp => some (cut bound inp)
  | .unsupported, _ => none

def chainGo (p : Policy) (m : Option Nat) (n : Nat) : Nat → Nat → List Stage → List Nat
  | _, _, [] => []
  | i, inp, s :: rest =>
    match stageOut (if p i n then m else none) s inp with
    | none => []
    | some o => o :: chainGo p m n (i + 1) o rest

/-- output sizes of the stages that ran, in application order (`packed` = size of the pack stream) -/
def chainOutputs (p : Policy) (m : Option Nat) (stages : List Stage) (packed : Nat) : List Nat :=
  chainGo p m stages.length 0 packed stages

end S2T.ArcChain
