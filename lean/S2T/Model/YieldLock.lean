/-
C15: generators that use a process-wide lock, and their consumers.

Every extractor is a generator.  Thread / consumer `t` drives generator `t`; between two `next()` calls the generator is
SUSPENDED at a `yield` and its consumer does whatever it likes — possibly nothing, for ever (it keeps the result and never
resumes), possibly it starts another extraction.  The generator has `n` segments of work left, each of which needs the
process-wide lock `L` (`with L:` around the parsing).

* `spans = false` — the `with L:` block is closed BEFORE the `yield`:      idle (n+1) → want n → crit n → idle n
* `spans = true`  — the `yield` is INSIDE the `with L:` block:             idle (n+1) → want n → crit n → held n → idle n
  (`held n`: suspended at the yield with the lock still taken; it is released when the consumer resumes / closes the generator)

`threading.Lock` is not re-entrant and not owned by a thread: a `want` step is blocked whoever holds the lock, also when
the holder is a suspended generator that was driven by the same thread.  Any number of generators (`Nat`-indexed), any schedule.
-/
namespace S2T.YieldLock

inductive Pc
  | idle (n : Nat)     -- not started / suspended at a yield / exhausted (n = 0), lock not held
  | want (n : Nat)     -- `next()` called, about to acquire
  | crit (n : Nat)     -- inside `with L:`
  | held (n : Nat)     -- suspended at a yield INSIDE `with L:`
  deriving DecidableEq, Repr

structure St where
  lock : Option Nat
  pc : Nat → Pc

def upd (f : Nat → Pc) (t : Nat) (p : Pc) : Nat → Pc := fun u => if u = t then p else f u

def step (spans : Bool) (s : St) (t : Nat) : St :=
  match s.pc t with
  | .idle 0 => s
  | .idle (n + 1) => { s with pc := upd s.pc t (.want n) }
  | .want n =>
    match s.lock with
    | none => { lock := some t, pc := upd s.pc t (.crit n) }
    | some _ => s
  | .crit n => if spans then { s with pc := upd s.pc t (.held n) } else { lock := none, pc := upd s.pc t (.idle n) }
  | .held n => { lock := none, pc := upd s.pc t (.idle n) }

def run (spans : Bool) (s : St) : List Nat → St
  | [] => s
  | t :: r => run spans (step spans s t) r

/-- `segs u` = number of results generator `u` will yield -/
def init (segs : Nat → Nat) : St := { lock := none, pc := fun u => .idle (segs u) }

/-- the consumer of the generator is free to do nothing: the generator is at a yield (or not started, or exhausted) -/
def suspended : Pc → Bool
  | .idle _ => true
  | .held _ => true
  | _ => false

/-- invariant of the protocol that closes the `with` block before the yield -/
structure Inv (s : St) : Prop where
  holder : ∀ u, s.lock = some u ↔ ∃ n, s.pc u = .crit n
  noHeld : ∀ u n, s.pc u ≠ .held n

end S2T.YieldLock
