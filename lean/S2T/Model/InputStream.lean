import S2T.Model.Observe
/-
C06 model of the caller's input buffer (`io.BytesIO`) under the FULL method alphabet — the read-only
methods the extractors use today and the mutators a change could start to use — so that
"read-only" is a theorem about modelled operations and not a list of names.
-/
namespace S2T.InputStream
open S2T.Observe

inductive InOp where
  | read (k : Nat) | readAll | readline | readinto (k : Nat)
  | seek (p : Nat) | tell | getvalue | getbuffer | seekable | readable
  | write (b : List Nat)            -- overwrite/extend at the current position (zero padded past the end)
  | truncate (n : Option Nat)       -- cut at n (default: the current position); never extends
  | writelines (b : List Nat)
  deriving DecidableEq, Repr

def readOnly : InOp → Bool
  | .write _ | .truncate _ | .writelines _ => false
  | _ => true

/-- bytes up to and including the first 10, or everything -/
def lineOf : List Nat → List Nat
  | [] => []
  | b :: bs => if b = 10 then [b] else b :: lineOf bs

def writeAt (content : List Nat) (pos : Nat) (b : List Nat) : List Nat :=
  if b = [] then content
  else (content.take pos ++ List.replicate (pos - content.length) 0) ++ b ++ content.drop (pos + b.length)

def inStep (s : Stream) : InOp → Stream
  | .read k => { s with pos := s.pos + ((s.content.drop s.pos).take k).length }
  | .readinto k => { s with pos := s.pos + ((s.content.drop s.pos).take k).length }
  | .readAll => { s with pos := max s.pos s.content.length }
  | .readline => { s with pos := s.pos + (lineOf (s.content.drop s.pos)).length }
  | .seek p => { s with pos := p }
  | .tell | .getvalue | .getbuffer | .seekable | .readable => s
  | .write b => { content := writeAt s.content s.pos b, pos := s.pos + b.length }
  | .writelines b => { content := writeAt s.content s.pos b, pos := s.pos + b.length }
  | .truncate none => { s with content := s.content.take s.pos }
  | .truncate (some n) => { s with content := s.content.take n }

def inRun (s : Stream) : List InOp → Stream
  | [] => s
  | op :: ops => inRun (inStep s op) ops

/-- method name (as inventoried: `file_like.<m>`) ↦ is it one of the modelled read-only operations?
    `none` = not a modelled `BytesIO` method at all -/
def methodReadOnly (m : String) : Option Bool :=
  if m ∈ ["file_like.read", "file_like.readline", "file_like.readinto", "file_like.seek", "file_like.tell",
          "file_like.getvalue", "file_like.getbuffer", "file_like.seekable", "file_like.readable"] then some true
  else if m ∈ ["file_like.write", "file_like.truncate", "file_like.writelines"] then some false
  else none

end S2T.InputStream
