/-
Model of sharepoint2text/parsing/router.py (routing decision), over `List Char`.

`pl` is always the already lower-cased path (`path.lower()` is CPython's and is applied
identically by `is_supported_file` and `get_extractor`); `mime` is the first component of
`mimetypes.guess_type(pl)` — an arbitrary parameter, the host's MIME database is not modelled.
The tables are parameters (`Tables`); the generated instance lives in `S2T.Gen.Router`.
-/
namespace S2T.Router

abbrev Str := List Char

structure Tables where
  registry : List (Str × (Str × Str))      -- file type ↦ (module, function)
  aliases  : List (Str × Str)              -- ext ↦ file type
  compound : List (Str × Str)              -- ".tar.gz" ↦ file type   (dict order)
  supported : List Str                     -- runtime value of _SUPPORTED_EXTENSIONS (sorted)
  mimeMap  : List (Str × Str)              -- MIME ↦ file type

/-- `dict.get` on an association list with unique keys (insertion order irrelevant). -/
def lookup {β} (k : Str) : List (Str × β) → Option β
  | [] => none
  | (k', v) :: r => if k = k' then some v else lookup k r

/-- last path component: characters after the last '/'. -/
def baseName (p : Str) : Str := (p.reverse.takeWhile (· ≠ '/')).reverse

/-- `os.path.splitext(p)[1]` (posixpath): the extension including the dot, or `[]`.
    An extension exists iff the basename has a dot that is preceded, inside the basename,
    by at least one non-dot character. -/
def splitextExt (p : Str) : Str :=
  let b := baseName p
  let afterRev := b.reverse.takeWhile (· ≠ '.')
  if afterRev.length = b.length then []
  else
    let before := b.take (b.length - afterRev.length - 1)
    if before.any (· ≠ '.') then '.' :: afterRev.reverse else []

/-- first compound extension (dict order) that `pl` ends with. -/
def compoundMatch (c : List (Str × Str)) (pl : Str) : Option Str :=
  match c with
  | [] => none
  | (e, t) :: r => if e.isSuffixOf pl then some t else compoundMatch r pl

/-- `_file_type_from_extension`. -/
def fileTypeFromExt (T : Tables) (pl : Str) : Option Str :=
  match compoundMatch T.compound pl with
  | some t => some t
  | none =>
    match splitextExt pl with
    | [] => none
    | _ :: ext =>
      if ext = [] then none
      else
        let ext' := (lookup ext T.aliases).getD ext
        if (lookup ext' T.registry).isSome then some ext' else none

/-- `is_supported_file` after lower-casing. -/
def isSupported (T : Tables) (pl : Str) (mime : Option Str) : Bool :=
  if (compoundMatch T.compound pl).isSome then true
  else if T.supported.contains (splitextExt pl) then true
  else match mime with
    | none => false
    | some m => !m.isEmpty && (lookup m T.mimeMap).isSome

inductive Err | formatNotSupported
  deriving DecidableEq, Repr

instance {α} [DecidableEq α] : DecidableEq (Except Err α)
  | .ok a, .ok b => if h : a = b then isTrue (by rw [h]) else isFalse (by intro h'; cases h'; exact h rfl)
  | .error a, .error b => if h : a = b then isTrue (by rw [h]) else isFalse (by intro h'; cases h'; exact h rfl)
  | .ok _, .error _ => isFalse (by intro h; cases h)
  | .error _, .ok _ => isFalse (by intro h; cases h)

/-- `_get_extractor`: registry lookup (the lazy import is assumed to succeed for registry entries). -/
def getExtractorByType (T : Tables) (t : Str) : Except Err (Str × Str) :=
  match lookup t T.registry with
  | some mf => .ok mf
  | none => .error .formatNotSupported

/-- `get_extractor` after lower-casing. -/
def getExtractor (T : Tables) (pl : Str) (mime : Option Str) : Except Err (Str × Str) :=
  match fileTypeFromExt T pl with
  | some t => if t.isEmpty then mimeBranch else getExtractorByType T t
  | none => mimeBranch
where
  mimeBranch : Except Err (Str × Str) :=
    match mime with
    | none => .error .formatNotSupported
    | some m =>
      match lookup m T.mimeMap with
      | some t => getExtractorByType T t
      | none => .error .formatNotSupported

end S2T.Router
