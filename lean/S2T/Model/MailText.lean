import S2T.Model.Mail
/-!
# C16 — the text steps of the mail extractors

What happens to a decoded header / body text between the parser and the `EmailContent` that is returned:

* `unfold` — `HEADER_FOLDING_PATTERN.sub("", value)` with the pattern `\r?\n(?=[ \t])` (both extractors): the only
  change a header value may undergo (RFC 5322 2.2.3);
* `pyStrip` — CPython's `str.strip()` (white space = `str.isspace`), applied by `EmailContent.__post_init__` to the
  subject and the plain body — the ends only;
* `decodeTable` — `bytes.decode(<single-byte codec>, errors="replace")` as a table lookup per byte, the table being
  read from the running codec by `tools/gen/mail.py` (`S2T.Gen.Mail.codecTables`).
-/
namespace S2T.MailText
open S2T.Mail
open S2T.Router (Str)

/-- the code points for which CPython's `str.isspace()` holds (cross-checked with the running interpreter by the
    generator: theorem `gen_whitespace`) -/
def pyWsList : List Nat :=
  [9, 10, 11, 12, 13, 28, 29, 30, 31, 32, 133, 160, 5760, 8192, 8193, 8194, 8195, 8196, 8197, 8198, 8199, 8200,
   8201, 8202, 8232, 8233, 8239, 8287, 12288]

def isPyWs (c : Char) : Bool := pyWsList.contains c.toNat

def lstrip (s : Str) : Str := s.dropWhile isPyWs
def rstrip (s : Str) : Str := (s.reverse.dropWhile isPyWs).reverse
/-- `str.strip()` -/
def pyStrip (s : Str) : Str := rstrip (lstrip s)

def isWsp (c : Char) : Bool := c == ' ' || c == '\t'
def startsWsp : Str → Bool
  | c :: _ => isWsp c
  | [] => false
def crlfWsp : Str → Bool
  | '\n' :: w :: _ => isWsp w
  | _ => false

/-- `re.sub(r"\r?\n(?=[ \t])", "", s)`: a line break (LF or CRLF) followed by a blank or a tab disappears, the
    blank / tab and everything else stays -/
def unfold : Str → Str
  | [] => []
  | c :: rest =>
    if (c == '\n' && startsWsp rest) || (c == '\r' && crlfWsp rest) then unfold rest else c :: unfold rest

/-- `EmailContent.__post_init__` -/
def postInit (r : EmlResult) : EmlResult := { r with subject := pyStrip r.subject, bodyPlain := pyStrip r.bodyPlain }

/-- the `EmailContent` `_read_eml_format` returns: the mapping of the mailparser result, the Subject unfolded,
    then `__post_init__` -/
def emlContent (T : S2T.Router.Tables) (m : Mp) : Except EmlErr EmlResult :=
  (readEml T m).map (fun r => postInit { r with subject := unfold r.subject })

/-- the subject the mbox extractor returns for the raw header value whose RFC 2047 reading is `dec`
    (`decode_header_value` unfolds first, `__post_init__` strips) — `dec` is the stdlib's part -/
def mboxSubject (dec : Str → Str) (raw : Str) : Str := pyStrip (dec (unfold raw))

/-- `payload.decode(codec, errors="replace")` for a single-byte codec given as its table of 256 code points
    (`0xFFFD` where the codec has no character) -/
def decodeTable (T : List Nat) (bs : Bytes) : List Nat := bs.map (fun b => T.getD b 0xFFFD)
/-- the byte a single-byte codec writes for a code point of its repertoire -/
def encodeTable (T : List Nat) (cps : List Nat) : Bytes := cps.map (fun c => T.idxOf c)

end S2T.MailText
