import S2T.Model.SharePoint
/-!
C18, part "what the server sees / what the client looks at" (core Lean only, linked into the driver).

1. PERCENT-DECODING.  The Graph server (and the harness's fake server) decodes a by-path request ONCE:
   `pctDecode` is RFC 3986 / `urllib.parse.unquote_to_bytes` on the request path; `utf8Str` are the bytes of a
   folder name.  `Props/C18_Items.lean` proves `pctDecode (quote s) = utf8Str s` for every string: the folder the
   server looks up is the folder the caller named — also when the name itself contains a literal escape
   look-alike (`Rates %2B fees`, `Growth 100%25`, `Q%31`).

2. RAW ITEMS.  A Graph driveItem as the listing code can look at it: which members are present and what shape
   the facets have (`RawItem`), and the ACCESSOR code of `_list_items_paginated` / `_get_folders_from_url` /
   `_parse_file_item` / `_walk_drive_items` (`"folder" in item`, `"file" in item`, `item.get("name", "")`,
   `item.get("id")`, …) as `classify : RawItem → Item`.  The optional members (childCount, facet members, size,
   dates of folders, parentReference, fileSystemInfo, webUrl, …) are fields of `RawItem` that `classify` does
   not read: `RawItem.essence` erases them and `classify` factors through it.  The driver op `c18.run` receives
   raw items and classifies them HERE (before: in Python, trusted).
-/
namespace S2T.SP

/-! ### 1. percent-decoding (server side) -/

/-- value of a hexadecimal digit, either case -/
def hexVal (ch : Char) : Option Nat :=
  let n := ch.toNat
  if 48 ≤ n ∧ n ≤ 57 then some (n - 48)
  else if 65 ≤ n ∧ n ≤ 70 then some (n - 55)
  else if 97 ≤ n ∧ n ≤ 102 then some (n - 87)
  else none

/-- `%XX` at the head of `r` (after the `%`) -/
def pctHead : Str → Option (Nat × Str)
  | a :: b :: r =>
    match hexVal a, hexVal b with
    | some x, some y => some (16 * x + y, r)
    | _, _ => none
  | _ => none

theorem pctHead_length {r r' : Str} {v : Nat} (h : pctHead r = some (v, r')) : r'.length < r.length := by
  unfold pctHead at h
  split at h
  · split at h
    · simp only [Option.some.injEq, Prod.mk.injEq] at h
      rw [← h.2]; simp only [List.length_cons]; omega
    · cases h
  · cases h

/-- RFC 3986 percent-decoding of an ASCII request path to bytes: `%XX` (either hex case) is one byte, a `%` that
    does not start an escape stays a `%`, every other character is its own byte -/
def pctDecode : Str → List Nat
  | [] => []
  | ch :: r =>
    if ch = '%' then
      match _h : pctHead r with
      | some (v, r') => v :: pctDecode r'
      | none => 37 :: pctDecode r
    else ch.toNat :: pctDecode r
termination_by s => s.length
decreasing_by
  · have := pctHead_length _h; simp only [List.length_cons]; omega
  · simp
  · simp

/-- `name.encode("utf-8")` -/
def utf8Str (s : Str) : List Nat := s.flatMap (fun ch => utf8 ch.toNat)

/-- the decoded request path as a string, when it is ASCII (examples / counterexamples only) -/
def pctDecodeAscii (s : Str) : Str := (pctDecode s).map Char.ofNat

/-! ### 2. raw driveItems and the accessor code -/

/-- a facet member (`folder`, `file`): missing, or an object with / without the optional `childCount`
    (`extra`: further members such as `view`, `mimeType`, `hashes`) -/
inductive Facet
  | absent
  | obj (childCount : Option Nat) (extra : Bool)
  deriving DecidableEq, Repr

def Facet.present : Facet → Bool
  | .absent => false
  | .obj _ _ => true

/-- the `id` member: missing, a falsy value (`""`, `null`), a non-empty string -/
inductive RawId
  | absent
  | falsy
  | str (s : Str)
  deriving DecidableEq, Repr

/-- optional members the listing must not depend on -/
structure Optional where
  size : Option Nat := none            -- `size` (missing / 0 / n)
  webUrl : Bool := false
  downloadUrl : Bool := false
  parentRef : Bool := false            -- `parentReference` {driveId, id, path}
  fileSystemInfo : Bool := false       -- `fileSystemInfo` with its own (different) timestamps
  listItem : Bool := false
  extraFacet : Bool := false           -- an unrelated facet: `shared`, `image`, `specialFolder`, …
  deriving DecidableEq, Repr

/-- one element of a page's `value` array, before the client has looked at it -/
structure RawItem where
  isDict : Bool := true
  name : Option Str := none            -- `name` (none = member missing)
  id : RawId := .absent
  folder : Facet := .absent
  file : Facet := .absent
  created : Option Str := none         -- `createdDateTime`
  modified : Option Str := none        -- `lastModifiedDateTime`
  opt : Optional := {}
  deriving DecidableEq, Repr

/-- `item.get("id")` of a folder item (`if folder_id:` — the emptiness test — is `forFolders`' business) -/
def RawId.get : RawId → Option Str
  | .str s => some s
  | _ => none

/-- `item.get("id", "")` of a file item (the generator emits strings only) -/
def RawId.orEmpty : RawId → Str
  | .str s => s
  | _ => []

/-- the accessor code: `isinstance(item, dict)`, `"folder" in item` (folders win), `"file" in item`,
    `item.get("name", "")`, `item.get("id")`, the two timestamps.  Nothing else is read. -/
def classify (r : RawItem) : Item :=
  if !r.isDict then .other
  else if r.folder.present then .folder (r.name.getD []) r.id.get
  else if r.file.present then .file ⟨r.name.getD [], r.id.orEmpty, r.created, r.modified⟩
  else .other

/-- what is left of an item when the optional members are erased -/
def RawItem.essence (r : RawItem) : RawItem :=
  { r with folder := if r.folder.present then .obj none false else .absent,
           file := if r.file.present then .obj none false else .absent,
           opt := {} }

structure RawObj where
  accessToken : Option Str := none
  id : Option Str := none
  value : List RawItem := []           -- `value` (missing = [])
  next : Option Url := none
  folder : Facet := .absent            -- the `folder` member of a by-path answer
  deriving DecidableEq, Repr

def RawObj.toObj (o : RawObj) : Obj :=
  { accessToken := o.accessToken, id := o.id, value := o.value.map classify, next := o.next,
    hasFolder := o.folder.present }

def RawObj.essence (o : RawObj) : RawObj :=
  { o with value := o.value.map RawItem.essence,
           folder := if o.folder.present then .obj none false else .absent }

inductive RawBody
  | notJson
  | nonObject
  | obj (o : RawObj)
  deriving DecidableEq, Repr

def RawBody.toBody : RawBody → Body
  | .notJson => .notJson
  | .nonObject => .nonObject
  | .obj o => .obj o.toObj

def RawBody.essence : RawBody → RawBody
  | .obj o => .obj o.essence
  | b => b

inductive RawOutcome
  | resp (status : Nat) (body : RawBody)
  | httpError (code : Nat)
  | urlError
  deriving DecidableEq, Repr

def RawOutcome.toOutcome : RawOutcome → Outcome
  | .resp st b => .resp st b.toBody
  | .httpError c => .httpError c
  | .urlError => .urlError

def RawOutcome.essence : RawOutcome → RawOutcome
  | .resp st b => .resp st b.essence
  | o => o

/-- the raw item that presents abstract item `it` with optional members `o` and facet shape `f` -/
def rawOf (o : Optional) (f : Facet) : Item → RawItem
  | .file fi => { name := some fi.name, id := .str fi.id, file := f, created := fi.created, modified := fi.modified, opt := o }
  | .folder n id => { name := some n, id := (match id with | some s => .str s | none => .absent), folder := f, opt := o }
  | .other => { isDict := false }

abbrev RawTransport := Nat → Url → RawOutcome

/-- what the client makes of a server that answers with raw items -/
def ofRaw (rt : RawTransport) : Transport := fun i u => (rt i u).toOutcome

/-- a presentation of abstract items as raw items (which optional members the server adds to which item of
    which answer): any function of the request index, the URL, the position in the page and the item -/
abbrev Decoration := Nat → Url → Nat → Item → RawItem

def decorateItems (d : Nat → Item → RawItem) : Nat → List Item → List RawItem
  | _, [] => []
  | k, it :: r => d k it :: decorateItems d (k + 1) r

/-- an abstract answer presented with decoration `d` (`fd`: the shape of the `folder` member of by-path answers) -/
def decorateOutcome (d : Nat → Item → RawItem) (fd : Facet) : Outcome → RawOutcome
  | .resp st .notJson => .resp st .notJson
  | .resp st .nonObject => .resp st .nonObject
  | .resp st (.obj o) =>
    .resp st (.obj { accessToken := o.accessToken, id := o.id, value := decorateItems d 0 o.value, next := o.next,
                     folder := if o.hasFolder then fd else .absent })
  | .httpError c => .httpError c
  | .urlError => .urlError

end S2T.SP
