import S2T.Model.C02OdfTok
/-
Models for the legacy / plain family of C02 (part 'odf'):

* `rtf_extractor._RtfParser._strip_rtf_full_with_pages` as a character machine (`go`) followed by
  `_combine_surrogates` (library commit 64a19e3: the UTF-16 halves written by two `\uN` are joined into the astral
  character, unpaired halves become U+FFFD); `\cell` / `\row` separators come purely through the `SPECIAL_CHARS`
  table (fix-rtf-cell-row-separators); `_is_skip_destination`; the paragraph split / strip / join of
  `_extract_body_text` + `parse` that produces `RtfContent.full_text`.
* `ppt_extractor._clean_text`
* `xls_extractor._format_sheet_as_text`
* `PlainTextContent` (`__post_init__`, `iterate_units`, `get_full_text`)

Input text is `List Char`; the machine's output is a list of code points (`List Nat`) because `chr(n & 0xFFFF)`
produces surrogate code points, which `Char` cannot hold.  Tables are parameters; the generated instance is in
`S2T.Gen.C02Odf`.  Core Lean only.
-/
namespace S2T.Rtf
open S2T.Tok

structure Tables where
  ws : List Nat                       -- str.isspace
  skip : List Str                     -- _RtfParser.SKIP_DESTINATIONS
  special : List (Str × Str)          -- _RtfParser.SPECIAL_CHARS
  alpha : List (Nat × Nat)            -- inclusive ranges of code points ≥ 128 with str.isalpha()
  digit : List (Nat × Nat)            -- inclusive ranges of code points ≥ 128 with str.isdigit()
  nd : List Nat                       -- first code point of every decade of decimal digits (`\d`, int()) ≥ 128
  deriving Repr

def inRanges (rs : List (Nat × Nat)) (n : Nat) : Bool := rs.any (fun r => r.1 ≤ n && n ≤ r.2)

def asciiAlpha (c : Char) : Bool := ('a' ≤ c && c ≤ 'z') || ('A' ≤ c && c ≤ 'Z')
def asciiDigit (c : Char) : Bool := '0' ≤ c && c ≤ '9'

/-- `c.isalpha()` -/
def isAlpha (T : Tables) (c : Char) : Bool := if c.toNat < 128 then asciiAlpha c else inRanges T.alpha c.toNat
/-- `c.isdigit()` -/
def isDigit (T : Tables) (c : Char) : Bool := if c.toNat < 128 then asciiDigit c else inRanges T.digit c.toNat
/-- value of a decimal digit as `\d` / `int()` see it -/
def decVal (T : Tables) (c : Char) : Option Nat :=
  if c.toNat < 128 then (if asciiDigit c then some (c.toNat - 48) else none)
  else (T.nd.find? (fun s => s ≤ c.toNat && c.toNat < s + 10)).map (fun s => c.toNat - s)

def isWsN (T : Tables) (n : Nat) : Bool := T.ws.contains n
def isWsC (T : Tables) (c : Char) : Bool := T.ws.contains c.toNat

def lookup {β} (k : Str) : List (Str × β) → Option β
  | [] => none
  | (k', v) :: r => if k = k' then some v else lookup k r

inductive Ev where
  | ch (c : Nat)
  | page
  deriving DecidableEq, Repr

structure St where
  depth : Int := 0
  skip : Bool := false
  skipDepth : Int := 0
  deriving DecidableEq, Repr

/-- `_is_skip_destination(ahead)`, `ahead` = the ≤ 29 characters from the backslash on -/
def isSkipDest (T : Tables) (ahead : Str) : Bool :=
  "\\*".toList.isPrefixOf ahead || T.skip.any (fun kw => ('\\' :: kw).isPrefixOf ahead)

/-- the control-word scan at a backslash (`rest` = the characters after it, the first one alphabetic):
    the word and the number of characters it takes, delimiter space included -/
def ctrlWord (T : Tables) (rest : Str) : Str × Nat :=
  let w := rest.takeWhile (isAlpha T)
  let r1 := rest.dropWhile (isAlpha T)
  let isPar := fun c => isDigit T c || c == '-'
  let ds := r1.takeWhile isPar
  let r2 := r1.dropWhile isPar
  let sp := match r2 with | ' ' :: _ => 1 | _ => 0
  (w, w.length + ds.length + sp)

def decFold (T : Tables) (ds : Str) : Nat := ds.foldl (fun acc c => acc * 10 + (decVal T c).getD 0) 0

/-- `_RE_UNICODE.match` after `\u` (`r` = the characters after the `u`): value and length of `-?\d+\??` -/
def uniMatch (T : Tables) (r : Str) : Option (Int × Nat) :=
  let neg := r.head? == some '-'
  let r1 := if neg then r.drop 1 else r
  let ds := r1.takeWhile (fun c => (decVal T c).isSome)
  if ds = [] then none else
  let v : Int := (decFold T ds : Nat)
  let r2 := r1.dropWhile (fun c => (decVal T c).isSome)
  let q := match r2 with | '?' :: _ => 1 | _ => 0
  some (if neg then -v else v, (if neg then 1 else 0) + ds.length + q)

def hexVal (T : Tables) (c : Char) : Option Nat :=
  match decVal T c with
  | some d => some d
  | none =>
    if 'a' ≤ c ∧ c ≤ 'f' then some (c.toNat - 87)
    else if 'A' ≤ c ∧ c ≤ 'F' then some (c.toNat - 55) else none

/-- `int(s, 16)` for a two-character `s` (whitespace around, one sign); `none` = ValueError -/
def hexInt (T : Tables) (s : Str) : Option Int :=
  let t := strip (isWsC T) s
  let (neg, body) := match t with
    | '-' :: b => (true, b)
    | '+' :: b => (false, b)
    | b => (false, b)
  match body with
  | [a] => (hexVal T a).map (fun x => if neg then -(x : Int) else (x : Int))
  | [a, b] => match hexVal T a, hexVal T b with
    | some x, some y => some (if neg then -((x * 16 + y : Nat) : Int) else ((x * 16 + y : Nat) : Int))
    | _, _ => none
  | _ => none

def isHigh (n : Nat) : Bool := 0xD800 ≤ n && n ≤ 0xDBFF
def isLow (n : Nat) : Bool := 0xDC00 ≤ n && n ≤ 0xDFFF

def isSurr (n : Nat) : Bool := isHigh n || isLow n

/-- `result.append(chr(v & 0xFFFF))` -/
def emitUni (v : Int) (out : List Ev) : List Ev := .ch (v % 65536).toNat :: out

/-- `str.encode("utf-16-le", "surrogatepass")`, as 16-bit units -/
def toUnits : List Nat → List Nat
  | [] => []
  | c :: r =>
    (if c < 0x10000 then [c] else [0xD800 + (c - 0x10000) / 1024, 0xDC00 + (c - 0x10000) % 1024]) ++ toUnits r

/-- `bytes.decode("utf-16-le", "replace")` on 16-bit units: a high unit followed by a low unit is one character,
    every other surrogate unit is replaced by U+FFFD (and the unit after it is looked at again) -/
def decode16 : List Nat → List Nat
  | [] => []
  | [a] => [if isSurr a then 0xFFFD else a]
  | a :: b :: r =>
    if isHigh a && isLow b then (0x10000 + (a - 0xD800) * 1024 + (b - 0xDC00)) :: decode16 r
    else (if isSurr a then 0xFFFD else a) :: decode16 (b :: r)

/-- `_combine_surrogates` -/
def combineSurrogates (cs : List Nat) : List Nat :=
  if cs.any isSurr then decode16 (toUnits cs) else cs

def pageWords : List Str := ["page".toList, "sbkpage".toList]

/-- `_strip_rtf_full_with_pages`: `eat` = characters still to be consumed by the construct recognised at an
    earlier position (structural recursion instead of index arithmetic); `out` = events so far, newest first -/
def go (T : Tables) : Str → Nat → St → List Ev → List Ev
  | [], _, _, out => out
  | _ :: r, eat + 1, st, out => go T r eat st out
  | c :: r, 0, st, out =>
    if c = '{' then
      let d := st.depth + 1
      let hit := match r with
        | '\\' :: _ => isSkipDest T (r.take 29)
        | _ => false
      go T r 0 (if hit then { depth := d, skip := true, skipDepth := d } else { st with depth := d }) out
    else if c = '}' then
      let sk := if st.skip && st.depth == st.skipDepth then false else st.skip
      go T r 0 { st with skip := sk, depth := st.depth - 1 } out
    else if st.skip then go T r 0 st out
    else if c = '\\' then
      match r with
      | [] => out
      | nc :: r' =>
        if nc = '\\' ∨ nc = '{' ∨ nc = '}' then go T r 1 st (.ch nc.toNat :: out)
        else if nc = 'u' then
          match uniMatch T r' with
          | some (v, k) => go T r (1 + k) st (emitUni v out)
          | none => go T r 1 st out
        else if nc = '\'' then
          if r'.length ≥ 2 then
            go T r 3 st (match hexInt T (r'.take 2) with
              | some v => if v < 0 then out else .ch v.toNat :: out
              | none => out)
          else go T r 1 st out
        else if isAlpha T nc then
          let wk := ctrlWord T r
          go T r wk.2 st
            (if pageWords.contains wk.1 then .page :: out
             else match lookup wk.1 T.special with
               | some s => (s.map (fun x => Ev.ch x.toNat)).reverse ++ out
               | none => out)
        else go T r 1 st (if nc = '~' then .ch 0xA0 :: out else if nc = '_' then .ch 0xAD :: out else out)
    else go T r 0 st (if c = '\r' then out else .ch c.toNat :: out)

def events (T : Tables) (text : Str) : List Ev := (go T text 0 {} []).reverse

/-- `"".join(result)` at the end of the loop: what the machine emitted, surrogate halves still apart -/
def rawResult (T : Tables) (text : Str) : List Nat :=
  (events T text).filterMap (fun e => match e with | .ch c => some c | .page => none)

/-- the return value of `_strip_rtf_full_with_pages` (code points) -/
def result (T : Tables) (text : Str) : List Nat := combineSurrogates (rawResult T text)

/-- the raw page pieces: the characters between page events (`current_page` before `flush_page` combines
    surrogates, strips and collapses whitespace) -/
def pagePieces : List Ev → List Nat → List (List Nat)
  | [], cur => [cur.reverse]
  | .ch c :: r, cur => pagePieces r (c :: cur)
  | .page :: r, cur => cur.reverse :: pagePieces r []

/-- `RtfContent.full_text` of `parse`: the stripped non-empty lines of the result, joined by "\n" -/
def fullTextOf (T : Tables) (res : List Nat) : List Nat :=
  join [10] (((splitOn 10 res).map (strip (isWsN T))).filter (· ≠ []))

def fullText (T : Tables) (text : Str) : List Nat := fullTextOf T (result T text)

/-! ## PPT `_clean_text` -/

structure PptTables where
  ws : List Nat
  trans : List (Nat × Str)      -- `_CLEAN_TRANS`: code point ↦ replacement
  prefixes : List Str           -- `_PLACEHOLDER_PREFIXES`
  deriving Repr

def PptTables.isWs (T : PptTables) (c : Char) : Bool := T.ws.contains c.toNat

def translate (T : PptTables) (s : Str) : Str :=
  s.flatMap (fun c => match T.trans.lookup c.toNat with | some r => r | none => [c])

def endsWith (suf s : Str) : Bool := suf.reverse.isPrefixOf s.reverse

def keepLine (T : PptTables) (line : Str) : Bool :=
  line ≠ [] && !(T.prefixes.any (fun pf => pf.isPrefixOf line)) && line ≠ ['*']
    && !(endsWith "Outline Level".toList line)

/-- `_clean_text` -/
def cleanText (T : PptTables) (text : Str) : Str :=
  joinNl (((splitOn '\n' (translate T text)).map (normWs T.isWs)).filter (keepLine T))

/-! ## XLS `_format_sheet_as_text` -/

def rjust (w : Nat) (s : Str) : Str := List.replicate (w - s.length) ' ' ++ s

def colWidth (rows : List (List Str)) (i : Nat) : Nat :=
  rows.foldl (fun m r => match r[i]? with | some v => max m v.length | none => m) 0

def fmtRow (rows : List (List Str)) (row : List Str) : Str :=
  join "  ".toList (row.zipIdx.map (fun vi => rjust (colWidth rows vi.2) vi.1))

/-- `_format_sheet_as_text(headers, rows)` -/
def formatSheet (headers : List Str) (rows : List (List Str)) : Str :=
  let all := if headers = [] then rows else headers :: rows
  joinNl (all.map (fmtRow all))

/-! ## plain text -/

/-- `PlainTextContent(content=text).get_full_text()`: `__post_init__` strips, the unit strips, the join strips -/
def plainFullText (p : Char → Bool) (decoded : Str) : Str := strip p (strip p (strip p decoded))

/-- `_join_unit_text` over unit texts (PDF pages, e-mail body, …) -/
def joinUnits (p : Char → Bool) (units : List Str) : Str := strip p (joinNl units)

end S2T.Rtf
