/-
C06 models.

1. A result's image/attachment payload as a binary stream with a position (`io.BytesIO`): the
   observers `get_bytes()` (seek(0); return the stream), a caller's `read(k)` on the returned
   stream, `seek(p)`, and `to_json()` (serialisation reads `getvalue()`, position-independent).
2. The caller's input stream under the methods the extractors call on it (inventory
   `S2T.Gen.Effects.inputMethods`): read / seek / tell / getvalue / getbuffer (never written through).
-/
namespace S2T.Observe

structure Stream where
  content : List Nat
  pos : Nat
  deriving DecidableEq, Repr

inductive Op where
  | getBytes            -- observer: seek(0), hand out the stream
  | read (k : Nat)      -- the caller reads k bytes from the handed-out stream
  | readAll
  | seek (p : Nat)
  | tell
  | getvalue            -- whole content, position untouched
  | toJson              -- serialisation: base64 of getvalue()
  deriving DecidableEq, Repr

inductive Ans where
  | bytes (b : List Nat)
  | pos (p : Nat)
  | json (b : List Nat)
  deriving DecidableEq, Repr

/-- `BytesIO.read(k)`: bytes from `pos`, at most k; position advances by what was read -/
def readK (s : Stream) (k : Nat) : List Nat × Stream :=
  let chunk := (s.content.drop s.pos).take k
  (chunk, { s with pos := s.pos + chunk.length })

def step (s : Stream) : Op → Ans × Stream
  | .getBytes => (.bytes s.content, { s with pos := 0 })   -- what a reader of the returned stream sees from position 0
  | .read k => let (c, s') := readK s k; (.bytes c, s')
  | .readAll => (.bytes (s.content.drop s.pos), { s with pos := max s.pos s.content.length })
  | .seek p => (.pos p, { s with pos := p })
  | .tell => (.pos s.pos, s)
  | .getvalue => (.bytes s.content, s)
  | .toJson => (.json s.content, s)

def run (s : Stream) : List Op → List Ans × Stream
  | [] => ([], s)
  | op :: ops =>
    let (a, s') := step s op
    let (as, s'') := run s' ops
    (a :: as, s'')

end S2T.Observe
