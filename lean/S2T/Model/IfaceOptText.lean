/-!
# C04 — text of an OPTIONAL XML element: absent, present-but-empty, present with text

The text accessors of images, units and metadata objects (`get_caption()`, `get_description()`, title / creator …)
are fed from optional elements and attributes of the file.  `xml.etree.ElementTree` presents the three states of an
optional child differently: `find()` returns `None` for an absent child; a child that is present but empty
(`<svg:desc/>`, written when an author clears the field) is an element whose `.text` is `None`; otherwise `.text`
is a non-empty `str`.  A reader that tests only the first `None` hands Python's `None` to a field declared `str`.

Python values that ought to be `str` are `PyStr = Option String` (`none` = Python's `None`).  The reader forms
below are the ones the generated inventory of `.text` reads distinguishes (`tools/gen/iface.py`, `textReads`).
Core Lean only.
-/
namespace S2T.Iface

/-- a Python value where a `str` is expected: `none` is Python's `None` -/
abbrev PyStr := Option String

/-- an optional child element as ElementTree presents it -/
inductive Child where
  | absent                 -- `parent.find(tag)` is `None`
  | empty                  -- `<tag/>` or `<tag></tag>`: an element whose `.text` is `None`
  | text (s : String)      -- `<tag>s</tag>`
deriving DecidableEq, Repr

/-- `e is not None` -/
def Child.present : Child → Bool
  | .absent => false
  | _ => true

/-- `e.text` of a present element -/
def Child.textVal : Child → PyStr
  | .text s => some s
  | _ => none

/-- Python truthiness of a `str | None` -/
def truthy : PyStr → Bool
  | none => false
  | some s => !s.isEmpty

/-- `a or b` -/
def pyOr (a b : PyStr) : PyStr := if truthy a then a else b

/-- the text the file stores for the child: `""` when there is none to speak of -/
def Child.stored : Child → String
  | .text s => s
  | _ => ""

/-- `e.text if e is not None and e.text else ""`  (also: `if e is not None and e.text: field = e.text`, default `""`) -/
def readGuarded (c : Child) : PyStr := if c.present && truthy c.textVal then c.textVal else some ""

/-- `(e.text or "")` for a present element, `""` for an absent one -/
def readOrEmpty (c : Child) : PyStr := if c.present then pyOr c.textVal (some "") else some ""

/-- the unguarded form: `e.text if e is not None else ""` -/
def readRaw (c : Child) : PyStr := if c.present then c.textVal else some ""

/-- an optional attribute: `e.get(name, "")` / `e.get(name)` -/
def attrGetDefault (a : Option String) : PyStr := some (a.getD "")
def attrGet (a : Option String) : PyStr := a

/-- ODG / ODT: `caption = <title>; if not caption and name: caption = name` -/
def captionWithFallback (title name : PyStr) : PyStr := if !truthy title && truthy name then name else title

/-- ODP / ODS: `f"{title}\n{desc}" if title and desc else (title or desc)` -/
def combineTitleDesc (title desc : PyStr) : PyStr :=
  if truthy title && truthy desc then some ((title.getD "") ++ "\n" ++ (desc.getD "")) else pyOr title desc

/-- an accessor `return self.f.strip()` / `return self.f`: raises `AttributeError` on `None` resp. returns `None` —
either way no `str` comes out; with a `str` it returns a `str` -/
def accessorReturnsStr (field : PyStr) : Bool := field.isSome

/-- inventory type: how a `.text` read of the package is protected against `None` -/
inductive ReadKind where
  | guarded        -- the value is used only where `X.text` was tested truthy (`if … and X.text`, `… if X.text else …`, comprehension filter)
  | orDefault      -- `X.text or <fallback>`
  | testOnly       -- only its truth value is used
  | nameGuarded    -- `t = X.text`, and every use of `t` is a truth test or under one
  | notElement     -- the receiver is not an XML element (a dataclass field named `text`)
  | unguarded      -- the value of `.text` of an XML element flows on as it is (may be `None`)
deriving DecidableEq, Repr

structure TextRead where
  file : String
  fn : String
  recv : String
  line : Nat
  kind : ReadKind
deriving DecidableEq, Repr

/-- unguarded `.text` reads that were reviewed: the value reaches no accessor of the common interface.
`_extract_annotations` (ODT): creator / date of a comment go to `OpenDocumentAnnotation.creator/.date`, which no
unit, image, table or metadata accessor returns (an empty `<dc:creator/>` gives `None` there — visible in C05's
serialisation only). -/
def reviewedUnguardedReads : List (String × String × String) := [
  ("odt_extractor.py", "_extract_annotations", "creator_elem"),
  ("odt_extractor.py", "_extract_annotations", "date_elem")]

end S2T.Iface
