/-
Model of the patch / extract / restore critical section of PDF text extraction:
`sharepoint2text/parsing/extractors/pdf/pdf_extractor.py:_patched_build_char_map`
(a `contextlib.contextmanager` around `page.extract_text`) and of the module cell it writes
(`pypdf._page.build_char_map` on pypdf < 6.6).

Shared state
  `F`      the function object currently installed in the pypdf module, abstracted to its
           *wrapper nesting depth over the original* (0 = pypdf's own function,
           n+1 = `make_wrapper` applied to a function of depth n),
  `users`  `_CHAR_MAP_PATCH_USERS`  (Python `int`, hence `Int`: no truncated subtraction),
  `saved`  `_CHAR_MAP_PATCH_ORIGINALS` (a stack of saved originals, as depths),
  `lock`   `_CHAR_MAP_PATCH_LOCK` (`some t` = held by thread `t`).
Per thread: a program counter and the local variable `original`.
A scheduler is an arbitrary `List Nat` of thread ids; a step of a thread that is finished,
does not exist, or is blocked on the lock leaves the state unchanged (= "not scheduled").
The number of threads is the length of `thr` — unbounded.

`Fixed`  = the code with the lock + user count (fix-charmap-patch-lock.patch).
`Legacy` = the code as it was (save / setattr wrapper / yield / restore, no lock); kept for the
           counterexample theorem that shows why the change is needed.
-/
namespace S2T.Patch

/-- program counters of one `with _patched_build_char_map(): <body>` (fixed code), in source order -/
inductive Pc
  | probe    -- `_get_pypdf_char_map_patcher()`: `hasattr(pypdf_page, "build_char_map")` (reads F, discards it)
  | acqIn    -- `with _CHAR_MAP_PATCH_LOCK:` (enter)
  | testIn   -- `if _CHAR_MAP_PATCH_USERS == 0:`
  | save     -- `original = getattr(module, func_name)`; `_CHAR_MAP_PATCH_ORIGINALS.append(...)`
  | wrap     -- `setattr(module, func_name, make_wrapper(original))`
  | incr     -- `_CHAR_MAP_PATCH_USERS += 1`
  | relIn    -- leaving the `with` block: release
  | body     -- `yield`: the caller's `page.extract_text(...)` runs (it may raise: `finally` follows either way)
  | acqOut   -- `finally: with _CHAR_MAP_PATCH_LOCK:` (enter)
  | decr     -- `_CHAR_MAP_PATCH_USERS -= 1`
  | testOut  -- `if _CHAR_MAP_PATCH_USERS == 0:`
  | restore  -- `while _CHAR_MAP_PATCH_ORIGINALS: ... pop(); setattr(module, func_name, original)`
  | relOut   -- release
  | done
  deriving DecidableEq, Repr, Inhabited

structure Thr where
  pc  : Pc
  loc : Nat          -- the local variable `original` (a depth)
  deriving DecidableEq, Repr, Inhabited

structure St where
  F     : Nat
  users : Int
  saved : List Nat
  lock  : Option Nat
  thr   : List Thr
  obs   : List (Nat × Nat)     -- (thread, depth of F it saw while inside the section), in time order
  deriving DecidableEq, Repr

def init (k : Nat) : St :=
  { F := 0, users := 0, saved := [], lock := none, thr := List.replicate k ⟨.probe, 0⟩, obs := [] }

/-- `while saved: o = saved.pop(); F := o` — pops from the end, so the last write is the first element. -/
def restoreAll (F : Nat) : List Nat → Nat
  | [] => F
  | o :: _ => o

namespace Fixed

/-- one step of thread `t` (no-op when `t` does not exist, is finished, or is blocked). -/
def step (s : St) (t : Nat) : St :=
  match s.thr[t]? with
  | none => s
  | some x =>
    let go (pc : Pc) (s' : St) : St := { s' with thr := s'.thr.set t { x with pc := pc } }
    match x.pc with
    | .probe   => go .acqIn s
    | .acqIn   => if s.lock.isNone then go .testIn { s with lock := some t } else s
    | .testIn  => if s.users = 0 then go .save s else go .incr s
    | .save    => { s with saved := s.saved ++ [s.F], thr := s.thr.set t { pc := .wrap, loc := s.F } }
    | .wrap    => go .incr { s with F := x.loc + 1 }
    | .incr    => go .relIn { s with users := s.users + 1 }
    | .relIn   => go .body { s with lock := none }
    | .body    => go .acqOut { s with obs := s.obs ++ [(t, s.F)] }
    | .acqOut  => if s.lock.isNone then go .decr { s with lock := some t } else s
    | .decr    => go .testOut { s with users := s.users - 1 }
    | .testOut => if s.users = 0 then go .restore s else go .relOut s
    | .restore => go .relOut { s with F := restoreAll s.F s.saved, saved := [] }
    | .relOut  => go .done { s with lock := none }
    | .done    => s

def run (s : St) (sched : List Nat) : St := sched.foldl step s

end Fixed

namespace Legacy
/-
The code before the fix:
    original = getattr(module, func_name)            -- `save`
    setattr(module, func_name, make_wrapper(original))   -- `wrap`
    try: yield                                        -- `body`
    finally: setattr(module, func_name, original)     -- `restore`
-/
def step (s : St) (t : Nat) : St :=
  match s.thr[t]? with
  | none => s
  | some x =>
    let go (pc : Pc) (s' : St) : St := { s' with thr := s'.thr.set t { x with pc := pc } }
    match x.pc with
    | .probe   => go .save s
    | .save    => { s with thr := s.thr.set t { pc := .wrap, loc := s.F } }
    | .wrap    => go .body { s with F := x.loc + 1 }
    | .body    => go .restore { s with obs := s.obs ++ [(t, s.F)] }
    | .restore => go .done { s with F := x.loc }
    | _        => s

def run (s : St) (sched : List Nat) : St := sched.foldl step s

end Legacy

def allDone (s : St) : Bool := s.thr.all (fun x => x.pc == .done)

/-- number of threads whose program counter is `p` -/
def cnt (thr : List Thr) (p : Pc) : Nat := thr.countP (fun x => x.pc == p)

/-! ### coarse steps used by the correspondence with the real context managers

The harness can pause a real thread only at *observable* events: a read or write of the module
attribute, an acquire / release of the lock, and the body.  A coarse turn of thread `t` executes
the pending observable event and then the silent steps (`testIn`, `incr`, `decr`, `testOut`,
which only touch `_CHAR_MAP_PATCH_USERS`) up to the next observable one. -/
def silent : Pc → Bool
  | .testIn | .incr | .decr | .testOut => true
  | _ => false

def pcOf (s : St) (t : Nat) : Pc := match s.thr[t]? with | some x => x.pc | none => .done

/-- run silent steps of `t` (at most `fuel`; two suffice for this program) -/
def settle (s : St) (t : Nat) : Nat → St
  | 0 => s
  | n + 1 => if silent (pcOf s t) then settle (Fixed.step s t) t n else s

def turn (s : St) (t : Nat) : St := settle (Fixed.step s t) t 4

end S2T.Patch
