/-
Model of sharepoint2text/parsing/extractors/pdf/_pypdf_aes_fallback.py, function by function.

* `bytes` / `list[int]`  →  `List Nat` (theorems carry `IsBytes`, every element < 256);
* the module-level tables (`_SBOX`, `_INV_SBOX`, `_MUL2` … `_MUL14`, `_RCON`) are the parameter `Tables`;
  the instance generated from the current source is `S2T.Gen.Aes.tables`;
* `raise ValueError(..)` → `.error .valueError`;
* `tbl[i]` is `List.getD tbl i 0`: the Python raises IndexError for an index outside the table.
  Theorems `*_isBytes` / `TablesOk` (length 256, entries < 256) show that on byte inputs no index ever leaves
  the tables, so the default is never taken;
* in-place mutation of `state` → the new state is returned;
* the IV of `CryptAES.encrypt` (`secrets.token_bytes(16)`) is a parameter;
* `_ROUND_KEY_CACHE` (OrderedDict) → association list passed as state (`getRoundKeys`); the ECB/CBC drivers
  below call `expandKey` directly, `getRoundKeys_spec` (Props/C20) justifies this.
Core Lean only (linked into the driver).
-/
namespace S2T.Aes

inductive Exc where
  | valueError
  deriving DecidableEq, Repr

structure Tables where
  sbox : List Nat
  invSbox : List Nat
  mul2 : List Nat
  mul3 : List Nat
  mul9 : List Nat
  mul11 : List Nat
  mul13 : List Nat
  mul14 : List Nat
  rcon : List Nat

/-- every element is a byte -/
def IsBytes (l : List Nat) : Prop := ∀ b ∈ l, b < 256

instance (l : List Nat) : Decidable (IsBytes l) := by unfold IsBytes; infer_instance

/-! ### PKCS#7 helpers and `_chunks` -/

/-- `_pkcs7_pad` -/
def pkcs7Pad (data : List Nat) (blockSize : Nat) : List Nat :=
  let padding := blockSize - data.length % blockSize
  data ++ List.replicate padding padding

/-- `_pkcs7_unpad` -/
def pkcs7Unpad (data : List Nat) (blockSize : Nat) : Except Exc (List Nat) :=
  match data.getLast? with
  | none => .ok data                                   -- `if not data: return data`
  | some padding =>
    if padding < 1 ∨ padding > blockSize then .error .valueError
    -- data[-padding:]  (the whole of data when padding > len(data))
    else if data.drop (data.length - padding) ≠ List.replicate padding padding then .error .valueError
    else .ok (data.take (data.length - padding))       -- data[:-padding]

/-- `_chunks`: `data[i : i+size] for i in range(0, len(data), size)` -/
def chunks (data : List Nat) (size : Nat) : List (List Nat) :=
  (List.range ((data.length + size - 1) / size)).map fun j => (data.drop (j * size)).take size

/-! ### GF(2⁸) helpers (used at import time to build `_MUL*` and `_RCON`) -/

/-- `_xtime` -/
def xtime (a : Nat) : Nat :=
  let a := a &&& 0xFF
  if a &&& 0x80 ≠ 0 then ((a <<< 1) ^^^ 0x1B) &&& 0xFF else (a <<< 1) &&& 0xFF

/-- body of `while b:` in `_gf_mul`, at most 8 iterations because `b &= 0xFF` -/
def gfMulLoop : Nat → Nat → Nat → Nat → Nat
  | 0, result, _, _ => result
  | fuel + 1, result, a, b =>
    if b = 0 then result
    else gfMulLoop fuel (if b &&& 1 ≠ 0 then result ^^^ a else result) (xtime a) (b >>> 1)

/-- `_gf_mul` -/
def gfMul (a b : Nat) : Nat := (gfMulLoop 8 0 (a &&& 0xFF) (b &&& 0xFF)) &&& 0xFF

/-- `_build_mul_table` -/
def buildMulTable (m : Nat) : List Nat := (List.range 256).map fun v => gfMul v m

/-- `_build_rcon` -/
def buildRcon (maxRounds : Nat) : List Nat :=
  (List.range' 2 (maxRounds - 1)).foldl (fun rc i => rc.set i (xtime (rc.getD (i - 1) 0)))
    ((List.replicate (maxRounds + 1) 0).set 1 1)

/-! ### round functions on the 16-byte state -/

/-- `_add_round_key` -/
def addRoundKey (s rk : List Nat) : List Nat :=
  (List.range 16).foldl (fun st i => st.set i (st.getD i 0 ^^^ rk.getD i 0)) s

/-- `_sub_bytes` -/
def subBytes (T : Tables) (s : List Nat) : List Nat :=
  (List.range 16).foldl (fun st i => st.set i (T.sbox.getD (st.getD i 0) 0)) s

/-- `_inv_sub_bytes` -/
def invSubBytes (T : Tables) (s : List Nat) : List Nat :=
  (List.range 16).foldl (fun st i => st.set i (T.invSbox.getD (st.getD i 0) 0)) s

/-- one `for row` iteration of `_shift_rows` (`inv = false`) / `_inv_shift_rows` (`inv = true`) -/
def rotateRow (inv : Bool) (s : List Nat) (row : Nat) : List Nat :=
  let rowBytes := (List.range 4).map fun col => s.getD (row + 4 * col) 0
  let rotated :=
    if inv then rowBytes.drop (4 - row) ++ rowBytes.take (4 - row)     -- row_bytes[-row:] + row_bytes[:-row]
    else rowBytes.drop row ++ rowBytes.take row                          -- row_bytes[row:] + row_bytes[:row]
  (List.range 4).foldl (fun st col => st.set (row + 4 * col) (rotated.getD col 0)) s

/-- `_shift_rows` -/
def shiftRows (s : List Nat) : List Nat := [1, 2, 3].foldl (rotateRow false) s
/-- `_inv_shift_rows` -/
def invShiftRows (s : List Nat) : List Nat := [1, 2, 3].foldl (rotateRow true) s

/-- `_mix_columns` -/
def mixColumns (T : Tables) (s : List Nat) : List Nat :=
  (List.range 4).foldl (fun st col =>
    let i := 4 * col
    let a0 := st.getD i 0; let a1 := st.getD (i + 1) 0; let a2 := st.getD (i + 2) 0; let a3 := st.getD (i + 3) 0
    (((st.set i (T.mul2.getD a0 0 ^^^ T.mul3.getD a1 0 ^^^ a2 ^^^ a3)).set (i + 1)
      (a0 ^^^ T.mul2.getD a1 0 ^^^ T.mul3.getD a2 0 ^^^ a3)).set (i + 2)
      (a0 ^^^ a1 ^^^ T.mul2.getD a2 0 ^^^ T.mul3.getD a3 0)).set (i + 3)
      (T.mul3.getD a0 0 ^^^ a1 ^^^ a2 ^^^ T.mul2.getD a3 0)) s

/-- `_inv_mix_columns` -/
def invMixColumns (T : Tables) (s : List Nat) : List Nat :=
  (List.range 4).foldl (fun st col =>
    let i := 4 * col
    let a0 := st.getD i 0; let a1 := st.getD (i + 1) 0; let a2 := st.getD (i + 2) 0; let a3 := st.getD (i + 3) 0
    (((st.set i (T.mul14.getD a0 0 ^^^ T.mul11.getD a1 0 ^^^ T.mul13.getD a2 0 ^^^ T.mul9.getD a3 0)).set (i + 1)
      (T.mul9.getD a0 0 ^^^ T.mul14.getD a1 0 ^^^ T.mul11.getD a2 0 ^^^ T.mul13.getD a3 0)).set (i + 2)
      (T.mul13.getD a0 0 ^^^ T.mul9.getD a1 0 ^^^ T.mul14.getD a2 0 ^^^ T.mul11.getD a3 0)).set (i + 3)
      (T.mul11.getD a0 0 ^^^ T.mul13.getD a1 0 ^^^ T.mul9.getD a2 0 ^^^ T.mul14.getD a3 0)) s

/-! ### key expansion -/

/-- `_rot_word` -/
def rotWord (w : List Nat) : List Nat := w.drop 1 ++ w.take 1
/-- `_sub_word` -/
def subWord (T : Tables) (w : List Nat) : List Nat := w.map fun b => T.sbox.getD b 0

/-- `temp[0] ^= c` -/
def xorHead (t : List Nat) (c : Nat) : List Nat :=
  match t with
  | [] => []
  | x :: r => (x ^^^ c) :: r

/-- body of `for i in range(nk, 4 * (nr + 1))` in `_expand_key` -/
def expandStep (T : Tables) (rcon : List Nat) (nk : Nat) (w : List (List Nat)) (i : Nat) : List (List Nat) :=
  let temp := w.getD (i - 1) []
  let temp :=
    if i % nk = 0 then xorHead (subWord T (rotWord temp)) (rcon.getD (i / nk) 0)
    else if nk > 6 ∧ i % nk = 4 then subWord T temp
    else temp
  w ++ [List.zipWith (· ^^^ ·) (w.getD (i - nk) []) temp]

/-- `_expand_key` -/
def expandKey (T : Tables) (key : List Nat) : Except Exc (List (List Nat)) :=
  if key.length ≠ 16 ∧ key.length ≠ 24 ∧ key.length ≠ 32 then .error .valueError
  else
    let nk := key.length / 4
    let nr := nk + 6
    let w0 := (List.range nk).map fun i => (key.drop (4 * i)).take 4
    let rcon := if nr < T.rcon.length then T.rcon else buildRcon nr
    let w := (List.range' nk (4 * (nr + 1) - nk)).foldl (expandStep T rcon nk) w0
    .ok ((List.range (nr + 1)).map fun r => ((w.drop (4 * r)).take 4).flatten)

/-- `_ROUND_KEY_CACHE`: most recently used last -/
abbrev Cache := List (List Nat × List (List Nat))

/-- `_get_round_keys` with `_ROUND_KEY_CACHE_MAX = maxSize` -/
def getRoundKeys (T : Tables) (maxSize : Nat) (cache : Cache) (key : List Nat) :
    Except Exc (List (List Nat)) × Cache :=
  match cache.lookup key with
  | some rks => (.ok rks, cache.filter (fun e => e.1 ≠ key) ++ [(key, rks)])      -- move_to_end
  | none =>
    match expandKey T key with
    | .error e => (.error e, cache)
    | .ok rks =>
      let c := cache ++ [(key, rks)]
      (.ok rks, if c.length > maxSize then c.drop 1 else c)                         -- popitem(last=False)

/-! ### block functions -/

/-- `_aes_encrypt_block` -/
def encryptBlock (T : Tables) (block : List Nat) (rks : List (List Nat)) : Except Exc (List Nat) :=
  if block.length ≠ 16 then .error .valueError
  else
    let nr := rks.length - 1
    let s := addRoundKey block (rks.getD 0 [])
    let s := (List.range' 1 (nr - 1)).foldl
      (fun s r => addRoundKey (mixColumns T (shiftRows (subBytes T s))) (rks.getD r [])) s
    .ok (addRoundKey (shiftRows (subBytes T s)) (rks.getD nr []))

/-- `_aes_decrypt_block` -/
def decryptBlock (T : Tables) (block : List Nat) (rks : List (List Nat)) : Except Exc (List Nat) :=
  if block.length ≠ 16 then .error .valueError
  else
    let nr := rks.length - 1
    let s := addRoundKey block (rks.getD nr [])
    let s := (List.range' 1 (nr - 1)).reverse.foldl          -- range(nr - 1, 0, -1)
      (fun s r => invMixColumns T (addRoundKey (invSubBytes T (invShiftRows s)) (rks.getD r []))) s
    .ok (addRoundKey (invSubBytes T (invShiftRows s)) (rks.getD 0 []))

/-! ### ECB / CBC drivers -/

/-- `for block in _chunks(..): out[offset:offset+16] = f(block)` — every `f(block)` is 16 bytes long, so the
    slice assignments into the zeroed `bytearray(len(data))` amount to concatenation -/
def ecbLoop (f : List Nat → Except Exc (List Nat)) : List (List Nat) → Except Exc (List Nat)
  | [] => .ok []
  | b :: rest =>
    match f b with
    | .error e => .error e
    | .ok x =>
      match ecbLoop f rest with
      | .error e => .error e
      | .ok t => .ok (x ++ t)

/-- `aes_ecb_encrypt` -/
def aesEcbEncrypt (T : Tables) (key data : List Nat) : Except Exc (List Nat) :=
  if data.length % 16 ≠ 0 then .error .valueError
  else
    match expandKey T key with
    | .error e => .error e
    | .ok rks => ecbLoop (fun b => encryptBlock T b rks) (chunks data 16)

/-- `aes_ecb_decrypt` -/
def aesEcbDecrypt (T : Tables) (key data : List Nat) : Except Exc (List Nat) :=
  if data.length % 16 ≠ 0 then .error .valueError
  else
    match expandKey T key with
    | .error e => .error e
    | .ok rks => ecbLoop (fun b => decryptBlock T b rks) (chunks data 16)

/-- loop of `aes_cbc_encrypt` -/
def cbcEncLoop (T : Tables) (rks : List (List Nat)) : List Nat → List (List Nat) → Except Exc (List Nat)
  | _, [] => .ok []
  | prev, b :: rest =>
    match encryptBlock T (List.zipWith (· ^^^ ·) b prev) rks with
    | .error e => .error e
    | .ok enc =>
      match cbcEncLoop T rks enc rest with
      | .error e => .error e
      | .ok t => .ok (enc ++ t)

/-- loop of `aes_cbc_decrypt` -/
def cbcDecLoop (T : Tables) (rks : List (List Nat)) : List Nat → List (List Nat) → Except Exc (List Nat)
  | _, [] => .ok []
  | prev, b :: rest =>
    match decryptBlock T b rks with
    | .error e => .error e
    | .ok dec =>
      match cbcDecLoop T rks b rest with
      | .error e => .error e
      | .ok t => .ok ((List.range 16).map (fun idx => dec.getD idx 0 ^^^ prev.getD idx 0) ++ t)

/-- `aes_cbc_encrypt` -/
def aesCbcEncrypt (T : Tables) (key iv data : List Nat) : Except Exc (List Nat) :=
  if iv.length ≠ 16 then .error .valueError
  else if data.length % 16 ≠ 0 then .error .valueError
  else
    match expandKey T key with
    | .error e => .error e
    | .ok rks => cbcEncLoop T rks iv (chunks data 16)

/-- `aes_cbc_decrypt` -/
def aesCbcDecrypt (T : Tables) (key iv data : List Nat) : Except Exc (List Nat) :=
  if iv.length ≠ 16 then .error .valueError
  else if data.length % 16 ≠ 0 then .error .valueError
  else
    match expandKey T key with
    | .error e => .error e
    | .ok rks => cbcDecLoop T rks iv (chunks data 16)

/-! ### `CryptAES` as patched into pypdf -/

/-- `_cryptaes_encrypt`; `iv` is the value of `secrets.token_bytes(16)` -/
def cryptAesEncrypt (T : Tables) (key iv data : List Nat) : Except Exc (List Nat) :=
  match aesCbcEncrypt T key iv (pkcs7Pad data 16) with
  | .error e => .error e
  | .ok c => .ok (iv ++ c)

/-- `_cryptaes_decrypt` -/
def cryptAesDecrypt (T : Tables) (key data : List Nat) : Except Exc (List Nat) :=
  let iv := data.take 16
  let payload := data.drop 16
  if payload = [] then .ok payload
  else
    let payload := if payload.length % 16 ≠ 0 then pkcs7Pad payload 16 else payload
    match aesCbcDecrypt T key iv payload with
    | .error e => .error e
    | .ok plain => pkcs7Unpad plain 16

end S2T.Aes
