import S2T.Model.OoxmlText
/-
C02 (part "ooxml"): model of the PPTX slide text assembly
(pptx_extractor.py `_extract_text_from_paragraphs`, `_get_shape_position`, `_process_slide_from_context`;
data_types.py `PptxSlide.get_text`, `PptxContent.iterate_units/get_full_text`) and of the XLSX sheet text
(xlsx_extractor.py `_read_sheet_data`, `_format_sheet_as_text`; `XlsxContent.iterate_units/get_full_text`).

A slide is given as the list of its `p:sp` elements followed by its `p:graphicFrame` elements (the order in
which `_process_slide_from_context` collects them; `p:pic` contributes only images and optional captions,
which are not part of the default text), each reduced to what the code reads of it:
the explicit `a:off` (if any), the `p:ph` type/idx (if any), the `p:txBody` element / the table cells' `a:txBody`.
-/
namespace S2T.C02.Ooxml.Pptx
open S2T.C02.Ooxml

mutual
/-- `elem.iter(A_P)`: the element itself if it is an `a:p`, then all descendants, document order -/
def iterPNode : Xml → List Xml
  | .node tag a x kids => (if tag = .aP then [.node tag a x kids] else []) ++ iterP kids
def iterP : List Xml → List Xml
  | [] => []
  | e :: r => iterPNode e ++ iterP r
end

/-- `child.find(A_T)`: text of the first `a:t` child (`None`/"" ↦ nothing) -/
def firstT : List Xml → Str
  | [] => []
  | .node tag _ x _ :: r => if tag = .aT then x else firstT r

/-- the loop over the children of one `a:p` -/
def paraParts : List Xml → List Str
  | [] => []
  | .node tag _ x kids :: r =>
    (match tag with
     | .aR => [firstT kids]
     | .aFld => [firstT kids]
     | .aBr => [['\x0b']]
     | .aT => [x]
     | _ => []) ++ paraParts r

/-- `_extract_text_from_paragraphs(elem)` -/
def parasText (elem : Xml) : Str :=
  join ['\n'] ((iterP [elem]).map (fun p => concat (paraParts p.kids)))

structure Consts where
  titleTypes : List Str
  bodyTypes : List Str
  footerTypes : List Str
  skipTypes : List Str

inductive Content
  | text (body : Option Xml)                          -- p:sp with its p:txBody (if any)
  | frame (table : Option (List (List (Option Xml))))   -- p:graphicFrame: rows of cells' a:txBody, if it holds a table

structure Shape where
  pos : Option (Int × Int)          -- (y, x) of the explicit a:off
  ph : Option (Str × Str)           -- p:ph (type, idx) attribute values ("" when absent)
  content : Content

def isDigits (s : Str) : Bool := !s.isEmpty && s.all Char.isDigit
def natOf (s : Str) : Nat := s.foldl (fun n c => 10 * n + (c.toNat - '0'.toNat)) 0

/-- `_get_shape_position` -/
def position (C : Consts) (s : Shape) : Int × Int :=
  match s.pos with
  | some p => p
  | none =>
    match s.content, s.ph with
    | .text _, some (ty, idx) =>
      if C.titleTypes.contains ty then (0, 0)
      else if C.bodyTypes.contains ty || (ty.isEmpty && !idx.isEmpty) then
        (1 + (if isDigits idx then (natOf idx : Int) else 0), 0)
      else if C.footerTypes.contains ty || ty = "sldNum".toList then (999999998, 0)
      else (999999999, 999999999)
    | _, _ => (999999999, 999999999)

def posLe (a b : Int × Int) : Bool := a.1 < b.1 || (a.1 = b.1 && a.2 ≤ b.2)

/-- the text a shape contributes to `base_text` (title / content / other / table), if any -/
def shapeText (C : Consts) (ws : Char → Bool) (s : Shape) : Option Str :=
  match s.content with
  | .text none => none
  | .text (some body) =>
    let t := strip ws (parasText body)
    if t.isEmpty then none
    else match s.ph with
      | some (ty, _) =>
        if C.titleTypes.contains ty then some t
        else if C.footerTypes.contains ty then none
        else if C.skipTypes.contains ty then none
        else some t
      | none => some t
  | .frame none => none
  | .frame (some rows) =>
    if rows.isEmpty then none
    else
      let data := rows.map (fun row => row.map (fun c => match c with
        | some b => strip ws (parasText b)
        | none => []))
      let t := strip ws (join ['\n'] (data.map (join ['\t'])))
      if t.isEmpty then none else some t

/-- shapes in the order `_process_slide_from_context` emits their text: stable sort by position -/
def ordered (C : Consts) (shapes : List Shape) : List Shape :=
  shapes.mergeSort (fun a b => posLe (position C a) (position C b))

/-- `PptxSlide.base_text` -/
def baseText (C : Consts) (ws : Char → Bool) (shapes : List Shape) : Str :=
  join ['\n'] ((ordered C shapes).filterMap (shapeText C ws))

/-- `PptxContent.get_full_text()` (no formulas on the slides) -/
def fullText (C : Consts) (ws : Char → Bool) (slides : List (List Shape)) : Str :=
  strip ws (join ['\n'] (slides.map (fun s => strip ws (baseText C ws s))))

end S2T.C02.Ooxml.Pptx

namespace S2T.C02.Ooxml.Xlsx
open S2T.C02.Ooxml

/-- a cell as `ws.iter_rows(values_only=True)` returns it, restricted to `None` and `str` -/
abbrev Cell := Option Str

variable (ws : Char → Bool)

/-- `_is_cell_non_empty` -/
def cellNonEmpty : Cell → Bool
  | none => false
  | some s => nonblank ws s

/-- `_find_last_data_row`: 1-based index of the last row with data -/
def lastDataRow (rows : List (List Cell)) : Nat :=
  (rows.reverse.dropWhile (fun r => !r.any (cellNonEmpty ws))).length

/-- 1-based index of the last non-empty cell of a row, 0 if none -/
def lastDataCol (row : List Cell) : Nat := (row.reverse.dropWhile (fun c => !cellNonEmpty ws c)).length

/-- `_find_last_data_column` -/
def lastDataColumn (rows : List (List Cell)) : Nat := rows.foldl (fun m r => max m (lastDataCol ws r)) 0

def natStr (n : Nat) : Str := (toString n).toList

/-- headers of `_read_sheet_data` -/
def headers (row : List Cell) : List Cell :=
  (List.range row.length).zipWith (fun i c => match c with
    | none => some ("Unnamed: ".toList ++ natStr i)
    | some s => if nonblank ws s then some s else some ("Unnamed: ".toList ++ natStr i)) row

/-- `all_rows` of `_read_sheet_data` -/
def allRows (rows : List (List Cell)) : List (List Cell) :=
  let rows := rows.take (lastDataRow ws rows)
  match rows with
  | [] => []
  | first :: rest =>
    let n := lastDataColumn ws (first :: rest)
    headers ws (first.take n) :: rest.map (fun r => r.take n)

/-- `_format_value_for_display` -/
def display : Cell → Str
  | none => []
  | some s => s

/-- `_format_sheet_as_text(all_rows)` -/
def formatSheet (rows : List (List Cell)) : Str :=
  if rows.isEmpty then []
  else
    let n := rows.foldl (fun m r => max m r.length) 0
    let fr := rows.map (fun row => (List.range n).map (fun i => display (row.getD i none)))
    let width := fun i => fr.foldl (fun m r => max m (r.getD i []).length) 0
    join ['\n'] (fr.map (fun row => join [' '] ((List.range n).zipWith (fun i v => rjust (width i) v) row)))

/-- unit text of one sheet: `sheet.name + "\n" + sheet.text.strip()` -/
def sheetUnit (name : Str) (rows : List (List Cell)) : Str :=
  name ++ '\n' :: strip ws (formatSheet (allRows ws rows))

/-- `XlsxContent.get_full_text()` -/
def fullText (sheets : List (Str × List (List Cell))) : Str :=
  strip ws (join ['\n'] (sheets.map (fun s => sheetUnit ws s.1 s.2)))

end S2T.C02.Ooxml.Xlsx
