import S2T.Model.Limits
/-!
Histories of `read_file` on ONE path (C12: "read_file refuses a file larger than max_file_size" is a statement about
the file that is READ, whenever the library chooses to look at it).

A history is a list of events: `call limit` (somebody calls `read_file(path, max_file_size=limit)` and keeps the result),
`resize n` (the file at the path now has `n` bytes — it grew, shrank or was replaced), `consume i` (the result of the
i-th call is iterated).  An implementation is described by the ACTIVATION in which it compares the size with the limit
and the activation in which it reads the file: while `read_file(...)` is being called, or when its result is consumed.
Core Lean only.
-/
namespace S2T.ReadHistory
open S2T.Limits

inductive Act | atCall | atConsume
deriving Repr, DecidableEq

def Act.ofString : String → Option Act
  | "call" => some .atCall | "consume" => some .atConsume | _ => none

/-- the activation all sites of one role share: `none` if there is no such site, the sites disagree, or one is unknown -/
def actOfRole (sites : List (String × String × String)) (role : String) : Option Act :=
  match (sites.filter (·.1 == role)).map (fun s => Act.ofString s.2.2) with
  | [] => none
  | a :: rest => if rest.all (· == a) then a else none

structure Cfg where
  guardAt : Act
  readAt : Act
deriving Repr, DecidableEq

def Cfg.ofSites (sites : List (String × String × String)) : Option Cfg := do
  let g ← actOfRole sites "guard"
  let r ← actOfRole sites "read"
  return ⟨g, r⟩

inductive Ev
  | call (limit : Int)
  | resize (n : Nat)
  | consume (i : Nat)
deriving Repr, DecidableEq

/-- a result somebody holds: still to be consumed (`content`: bytes already read at call time), or finished -/
inductive Pending
  | armed (limit : Int) (content : Option Nat)
  | dead
deriving Repr, DecidableEq

/-- what the outside world sees at one event -/
inductive Obs
  | none                              -- nothing observable (resize; a call that only hands out a lazy result)
  | rejected                          -- ExtractionFileTooLargeError
  | read (limit : Int) (bytes : Nat)  -- the file is read into memory: `bytes` bytes under the limit `limit`
  | delivered (bytes : Nat)           -- content read earlier is handed out
  | stale                             -- consume of a result that does not exist / is exhausted
deriving Repr, DecidableEq

structure St where
  size : Nat
  pending : List Pending
deriving Repr

def setAt (l : List Pending) (i : Nat) (p : Pending) : List Pending :=
  l.zipIdx.map (fun (x, k) => if k == i then p else x)

def step (o : Ops) (c : Cfg) (s : St) : Ev → St × Obs
  | .resize n => ({ s with size := n }, .none)
  | .call limit =>
      if c.guardAt == .atCall && readFileRejects o limit s.size then
        ({ s with pending := s.pending ++ [.dead] }, .rejected)
      else if c.readAt == .atCall then
        ({ s with pending := s.pending ++ [.armed limit (some s.size)] }, .read limit s.size)
      else
        ({ s with pending := s.pending ++ [.armed limit none] }, .none)
  | .consume i =>
      match s.pending[i]? with
      | some (.armed limit content) =>
          let s' := { s with pending := setAt s.pending i .dead }
          if c.guardAt == .atConsume && readFileRejects o limit s.size then (s', .rejected)
          else match content with
            | some n => (s', .delivered n)
            | none => if c.readAt == .atConsume then (s', .read limit s.size) else (s', .stale)
      | _ => (s, .stale)

def run (o : Ops) (c : Cfg) : St → List Ev → List Obs
  | _, [] => []
  | s, e :: es => let r := step o c s e; r.2 :: run o c r.1 es

/-- what a caller who does not look at WHEN things happen sees: refusals, reads, deliveries -/
def visible (l : List Obs) : List Obs := l.filter (fun o => o != .none && o != .stale)

/-- the (limit, bytes) of every read of the file into memory -/
def reads : List Obs → List (Int × Nat)
  | [] => []
  | .read l n :: os => (l, n) :: reads os
  | _ :: os => reads os

end S2T.ReadHistory
