/-
C06 model of "a value handed out by a third-party reader becomes part of the result".

A cell value is (kind, content, address).  The extractor renders it either from its content (isoformat, the
number, the string, a `str()` that the class defines from its fields) or — through a generic `str(value)`
fallback on a class that does not define `__str__` / `__repr__` — as `<module.Class object at 0x…>`: type and ADDRESS.
-/
namespace S2T.CellKinds

/-- one kind of value a reader call site can hand out; `byContent` = the extractor's rendering of two distinct
    objects of this kind with equal content is equal -/
structure Kind where
  name : String
  byContent : Bool
  deriving DecidableEq, Repr

/-- rendering of a value with content `c` living at address `a`: (content part, address part) -/
def render (k : Kind) (c a : Nat) : Nat × Nat := if k.byContent then (c, 0) else (c, a)

/-- a reader call site: (file, function, flags as written, kinds it hands out under those flags) -/
structure Site where
  file : String
  fn : String
  flags : String
  kinds : List Kind
  deriving Repr

def Site.ok (s : Site) : Bool := s.kinds.all (·.byContent)

end S2T.CellKinds
