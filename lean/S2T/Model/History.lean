/-
C06 model of process history.

An extraction call is a function of the input document AND of whatever process-global state
earlier calls left behind:  `run : Store → Doc → Out × Store`.  "Identical in a fresh process /
when repeated" says the `Store` argument is not observable.  Three shapes occur in the library:

1. constant tables (`_CONTENT_TYPE_MAP`, `NS`, tag sets …): read, never written        → `Frame`
2. memo tables (`_FONT_CACHE`, `_ROUND_KEY_CACHE`, `lru_cache`): written, but every entry is a
   function of its key, so a hit returns what a miss would compute                       → `memoGet`
3. a constant table consulted together with per-document declarations (the shape a change such as
   "take image content types from [Content_Types].xml too" introduces): correct on a COPY of the
   table (`overlayCopy`), history dependent when the table itself is extended (`overlayAlias`).
-/
namespace S2T.History

/-- the state after a history of extractions -/
def after {σ δ ρ} (run : σ → δ → ρ × σ) (g : σ) : List δ → σ
  | [] => g
  | d :: ds => after run (run g d).2 ds

/-- the outputs of a history of extractions -/
def outputs {σ δ ρ} (run : σ → δ → ρ × σ) (g : σ) : List δ → List ρ
  | [] => []
  | d :: ds => (run g d).1 :: outputs run (run g d).2 ds

/-! ### memo tables -/

/-- every stored value is the function value of its key -/
def MemoSound {κ ν} (f : κ → ν) (tbl : List (κ × ν)) : Prop := ∀ kv ∈ tbl, kv.2 = f kv.1

/-- look the key up; on a miss compute, store, and (as LRU caches do) possibly evict: `keep` decides
    which of the older entries survive -/
def memoGet {κ ν} [BEq κ] (f : κ → ν) (keep : κ × ν → Bool) (tbl : List (κ × ν)) (k : κ) : ν × List (κ × ν) :=
  match tbl.lookup k with
  | some v => (v, (k, v) :: tbl.filter (fun e => !(e.1 == k)))      -- move_to_end
  | none => (f k, (k, f k) :: tbl.filter keep)

/-! ### constant table + per-document declarations -/

/-- `dict.setdefault` for every declaration, in order -/
def setdefaults {κ ν} [BEq κ] (tbl : List (κ × ν)) : List (κ × ν) → List (κ × ν)
  | [] => tbl
  | (k, v) :: ds => setdefaults (if (tbl.lookup k).isSome then tbl else tbl ++ [(k, v)]) ds

structure Doc (κ ν : Type) where
  decls : List (κ × ν)     -- what the document declares itself
  uses : List κ            -- the keys it looks up

/-- today's code: only the constant table is consulted -/
def lookupOnly {κ ν} [BEq κ] (dflt : κ → ν) (g : List (κ × ν)) (d : Doc κ ν) : List ν × List (κ × ν) :=
  (d.uses.map (fun k => (g.lookup k).getD (dflt k)), g)

/-- declarations merged into a per-call COPY of the table -/
def overlayCopy {κ ν} [BEq κ] (dflt : κ → ν) (g : List (κ × ν)) (d : Doc κ ν) : List ν × List (κ × ν) :=
  let t := setdefaults g d.decls
  (d.uses.map (fun k => (t.lookup k).getD (dflt k)), g)

/-- declarations merged into the table ITSELF (the per-call name is an alias of the module-level object) -/
def overlayAlias {κ ν} [BEq κ] (dflt : κ → ν) (g : List (κ × ν)) (d : Doc κ ν) : List ν × List (κ × ν) :=
  let t := setdefaults g d.decls
  (d.uses.map (fun k => (t.lookup k).getD (dflt k)), t)

end S2T.History
