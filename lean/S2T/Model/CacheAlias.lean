/-
C15: a memo cache that hands its values out BY REFERENCE.

`functools.lru_cache` (and every `dict` used as a memo) stores the very object the function returned and returns that same
object to every later caller.  If the value is mutable and any caller modifies the object it got (pads a row, sorts a list,
sets a field), the modification is a write to process-wide state: every later caller — and every earlier one that still holds
the object — sees it.  History of a process = list of operations:

* `get k`        a call of the cached function with argument `k`;
* `modify k g`   a caller applies the in-place modification `g` to the object it was handed for `k`.

`byRef = true`: the cache entry IS that object (the modification lands in the cache);  `byRef = false`: the cache hands out a
copy / the value is immutable (the modification stays with the caller).
Eviction is irrelevant to aliasing and modelled in `S2T.Cache` (`lruGet`); here the memo is unbounded.
-/
namespace S2T.CacheAlias

inductive Op (K V : Type)
  | get (k : K)
  | modify (k : K) (g : V → V)

def find {K V} [DecidableEq K] (k : K) : List (K × V) → Option V
  | [] => none
  | (k', v) :: r => if k' = k then some v else find k r

/-- one operation: new cache and, for a `get`, the value the caller receives -/
def opStep {K V} [DecidableEq K] (byRef : Bool) (f : K → V) (c : List (K × V)) : Op K V → List (K × V) × Option V
  | .get k =>
    match find k c with
    | some v => (c, some v)
    | none => ((k, f k) :: c, some (f k))
  | .modify k g =>
    if byRef then (c.map (fun kv => if kv.1 = k then (kv.1, g kv.2) else kv), none) else (c, none)

def opRun {K V} [DecidableEq K] (byRef : Bool) (f : K → V) (c : List (K × V)) : List (Op K V) → List (K × V)
  | [] => c
  | o :: r => opRun byRef f (opStep byRef f c o).1 r

/-- every entry is what the function returns for its key -/
def Consistent {K V} (f : K → V) (c : List (K × V)) : Prop := ∀ kv ∈ c, kv.2 = f kv.1

/-- the history never modifies a handed-out value (immutable values: `str`, `bool`, `tuple`, function objects) -/
def ReadOnly {K V} : List (Op K V) → Prop
  | [] => True
  | .get _ :: r => ReadOnly r
  | .modify _ g :: r => (∀ v, g v = v) ∧ ReadOnly r

end S2T.CacheAlias
