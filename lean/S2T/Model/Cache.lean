/-
Models of the module-level memo caches that sit on extraction paths:

* `_pypdf_aes_fallback._ROUND_KEY_CACHE` / `_get_round_keys` — an `OrderedDict` used as an LRU
  (hit: `move_to_end`; miss: compute, insert, `popitem(last=False)` beyond `_ROUND_KEY_CACHE_MAX`);
  `functools.lru_cache(maxsize=n)` (CPython's; same discipline) at the decorated functions listed
  in `S2T.Gen.GlobalWrites.lruSites`.  `f` may raise (`_expand_key` on a bad key length): nothing is stored.
* `pdf_extractor._FONT_CACHE` — `Legacy`: keyed by the font bytes, value computed from
  (font bytes, glyph ids of the first caller); `Fixed` (fix-font-cache-key.patch): holds only
  `_ttf_parse_font(font bytes)`, the glyph ids are looked up on every call.
* `serialization._TYPE_REGISTRY` / `_get_type_registry` — filled once from `dir(data_types)`.

An `OrderedDict` is an association list in insertion order (oldest first) with unique keys.
-/
namespace S2T.Cache

abbrev Cache (K V : Type) := List (K × V)

def find? {K V} [DecidableEq K] (k : K) : Cache K V → Option V
  | [] => none
  | (k', v) :: r => if k = k' then some v else find? k r

def erase {K V} [DecidableEq K] (k : K) : Cache K V → Cache K V
  | [] => []
  | (k', v) :: r => if k = k' then r else (k', v) :: erase k r

/-- `_get_round_keys(key)` with `f = _expand_key`, `cap = _ROUND_KEY_CACHE_MAX`; also `lru_cache(maxsize=cap)(f)`. -/
def lruGet {K V E} [DecidableEq K] (cap : Nat) (f : K → Except E V) (c : Cache K V) (k : K) :
    Except E V × Cache K V :=
  match find? k c with
  | some v => (.ok v, erase k c ++ [(k, v)])                 -- hit: move_to_end
  | none =>
    match f k with
    | .error e => (.error e, c)                              -- raised before anything is stored
    | .ok v =>
      let c' := c ++ [(k, v)]
      (.ok v, if c'.length > cap then c'.drop 1 else c')     -- popitem(last=False)

/-- the cache after a history of calls (results dropped) -/
def lruRun {K V E} [DecidableEq K] (cap : Nat) (f : K → Except E V) (c : Cache K V) : List K → Cache K V
  | [] => c
  | k :: r => lruRun cap f (lruGet cap f c k).2 r

/-- every stored value is what `f` returns for its key -/
def Consistent {K V E} (f : K → Except E V) (c : Cache K V) : Prop := ∀ kv ∈ c, f kv.1 = .ok kv.2

namespace FontLegacy
/-- `_ttf_get_glyph_features(font_data, glyph_ids)` before the fix: `g` is the uncached computation. -/
def get {K G V} [DecidableEq K] (g : K → G → V) (c : Cache K V) (k : K) (gids : G) : V × Cache K V :=
  match find? k c with
  | some v => (v, c)
  | none => let v := g k gids; (v, c ++ [(k, v)])
end FontLegacy

namespace FontFixed
/-- `_ttf_get_glyph_features` after the fix: `parse = _ttf_parse_font` (cached by font bytes),
    `feat` = the per-call glyph lookup in the parsed font. -/
def get {K P G V} [DecidableEq K] (parse : K → P) (feat : K → P → G → V) (c : Cache K P) (k : K) (gids : G) :
    V × Cache K P :=
  match find? k c with
  | some p => (feat k p gids, c)
  | none => let p := parse k; (feat k p gids, c ++ [(k, p)])

def run {K P G V} [DecidableEq K] (parse : K → P) (feat : K → P → G → V) (c : Cache K P) : List (K × G) → Cache K P
  | [] => c
  | (k, g) :: r => run parse feat (get parse feat c k g).2 r

def Consistent {K P} (parse : K → P) (c : Cache K P) : Prop := ∀ kp ∈ c, kp.2 = parse kp.1
end FontFixed

/-- `_get_type_registry()`: `if _TYPE_REGISTRY: return _TYPE_REGISTRY`; otherwise fill it from the scan of
    `data_types` (`scan`, the (name, class) pairs in `dir()` order) and return it. -/
def registryGet {K V} (scan : List (K × V)) (c : List (K × V)) : List (K × V) × List (K × V) :=
  if c.isEmpty then (scan, scan) else (c, c)

end S2T.Cache
