import S2T.Model.IfaceStreams
/-!
# C04 — a unit's annotated COPY of an image, built on demand from the result's own image

`iterate_units()` of the ODF text extractor hands out copies of the result's images (`dataclasses.replace(image,
unit_name=…, data=io.BytesIO(<content of image.data>))`).  The copy is built WHEN the consumer walks the units, i.e.
after an arbitrary history of operations on the result's own stream (`get_bytes()` = rewind, `read()`, `read(n)`).
How `<content of image.data>` is written decides whether the copy depends on that history:

* `image.data.getvalue()` — the whole buffer, whatever the position; the source is not touched;
* `image.data.read()`     — what lies behind the CURRENT position; the source is left at its end.

Core Lean only.  Theorems: `S2T/Props/C04_Copies.lean`.
-/
namespace S2T.Iface

/-- what the consumer did with the result's own stream before the units are walked -/
inductive StreamOp where
  | rewind            -- `get_bytes()` of the result's image: `seek(0)`
  | read              -- `.read()`
  | readN (n : Nat)   -- `.read(n)`
deriving DecidableEq, Repr

def applyOp (c : Cell) : StreamOp → Cell
  | .rewind => { c with pos := 0 }
  | .read => { c with pos := max c.pos c.content.length }
  | .readN n => { c with pos := min (c.pos + n) (max c.pos c.content.length) }

def applyOps (c : Cell) (ops : List StreamOp) : Cell := ops.foldl applyOp c

/-- how the copy site obtains the bytes -/
inductive CopyForm where
  | getvalue
  | read
deriving DecidableEq, Repr

/-- the copy: (content of the NEW stream object — at position 0 —, the source object afterwards) -/
def copyOf (f : CopyForm) (src : Cell) : List Nat × Cell :=
  match f with
  | .getvalue => (src.content, src)
  | .read => (src.content.drop src.pos, { src with pos := max src.pos src.content.length })

/-- walking the units `k` times: every walk builds a copy from the state the source is in then -/
def walks (f : CopyForm) : Nat → Cell → List (List Nat)
  | 0, _ => []
  | k + 1, src => let (c, src') := copyOf f src; c :: walks f k src'

end S2T.Iface
