/-
Model of sharepoint2text/parsing/extractors/util/sevenzip.py (`SevenZipReader`), function by function.

* bytes are `List Nat` (each < 256 at the driver boundary), Python ints are `Nat`;
* the reader object's mutable fields are the record `R`, threaded through `StateT R (Except Err)`;
  `self._stream` is the list of bytes that are still unread (the header stream is only read forwards,
  `_seek_back_one` is a peek and `seek(end_pos)` in `_parse_files_info` is a `drop` — see `filesProps`);
* exceptions: `Bad7zFile` ↦ `Err.bad7z`, anything else ↦ `Err.other`;
* the constants (`PROP_*`, coder ids, magic) are a parameter `Ids`; the generated instance is
  `S2T.Gen.SevenZip.ids`, the 7zFormat.txt transcription is `specIds`;
* `lzma` (stdlib, third party) is the parameter `Codec`; `zlib.crc32` is the parameter `crc`.

The model is of the code WITH the five C10 repairs (per-folder pack offsets, empty files are files,
UTF-16 names, SubStreamsInfo digests only for streams whose CRC is not known from the folder, the External
byte of the attributes property); the previous behaviour is kept beside it (`extractAllOld`,
`buildFileListOld`, `decodeNameOld`, and the `Variant` flags `digestsKnown := false` /
`attrExternal := false` = `legacy`) for the counterexample theorems.
-/
namespace S2T.SevenZip

deriving instance DecidableEq for Except

abbrev Bytes := List Nat
abbrev Str := List Nat          -- code points

inductive Err
  | bad7z (why : String)
  | encrypted7z (why : String)     -- `Encrypted7zFile`, a subclass of `Bad7zFile`
  | other (py : String)
deriving Repr, DecidableEq

structure Ids where
  kEnd : Nat
  kHeader : Nat
  kArchiveProperties : Nat
  kAdditionalStreamsInfo : Nat
  kMainStreamsInfo : Nat
  kFilesInfo : Nat
  kPackInfo : Nat
  kUnpackInfo : Nat
  kSubStreamsInfo : Nat
  kSize : Nat
  kCRC : Nat
  kFolder : Nat
  kCodersUnpackSize : Nat
  kNumUnpackStream : Nat
  kEmptyStream : Nat
  kEmptyFile : Nat
  kName : Nat
  kWinAttributes : Nat
  kEncodedHeader : Nat
  coderCopy : Bytes
  coderLzma : Bytes
  coderLzma2 : Bytes
  coderBcj : Bytes
  aesPrefix : Bytes
  magic : Bytes
deriving DecidableEq, Repr

/-- Property ids and coder ids of 7-Zip's 7zFormat.txt / Methods.txt (transcribed by hand: the spec). -/
def specIds : Ids :=
  { kEnd := 0x00, kHeader := 0x01, kArchiveProperties := 0x02, kAdditionalStreamsInfo := 0x03,
    kMainStreamsInfo := 0x04, kFilesInfo := 0x05, kPackInfo := 0x06, kUnpackInfo := 0x07,
    kSubStreamsInfo := 0x08, kSize := 0x09, kCRC := 0x0A, kFolder := 0x0B, kCodersUnpackSize := 0x0C,
    kNumUnpackStream := 0x0D, kEmptyStream := 0x0E, kEmptyFile := 0x0F, kName := 0x11,
    kWinAttributes := 0x15, kEncodedHeader := 0x17,
    coderCopy := [0x00], coderLzma := [0x03, 0x01, 0x01], coderLzma2 := [0x21],
    coderBcj := [0x03, 0x03, 0x01, 0x03], aesPrefix := [0x06, 0xF1, 0x07],
    magic := [0x37, 0x7A, 0xBC, 0xAF, 0x27, 0x1C] }

structure Coder where
  id : Bytes
  props : Option Bytes
deriving Repr, DecidableEq

structure Folder where
  coders : List Coder
  unpackSizes : List Nat := []
  crc : Option Nat := none
  numStreams : Nat := 1
  numPackStreams : Nat := 1
deriving Repr, DecidableEq

structure FileInfo where
  filename : Str
  uncompressed : Nat
  isDirectory : Bool
  attributes : Nat := 0
  folderIndex : Nat := 0
deriving Repr, DecidableEq

/-- the reader object -/
structure R where
  stream : Bytes
  packPositions : List Nat := []
  packSizes : List Nat := []
  folders : List Folder := []
  fileSizes : List Nat := []
  files : List FileInfo := []
  folderToFiles : List (Nat × List Nat) := []     -- dict, insertion order
  emptyFileIdx : List Nat := []
deriving Repr, DecidableEq

/-- stdlib `lzma` as the code calls it. -/
structure Codec where
  /-- `lzma.LZMADecompressor(format=FORMAT_ALONE).decompress(s)`; `none` = `LZMAError` -/
  lzmaAlone : Bytes → Option Nat → Option Bytes
  /-- `lzma.LZMADecompressor(format=FORMAT_RAW, filters=[LZMA2 dict_size | preset 6]).decompress(s)` -/
  lzma2Raw : Option Nat → Bytes → Option Nat → Option Bytes

abbrev M := StateT R (Except Err)

def bad {α} (why : String) : M α := fun _ => .error (.bad7z why)

def headerOffset : Nat := 32

/-! ### binary reading helpers -/

/-- `_read_bytes` -/
def readBytes (n : Nat) : M Bytes := fun r =>
  if r.stream.length < n then .error (.bad7z "Unexpected end of file")
  else .ok (r.stream.take n, { r with stream := r.stream.drop n })

/-- `_read_uint8` -/
def readU8 : M Nat := fun r =>
  match r.stream with
  | [] => .error (.bad7z "Unexpected end of file")
  | b :: s => .ok (b, { r with stream := s })

def leValue : Bytes → Nat
  | [] => 0
  | b :: r => b + 256 * leValue r

def readU32 : M Nat := do return leValue (← readBytes 4)
def readU64 : M Nat := do return leValue (← readBytes 8)

/-- the `for i in range(8)` loop of `_read_number`; `k` = iterations left -/
def readNumberAux (first : Nat) : Nat → Nat → Nat → Nat → M Nat
  | 0, _, _, value => pure value
  | k + 1, i, mask, value =>
    if first &&& mask = 0 then
      pure (value ||| ((first &&& (mask - 1)) <<< (i * 8)))
    else do
      let b ← readU8
      readNumberAux first k (i + 1) (mask >>> 1) (value ||| (b <<< (i * 8)))

/-- `_read_number` -/
def readNumber : M Nat := do
  let first ← readU8
  readNumberAux first 8 0 0x80 0

/-- the loop of `_read_boolean_vector` -/
def readBitsAux : Nat → Nat → Nat → M (List Bool)
  | 0, _, _ => pure []
  | n + 1, byteValue, mask => do
    let (bv, m) ← (if mask = 0 then do let b ← readU8; pure (b, 0x80) else pure (byteValue, mask) : M (Nat × Nat))
    let rest ← readBitsAux n bv (m >>> 1)
    pure (((bv &&& m) != 0) :: rest)

/-- `_read_boolean_vector` -/
def readBoolVector (count : Nat) (checkDefined : Bool := false) : M (List Bool) := do
  if checkDefined then
    let allDefined ← readU8
    if allDefined ≠ 0 then return List.replicate count true
  readBitsAux count 0 0

/-- `[f() for _ in range(n)]` -/
def replicateM' {α} (f : M α) : Nat → M (List α)
  | 0 => pure []
  | n + 1 => do let a ← f; let r ← replicateM' f n; pure (a :: r)

/-- `for is_defined in defined: if is_defined: self._read_uint32()` (values kept) -/
def readDefinedU32 : List Bool → M (List (Option Nat))
  | [] => pure []
  | true :: r => do let v ← readU32; let t ← readDefinedU32 r; pure (some v :: t)
  | false :: r => do let t ← readDefinedU32 r; pure (none :: t)

/-! ### streams info -/

/-- `_parse_pack_info` -/
def parsePackInfo (ids : Ids) : M (Option (Nat × List Nat)) := do
  let r ← get
  match r.stream with
  | [] => bad "Unexpected end of file"
  | p :: _ =>
    if p ≠ ids.kPackInfo then return none     -- `_seek_back_one`
    let _ ← readU8
    let packPos ← readNumber
    let numPackStreams ← readNumber
    let mut packSizes : List Nat := []
    let mut propId ← readU8
    if propId = ids.kSize then
      packSizes ← replicateM' readNumber numPackStreams
      propId ← readU8
    if propId = ids.kCRC then
      let defined ← readBoolVector numPackStreams true
      let _ ← readDefinedU32 defined
      propId ← readU8
    if propId ≠ ids.kEnd then bad "Expected END in pack info"
    let absolutePos := packPos + headerOffset
    modify fun r => { r with packPositions := [absolutePos], packSizes := packSizes }
    return some (absolutePos, packSizes)

/-- one coder of `_parse_folder`: (coder, number of input streams) -/
def parseCoder : M (Coder × Nat) := do
  let flags ← readU8
  let coderIdSize := flags &&& 0x0F
  let isComplex := (flags &&& 0x10) ≠ 0
  let hasAttributes := (flags &&& 0x20) ≠ 0
  let coderId ← readBytes coderIdSize
  let mut numIn := 1
  if isComplex then
    numIn ← readNumber
    let _ ← readNumber
  let mut properties : Option Bytes := none
  if hasAttributes then
    let propsSize ← readNumber
    properties := some (← readBytes propsSize)
  return ({ id := coderId, props := properties }, numIn)

/-- `_parse_folder` -/
def parseFolder : M Folder := do
  let numCoders ← readNumber
  let cs ← replicateM' parseCoder numCoders
  let coders := cs.map (·.1)
  let numInTotal := (cs.map (·.2)).sum
  let numBindPairs : Int := (coders.length : Int) - 1
  let _ ← replicateM' (do let _ ← readNumber; let _ ← readNumber; pure ()) numBindPairs.toNat
  let numPackStreams := ((numInTotal : Int) - numBindPairs).toNat
  return { coders := coders, unpackSizes := [], numPackStreams := numPackStreams }

/-- `for folder in folders: folder.unpack_sizes = [read_number() for _ in coders]` -/
def readUnpackSizes : List Folder → M (List Folder)
  | [] => pure []
  | f :: r => do
    let us ← replicateM' readNumber f.coders.length
    let t ← readUnpackSizes r
    pure ({ f with unpackSizes := us } :: t)

def setCrcs : List Folder → List (Option Nat) → List Folder
  | f :: r, some c :: t => { f with crc := some c } :: setCrcs r t
  | f :: r, none :: t => f :: setCrcs r t
  | fs, _ => fs

/-- `_parse_unpack_info` -/
def parseUnpackInfo (ids : Ids) : M (List Folder) := do
  let r ← get
  match r.stream with
  | [] => bad "Unexpected end of file"
  | p :: _ =>
    if p ≠ ids.kUnpackInfo then return []
    let _ ← readU8
    let p2 ← readU8
    if p2 ≠ ids.kFolder then bad "Expected FOLDER property in unpack info"
    let numFolders ← readNumber
    if (← readU8) ≠ 0 then bad "External folders not supported"
    let folders ← replicateM' parseFolder numFolders
    let mut propId ← readU8
    if propId ≠ ids.kCodersUnpackSize then bad "Expected CODERS_UNPACK_SIZE"
    let mut folders ← readUnpackSizes folders
    propId ← readU8
    if propId = ids.kCRC then
      let defined ← readBoolVector numFolders true
      let crcs ← readDefinedU32 defined
      folders := setCrcs folders crcs
      propId ← readU8
    if propId ≠ ids.kEnd then bad "Expected END in unpack info"
    modify fun r => { r with folders := folders }
    return folders

/-- `for folder in folders: folder.num_streams = read_number()` -/
def readNumStreams : List Folder → M (List Folder)
  | [] => pure []
  | f :: r => do
    let n ← readNumber
    let t ← readNumStreams r
    pure ({ f with numStreams := n } :: t)

/-- inner loop of the PROP_SIZE branch: returns the explicit sizes and what is left of `total` (an int) -/
def readSubSizes : Nat → Int → M (List Nat × Int)
  | 0, total => pure ([], total)
  | n + 1, total => do
    let size ← readNumber
    let (r, t) ← readSubSizes n (total - size)
    pure (size :: r, t)

/-- PROP_SIZE branch of `_parse_substreams_info` -/
def readFolderFileSizes : List Folder → M (List Nat)
  | [] => pure []
  | f :: r => do
    let total : Int := match f.unpackSizes.getLast? with | some u => u | none => 0
    let (sizes, left) ← readSubSizes (f.numStreams - 1) total
    let own := if left > 0 then sizes ++ [left.toNat] else sizes
    let t ← readFolderFileSizes r
    pure (own ++ t)

/-- number of digests SubStreamsInfo stores: one per substream whose CRC is not already known from its folder
    (`known = false`: the previous code, one per substream) -/
def digestCount (known : Bool) (folders : List Folder) : Nat :=
  ((folders.filter fun f => !(known && f.numStreams == 1 && f.crc.isSome)).map (·.numStreams)).sum

/-- `_parse_substreams_info` (`known = false`: the previous digest count) -/
def parseSubstreamsInfo (ids : Ids) (known : Bool := true) : M Unit := do
  let mut propId ← readU8
  let r ← get
  if propId = ids.kNumUnpackStream then
    let fs ← readNumStreams r.folders
    modify fun r => { r with folders := fs }
    propId ← readU8
  else
    modify fun r => { r with folders := r.folders.map fun f => { f with numStreams := 1 } }
  let r ← get
  let mut fileSizes : List Nat := []
  if propId = ids.kSize then
    fileSizes ← readFolderFileSizes r.folders
    propId ← readU8
  else
    fileSizes := r.folders.filterMap fun f => f.unpackSizes.getLast?
  modify fun r => { r with fileSizes := fileSizes }
  if propId = ids.kCRC then
    let totalStreams := digestCount known r.folders
    let defined ← readBoolVector totalStreams true
    let _ ← readDefinedU32 defined
    propId ← readU8
  if propId ≠ ids.kEnd then bad "Expected END in substreams info"

/-- `for folder in folders: for _ in range(folder.num_streams - 1): read_number()` -/
def skipSubSizes : List Folder → M Unit
  | [] => pure ()
  | f :: r => do
    let _ ← replicateM' readNumber (f.numStreams - 1)
    skipSubSizes r

/-- `_skip_substreams_info`.  Its argument is the list object `_parse_unpack_info` has just stored in
    `self._folders`, so the `num_streams` assignments are visible there. -/
def skipSubstreamsInfo (ids : Ids) (known : Bool := true) : M Unit := do
  let mut propId ← readU8
  if propId = ids.kNumUnpackStream then
    let fs ← readNumStreams (← get).folders
    modify fun r => { r with folders := fs }
    propId ← readU8
  let folders := (← get).folders
  if propId = ids.kSize then
    skipSubSizes folders
    propId ← readU8
  if propId = ids.kCRC then
    let totalStreams := digestCount known folders
    let defined ← readBoolVector totalStreams true
    let _ ← readDefinedU32 defined
    propId ← readU8
  if propId ≠ ids.kEnd then bad "Expected END in substreams info"

/-- `_parse_streams_info` -/
def parseStreamsInfo (ids : Ids) (known : Bool := true) : M Unit := do
  let mut propId ← readU8
  if propId = ids.kPackInfo then
    modify fun r => { r with stream := propId :: r.stream }
    let _ ← parsePackInfo ids
    propId ← readU8
  if propId = ids.kUnpackInfo then
    modify fun r => { r with stream := propId :: r.stream }
    let _ ← parseUnpackInfo ids
    propId ← readU8
  if propId = ids.kSubStreamsInfo then
    parseSubstreamsInfo ids known
    propId ← readU8
  if propId ≠ ids.kEnd then bad "Expected END in streams info"

/-! ### files info -/

/-- UTF-16 code units up to the 0x0000 terminator: `while True: unit = read(2) …`.
    Structural on the unread bytes (two are consumed per step). -/
def readNameUnits : Bytes → Except Err (List Nat × Bytes)
  | lo :: hi :: rest =>
    if lo = 0 ∧ hi = 0 then .ok ([], rest)
    else match readNameUnits rest with
      | .ok (us, r) => .ok ((lo + 256 * hi) :: us, r)
      | .error e => .error e
  | _ => .error (.bad7z "Unexpected end of file")

/-- `bytes.decode("utf-16-le", errors="surrogatepass")` on whole code units; the first argument is a
    pending high surrogate -/
def decodeUtf16Aux : Option Nat → List Nat → Str
  | none, [] => []
  | some h, [] => [h]
  | none, u :: rest =>
    if 0xD800 ≤ u ∧ u < 0xDC00 then decodeUtf16Aux (some u) rest else u :: decodeUtf16Aux none rest
  | some h, u :: rest =>
    if 0xDC00 ≤ u ∧ u < 0xE000 then (0x10000 + (h - 0xD800) * 0x400 + (u - 0xDC00)) :: decodeUtf16Aux none rest
    else if 0xD800 ≤ u ∧ u < 0xDC00 then h :: decodeUtf16Aux (some u) rest
    else h :: u :: decodeUtf16Aux none rest

def decodeUtf16 (us : List Nat) : Str := decodeUtf16Aux none us

/-- previous behaviour: `"".join(chr(unit) …)` -/
def decodeNameOld (us : List Nat) : Str := us

def readNames (decode : List Nat → Str) : Nat → Bytes → Except Err (List Str × Bytes)
  | 0, s => .ok ([], s)
  | n + 1, s =>
    match readNameUnits s with
    | .error e => .error e
    | .ok (us, r) =>
      match readNames decode n r with
      | .error e => .error e
      | .ok (ns, r') => .ok (decode us :: ns, r')

def setAttrs : List Nat → List (Option Nat) → List Nat
  | _ :: r, some c :: t => c :: setAttrs r t
  | a :: r, none :: t => a :: setAttrs r t
  | as, _ => as

structure FilesAcc where
  emptyStreams : List Bool
  emptyFiles : List Bool
  names : List Str
  attributes : List Nat
deriving Repr, DecidableEq

/-- run a reader on a byte list (the header stream), returning the value only -/
def runOn {α} (m : M α) (s : Bytes) : Except Err α :=
  match m { stream := s } with
  | .ok (a, _) => .ok a
  | .error e => .error e

/-- one property body of `_parse_files_info` (reads from `body`, result only: the caller re-seeks).
    `ext = false`: the previous code, which did not consume the External byte of the attributes property. -/
def fileProp (ids : Ids) (decode : List Nat → Str) (ext : Bool) (numFiles : Nat) (acc : FilesAcc) (pid : Nat) (body : Bytes) :
    Except Err FilesAcc :=
  if pid = ids.kEmptyStream then do
    let v ← runOn (readBoolVector numFiles) body
    pure { acc with emptyStreams := v }
  else if pid = ids.kEmptyFile then do
    let v ← runOn (readBoolVector (acc.emptyStreams.filter id).length) body
    pure { acc with emptyFiles := v }
  else if pid = ids.kName then
    match body with
    | [] => .error (.bad7z "Unexpected end of file")
    | ext :: rest =>
      if ext ≠ 0 then .error (.bad7z "External names not supported")
      else do
        let (ns, _) ← readNames decode numFiles rest
        pure { acc with names := ns }
  else if pid = ids.kWinAttributes then do
    let vals ← runOn (do
      let d ← readBoolVector numFiles true
      if ext then
        if (← readU8) ≠ 0 then bad "External attributes not supported"
      readDefinedU32 d) body
    pure { acc with attributes := setAttrs acc.attributes vals }
  else pure acc

theorem readU8_len {r a r'} (h : readU8 r = .ok (a, r')) : r'.stream.length < r.stream.length := by
  unfold readU8 at h
  split at h
  · cases h
  · rename_i b s hs
    cases h
    simp [hs]

theorem readNumberAux_len (first : Nat) : ∀ k i mask value r a r',
    readNumberAux first k i mask value r = .ok (a, r') → r'.stream.length ≤ r.stream.length := by
  intro k
  induction k with
  | zero => intro i mask value r a r' h; simp [readNumberAux, pure, StateT.pure] at h; cases h; simp_all
  | succ k ih =>
    intro i mask value r a r' h
    unfold readNumberAux at h
    split at h
    · simp [pure, StateT.pure] at h; cases h; simp_all
    · simp only [bind, StateT.bind] at h
      cases hb : readU8 r with
      | error e => rw [hb] at h; simp [Except.bind] at h
      | ok p =>
        obtain ⟨b, r1⟩ := p
        rw [hb] at h
        simp only [Except.bind] at h
        have h1 := ih _ _ _ _ _ _ h
        have h2 := readU8_len hb
        omega

theorem readNumber_len {r a r'} (h : readNumber r = .ok (a, r')) : r'.stream.length < r.stream.length := by
  unfold readNumber at h
  simp only [bind, StateT.bind] at h
  cases hb : readU8 r with
  | error e => rw [hb] at h; simp [Except.bind] at h
  | ok p =>
    obtain ⟨b, r1⟩ := p
    rw [hb] at h
    simp only [Except.bind] at h
    have h1 := readNumberAux_len _ _ _ _ _ _ _ _ h
    have h2 := readU8_len hb
    omega

/-- the `while True` loop of `_parse_files_info`.  `self._stream.seek(end_pos)` with
    `end_pos = tell() + size` taken right after the size was read is `body.drop size`
    (a `BytesIO` may be positioned past its end; the next read then fails like a read on `[]`).
    Terminates because every round consumes at least the property id. -/
def filesProps (ids : Ids) (decode : List Nat → Str) (ext : Bool) (numFiles : Nat) (acc : FilesAcc) (s : Bytes) :
    Except Err (FilesAcc × Bytes) :=
  match hs : s with
  | [] => .error (.bad7z "Unexpected end of file")
  | pid :: rest =>
    if pid = ids.kEnd then .ok (acc, rest)
    else
      match hn : readNumber { stream := rest } with
      | .error e => .error e
      | .ok (size, r1) =>
        match fileProp ids decode ext numFiles acc pid r1.stream with
        | .error e => .error e
        | .ok acc' => filesProps ids decode ext numFiles acc' (r1.stream.drop size)
termination_by s.length
decreasing_by
  have := readNumber_len hn
  simp at this ⊢
  omega

/-- `dict.setdefault(k, []).append(v)` -/
def dictAppend : List (Nat × List Nat) → Nat → Nat → List (Nat × List Nat)
  | [], k, v => [(k, [v])]
  | (k', vs) :: r, k, v => if k' = k then (k', vs ++ [v]) :: r else (k', vs) :: dictAppend r k v

def dictGet : List (Nat × List Nat) → Nat → Option (List Nat)
  | [], _ => none
  | (k', vs) :: r, k => if k' = k then some vs else dictGet r k

/-- one entry as `_parse_files_info` hands it to `_build_file_list` -/
structure RawEntry where
  name : Str
  emptyStream : Bool
  attributes : Nat
deriving Repr, DecidableEq

/-- first loop of `_build_file_list`: (FileInfo, has a data stream).  `sizes` = the part of
    `_file_sizes` from `size_index` on; `efs` = the part of `empty_files` from `empty_index` on. -/
def buildInfos : List RawEntry → List Nat → List Bool → List (FileInfo × Bool)
  | [], _, _ => []
  | e :: rest, sizes, efs =>
    let isEmptyFile := e.emptyStream && (efs.head?.getD false)
    let efs' := if e.emptyStream then efs.tail else efs
    let isDir := (e.emptyStream && !isEmptyFile) || (e.attributes &&& 0x10) ≠ 0
    if isDir then
      ({ filename := e.name, uncompressed := 0, isDirectory := true, attributes := e.attributes }, false)
        :: buildInfos rest sizes efs'
    else if isEmptyFile then
      ({ filename := e.name, uncompressed := 0, isDirectory := false, attributes := e.attributes }, false)
        :: buildInfos rest sizes efs'
    else
      match sizes with
      | sz :: sizes' =>
        ({ filename := e.name, uncompressed := sz, isDirectory := false, attributes := e.attributes }, true)
          :: buildInfos rest sizes' efs'
      | [] =>
        ({ filename := e.name, uncompressed := 0, isDirectory := false, attributes := e.attributes }, true)
          :: buildInfos rest [] efs'

/-- second loop of `_build_file_list`: the (file index, folder index) assignments in order.
    `items` = (file index, skipped by the two `continue`s that do not depend on the folder) -/
def assignLoop (folders : List Folder) : List (Nat × Bool) → Nat → Nat → List (Nat × Nat)
  | [], _, _ => []
  | (i, skip) :: rest, fIdx, inF =>
    if skip then assignLoop folders rest fIdx inF
    else
      match folders[fIdx]? with
      | none => assignLoop folders rest fIdx inF
      | some f =>
        if inF + 1 ≥ f.numStreams then (i, fIdx) :: assignLoop folders rest (fIdx + 1) 0
        else (i, fIdx) :: assignLoop folders rest fIdx (inF + 1)

/-- `file_info.folder_index = folder_idx` for the assigned files -/
def setFolderIndex (files : List FileInfo) (asg : List (Nat × Nat)) : List FileInfo :=
  files.mapIdx fun i f =>
    match asg.find? (·.1 = i) with
    | some p => { f with folderIndex := p.2 }
    | none => f

/-- `enumerate(self._files)` with what the two folder-independent `continue`s of the second loop test -/
def skipItems : List (FileInfo × Bool) → Nat → List (Nat × Bool)
  | [], _ => []
  | (f, hasStream) :: r, i => (i, f.isDirectory || !hasStream) :: skipItems r (i + 1)

/-- `self._empty_file_indices` -/
def emptyIdxLoop : List (FileInfo × Bool) → Nat → List Nat
  | [], _ => []
  | (f, hasStream) :: r, i =>
    if !f.isDirectory && !hasStream then i :: emptyIdxLoop r (i + 1) else emptyIdxLoop r (i + 1)

/-- `_build_file_list` -/
def buildFileList (r : R) (entries : List RawEntry) (emptyFiles : List Bool) : R :=
  let infos := buildInfos entries r.fileSizes emptyFiles
  let asg := assignLoop r.folders (skipItems infos 0) 0 0
  { r with
    files := r.files ++ setFolderIndex (infos.map (·.1)) asg
    emptyFileIdx := r.emptyFileIdx ++ emptyIdxLoop infos 0
    folderToFiles := asg.foldl (fun m p => dictAppend m p.2 p.1) r.folderToFiles }

/-- previous behaviour: every empty-stream entry is a directory -/
def buildFileListOld (r : R) (entries : List RawEntry) : R :=
  buildFileList r entries []

def zipEntries : List Str → List Bool → List Nat → List RawEntry
  | n :: ns, e :: es, a :: as => { name := n, emptyStream := e, attributes := a } :: zipEntries ns es as
  | _, _, _ => []

/-- `_parse_files_info` -/
def parseFilesInfo (ids : Ids) (decode : List Nat → Str) (fixEmpty : Bool) (ext : Bool := true) : M Unit := do
  let numFiles ← readNumber
  let r ← get
  -- `remaining = stream.seek(0, SEEK_END) - position`
  if numFiles > r.stream.length then bad "Declared file count exceeds header size"
  let acc0 : FilesAcc := { emptyStreams := List.replicate numFiles false, emptyFiles := [],
                           names := List.replicate numFiles [], attributes := List.replicate numFiles 0 }
  match filesProps ids decode ext numFiles acc0 r.stream with
  | .error e => fun _ => .error e
  | .ok (acc, rest) =>
    let entries := zipEntries acc.names acc.emptyStreams acc.attributes
    set (buildFileList { r with stream := rest } entries (if fixEmpty then acc.emptyFiles else []))

/-! ### decompression -/

def isPrefix (p s : Bytes) : Bool := s.take p.length == p

/-- `data if max_output is None else data[:max_output]` -/
def capTo (maxOutput : Option Nat) (data : Bytes) : Bytes :=
  match maxOutput with
  | none => data
  | some m => data.take m

/-- `_decompress_lzma` (`maxOutput` = the decoder's `max_length`, `none` = -1) -/
def decompressLzma (c : Codec) (data : Bytes) (props : Option Bytes) (unpackSizes : List Nat)
    (maxOutput : Option Nat := none) : Except Err Bytes :=
  match props with
  | none => .error (.bad7z "Invalid LZMA properties")
  | some p =>
    if p.length < 5 then .error (.bad7z "Invalid LZMA properties")
    else
      let sizeBytes : Bytes := match unpackSizes.getLast? with
        | some u => (List.range 8).map fun i => (u >>> (8 * i)) % 256
        | none => List.replicate 8 0xFF
      match c.lzmaAlone (p.take 5 ++ sizeBytes ++ data) maxOutput with
      | some out => .ok out
      | none => .error (.bad7z "LZMA decompression failed")

/-- dictionary size `_decompress_lzma2` asks for (`none` = preset 6) -/
def lzma2Dict (propByte : Nat) : Option Nat :=
  if propByte < 40 then
    if propByte > 0 then some ((2 ||| (propByte &&& 1)) <<< (propByte / 2 + 11)) else some (1 <<< 12)
  else none

/-- `_decompress_lzma2` -/
def decompressLzma2 (c : Codec) (data : Bytes) (props : Option Bytes) (maxOutput : Option Nat := none) :
    Except Err Bytes :=
  match props with
  | none => .error (.bad7z "LZMA2 requires properties")
  | some [] => .error (.bad7z "LZMA2 requires properties")
  | some (pb :: _) =>
    match c.lzma2Raw (lzma2Dict pb) data maxOutput with
    | some out => .ok out
    | none => .error (.bad7z "LZMA2 decompression failed")

/-- `_apply_decoder` -/
def applyDecoder (ids : Ids) (c : Codec) (cd : Coder) (data : Bytes) (unpackSizes : List Nat)
    (maxOutput : Option Nat := none) : Except Err Bytes :=
  if cd.id = ids.coderCopy then .ok (capTo maxOutput data)
  else if cd.id = ids.coderLzma then decompressLzma c data cd.props unpackSizes maxOutput
  else if cd.id = ids.coderLzma2 then decompressLzma2 c data cd.props maxOutput
  else if cd.id = ids.coderBcj then .ok (capTo maxOutput data)
  else if isPrefix ids.aesPrefix cd.id then .error (.encrypted7z "Encrypted archives are not supported")
  else .error (.bad7z "Unsupported compression method")

def applyDecoders (ids : Ids) (c : Codec) (us : List Nat) (maxOutput : Option Nat) : List Coder → Bytes → Except Err Bytes
  | [], data => .ok data
  | cd :: rest, data =>
    match applyDecoder ids c cd data us maxOutput with
    | .ok d => applyDecoders ids c us maxOutput rest d
    | .error e => .error e

/-- `_decompress_folder` (`file` = the whole archive file) -/
def decompressFolder (ids : Ids) (c : Codec) (file : Bytes) (f : Folder) (packPos : Nat) (packSizes : List Nat)
    (maxOutput : Option Nat := none) : Except Err Bytes :=
  if f.coders = [] then .error (.bad7z "No coders in folder")
  else
    let total := packSizes.sum
    let data := if total = 0 then file.drop packPos else (file.drop packPos).take total
    applyDecoders ids c f.unpackSizes maxOutput f.coders.reverse data

/-- `wanted is None or id(file_info) in wanted`; members are identified by their index in `self._files`
    (`list()` hands out the very objects of `self._files`) -/
def isWanted (wanted : Option (List Nat)) (idx : Nat) : Bool :=
  match wanted with
  | none => true
  | some l => l.contains idx

/-- the loop of `_needed_output`: end offset of the last requested file of a folder -/
def neededLoop (files : List FileInfo) (wanted : List Nat) : List Nat → Nat → Option Nat → Except Err (Option Nat)
  | [], _, needed => .ok needed
  | idx :: rest, offset, needed =>
    match files[idx]? with
    | none => .error (.other "IndexError")
    | some fi =>
      if fi.isDirectory then neededLoop files wanted rest offset needed
      else
        let offset' := offset + fi.uncompressed
        neededLoop files wanted rest offset' (if wanted.contains idx then some offset' else needed)

/-- `_extract_files_from_folder`: the (name, bytes) written, in order -/
def cutFiles (files : List FileInfo) (wanted : Option (List Nat)) : List Nat → Nat → Bytes → Except Err (List (Str × Bytes))
  | [], _, _ => .ok []
  | idx :: rest, offset, dec =>
    match files[idx]? with
    | none => .error (.other "IndexError")
    | some fi =>
      if !isWanted wanted idx then
        -- not requested: step over its bytes without writing anything
        cutFiles files wanted rest (if fi.isDirectory then offset else offset + fi.uncompressed) dec
      else if fi.isDirectory then cutFiles files wanted rest offset dec
      else if offset + fi.uncompressed > dec.length then .error (.bad7z "exceeds decompressed data bounds")
      else
        match cutFiles files wanted rest (offset + fi.uncompressed) dec with
        | .ok ws => .ok ((fi.filename, (dec.drop offset).take fi.uncompressed) :: ws)
        | .error e => .error e

/-- pack-stream bookkeeping of the folder loop of `extractall` (repaired): every folder owns the next
    `num_pack_streams` pack streams.  (folder index, folder, pack position, pack sizes) per folder. -/
def folderPlan (packSizes : List Nat) (packPos : Nat) : List Folder → Nat → Nat → List (Nat × Folder × Nat × List Nat)
  | [], _, _ => []
  | f :: rest, folderIdx, packIndex =>
    (folderIdx, f, packPos + (packSizes.take packIndex).sum, (packSizes.drop packIndex).take f.numPackStreams)
      :: folderPlan packSizes packPos rest (folderIdx + 1) (packIndex + f.numPackStreams)

/-- previous behaviour: every folder is decoded from the first pack stream, with all pack sizes -/
def folderPlanOld (packSizes : List Nat) (packPos : Nat) : List Folder → Nat → List (Nat × Folder × Nat × List Nat)
  | [], _ => []
  | f :: rest, folderIdx => (folderIdx, f, packPos, packSizes) :: folderPlanOld packSizes packPos rest (folderIdx + 1)

/-- `max_output` for one folder: `some none` = decode everything (`members=None`), `some (some m)` = decode `m`
    bytes (`_needed_output`), `none` = nothing requested from this folder: do not decode it -/
def folderCap (files : List FileInfo) (wanted : Option (List Nat)) (idxs : List Nat) : Except Err (Option (Option Nat)) :=
  match wanted with
  | none => .ok (some none)
  | some w =>
    match neededLoop files w idxs 0 none with
    | .error e => .error e
    | .ok none => .ok none
    | .ok (some m) => .ok (some (some m))

/-- body of the folder loop of `extractall`; `wanted = none` is `members=None` -/
def runPlan (ids : Ids) (c : Codec) (file : Bytes) (r : R) (wanted : Option (List Nat)) :
    List (Nat × Folder × Nat × List Nat) → Except Err (List (Str × Bytes))
  | [] => .ok []
  | (folderIdx, f, pos, sizes) :: rest =>
    match dictGet r.folderToFiles folderIdx with
    | none => runPlan ids c file r wanted rest
    | some idxs =>
      match folderCap r.files wanted idxs with
      | .error e => .error e
      | .ok none => runPlan ids c file r wanted rest
      | .ok (some maxOutput) =>
        match decompressFolder ids c file f pos sizes maxOutput with
        | .error e => .error e
        | .ok dec =>
          match cutFiles r.files wanted idxs 0 dec with
          | .error e => .error e
          | .ok ws =>
            match runPlan ids c file r wanted rest with
            | .error e => .error e
            | .ok ws' => .ok (ws ++ ws')

/-- the empty-file loop of `extractall` -/
def emptyWrites (files : List FileInfo) (wanted : Option (List Nat)) : List Nat → Except Err (List (Str × Bytes))
  | [] => .ok []
  | i :: rest =>
    match files[i]? with
    | none => .error (.other "IndexError")
    | some fi =>
      if !isWanted wanted i then emptyWrites files wanted rest
      else
        match emptyWrites files wanted rest with
        | .ok ws => .ok ((fi.filename, []) :: ws)
        | .error e => .error e

def packPosOf (r : R) : Nat := r.packPositions.head?.getD headerOffset

/-- `extractall(path, source_file, members)`: the list of (member name, bytes) written into the target
    directory, in order.  `wanted` = the indices (in `list()`) of `members`, `none` = everything. -/
def extractAll (ids : Ids) (c : Codec) (file : Bytes) (r : R) (wanted : Option (List Nat) := none) :
    Except Err (List (Str × Bytes)) :=
  match runPlan ids c file r wanted (folderPlan r.packSizes (packPosOf r) r.folders 0 0) with
  | .error e => .error e
  | .ok ws =>
    match emptyWrites r.files wanted r.emptyFileIdx with
    | .error e => .error e
    | .ok es => .ok (ws ++ es)

def extractAllOld (ids : Ids) (c : Codec) (file : Bytes) (r : R) : Except Err (List (Str × Bytes)) :=
  runPlan ids c file r none (folderPlanOld r.packSizes (packPosOf r) r.folders 0)

/-! ### header -/

/-- what distinguishes the repaired reader from the previous one -/
structure Variant where
  decodeName : List Nat → Str
  fixEmpty : Bool
  /-- SubStreamsInfo digests are counted for the streams whose CRC is not known from the folder -/
  digestsKnown : Bool := true
  /-- the External byte of the attributes property is consumed -/
  attrExternal : Bool := true

def fixed : Variant := { decodeName := decodeUtf16, fixEmpty := true }
def previous : Variant := { decodeName := decodeNameOld, fixEmpty := false, digestsKnown := false, attrExternal := false }
/-- the reader before fix-7z-substream-digest-count and fix-7z-attributes-external-byte (otherwise repaired) -/
def legacy : Variant := { fixed with digestsKnown := false, attrExternal := false }

/-- archive properties loop of `_parse_main_header` (`while True: id; if END break; size; skip`).
    Structural: every round consumes at least the id byte. -/
def skipArchiveProps (ids : Ids) (s : Bytes) : Except Err Bytes :=
  match hs : s with
  | [] => .error (.bad7z "Unexpected end of file")
  | pid :: rest =>
    if pid = ids.kEnd then .ok rest
    else
      match hn : readNumber { stream := rest } with
      | .error e => .error e
      | .ok (size, r1) =>
        if r1.stream.length < size then .error (.bad7z "Unexpected end of file")
        else skipArchiveProps ids (r1.stream.drop size)
termination_by s.length
decreasing_by
  have := readNumber_len hn
  simp at this ⊢
  omega

/-- `_parse_main_header` -/
def parseMainHeader (ids : Ids) (v : Variant) : M Unit := do
  let mut propId ← readU8
  if propId = ids.kArchiveProperties then
    let r ← get
    match skipArchiveProps ids r.stream with
    | .error e => (fun _ => .error e : M Unit)
    | .ok rest => set { r with stream := rest }
    propId ← readU8
  if propId = ids.kAdditionalStreamsInfo then
    parseStreamsInfo ids v.digestsKnown
    propId ← readU8
  if propId = ids.kMainStreamsInfo then
    parseStreamsInfo ids v.digestsKnown
    propId ← readU8
  if propId = ids.kFilesInfo then
    parseFilesInfo ids v.decodeName v.fixEmpty v.attrExternal
    propId ← readU8
  if propId ≠ ids.kEnd then bad "Expected END"

/-- `_parse_encoded_header` -/
def parseEncodedHeader (ids : Ids) (c : Codec) (file : Bytes) (known : Bool := true) : M Unit := do
  let packInfo ← parsePackInfo ids
  let unpackInfo ← parseUnpackInfo ids
  match unpackInfo with
  | [] => bad "No unpack info in encoded header"
  | f0 :: _ =>
    let mut propId ← readU8
    if propId = ids.kSubStreamsInfo then
      skipSubstreamsInfo ids known
      propId ← readU8
    if propId ≠ ids.kEnd then bad "Expected END property"
    let (packPos, packSizes) := packInfo.getD (headerOffset, [])
    match decompressFolder ids c file f0 packPos packSizes with
    | .error e => (fun _ => .error e : M Unit)
    | .ok dec => modify fun r => { r with stream := dec }

/-- `_parse_end_header` -/
def parseEndHeader (ids : Ids) (v : Variant) (c : Codec) (file : Bytes) : M Unit := do
  let mut propId ← readU8
  if propId = ids.kEncodedHeader then
    parseEncodedHeader ids c file v.digestsKnown
    propId ← readU8
  if propId = ids.kHeader then
    parseMainHeader ids v
  else if propId ≠ ids.kEnd then bad "Unexpected property ID"

/-- `_parse_header` / `SevenZipReader.__init__`: the reader object after construction -/
def parseHeader (ids : Ids) (v : Variant) (crc : Bytes → Nat) (c : Codec) (file : Bytes) : Except Err R :=
  if file.length < 6 ∨ file.take 6 ≠ ids.magic then .error (.bad7z "Invalid 7z signature")
  else if file.length < 8 then .error (.bad7z "Unexpected end of file")
  else
    let major := file.getD 6 0
    let minor := file.getD 7 0
    if major ≠ 0 ∨ minor > 4 then .error (.bad7z "Unsupported 7z version")
    else if file.length < 32 then .error (.bad7z "Unexpected end of file")
    else
      let startHeaderCrc := leValue ((file.drop 8).take 4)
      let nextHeaderOffset := leValue ((file.drop 12).take 8)
      let nextHeaderSize := leValue ((file.drop 20).take 8)
      let nextHeaderCrc := leValue ((file.drop 28).take 4)
      if crc ((file.drop 12).take 20) ≠ startHeaderCrc then .error (.bad7z "Start header CRC mismatch")
      else
        let headerPos := headerOffset + nextHeaderOffset
        -- `BytesIO.seek` / `read` with an argument that does not fit a C ssize_t
        if headerPos ≥ 2 ^ 63 ∨ nextHeaderSize ≥ 2 ^ 63 then .error (.other "OverflowError")
        else
          let headerData := (file.drop headerPos).take nextHeaderSize
          if headerData.length ≠ nextHeaderSize then .error (.bad7z "Could not read full header")
          else if crc headerData ≠ nextHeaderCrc then .error (.bad7z "Header CRC mismatch")
          else
            match parseEndHeader ids v c file { stream := headerData } with
            | .ok (_, r) => .ok r
            | .error e => .error e

/-- `needs_password` -/
def needsPassword (ids : Ids) (r : R) : Bool :=
  r.folders.any fun f => f.coders.any fun cd => isPrefix ids.aesPrefix cd.id

end S2T.SevenZip
