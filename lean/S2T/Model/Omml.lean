/-
Model of sharepoint2text/parsing/extractors/util/omml_to_latex.py (`convert_greek_and_symbols`,
`omml_to_latex` with its nested `process_element`), core Lean only.

* An element is `Xml.node mns name val text kids`: `mns` = the tag is in the OMML namespace `M_NS`,
  `name` = `elem.tag.split("}")[-1]`, `val` = `elem.get(M_NS + "val")`, `text` = `elem.text or ""`,
  `kids` = `list(elem)`.  Nothing else of an element is read by the code.
* `process_element(elem)` reads and writes the enclosing `pending_sqrt_close`; here it is a state
  transformer `M = Stack → Out × Stack` (`Stack` = the list of pending closing brackets, innermost first).
* An output character carries a flag: `true` = it comes from a run's text (`m:t`), `false` = it is
  template text or comes from an attribute.  `render` forgets the flags and is what the real function
  returns; the flags only serve to *state* "every run's text is emitted once, in order".
* `elem.find(...)` followed by `process_element(found)` is not structurally recursive on the tree, so
  the recursion (`info`/`infos`) first computes, for every child, its record `R` (tag, its transformer,
  the transformers of its own `m:e` children) and the per-tag templates pick from that list.
  `S2T.Omml.infos_eq_map` (Lemmas) shows this is the same thing as mapping `info` over the children.
* Tables (`GREEK_TO_LATEX`, `_SKIP_TAGS`, `op_map`, `func_map`, `accent_map`, `bracket_map`, the
  code points with `str.isspace()`) are parameters; the generated instance is `S2T.Gen.Omml.tables`.
-/
namespace S2T.Omml

abbrev Str := List Char
abbrev TC := Char × Bool
abbrev Out := List TC
abbrev Stack := List Char
abbrev M := Stack → Out × Stack

inductive Xml where
  | node (mns : Bool) (name : Str) (val : Option Str) (text : Str) (kids : List Xml) : Xml

def Xml.mns : Xml → Bool | .node m _ _ _ _ => m
def Xml.name : Xml → Str | .node _ n _ _ _ => n
def Xml.val : Xml → Option Str | .node _ _ v _ _ => v
def Xml.text : Xml → Str | .node _ _ _ t _ => t
def Xml.kids : Xml → List Xml | .node _ _ _ _ k => k

structure Tables where
  greek : List (Char × Str)        -- GREEK_TO_LATEX
  skip : List Str                  -- _SKIP_TAGS
  naryOps : List (Str × Str)       -- op_map
  funcs : List (Str × Str)         -- func_map
  accents : List (Str × Str)       -- accent_map
  opens : List Str                 -- the tuple ("(", "[", "{") tested in the m:rad branch
  brackets : List (Str × Char)     -- bracket_map (values are single characters)
  spaces : List Nat                -- code points c with chr(c).isspace()

/-- `dict.get` on an association list. -/
def lookup {α β} [DecidableEq α] (k : α) : List (α × β) → Option β
  | [] => none
  | (k', v) :: r => if k = k' then some v else lookup k r

def lit (s : Str) : Out := s.map (fun c => (c, false))
def run (s : Str) : Out := s.map (fun c => (c, true))
def render (o : Out) : Str := o.map (·.1)
/-- the characters of the output that come from run text, in output order -/
def runsOf (o : Out) : Str := (o.filter (·.2)).map (·.1)

/-- one character of `convert_greek_and_symbols` -/
def conv1 (T : Tables) (c : Char) : Str :=
  match lookup c T.greek with
  | some v => v
  | none => [c]

/-- `convert_greek_and_symbols` -/
def convert (T : Tables) (s : Str) : Str := s.flatMap (conv1 T)

/-! ### str.strip / partition -/
def isSp (T : Tables) (x : TC) : Bool := T.spaces.contains x.1.toNat
def lstrip (T : Tables) (o : Out) : Out := o.dropWhile (isSp T)
def strip (T : Tables) (o : Out) : Out := ((lstrip T o).reverse.dropWhile (isSp T)).reverse

/-- `s.partition(c)` when `c in s`: (before, after) of the first occurrence. -/
def splitFirst (c : Char) : Out → Option (Out × Out)
  | [] => none
  | x :: r => if x.1 = c then some ([], r) else (splitFirst c r).map (fun p => (x :: p.1, p.2))

/-- the `while pending and pending[-1] in converted` loop of the `t` branch -/
def closeLoop : Stack → Out → Out × Stack
  | [], o => (o, [])
  | c :: st, o =>
    match splitFirst c o with
    | none => (o, c :: st)
    | some (a, b) =>
      let r := closeLoop st b
      (a ++ ('}', false) :: r.1, r.2)

/-! ### element records -/
structure R where
  mns : Bool
  name : Str
  run : M
  cells : List M      -- transformers of this element's own `m:e` children (`mr.findall(M_NS+"e")`)

def ret (o : Out) : M := fun s => (o, s)

def isTagR (n : Str) (r : R) : Bool := r.mns && decide (r.name = n)
def isTag (n : Str) (x : Xml) : Bool := x.mns && decide (x.name = n)

/-- `process_element(elem.find(M_NS + n))` -/
def opnd (n : Str) (rs : List R) : M :=
  match rs.find? (isTagR n) with
  | some r => r.run
  | none => ret []

/-- `[process_element(x) for x in xs]` with the state threaded left to right -/
def seqAll : List M → Stack → List Out × Stack
  | [], s => ([], s)
  | f :: fs, s =>
    let r := f s
    let rs := seqAll fs r.2
    (r.1 :: rs.1, rs.2)

/-- `sep.join(parts)` -/
def joinTail (sep : Out) (r : List Out) : Out := (r.map (fun y => sep ++ y)).flatten
def joinWith (sep : Out) : List Out → Out
  | [] => []
  | x :: r => x ++ joinTail sep r

/-- `elem.find(M_NS+a + "/" + M_NS+b)` -/
def pathFind (a b : Str) (kids : List Xml) : Option Xml :=
  ((kids.filter (isTag a)).flatMap (·.kids)).find? (isTag b)

/-- `x.get(M_NS+"val", d) if x is not None else d` -/
def attrOr (d : Str) : Option Xml → Str
  | none => d
  | some x => x.val.getD d

/-! ### tag names and template text -/
def n_t : Str := ['t']
def n_f : Str := ['f']
def n_num : Str := ['n','u','m']
def n_den : Str := ['d','e','n']
def n_e : Str := ['e']
def n_sup : Str := ['s','u','p']
def n_sub : Str := ['s','u','b']
def n_sSup : Str := ['s','S','u','p']
def n_sSub : Str := ['s','S','u','b']
def n_sSubSup : Str := ['s','S','u','b','S','u','p']
def n_rad : Str := ['r','a','d']
def n_deg : Str := ['d','e','g']
def n_nary : Str := ['n','a','r','y']
def n_naryPr : Str := ['n','a','r','y','P','r']
def n_chr : Str := ['c','h','r']
def n_d : Str := ['d']
def n_dPr : Str := ['d','P','r']
def n_begChr : Str := ['b','e','g','C','h','r']
def n_endChr : Str := ['e','n','d','C','h','r']
def n_m : Str := ['m']
def n_mr : Str := ['m','r']
def n_func : Str := ['f','u','n','c']
def n_fName : Str := ['f','N','a','m','e']
def n_bar : Str := ['b','a','r']
def n_acc : Str := ['a','c','c']
def n_accPr : Str := ['a','c','c','P','r']

def s_frac : Str := ['\\','f','r','a','c','{']
def s_mid : Str := ['}','{']
def s_close : Str := ['}']
def s_open : Str := ['{']
def s_supO : Str := ['^','{']
def s_subO : Str := ['_','{']
def s_subsup : Str := ['}','^','{']
def s_sqrtB : Str := ['\\','s','q','r','t','[']
def s_sqrtBmid : Str := [']','{']
def s_sqrt : Str := ['\\','s','q','r','t','{']
def s_space : Str := [' ']
def s_comma : Str := [',',' ']
def s_amp : Str := [' ','&',' ']
def s_rowsep : Str := [' ','\\','\\',' ']
def s_begin : Str := ['\\','b','e','g','i','n','{','m','a','t','r','i','x','}']
def s_end : Str := ['\\','e','n','d','{','m','a','t','r','i','x','}']
def s_overline : Str := ['\\','o','v','e','r','l','i','n','e','{']
def s_hat : Str := ['\\','h','a','t']
def d_nary : Str := ['∑']
def d_beg : Str := ['(']
def d_end : Str := [')']
def d_acc : Str := ['^']
def d_closer : Char := ')'

/-! ### per-tag templates (one per `if tag == …` block) -/

/-- `t`: converted text, closing pending radicals where their bracket shows up -/
def tText (T : Tables) (text : Str) : M := fun s => closeLoop s (run (convert T text))

def tFrac (a b : M) : M := fun s =>
  let x := a s
  let y := b x.2
  (lit s_frac ++ x.1 ++ lit s_mid ++ y.1 ++ lit s_close, y.2)

def tSup (a b : M) : M := fun s =>
  let x := a s
  let y := b x.2
  (x.1 ++ lit s_supO ++ y.1 ++ lit s_close, y.2)

def tSub (a b : M) : M := fun s =>
  let x := a s
  let y := b x.2
  (x.1 ++ lit s_subO ++ y.1 ++ lit s_close, y.2)

def tSubSup (a b c : M) : M := fun s =>
  let x := a s
  let y := b x.2
  let z := c y.2
  (x.1 ++ lit s_subO ++ y.1 ++ lit s_subsup ++ z.1 ++ lit s_close, z.2)

/-- `\sqrt[deg]{` or `\sqrt{` -/
def radHead (dg : Out) : Out :=
  if dg = [] then lit s_sqrt else lit s_sqrtB ++ dg ++ lit s_sqrtBmid

/-- `m:rad` (degree first, then content; a content that is just an opening bracket opens a pending radical) -/
def tRad (T : Tables) (deg content : M) : M := fun s =>
  let d := deg s
  let dg := strip T d.1
  let c := content d.2
  let key := render (strip T c.1)
  if T.opens.contains key then
    (radHead dg, ((lookup key T.brackets).getD d_closer) :: c.2)
  else
    (radHead dg ++ c.1 ++ lit s_close, c.2)

def naryOp (T : Tables) (op : Str) : Str := (lookup op T.naryOps).getD (convert T op)

def limit (T : Tables) (o : Str) (x : Out) : Out :=
  if strip T x = [] then [] else lit o ++ x ++ lit s_close

def tNary (T : Tables) (op : Str) (sub sup content : M) : M := fun s =>
  let a := sub s
  let b := sup a.2
  let c := content b.2
  (lit (naryOp T op) ++ limit T s_subO a.1 ++ limit T s_supO b.1 ++ lit s_space ++ c.1, c.2)

def tDelim (left right : Str) (es : List M) : M := fun s =>
  let r := seqAll es s
  (lit left ++ joinWith (lit s_comma) r.1 ++ lit right, r.2)

def rowM (cells : List M) : M := fun s =>
  let r := seqAll cells s
  (joinWith (lit s_amp) r.1, r.2)

def tMatrix (rows : List (List M)) : M := fun s =>
  let r := seqAll (rows.map rowM) s
  (lit s_begin ++ joinWith (lit s_rowsep) r.1 ++ lit s_end, r.2)

/-- `func_map.get(fname_text.strip(), fname_text)`; when the table value is the key with a leading
    backslash, the key characters keep their run flags (same rendering either way) -/
def funcName (T : Tables) (fname : Out) : Out :=
  let st := strip T fname
  match lookup (render st) T.funcs with
  | some v => if v = '\\' :: render st then ('\\', false) :: st else lit v
  | none => fname

def tFunc (T : Tables) (fname content : M) : M := fun s =>
  let a := fname s
  let c := content a.2
  (funcName T a.1 ++ lit s_open ++ c.1 ++ lit s_close, c.2)

def tBar (content : M) : M := fun s =>
  let c := content s
  (lit s_overline ++ c.1 ++ lit s_close, c.2)

def accentCmd (T : Tables) (a : Str) : Str := (lookup a T.accents).getD s_hat

def tAcc (T : Tables) (accent : Str) (content : M) : M := fun s =>
  let c := content s
  (lit (accentCmd T accent) ++ lit s_open ++ c.1 ++ lit s_close, c.2)

/-- default: `"".join(process_element(child) for child in elem)` -/
def tDefault (ks : List M) : M := fun s =>
  let r := seqAll ks s
  (r.1.flatten, r.2)

/-- which `if tag == …` block of `process_element` an element reaches (tests in source order) -/
inductive Kind where
  | skip | text | frac | sup | sub | subsup | rad | nary | delim | matrix | func | bar | acc | other
  deriving DecidableEq, Repr

/-- the tests after `t`, in source order -/
def kindRest (name : Str) (hasMr : Bool) : Kind :=
  if name = n_f then .frac
  else if name = n_sSup then .sup
  else if name = n_sSub then .sub
  else if name = n_sSubSup then .subsup
  else if name = n_rad then .rad
  else if name = n_nary then .nary
  else if name = n_d then .delim
  else if name = n_m ∧ hasMr = true then .matrix
  else if name = n_func then .func
  else if name = n_bar then .bar
  else if name = n_acc then .acc
  else .other

def kindOf (T : Tables) (name : Str) (hasMr : Bool) : Kind :=
  if T.skip.contains name then .skip
  else if name = n_t then .text
  else kindRest name hasMr

/-- the body of `process_element` for an element, given the records of its children -/
def procNode (T : Tables) (name : Str) (text : Str) (kids : List Xml) (rs : List R) : M :=
  match kindOf T name (rs.find? (isTagR n_mr)).isSome with
  | .skip => ret []
  | .text => tText T text
  | .frac => tFrac (opnd n_num rs) (opnd n_den rs)
  | .sup => tSup (opnd n_e rs) (opnd n_sup rs)
  | .sub => tSub (opnd n_e rs) (opnd n_sub rs)
  | .subsup => tSubSup (opnd n_e rs) (opnd n_sub rs) (opnd n_sup rs)
  | .rad => tRad T (opnd n_deg rs) (opnd n_e rs)
  | .nary =>
    tNary T (attrOr d_nary (pathFind n_naryPr n_chr kids)) (opnd n_sub rs) (opnd n_sup rs) (opnd n_e rs)
  | .delim =>
    tDelim (attrOr d_beg (pathFind n_dPr n_begChr kids)) (attrOr d_end (pathFind n_dPr n_endChr kids))
      ((rs.filter (isTagR n_e)).map (·.run))
  | .matrix => tMatrix ((rs.filter (isTagR n_mr)).map (·.cells))
  | .func => tFunc T (opnd n_fName rs) (opnd n_e rs)
  | .bar => tBar (opnd n_e rs)
  | .acc => tAcc T (attrOr d_acc (pathFind n_accPr n_chr kids)) (opnd n_e rs)
  | .other => tDefault (rs.map (·.run))

mutual
/-- record of an element: its tag, `process_element` on it, and the transformers of its `m:e` children -/
def info (T : Tables) : Xml → R
  | .node mns name _ text kids =>
    let rs := infos T kids
    { mns := mns, name := name,
      run := procNode T name text kids rs,
      cells := (rs.filter (isTagR n_e)).map (·.run) }
def infos (T : Tables) : List Xml → List R
  | [] => []
  | k :: ks => info T k :: infos T ks
end

/-- `process_element(elem)` -/
def proc (T : Tables) (x : Xml) : M := (info T x).run

/-- `omml_to_latex(root)`: the root's own tag is not looked at; its children are processed in order and
    every radical still pending is closed at the end. -/
def ommlOut (T : Tables) (root : Xml) : Out :=
  let r := seqAll ((infos T root.kids).map (·.run)) []
  r.1.flatten ++ lit (List.replicate r.2.length '}')

def omml (T : Tables) (root : Xml) : Str := render (ommlOut T root)

end S2T.Omml
