/-
C06 model of the XLSX "missing date = current time" guard.

openpyxl takes the core properties from ONE part (`libPart`, its constant ARC_CORE) and substitutes the current
time for a date that part does not state (and for both dates when the part is missing).  The extractor therefore
asks a guard which dates the document really states and reports "" for the others.  The result is a function of
the package alone exactly when the guard looks at the part openpyxl reads; a guard that finds "the" core-properties
part some other way (through the package relationship, say) is wrong on every package where the two differ.
-/
namespace S2T.CoreDates

/-- what a core-properties part states -/
structure Core where
  created : Option String
  modified : Option String
  deriving Repr, DecidableEq

/-- a package as far as core properties go: part name ↦ the (well-formed) core-properties part of that name -/
abbrev Pkg := String → Option Core

/-- openpyxl: `created or now`, `modified or now`, `DocumentProperties()` when the part is missing -/
def libProps (libPart : String) (pkg : Pkg) (now : String) : String × String :=
  match pkg libPart with
  | none => (now, now)
  | some c => (c.created.getD now, c.modified.getD now)

/-- `_core_dates_present`: which dates does the part the guard looks at state -/
def dateGuard (guardPart : Pkg → String) (pkg : Pkg) : Bool × Bool :=
  match pkg (guardPart pkg) with
  | none => (false, false)
  | some c => (c.created.isSome, c.modified.isSome)

/-- `_extract_metadata_from_workbook`: (metadata.created, metadata.modified) -/
def dates (guardPart : Pkg → String) (libPart : String) (pkg : Pkg) (now : String) : String × String :=
  let p := libProps libPart pkg now
  let g := dateGuard guardPart pkg
  (if g.1 then p.1 else "", if g.2 then p.2 else "")

/-- what the document states, the specification of `dates` -/
def stated (libPart : String) (pkg : Pkg) : String × String :=
  match pkg libPart with
  | none => ("", "")
  | some c => (c.created.getD "", c.modified.getD "")

/-- association-list packages (driver, examples) -/
def ofList (l : List (String × Core)) : Pkg := fun n => l.lookup n

end S2T.CoreDates
