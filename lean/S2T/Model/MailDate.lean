/-!
# C16 — the Date header: from the header value to the ISO date of the result

`parse_email_message` (mbox extractor) computes
`parsedate_to_datetime(decode_header_value(message.get("Date"))).isoformat()`.

* `Stamp` — what a Date header denotes (RFC 5322 3.3): the local date and time of day, and the zone **as written**:
  `some z` = `z` minutes east of UTC, `none` = the zone `-0000` ("UTC, no information about the local zone").
* `iso` — `datetime.isoformat()` of that value: `YYYY-MM-DDTHH:MM:SS`, followed by `±HH:MM` exactly when the
  datetime is aware; a naive datetime (`-0000`) prints no offset.
* `ofTuple` — `parsedate_to_datetime` after the stdlib's tokenizer `_parsedate_tz` (an input: the 6 fields + the
  zone in seconds or `None`): `datetime.datetime(...)` / `datetime.timezone(...)` with their range checks.
* `render` / `parseCanonical` — the canonical RFC 5322 form `Www, DD Mon YYYY HH:MM:SS ±HHMM` (what
  `email.utils.format_datetime` / `formatdate` write) and its reading at fixed positions; `isoOfHeader` = the whole
  pipeline on a canonical header.
-/
namespace S2T.MailDate

abbrev Str := List Char

structure Stamp where
  year : Nat
  month : Nat
  day : Nat
  hour : Nat
  minute : Nat
  second : Nat
  /-- minutes east of UTC as written; `none` = `-0000` (naive) -/
  zone : Option Int
deriving DecidableEq, Repr

inductive DateErr
  /-- `datetime.datetime(...)`: "year/month/day/hour/minute/second is out of range" (`ValueError`) -/
  | fieldRange
  /-- `datetime.timezone(...)`: offset not strictly between -24 h and 24 h (`ValueError`) -/
  | zoneRange
  /-- `_parsedate_tz` returned `None` (`ValueError: Invalid date value or format`) -/
  | invalid
deriving DecidableEq, Repr

def digit : Nat → Char
  | 0 => '0' | 1 => '1' | 2 => '2' | 3 => '3' | 4 => '4' | 5 => '5' | 6 => '6' | 7 => '7' | 8 => '8' | _ => '9'

def digitVal? (c : Char) : Option Nat :=
  if c = '0' then some 0 else if c = '1' then some 1 else if c = '2' then some 2 else if c = '3' then some 3
  else if c = '4' then some 4 else if c = '5' then some 5 else if c = '6' then some 6 else if c = '7' then some 7
  else if c = '8' then some 8 else if c = '9' then some 9 else none

def pad2 (n : Nat) : Str := [digit (n / 10), digit (n % 10)]
def pad4 (n : Nat) : Str := [digit (n / 1000), digit (n / 100 % 10), digit (n / 10 % 10), digit (n % 10)]

def num2 (a b : Char) : Option Nat := do
  let x ← digitVal? a
  let y ← digitVal? b
  pure (10 * x + y)

def num4 (a b c d : Char) : Option Nat := do
  let x ← num2 a b
  let y ← num2 c d
  pure (100 * x + y)

/-! ## `datetime.isoformat()` -/

/-- the date and time of day: `YYYY-MM-DDTHH:MM:SS` (19 characters) -/
def isoLocal (s : Stamp) : Str :=
  pad4 s.year ++ ['-'] ++ pad2 s.month ++ ['-'] ++ pad2 s.day ++ ['T'] ++ pad2 s.hour ++ [':'] ++ pad2 s.minute ++
    [':'] ++ pad2 s.second

/-- the UTC offset of an aware datetime: `±HH:MM`; nothing for a naive one -/
def isoOffset : Option Int → Str
  | none => []
  | some z => [if z < 0 then '-' else '+'] ++ pad2 (z.natAbs / 60) ++ [':'] ++ pad2 (z.natAbs % 60)

def iso (s : Stamp) : Str := isoLocal s ++ isoOffset s.zone

/-! ## `datetime.datetime(...)`, `datetime.timezone(...)` -/

def isLeap (y : Nat) : Bool := y % 4 == 0 && (y % 100 != 0 || y % 400 == 0)

def daysIn (y m : Nat) : Nat :=
  if m = 2 then (if isLeap y then 29 else 28) else if m = 4 ∨ m = 6 ∨ m = 9 ∨ m = 11 then 30 else 31

/-- the fields `datetime.datetime` accepts -/
def FieldsOk (s : Stamp) : Prop :=
  1 ≤ s.year ∧ s.year ≤ 9999 ∧ 1 ≤ s.month ∧ s.month ≤ 12 ∧ 1 ≤ s.day ∧ s.day ≤ daysIn s.year s.month ∧
  s.hour < 24 ∧ s.minute < 60 ∧ s.second < 60

instance (s : Stamp) : Decidable (FieldsOk s) := by unfold FieldsOk; exact inferInstance

/-- the offsets `datetime.timezone` accepts (strictly between -24 h and +24 h), in minutes -/
def ZoneOk : Option Int → Prop
  | none => True
  | some z => z.natAbs < 1440

instance (z : Option Int) : Decidable (ZoneOk z) := by cases z <;> unfold ZoneOk <;> exact inferInstance

def WF (s : Stamp) : Prop := FieldsOk s ∧ ZoneOk s.zone
instance (s : Stamp) : Decidable (WF s) := by unfold WF; exact inferInstance

/-- `parsedate_to_datetime(...).isoformat()` after the tokenizer: the range checks, then the ISO text.
    (`datetime.datetime(...)` is evaluated first, then `datetime.timezone(...)`.) -/
def isoChecked (s : Stamp) : Except DateErr Str :=
  if ¬ FieldsOk s then .error .fieldRange
  else if ¬ ZoneOk s.zone then .error .zoneRange
  else .ok (iso s)

/-- the stdlib tokenizer's result: the six fields and the zone in SECONDS (`None` for `-0000`); the tokenizer only
    produces whole minutes (`(tz // 100) * 3600 + (tz % 100) * 60`) -/
def ofTuple (y mo d h mi sec : Nat) (tzSeconds : Option Int) : Except DateErr Str :=
  isoChecked { year := y, month := mo, day := d, hour := h, minute := mi, second := sec,
               zone := tzSeconds.map (· / 60) }

/-! ## the canonical RFC 5322 form -/

def monthChars : Nat → Char × Char × Char
  | 1 => ('J', 'a', 'n') | 2 => ('F', 'e', 'b') | 3 => ('M', 'a', 'r') | 4 => ('A', 'p', 'r')
  | 5 => ('M', 'a', 'y') | 6 => ('J', 'u', 'n') | 7 => ('J', 'u', 'l') | 8 => ('A', 'u', 'g')
  | 9 => ('S', 'e', 'p') | 10 => ('O', 'c', 't') | 11 => ('N', 'o', 'v') | 12 => ('D', 'e', 'c')
  | _ => ('?', '?', '?')

def monthOf (a b c : Char) : Option Nat :=
  ([1, 2, 3, 4, 5, 6, 7, 8, 9, 10, 11, 12] : List Nat).find? (fun m => monthChars m == (a, b, c))

/-- the zone as RFC 5322 writes it: `±HHMM`, and `-0000` for "no zone information" -/
def zoneText : Option Int → Str
  | none => ['-', '0', '0', '0', '0']
  | some z => [if z < 0 then '-' else '+'] ++ pad2 (z.natAbs / 60) ++ pad2 (z.natAbs % 60)

/-- the zone a written `±HHMM` denotes: `-0000` is "no information", every other value an offset -/
def zoneOf (sg : Char) (h m : Nat) : Option (Option Int) :=
  if sg = '-' then (if h = 0 ∧ m = 0 then some none else some (some (-(Int.ofNat (60 * h + m)))))
  else if sg = '+' then some (some (Int.ofNat (60 * h + m)))
  else none

/-- `Www, DD Mon YYYY HH:MM:SS ±HHMM` for any three characters of day name -/
def render (w1 w2 w3 : Char) (s : Stamp) : Str :=
  [w1, w2, w3, ',', ' '] ++ pad2 s.day ++
    [' ', (monthChars s.month).1, (monthChars s.month).2.1, (monthChars s.month).2.2, ' '] ++ pad4 s.year ++ [' '] ++
    pad2 s.hour ++ [':'] ++ pad2 s.minute ++ [':'] ++ pad2 s.second ++ [' '] ++ zoneText s.zone

/-- the stdlib's reading of a year below 100 (RFC 5322 4.3, obsolete two-digit years): 00..68 are 2000..2068,
    69..99 are 1969..1999 — applied to the VALUE, so also to `0069`; RFC 5322 itself only knows years >= 1900 -/
def yearOf (y : Nat) : Nat := if y < 69 then y + 2000 else if y < 100 then y + 1900 else y

/-- reading of the canonical form at fixed positions (the day name is not interpreted, as in the stdlib) -/
def parseCanonical : Str → Option Stamp
  | [_, _, _, ',', ' ', d1, d2, ' ', m1, m2, m3, ' ', y1, y2, y3, y4, ' ', h1, h2, ':', i1, i2, ':', s1, s2, ' ',
     sg, z1, z2, z3, z4] => do
    let d ← num2 d1 d2
    let mo ← monthOf m1 m2 m3
    let y ← num4 y1 y2 y3 y4
    let h ← num2 h1 h2
    let mi ← num2 i1 i2
    let sec ← num2 s1 s2
    let zh ← num2 z1 z2
    let zm ← num2 z3 z4
    let z ← zoneOf sg zh zm
    pure { year := yearOf y, month := mo, day := d, hour := h, minute := mi, second := sec, zone := z }
  | _ => none

/-- the ISO date of a message whose Date header has the canonical form -/
def isoOfHeader (hdr : Str) : Except DateErr Str :=
  match parseCanonical hdr with
  | none => .error .invalid
  | some s => isoChecked s

/-! ## reading an ISO date back (used to state that nothing is lost) -/

def offsetOf (sg : Char) (h m : Nat) : Option Int :=
  if sg = '-' then some (-(Int.ofNat (60 * h + m))) else if sg = '+' then some (Int.ofNat (60 * h + m)) else none

def parseIsoLocal (y1 y2 y3 y4 o1 o2 d1 d2 h1 h2 i1 i2 s1 s2 : Char) (z : Option Int) : Option Stamp := do
  let y ← num4 y1 y2 y3 y4
  let mo ← num2 o1 o2
  let d ← num2 d1 d2
  let h ← num2 h1 h2
  let mi ← num2 i1 i2
  let sec ← num2 s1 s2
  pure { year := y, month := mo, day := d, hour := h, minute := mi, second := sec, zone := z }

def parseIso : Str → Option Stamp
  | [y1, y2, y3, y4, '-', o1, o2, '-', d1, d2, 'T', h1, h2, ':', i1, i2, ':', s1, s2] =>
    parseIsoLocal y1 y2 y3 y4 o1 o2 d1 d2 h1 h2 i1 i2 s1 s2 none
  | [y1, y2, y3, y4, '-', o1, o2, '-', d1, d2, 'T', h1, h2, ':', i1, i2, ':', s1, s2, sg, z1, z2, ':', z3, z4] => do
    let zh ← num2 z1 z2
    let zm ← num2 z3 z4
    let z ← offsetOf sg zh zm
    parseIsoLocal y1 y2 y3 y4 o1 o2 d1 d2 h1 h2 i1 i2 s1 s2 (some z)
  | _ => none

end S2T.MailDate
