/-!
Compressed streams whose own trailer / header understates what they expand to (C12: "members above the per-member limit are
skipped without being decompressed into memory").

A gzip file is a sequence of gzip MEMBERS (RFC 1952 §2.2); `gzip.decompress`, `GzipFile.read`, `zlib` with `wbits=31` in a loop
and `tarfile` all inflate every member.  The trailer of the FILE is the trailer of its LAST member: ISIZE = the size of that member's
content mod 2^32.  (bz2 and xz files are sequences of streams in the same way; xz carries sizes per block in an index, bz2 none.)
A stream is modelled by the content sizes of its members.  Core Lean only.
-/
namespace S2T.Inflate

/-- content sizes of the members, first member first -/
abbrev Stream := List Nat

def inflated (s : Stream) : Nat := s.sum

/-- the ISIZE field at the end of the file -/
def isize (s : Stream) : Nat := (s.getLast?.getD 0) % 2 ^ 32

/-- how a site that turns a whole stream into bytes decides and reads -/
inductive Policy
  | oneShotNoGuard                 -- `gzip.decompress(data)`
  | oneShotTrailerGuard            -- skip if ISIZE > limit, else `gzip.decompress(data)`
  | boundedRead                    -- `GzipFile(...).read(limit + 1)`, skip if more than `limit` bytes came out
deriving Repr, DecidableEq

/-- bytes the site holds in memory at its peak for the stream -/
def produced (p : Policy) (limit : Nat) (s : Stream) : Nat :=
  match p with
  | .oneShotNoGuard => inflated s
  | .oneShotTrailerGuard => if isize s > limit then 0 else inflated s
  | .boundedRead => min (limit + 1) (inflated s)

/-- is the content handed on to an extractor? -/
def handedOn (p : Policy) (limit : Nat) (s : Stream) : Bool :=
  match p with
  | .oneShotNoGuard => true
  | .oneShotTrailerGuard => !(isize s > limit)
  | .boundedRead => inflated s ≤ limit

/-- classification of the generated inventory: a site is `one-shot` (a module-level decompress function: the whole stream),
    or yields through an object; a yield is covered by a member loop's test (`member` / `members` / explicit `n`) or not -/
def siteUnbounded (site : String × String × String × String) : Bool :=
  site.2.1 == "one-shot" || (site.2.1 == "yield" && site.2.2.2 == "none")

end S2T.Inflate
