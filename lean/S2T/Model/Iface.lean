/-!
# C04 — the common interface (model of `parsing/extractors/data_types.py` accessors)

Core Lean only.  One section per clause of the property:

* tables:    `get_table` / `get_dim` of every `TableInterface` class;
* numbers:   kinds of expressions found at the constructor call sites (inventory types);
* images:    `get_bytes` over a stream with an explicit position, `size_bytes` as set by the constructor sites;
* path:      `FileMetadataInterface.populate_from_path` over a model of `pathlib.PurePosixPath`
             (`exists()`/`resolve()` are the OS: parameters);
* unicode:   strings as lists of code points (surrogates representable); the RTF `\uN` decoding and the
             surrogate repair of the fixed `_strip_rtf_*`;
* metadata:  the document-property readers over an XML tree.
-/
namespace S2T.Iface

/-! ## (i) tables -/

structure Dim where
  rows : Nat
  columns : Nat
deriving DecidableEq, Repr

/-- `max((len(row) for row in data), default=0)` -/
def maxLen {α : Type} : List (List α) → Nat
  | [] => 0
  | r :: rs => max r.length (maxLen rs)

/-- `TableData/XlsxSheet/OdsSheet/OdtTable/RtfTable.get_dim` : `rows = len(self.data)`, `columns = max(len(row) …, default=0)`;
`get_table` of these classes returns `self.data` itself. -/
def dimOfData {α : Type} (data : List (List α)) : Dim := ⟨data.length, maxLen data⟩

/-- a cell of `XlsSheet.get_table()`: a header (key), a value, or `None` (`row.get(header)` of a missing key) -/
inductive XCell (κ ν : Type) where
  | key (k : κ) | val (v : ν) | none
deriving DecidableEq, Repr

/-- `dict.get` on an insertion-ordered association list -/
def dictGet {κ ν : Type} [DecidableEq κ] : List (κ × ν) → κ → Option ν
  | [], _ => Option.none
  | (k', v) :: rest, k => if k' = k then some v else dictGet rest k

/-- `XlsSheet.get_table`: `[]` for no data; else `[headers] + [[row.get(h) for h in headers] for row in data]`
with `headers = list(data[0].keys())`. -/
def xlsGetTable {κ ν : Type} [DecidableEq κ] : List (List (κ × ν)) → List (List (XCell κ ν))
  | [] => []
  | first :: rest =>
    let headers := first.map (·.1)
    (headers.map XCell.key) ::
      ((first :: rest).map fun row => headers.map fun h =>
        match dictGet row h with
        | some v => XCell.val v
        | Option.none => XCell.none)

/-- `XlsSheet.get_dim`: computed from `self.get_table()` -/
def xlsGetDim {κ ν : Type} [DecidableEq κ] (data : List (List (κ × ν))) : Dim := dimOfData (xlsGetTable data)

/-- how a table class computes its table / dimension (assigned per class name, see `tableKind`) -/
inductive TableKind where
  | dataIsTable      -- get_table = self.data, get_dim from self.data
  | xlsDicts         -- XlsSheet
deriving DecidableEq, Repr

def tableKind : String → Option TableKind
  | "TableData" | "XlsxSheet" | "OdsSheet" | "OdtTable" | "RtfTable" => some .dataIsTable
  | "XlsSheet" => some .xlsDicts
  | _ => none

/-! ## inventories (types of the generated data) -/

inductive Role where
  | result | unit | image | table
deriving DecidableEq, Repr

def requiredAccessors : Role → List String
  | .result => ["iterate_units", "iterate_images", "iterate_tables", "get_full_text", "get_metadata"]
  | .unit => ["get_text", "get_images", "get_tables", "get_metadata"]
  | .image => ["get_bytes", "get_content_type", "get_caption", "get_description", "get_metadata"]
  | .table => ["get_table", "get_dim"]

/-- what an accessor reports for a number: a stored field, a field only when positive (else `None`), a constant, `None` -/
inductive Reported where
  | field (f : String) | fieldIfPos (f : String) | const (k : Nat) | none | other
deriving DecidableEq, Repr

inductive PayloadKind where
  | stream | bytes | otherKind
deriving DecidableEq, Repr

structure ImageClass where
  name : String
  imageNumber : Reported
  unitNumber : Reported
  hasSize : Bool
  payload : String
  payloadKind : PayloadKind
deriving DecidableEq, Repr

/-- role of a number field: a unit number, an image number, an image's optional unit number
(`unitOptPos`: the accessor maps non-positive values to `None`) -/
inductive NumRole where
  | unit | image | unitOpt | unitOptPos
deriving DecidableEq, Repr

/-- the expression a constructor site gives for a number field -/
inductive ExprKind where
  | none                      -- `None`
  | const (k : Nat)
  | dflt (k : Nat)            -- keyword absent: dataclass default
  | enumFrom (start : Nat)    -- loop variable of `enumerate(xs, start)`
  | counter                   -- `c = 0 … c += 1` incremented before the use
  | succ                      -- `nonneg + k`, `k ≥ 1`  (`len(xs) + 1`, `idx + 1`)
  | copy (field : String)     -- copy of another object's number field
  | call (fn : String)        -- value of a helper function
  | other (why : String)
deriving DecidableEq, Repr

structure NumberSite where
  file : String
  line : Nat
  cls : String
  field : String
  role : NumRole
  kinds : List ExprKind       -- all alternatives (conditional expressions)
deriving Repr

inductive SizeKind where
  | absent                    -- neither payload nor size given: defaults (no payload, size 0)
  | lenOfPayload              -- `size_bytes=len(v)` with payload `v` / `io.BytesIO(v)`
  | copyOfImage               -- `data=im.data, size_bytes=im.size_bytes` of one image object of the same class
  | other (why : String)
deriving DecidableEq, Repr

structure SizeSite where
  file : String
  line : Nat
  cls : String
  kind : SizeKind
deriving Repr

/-- fields that hold numbers of the same kind in another object (what a `copy` may read) -/
def numberFieldNames : List String :=
  ["unit_number", "image_number", "slide_number", "page_number", "sheet_number", "sheet_index", "chapter_number",
   "image_index", "index", "unit_name", "unit_index"]

/-- helper functions whose value is used as a number, with a model below -/
def knownPositiveCalls : List String := ["_get_page_for_position"]

/-- is the value of this expression acceptable for the role?  (`some 0`-free; `None` only where the role allows) -/
def kindOk (role : NumRole) : ExprKind → Bool
  | .none => role == .unitOpt || role == .unitOptPos
  | .const k => k ≥ 1 || role == .unitOptPos
  | .dflt k => k ≥ 1 || role == .unitOptPos
  | .enumFrom s => s ≥ 1
  | .counter => true
  | .succ => true
  | .copy f => numberFieldNames.contains f
  | .call f => knownPositiveCalls.contains f
  | .other _ => false

def siteOk (s : NumberSite) : Bool := s.kinds.all (kindOk s.role) && !s.kinds.isEmpty

/-- semantic value range of each accepted kind, over all runs: the numbers the expression can evaluate to -/
def enumerateFrom {α : Type} (start : Nat) : List α → List (Nat × α)
  | [] => []
  | x :: xs => (start, x) :: enumerateFrom (start + 1) xs

/-- a counter loop: `c = 0; for x in xs: if keep x: c += 1; emit c` — the numbers handed out -/
def counterLoop {α : Type} (keep : α → Bool) : Nat → List α → List Nat
  | _, [] => []
  | c, x :: xs => if keep x then (c + 1) :: counterLoop keep (c + 1) xs else counterLoop keep c xs

/-- `_get_page_for_position(position, page_breaks)` (rtf_extractor.py) -/
def getPageForPosition (position : Nat) : List Nat → Nat → Nat
  | [], page => page
  | bp :: rest, page => if bp < position then getPageForPosition position rest (page + 1) else page

/-- `ImageMetadata.unit_number` as the accessor reports a stored slide number: `n if n > 0 else None` -/
def reportIfPos (n : Int) : Option Int := if n > 0 then some n else none

/-! ## (iii) images: `get_bytes` -/

/-- an `io.BytesIO`: content and position -/
structure Stream where
  content : List Nat
  pos : Nat
deriving DecidableEq, Repr

def Stream.read (s : Stream) : List Nat × Stream := (s.content.drop s.pos, { s with pos := max s.pos s.content.length })
def Stream.seek0 (s : Stream) : Stream := { s with pos := 0 }

/-- payload of an image object -/
inductive Payload where
  | noData                          -- `data is None` / `blob is None`
  | bytes (b : List Nat)            -- immutable `bytes` field: every `get_bytes()` wraps it in a fresh `BytesIO`
  | stream (s : Stream)             -- a stored `io.BytesIO` shared by all `get_bytes()` calls (its position is state)
deriving DecidableEq, Repr

structure Image where
  payload : Payload
  sizeBytes : Nat
deriving DecidableEq, Repr

/-- `get_bytes()`: the returned stream and the image afterwards (the stored stream is rewound) -/
def getBytes (im : Image) : Stream × Image :=
  match im.payload with
  | .noData => (⟨[], 0⟩, im)
  | .bytes b => (⟨b, 0⟩, im)
  | .stream s => (s.seek0, { im with payload := .stream s.seek0 })

/-- the caller reads `k` bytes from the stream `get_bytes()` handed out (moves the shared position) -/
def consume (im : Image) (k : Nat) : Image :=
  match im.payload with
  | .stream s => { im with payload := .stream { s with pos := min (s.pos + k) s.content.length } }
  | _ => im

/-- what the constructor sites build: `Cls(data=v | io.BytesIO(v), size_bytes=len(v))`, or nothing at all -/
def mkImage (kind : PayloadKind) : Option (List Nat) → Image
  | none => ⟨.noData, 0⟩
  | some v => match kind with
    | .stream => ⟨.stream ⟨v, 0⟩, v.length⟩
    | _ => ⟨.bytes v, v.length⟩

def payloadBytes : Payload → List Nat
  | .noData => []
  | .bytes b => b
  | .stream s => s.content

/-! ## (iv) file metadata from the path (`pathlib.PurePosixPath`) -/

abbrev Str := List Char

/-- `str.split('/')` -/
def splitSlash : Str → List Str
  | [] => [[]]
  | c :: cs =>
    if c = '/' then [] :: splitSlash cs
    else match splitSlash cs with
      | seg :: rest => (c :: seg) :: rest
      | [] => [[c]]        -- unreachable (`splitSlash_ne_nil`), kept total without changing any reachable value

/-- `posixpath.splitroot`: root is `/`, `//` (exactly two leading slashes) or empty -/
def splitRoot : Str → Str × Str
  | '/' :: '/' :: '/' :: rest => (['/'], '/' :: '/' :: rest)
  | '/' :: '/' :: rest => (['/', '/'], rest)
  | '/' :: rest => (['/'], rest)
  | p => ([], p)

structure PurePath where
  root : Str
  tail : List Str
deriving DecidableEq, Repr

/-- `PurePosixPath(s)`: components that are empty or `.` are dropped -/
def parsePath (s : Str) : PurePath :=
  let (root, rel) := splitRoot s
  ⟨root, (splitSlash rel).filter fun x => x ≠ [] && x ≠ ['.']⟩

def joinSlash : List Str → Str
  | [] => []
  | [x] => x
  | x :: xs => x ++ '/' :: joinSlash xs

/-- `str(p)` -/
def PurePath.str (p : PurePath) : Str :=
  let s := p.root ++ joinSlash p.tail
  if s = [] then ['.'] else s

/-- `p.name` -/
def PurePath.name (p : PurePath) : Str := p.tail.getLast?.getD []

/-- `p.parent` -/
def PurePath.parent (p : PurePath) : PurePath := ⟨p.root, p.tail.dropLast⟩

/-- index of the last `.` (`str.rfind('.')`), none = -1 -/
def rfindDot : Str → Option Nat
  | [] => none
  | c :: cs =>
    match rfindDot cs with
    | some i => some (i + 1)
    | none => if c = '.' then some 0 else none

/-- `p.suffix`: `name[i:]` when `0 < i < len(name) - 1` for `i = name.rfind('.')`, else `''` -/
def suffixOf (name : Str) : Str :=
  match rfindDot name with
  | some i => if 0 < i ∧ i + 1 < name.length then name.drop i else []
  | none => []

def PurePath.suffix (p : PurePath) : Str := suffixOf p.name

/-- the five fields of `FileMetadataInterface` -/
structure FileMeta where
  filename : Option Str := none
  fileExtension : Option Str := none
  filePath : Option Str := none
  folderPath : Option Str := none
  detectedEncoding : Option Str := none
deriving DecidableEq, Repr

/-- what the OS answers for a path string: `none` = does not exist (or cannot be probed: too long, not permitted,
embedded NUL), `some r` = exists and resolves to `r` -/
abbrev Host := Str → Option Str

/-- `populate_from_path` (with the un-probeable-path repair: an `OSError` of `exists()` counts as "not there") -/
def populateFromPath (host : Host) (m : FileMeta) : Option Str → FileMeta
  | none => m
  | some s =>
    let p := parsePath s
    { m with
      filename := some p.name
      fileExtension := some p.suffix
      filePath := some ((host p.str).getD p.str)
      folderPath := some ((host p.parent.str).getD p.parent.str) }

/-! ## (iii-b) pictures of the legacy Office streams: OfficeArt BLIP record → image object

`_extract_images_from_pictures_stream` (ppt_extractor.py) and `_extract_images_from_workbook` (xls_extractor.py)
run the same pipeline on every BLIP record: skip the BLIP header (17 bytes, 33 with a secondary UID), sniff the
payload, name metafiles by their record type, wrap a device-independent bitmap into a BMP **file** (14 more bytes),
drop duplicates, number from 1, and store `data = payload`, `size_bytes = len(payload)` of the payload as stored. -/

def blipEmf : Nat := 0xF01A
def blipWmf : Nat := 0xF01B
def blipDib : Nat := 0xF01F
/-- record types treated as pictures -/
def blipTypes : List Nat := [0xF01A, 0xF01B, 0xF01C, 0xF01D, 0xF01E, 0xF01F, 0xF029]
/-- record instances that carry a second 16-byte UID -/
def blipSecondUid : List Nat := [0x46B, 0x6E1]

def blipHeaderSize (inst : Nat) : Nat := if blipSecondUid.contains inst then 33 else 17

/-- file signatures of `detect_image_type`, in the order they are tried: (prefix, content type) -/
def imageSignatures : List (List Nat × String) := [
  ([0x89, 0x50, 0x4E, 0x47, 0x0D, 0x0A, 0x1A, 0x0A], "image/png"),
  ([0xFF, 0xD8, 0xFF], "image/jpeg"),
  ([0x47, 0x49, 0x46, 0x38], "image/gif"),
  ([0x42, 0x4D], "image/bmp"),
  ([0x49, 0x49, 0x2A, 0x00], "image/tiff"),
  ([0x4D, 0x4D, 0x00, 0x2A], "image/tiff")]

/-- `detect_image_type(data)`: the content type of the first matching signature; nothing for < 8 bytes -/
def sniffImage (sigs : List (List Nat × String)) (d : List Nat) : Option String :=
  if d.length < 8 then none else (sigs.find? fun s => s.1.isPrefixOf d).map (·.2)

def le16At (d : List Nat) (i : Nat) : Nat := d.getD i 0 + 256 * d.getD (i + 1) 0
def le32At (d : List Nat) (i : Nat) : Nat := le16At d i + 65536 * le16At d (i + 2)
/-- `struct.pack("<I", n)` -/
def le32 (n : Nat) : List Nat := [n % 256, n / 256 % 256, n / 65536 % 256, n / 16777216 % 256]

/-- `wrap_dib_as_bmp`: a 14-byte BMP file header in front of a BITMAPINFOHEADER bitmap; nothing for other headers -/
def wrapDibAsBmp (dib : List Nat) : Option (List Nat) :=
  if dib.length < 40 then none
  else if le32At dib 0 ≠ 40 then none
  else
    let bpp := le16At dib 14
    if !([1, 4, 8, 16, 24, 32].contains bpp) then none
    else
      let colorTable := if bpp ≤ 8 then 2 ^ bpp * 4 else 0
      some ([0x42, 0x4D] ++ le32 (14 + dib.length) ++ [0, 0, 0, 0] ++ le32 (14 + 40 + colorTable) ++ dib)

structure BlipRec where
  recType : Nat
  inst : Nat
  data : List Nat
deriving DecidableEq, Repr

/-- one BLIP record → (content type, payload as stored), or nothing when the record is skipped -/
def blipPayload (r : BlipRec) : Option (String × List Nat) :=
  if !(blipTypes.contains r.recType) || r.data.length ≤ 17 then none
  else
    let hs := blipHeaderSize r.inst
    if hs ≥ r.data.length then none
    else
      let d := r.data.drop hs
      match sniffImage imageSignatures d with
      | some ct => some (ct, d)
      | none =>
        if r.recType = blipEmf then some ("image/x-emf", d)
        else if r.recType = blipWmf then some ("image/x-wmf", d)
        else if r.recType = blipDib then (wrapDibAsBmp d).map fun b => ("image/bmp", b)
        else none

/-- a picture as the extractor stores it -/
structure BlipImage where
  index : Nat
  contentType : String
  image : Image
deriving DecidableEq, Repr

/-- the loop over the records: duplicates (same stored payload) dropped, `image_index` incremented before use -/
def blipImagesAux : List (List Nat) → Nat → List BlipRec → List BlipImage
  | _, _, [] => []
  | seen, n, r :: rs =>
    match blipPayload r with
    | none => blipImagesAux seen n rs
    | some (ct, p) =>
      if seen.contains p then blipImagesAux seen n rs
      else ⟨n + 1, ct, mkImage .bytes (some p)⟩ :: blipImagesAux (p :: seen) (n + 1) rs

def blipImages (recs : List BlipRec) : List BlipImage := blipImagesAux [] 0 recs

/-! ## (iv-b) a process history of `populate_from_path` calls

The file system and the working directory change between calls; each call sees the host as it is **then**.  The
model of a history answers every call from that call's host and path argument alone — nothing is carried over. -/

structure PathCall where
  host : Host
  path : Option Str

def runPathCalls (calls : List PathCall) : List FileMeta :=
  calls.map fun c => populateFromPath c.host {} c.path

/-- inventory types: a function reachable from `populate_from_path` / a memoised function of the package -/
structure FnState where
  file : String
  name : String
  decorators : List String        -- decorator expressions as written
  globalsWritten : List String    -- `global` / `nonlocal` names, module-level containers mutated
  touchesHost : Bool              -- (transitively, inside its module) asks the file system / working directory
  onMetadataPath : Bool           -- reachable from `FileMetadataInterface.populate_from_path`
deriving DecidableEq, Repr

/-- functions of the package that keep process-wide state in a module-level name, reviewed: what they remember is a
function of the key they remember it under (type registry by class name, AES round keys by key bytes, parsed font
by font bytes, pypdf patch bookkeeping, the archive limits set by the caller) — never something derived from a path,
the file system or the working directory, and none of them is on the way to a result's metadata -/
def reviewedStateWriters : List (String × String) := [
  ("archive_extractor.py", "configure_archive_extraction"),
  ("serialization.py", "_get_type_registry"),
  ("_pypdf_aes_fallback.py", "_get_round_keys"),
  ("pdf_extractor.py", "_ttf_parse_font"),
  ("pdf_extractor.py", "_patched_build_char_map")]

/-! ## (v) well-formed Unicode; RTF `\uN` -/

/-- a Python `str` as code points -/
abbrev CPs := List Nat

def isSurrogate (c : Nat) : Bool := 0xD800 ≤ c && c ≤ 0xDFFF
def isHigh (c : Nat) : Bool := 0xD800 ≤ c && c ≤ 0xDBFF
def isLow (c : Nat) : Bool := 0xDC00 ≤ c && c ≤ 0xDFFF

/-- a Unicode scalar value: what UTF-8 can encode -/
def scalar (c : Nat) : Bool := c < 0x110000 && !isSurrogate c

/-- `s.encode("utf-8")` succeeds -/
def wellFormed (s : CPs) : Bool := s.all scalar

/-- `chr(int(N) & 0xFFFF)` for a (possibly negative) decimal parameter -/
def uParamToUnit (n : Int) : Nat := (n % 65536).toNat

/-- the repair: UTF-16 code units back to characters — a high surrogate followed by a low one is one astral
character, any other surrogate becomes U+FFFD
(`text.encode("utf-16-le", "surrogatepass").decode("utf-16-le", "replace")`) -/
def combineSurrogates : CPs → CPs
  | [] => []
  | [c] => [if isSurrogate c then 0xFFFD else c]
  | c :: d :: rest =>
    if isHigh c && isLow d then
      (0x10000 + (c - 0xD800) * 0x400 + (d - 0xDC00)) :: combineSurrogates rest
    else
      (if isSurrogate c then 0xFFFD else c) :: combineSurrogates (d :: rest)

/-- the text as the UNFIXED code built it: every `\uN` is one `chr(N & 0xFFFF)` -/
def decodeUnitsRaw (units : List Int) : CPs := units.map uParamToUnit

/-- the fixed code -/
def decodeUnits (units : List Int) : CPs := combineSurrogates (decodeUnitsRaw units)

/-! ### the `\uN` / `\'hh` escape passes of `_strip_rtf_simple` over code points

`\d` of a Python `str` pattern and `int()` accept every Unicode decimal digit; their values are a parameter
`dig` (the harness supplies `unicodedata.decimal`), ASCII digits included. -/

abbrev DigitVal := Nat → Option Nat

def asciiDigit : DigitVal := fun c => if 48 ≤ c ∧ c ≤ 57 then some (c - 48) else none

def isHexDigit (c : Nat) : Bool := (48 ≤ c && c ≤ 57) || (97 ≤ c && c ≤ 102) || (65 ≤ c && c ≤ 70)
def hexVal (c : Nat) : Nat := if c ≤ 57 then c - 48 else if 97 ≤ c then c - 87 else c - 55

/-- the greedy `\d+`: the digit values (as many characters are consumed) -/
def takeDigits (dig : DigitVal) : CPs → List Nat
  | [] => []
  | c :: cs =>
    match dig c with
    | some v => v :: takeDigits dig cs
    | none => []

def digitsVal (ds : List Nat) : Nat := ds.foldl (fun a v => a * 10 + v) 0

/-- `(\d+)\??` with the sign already read: the unit `chr(int(group 1) & 0xFFFF)` and how many characters matched -/
def matchDigits (dig : DigitVal) (neg : Bool) (cs : CPs) : Option (Nat × Nat) :=
  match takeDigits dig cs with
  | [] => none
  | d :: ds =>
    let v : Int := if neg then -(digitsVal (d :: ds) : Int) else (digitsVal (d :: ds) : Int)
    let q := match cs.drop (d :: ds).length with
      | 63 :: _ => 1
      | _ => 0
    some (uParamToUnit v, (d :: ds).length + q)

/-- one match of `_RE_UNICODE = \\u(-?\d+)\??` right after `\u`: the unit and the number of characters matched -/
def matchUParam (dig : DigitVal) : CPs → Option (Nat × Nat)
  | 45 :: r => (matchDigits dig true r).map fun p => (p.1, p.2 + 1)
  | r => matchDigits dig false r

/-- `_RE_UNICODE.sub(lambda m: chr(int(m.group(1)) & 0xFFFF), text)`: leftmost, non-overlapping matches.
`skip` = characters still to be dropped because they belong to the match being replaced. -/
def subUnicodeAux (dig : DigitVal) : Nat → CPs → CPs
  | _, [] => []
  | skip + 1, _ :: cs => subUnicodeAux dig skip cs
  | 0, 92 :: 117 :: rest =>
    match matchUParam dig rest with
    | some (u, k) => u :: subUnicodeAux dig (k + 1) (117 :: rest)
    | none => 92 :: subUnicodeAux dig 0 (117 :: rest)
  | 0, c :: cs => c :: subUnicodeAux dig 0 cs

def subUnicode (dig : DigitVal) (text : CPs) : CPs := subUnicodeAux dig 0 text

/-- `_RE_HEX_ESCAPE.sub(lambda m: chr(int(m.group(1), 16)), text)` with `_RE_HEX_ESCAPE = \\'([0-9a-fA-F]{2})` -/
def subHexAux : Nat → CPs → CPs
  | _, [] => []
  | skip + 1, _ :: cs => subHexAux skip cs
  | 0, 92 :: 39 :: a :: b :: rest =>
    if isHexDigit a && isHexDigit b then (hexVal a * 16 + hexVal b) :: subHexAux 3 (39 :: a :: b :: rest)
    else 92 :: subHexAux 0 (39 :: a :: b :: rest)
  | 0, c :: cs => c :: subHexAux 0 cs

def subHex (text : CPs) : CPs := subHexAux 0 text

/-- the escape passes of the fixed `_strip_rtf_simple`: `\uN`, surrogate repair, `\'hh` -/
def decodeEscapes (dig : DigitVal) (text : CPs) : CPs := subHex (combineSurrogates (subUnicode dig text))
/-- … and of the unfixed one -/
def decodeEscapesRaw (dig : DigitVal) (text : CPs) : CPs := subHex (subUnicode dig text)

/-- `bytes.decode("utf-16-le", errors="replace")` over 16-bit units (+ a dangling odd byte): the decoder the legacy
PPT/DOC paths and the repair use -/
def decodeUtf16Replace (units : List Nat) (oddTail : Bool) : CPs :=
  combineSurrogates units ++
    (if oddTail && !(match units.getLast? with | some u => isHigh u | none => false) then [0xFFFD] else [])
-- a dangling byte after a final high surrogate is part of that one truncated sequence: a single U+FFFD (CPython)

/-! ## (vi) document properties: readers over an XML tree -/

/-- an element: tag (Clark notation), text (`None`/empty are both "no text" for every reader), children -/
inductive Xml where
  | node (tag : String) (text : Option String) (children : List Xml)
deriving Repr

def Xml.tag : Xml → String
  | .node t _ _ => t
def Xml.text : Xml → Option String
  | .node _ t _ => t
def Xml.children : Xml → List Xml
  | .node _ _ c => c

/-- `root.find(tag)`: first direct child with that tag -/
def Xml.find (root : Xml) (tag : String) : Option Xml := root.children.find? (fun c => c.tag == tag)

/-- `_get_element_text(root, tag)` (docx/pptx): the text of the first such child if it has any -/
def getElementText (root : Xml) (tag : String) : Option String :=
  match root.find tag with
  | some e => match e.text with
    | some t => if t.isEmpty then none else some t
    | none => none
  | none => none

inductive Post where
  | ident | identOrEmpty | strip | other
deriving DecidableEq, Repr

structure MdRow where
  fmt : String
  field : String
  tag : String
  post : Post
deriving DecidableEq, Repr

/-- `if text := _get_element_text(root, tag): metadata.f = text` — the field after the reader ran (default `""`) -/
def readField (root : Xml) (tag : String) (dflt : String := "") : String :=
  match getElementText root tag with
  | some t => t
  | none => dflt

end S2T.Iface
