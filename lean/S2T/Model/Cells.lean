/-
The process-global cells the C15 models account for, and the shape of the generated inventory
(`S2T.Gen.GlobalWrites`, produced by tools/gen/globalwrites.py from the current source).
-/
namespace S2T.Cells

abbrev Str := List Char

/-- one place where a function of the package writes something that outlives the call -/
structure Site where
  file : Str      -- basename of the source file
  func : Str      -- outermost enclosing function / method
  kind : Str      -- global-rebind | mutate | modattr | setattr | cache | temp | globalcall
  cell : Str      -- the name written (module global, container, dotted attribute; for setattr: `self` or `<object>`)
  deriving DecidableEq, Repr

/-- how a site is accounted for -/
inductive Account
  | patchCell        -- `pypdf._page.build_char_map` / lock / user count / saved originals  → `S2T.Patch`
  | aesPatch         -- the one-way AES provider patch                                     → `S2T.AesPatch`
  | lruCache         -- transparent memo cache                                            → `S2T.Cache.lruGet`
  | fontCache        -- `_FONT_CACHE`                                                      → `S2T.Cache.FontFixed`
  | typeRegistry     -- `_TYPE_REGISTRY`                                                   → `S2T.Cache.registryGet`
  | tempScope        -- `with TemporaryDirectory()`                                        → `S2T.TempScope`
  | hostConfig       -- written only by a public configuration function that no extraction calls
  | localObject      -- `setattr` on an object created by the call itself (result dataclass, `self`): not global
  deriving DecidableEq, Repr

/-- explicit accounts: (file, function, kind, cell) ↦ how the models account for it -/
def explicit : List (Site × Account) := [
  (⟨"pdf_extractor.py".toList, "_patched_build_char_map".toList, "setattr".toList, "<object>".toList⟩, .patchCell),
  (⟨"pdf_extractor.py".toList, "_patched_build_char_map".toList, "global-rebind".toList, "_CHAR_MAP_PATCH_USERS".toList⟩, .patchCell),
  (⟨"pdf_extractor.py".toList, "_patched_build_char_map".toList, "mutate".toList, "_CHAR_MAP_PATCH_ORIGINALS".toList⟩, .patchCell),
  (⟨"pdf_extractor.py".toList, "_ttf_parse_font".toList, "mutate".toList, "_FONT_CACHE".toList⟩, .fontCache),
  (⟨"_pypdf_aes_fallback.py".toList, "_get_round_keys".toList, "mutate".toList, "_ROUND_KEY_CACHE".toList⟩, .lruCache),
  (⟨"serialization.py".toList, "_get_type_registry".toList, "mutate".toList, "_TYPE_REGISTRY".toList⟩, .typeRegistry),
  (⟨"archive_extractor.py".toList, "_get_file_extractor_cached".toList, "cache".toList, "_get_file_extractor_cached".toList⟩, .lruCache),
  (⟨"archive_extractor.py".toList, "_get_router_functions".toList, "cache".toList, "_get_router_functions".toList⟩, .lruCache),
  (⟨"archive_extractor.py".toList, "_is_supported_file_cached".toList, "cache".toList, "_is_supported_file_cached".toList⟩, .lruCache),
  (⟨"epub_extractor.py".toList, "_guess_content_type".toList, "cache".toList, "_guess_content_type".toList⟩, .lruCache),
  (⟨"_shared.py".toList, "guess_content_type".toList, "cache".toList, "guess_content_type".toList⟩, .lruCache),
  (⟨"archive_extractor.py".toList, "_extract_from_7z_optimized".toList, "temp".toList, "TemporaryDirectory".toList⟩, .tempScope),
  (⟨"archive_extractor.py".toList, "configure_archive_extraction".toList, "global-rebind".toList, "_config".toList⟩, .hostConfig),
  (⟨"ppt_extractor.py".toList, "_extract_metadata".toList, "setattr".toList, "<object>".toList⟩, .localObject),
  (⟨"rtf_extractor.py".toList, "_RtfParser._extract_metadata".toList, "setattr".toList, "self".toList⟩, .localObject),
  (⟨"docx_extractor.py".toList, "_DocxContext._load_xml_files".toList, "setattr".toList, "self".toList⟩, .localObject),
  (⟨"docx_extractor.py".toList, "_extract_metadata_from_context".toList, "setattr".toList, "<object>".toList⟩, .localObject),
  (⟨"docx_extractor.py".toList, "_extract_sections_from_context".toList, "setattr".toList, "<object>".toList⟩, .localObject),
  (⟨"_pypdf_aes_fallback.py".toList, "patch_pypdf_fallback_aes".toList, "setattr".toList, "self".toList⟩, .localObject)
]

def lookupSite (s : Site) : List (Site × Account) → Option Account
  | [] => none
  | (s', a) :: r => if s = s' then some a else lookupSite s r

/-- every assignment to an attribute of a pypdf module / class happens in `patch_pypdf_fallback_aes` -/
def isAesSite (s : Site) : Bool :=
  s.kind == "modattr".toList && s.func == "patch_pypdf_fallback_aes".toList && s.file == "_pypdf_aes_fallback.py".toList

def account (s : Site) : Option Account :=
  if isAesSite s then some .aesPatch else lookupSite s explicit

/-- module-level containers with a writer, and the model that owns them -/
def ownedMutables : List (Str × Str) := [
  ("pdf_extractor.py".toList, "_CHAR_MAP_PATCH_ORIGINALS".toList),
  ("pdf_extractor.py".toList, "_FONT_CACHE".toList),
  ("_pypdf_aes_fallback.py".toList, "_ROUND_KEY_CACHE".toList),
  ("serialization.py".toList, "_TYPE_REGISTRY".toList)
]

/-- one occurrence, inside a function, of a module-level container that some function writes -/
structure CacheAccess where
  file   : Str
  func   : Str         -- innermost enclosing function, qualified by its enclosing functions
  cell   : Str
  how    : Str         -- getitem | setitem | delitem | contains | method:<name> | name
  key    : Str         -- the key expression of the access ("" when the access has none: `len(C)`, `C.popitem()`, ...)
  guard  : Str         -- `L` of the innermost enclosing `with L:` block ("" = none)
  params : List Str    -- parameters of the function that the function never rebinds
  deriving DecidableEq, Repr

/-- memo caches keyed by the input of the cached function: every key expression must be a whole parameter -/
def keyedCaches : List Str := ["_FONT_CACHE".toList, "_ROUND_KEY_CACHE".toList]

/-- cells whose compound operations rely on a lock: (cell, lock) -/
def lockedCells : List (Str × Str) := [
  ("_ROUND_KEY_CACHE".toList, "_ROUND_KEY_CACHE_LOCK".toList),
  ("_CHAR_MAP_PATCH_ORIGINALS".toList, "_CHAR_MAP_PATCH_LOCK".toList)
]

/-- a module-level container has a writer in the inventory -/
def hasWriter (sites : List Site) (m : Str × Str × Str) : Bool :=
  sites.any (fun s => s.file == m.1 && s.cell == m.2.1 && (s.kind == "mutate".toList || s.kind == "global-rebind".toList))

end S2T.Cells
