import S2T.Model.ArchiveLoop
import S2T.Model.History
/-
C10 model of the PROCESS STATE of sharepoint2text/parsing/extractors/archive_extractor.py.

`S2T/Model/ArchiveLoop.lean` models one call of `read_archive` as a function of the archive, its path and the
router (`Env`).  The real module keeps state between calls: the `functools.lru_cache`s of
`_is_supported_file_cached(basename)` and `_get_file_extractor_cached(basename)` (and of the nullary
`_get_router_functions`).  Here that state is explicit:

* `Store`  = the two keyed memo tables;
* `Prog`   = a read of an archive as the store sees it: a computation whose ONLY access to the process state is
             asking one of the two memoised functions (in any order, any number of times, depending on earlier
             answers) — the shape of every member loop of the module;
* `runMemo` runs a program against a store (lookup, on a miss compute + store + evict as the cache likes),
  `runPure` runs it against the router itself (the fresh-process meaning).

The ZIP / TAR / 7z loops and `_should_skip_file` / `_process_archive_entry` are written as programs with the
lookups where the source has them (`shouldSkipP` short-circuits exactly like the `if` cascade), so that
`runPure` of them is the pure model of `ArchiveLoop.lean` (proved in `Props/C10_History.lean`).

That these two caches are ALL the state an archive read can leave behind is the closed-world assumption; it is
re-decided on the current source from the generated inventory `S2T.Gen.ModState` (same file).
-/
namespace S2T.ArchiveHistory
open S2T.SevenZip (Bytes Str)
open S2T.ArchiveLoop S2T.History

/-- the router behind the caches (`ε` = extractor functions) -/
structure Router (ε ρ : Type) where
  supported : Str → Bool                        -- `is_supported_file(basename)`
  getExt : Str → ε                              -- `get_extractor(basename)`
  isReadArchive : ε → Bool                      -- `… is read_archive`
  run : ε → Bytes → Str → List ρ × Bool         -- `list(extractor(BytesIO(data), path=path))`, raised?
  lower : Str → Str
  keepSup : Str × Bool → Bool                   -- which older entries survive a store (LRU eviction: any policy)
  keepExt : Str × ε → Bool

/-- the pure environment of `ArchiveLoop.lean` that this router induces -/
def envOf {ε ρ} (R : Router ε ρ) (c : Consts) : Env ρ :=
  { consts := c, supported := R.supported, lower := R.lower,
    routedBack := fun b => R.isReadArchive (R.getExt b),
    extract := fun b data path => R.run (R.getExt b) data path }

/-- the process state: `_is_supported_file_cached.cache`, `_get_file_extractor_cached.cache` -/
structure Store (ε : Type) where
  sup : List (Str × Bool)
  ext : List (Str × ε)

def Store.empty {ε} : Store ε := ⟨[], []⟩

/-- every cached value is what the router answers for its key -/
def StoreSound {ε ρ} (R : Router ε ρ) (st : Store ε) : Prop :=
  MemoSound R.supported st.sup ∧ MemoSound R.getExt st.ext

/-- a computation whose only access to the process state is through the two memoised functions -/
inductive Prog (ε α : Type) where
  | ret : α → Prog ε α
  | askSup : Str → (Bool → Prog ε α) → Prog ε α
  | askExt : Str → (ε → Prog ε α) → Prog ε α

namespace Prog
def bind {ε α β} : Prog ε α → (α → Prog ε β) → Prog ε β
  | ret a, f => f a
  | askSup k g, f => askSup k fun b => (g b).bind f
  | askExt k g, f => askExt k fun e => (g e).bind f
end Prog

/-- in the running process: every question goes through the cache -/
def runMemo {ε ρ α} (R : Router ε ρ) : Prog ε α → Store ε → α × Store ε
  | .ret a, st => (a, st)
  | .askSup k g, st =>
    let r := memoGet R.supported R.keepSup st.sup k
    runMemo R (g r.1) { st with sup := r.2 }
  | .askExt k g, st =>
    let r := memoGet R.getExt R.keepExt st.ext k
    runMemo R (g r.1) { st with ext := r.2 }

/-- in a fresh process / as the statement of C10 reads: the router answers -/
def runPure {ε ρ α} (R : Router ε ρ) : Prog ε α → α
  | .ret a => a
  | .askSup k g => runPure R (g (R.supported k))
  | .askExt k g => runPure R (g (R.getExt k))

/-! ### the module's code as programs -/
section code
variable {ε ρ : Type} (R : Router ε ρ) (c : Consts)

/-- `_should_skip_file`: the `if` cascade, each cache asked only when the earlier tests did not decide -/
def shouldSkipP (filename basename : Str) : Prog ε Bool :=
  if basename.head? == some 46 || (s "__MACOSX/").isPrefixOf filename then .ret true
  else .askSup basename fun sup =>
    if !sup then .ret true
    else if c.nested.any (fun e => e.isSuffixOf (R.lower basename)) then .ret true
    else .askExt basename fun e => .ret (R.isReadArchive e)

/-- `_process_archive_entry` -/
def processEntryP (ap : Option Str) (filename : Str) (data : Bytes) (basename : Str) : Prog ε (List ρ) :=
  if data.length > c.maxArchiveFileSize then .ret []
  else .askExt basename fun e => .ret (R.run e data (fullPath ap filename)).1

/-- the member loop of `_extract_from_tar_optimized` -/
def readTarP (ap : Option Str) : List TarMember → Prog ε (List ρ)
  | [] => .ret []
  | m :: rest =>
    if !m.isReg then readTarP ap rest
    else (shouldSkipP R c m.name (baseName m.name)).bind fun skip =>
      if skip then readTarP ap rest
      else if m.size > c.maxMemorySize then readTarP ap rest
      else match m.read with
        | .data b => (processEntryP R c ap m.name b (baseName m.name)).bind fun ys =>
            (readTarP ap rest).bind fun zs => .ret (ys ++ zs)
        | .noFile => readTarP ap rest
        | .raised => readTarP ap rest

/-- first pass of `_extract_from_zip_optimized` -/
def zipScanP : List ZipInfo → Prog ε (Except Exc (List ZipInfo))
  | [] => .ret (.ok [])
  | i :: rest =>
    if i.isDir then zipScanP rest
    else if i.flagBits &&& 1 ≠ 0 then .ret (.error .encrypted)
    else (shouldSkipP R c i.filename (baseName i.filename)).bind fun skip =>
      if skip then zipScanP rest
      else (zipScanP rest).bind fun r =>
        match r with
        | .ok l => .ret (.ok (i :: l))
        | .error e => .ret (.error e)

/-- second pass -/
def zipLoopP (ap : Option Str) : List ZipInfo → Prog ε (Out ρ)
  | [] => .ret { yields := [] }
  | i :: rest =>
    if i.fileSize > c.maxMemorySize then zipLoopP ap rest
    else match i.read with
      | .data b => (processEntryP R c ap i.filename b (baseName i.filename)).bind fun ys =>
          (zipLoopP ap rest).bind fun o => .ret { o with yields := ys ++ o.yields }
      | .runtimeError => .ret { yields := [], terminal := some .encrypted }
      | .badZip => .ret { yields := [], terminal := some .failed }
      | .otherExc => .ret { yields := [], terminal := some .failed }

/-- `_extract_from_zip_optimized` -/
def readZipP (ap : Option Str) (infos : List ZipInfo) : Prog ε (Out ρ) :=
  (zipScanP R c infos).bind fun r =>
    match r with
    | .error e => .ret { yields := [], terminal := some e }
    | .ok l => zipLoopP R c ap l

open S2T.SevenZip in
/-- the pre-filter of `_extract_from_7z_optimized` -/
def sevenFilterP : List FileInfo → Nat → Prog ε (List (Nat × FileInfo))
  | [], _ => .ret []
  | f :: rest, i =>
    if f.isDirectory then sevenFilterP rest (i + 1)
    else (shouldSkipP R c f.filename (baseName f.filename)).bind fun skip =>
      if skip then sevenFilterP rest (i + 1)
      else if f.uncompressed > c.maxMemorySize then sevenFilterP rest (i + 1)
      else (sevenFilterP rest (i + 1)).bind fun l => .ret ((i, f) :: l)

open S2T.SevenZip in
/-- `_process_7z_files_sequential` -/
def sevenLoopP (ap : Option Str) (writes : List (Str × Bytes)) : List FileInfo → Prog ε (List ρ)
  | [] => .ret []
  | f :: rest =>
    match readBack writes f.filename with
    | none => sevenLoopP ap writes rest
    | some b => (processEntryP R c ap f.filename b (baseName f.filename)).bind fun ys =>
        (sevenLoopP ap writes rest).bind fun zs => .ret (ys ++ zs)

open S2T.SevenZip in
/-- `_extract_from_7z_optimized` (the reader and `extractall` touch no process state: they are functions of the file) -/
def read7zP (ap : Option Str) (file : Bytes)
    (parse : Bytes → Except Err S2T.SevenZip.R) (needsPw : S2T.SevenZip.R → Bool)
    (extract : Bytes → S2T.SevenZip.R → Option (List Nat) → Except Err (List (Str × Bytes))) : Prog ε (Out ρ) :=
  if file.length > c.max7zFileSize then .ret { yields := [], terminal := some .tooLarge }
  else match parse file with
    | .error (.encrypted7z _) => .ret { yields := [], terminal := some .encrypted }
    | .error _ => .ret { yields := [], terminal := some .failed }
    | .ok r =>
      if needsPw r then .ret { yields := [], terminal := some .encrypted }
      else (sevenFilterP R c r.files 0).bind fun todo =>
        match extract file r (some (todo.map (·.1))) with
        | .error _ => .ret { yields := [], terminal := some .failed }
        | .ok writes => (sevenLoopP R c ap writes (todo.map (·.2))).bind fun ys => .ret { yields := ys }

end code

/-! ### what an UNREVIEWED cell would do: a cache of finished member results -/

/-- `_process_archive_entry` with a process-wide cache of the results of members seen before, keyed by
    (member name, bytes) — the results carry the label of the archive they were made for.  `ρ := Str`: a result
    is represented by its label. -/
def entryCached (tbl : List ((Str × Bytes) × List Str)) (ap : Option Str) (filename : Str) (data : Bytes) :
    List Str × List ((Str × Bytes) × List Str) :=
  match tbl.lookup (filename, data) with
  | some r => (r, tbl)
  | none => let r := [fullPath ap filename]; (r, ((filename, data), r) :: tbl)

end S2T.ArchiveHistory
