import S2T.Model.Limits
/-
C12 (fourth part) — XML parts with internal general entities, and the chain of parsers a part goes through.

What is modelled (`util/zip_utils.py:read_zip_xml_root`, the function every OOXML / ODF / EPUB extractor reads its
XML parts with, and the two direct `ET.fromstring` sites): an XML part =
    [BOM] [whitespace] [<?xml …?>] [<!DOCTYPE r [ <!ENTITY e0 "…"> … ]>] <r> character data </r>
whose character data and entity values are made of literal characters, references `&e<i>;` to EARLIER entities
and predefined references (`&amp;`).  A *stage* is one parser call of the source: does it refuse an `<!ENTITY`
declaration (defusedxml's default) / a DOCTYPE, does it see the part with its leading bytes removed, and is it a
fallback that runs inside the `except` handler of the stage before it (and for which class of failure).
The list of stages of every parsing function is GENERATED from the current source (`Gen.C12Xml.xmlParseChains`).

Expat facts modelled (tied by the correspondence on the real parser): an XML declaration behind whitespace (also
behind BOM + whitespace) is a ParseError, a BOM alone is not; an entity is declared before it is used; a
reference to an undeclared entity is a ParseError; a refusing parser raises at the DECLARATION, referenced or not.
Core Lean only.
-/
namespace S2T.XmlEnt
open S2T.Limits (digits)

/-- a piece of character data / of an entity's replacement text -/
inductive Item
  | lit (n : Nat)        -- n literal characters (n bytes)
  | ref (i : Nat)        -- `&e<i>;`
  | amp                  -- `&amp;` (5 bytes, 1 character)
deriving Repr, DecidableEq

/-- characters an item expands to, given the expanded lengths of the entities declared so far -/
def Item.len (lens : List Nat) : Item → Option Nat
  | .lit n => some n
  | .ref i => lens[i]?
  | .amp => some 1

def itemsLen (lens : List Nat) : List Item → Option Nat
  | [] => some 0
  | it :: r => match it.len lens, itemsLen lens r with
      | some a, some b => some (a + b)
      | _, _ => none

/-- expanded length of every declared entity, in declaration order (`acc` = the entities before) -/
def tableLens : List (List Item) → List Nat → Option (List Nat)
  | [], acc => some acc
  | v :: r, acc => match itemsLen acc v with
      | some n => tableLens r (acc ++ [n])
      | none => none

/-- bytes of an item in the file: `&e<i>;` = 3 + digits i -/
def Item.bytes : Item → Nat
  | .lit n => n
  | .ref i => 3 + digits i
  | .amp => 5

def itemsBytes (l : List Item) : Nat := (l.map Item.bytes).sum

structure Part where
  bom : Bool
  ws : Nat                      -- whitespace bytes in front of the XML declaration / the root
  xmlDecl : Bool
  doctype : Bool
  ents : List (List Item)       -- internal general entities e0, e1, … (only meaningful with a DOCTYPE)
  body : List Item              -- character data of the root element
deriving Repr, DecidableEq

/-- fixed byte counts of the writer (`harness/builders/c12_xmlparts.py:SIZES`) -/
structure Sizes where
  decl : Nat
  dtd : Nat
  ent : Nat
  root : Nat
deriving Repr

def Part.declared (p : Part) : List (List Item) := if p.doctype then p.ents else []

/-- bytes of `<!ENTITY e<i> "value">` for the entities from index `i` on -/
def entsBytes (sz : Sizes) : Nat → List (List Item) → Nat
  | _, [] => 0
  | i, v :: r => sz.ent + (1 + digits i) + itemsBytes v + entsBytes sz (i + 1) r

def Part.bytes (sz : Sizes) (p : Part) : Nat :=
  (if p.bom then 3 else 0) + p.ws + (if p.xmlDecl then sz.decl else 0) +
  (if p.doctype then sz.dtd + entsBytes sz 0 p.ents else 0) + sz.root + itemsBytes p.body

/-- one parser call of the source -/
structure Stage where
  forbidEntities : Bool         -- an `<!ENTITY` declaration raises (EntitiesForbidden)
  forbidDtd : Bool              -- a DOCTYPE raises (DTDForbidden)
  strips : Bool                 -- the parser is fed the part WITHOUT its leading BOM / whitespace
  fallback : Bool               -- runs inside an `except` handler of the stage before it
  catchesParseError : Bool      -- … that catches xml.etree.ElementTree.ParseError
  catchesForbidden : Bool       -- … that catches defusedxml's DefusedXmlException
deriving Repr, DecidableEq

inductive Outcome
  | ok (textLen : Nat)
  | parseError
  | forbidden
deriving Repr, DecidableEq

def runStage (s : Stage) (p : Part) : Outcome :=
  if !s.strips && p.xmlDecl && p.ws > 0 then .parseError
  else if p.doctype && s.forbidDtd then .forbidden
  else if !p.declared.isEmpty && s.forbidEntities then .forbidden
  else match tableLens p.declared [] with
    | none => .parseError
    | some lens => match itemsLen lens p.body with
        | none => .parseError
        | some n => .ok n

/-- the stages of one parsing function, in source order -/
def runChain : List Stage → Part → Outcome
  | [], _ => .parseError
  | [s], p => runStage s p
  | s :: t :: rest, p => match runStage s p with
      | .ok n => .ok n
      | .parseError => if t.fallback && t.catchesParseError then runChain (t :: rest) p else .parseError
      | .forbidden => if t.fallback && t.catchesForbidden then runChain (t :: rest) p else .forbidden

/-- a generated stage tuple (module, forbid_entities, forbid_dtd, strips, fallback, catches ParseError, catches forbidden) -/
def Stage.ofTuple (t : String × Bool × Bool × Bool × Bool × Bool × Bool) : Stage :=
  ⟨t.2.1, t.2.2.1, t.2.2.2.1, t.2.2.2.2.1, t.2.2.2.2.2.1, t.2.2.2.2.2.2⟩

/-! ### reference stages and the amplifying parts -/

/-- `defusedxml.ElementTree.fromstring(data)` with its defaults -/
def defusedStage : Stage := ⟨true, false, false, false, false, false⟩
/-- plain `xml.etree.ElementTree` on the raw bytes -/
def stdlibStage : Stage := ⟨false, false, false, false, false, false⟩
/-- "parse again leniently": plain parser on the stripped bytes, inside `except ParseError` -/
def lenientFallback : Stage := ⟨false, false, true, true, true, false⟩

/-- quadratic blow-up: one entity of `a` characters, referenced `m` times -/
def quadPart (ws a m : Nat) : Part := ⟨false, ws, true, true, [[.lit a]], List.replicate m (.ref 0)⟩

/-- nested entities ("billion laughs", kept small): e0 = `a` characters, e(k+1) = `fan` references to e(k) -/
def laughsEnts (a fan : Nat) : Nat → List (List Item)
  | 0 => [[.lit a]]
  | k + 1 => laughsEnts a fan k ++ [List.replicate fan (.ref k)]
def laughsPart (ws a fan levels : Nat) : Part := ⟨false, ws, true, true, laughsEnts a fan levels, [.ref levels]⟩

end S2T.XmlEnt
