import S2T.Model.Router
/-!
Model of the e-mail extractors (C16).

* `mbox_email_extractor.py`: `MBOX_FROM_PATTERN`, `_split_mbox_messages`, `_is_attachment_part`,
  `_iter_message_parts`, `get_body_content`, `get_attachments`, the address filter of
  `parse_email_addresses`;
* `data_types.py`: `EmailContent.iterate_supported_attachments` (routing decision only);
* `eml_email_extractor.py`: `_read_eml_format` as a mapping of what `mailparser` returned;
* `mime_types.py`: `is_supported_mime_type`.

Bytes are `Nat`s (`List Nat`), strings are `List Char`.  What the standard library / mailparser
compute (header and charset decoding, transfer decoding, MIME parsing, address parsing) enters
as *fields of the input structures* — never as an axiom.
-/
namespace S2T.Mail
open S2T.Router (Str Tables lookup)

abbrev Bytes := List Nat

/-! ## mbox splitting -/

/-- `\s` of a bytes pattern: space, \t \n \v \f \r -/
def isWs (b : Nat) : Bool := b == 32 || (9 ≤ b && b ≤ 13)
/-- `\d` of a bytes pattern -/
def isDigit (b : Nat) : Bool := 48 ≤ b && b ≤ 57

/-- `b"From "` -/
def fromSp : Bytes := [70, 114, 111, 109, 32]

/-- `\S+.*\d{4}` matched against the whole of `y` (`y` free of `\n`): first byte is not white
    space, at least one byte precedes the final four, the final four are digits. -/
def matchCore (y : Bytes) : Bool :=
  match y with
  | [] => false
  | c :: _ => !isWs c && decide (5 ≤ y.length) && (y.drop (y.length - 4)).all isDigit

/-- A whole line `l` (with its terminating `\n`) is matched by
    `MBOX_FROM_PATTERN = ^From \S+.*\d{4}\r?\n` (MULTILINE; `.` does not match `\n`). -/
def isSepLine (l : Bytes) : Bool :=
  l.getLast? == some 10 &&
  (let b := l.dropLast
   b.all (· != 10) &&
   (let b' := if b.getLast? == some 13 then b.dropLast else b
    b'.take 5 == fromSp && matchCore (b'.drop 5)))

/-- prepend a byte to the first line -/
def consLine (b : Nat) : List Bytes → List Bytes
  | [] => [[b]]
  | l :: ls => (b :: l) :: ls

/-- `bytes.splitlines(keepends=True)` restricted to `\n` as the only line end. -/
def lines : Bytes → List Bytes
  | [] => []
  | b :: bs => if b = 10 then [10] :: lines bs else consLine b (lines bs)

/-- The slices `data[match.end() : next_match.start()]`: `cur` is the slice being collected
    (`none` before the first separator line). -/
def chunksAux : Option Bytes → List Bytes → List Bytes
  | cur, [] => cur.toList
  | cur, l :: ls =>
    if isSepLine l then cur.toList ++ chunksAux (some []) ls
    else chunksAux (cur.map (· ++ l)) ls

/-- `bytes.rstrip(b"\r\n")` -/
def rstripCRLF (m : Bytes) : Bytes := (m.reverse.dropWhile (fun b => b == 13 || b == 10)).reverse

/-- `_split_mbox_messages` -/
def splitMbox (data : Bytes) : List Bytes :=
  ((chunksAux none (lines data)).map rstripCRLF).filter (fun m => !m.isEmpty)

/-- start offsets and lengths of the separator lines: what `MBOX_FROM_PATTERN.finditer` reports -/
def sepSpans (data : Bytes) : List (Nat × Nat) :=
  go 0 (lines data)
where
  go (off : Nat) : List Bytes → List (Nat × Nat)
    | [] => []
    | l :: ls => (if isSepLine l then [(off, l.length)] else []) ++ go (off + l.length) ls

/-! ## MIME tree -/

/-- What the standard library reports about one MIME entity. -/
structure Part where
  ctype : Str          -- `get_content_type()`
  disp : Str           -- `str(part.get("Content-Disposition", ""))`
  filename : Str       -- `part.get_filename()`; `[]` for `None`
  fnameDec : Str       -- `decode_header_value(part.get_filename())`
  payload : Bytes      -- leaf: `get_payload(decode=True) or b""`; container: joined `as_bytes()` of the children
  text : Str           -- leaf: payload decoded with the declared charset (utf-8 fallback)
  deriving DecidableEq, Repr

inductive Tree where
  | leaf (p : Part)
  | multi (p : Part) (children : List Tree)
  deriving Repr

def Tree.part : Tree → Part
  | .leaf p => p
  | .multi p _ => p

def Tree.isMulti : Tree → Bool
  | .leaf _ => false
  | .multi _ _ => true

/-- `needle in hay` for strings -/
def hasSub (needle : Str) : Str → Bool
  | [] => needle.isEmpty
  | c :: cs => needle.isPrefixOf (c :: cs) || hasSub needle cs

def sAttachment : Str := "attachment".toList
def sTextPlain : Str := "text/plain".toList
def sTextHtml : Str := "text/html".toList

/-- `_is_attachment_part` -/
def isAttachment (p : Part) : Bool := hasSub sAttachment p.disp || !p.filename.isEmpty

mutual
/-- `_iter_message_parts`: document order; containers are descended into, an attachment is
    yielded whole. -/
def iterParts : Tree → List (Tree × Bool)
  | .leaf p => if isAttachment p then [(.leaf p, true)] else [(.leaf p, false)]
  | .multi p cs => if isAttachment p then [(.multi p cs, true)] else iterPartsList cs
def iterPartsList : List Tree → List (Tree × Bool)
  | [] => []
  | c :: cs => iterParts c ++ iterPartsList cs
end

/-- one step of the `for` loop of `get_body_content` (multipart case) -/
def bodyStep (st : Str × Str) (e : Tree × Bool) : Str × Str :=
  if e.2 then st
  else
    let p := e.1.part
    if p.ctype = sTextPlain ∧ st.1 = [] then
      (if p.payload ≠ [] then (p.text, st.2) else st)
    else if p.ctype = sTextHtml ∧ st.2 = [] then
      (if p.payload ≠ [] then (st.1, p.text) else st)
    else st

/-- `get_body_content` → (body_plain, body_html) -/
def getBody (t : Tree) : Str × Str :=
  match t with
  | .multi _ _ => (iterParts t).foldl bodyStep ([], [])
  | .leaf p =>
    if isAttachment p then ([], [])
    else if p.payload = [] then ([], [])
    else if p.ctype = sTextHtml then ([], p.text) else (p.text, [])

structure Attachment where
  filename : Str
  mime : Str
  data : Bytes
  supported : Bool
  deriving DecidableEq, Repr

/-- `is_supported_mime_type` -/
def isSupportedMime (T : Tables) (m : Str) : Bool := !m.isEmpty && (lookup m T.mimeMap).isSome

def sAttachmentName : Str := "attachment".toList

/-- the `EmailAttachment(...)` built for one attachment part -/
def mkAttachment (T : Tables) (p : Part) : Attachment :=
  { filename := if p.fnameDec.isEmpty then sAttachmentName else p.fnameDec,
    mime := p.ctype, data := p.payload, supported := isSupportedMime T p.ctype }

/-- `get_attachments`: the loop with `continue` and `append` -/
def getAttachments (T : Tables) (t : Tree) : List Attachment :=
  (iterParts t).foldl (fun acc e => if !e.2 then acc else acc ++ [mkAttachment T e.1.part]) []

/-- `parse_email_addresses` after `email.utils.getaddresses`: entries without an address are dropped -/
def keepAddressed (l : List (Str × Str)) : List (Str × Str) := l.filter (fun na => !na.2.isEmpty)

/-! ## attachment routing (`EmailContent.iterate_supported_attachments`) -/

inductive Decision where
  | skipUnsupported                 -- `if not attachment.is_supported_mime_type: continue`
  | skipUnknown                     -- `if not file_type: continue`
  | run (f : Str × Str)             -- `yield from extractor(attachment.data, attachment.filename)`
  deriving DecidableEq, Repr

def sAttachmentDot : Str := "attachment.".toList

/-- The decision taken for one attachment.  `nameLower` is `filename.lower()`, `guess` the
    `mimetypes` answer for it, `guess2` the `mimetypes` answer for `"attachment.<type>"`.
    `.error` = the exception `get_extractor` lets escape from the second call. -/
def routeAttachment (T : Tables) (supported : Bool) (nameLower : Str) (guess : Option Str)
    (mime : Str) (guess2 : Option Str) : Except S2T.Router.Err Decision :=
  if !supported then .ok .skipUnsupported
  else match S2T.Router.getExtractor T nameLower guess with
    | .ok f => .ok (.run f)
    | .error _ =>
      match lookup mime T.mimeMap with
      | none => .ok .skipUnknown
      | some ft =>
        if ft.isEmpty then .ok .skipUnknown
        else match S2T.Router.getExtractor T (sAttachmentDot ++ ft) guess2 with
          | .ok f => .ok (.run f)
          | .error e => .error e

/-! ## `.eml`: mapping of the mailparser result (`_read_eml_format`) -/

/-- one entry of `mail.attachments` -/
structure MpAttachment where
  filename : Str        -- `attachment.get("filename")`, `[]` for missing/empty
  ctype : Str           -- `attachment.get("mail_content_type")`, `[]` for missing/empty
  binary : Bool
  b64 : Bytes           -- `base64.b64decode(payload)` (stdlib)
  utf8 : Bytes          -- `payload.encode("utf-8", errors="ignore")` resp. the bytes payload
  deriving DecidableEq, Repr

/-- what `mailparser.parse_from_bytes` returned; address tuples as lists of their components -/
structure Mp where
  from_ : List (List Str)
  to : List (List Str)
  cc : List (List Str)
  bcc : List (List Str)
  replyTo : List (List Str)
  subject : Str
  textPlain : List Str
  textHtml : List Str
  attachments : List MpAttachment
  deriving Repr

structure EmlResult where
  from_ : Str × Str
  to : List (Str × Str)
  cc : List (Str × Str)
  bcc : List (Str × Str)
  replyTo : List (Str × Str)
  subject : Str
  bodyPlain : Str
  bodyHtml : Str
  attachments : List Attachment
  deriving DecidableEq, Repr

inductive EmlErr | indexError
  deriving DecidableEq, Repr

/-- `(t[0], t[1])` -/
def pair2 : List Str → Except EmlErr (Str × Str)
  | a :: b :: _ => .ok (a, b)
  | _ => .error .indexError

/-- `[EmailAddress(t[0], t[1]) for t in l if t and len(t) > 1 and t[1]]` -/
def filterAddr (l : List (List Str)) : List (Str × Str) :=
  l.filterMap (fun t => match t with
    | a :: b :: _ => if b.isEmpty then none else some (a, b)
    | _ => none)

/-- `"\n".join(parts)` -/
def joinNl : List Str → Str
  | [] => []
  | [a] => a
  | a :: b :: r => a ++ '\n' :: joinNl (b :: r)

def sOctet : Str := "application/octet-stream".toList

def mkEmlAttachment (T : Tables) (a : MpAttachment) : Attachment :=
  let mime := if a.ctype.isEmpty then sOctet else a.ctype
  { filename := if a.filename.isEmpty then sAttachmentName else a.filename,
    mime := mime, data := if a.binary then a.b64 else a.utf8, supported := isSupportedMime T mime }

/-- `_read_eml_format` (before `EmailContent.__post_init__` strips subject and plain body) -/
def readEml (T : Tables) (m : Mp) : Except EmlErr EmlResult :=
  match m.from_ with
  | [] => .error .indexError                      -- `mail.from_[0]`
  | t :: _ =>
    match pair2 t with
    | .error e => .error e
    | .ok f =>
      match m.to.mapM pair2 with
      | .error e => .error e
      | .ok to =>
        .ok { from_ := f, to := to, cc := filterAddr m.cc, bcc := filterAddr m.bcc,
              replyTo := filterAddr m.replyTo, subject := m.subject,
              bodyPlain := joinNl m.textPlain, bodyHtml := joinNl m.textHtml,
              attachments := m.attachments.map (mkEmlAttachment T) }

/-- ASCII text as bytes (for examples and the driver) -/
def asc (s : String) : Bytes := s.toList.map Char.toNat

end S2T.Mail
