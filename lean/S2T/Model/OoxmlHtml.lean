import S2T.Model.OoxmlText
import S2T.Model.HtmlSkip
/-
C02 (part "ooxml"): model of `_HtmlTextExtractor` (html_extractor.py) on the tree `_HtmlTreeBuilder`
builds (`S2T.HtmlSkip.Tree.Node`, modelled and tied to the real builder in property C17), and of the
text clean-up of `_XhtmlTextExtractor.get_text` (epub_extractor.py) on the `text_parts` its event
machine collects (`S2T.HtmlSkip.Epub`, also C17's).

  `_get_cell_text(node)` (table cells, headings) ↦ `cellText` / `cellKids`
  `_find_own_rows` + `_extract_table`          ↦ `tableData` / `rowCells`
  `_format_table_as_text`                      ↦ `formatTable`
  `_process_node`                              ↦ `procNode` / `procKids`
  `_find_node(root, "body")`                   ↦ `findNode` / `findNodes`
  `extract` + `HtmlContent.get_full_text`      ↦ `extract`, `fullText`
-/
namespace S2T.C02.Ooxml.Html
open S2T.C02.Ooxml
open S2T.HtmlSkip.Tree (Node)

structure Tables where
  remove : List Str      -- REMOVE_TAGS
  block : List Str       -- BLOCK_TAGS
  breaks : List Str      -- _CELL_BREAK_TAGS

def sTable : Str := "table".toList
def sTr : Str := "tr".toList
def sTd : Str := "td".toList
def sTh : Str := "th".toList
def sLi : Str := "li".toList
def sBr : Str := "br".toList
def sHr : Str := "hr".toList
def sBody : Str := "body".toList
def headings : List Str := ["h1".toList, "h2".toList, "h3".toList, "h4".toList, "h5".toList, "h6".toList]

section
variable (T : Tables) (ws : Char → Bool)

mutual
/-- `_get_cell_text(node)`: the node's text, then for each child its cell text (wrapped in one blank on
    each side when the child's tag is in `_CELL_BREAK_TAGS`) followed by the child's tail -/
def cellText : Node → Str
  | .mk _ _ text kids _ => text ++ cellKids kids
/-- the loop over `node["children"]` inside `_get_cell_text` -/
def cellKids : List Node → Str
  | [] => []
  | .mk tag _ text kids tail :: r =>
    (if T.breaks.contains tag then ' ' :: (text ++ cellKids kids) ++ ' ' :: tail
     else (text ++ cellKids kids) ++ tail) ++ cellKids r
end

/-- cells of one `tr`: `_get_cell_text(child).strip()` with `\s+` → " " for each `th`/`td` child -/
def rowCells : List Node → List Str
  | [] => []
  | n :: r =>
    (match n with
     | .mk tag _ _ _ _ =>
       if tag = sTh || tag = sTd then [collapse ws (strip ws (cellText T n))] else []) ++ rowCells r

/-- `_extract_table(table_node)` given the table's children: the rows `_find_own_rows` lists (every `tr`
    descendant that is not inside a nested `table`, pre-order: a `tr` is listed and then searched
    itself), empty rows dropped -/
def tableData : List Node → List (List Str)
  | [] => []
  | .mk tag _ _ kids _ :: r =>
    (if tag = sTable then []
     else (if tag = sTr then (let row := rowCells T ws kids; if row.isEmpty then [] else [row]) else [])
            ++ tableData kids) ++ tableData r

def colWidth (rows : List (List Str)) (i : Nat) : Nat :=
  rows.foldl (fun m row => max m (row.getD i []).length) 0

/-- `_format_table_as_text(table_data)` -/
def formatTable (rows : List (List Str)) : Str :=
  if rows.isEmpty then []
  else
    let n := rows.foldl (fun m r => max m r.length) 0
    join ['\n'] (rows.map fun row =>
      dropWhileEnd ws (join " | ".toList ((List.range n).map fun i => ljust (colWidth rows i) (row.getD i []))))

mutual
/-- `_process_node(node, depth, include_tail)` -/
def procNode (depth : Nat) (includeTail : Bool) : Node → Str
  | .mk tag _ text kids tail =>
    let tl := if includeTail then tail else []
    if T.remove.contains tag then []
    else if tag = sTable then '\n' :: formatTable ws (tableData T ws kids) ++ '\n' :: tl
    else if tag = sLi then
      List.replicate (2 * depth) ' ' ++ '-' :: ' ' ::
        collapse ws (strip ws (text ++ procKids (depth + 1) kids)) ++ '\n' :: tl
    else if headings.contains tag then
      '\n' :: collapse ws (strip ws (text ++ cellKids T kids)) ++ '\n' :: tl
    else if tag = sBr then '\n' :: tl
    else if tag = sHr then "\n---\n".toList ++ tl
    else
      let r := text ++ procKids depth kids
      (if T.block.contains tag then '\n' :: strip ws r ++ ['\n'] else r) ++ tl
/-- `for child in node["children"]: _process_node(child, depth, include_tail=True)` -/
def procKids (depth : Nat) : List Node → Str
  | [] => []
  | n :: r => procNode depth true n ++ procKids depth r
end

end

mutual
/-- `_find_node(node, tag)`: first node with that tag, pre-order -/
def findNode (t : Str) : Node → Option Node
  | .mk tag a text kids tail => if tag = t then some (.mk tag a text kids tail) else findNodes t kids
def findNodes (t : Str) : List Node → Option Node
  | [] => none
  | n :: r => match findNode t n with
    | some x => some x
    | none => findNodes t r
end

/-- the clean-up at the end of `extract` (and of `_XhtmlTextExtractor.get_text`, modulo its
    extra `[ \t]+` → " " step, see `Epub.getText`) -/
def cleanup (ws : Char → Bool) (s : Str) : Str :=
  strip ws (join ['\n'] ((splitOn '\n' (squeezeNl s)).map (strip ws)))

/-- `_HtmlTextExtractor(root).extract()` -/
def extract (T : Tables) (ws : Char → Bool) (root : Node) : Str :=
  let body := (findNode sBody root).getD root
  cleanup ws (procNode T ws 0 false body)

/-- `HtmlContent.get_full_text()` = `_join_unit_text([HtmlUnit(content.strip())])` -/
def fullText (T : Tables) (ws : Char → Bool) (root : Node) : Str := strip ws (strip ws (extract T ws root))

/-! ## The heading text before the repair (kept for the counterexample theorem)

Before fix-html-heading-breaks the heading branch of `_process_node` flattened the heading with
`_get_node_text` (still used for link texts and the title), which glues the text of all descendants
together: no blank for `<br>` or a block child. -/
namespace Legacy

mutual
/-- `_get_node_text(node, True, include_tail=False)` -/
def nodeText : Node → Str
  | .mk _ _ text kids _ => text ++ kidsText kids
/-- the loop `parts.append(self._get_node_text(child, True, include_tail=True))` -/
def kidsText : List Node → Str
  | [] => []
  | .mk _ _ text kids tail :: r => (text ++ kidsText kids) ++ tail ++ kidsText r
end

/-- the text the old heading branch printed between its two newlines -/
def headingText (ws : Char → Bool) (n : Node) : Str := collapse ws (strip ws (nodeText n))

end Legacy

/-! ## EPUB: `_XhtmlTextExtractor.get_text` on the collected `text_parts` -/
namespace Epub

/-- `re.sub(r"[ \t]+", " ", s)` -/
def collapseBlanks : Bool → Str → Str
  | _, [] => []
  | inRun, c :: r =>
    if c = ' ' || c = '\t' then (if inRun then collapseBlanks true r else ' ' :: collapseBlanks true r)
    else c :: collapseBlanks false r

/-- `get_text()` -/
def getText (ws : Char → Bool) (textParts : List Str) : Str :=
  strip ws (join ['\n'] ((splitOn '\n' (collapseBlanks false (squeezeNl (concat textParts)))).map (strip ws)))

end Epub

end S2T.C02.Ooxml.Html
