import S2T.Model.Router
/-!
Model of the archive member loops and of the 7z extract-to-temp / read-back path (C09).

  sharepoint2text/parsing/extractors/archive_extractor.py
      _should_skip_file, _process_archive_entry, _extract_from_zip_optimized,
      _extract_from_tar_optimized, _extract_from_7z_optimized, _process_7z_files_sequential
  sharepoint2text/parsing/extractors/util/sevenzip.py
      _build_file_list, extractall, _extract_files_from_folder, _mkdirs, _safe_join
  posixpath.join / normpath / abspath / dirname / basename  (CPython 3.12, POSIX)

Strings are `List Char`.  What the model does not compute is a parameter (`Env`):
`str.lower`, `mimetypes.guess_type`, the number of results a member extractor yields, the
host file system outside the private directory (`host`), the decoded bytes of every 7z folder.
The code that exists today is modelled in the `…Old` functions; the repaired code (patches
fix-7z-readback-confined, fix-nested-archive-skip-from-router) in the functions without suffix.
-/
namespace S2T.Archive
open S2T.Router (Str Tables)

/-! ## posixpath -/

/-- `s.split(sep)` as (first piece, remaining pieces). -/
def splitAux (sep : Char) : Str → Str × List Str
  | [] => ([], [])
  | c :: r =>
    let ht := splitAux sep r
    if c = sep then ([], ht.1 :: ht.2) else (c :: ht.1, ht.2)

/-- `s.split(sep)` (never empty: `"".split("/") == [""]`). -/
def splitOn (sep : Char) (s : Str) : List Str := (splitAux sep s).1 :: (splitAux sep s).2

/-- the non-empty pieces between slashes -/
def comps (p : Str) : List Str := (splitOn '/' p).filter (fun c => !c.isEmpty)

/-- `"/".join(cs)` -/
def joinSlash : List Str → Str
  | [] => []
  | [c] => c
  | c :: r => c ++ '/' :: joinSlash r

def isAbs (p : Str) : Bool := p.head? == some '/'

/-- `posixpath.join(a, b)` -/
def join (a b : Str) : Str :=
  if b.head? == some '/' then b
  else if a.isEmpty || a.getLast? == some '/' then a ++ b
  else a ++ '/' :: b

def dot : Str := ['.']
def dotdot : Str := ['.', '.']

/-- number of leading slashes `normpath` keeps (POSIX: exactly two are preserved) -/
def initialSlashes : Str → Nat
  | '/' :: '/' :: '/' :: _ => 1
  | '/' :: '/' :: _ => 2
  | '/' :: _ => 1
  | _ => 0

/-- one iteration of the component loop of `normpath`; the stack is kept top-first. -/
def normStep (abs : Bool) (st : List Str) (c : Str) : List Str :=
  if c.isEmpty || c == dot then st
  else if c != dotdot || (!abs && st.isEmpty) || (st.head? == some dotdot) then c :: st
  else st.tail

def normComps (abs : Bool) (cs : List Str) : List Str := (cs.foldl (normStep abs) []).reverse

/-- `posixpath.normpath` -/
def normpath (p : Str) : Str :=
  if p.isEmpty then dot
  else
    let k := initialSlashes p
    let r := List.replicate k '/' ++ joinSlash (normComps (k != 0) (splitOn '/' p))
    if r.isEmpty then dot else r

/-- `posixpath.abspath` with `os.getcwd()` a parameter -/
def abspath (cwd p : Str) : Str := normpath (if isAbs p then p else join cwd p)

/-- `posixpath.basename` -/
def basename (p : Str) : Str := (p.reverse.takeWhile (· != '/')).reverse

/-- `posixpath.dirname` -/
def dirname (p : Str) : Str :=
  let head := (p.reverse.dropWhile (· != '/')).reverse
  if head.any (· != '/') then (head.reverse.dropWhile (· == '/')).reverse else head

inductive Err
  | absolutePath      -- Bad7zFile "Unsupported absolute path in archive entry"
  | unsafePath        -- Bad7zFile "Unsafe path in archive entry"
  | outOfBounds       -- Bad7zFile "exceeds decompressed data bounds"
  | mkdirFailed       -- Bad7zFile "Failed to create directory"
  | writeFailed       -- Bad7zFile "Failed to write file"
  | decodeFailed      -- Bad7zFile from _decompress_folder
  | encrypted         -- ExtractionFileEncryptedError
  | badArchive        -- ExtractionFailedError (BadZipFile / TarError / Bad7zFile at open)
  deriving DecidableEq, Repr

instance {α} [DecidableEq α] : DecidableEq (Except Err α)
  | .ok a, .ok b => if h : a = b then isTrue (by rw [h]) else isFalse (by intro h'; cases h'; exact h rfl)
  | .error a, .error b => if h : a = b then isTrue (by rw [h]) else isFalse (by intro h'; cases h'; exact h rfl)
  | .ok _, .error _ => isFalse (by intro h; cases h)
  | .error _, .ok _ => isFalse (by intro h; cases h)

/-- `sevenzip._safe_join` (POSIX: `os.path.splitdrive` never finds a drive). -/
def safeJoin (cwd base rel : Str) : Except Err Str :=
  if rel.isEmpty then .ok base
  else if rel.head? == some '/' || rel.head? == some '\\' then .error .absolutePath
  else
    let baseAbs := abspath cwd base
    let target := abspath cwd (join baseAbs rel)
    if target == baseAbs then .ok target
    else if (baseAbs ++ ['/']).isPrefixOf target then .ok target
    else .error .unsafePath

/-! ## skip rules -/

/-- what the model is told about the interpreter and its environment -/
structure Env where
  lower : Str → Str                 -- `str.lower`
  mime : Str → Option Str           -- `mimetypes.guess_type(·)[0]` of a lowered name
  nres : Str → List Nat → Nat       -- how many results the member extractor chosen for (basename, bytes) yields (0 if it raises)
  host : Str → Option (Option (List Nat))   -- host file system outside the private directory: none | some none = directory | some (some bytes)

structure Limits where
  maxMemory : Nat        -- `_config.max_memory_size`
  maxEntry : Nat         -- `MAX_ARCHIVE_FILE_SIZE`

def macosxPrefix : Str := "__MACOSX/".toList

/-- the hidden / resource-fork clause of `_should_skip_file` -/
def hidden (filename bname : Str) : Bool :=
  bname.head? == some '.' || macosxPrefix.isPrefixOf filename

/-- the nested-archive clause as written today: suffix test against `NESTED_ARCHIVE_EXTENSIONS` -/
def nestedByExt (nested : List Str) (bl : Str) : Bool := nested.any (fun e => e.isSuffixOf bl)

def archiveExtractor : Str × Str :=
  ("sharepoint2text.parsing.extractors.archive_extractor".toList, "read_archive".toList)

/-- `_get_file_extractor_cached(basename) is read_archive` -/
def routesToArchive (T : Tables) (env : Env) (bl : Str) : Bool :=
  match S2T.Router.getExtractor T bl (env.mime bl) with
  | .ok mf => mf == archiveExtractor
  | .error _ => false

/-- `_should_skip_file` of the unrepaired source -/
def shouldSkipOld (T : Tables) (nested : List Str) (env : Env) (filename bname : Str) : Bool :=
  let bl := env.lower bname
  hidden filename bname || !(S2T.Router.isSupported T bl (env.mime bl)) || nestedByExt nested bl

/-- `_should_skip_file` (repaired: also skips whatever the router hands back to `read_archive`) -/
def shouldSkip (T : Tables) (nested : List Str) (env : Env) (filename bname : Str) : Bool :=
  let bl := env.lower bname
  hidden filename bname || !(S2T.Router.isSupported T bl (env.mime bl)) || nestedByExt nested bl
    || routesToArchive T env bl

/-- one extraction result: the member it came from and the bytes it was computed from -/
abbrev Res := Str × List Nat

/-- `_process_archive_entry`: oversize members yield nothing; an extractor that raises yields nothing. -/
def processEntry (env : Env) (lim : Limits) (filename bname : Str) (data : List Nat) : List Res :=
  if data.length > lim.maxEntry then []
  else List.replicate (env.nres bname data) (filename, data)

/-! ## ZIP / TAR member loops (in memory; no file-system event exists in these functions) -/

structure ZipMember where
  filename : Str
  isDir : Bool               -- `info.is_dir()`
  encrypted : Bool           -- `info.flag_bits & 1`
  fileSize : Nat             -- `info.file_size`
  read : Option (List Nat)   -- `zf.read(info)`; none = it raises (not RuntimeError)

/-- first loop of `_extract_from_zip_optimized`: filter, or fail on the first encrypted member met -/
def zipSelect (skip : Str → Str → Bool) : List ZipMember → Except Err (List ZipMember)
  | [] => .ok []
  | m :: r =>
    if m.isDir then zipSelect skip r
    else if m.encrypted then .error .encrypted
    else if skip m.filename (basename m.filename) then zipSelect skip r
    else match zipSelect skip r with
      | .ok l => .ok (m :: l)
      | .error e => .error e

/-- second loop: results per selected member, in order; a failing `zf.read` ends the generator with
    an error after the results produced so far. -/
def zipProcess (env : Env) (lim : Limits) : List ZipMember → List Res × Option Err
  | [] => ([], none)
  | m :: r =>
    if m.fileSize > lim.maxMemory then zipProcess env lim r
    else match m.read with
      | none => ([], some .badArchive)
      | some d =>
        let rest := zipProcess env lim r
        (processEntry env lim m.filename (basename m.filename) d ++ rest.1, rest.2)

def zipRun (skip : Str → Str → Bool) (env : Env) (lim : Limits) (ms : List ZipMember) : List Res × Option Err :=
  match zipSelect skip ms with
  | .error e => ([], some e)
  | .ok sel => zipProcess env lim sel

structure TarMember where
  name : Str
  isReg : Bool               -- `member.isreg()`: false for directories, sym/hard links, devices, fifos
  size : Nat
  read : Option (List Nat)   -- `tf.extractfile(member).read()`; none = returns None or raises

def tarRun (skip : Str → Str → Bool) (env : Env) (lim : Limits) : List TarMember → List Res
  | [] => []
  | m :: r =>
    if !m.isReg then tarRun skip env lim r
    else if skip m.name (basename m.name) then tarRun skip env lim r
    else if m.size > lim.maxMemory then tarRun skip env lim r
    else match m.read with
      | none => tarRun skip env lim r
      | some d => processEntry env lim m.name (basename m.name) d ++ tarRun skip env lim r

/-! ## 7z: header → file list → extractall → read back -/

structure RawEntry where
  name : Str
  emptyStream : Bool
  attrDir : Bool             -- `attributes & 0x10`

structure FileInfo where
  filename : Str
  uncompressed : Nat
  isDirectory : Bool
  emptyFile : Bool           -- the entry's index is in `_empty_file_indices`
  deriving Repr, DecidableEq

/-- first loop of `_build_file_list`.  `emptyFiles` = the PROP_EMPTY_FILE vector (one flag per
    empty-stream entry, consumed in order; a missing flag reads as false). -/
def buildFiles : List RawEntry → List Nat → List Bool → List FileInfo
  | [], _, _ => []
  | e :: r, sizes, efs =>
    let isEmptyFile := e.emptyStream && efs.headD false
    let efs' := if e.emptyStream then efs.tail else efs
    if (e.emptyStream && !isEmptyFile) || e.attrDir then ⟨e.name, 0, true, false⟩ :: buildFiles r sizes efs'
    else if isEmptyFile then ⟨e.name, 0, false, true⟩ :: buildFiles r sizes efs'
    else match sizes with
      | s :: ss => ⟨e.name, s, false, false⟩ :: buildFiles r ss efs'
      | [] => ⟨e.name, 0, false, false⟩ :: buildFiles r [] efs'

/-- second loop of `_build_file_list`: `(file index, folder index)` of the files that own a stream.
    `folders` = `num_streams` per folder. -/
def mapFiles (folders : List Nat) : List FileInfo → (i folderIdx inFolder : Nat) → List (Nat × Nat)
  | [], _, _, _ => []
  | f :: r, i, folderIdx, inFolder =>
    if f.isDirectory || folderIdx ≥ folders.length || f.emptyFile then mapFiles folders r (i + 1) folderIdx inFolder
    else
      if inFolder + 1 ≥ folders.getD folderIdx 0 then (i, folderIdx) :: mapFiles folders r (i + 1) (folderIdx + 1) 0
      else (i, folderIdx) :: mapFiles folders r (i + 1) folderIdx (inFolder + 1)

/-- file-system events the model can emit -/
inductive Ev
  | mkdtemp (p : Str)      -- tempfile.TemporaryDirectory().__enter__
  | rmtree (p : Str)       -- TemporaryDirectory.__exit__ / cleanup
  | mkdir (p : Str)        -- a directory that did not exist is created
  | write (p : Str)        -- open(p, "wb")
  | probe (p : Str)        -- os.path.exists(p)
  | read (p : Str)         -- open(p, "rb")
  deriving DecidableEq, Repr

inductive Node
  | dir
  | file (data : List Nat)
  deriving DecidableEq, Repr

/-- what exists below the private directory (latest binding first) -/
abbrev Overlay := List (Str × Node)

def olookup (p : Str) : Overlay → Option Node
  | [] => none
  | (k, v) :: r => if p == k then some v else olookup p r

structure Run where
  fs : Overlay
  evs : List Ev              -- in order of occurrence
  err : Option Err

/-- node at `p`.  The private directory and its ancestors exist and are directories; below the
    private directory only what the run created exists (it was empty when `mkdtemp` made it);
    everywhere else the host decides.  Classification is by path components (`comps`). -/
def nodeAt (env : Env) (base : Str) (fs : Overlay) (p : Str) : Option Node :=
  if (comps p).isPrefixOf (comps base) then some .dir
  else match olookup p fs with
    | some n => some n
    | none =>
      if (comps base).isPrefixOf (comps p) then none
      else match env.host p with
        | none => none
        | some none => some .dir
        | some (some d) => some (.file d)

/-- the levels of `p` strictly below `base`, top-down (`base/a`, `base/a/b`, …); for a path that is
    not below `base`: the path itself. -/
def chainBelow (base p : Str) : List Str :=
  if (comps base).isPrefixOf (comps p) then
    let rel := (comps p).drop (comps base).length
    (List.range rel.length).map (fun i => base ++ '/' :: joinSlash (rel.take (i + 1)))
  else [p]

/-- `os.makedirs(p, exist_ok=True)` through `_mkdirs`: existing directories are fine, a file in the way
    is `Bad7zFile`, missing levels are created top-down. -/
def mkdirsWalk (env : Env) (base : Str) : List Str → Run → Run
  | [], r => r
  | q :: qs, r =>
    match r.err with
    | some _ => r
    | none =>
      match nodeAt env base r.fs q with
      | some .dir => mkdirsWalk env base qs r
      | some (.file _) => { r with err := some .mkdirFailed }
      | none => mkdirsWalk env base qs { r with fs := (q, .dir) :: r.fs, evs := r.evs ++ [.mkdir q] }

def mkdirs (env : Env) (base p : Str) (r : Run) : Run := mkdirsWalk env base (chainBelow base p) r

/-- `open(p, "wb").write(data)` -/
def writeFile (env : Env) (base p : Str) (data : List Nat) (r : Run) : Run :=
  match r.err with
  | some _ => r
  | none =>
    match nodeAt env base r.fs p with
    | some .dir => { r with evs := r.evs ++ [.write p], err := some .writeFailed }
    | _ =>
      -- the parent was created by `mkdirs` just before; a missing/non-directory parent is ENOENT/ENOTDIR
      match nodeAt env base r.fs (dirname p) with
      | some .dir => { r with fs := (p, .file data) :: r.fs, evs := r.evs ++ [.write p] }
      | _ => { r with evs := r.evs ++ [.write p], err := some .writeFailed }

/-- `enumerate(l, n)` -/
def indexed {α} : List α → Nat → List (Nat × α)
  | [], _ => []
  | x :: r, n => (n, x) :: indexed r (n + 1)

/-- `wanted` of `extractall`: none = `members=None` (everything); some l = the indices of the entries passed as
    `members` (the code keeps `id(member)`; `list()` hands out the reader's own FileInfo objects, so identity is
    the position in the file list). -/
abbrev Wanted := Option (List Nat)

def isWanted (w : Wanted) (i : Nat) : Bool :=
  match w with
  | none => true
  | some l => l.contains i

/-- body of the loop of `_extract_files_from_folder` for one file; `off` is the running offset. -/
def extractOne (env : Env) (cwd base : Str) (data : List Nat) (w : Wanted) (nf : Nat × FileInfo) (st : Run × Nat) : Run × Nat :=
  let (r, off) := st
  let f := nf.2
  match r.err with
  | some _ => st
  | none =>
    if !isWanted w nf.1 then
      -- not requested: step over its bytes without writing anything
      (r, if f.isDirectory then off else off + f.uncompressed)
    else if f.isDirectory then
      match safeJoin cwd base f.filename with
      | .error e => ({ r with err := some e }, off)
      | .ok p => (mkdirs env base p r, off)
    else if off + f.uncompressed > data.length then ({ r with err := some .outOfBounds }, off)
    else
      match safeJoin cwd base f.filename with
      | .error e => ({ r with err := some e }, off)
      | .ok p =>
        let parent := dirname p
        let r1 := if parent.isEmpty then r else mkdirs env base parent r
        (writeFile env base p ((data.drop off).take f.uncompressed) r1, off + f.uncompressed)

/-- `_extract_files_from_folder` -/
def extractFolder (env : Env) (cwd base : Str) (data : List Nat) (w : Wanted) (fs : List (Nat × FileInfo)) (r : Run) : Run :=
  (fs.foldl (fun st nf => extractOne env cwd base data w nf st) (r, 0)).1

/-- `_needed_output`: end offset of the last requested file of a folder (none if there is none) -/
def neededOutput (w : Wanted) : List (Nat × FileInfo) → Nat → Option Nat → Option Nat
  | [], _, needed => needed
  | nf :: r, off, needed =>
    if nf.2.isDirectory then neededOutput w r off needed
    else
      let off' := off + nf.2.uncompressed
      neededOutput w r off' (if isWanted w nf.1 then some off' else needed)

/-- what `extractall` does with a folder: none = skip it undecoded; some m = decode it, at most `m` bytes if given -/
def folderPlan (w : Wanted) (mine : List (Nat × FileInfo)) : Option (Option Nat) :=
  match w with
  | none => some none
  | some _ =>
    match neededOutput w mine 0 none with
    | none => none
    | some m => some (some m)

/-- `max_output` of the decoders: the decoded bytes are a prefix -/
def truncTo (m : Option Nat) (d : List Nat) : List Nat :=
  match m with
  | none => d
  | some m => d.take m

/-- folder loop of `extractall`: `folderData[k]` = decoded bytes of folder k (none = `_decompress_folder` raises).
    With `members` given, a folder holding no requested member is not decoded at all and the others are decoded
    no further than the end of their last requested member. -/
def extractAll (env : Env) (cwd base : Str) (files : List FileInfo) (fmap : List (Nat × Nat))
    (folderData : List (Option (List Nat))) (w : Wanted) : (k : Nat) → List Nat → Run → Run
  | _, [], r => r
  | k, _ :: rest, r =>
    match r.err with
    | some _ => r
    | none =>
      let mine := (fmap.filter (fun ij => ij.2 == k)).filterMap (fun ij => (files[ij.1]?).map (fun f => (ij.1, f)))
      if mine.isEmpty then extractAll env cwd base files fmap folderData w (k + 1) rest r
      else match folderPlan w mine with
        | none => extractAll env cwd base files fmap folderData w (k + 1) rest r   -- nothing requested: not decoded
        | some maxOut =>
          match folderData.getD k none with
          | none => { r with err := some .decodeFailed }
          | some d =>
            extractAll env cwd base files fmap folderData w (k + 1) rest (extractFolder env cwd base (truncTo maxOut d) w mine r)

/-- body of the empty-file loop at the end of `extractall`: `_safe_join`, `_mkdirs(dirname)`, `open(…, "wb")` -/
def writeEmpty (env : Env) (cwd base : Str) (f : FileInfo) (r : Run) : Run :=
  match r.err with
  | some _ => r
  | none =>
    match safeJoin cwd base f.filename with
    | .error e => { r with err := some e }
    | .ok p =>
      let parent := dirname p
      let r1 := if parent.isEmpty then r else mkdirs env base parent r
      writeFile env base p [] r1

/-- `for file_idx in self._empty_file_indices: if wanted …: continue; …` -/
def extractEmpties (env : Env) (cwd base : Str) (files : List FileInfo) (w : Wanted) (r : Run) : Run :=
  ((indexed files 0).filter (fun nf => nf.2.emptyFile && isWanted w nf.1)).foldl (fun r nf => writeEmpty env cwd base nf.2 r) r

/-- `extractall` as a whole: the folders, then (if nothing raised) the empty files -/
def extractAllFull (env : Env) (cwd base : Str) (files : List FileInfo) (fmap : List (Nat × Nat))
    (folderData : List (Option (List Nat))) (folders : List Nat) (w : Wanted) (r : Run) : Run :=
  extractEmpties env cwd base files w (extractAll env cwd base files fmap folderData w 0 folders r)

/-- pre-filter of `_extract_from_7z_optimized`: (position in the file list, entry) of what will be processed -/
def select7z (skip : Str → Str → Bool) (lim : Limits) (files : List FileInfo) : List (Nat × FileInfo) :=
  (indexed files 0).filter (fun nf => !nf.2.isDirectory && !skip nf.2.filename (basename nf.2.filename) && !(nf.2.uncompressed > lim.maxMemory))

/-- one generator step of the read-back loop: events, then the results yielded -/
structure Step where
  evs : List Ev
  res : List Res

/-- `_process_7z_files_sequential` of the unrepaired source: `os.path.join(temp_dir, filename)` -/
def readBackOld (env : Env) (lim : Limits) (base : Str) (fs : Overlay) (f : FileInfo) : Step :=
  let p := join base f.filename
  -- the kernel resolves `..`; nothing in the private directory is a symbolic link, so lexically
  match nodeAt env base fs (normpath p) with
  | none => ⟨[.probe p], []⟩
  | some .dir => ⟨[.probe p, .read p], []⟩          -- IsADirectoryError, swallowed
  | some (.file d) => ⟨[.probe p, .read p], processEntry env lim f.filename (basename f.filename) d⟩

/-- `_process_7z_files_sequential` (repaired): the path is resolved with `_safe_join`, exactly as
    `extractall` resolved it when writing. -/
def readBack (env : Env) (lim : Limits) (cwd base : Str) (fs : Overlay) (f : FileInfo) : Step :=
  match safeJoin cwd base f.filename with
  | .error _ => ⟨[], []⟩                               -- Bad7zFile, swallowed by `except Exception`
  | .ok p =>
    match nodeAt env base fs p with
    | none => ⟨[.probe p], []⟩
    | some .dir => ⟨[.probe p, .read p], []⟩
    | some (.file d) => ⟨[.probe p, .read p], processEntry env lim f.filename (basename f.filename) d⟩

/-- how the caller drives the generator -/
inductive Consumer
  | exhaust
  | closeAfter (k : Nat)     -- takes k results, then `close()` (or raises itself and drops the generator)
  deriving DecidableEq, Repr

/-- run the steps lazily until `k` results have been handed out (`none` = no limit).  Returns the
    events that happened, the results handed out, and whether the generator was still suspended
    (i.e. it was closed early). -/
def consume : Option Nat → List Step → List Ev × List Res × Bool
  | _, [] => ([], [], false)
  | none, s :: r =>
    let t := consume none r
    (s.evs ++ t.1, s.res ++ t.2.1, t.2.2)
  | some k, s :: r =>
    if s.res.length ≥ k then (s.evs, s.res.take k, true)       -- k ≥ 1 here: closed at the k-th yield
    else
      let t := consume (some (k - s.res.length)) r
      (s.evs ++ t.1, s.res ++ t.2.1, t.2.2)

inductive Outcome
  | finished            -- StopIteration
  | closed              -- GeneratorExit delivered at a yield
  | failed (e : Err)    -- ExtractionFailedError out of the generator
  | notStarted          -- closed before the first `next()`: the body never ran
  deriving DecidableEq, Repr

structure Trace where
  evs : List Ev
  res : List Res
  out : Outcome

structure SevenZ where
  entries : List RawEntry
  fileSizes : List Nat                      -- `_file_sizes`
  emptyFiles : List Bool                    -- PROP_EMPTY_FILE vector
  folders : List Nat                        -- `num_streams` per folder
  folderData : List (Option (List Nat))

/-- `_extract_from_7z_optimized` as a whole, for one consumer.  `readStep` is the read-back body. -/
def run7zWith (readStep : Overlay → FileInfo → Step) (skip : Str → Str → Bool) (env : Env) (lim : Limits)
    (cwd base : Str) (a : SevenZ) (c : Consumer) : Trace :=
  if c = .closeAfter 0 then ⟨[], [], .notStarted⟩
  else
    let files := buildFiles a.entries a.fileSizes a.emptyFiles
    let fmap := mapFiles a.folders files 0 0 0
    let todo := select7z skip lim files
    -- with tempfile.TemporaryDirectory() as temp_dir:
    -- szf.extractall(path=temp_dir, members=[file_info for file_info, _, _ in files_to_process])
    let r := extractAllFull env cwd base files fmap a.folderData a.folders (some (todo.map (·.1))) ⟨[], [], none⟩
    match r.err with
    | some e => ⟨[.mkdtemp base] ++ r.evs ++ [.rmtree base], [], .failed e⟩
    | none =>
      let steps := todo.map (fun nf => readStep r.fs nf.2)
      let lim' := match c with | .exhaust => none | .closeAfter k => some k
      let t := consume lim' steps
      ⟨[.mkdtemp base] ++ r.evs ++ t.1 ++ [.rmtree base], t.2.1, if t.2.2 then .closed else .finished⟩

def run7z (T : Tables) (nested : List Str) (env : Env) (lim : Limits) (cwd base : Str) (a : SevenZ) (c : Consumer) : Trace :=
  run7zWith (readBack env lim cwd base) (shouldSkip T nested env) env lim cwd base a c

def run7zOld (T : Tables) (nested : List Str) (env : Env) (lim : Limits) (cwd base : Str) (a : SevenZ) (c : Consumer) : Trace :=
  run7zWith (readBackOld env lim base) (shouldSkipOld T nested env) env lim cwd base a c

/-! ## trace acceptor for what the audit hook observed on the real code -/

inductive FsEvent
  | mkdtemp (p : Str)
  | rmtree (p : Str) (goneAfter : Bool)
  | mkdir (p : Str)
  | mkdirExisting (p : Str)          -- os.mkdir that fails without effect: the target exists (EEXIST) or its parent is not an existing directory (ENOTDIR/ENOENT)
  | openW (p : Str)
  | openR (p : Str)
  | stat (p : Str)
  | remove (p : Str)
  | rmdir (p : Str)
  | listdir (p : Str)
  | other (what : Str) (p : Str)     -- rename, symlink, link, chmod, truncate, … : never acceptable
  deriving DecidableEq, Repr

structure Cfg where
  tmpRoot : Str                      -- tempfile.gettempdir()
  roPrefixes : List Str              -- interpreter / package directories that may be read (imports, data tables)

/-- `p` is lexically inside the directory `d`: its components extend `d`'s and none of the added ones is `..` -/
def within (d p : Str) : Bool :=
  (comps d).isPrefixOf (comps p) && ((comps p).drop (comps d).length).all (fun c => c != dotdot && c != dot)

def inLive (live : List Str) (p : Str) : Bool := isAbs p && live.any (fun d => within d p)

def roOk (cfg : Cfg) (p : Str) : Bool :=
  isAbs p && !(comps p).contains dotdot && cfg.roPrefixes.any (fun d => within d p)

/-- one event against the set of live private directories -/
def stepOk (cfg : Cfg) (live : List Str) : FsEvent → Option (List Str)
  | .mkdtemp p =>
    if isAbs p && within cfg.tmpRoot p && (comps p).length == (comps cfg.tmpRoot).length + 1 && !live.contains p
    then some (p :: live) else none
  | .rmtree p gone => if live.contains p && gone then some (live.erase p) else none
  | .mkdir p => if inLive live p then some live else none
  | .mkdirExisting _ => some live
  | .openW p => if inLive live p then some live else none
  | .openR p => if inLive live p || roOk cfg p then some live else none
  | .stat p =>
    -- looking at a private directory's own ancestors (os.makedirs does) reveals nothing of the host
    if inLive live p || roOk cfg p || (isAbs p && live.any (fun d => (comps p).isPrefixOf (comps d))) then some live else none
  | .remove p => if inLive live p then some live else none
  | .rmdir p => if inLive live p then some live else none
  | .listdir p => if inLive live p || roOk cfg p then some live else none
  | .other _ _ => none

def confinedFrom (cfg : Cfg) : List Str → List FsEvent → Bool
  | live, [] => live.isEmpty
  | live, e :: r =>
    match stepOk cfg live e with
    | none => false
    | some live' => confinedFrom cfg live' r

/-- the acceptor: every event stays inside a live private directory (or reads the installation), and
    every private directory is removed before the trace ends -/
def confined (cfg : Cfg) (t : List FsEvent) : Bool := confinedFrom cfg [] t

/-- index of the first rejected event (for reports) -/
def firstBad (cfg : Cfg) : List Str → List FsEvent → Nat → Option Nat
  | live, [], i => if live.isEmpty then none else some i
  | live, e :: r, i =>
    match stepOk cfg live e with
    | none => some i
    | some live' => firstBad cfg live' r (i + 1)

/-- the model's own events in the acceptor's vocabulary -/
def Ev.toFs : Ev → FsEvent
  | .mkdtemp p => .mkdtemp p
  | .rmtree p => .rmtree p true
  | .mkdir p => .mkdir p
  | .write p => .openW p
  | .probe p => .stat p
  | .read p => .openR p

end S2T.Archive
