/-
Syntax of the regular expressions the library compiles (C01, termination of the library's own pattern
matching).  `S2T.Gen.Regexes` holds, for every pattern of the CURRENT source, the parse tree CPython's own
`re._parser` produces, transcribed into `Re`.  A backtracking matcher (CPython's `sre`) explores, for one start
position, at most polynomially many paths in the input length when no unbounded repeat contains another
unbounded repeat that can match the same text in several ways; the cheap syntactic over-approximation of that
danger used here is the *star height* (depth of nesting of unbounded repeats).  Star height ≤ 1 does not make
a pattern linear and star height 2 does not make it exponential (`(?:\{[^}]*\}\s*)+` is unambiguous) — the
analysis only decides WHICH patterns need a human reading (`reviewedNested` in `Model/RegexInventory.lean`);
the cost of every pattern is attacked on every run by pumping (harness/props/c01.py).
-/
namespace S2T.Regex

inductive Re where
  | eps
  | chr (desc : String)                              -- consumes exactly one character (literal, class, `.`, category)
  | zero (desc : String)                             -- zero-width assertion without a sub-pattern (`^ $ \b`)
  | look (neg behind : Bool) (r : Re)                -- look-ahead / look-behind
  | cat (a b : Re)
  | alt (a b : Re)
  | rep (lo : Nat) (hi : Option Nat) (lazy_ : Bool) (r : Re)   -- `hi = none`: no upper bound
  | atomic (r : Re)                                  -- atomic group / possessive repeat: never re-entered
  | backref (n : Nat)
  deriving DecidableEq, Repr

/-- a repeat counts as unbounded when it has no upper bound or one of at least 16 -/
def unbounded : Option Nat → Bool
  | none => true
  | some h => decide (16 ≤ h)

/-- depth of nesting of unbounded repeats -/
def starHeight : Re → Nat
  | .eps | .chr _ | .zero _ | .backref _ => 0
  | .look _ _ r => starHeight r
  | .cat a b | .alt a b => max (starHeight a) (starHeight b)
  | .rep _ hi _ r => starHeight r + (if unbounded hi then 1 else 0)
  | .atomic r => starHeight r

/-- the pattern contains an unbounded repeat -/
def hasUnb : Re → Bool
  | .eps | .chr _ | .zero _ | .backref _ => false
  | .look _ _ r => hasUnb r
  | .cat a b | .alt a b => hasUnb a || hasUnb b
  | .rep _ hi _ r => unbounded hi || hasUnb r
  | .atomic r => hasUnb r

/-- an unbounded repeat whose body contains an unbounded repeat -/
def nested : Re → Bool
  | .eps | .chr _ | .zero _ | .backref _ => false
  | .look _ _ r => nested r
  | .cat a b | .alt a b => nested a || nested b
  | .rep _ hi _ r => (unbounded hi && hasUnb r) || nested r
  | .atomic r => nested r

/-- number of unbounded repeats (= number of pumping targets the search attacks) -/
def unbCount : Re → Nat
  | .eps | .chr _ | .zero _ | .backref _ => 0
  | .look _ _ r => unbCount r
  | .cat a b | .alt a b => unbCount a + unbCount b
  | .rep _ hi _ r => unbCount r + (if unbounded hi then 1 else 0)
  | .atomic r => unbCount r

/-- one inventoried pattern: file, pattern text (`s:`/`b:` + source text), flags (without re.UNICODE),
    origin (`ast` literal in the source / `run` built dynamically, seen at run time), parse tree -/
structure Entry where
  file : String
  pat : String
  flags : Nat
  origin : String
  re : Re
  deriving Repr

abbrev Key := String × String × Nat
def Entry.key (e : Entry) : Key := (e.file, e.pat, e.flags)

end S2T.Regex
