import S2T.Model.Serial
/-!
# Process state of `serialization.py`: the lazily populated `_TYPE_REGISTRY`

`serialization.py` keeps ONE piece of state that outlives a call: the module-level dict `_TYPE_REGISTRY`
(empty at import).  `_get_type_registry()` is

    if _TYPE_REGISTRY: return _TYPE_REGISTRY          -- guard: "non-empty means fully populated"
    for name in dir(data_types): … _TYPE_REGISTRY[name] = obj
    return _TYPE_REGISTRY

and is called by `_deserialize_value` / `_deserialize_dataclass` only.  A process is modelled by the list of
names the registry holds (`Reg`); a *history* is any sequence of library calls (`Op`).  Which functions write
the registry is a parameter (`SerEffect`): for the current source the translator's inventory
(`S2T/Gen/SerialState.lean`: every mention of every state cell of the serialisation path, classified) says the
serialiser does not touch it; the variant `registersWritten` is the machine in which the serialiser records the
classes it writes (kept to show that the purity obligation is needed: `C05_cex_history_registering_serialiser`).

A registry holding only the names `r` makes the deserialiser behave as with the class table `S.restrict r`:
both `type_name in registry` (marker resolution) and `expected_type.__name__ in registry` (type-directed step)
are lookups by name in that dict.

Core Lean only.
-/
namespace S2T.SerialState
open S2T.Serial

/-- the keys of `_TYPE_REGISTRY` -/
abbrev Reg := List Str

def names (S : Schema) : Reg := S.map (·.name)

/-- the class table a registry holding exactly the names `r` amounts to -/
def restrict (S : Schema) (r : Reg) : Schema := S.filter (fun c => r.contains c.name)

/-- `_get_type_registry()`: non-empty ⇒ returned as is; empty ⇒ filled with every dataclass of `data_types` -/
def loadRegistry (S : Schema) (r : Reg) : Reg := if r.isEmpty then names S else r

/-- what the serialiser does to the registry -/
inductive SerEffect
  | pure               -- nothing (current source: no write site reachable from `serialize_extraction`)
  | registersWritten   -- `_TYPE_REGISTRY.setdefault(type(value).__name__, type(value))` for every instance written
  deriving DecidableEq, Repr, Inhabited

mutual
/-- class names of the dataclass instances the serialiser visits, in visiting order -/
def written : PyVal → List Str
  | .obj c fs => c :: writtenFields fs
  | .list xs => writtenList xs
  | .tuple xs => writtenList xs
  | .set xs => writtenList xs
  | .dict kvs => writtenKVs kvs
  | _ => []
def writtenList : List PyVal → List Str
  | [] => []
  | x :: xs => written x ++ writtenList xs
def writtenKVs : List (Key × PyVal) → List Str
  | [] => []
  | (_, v) :: r => written v ++ writtenKVs r
def writtenFields : List (Str × PyVal) → List Str
  | [] => []
  | (_, v) :: r => written v ++ writtenFields r
end

/-- `dict.setdefault(name, cls)` for each name -/
def addAll (r : Reg) : List Str → Reg
  | [] => r
  | n :: ns => addAll (if r.contains n then r else r ++ [n]) ns

/-- one library call -/
inductive Op
  /-- `serialize_extraction(v, include_binary=b)` (= `v.to_json()` for `b = true`, the CLI payload of one result) -/
  | toJson (b : Bool) (v : PyVal)
  /-- `ExtractionInterface.from_json(j)` = `deserialize_extraction(j)` -/
  | fromJson (j : PyVal)
  deriving Repr, Inhabited

inductive Out
  | json (j : PyVal)
  | back (r : Except Err PyVal)
  deriving Repr, Inhabited

/-- `deserialize_extraction` reaches `_get_type_registry()` only after its two argument checks -/
def reachesRegistry : PyVal → Bool
  | .dict kvs => (dget kType kvs).isSome
  | _ => false

/-- one call in a process whose registry holds `r`: what it returns and the registry afterwards -/
def step (S : Schema) (eff : SerEffect) (r : Reg) : Op → Out × Reg
  | .toJson b v =>
      (.json (serializeExtraction b v),
       match eff with
       | .pure => r
       | .registersWritten => addAll r (written v))
  | .fromJson j =>
      let r' := if reachesRegistry j then loadRegistry S r else r
      (.back (deserializeExtraction (restrict S r') j), r')

/-- a whole history, from the registry `r` -/
def run (S : Schema) (eff : SerEffect) : Reg → List Op → List Out
  | _, [] => []
  | r, op :: ops => (step S eff r op).1 :: run S eff (step S eff r op).2 ops

/-- the same call with no history behind it: the stateless functions the other C05 theorems are about -/
def stateless (S : Schema) : Op → Out
  | .toJson b v => .json (serializeExtraction b v)
  | .fromJson j => .back (deserializeExtraction S j)

end S2T.SerialState
