import S2T.Model.Serial
/-!
# Restored objects own their streams: the heap of `io.BytesIO` objects `from_json` hands out

`PyVal.bytesio b` describes a stream by its buffer only.  What a caller does with a restored object — read the
attachment streams one after the other, close one, restore the same JSON again — depends on more: every
`io.BytesIO` is an *object* with a cursor and a closed flag, and two positions of restored objects may or may
not be the same object.  Here a process is a heap of stream objects (address = index, allocation appends); a
`from_json` call whose result holds streams with payloads `ps` (`leaves w`, in construction order) obtains one
address per payload from the decoder `_base64_to_bytesio`, and the decoder is a parameter (`Alloc`):

* `fresh`  `return io.BytesIO(base64.b64decode(…))` — a new object per call (current source; tie:
            `S2T.Gen.SerialSites.returns` + `S2T.Gen.SerialState.cells`, re-decided on every run);
* `memo`   the decoder is memoised by its argument (`functools.lru_cache`): equal payloads get the object
            made for the first of them — kept to show what the obligation is for (`C05_cex_memoised_decoder`).

A *history* (`HOp`) interleaves `from_json` calls with stream operations on addresses handed out before.

Core Lean only.
-/
namespace S2T.SerialHeap
open S2T.Serial

/-- one `io.BytesIO` object -/
structure Stream where
  buf : List Nat
  pos : Nat
  closed : Bool
  deriving Repr, DecidableEq, Inhabited

abbrev Addr := Nat
abbrev Heap := List Stream

/-- a stream as its constructor leaves it -/
def mk (p : List Nat) : Stream := ⟨p, 0, false⟩

inductive Alloc
  | fresh
  | memo
  deriving DecidableEq, Repr, Inhabited

mutual
/-- payloads of the `io.BytesIO` leaves of a value, in the order the deserialiser constructs them -/
def leaves : PyVal → List (List Nat)
  | .bytesio b => [b]
  | .obj _ fs => leavesFields fs
  | .list xs => leavesList xs
  | .tuple xs => leavesList xs
  | .set xs => leavesList xs
  | .dict kvs => leavesKVs kvs
  | _ => []
def leavesList : List PyVal → List (List Nat)
  | [] => []
  | x :: xs => leaves x ++ leavesList xs
def leavesKVs : List (Key × PyVal) → List (List Nat)
  | [] => []
  | (_, v) :: r => leaves v ++ leavesKVs r
def leavesFields : List (Str × PyVal) → List (List Nat)
  | [] => []
  | (_, v) :: r => leaves v ++ leavesFields r
end

structure State where
  heap : Heap
  /-- the decoder's cache: payload ↦ the object made for it (used by `.memo` only) -/
  cache : List (List Nat × Addr)
  deriving Repr, Inhabited

def State.empty : State := ⟨[], []⟩

def cacheFind (c : List (List Nat × Addr)) (p : List Nat) : Option Addr :=
  (c.find? (fun e => e.1 == p)).map (·.2)

/-- one call of `_base64_to_bytesio` -/
def allocOne (al : Alloc) (st : State) (p : List Nat) : State × Addr :=
  match al with
  | .fresh => (⟨st.heap ++ [mk p], st.cache⟩, st.heap.length)
  | .memo =>
    match cacheFind st.cache p with
    | some a => (st, a)
    | none => (⟨st.heap ++ [mk p], (p, st.heap.length) :: st.cache⟩, st.heap.length)

/-- the decoder calls of one `from_json` -/
def allocAll (al : Alloc) (st : State) : List (List Nat) → State × List Addr
  | [] => (st, [])
  | p :: ps =>
    let r := allocOne al st p
    let r' := allocAll al r.1 ps
    (r'.1, r.2 :: r'.2)

/-- what a caller does with a stream it holds -/
inductive SOp
  | read        -- `s.read()`
  | close       -- `s.close()`
  | getvalue    -- `s.getvalue()` (what `to_json` needs of it; the serialiser restores the cursor)
  | rewind      -- `s.seek(0)` (what `get_bytes()` of an image does before handing the stream out)
  deriving DecidableEq, Repr, Inhabited

instance : DecidableEq (Except Err (List Nat))
  | .ok a, .ok b => if h : a = b then isTrue (by rw [h]) else isFalse (by intro h'; cases h'; exact h rfl)
  | .error a, .error b => if h : a = b then isTrue (by rw [h]) else isFalse (by intro h'; cases h'; exact h rfl)
  | .ok _, .error _ => isFalse (by intro h; cases h)
  | .error _, .ok _ => isFalse (by intro h; cases h)

/-- CPython's `io.BytesIO`: operations on a closed stream raise `ValueError` (close itself does not) -/
def streamStep (s : Stream) : SOp → Except Err (List Nat) × Stream
  | .read => if s.closed then (.error .valueError, s) else (.ok (s.buf.drop s.pos), { s with pos := max s.pos s.buf.length })
  | .close => (.ok [], { s with closed := true })
  | .getvalue => if s.closed then (.error .valueError, s) else (.ok s.buf, s)
  | .rewind => if s.closed then (.error .valueError, s) else (.ok [], { s with pos := 0 })

def heapStep (h : Heap) (a : Addr) (op : SOp) : Except Err (List Nat) × Heap :=
  match h[a]? with
  | none => (.error .valueError, h)
  | some s => ((streamStep s op).1, h.set a (streamStep s op).2)

/-- one step of a history -/
inductive HOp
  /-- a `from_json` call whose result holds streams with these payloads -/
  | restore (ps : List (List Nat))
  /-- an operation on the stream object at `a` -/
  | stream (a : Addr) (op : SOp)
  deriving Repr, Inhabited

def hstep (al : Alloc) (st : State) : HOp → State
  | .restore ps => (allocAll al st ps).1
  | .stream a op => { st with heap := (heapStep st.heap a op).2 }

def hrun (al : Alloc) : State → List HOp → State
  | st, [] => st
  | st, op :: ops => hrun al (hstep al st op) ops

/-- the step addresses the stream object at `a` -/
def touches (a : Addr) : HOp → Bool
  | .restore _ => false
  | .stream b _ => b == a

/-- streams of the value `from_json` returns for the JSON `j` -/
def restoredLeaves (S : Schema) (j : PyVal) : List (List Nat) :=
  match deserializeExtraction S j with
  | .ok w => leaves w
  | .error _ => []

/-- `to_json()` of a restored object whose streams live at `addrs`: needs every one of them open -/
def observable (h : Heap) (addrs : List Addr) : Bool :=
  addrs.all (fun a => match h[a]? with | some s => !s.closed | none => false)

end S2T.SerialHeap
