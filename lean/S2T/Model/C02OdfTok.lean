/-
Python string primitives used by the C02 'odf' part (ODF family, RTF, PPT, XLS, plain text):
`str.split()` (no argument), `str.strip()`, `"sep".join`, over `List Char`, parameterised by the
whitespace predicate `p` (instantiated with the interpreter's `str.isspace` table in `S2T.Gen.C02Odf`).
Core Lean only (the driver links this file).
-/
namespace S2T.Tok

abbrev Str := List Char

/-- `(h, t)`: `h` = the characters before the first whitespace of the input, `t` = the complete tokens after it -/
def toks {α} (p : α → Bool) : List α → List α × List (List α)
  | [] => ([], [])
  | c :: r =>
    let ht := toks p r
    if p c then ([], if ht.1 = [] then ht.2 else ht.1 :: ht.2) else (c :: ht.1, ht.2)

def glue {α} (ht : List α × List (List α)) : List (List α) := if ht.1 = [] then ht.2 else ht.1 :: ht.2

/-- `s.split()`: the maximal runs of non-whitespace characters, in order -/
def tokens {α} (p : α → Bool) (s : List α) : List (List α) := glue (toks p s)

def lstrip {α} (p : α → Bool) (s : List α) : List α := s.dropWhile p
def rstrip {α} (p : α → Bool) (s : List α) : List α := (s.reverse.dropWhile p).reverse
/-- `s.strip()` -/
def strip {α} (p : α → Bool) (s : List α) : List α := rstrip p (lstrip p s)
/-- `not s.strip()` -/
def blank {α} (p : α → Bool) (s : List α) : Bool := s.all p

/-- `sep.join(l)` -/
def join {α} (sep : List α) : List (List α) → List α
  | [] => []
  | [a] => a
  | a :: b :: r => a ++ sep ++ join sep (b :: r)

def joinNl (l : List Str) : Str := join ['\n'] l

/-- `" ".join(s.split())` -/
def normWs (p : Char → Bool) (s : Str) : Str := join [' '] (tokens p s)

/-- `s.split(sep)` for a one-character separator: always at least one piece -/
def splitOn {α} [DecidableEq α] (sep : α) : List α → List (List α)
  | [] => [[]]
  | c :: r =>
    match splitOn sep r with
    | [] => [[]]          -- unreachable
    | h :: t => if c = sep then [] :: h :: t else (c :: h) :: t

def isWsTab (ws : List Nat) (c : Char) : Bool := ws.contains c.toNat

end S2T.Tok
