/-!
# S2T.Reuse — an object reused from call to call; a table handed out by reference

Two ways to keep history between extractions that are not a write to a named module-level container:

* a STATEFUL OBJECT kept at module level (per process or per thread) and prepared for the next document by a `reset`:
  the next result is independent of the history exactly when the reset puts EVERY field the run reads back to its initial
  value.  `P` is the state of an event-driven text collector (`_XhtmlTextExtractor`, `_HtmlTreeBuilder`, ... : collected
  output + depth inside removed elements); `partialReset` clears the output only.
* a module-level TABLE passed as an argument to a helper that updates its parameter in place (`ns.update(...)`):
  the table of the module is the parameter (`byRef`); a helper that works on a copy leaves it alone (`byCopy`).
-/
namespace S2T.Reuse

/-- generic: any state machine `step`/`out` started from `reset s` — if the reset is total, the previous state `s`
    (= the whole history of the object) is irrelevant -/
theorem total_reset_forgets {S I O : Type} (step : S → I → S) (out : S → O) (init : S) (reset : S → S)
    (h : ∀ s, reset s = init) (s : S) (doc : List I) :
    out (doc.foldl step (reset s)) = out (doc.foldl step init) := by rw [h]

structure P where
  out : List Nat
  skip : Nat
  deriving DecidableEq, Repr

inductive Ev where
  | text (n : Nat)
  | openSkip
  | closeSkip
  deriving DecidableEq, Repr

def feed (p : P) : Ev → P
  | .text n => if p.skip = 0 then { p with out := p.out ++ [n] } else p
  | .openSkip => { p with skip := p.skip + 1 }
  | .closeSkip => { p with skip := p.skip - 1 }

def fresh : P := ⟨[], 0⟩
def run (p : P) (doc : List Ev) : P := doc.foldl feed p
def fullReset (_ : P) : P := fresh
def partialReset (p : P) : P := { p with out := [] }

/-- one extraction with the object the previous extraction left behind, prepared by `r` -/
def extract (r : P → P) (left : P) (doc : List Ev) : P := run (r left) doc

/-- the state of the object after a whole history of documents -/
def after (r : P → P) (hist : List (List Ev)) : P := hist.foldl (extract r) fresh

/-- the table of a module: prefix ↦ URI -/
abbrev Tbl := Nat → Nat
def upd (t : Tbl) (k v : Nat) : Tbl := fun x => if x = k then v else t x
/-- the helper updates the mapping it was given when the document is `legacy`; returns (module table afterwards, table used) -/
def byRef (t : Tbl) (legacy : Bool) (k v : Nat) : Tbl × Tbl := if legacy then (upd t k v, upd t k v) else (t, t)
def byCopy (t : Tbl) (legacy : Bool) (k v : Nat) : Tbl × Tbl := if legacy then (t, upd t k v) else (t, t)

end S2T.Reuse
