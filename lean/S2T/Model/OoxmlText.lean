/-
C02 (part "ooxml"): Python string operations used by the text walkers of
docx_extractor / pptx_extractor / xlsx_extractor / html_extractor / epub_extractor, over `List Char`,
and the element tree the OOXML walkers recurse over.  Core Lean only.

`ws : Char → Bool` is `str.isspace` for one character (what `str.strip()`, `str.split()` and the
regex class `\s` test); the generated instance is `S2T.Gen.Ooxml.isPySpace`.
-/
namespace S2T.C02.Ooxml

abbrev Str := List Char

/-- `s.rstrip(chars)` for a character predicate -/
def dropWhileEnd (p : Char → Bool) (s : Str) : Str := (s.reverse.dropWhile p).reverse

/-- `s.strip()` (p = isspace) / `s.strip("\n")` (p = (· == '\n')) -/
def strip (p : Char → Bool) (s : Str) : Str := dropWhileEnd p (s.dropWhile p)

/-- `sep.join(parts)` -/
def join (sep : Str) : List Str → Str
  | [] => []
  | [x] => x
  | x :: y :: r => x ++ sep ++ join sep (y :: r)

/-- `"".join(parts)` -/
def concat : List Str → Str
  | [] => []
  | x :: r => x ++ concat r

/-- `bool(s.strip())` -/
def nonblank (ws : Char → Bool) (s : Str) : Bool := s.any (fun c => !ws c)

def wordsAux (ws : Char → Bool) : Str → Str → List Str
  | [], cur => if cur.isEmpty then [] else [cur]
  | c :: r, cur =>
    if ws c then (if cur.isEmpty then wordsAux ws r [] else cur :: wordsAux ws r [])
    else wordsAux ws r (cur ++ [c])

/-- `s.split()`: the maximal runs of non-space characters, in order -/
def words (ws : Char → Bool) (s : Str) : List Str := wordsAux ws s []

/-- `re.sub(r"\s+", " ", s)`; `inRun` = the previous character was whitespace -/
def collapseAux (ws : Char → Bool) : Bool → Str → Str
  | _, [] => []
  | inRun, c :: r =>
    if ws c then (if inRun then collapseAux ws true r else ' ' :: collapseAux ws true r)
    else c :: collapseAux ws false r

def collapse (ws : Char → Bool) (s : Str) : Str := collapseAux ws false s

/-- `re.sub(r"\n{3,}", "\n\n", s)`; `n` = length of the pending run of newlines -/
def squeezeNlAux : Nat → Str → Str
  | n, [] => List.replicate (if n ≥ 3 then 2 else n) '\n'
  | n, c :: r =>
    if c = '\n' then squeezeNlAux (n + 1) r
    else List.replicate (if n ≥ 3 then 2 else n) '\n' ++ c :: squeezeNlAux 0 r

def squeezeNl (s : Str) : Str := squeezeNlAux 0 s

/-- `s.split(c)` for a single character: always at least one piece -/
def splitOnAux (c : Char) : Str → Str → List Str
  | [], cur => [cur]
  | x :: r, cur => if x = c then cur :: splitOnAux c r [] else splitOnAux c r (cur ++ [x])

def splitOn (c : Char) (s : Str) : List Str := splitOnAux c s []

/-- `s.ljust(n)` / `s.rjust(n)` -/
def ljust (n : Nat) (s : Str) : Str := s ++ List.replicate (n - s.length) ' '
def rjust (n : Nat) (s : Str) : Str := List.replicate (n - s.length) ' ' ++ s

/-- `s.endswith(suffix)` -/
def endsWith (s suffix : Str) : Bool := suffix.reverse.isPrefixOf s.reverse

/-! ## Element tree of the OOXML walkers

Only what the walkers read: the tag (classified, see `Tag`), the attributes, `elem.text`, the children.
`elem.tail` is never read by the DOCX / PPTX code. -/

/-- The tags the DOCX / PPTX walkers test for.  The driver classifies a Clark-notation tag name with the
constants generated from the source (`S2T.Gen.Ooxml`), the two `endswith` tests first, exactly as
`_process_text_element` does; every other name is `other name`. -/
inductive Tag
  -- wordprocessingml
  | wP | wR | wT | wTab | wBr | wCr | wTbl | wTr | wTc | wSdt | wSdtContent | wCustomXml | wTxbxContent
  | alt            -- any tag ending in "}AlternateContent"
  | fallback       -- any tag ending in "}Fallback"
  | choice         -- MC_CHOICE
  | oMath | oMathPara
  -- drawingml / presentationml
  | aP | aR | aFld | aT | aBr
  | other (name : Str)
  deriving DecidableEq, Repr

def sufAlt : Str := ['}', 'A', 'l', 't', 'e', 'r', 'n', 'a', 't', 'e', 'C', 'o', 'n', 't', 'e', 'n', 't']
def sufFallback : Str := ['}', 'F', 'a', 'l', 'l', 'b', 'a', 'c', 'k']

/-- classification of a Clark-notation tag name against the table of tag constants: the two `endswith`
    tests first (as `_process_text_element` does), then the constants (string equality, decided from the
    end of the names, where they differ), else `other` -/
def classifyWith (names : List (Tag × Str)) (name : Str) : Tag :=
  if endsWith name sufAlt then .alt
  else if endsWith name sufFallback then .fallback
  else match names.find? (fun p => p.2.reverse == name.reverse) with
    | some p => p.1
    | none => .other name

inductive Xml where
  | node (tag : Tag) (attrs : List (Str × Str)) (text : Str) (kids : List Xml) : Xml
  deriving Repr

def Xml.tag : Xml → Tag | .node t _ _ _ => t
def Xml.text : Xml → Str | .node _ _ t _ => t
def Xml.kids : Xml → List Xml | .node _ _ _ k => k

/-- element without attributes -/
def el (t : Tag) (kids : List Xml) : Xml := .node t [] [] kids
/-- element with text only -/
def leaf (t : Tag) (s : Str) : Xml := .node t [] s []

end S2T.C02.Ooxml
