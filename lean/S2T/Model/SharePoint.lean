/-
Model of sharepoint2text/sharepoint_io/client.py (Graph listing over the urllib transport).

* The transport is a parameter `Transport := Nat → Url → Outcome` (answer to the i-th request of the
  client's life for URL `u`); the client threads a state `St` (request log, opened/closed counters,
  cached token and site id) and returns `Except Err α × St` — the state survives an error, as it does
  in Python (the client object keeps its caches, the responses stay opened/closed).
* `Cfg` selects, per defect, the behaviour before / after the fix patches
  (`Cfg.fixed` = current tree with the patches, `Cfg.legacy` = upstream behaviour); the property theorems
  are about `Cfg.fixed`, the counterexample theorems about `Cfg.legacy`.
* Fuel bounds only what is the environment's business: the length of `@odata.nextLink` chains and the
  folder depth the server presents (a server that lists a folder inside itself keeps the real client
  busy forever, too).  It appears in the theorems.
* Start folders (`FileFilter.folder_paths`): `str.strip("/")` and `urllib.parse.quote(·, safe="/")` are modelled
  (`stripSlash`, `quote` over the UTF-8 bytes), the by-path request is `Url.byPath`; `list_files_filtered` and the
  walk below it are modelled as GENERATORS (`Part`: values handed out + terminal outcome; section "start folders").
* `datetime.fromisoformat` (on a string without fractional seconds), `str.lower` and `fnmatch.fnmatch`
  are parameters (`iso`, `lower`, `glob`) of the filter model; concrete instances used by the driver
  (`isoStrict`, `asciiLower`, `globMatch`) are at the end of this file.
-/
namespace S2T.SP

abbrev Str := List Char

/-- request targets.  The client only ever *builds* `token`, `site`, `children`; `cursor` / `raw` are
    `@odata.nextLink` values it received and follows verbatim. -/
inductive Url
  | token
  | site
  | children (site : Str) (item : Option Str)
  | cursor (item : Option Str) (off : Nat)
  | raw (s : Str)
  | byPath (site : Str) (enc : Str)   -- `…/drive/root:/{quote(path)}` built by `_get_folder_by_path`
  deriving DecidableEq, Repr

/-- the fields of a Graph driveItem with a `file` facet that `_parse_file_item` copies and the property mentions -/
structure FileItem where
  name : Str
  id : Str
  created : Option Str
  modified : Option Str
  deriving DecidableEq, Repr

/-- one element of a page's `value` array -/
inductive Item
  | file (f : FileItem)
  | folder (name : Str) (id : Option Str)   -- has a `folder` facet; `id` none = key missing / falsy
  | other                                    -- neither facet (e.g. OneNote package) or not a dict
  deriving DecidableEq, Repr

/-- a JSON object as far as the client looks at it -/
structure Obj where
  accessToken : Option Str := none   -- `access_token` (none = missing / falsy)
  id : Option Str := none            -- `id` if it is a str
  value : List Item := []            -- `value` (missing = [])
  next : Option Url := none          -- `@odata.nextLink` (none = missing / falsy)
  hasFolder : Bool := false          -- `"folder" in data` (looked at by `_get_folder_by_path` only)
  deriving DecidableEq, Repr

inductive Body
  | notJson
  | nonObject        -- valid JSON that is not an object (`[1,2]`, `"x"`, `null`, `5`)
  | obj (o : Obj)
  deriving DecidableEq, Repr

/-- what `urlopen` does with one request -/
inductive Outcome
  | resp (status : Nat) (body : Body)   -- returns a response object (opened)
  | httpError (code : Nat)              -- raises HTTPError carrying an open response
  | urlError                            -- raises URLError, nothing opened
  deriving DecidableEq, Repr

inductive Err
  | request (status : Option Nat) (url : Url)   -- SharePointRequestError(status_code, url)
  | auth                                         -- SharePointAuthError
  | other (pyName : String)                      -- any exception outside the client's family
  | outOfFuel                                    -- not an exception: the model stopped following the server
  deriving DecidableEq, Repr

/-- the client's own exception family (`SharePointError` subclasses) -/
def Err.family : Err → Bool
  | .request _ _ => true
  | .auth => true
  | _ => false

structure Cfg where
  closeHttpError : Bool   -- `_send` closes the HTTPError's response
  checkObject : Bool      -- `_get_json` / `fetch_access_token` reject non-object JSON with their own error
  keepFraction : Bool     -- `_parse_iso_datetime` keeps fractional seconds
  deriving DecidableEq, Repr

def Cfg.fixed : Cfg := ⟨true, true, true⟩
def Cfg.legacy : Cfg := ⟨false, false, false⟩

structure St where
  log : List (Nat × Url) := []   -- requests made so far, newest first, with their index
  opened : Nat := 0
  closed : Nat := 0
  token : Option Str := none     -- `_access_token`
  site : Option Str := none      -- `_site_id`
  deriving DecidableEq, Repr

instance {ε α} [DecidableEq ε] [DecidableEq α] : DecidableEq (Except ε α)
  | .ok a, .ok b => if h : a = b then isTrue (by rw [h]) else isFalse (by intro h'; cases h'; exact h rfl)
  | .error a, .error b => if h : a = b then isTrue (by rw [h]) else isFalse (by intro h'; cases h'; exact h rfl)
  | .ok _, .error _ => isFalse (by intro h; cases h)
  | .error _, .ok _ => isFalse (by intro h; cases h)

abbrev Transport := Nat → Url → Outcome
abbrev R (α : Type) := Except Err α × St

def ok2xx (st : Nat) : Bool := decide (200 ≤ st) && decide (st < 300)

/-- `_send` -/
def send (c : Cfg) (t : Transport) (u : Url) (s : St) : R Body :=
  let i := s.log.length
  let s := { s with log := (i, u) :: s.log }
  match t i u with
  | .urlError => (.error (.request none u), s)
  | .httpError code =>
    (.error (.request (some code) u),
      { s with opened := s.opened + 1, closed := if c.closeHttpError then s.closed + 1 else s.closed })
  | .resp st b =>
    let s := { s with opened := s.opened + 1, closed := s.closed + 1 }
    if ok2xx st then (.ok b, s) else (.error (.request (some st) u), s)

/-- `fetch_access_token` -/
def fetchToken (c : Cfg) (t : Transport) (s : St) : R Str :=
  match send c t .token s with
  | (.error e, s) => (.error e, s)
  | (.ok .notJson, s) => (.error .auth, s)
  | (.ok .nonObject, s) => (.error (if c.checkObject then .auth else .other "AttributeError"), s)
  | (.ok (.obj o), s) =>
    match o.accessToken with
    | none => (.error .auth, s)
    | some tok => if tok.isEmpty then (.error .auth, s) else (.ok tok, { s with token := some tok })

/-- `_ensure_token` (via `_get_headers`) -/
def ensureToken (c : Cfg) (t : Transport) (s : St) : R Str :=
  match s.token with
  | some tok => (.ok tok, s)
  | none => fetchToken c t s

/-- `_get_json` -/
def getJson (c : Cfg) (t : Transport) (u : Url) (s : St) : R Obj :=
  match ensureToken c t s with
  | (.error e, s) => (.error e, s)
  | (.ok _, s) =>
    match send c t u s with
    | (.error e, s) => (.error e, s)
    | (.ok .notJson, s) => (.error (.request none u), s)
    | (.ok .nonObject, s) => (.error (if c.checkObject then .request none u else .other "AttributeError"), s)
    | (.ok (.obj o), s) => (.ok o, s)

/-- `get_site_id` -/
def getSiteId (c : Cfg) (t : Transport) (s : St) : R Str :=
  match s.site with
  | some id => (.ok id, s)
  | none =>
    match getJson c t .site s with
    | (.error e, s) => (.error e, s)
    | (.ok o, s) =>
      match o.id with
      | some id => (.ok id, { s with site := some id })
      | none => (.error (.request none .site), s)

/-- `SharePointFileMetadata` as far as the property looks at it; `parent = []` stands for `None` -/
structure FileMeta where
  name : Str
  id : Str
  created : Option Str
  modified : Option Str
  parent : Str
  deriving DecidableEq, Repr

/-- `_parse_file_item` -/
def parseFile (parent : Str) (f : FileItem) : FileMeta :=
  { name := f.name, id := f.id, created := f.created, modified := f.modified, parent := parent }

/-- `SharePointFileMetadata.get_full_path` -/
def FileMeta.fullPath (m : FileMeta) : Str :=
  if m.parent.isEmpty then m.name else m.parent ++ '/' :: m.name

/-- loop body of `_list_items_paginated`: files only -/
def fileOf (parent : Str) : Item → Option FileMeta
  | .file f => some (parseFile parent f)
  | _ => none

/-- loop body of `_get_folders_from_url`: folders only -/
def folderOf : Item → Option (Str × Option Str)
  | .folder n id => some (n, id)
  | _ => none

/-- the `while current_url:` loop shared by `_list_items_paginated` and `_get_folders_from_url` -/
def pagesWith {α : Type} (c : Cfg) (t : Transport) (proj : Item → Option α) : Nat → Url → St → R (List α)
  | 0, _, s => (.error .outOfFuel, s)
  | fuel + 1, u, s =>
    match getJson c t u s with
    | (.error e, s) => (.error e, s)
    | (.ok o, s) =>
      let here := o.value.filterMap proj
      match o.next with
      | none => (.ok here, s)
      | some u' =>
        match pagesWith c t proj fuel u' s with
        | (.error e, s) => (.error e, s)
        | (.ok more, s) => (.ok (here ++ more), s)

def listPaginated (c : Cfg) (t : Transport) (parent : Str) := pagesWith c t (fileOf parent)
def getFolders (c : Cfg) (t : Transport) := pagesWith c t folderOf

def childPath (parent name : Str) : Str := if parent.isEmpty then name else parent ++ '/' :: name

/-- the `for item in self._get_folders_from_url(url)` loop of `_walk_drive_items`; `rec id parent` is the recursive call -/
def forFolders (rec : Str → Str → St → R (List FileMeta)) (parent : Str) :
    List (Str × Option Str) → St → R (List FileMeta)
  | [], s => (.ok [], s)
  | (name, id) :: rest, s =>
    match id with
    | none => forFolders rec parent rest s
    | some fid =>
      if fid.isEmpty then forFolders rec parent rest s
      else
        match rec fid (childPath parent name) s with
        | (.error e, s) => (.error e, s)
        | (.ok a, s) =>
          match forFolders rec parent rest s with
          | (.error e, s) => (.error e, s)
          | (.ok b, s) => (.ok (a ++ b), s)

/-- `_walk_drive_items` (consumed to the end) -/
def walk (c : Cfg) (t : Transport) (site : Str) : Nat → Option Str → Str → St → R (List FileMeta)
  | 0, _, _, s => (.error .outOfFuel, s)
  | fuel + 1, item, parent, s =>
    let url := Url.children site item
    match listPaginated c t parent fuel url s with
    | (.error e, s) => (.error e, s)
    | (.ok files, s) =>
      match getFolders c t fuel url s with
      | (.error e, s) => (.error e, s)
      | (.ok folders, s) =>
        match forFolders (fun fid p s => walk c t site fuel (some fid) p s) parent folders s with
        | (.error e, s) => (.error e, s)
        | (.ok below, s) => (.ok (files ++ below), s)

/-- `list_all_files` -/
def listAll (c : Cfg) (t : Transport) (fuel : Nat) (s : St) : R (List FileMeta) :=
  match getSiteId c t s with
  | (.error e, s) => (.error e, s)
  | (.ok site, s) => walk c t site fuel none [] s

/-! ### filter -/

structure Filter where
  createdAfter : Option Int := none    -- µs since the epoch
  createdBefore : Option Int := none
  modifiedAfter : Option Int := none
  modifiedBefore : Option Int := none
  patterns : List Str := []
  extensions : List Str := []
  deriving DecidableEq, Repr

def isAsciiDigit (ch : Char) : Bool := decide ('0'.toNat ≤ ch.toNat) && decide (ch.toNat ≤ '9'.toNat)

def digitsVal : List Char → Nat → Nat
  | [], acc => acc
  | ch :: r, acc => digitsVal r (acc * 10 + (ch.toNat - '0'.toNat))

/-- `int((fraction + "000000")[:6])` -/
def microOf (frac : Str) : Nat := digitsVal ((frac ++ "000000".toList).take 6) 0

/-- `rest.find("+")`, else `rest.find("-")` -/
def tzIndex (rest : Str) : Option Nat :=
  match rest.findIdx? (· == '+') with
  | some i => some i
  | none => rest.findIdx? (· == '-')

/-- `_parse_iso_datetime`; `iso` is `datetime.fromisoformat` on the fraction-free string, as µs since the epoch -/
def parseIso (c : Cfg) (iso : Str → Option Int) (s0 : Str) : Option Int :=
  let s := if s0.getLast? = some 'Z' then s0.dropLast ++ "+00:00".toList else s0
  if s.contains '.' then
    let base := s.takeWhile (· ≠ '.')
    let rest := (s.dropWhile (· ≠ '.')).drop 1
    let (frac, tz) := match tzIndex rest with
      | some i => (rest.take i, rest.drop i)
      | none => (rest, [])
    match iso (base ++ tz) with
    | none => none
    | some t =>
      if c.keepFraction then
        if frac.isEmpty then some t
        else if frac.all isAsciiDigit then some (t + (microOf frac : Int))
        else none
      else some t
  else iso s

/-- one of the two date blocks of `FileFilter.matches` -/
def dateOk (c : Cfg) (iso : Str → Option Int) (raw : Option Str) (after before : Option Int) : Bool :=
  if after.isNone && before.isNone then true
  else
    match raw with
    | none => false
    | some s =>
      if s.isEmpty then false
      else
        match parseIso c iso s with
        | none => false
        | some ts =>
          (match after with | some a => decide (a ≤ ts) | none => true) &&
          (match before with | some b => decide (ts < b) | none => true)

def extOk (lower : Str → Str) (exts : List Str) (name : Str) : Bool :=
  exts.isEmpty || exts.any (fun e => (lower e).isSuffixOf (lower name))

def patOk (glob : Str → Str → Bool) (pats : List Str) (full : Str) : Bool :=
  pats.isEmpty || pats.any (fun p => glob full p)

/-- `FileFilter.matches` -/
def matchesF (c : Cfg) (iso : Str → Option Int) (lower : Str → Str) (glob : Str → Str → Bool)
    (f : Filter) (m : FileMeta) : Bool :=
  dateOk c iso m.created f.createdAfter f.createdBefore &&
  dateOk c iso m.modified f.modifiedAfter f.modifiedBefore &&
  extOk lower f.extensions m.name &&
  patOk glob f.patterns m.fullPath

/-- `list_files_filtered` with `folder_paths = []`, consumed to the end -/
def listFiltered (c : Cfg) (t : Transport) (iso : Str → Option Int) (lower : Str → Str)
    (glob : Str → Str → Bool) (f : Filter) (fuel : Nat) (s : St) : R (List FileMeta) :=
  match getSiteId c t s with
  | (.error e, s) => (.error e, s)
  | (.ok site, s) =>
    match walk c t site fuel none [] s with
    | (.error e, s) => (.error e, s)
    | (.ok files, s) => (.ok (files.filter (matchesF c iso lower glob f)), s)

/-! ### start folders addressed by path (`FileFilter.folder_paths`) and lazy (generator) delivery

`list_files_filtered` is a generator: what the consumer has received when an exception leaves it is part
of the behaviour.  A generator run to its end is a `Part`: the values yielded, in order, and how it ended
(`err = none`: exhausted, `err = some e`: `e` was raised after the yielded values).  `G.toR` is the
consumer `list(gen)` (partial results are lost when it raises). -/

/-- `str.strip("/")` -/
def stripSlash (s : Str) : Str :=
  ((s.dropWhile (· == '/')).reverse.dropWhile (· == '/')).reverse

/-- UTF-8 bytes of a code point (`str.encode("utf-8")`, one character) -/
def utf8 (n : Nat) : List Nat :=
  if n < 0x80 then [n]
  else if n < 0x800 then [0xC0 + n / 64, 0x80 + n % 64]
  else if n < 0x10000 then [0xE0 + n / 4096, 0x80 + n / 64 % 64, 0x80 + n % 64]
  else [0xF0 + n / 262144, 0x80 + n / 4096 % 64, 0x80 + n / 64 % 64, 0x80 + n % 64]

/-- upper-case hexadecimal digit -/
def hexDigit (d : Nat) : Char := if d < 10 then Char.ofNat (48 + d) else Char.ofNat (55 + d)

def pctByte (b : Nat) : List Char := ['%', hexDigit (b / 16), hexDigit (b % 16)]

/-- the characters `urllib.parse.quote(·, safe="/")` leaves alone: ASCII letters, digits, `_.-~` and `/` -/
def quoteSafe (ch : Char) : Bool :=
  ch.isAlphanum || ch == '_' || ch == '.' || ch == '-' || ch == '~' || ch == '/'

def quoteChar (ch : Char) : List Char :=
  if quoteSafe ch then [ch] else (utf8 ch.toNat).flatMap pctByte

/-- `urllib.parse.quote(s, safe="/")` -/
def quote (s : Str) : Str := s.flatMap quoteChar

/-- `exc.status_code == 404` in `_get_folder_by_path`: the request error that means "no such folder" -/
def notFound : Err → Bool
  | .request (some st) _ => st == 404
  | _ => false

/-- `_get_folder_by_path`: the item at `path` if it has a `folder` facet; `none` when it has none or when the
    request error carries status 404 -/
def getFolderByPath (c : Cfg) (t : Transport) (site path : Str) (s : St) : R (Option Obj) :=
  match getJson c t (.byPath site (quote (stripSlash path))) s with
  | (.ok o, s) => (.ok (if o.hasFolder then some o else none), s)
  | (.error e, s) => if notFound e then (.ok none, s) else (.error e, s)

/-- what a generator yielded and how it ended -/
structure Part (α : Type) where
  out : List α
  err : Option Err
  deriving DecidableEq, Repr

abbrev G (α : Type) := Part α × St

/-- the consumer `list(gen)` -/
def G.toR {α : Type} (g : G α) : R (List α) :=
  (match g.1.err with | none => .ok g.1.out | some e => .error e, g.2)

/-- `for x in gen: if keep(x): yield x` -/
def G.filter {α : Type} (keep : α → Bool) (g : G α) : G α := (⟨g.1.out.filter keep, g.1.err⟩, g.2)

/-- `_list_items_paginated` as a generator: the items of a page are yielded after that page has arrived -/
def pagesL {α : Type} (c : Cfg) (t : Transport) (proj : Item → Option α) : Nat → Url → St → G α
  | 0, _, s => (⟨[], some .outOfFuel⟩, s)
  | fuel + 1, u, s =>
    match getJson c t u s with
    | (.error e, s) => (⟨[], some e⟩, s)
    | (.ok o, s) =>
      let here := o.value.filterMap proj
      match o.next with
      | none => (⟨here, none⟩, s)
      | some u' =>
        match pagesL c t proj fuel u' s with
        | (p, s) => (⟨here ++ p.out, p.err⟩, s)

/-- the folder loop of `_walk_drive_items` as a generator (`yield from` the recursive walk) -/
def forFoldersL (rec : Str → Str → St → G FileMeta) (parent : Str) :
    List (Str × Option Str) → St → G FileMeta
  | [], s => (⟨[], none⟩, s)
  | (name, id) :: rest, s =>
    match id with
    | none => forFoldersL rec parent rest s
    | some fid =>
      if fid.isEmpty then forFoldersL rec parent rest s
      else
        match rec fid (childPath parent name) s with
        | (⟨a, some e⟩, s) => (⟨a, some e⟩, s)
        | (⟨a, none⟩, s) =>
          match forFoldersL rec parent rest s with
          | (p, s) => (⟨a ++ p.out, p.err⟩, s)

/-- `_walk_drive_items` as a generator: the files of the folder (page by page), then — after the folder's
    sub-folders have been collected by `_get_folders_from_url`, which is not a generator — each sub-folder -/
def walkL (c : Cfg) (t : Transport) (site : Str) : Nat → Option Str → Str → St → G FileMeta
  | 0, _, _, s => (⟨[], some .outOfFuel⟩, s)
  | fuel + 1, item, parent, s =>
    let url := Url.children site item
    match pagesL c t (fileOf parent) fuel url s with
    | (⟨files, some e⟩, s) => (⟨files, some e⟩, s)
    | (⟨files, none⟩, s) =>
      match getFolders c t fuel url s with
      | (.error e, s) => (⟨files, some e⟩, s)
      | (.ok folders, s) =>
        match forFoldersL (fun fid p s => walkL c t site fuel (some fid) p s) parent folders s with
        | (p, s) => (⟨files ++ p.out, p.err⟩, s)

/-- `_walk_and_filter`; `path = []` stands for `folder_path` being `None` or `""` (both falsy: whole drive) -/
def walkAndFilterL (c : Cfg) (t : Transport) (keep : FileMeta → Bool) (site : Str) (fuel : Nat)
    (path : Str) (s : St) : G FileMeta :=
  if path.isEmpty then (walkL c t site fuel none [] s).filter keep
  else
    match getFolderByPath c t site path s with
    | (.error e, s) => (⟨[], some e⟩, s)
    | (.ok none, s) => (⟨[], none⟩, s)
    | (.ok (some o), s) => (walkL c t site fuel o.id (stripSlash path) s).filter keep

/-- the `for folder_path in target_folders: yield from self._walk_and_filter(...)` loop -/
def forStartL (c : Cfg) (t : Transport) (keep : FileMeta → Bool) (site : Str) (fuel : Nat) :
    List Str → St → G FileMeta
  | [], s => (⟨[], none⟩, s)
  | p :: ps, s =>
    match walkAndFilterL c t keep site fuel p s with
    | (⟨a, some e⟩, s) => (⟨a, some e⟩, s)
    | (⟨a, none⟩, s) =>
      match forStartL c t keep site fuel ps s with
      | (r, s) => (⟨a ++ r.out, r.err⟩, s)

/-- `list_files_filtered` (any `folder_paths`) as the generator it is -/
def listFilteredL (c : Cfg) (t : Transport) (iso : Str → Option Int) (lower : Str → Str)
    (glob : Str → Str → Bool) (f : Filter) (folders : List Str) (fuel : Nat) (s : St) : G FileMeta :=
  match getSiteId c t s with
  | (.error e, s) => (⟨[], some e⟩, s)
  | (.ok site, s) =>
    if folders.isEmpty then walkAndFilterL c t (matchesF c iso lower glob f) site fuel [] s
    else forStartL c t (matchesF c iso lower glob f) site fuel folders s

/-- `list_all_files` never hands out partial results: it is `list(self._walk_drive_items(...))` -/
def listAllL (c : Cfg) (t : Transport) (fuel : Nat) (s : St) : G FileMeta :=
  match getSiteId c t s with
  | (.error e, s) => (⟨[], some e⟩, s)
  | (.ok site, s) => walkL c t site fuel none [] s

/-! ### the abstract library and the healthy fake Graph server -/

/-- a folder's children (a forest) -/
inductive Lib
  | nil
  | file (f : FileItem) (rest : Lib)
  | other (rest : Lib)
  | folder (name id : Str) (kids : Lib) (rest : Lib)
  deriving DecidableEq, Repr

def Lib.items : Lib → List Item
  | .nil => []
  | .file f r => .file f :: r.items
  | .other r => .other :: r.items
  | .folder n id _ r => .folder n (some id) :: r.items

def Lib.size : Lib → Nat
  | .nil => 0
  | .file _ r => r.size + 1
  | .other r => r.size + 1
  | .folder _ _ k r => k.size + r.size + 1

/-- the children of the first folder (document order) carrying this id -/
def findFolder (id : Str) : Lib → Option Lib
  | .nil => none
  | .file _ r => findFolder id r
  | .other r => findFolder id r
  | .folder _ id' k r =>
    if id = id' then some k
    else match findFolder id k with
      | some x => some x
      | none => findFolder id r

/-- SPEC: every file once, in document order, with the path of its parent folder -/
def specListing (parent : Str) : Lib → List FileMeta
  | .nil => []
  | .file f r => parseFile parent f :: specListing parent r
  | .other r => specListing parent r
  | .folder n _ k r => specListing (childPath parent n) k ++ specListing parent r

def filesHere (parent : Str) (L : Lib) : List FileMeta := L.items.filterMap (fileOf parent)

def below (parent : Str) : Lib → List FileMeta
  | .nil => []
  | .file _ r => below parent r
  | .other r => below parent r
  | .folder n _ k r => (filesHere (childPath parent n) k ++ below (childPath parent n) k) ++ below parent r

/-- the order in which the client returns the files: a folder's own files first, then its sub-folders -/
def clientListing (parent : Str) (L : Lib) : List FileMeta := filesHere parent L ++ below parent L

/-- every folder of `K` has a non-empty id that, on the server for `L`, addresses that folder's own children -/
def resolves (L : Lib) : Lib → Bool
  | .nil => true
  | .file _ r => resolves L r
  | .other r => resolves L r
  | .folder _ id k r => !id.isEmpty && decide (findFolder id L = some k) && resolves L k && resolves L r

/-- all folder ids, document order -/
def Lib.folderIds : Lib → List Str
  | .nil => []
  | .file _ r => r.folderIds
  | .other r => r.folderIds
  | .folder _ id k r => id :: (k.folderIds ++ r.folderIds)

/-! path addressing on the server: `…/root:/{path}` answers with the item at that path -/

inductive Node
  | file (f : FileItem)
  | folder (id : Str) (kids : Lib)
  deriving DecidableEq, Repr

/-- the first child with a `file` or `folder` facet whose name satisfies `p` -/
def firstNamed (p : Str → Bool) : Lib → Option Node
  | .nil => none
  | .file f r => if p f.name then some (.file f) else firstNamed p r
  | .other r => firstNamed p r
  | .folder n id k r => if p n then some (.folder id k) else firstNamed p r

/-- follow the segments `cs` from a node; `eq seg name` decides whether a child is meant by a segment -/
def nodeAt (eq : Str → Str → Bool) : List Str → Node → Option Node
  | [], nd => some nd
  | _ :: _, .file _ => none
  | c :: cs, .folder _ k =>
    match firstNamed (eq c) k with
    | none => none
    | some nd => nodeAt eq cs nd

/-- SPEC: the folder addressed by the path components `cs` below the drive root (names compared as they are);
    the empty path is the drive root itself (id `none`) -/
def folderAt (cs : List Str) (L : Lib) : Option (Option Str × Lib) :=
  match cs with
  | [] => some (none, L)
  | _ :: _ =>
    match nodeAt (fun c nm => nm == c) cs (.folder [] L) with
    | some (.folder id k) => some (some id, k)
    | _ => none

def joinPath : List Str → Str
  | [] => []
  | c :: cs => if cs.isEmpty then c else c ++ '/' :: joinPath cs

/-- segments of a `/`-separated string: (first segment, the others) -/
def splitRaw : Str → Str × List Str
  | [] => ([], [])
  | ch :: r => if ch == '/' then ([], (splitRaw r).1 :: (splitRaw r).2) else (ch :: (splitRaw r).1, (splitRaw r).2)

/-- non-empty segments of a `/`-separated string -/
def splitSlash (s : Str) : List Str := ((splitRaw s).1 :: (splitRaw s).2).filter (fun x => !x.isEmpty)

/-- the healthy server's answer to `root:/{enc}`: it compares each request segment with the percent-encoded
    name of the children (`quote` is injective, `quote_injective`), 404 for the empty path / no such item -/
def serveByPath (L : Lib) (enc : Str) : Outcome :=
  match splitSlash enc with
  | [] => .httpError 404
  | segs =>
    match nodeAt (fun seg nm => quote nm == seg) segs (.folder [] L) with
    | some (.folder id _) => .resp 200 (.obj { id := some id, hasFolder := true })
    | some (.file f) => .resp 200 (.obj { id := some f.id })
    | none => .httpError 404

def srvToken : Str := "tok".toList
def srvSite : Str := "site-1".toList

def pageOf (its : List Item) (item : Option Str) (n off : Nat) : Obj :=
  { value := (its.drop off).take n,
    next := if off + n < its.length then some (.cursor item (off + n)) else none }

def folderItems (L : Lib) : Option Str → Option (List Item)
  | none => some L.items
  | some id => (findFolder id L).map Lib.items

def servePage (L : Lib) (n : Nat) (item : Option Str) (off : Nat) : Outcome :=
  match folderItems L item with
  | some its => .resp 200 (.obj (pageOf its item n off))
  | none => .httpError 404

/-- the healthy fake Graph server for library `L` with page size `n` -/
def serve (L : Lib) (n : Nat) : Url → Outcome
  | .token => .resp 200 (.obj { accessToken := some srvToken })
  | .site => .resp 200 (.obj { id := some srvSite })
  | .children site item => if site = srvSite then servePage L n item 0 else .httpError 404
  | .cursor item off => servePage L n item off
  | .raw _ => .httpError 404
  | .byPath site enc => if site = srvSite then serveByPath L enc else .httpError 404

def healthy (L : Lib) (n : Nat) : Transport := fun _ u => serve L n u

/-- transport `base` with the k-th request answered by `o` -/
def faultAt (k : Nat) (o : Outcome) (base : Transport) : Transport :=
  fun i u => if i = k then o else base i u

/-! ### concrete instances of the stdlib parameters (driver, examples) -/

def asciiLower (s : Str) : Str := s.map Char.toLower

/-! `fnmatch` character classes (`fnmatch.translate`): after `[` an optional `!`, then an optional `]` taken as a
member, then everything up to the next `]`; without a closing `]` the `[` is a literal character.  Members are single
characters and ranges `lo-hi` (a `-` that is the first or the last member is a literal; an empty range has no
member).  NOT modelled: the regex escapes of `\\`, `^`, `&&`, `~~`, `||` inside a class and the re-chunking of several
hyphens in a row - the generators write classes over ASCII letters / digits only. -/

/-- `(members, rest after the closing bracket)`; `none` = no closing bracket.  `first`: a `]` here is a member -/
def classSplit : Str → Bool → Option (Str × Str)
  | [], _ => none
  | ']' :: r, false => some ([], r)
  | c :: r, _ => (classSplit r false).map (fun (m, rest) => (c :: m, rest))

def classHas (x : Char) : Str → Bool
  | lo :: '-' :: hi :: r => (lo.toNat ≤ x.toNat && x.toNat ≤ hi.toNat) || classHas x r
  | c :: r => x == c || classHas x r
  | [] => false

/-- the class at the head of a pattern (text after `[`): `(negated, members, rest)` -/
def classOf (p : Str) : Option (Bool × Str × Str) :=
  match p with
  | '!' :: q => (classSplit q true).map (fun (m, rest) => (true, m, rest))
  | q => (classSplit q true).map (fun (m, rest) => (false, m, rest))

inductive GTok
  | star | one | lit (c : Char) | cls (neg : Bool) (members : Str)
deriving Repr, DecidableEq

/-- the pattern as a token list (fuel = pattern length + 1 suffices: every step consumes a character) -/
def globToks : Nat → Str → List GTok
  | 0, _ => []
  | _, [] => []
  | n + 1, '*' :: p => .star :: globToks n p
  | n + 1, '?' :: p => .one :: globToks n p
  | n + 1, '[' :: p =>
    match classOf p with
    | some (neg, m, rest) => .cls neg m :: globToks n rest
    | none => .lit '[' :: globToks n p
  | n + 1, ch :: p => .lit ch :: globToks n p

def globTok : List GTok → Str → Bool
  | [], s => s.isEmpty
  | .star :: p, s => (List.range (s.length + 1)).any (fun k => globTok p (s.drop k))
  | .one :: p, s => match s with | [] => false | _ :: r => globTok p r
  | .lit ch :: p, s => match s with | [] => false | x :: r => x == ch && globTok p r
  | .cls neg m :: p, s => match s with | [] => false | x :: r => (classHas x m != neg) && globTok p r

/-- `fnmatch` for patterns made of `*`, `?`, character classes and literal characters: `globMatch path pattern` -/
def globPat (p s : Str) : Bool := globTok (globToks (p.length + 1) p) s

def globMatch (path pat : Str) : Bool := globPat pat path

def num2 : Str → Option Nat
  | [a, b] => if isAsciiDigit a && isAsciiDigit b then some (digitsVal [a, b] 0) else none
  | _ => none

def num4 : Str → Option Nat
  | [a, b, c, d] => if [a, b, c, d].all isAsciiDigit then some (digitsVal [a, b, c, d] 0) else none
  | _ => none

def isLeap (y : Nat) : Bool := (y % 4 == 0 && y % 100 != 0) || y % 400 == 0

def daysInMonth (y m : Nat) : Nat :=
  if m == 2 then (if isLeap y then 29 else 28)
  else if m == 4 || m == 6 || m == 9 || m == 11 then 30 else 31

/-- days since 1970-01-01 of a proleptic Gregorian date (Hinnant's `days_from_civil`) -/
def daysFromCivil (y m d : Nat) : Int :=
  let y' : Int := if m ≤ 2 then (y : Int) - 1 else y
  let era : Int := y' / 400
  let yoe : Int := y' - era * 400
  let mp : Int := (((m : Int) + 9) % 12)
  let doy : Int := (153 * mp + 2) / 5 + (d : Int) - 1
  let doe : Int := yoe * 365 + yoe / 4 - yoe / 100 + doy
  era * 146097 + doe - 719468

/-- `datetime.fromisoformat` restricted to `YYYY-MM-DDTHH:MM:SS±HH:MM` (what the fake Graph emits after
    the client's own string surgery); anything else is rejected.  µs since the epoch. -/
def isoStrict (s : Str) : Option Int :=
  if s.length ≠ 25 then none else
  match num4 (s.take 4), num2 ((s.drop 5).take 2), num2 ((s.drop 8).take 2),
        num2 ((s.drop 11).take 2), num2 ((s.drop 14).take 2), num2 ((s.drop 17).take 2),
        num2 ((s.drop 20).take 2), num2 ((s.drop 23).take 2) with
  | some y, some mo, some d, some h, some mi, some se, some th, some tm =>
    let seps := [s.getD 4 ' ', s.getD 7 ' ', s.getD 10 ' ', s.getD 13 ' ', s.getD 16 ' ', s.getD 22 ' ']
    let sign := s.getD 19 ' '
    if seps == ['-', '-', 'T', ':', ':', ':'] && (sign == '+' || sign == '-')
       && decide (1 ≤ y) && decide (1 ≤ mo) && decide (mo ≤ 12) && decide (1 ≤ d) && decide (d ≤ daysInMonth y mo)
       && decide (h < 24) && decide (mi < 60) && decide (se < 60) && decide (th < 24) && decide (tm < 60) then
      let local_ : Int := (daysFromCivil y mo d * 86400 + (h * 3600 + mi * 60 + se : Nat))
      let off : Int := ((th * 3600 + tm * 60 : Nat) : Int)
      let utc := if sign == '+' then local_ - off else local_ + off
      some (utc * 1000000)
    else none
  | _, _, _, _, _, _, _, _ => none

/-! ### URL strings (driver boundary): templates come from `S2T.Gen.SharePoint` -/

structure UrlT where
  tokenUrl : Str
  siteUrl : Str
  rootPre : Str
  rootPost : Str
  itemA : Str
  itemB : Str
  itemC : Str
  pathA : Str := []
  pathB : Str := []

/-- the string the client puts into `Request(...)`; `cursor` is only used by the Lean-side fake server -/
def Url.render (T : UrlT) : Url → Str
  | .token => T.tokenUrl
  | .site => T.siteUrl
  | .children sid none => T.rootPre ++ sid ++ T.rootPost
  | .children sid (some i) => T.itemA ++ sid ++ T.itemB ++ i ++ T.itemC
  | .raw s => s
  | .cursor _ off => "lean-cursor:".toList ++ (toString off).toList
  | .byPath sid enc => T.pathA ++ sid ++ T.pathB ++ enc

end S2T.SP
