import S2T.Model.Units
/-!
# What one slide unit is made of (C03, part "Carrier")

* `odpClassify` — the paragraph loop of `_extract_slide` (ODP): every non-blank paragraph of the slide's text boxes, in
  frame order, goes to exactly one of `title` (the FIRST paragraph with a title style, once), `body_text`, `other_text`.
* `Cache` — a table of related parts built once for the whole package and read while a unit is built
  (`_PptxContext`'s `_slide_roots`, `_slide_rels_roots`, `_slide_relationships`): keyed by the owning part AND the
  local id it answers the owner's own table; keyed by the local id alone it does not.
-/
namespace S2T.Units.Carrier
open S2T.Units

/-- `needle in hay` for Python strings -/
def hasSub (n : Str) : Str → Bool
  | [] => n.isEmpty
  | c :: r => n.isPrefixOf (c :: r) || hasSub n r

/-- `"Title" in style_name or style_name == "TitleText"` -/
def isTitleStyle (s : Str) : Bool := hasSub "Title".toList s || s == "TitleText".toList
/-- `"Body" in style_name or style_name == "BodyText"` -/
def isBodyStyle (s : Str) : Bool := hasSub "Body".toList s || s == "BodyText".toList

structure OdpPara where
  style : Str
  text : Str
  deriving Repr

structure OdpAcc where
  title : Option Str := none
  found : Bool := false
  body : List Str := []
  other : List Str := []
  deriving Repr

/-- one paragraph of the loop; `isT` / `isB` are the two style tests (any tests: the theorems do not depend on them) -/
def odpStep (T : Tables) (isT isB : Str → Bool) (a : OdpAcc) (p : OdpPara) : OdpAcc :=
  let t := strip T p.text
  if t = [] then a
  else if !a.found && isT p.style then { a with title := some t, found := true }
  else if isB p.style then { a with body := a.body ++ [t] }
  else { a with other := a.other ++ [t] }

def odpClassifyWith (T : Tables) (isT isB : Str → Bool) (ps : List OdpPara) : OdpAcc := ps.foldl (odpStep T isT isB) {}
def odpClassify (T : Tables) (ps : List OdpPara) : OdpAcc := odpClassifyWith T isTitleStyle isBodyStyle ps

/-- the texts a slide keeps -/
def accTexts (a : OdpAcc) : List Str := a.title.toList ++ a.body ++ a.other
/-- the non-blank stripped paragraph texts of the slide -/
def paraTexts (T : Tables) (ps : List OdpPara) : List Str := (ps.map (fun p => strip T p.text)).filter (· ≠ [])

/-- the same loop WITHOUT the `not found_title` guard on the title branch (every title paragraph is assigned to
`slide.title`): the variant the counterexample theorem is about -/
def odpStepOverwrite (T : Tables) (isT isB : Str → Bool) (a : OdpAcc) (p : OdpPara) : OdpAcc :=
  let t := strip T p.text
  if t = [] then a
  else if isT p.style then { a with title := some t, found := true }
  else if isB p.style then { a with body := a.body ++ [t] }
  else { a with other := a.other ++ [t] }

/-! ### related parts -/

/-- first entry under a key (the tables below have at most one) -/
def find1 {κ ν} [DecidableEq κ] (k : κ) : List (κ × ν) → Option ν
  | [] => none
  | (k', v) :: r => if k' = k then some v else find1 k r

/-- a package: every owning part (slide) with its own relationship table `local id ↦ related part` -/
abbrev Package (π ι ν : Type) := List (π × List (ι × ν))

/-- the cache keyed by (owner, local id) -/
def cacheByOwnerAndId {π ι ν} (pk : Package π ι ν) : List ((π × ι) × ν) :=
  pk.flatMap (fun (o, rels) => rels.map (fun (i, v) => ((o, i), v)))
/-- the cache keyed by the local id alone, later parts overwriting earlier ones (a Python dict filled in a loop) -/
def cacheByIdOnly {π ι ν} [DecidableEq ι] (pk : Package π ι ν) : List (ι × ν) :=
  pk.foldl (fun acc (_, rels) => rels.foldl (fun acc (i, v) => (i, v) :: acc.filter (fun e => e.1 ≠ i)) acc) []

end S2T.Units.Carrier
