import S2T.Model.Archive
/-!
# 7z entries with their whole attribute word

`_parse_files_info` reads one 32-bit word per entry (PROP_WIN_ATTRIBUTES; 0 where the defined-vector leaves an entry
out).  The word carries the Windows attribute bits (read-only 0x1, hidden 0x2, system 0x4, directory 0x10, archive 0x20,
device 0x40, temporary 0x100, reparse point 0x400, offline 0x1000, …) and, with p7zip / 7-Zip on POSIX, the unix
extension: bit 0x8000 set and `st_mode` in the upper 16 bits (S_IFLNK 0o120000, S_IFIFO 0o010000, S_IFCHR 0o020000,
S_IFBLK 0o060000, S_IFSOCK 0o140000, S_IFDIR 0o040000, setuid / setgid / sticky).  `_build_file_list` keeps
`attributes[i] & 0x10` and nothing else; this file states that as the model: an entry WITH its attribute word is mapped
to the `RawEntry` the rest of the model works on.
-/
namespace S2T.Archive
open S2T.Router (Str)

/-- entry of the parsed FilesInfo with the whole attribute word -/
structure AttrEntry where
  name : Str
  emptyStream : Bool
  attributes : Nat           -- uint32 of PROP_WIN_ATTRIBUTES (0 where not defined)

/-- `(attributes[i] & 0x10) != 0` -/
def dirBit (a : Nat) : Bool := (a &&& 0x10) != 0

/-- what `_build_file_list` keeps of an entry -/
def AttrEntry.toRaw (e : AttrEntry) : RawEntry := ⟨e.name, e.emptyStream, dirBit e.attributes⟩

/-- the p7zip unix extension: `0x8000 | st_mode << 16` (plus Windows bits `w`) -/
def unixAttr (stMode w : Nat) : Nat := 0x8000 ||| (stMode <<< 16) ||| w

/-- header with attribute words -/
structure SevenZA where
  entries : List AttrEntry
  fileSizes : List Nat
  emptyFiles : List Bool
  folders : List Nat
  folderData : List (Option (List Nat))

def SevenZA.toSevenZ (a : SevenZA) : SevenZ :=
  { entries := a.entries.map AttrEntry.toRaw, fileSizes := a.fileSizes, emptyFiles := a.emptyFiles,
    folders := a.folders, folderData := a.folderData }

/-- kinds of file-system node a run can leave in the private directory, as the events of the model name them: a
    directory (`Ev.mkdir`) or a regular file (`Ev.write`).  There is no event that creates a link, a fifo or a device. -/
def Ev.creates : Ev → Option Node
  | .mkdir _ => some .dir
  | .write _ => some (.file [])
  | _ => none

end S2T.Archive
