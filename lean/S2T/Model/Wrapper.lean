/-
Control-skeleton language for the `read_*` wrappers, `read_file`, member/attachment loops and
`cli.main`, with a nondeterministic big-step semantics (every opaque atom may complete or raise
*any* exception) and a syntactic analysis `escapes` that over-approximates what can leave a term.

Exceptions are split by the only distinction the property cares about:
`fam c`   — an instance of class `c`, a (transitive) subclass of `ExtractionError`
`other n` — an instance of any other `Exception` subclass (BaseException-only classes such as
            KeyboardInterrupt / GeneratorExit are out of the property's scope).
-/
namespace S2T.Wrapper

inductive Exn where
  | fam (cls : String)
  | other (cls : String)
  deriving DecidableEq, Repr

/-- class hierarchy facts the semantics needs. `famSub a b`: family class `a` is `b` or a subclass
    of `b` (generated from `parsing/exceptions.py`); `otherSub n p`: arbitrary (the builtin / third
    party hierarchy is a parameter). -/
structure Hier where
  famSub : String → String → Bool
  otherSub : String → String → Bool

/-- does `except <pat>` catch `e`?  `Exception`/`BaseException`/bare (`""`) catch everything in scope. -/
def catches (H : Hier) (isFam : String → Bool) (pat : String) (e : Exn) : Bool :=
  if pat = "Exception" ∨ pat = "BaseException" ∨ pat = "" then true
  else match e with
    | .fam c => isFam pat && H.famSub c pat
    | .other n => !isFam pat && H.otherSub n pat

def catchesAny (H : Hier) (isFam : String → Bool) (pats : List String) (e : Exn) : Bool :=
  pats.any (fun p => catches H isFam p e)

inductive Ch where | out | err
  deriving DecidableEq, Repr

inductive Stmt where
  | atom (tag : String) (total : Bool)   -- a statement/expression without control flow of its own
  | raise_ (cls : String)                -- `raise Cls(<total args>)`
  | reraise                              -- bare `raise` (or `raise exc` of the caught name)
  | ret (tag : String)                   -- `return <tag>` (tag = source text of a constant, else "?")
  | write (ch : Ch) (total : Bool)       -- a write to stdout / stderr; not total = may fail after a partial write
  | brk
  | cont
  | yield_                               -- hand a value to a cooperative consumer
  | seq (a b : Stmt)
  | ite (a b : Stmt)
  | loop (body : Stmt)
  | try_ (body : Stmt) (handlers : List (List String × Stmt)) (fin : Stmt)
  deriving Repr

inductive Out where
  | normal | ret (tag : String) | brk | cont
  | raised (e : Exn)
  deriving DecidableEq, Repr

/-- exceptions that exist: a family instance is of a class the generated table knows as a
    subclass of the family root -/
def WfExn (H : Hier) (isFam : String → Bool) (root : String) : Exn → Prop
  | .fam c => isFam c = true ∧ H.famSub c root = true
  | .other _ => True

/-- `Exec H isFam root cur s o`: statement `s`, run while `cur` is the exception being handled (if any),
    can end with outcome `o` after the writes `tr`. -/
inductive Exec (H : Hier) (isFam : String → Bool) (root : String) : Option Exn → Stmt → List Ch → Out → Prop where
  | atomOk {cur tag total} : Exec H isFam root cur (.atom tag total) [] .normal
  | atomRaise {cur tag e} : WfExn H isFam root e → Exec H isFam root cur (.atom tag false) [] (.raised e)
  | writeOk {cur ch total} : Exec H isFam root cur (.write ch total) [ch] .normal
  | writeRaise {cur ch e tr} : WfExn H isFam root e → (tr = [] ∨ tr = [ch]) →
      Exec H isFam root cur (.write ch false) tr (.raised e)
  | raiseFam {cur cls} : isFam cls = true → Exec H isFam root cur (.raise_ cls) [] (.raised (.fam cls))
  | raiseOther {cur cls} : isFam cls = false → Exec H isFam root cur (.raise_ cls) [] (.raised (.other cls))
  | reraise {e} : Exec H isFam root (some e) .reraise [] (.raised e)
  | reraiseNone : Exec H isFam root none .reraise [] (.raised (.other "RuntimeError"))
  | ret {cur tag} : Exec H isFam root cur (.ret tag) [] (.ret tag)
  | brk {cur} : Exec H isFam root cur .brk [] .brk
  | cont {cur} : Exec H isFam root cur .cont [] .cont
  | yield_ {cur} : Exec H isFam root cur .yield_ [] .normal
  | seqStop {cur a b t o} : Exec H isFam root cur a t o → o ≠ .normal → Exec H isFam root cur (.seq a b) t o
  | seqGo {cur a b t t' o} : Exec H isFam root cur a t .normal → Exec H isFam root cur b t' o →
      Exec H isFam root cur (.seq a b) (t ++ t') o
  | iteL {cur a b t o} : Exec H isFam root cur a t o → Exec H isFam root cur (.ite a b) t o
  | iteR {cur a b t o} : Exec H isFam root cur b t o → Exec H isFam root cur (.ite a b) t o
  | loopDone {cur b} : Exec H isFam root cur (.loop b) [] .normal
  | loopBrk {cur b t} : Exec H isFam root cur b t .brk → Exec H isFam root cur (.loop b) t .normal
  | loopStep {cur b t t' o o'} : Exec H isFam root cur b t o → (o = .normal ∨ o = .cont) →
      Exec H isFam root cur (.loop b) t' o' → Exec H isFam root cur (.loop b) (t ++ t') o'
  | loopExit {cur b t o} : Exec H isFam root cur b t o → ((∃ g, o = .ret g) ∨ ∃ e, o = .raised e) →
      Exec H isFam root cur (.loop b) t o
  /- try: body outcome `o`; if it raised `e` and handler `h` is the first that catches it, the
     handler body runs with `cur = e`; then `fin` runs and overrides when it does not end normally -/
  | tryNoExc {cur body hs fin t t' o o'} : Exec H isFam root cur body t o → (∀ e, o ≠ .raised e) →
      Exec H isFam root cur fin t' o' →
      Exec H isFam root cur (.try_ body hs fin) (t ++ t') (if o' = .normal then o else o')
  | tryUncaught {cur body hs fin e t t' o'} : Exec H isFam root cur body t (.raised e) →
      (∀ h ∈ hs, catchesAny H isFam h.1 e = false) →
      Exec H isFam root cur fin t' o' →
      Exec H isFam root cur (.try_ body hs fin) (t ++ t') (if o' = .normal then .raised e else o')
  | tryCaught {cur body fin e o o' t th t'} {pre : List (List String × Stmt)} {h : List String × Stmt}
      {post : List (List String × Stmt)} :
      Exec H isFam root cur body t (.raised e) →
      (∀ h' ∈ pre, catchesAny H isFam h'.1 e = false) → catchesAny H isFam h.1 e = true →
      Exec H isFam root (some e) h.2 th o →
      Exec H isFam root cur fin t' o' →
      Exec H isFam root cur (.try_ body (pre ++ h :: post) fin) (t ++ th ++ t') (if o' = .normal then o else o')

/-! ## Analysis: which exceptions can leave a term -/

/-- abstract set of exceptions: family classes by name (`famAll` = any family class),
    and whether a non-family exception is possible -/
structure Abs where
  famAll : Bool
  fams : List String
  other : Bool
  deriving Repr, DecidableEq

def Abs.empty : Abs := ⟨false, [], false⟩
def Abs.top : Abs := ⟨true, [], true⟩
def Abs.union (a b : Abs) : Abs := ⟨a.famAll || b.famAll, a.fams ++ b.fams, a.other || b.other⟩
def Abs.mem (e : Exn) (a : Abs) : Prop :=
  match e with
  | .fam c => a.famAll = true ∨ c ∈ a.fams
  | .other _ => a.other = true

/-- the part of `a` a handler list can let through (sound over-approximation):
    a catch-all pattern removes everything; `ExtractionError` (the family root) removes the family;
    other patterns are not trusted to remove anything. -/
def uncaught (root : String) (hs : List (List String × Stmt)) (a : Abs) : Abs :=
  let pats := hs.flatMap (·.1)
  if pats.any (fun p => p = "Exception" || p = "BaseException" || p = "") then Abs.empty
  else if pats.contains root then ⟨false, [], a.other⟩
  else a

/-- what the exception being handled can be inside a handler with patterns `pats`, given the body may raise `a` -/
def caughtBy (isFam : String → Bool) (pats : List String) (a : Abs) : Abs :=
  if pats.any (fun p => p = "Exception" || p = "BaseException" || p = "") then a
  else if pats.all isFam then ⟨a.famAll, a.fams, false⟩      -- only family patterns: only family exceptions arrive
  else if pats.all (fun p => !isFam p) then ⟨false, [], a.other⟩
  else a

mutual
/-- `escapes root isFam cur s`: over-approximation of the exceptions `s` can end with, when the
    exception being handled (for `reraise`) is in `cur`. -/
def escapes (root : String) (isFam : String → Bool) (cur : Option Abs) : Stmt → Abs
  | .atom _ total => if total then Abs.empty else Abs.top
  | .raise_ cls => if isFam cls then ⟨false, [cls], false⟩ else ⟨false, [], true⟩
  | .reraise => match cur with
      | some c => c
      | none => ⟨false, [], true⟩      -- a bare raise outside a handler is a RuntimeError
  | .ret _ => Abs.empty
  | .write _ total => if total then Abs.empty else Abs.top
  | .brk => Abs.empty
  | .cont => Abs.empty
  | .yield_ => Abs.empty
  | .seq a b => (escapes root isFam cur a).union (escapes root isFam cur b)
  | .ite a b => (escapes root isFam cur a).union (escapes root isFam cur b)
  | .loop b => escapes root isFam cur b
  | .try_ body hs fin =>
      let eb := escapes root isFam cur body
      ((uncaught root hs eb).union (escapesHandlers root isFam eb hs)).union (escapes root isFam cur fin)
def escapesHandlers (root : String) (isFam : String → Bool) (eb : Abs) : List (List String × Stmt) → Abs
  | [] => Abs.empty
  | (pats, h) :: rest =>
      (escapes root isFam (some (caughtBy isFam pats eb)) h).union (escapesHandlers root isFam eb rest)
end

end S2T.Wrapper
