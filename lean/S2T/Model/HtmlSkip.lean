/-
Model of the two HTML event machines that decide which markup is removed:

* `sharepoint2text/parsing/extractors/html_extractor.py : _HtmlTreeBuilder`
  (also used by `mhtml_extractor.read_mhtml` via `read_html` and by
  `mail/msg_email_extractor._html_to_text`)
* `sharepoint2text/parsing/extractors/epub_extractor.py : _XhtmlTextExtractor`

Both classes are `html.parser.HTMLParser` subclasses.  `HTMLParser` (not modelled) turns the
text into a sequence of handler calls; `Ev` is that sequence.  Tags arrive lower-cased
(`HTMLParser` lower-cases them; the handlers' own `tag.lower()` is then the identity).

Every handler has the same shape: a *skip gate* in front (`skip_depth`, `_skip_tag`,
`REMOVE_TAGS`, `_VOID_TAGS`), then the class-specific rest.  The gate is modelled once
(`handleStarttag` … `handleData`), parametrised by the tables `Tables` and by the rest of each
handler `Down σ`; the two concrete `Down`s (`Tree.down`, `Epub.down`) model the rest of each class.

`Legacy` is the gate as it was before the repair (counter moved by *every* start/end tag);
it is kept for the counterexample theorems in `Props/C17.lean`.
-/
namespace S2T.HtmlSkip

abbrev Str := List Char
abbrev Attrs := List (Str × Option Str)

/-- one handler call made by `HTMLParser.feed` -/
inductive Ev
  | start (tag : Str) (attrs : Attrs)       -- handle_starttag
  | end_ (tag : Str)                        -- handle_endtag
  | startend (tag : Str) (attrs : Attrs)    -- handle_startendtag  (`<x/>`)
  | data (s : Str)                          -- handle_data
  | comment (s : Str)                       -- handle_comment
  | decl (s : Str)                          -- handle_decl        (`<!DOCTYPE …>`)
  | pi (s : Str)                            -- handle_pi          (`<?…>`)
  | unknownDecl (s : Str)                   -- unknown_decl       (`<![CDATA[…]]>`)
  deriving DecidableEq, Repr

structure Tables where
  remove : List Str      -- REMOVE_TAGS
  void : List Str        -- _VOID_TAGS

/-- what the three content handlers do once the skip gate has let the call through -/
structure Down (σ : Type) where
  start : σ → Str → Attrs → σ
  end_ : σ → Str → σ
  data : σ → Str → σ

/-- parser object state: the gate's two fields + everything else -/
structure St (σ : Type) where
  skipDepth : Int          -- self.skip_depth
  skipTag : Option Str     -- self._skip_tag
  down : σ

section gate
variable {σ : Type} (T : Tables) (D : Down σ)

/-- `handle_starttag` -/
def handleStarttag (st : St σ) (tag : Str) (attrs : Attrs) : St σ :=
  if st.skipDepth > 0 then
    if some tag = st.skipTag then { st with skipDepth := st.skipDepth + 1 } else st
  else if T.remove.contains tag then
    if !T.void.contains tag then { st with skipTag := some tag, skipDepth := 1 } else st
  else { st with down := D.start st.down tag attrs }

/-- `handle_endtag` -/
def handleEndtag (st : St σ) (tag : Str) : St σ :=
  if st.skipDepth > 0 then
    if some tag = st.skipTag then
      let d := st.skipDepth - 1
      if d = 0 then { st with skipDepth := d, skipTag := none } else { st with skipDepth := d }
    else st
  else { st with down := D.end_ st.down tag }

/-- `handle_startendtag` -/
def handleStartendtag (st : St σ) (tag : Str) (attrs : Attrs) : St σ :=
  if st.skipDepth > 0 || T.remove.contains tag then st
  else handleEndtag D (handleStarttag T D st tag attrs) tag

/-- `handle_data` -/
def handleData (st : St σ) (s : Str) : St σ :=
  if st.skipDepth > 0 then st else { st with down := D.data st.down s }

/-- one handler call.  `handle_comment` is `pass`; `handle_decl`, `handle_pi`, `unknown_decl`
    are not overridden (the base class does nothing). -/
def step (st : St σ) : Ev → St σ
  | .start t a => handleStarttag T D st t a
  | .end_ t => handleEndtag D st t
  | .startend t a => handleStartendtag T D st t a
  | .data s => handleData D st s
  | .comment _ => st
  | .decl _ => st
  | .pi _ => st
  | .unknownDecl _ => st

/-- `feed`: the handler calls in order -/
def run (st : St σ) (evs : List Ev) : St σ := evs.foldl (step T D) st

/-- state after `__init__`, given the initial rest-of-state -/
def init (d : σ) : St σ := { skipDepth := 0, skipTag := none, down := d }

/-- the state after each call (for the per-event comparison with the real object) -/
def trace (st : St σ) : List Ev → List (Int × Option Str)
  | [] => []
  | e :: r => let st' := step T D st e; (st'.skipDepth, st'.skipTag) :: trace st' r

end gate

/-! ## The gate before the repair (kept for the counterexample theorems) -/
namespace Legacy
variable {σ : Type} (T : Tables) (D : Down σ)

def handleStarttag (st : St σ) (tag : Str) (attrs : Attrs) : St σ :=
  if st.skipDepth > 0 then { st with skipDepth := st.skipDepth + 1 }
  else if T.remove.contains tag then { st with skipDepth := 1 }
  else { st with down := D.start st.down tag attrs }

def handleEndtag (st : St σ) (tag : Str) : St σ :=
  if st.skipDepth > 0 then { st with skipDepth := st.skipDepth - 1 }
  else { st with down := D.end_ st.down tag }

def step (st : St σ) : Ev → St σ
  | .start t a => handleStarttag T D st t a
  | .end_ t => handleEndtag D st t
  | .startend t a => handleEndtag D (handleStarttag T D st t a) t   -- HTMLParser's default
  | .data s => handleData D st s
  | _ => st

def run (st : St σ) (evs : List Ev) : St σ := evs.foldl (step T D) st
end Legacy

/-! ## Downstream events: the calls that get through the gate -/

inductive DEv
  | start (tag : Str) (attrs : Attrs)
  | end_ (tag : Str)
  | data (s : Str)
  deriving DecidableEq, Repr

def Down.step {σ} (D : Down σ) (d : σ) : DEv → σ
  | .start t a => D.start d t a
  | .end_ t => D.end_ d t
  | .data s => D.data d s

def Down.feed {σ} (D : Down σ) (d : σ) (evs : List DEv) : σ := evs.foldl D.step d

/-- the downstream that just records the calls it receives -/
def logDown : Down (List DEv) where
  start := fun l t a => l ++ [.start t a]
  end_ := fun l t => l ++ [.end_ t]
  data := fun l s => l ++ [.data s]

/-! ## Rest of `_HtmlTreeBuilder`: the node tree -/
namespace Tree

/-- `{"tag","attrs","children","text","tail"}` -/
inductive Node
  | mk (tag : Str) (attrs : List (Str × Str)) (text : Str) (children : List Node) (tail : Str)

/-- an element still on `self.stack`; `kids` = its finished children, newest first, *without*
    the node `last_closed` points at -/
structure Frame where
  tag : Str
  attrs : List (Str × Str)
  text : Str
  kids : List Node

/-- `self.stack` (never empty: `top :: rest`, root at the bottom) and `self.last_closed`.
    `last_closed` is always `None` or the newest child of the top of the stack, so it is held
    here outside `top.kids` until something else is appended. -/
structure State where
  top : Frame
  rest : List Frame
  last : Option Node

/-- dict assignment `d[k] = v` (insert or overwrite, position of first insertion kept) -/
def dictSet (d : List (Str × Str)) (k v : Str) : List (Str × Str) :=
  match d with
  | [] => [(k, v)]
  | (k', v') :: r => if k = k' then (k, v) :: r else (k', v') :: dictSet r k v

/-- `{k: v for k, v in attrs if v is not None}` -/
def attrsDict (a : Attrs) : List (Str × Str) :=
  a.foldl (fun d kv => match kv.2 with | some v => dictSet d kv.1 v | none => d) []

def flush (f : Frame) (last : Option Node) : Frame :=
  match last with
  | some n => { f with kids := n :: f.kids }
  | none => f

def initState : State :=
  { top := { tag := "root".toList, attrs := [], text := [], kids := [] }, rest := [], last := none }

/-- rest of `handle_starttag` (after the gate) -/
def start (voidTags : List Str) (s : State) (tag : Str) (attrs : Attrs) : State :=
  let top := flush s.top s.last
  if !voidTags.contains tag then
    { top := { tag := tag, attrs := attrsDict attrs, text := [], kids := [] }, rest := top :: s.rest, last := none }
  else
    { top := top, rest := s.rest, last := some (.mk tag (attrsDict attrs) [] [] []) }

/-- rest of `handle_endtag` -/
def end_ (s : State) (tag : Str) : State :=
  match s.rest with
  | [] => s                                        -- len(self.stack) > 1 fails
  | parent :: rest' =>
    if s.top.tag = tag then
      let f := flush s.top s.last
      { top := parent, rest := rest', last := some (.mk f.tag f.attrs f.text f.kids.reverse []) }
    else s

/-- rest of `handle_data` -/
def data (s : State) (d : Str) : State :=
  match s.last with
  | some (.mk t a tx ch tl) => { s with last := some (.mk t a tx ch (tl ++ d)) }
  | none => { s with top := { s.top with text := s.top.text ++ d } }

def down (voidTags : List Str) : Down State where
  start := start voidTags
  end_ := end_
  data := data

/-- `get_tree()`: the root node as Python sees it (open elements are already children of
    their parents there). -/
def closeUp (top : Frame) (last : Option Node) : List Frame → Node
  | [] => let f := flush top last; .mk f.tag f.attrs f.text f.kids.reverse []
  | parent :: rest =>
    let f := flush top last
    closeUp parent (some (.mk f.tag f.attrs f.text f.kids.reverse [])) rest

def getTree (s : State) : Node := closeUp s.top s.last s.rest

end Tree

/-! ## Rest of `_XhtmlTextExtractor` -/
namespace Epub

structure State where
  textParts : List Str            -- self.text_parts
  inBlock : Bool
  tables : List (List (List Str))
  currentTable : List (List Str)
  currentRow : List Str
  currentCell : List Str
  inTable : Bool
  inCell : Bool
  title : Str
  inTitle : Bool

def initState : State :=
  { textParts := [], inBlock := false, tables := [], currentTable := [], currentRow := [],
    currentCell := [], inTable := false, inCell := false, title := [], inTitle := false }

/-- `str.isspace` for one character (code points CPython's `str.split()` splits on) -/
def isPySpace (c : Char) : Bool :=
  let n := c.toNat
  (9 ≤ n && n ≤ 13) || (28 ≤ n && n ≤ 32) || n = 0x85 || n = 0xA0 || n = 0x1680 ||
  (0x2000 ≤ n && n ≤ 0x200A) || n = 0x2028 || n = 0x2029 || n = 0x202F || n = 0x205F || n = 0x3000

/-- `value.split()`: maximal runs of non-space characters -/
def pySplit (s : Str) : List Str :=
  go s [] []
where
  go : Str → Str → List Str → List Str
    | [], cur, acc => (if cur.isEmpty then acc else cur.reverse :: acc).reverse
    | c :: r, cur, acc =>
      if isPySpace c then go r [] (if cur.isEmpty then acc else cur.reverse :: acc)
      else go r (c :: cur) acc

def joinWith (sep : Str) : List Str → Str
  | [] => []
  | [x] => x
  | x :: r => x ++ sep ++ joinWith sep r

/-- `_normalize_ws(" ".join(cell).strip())` = `" ".join(" ".join(cell).split())` -/
def cellText (cell : List Str) : Str := joinWith [' '] (pySplit (joinWith [' '] cell))

/-- rest of `handle_starttag`; `block` = BLOCK_TAGS -/
def start (block : List Str) (s : State) (tag : Str) (_ : Attrs) : State :=
  if tag = "title".toList then { s with inTitle := true }
  else if tag = "table".toList then { s with inTable := true, currentTable := [] }
  else
    let s := if s.inTable then
        (if tag = "tr".toList then { s with currentRow := [] }
         else if tag = "td".toList || tag = "th".toList then { s with inCell := true, currentCell := [] }
         else s)
      else s
    let s := if block.contains tag then { s with textParts := s.textParts ++ [['\n']], inBlock := true } else s
    if tag = "br".toList then { s with textParts := s.textParts ++ [['\n']] } else s

/-- rest of `handle_endtag` -/
def end_ (block : List Str) (s : State) (tag : Str) : State :=
  if tag = "title".toList then { s with inTitle := false }
  else if tag = "table".toList then
    { s with tables := (if s.currentTable.isEmpty then s.tables else s.tables ++ [s.currentTable]),
             currentTable := [], inTable := false }
  else
    let s := if s.inTable then
        (if tag = "tr".toList then
           { s with currentTable := (if s.currentRow.isEmpty then s.currentTable else s.currentTable ++ [s.currentRow]),
                    currentRow := [] }
         else if tag = "td".toList || tag = "th".toList then
           { s with currentRow := s.currentRow ++ [cellText s.currentCell], currentCell := [], inCell := false }
         else s)
      else s
    if block.contains tag then { s with textParts := s.textParts ++ [['\n']], inBlock := false } else s

/-- rest of `handle_data` -/
def data (s : State) (d : Str) : State :=
  if s.inTitle then { s with title := s.title ++ d }
  else if s.inCell then { s with currentCell := s.currentCell ++ [d] }
  else { s with textParts := s.textParts ++ [d] }

def down (block : List Str) : Down State where
  start := start block
  end_ := end_ block
  data := data

end Epub

end S2T.HtmlSkip
