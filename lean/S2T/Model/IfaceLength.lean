/-!
# Model of the lazy value conversion behind `OpenDocumentImage.get_metadata()` (data_types.py)

The extractor stores `svg:width` / `svg:height` of a picture frame AS THE FILE SPELLS THEM (any string); the pixel
size is computed when the caller asks: `_odf_length_to_px`

    if not length: return None
    match = _ODF_LENGTH_RE.match(length)         # ^\s*(\d+(?:\.\d+)?)\s*([a-zA-Z]+)?\s*$
    if not match: return None
    value = float(match.group(1))
    if not math.isfinite(value * 96.0): return None
    unit = (match.group(2) or "px").lower()
    if unit == "px": return int(round(value)) … if unit == "pc": return int(round(…))
    return None

and `get_metadata()` reports `w if w and w > 0 else None`.

Modelled: the regular expression as a deterministic scanner over `List Char` (the character classes `\s`, `\d` are
parameters — the driver instantiates them with the code point ranges read from the running interpreter; `[a-zA-Z]`
and `.` are fixed), the unit dispatch over the list of units that have a conversion, and the three places where such
a function can RAISE, as explicit configuration (`Cfg`): a unit without conversion ends in `return None` or in a
lookup that raises `KeyError`; a non-finite value is excluded before `int(round(..))` or raises `OverflowError`.
Float arithmetic is a host parameter (`Host.finite`, `Host.px`): the theorems hold for every host.
-/
namespace S2T.Iface.Length

structure Classes where
  space : Char → Bool
  digit : Char → Bool

def asciiAlpha (c : Char) : Bool := (decide ('a' ≤ c) && decide (c ≤ 'z')) || (decide ('A' ≤ c) && decide (c ≤ 'Z'))

/-- `str.lower()` restricted to what `[a-zA-Z]+` can capture -/
def lowerAscii (c : Char) : Char := if decide ('A' ≤ c) && decide (c ≤ 'Z') then Char.ofNat (c.toNat + 32) else c

structure Parsed where
  intDigits : List Char
  fracDigits : Option (List Char)
  unit : List Char          -- as captured (may be empty = group 2 did not take part)
  deriving DecidableEq, Repr

/-- the tail `\s*([a-zA-Z]+)?\s*$` -/
def parseTail (cl : Classes) (d : List Char) (f : Option (List Char)) (r : List Char) : Option Parsed :=
  let r2 := r.dropWhile cl.space
  let u := r2.takeWhile asciiAlpha
  let r3 := (r2.dropWhile asciiAlpha).dropWhile cl.space
  if r3.isEmpty then some ⟨d, f, u⟩ else none

/-- `_ODF_LENGTH_RE.match(s)`: `none` = no match.  The classes are pairwise disjoint, so the greedy scan is the match. -/
def parseLength (cl : Classes) (s : List Char) : Option Parsed :=
  let s1 := s.dropWhile cl.space
  let d := s1.takeWhile cl.digit
  let r := s1.dropWhile cl.digit
  if d.isEmpty then none
  else match r with
    | '.' :: r' =>
      let f := r'.takeWhile cl.digit
      if f.isEmpty then none else parseTail cl d (some f) (r'.dropWhile cl.digit)
    | _ => parseTail cl d none r

inductive Exc | keyError | overflowError
  deriving DecidableEq, Repr

instance {α} [DecidableEq α] : DecidableEq (Except Exc α) := fun a b =>
  match a, b with
  | .ok x, .ok y => if h : x = y then isTrue (by rw [h]) else isFalse (fun e => h (by injection e))
  | .error x, .error y => if h : x = y then isTrue (by rw [h]) else isFalse (fun e => h (by injection e))
  | .ok _, .error _ => isFalse (fun e => by cases e)
  | .error _, .ok _ => isFalse (fun e => by cases e)

/-- what the source does with a unit that has no conversion -/
inductive UnknownUnit | returnsNone | raises
  deriving DecidableEq, Repr

structure Cfg where
  units : List (List Char)     -- units with a conversion (lower case)
  unknown : UnknownUnit
  finiteGuard : Bool           -- `if not math.isfinite(..): return None` before int(round(..))
  deriving Repr

/-- float arithmetic: is the scaled value finite; the rounded pixel count when it is -/
structure Host where
  finite : Parsed → Bool
  px : Parsed → List Char → Int

def unitOf (p : Parsed) : List Char :=
  if p.unit.isEmpty then ['p', 'x'] else p.unit.map lowerAscii

/-- `_odf_length_to_px(length)`; `none` input = the attribute is absent (`None`) -/
def lengthToPx (cl : Classes) (cfg : Cfg) (h : Host) (len : Option (List Char)) : Except Exc (Option Int) :=
  match len with
  | none => .ok none
  | some s =>
    if s.isEmpty then .ok none
    else match parseLength cl s with
      | none => .ok none
      | some p =>
        if cfg.finiteGuard && !h.finite p then .ok none
        else
          let u := unitOf p
          if cfg.units.contains u then
            (if h.finite p then .ok (some (h.px p u)) else .error .overflowError)
          else match cfg.unknown with
            | .returnsNone => .ok none
            | .raises => .error .keyError

/-- `w if w and w > 0 else None` -/
def reportDim (r : Option Int) : Option Int :=
  match r with
  | some n => if n > 0 then some n else none
  | none => none

/-- `OpenDocumentImage.get_metadata()`: the (width, height) it reports, or the exception that escapes -/
def imageDims (cl : Classes) (cfg : Cfg) (h : Host) (w ht : Option (List Char)) : Except Exc (Option Int × Option Int) :=
  match lengthToPx cl cfg h w with
  | .error e => .error e
  | .ok a => match lengthToPx cl cfg h ht with
    | .error e => .error e
    | .ok b => .ok (reportDim a, reportDim b)

/-- membership in a list of closed code point ranges (the generated `\s` / `\d` tables) -/
def inRanges (rs : List (Nat × Nat)) (c : Char) : Bool := rs.any (fun r => decide (r.1 ≤ c.toNat) && decide (c.toNat ≤ r.2))

def classesOf (space digit : List (Nat × Nat)) : Classes := ⟨inRanges space, inRanges digit⟩

end S2T.Iface.Length
