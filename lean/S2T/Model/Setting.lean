/-
Model of a save / set / restore section around an INTERPRETER-GLOBAL SETTING
(`sys.setrecursionlimit`, `locale.setlocale`, `decimal` / `warnings` / `socket` defaults, ...):

    prev = get()            -- `save`
    set(upd prev)           -- `set`      (`upd prev = v` or `if prev < v then v else prev`, ...)
    try:    <body>          -- `body`     the extraction runs and observes the setting
    finally: set(prev)      -- `restore`

This is `S2T.Patch.Legacy` with the patched function replaced by an arbitrary value cell `G : Nat` and an
arbitrary update function: the unsynchronised protocol.  The synchronised protocol (lock + user count: first
in sets, last out restores) is `S2T.Patch.Fixed`, proved isolated for every schedule in `Props/C15.lean` §1.
The unchanged library contains NO such section (generated fact, theorem `inventory_no_setting_writers`).
-/
namespace S2T.Setting

inductive Pc
  | save | set | body | restore | done
  deriving DecidableEq, Repr, Inhabited

structure Thr where
  pc  : Pc
  loc : Nat          -- the local variable `prev`
  deriving DecidableEq, Repr, Inhabited

structure St where
  G   : Nat                    -- the interpreter-global setting
  thr : List Thr
  obs : List (Nat × Nat)       -- (thread, value of the setting its body ran under), in time order
  deriving DecidableEq, Repr

def init (g : Nat) (k : Nat) : St := { G := g, thr := List.replicate k ⟨.save, 0⟩, obs := [] }

/-- one step of thread `t` (no-op when `t` does not exist or is finished) -/
def step (upd : Nat → Nat) (s : St) (t : Nat) : St :=
  match s.thr[t]? with
  | none => s
  | some x =>
    match x.pc with
    | .save    => { s with thr := s.thr.set t ⟨.set, s.G⟩ }
    | .set     => { s with G := upd x.loc, thr := s.thr.set t ⟨.body, x.loc⟩ }
    | .body    => { s with obs := s.obs ++ [(t, s.G)], thr := s.thr.set t ⟨.restore, x.loc⟩ }
    | .restore => { s with G := x.loc, thr := s.thr.set t ⟨.done, x.loc⟩ }
    | .done    => s

def run (upd : Nat → Nat) (s : St) (sched : List Nat) : St := sched.foldl (step upd) s

def allDone (s : St) : Bool := s.thr.all (fun x => x.pc == .done)

/-- `if prev < v: set(v)` — raise the setting to at least `v` -/
def raiseTo (v : Nat) (prev : Nat) : Nat := if prev < v then v else prev

end S2T.Setting
