import S2T.Model.C02SheetsTables
/-
Model of the ODS sheet text (C02, part 'sheets'):

* ods_extractor.py: `_iter_cell_paragraphs` (covered-set walk of fix-ods-cell-comment-leak), `_extract_cell_value`
  (display text: the typed value attribute of a float / currency / percentage / date / time / boolean cell when it is
  non-empty, else the cell's paragraphs joined by "\n"), `_extract_sheet` (text side: column / row repeats with the
  caps exactly as the source has them - an EMPTY cell repeated more than `cellCap` times counts once, a row of empty
  cells repeated more than `rowCap` times counts once -, trailing empty rows / columns trimmed, non-empty display texts
  of a row joined by "\t", rows with text joined by "\n");
* data_types.py: `OdsContent.iterate_units` (`(name + "\n" + text.strip()).strip()`), `_join_unit_text`.

All constants are fields of `OdsT` (generated).  `element_text`, `int()` (`pyInt`), `find` / `findall` are the
definitions of the 'odf' part (imported read-only).  Core Lean only (the driver links this file).
-/
namespace S2T.C02.Sheets.Ods
open S2T.Tok S2T.OdfText S2T.C02.Sheets

/-! ## `_iter_cell_paragraphs`: the same covered-set walk as ODP's `_iter_text_paragraphs` (see there) -/
mutual
def walkCov (T : OdsT) (cov : Bool) : Xml → List Xml
  | .node tag a x l kids =>
    if cov || T.fmt.skip.contains tag then walkCovL T true kids
    else if tag = T.pTag then .node tag a x l kids :: walkCovL T true kids
    else walkCovL T false kids
def walkCovL (T : OdsT) (cov : Bool) : List Xml → List Xml
  | [] => []
  | k :: ks => walkCov T cov k ++ walkCovL T cov ks
end

/-- `list(_iter_cell_paragraphs(cell))` (`cell.iter()` starts with the cell itself) -/
def cellParas (T : OdsT) (cell : Xml) : List Xml := walkCov T false cell

mutual
def pruned (T : OdsT) : Xml → List Xml
  | .node tag a x l kids =>
    if T.fmt.skip.contains tag then []
    else if tag = T.pTag then [.node tag a x l kids]
    else prunedL T kids
def prunedL (T : OdsT) : List Xml → List Xml
  | [] => []
  | k :: ks => pruned T k ++ prunedL T ks
end

/-! ## `_extract_cell_value` (display text) -/

/-- the typed branches in source order: `if value_type in names: value = cell.get(attr, ""); if value: return value` -/
def typedValue : List (List Str × Str) → Str → List (Str × Str) → Option Str
  | [], _, _ => none
  | (names, a) :: r, vt, attrs =>
    if names.contains vt then
      let v := (attr a attrs).getD []
      if v ≠ [] then some v else typedValue r vt attrs
    else typedValue r vt attrs

/-- display text; the typed value is `None` iff it is empty -/
def cellDisplay (T : OdsT) (cell : Xml) : Str :=
  match typedValue T.kinds ((attr T.valueType cell.attrs).getD []) cell.attrs with
  | some v => v
  | none => join T.paraSep ((cellParas T cell).map (elemText T.isWs T.fmt))

/-! ## `_extract_sheet` (text side) -/

inductive OdsErr | valueError
  deriving Repr, DecidableEq

/-- `int(elem.get(attr, "1"))`: a ValueError aborts the extraction -/
def repeatOf (T : OdsT) (k : Str) (e : Xml) : Except OdsErr Int :=
  match pyInt T.isWs ((attr k e.attrs).getD ['1']) with
  | some n => .ok n
  | none => .error .valueError

/-- one row: the display texts of its cells after column-repeat expansion (`[x] * n` is `[]` for n ≤ 0) -/
def rowValues (T : OdsT) : List Xml → Except OdsErr (List Str)
  | [] => .ok []
  | c :: cs =>
    match repeatOf T T.repCols c, rowValues T cs with
    | .ok rep, .ok rest =>
      let d := cellDisplay T c
      if d = [] ∧ rep > (T.cellCap : Int) then .ok ([] :: rest) else .ok (List.replicate rep.toNat d ++ rest)
    | .error e, _ => .error e
    | _, .error e => .error e

def rowEmpty (vals : List Str) : Bool := vals.all (fun v => decide (v = []))

def rawRows (T : OdsT) : List Xml → Except OdsErr (List (List Str))
  | [] => .ok []
  | r :: rs =>
    match repeatOf T T.repRows r, rowValues T (findall T.cellTag r), rawRows T rs with
    | .ok rep, .ok vals, .ok rest =>
      if rep > (T.rowCap : Int) ∧ rowEmpty vals = true then .ok (vals :: rest) else .ok (List.replicate rep.toNat vals ++ rest)
    | .error e, _, _ => .error e
    | _, .error e, _ => .error e
    | _, _, .error e => .error e

/-- `while raw_rows and all(v[0] is None for v in raw_rows[-1]): raw_rows.pop()` -/
def trimRows (rows : List (List Str)) : List (List Str) := rstrip rowEmpty rows

/-- 1 + index of the last cell with data (0 if none) -/
def lastData (row : List Str) : Nat := (rstrip (fun v => decide (v = [])) row).length

def maxCols (rows : List (List Str)) : Nat := rows.foldl (fun m r => max m (lastData r)) 0

/-- the text line of one row (`none`: no display text) -/
def rowLine (T : OdsT) (n : Nat) (r : List Str) : Option Str :=
  let texts := (r.take n).filter (fun v => decide (v ≠ []))
  if texts = [] then none else some (join T.cellSep texts)

/-- `sheet.text` from the raw rows -/
def textOfRows (T : OdsT) (raw : List (List Str)) : Str :=
  let rows := trimRows raw
  join T.lineSep (rows.filterMap (rowLine T (maxCols rows)))

def sheetText (T : OdsT) (table : Xml) : Except OdsErr Str :=
  match rawRows T (findall T.rowTag table) with
  | .ok raw => .ok (textOfRows T raw)
  | .error e => .error e

/-- `OdsUnit.text` -/
def unitOf (T : OdsT) (name text : Str) : Str :=
  let u := name ++ T.unitSep ++ strip T.isWs text
  if T.unitStrip then strip T.isWs u else u

def sheetUnitText (T : OdsT) (table : Xml) : Except OdsErr Str :=
  match sheetText T table with
  | .ok t => .ok (unitOf T ((attr T.nameAttr table.attrs).getD []) t)
  | .error e => .error e

def mapE {α β ε} (f : α → Except ε β) : List α → Except ε (List β)
  | [] => .ok []
  | a :: r =>
    match f a, mapE f r with
    | .ok b, .ok bs => .ok (b :: bs)
    | .error e, _ => .error e
    | _, .error e => .error e

/-- `OdsContent.get_full_text()` of `read_ods` on the `office:spreadsheet` element -/
def fullText (T : OdsT) (doc : Xml) : Except OdsErr Str :=
  match mapE (sheetUnitText T) (findall T.tableTag doc) with
  | .ok us => .ok (strip T.isWs (join T.joinSep us))
  | .error e => .error e

end S2T.C02.Sheets.Ods
