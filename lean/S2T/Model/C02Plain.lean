import S2T.Model.C02OdfRtf
/-!
C02 (part 'plain'): the plain-text extractor `plain_extractor.py` FROM THE BYTES OF THE FILE.

* `decode` / `encode`: Python's strict `bytes.decode(codec)` / `str.encode(codec)` for the codecs that identify
  themselves in a file (ASCII, UTF-8 - Lean core's `ByteArray.utf8Decode?` / `List.utf8Encode` - and Latin-1);
* `detectAndDecode`: `_detect_and_decode(content)`.  charset_normalizer is a PARAMETER (`detect`): its verdict names a
  codec and says how many signature bytes (BOM) it recognised; `str(best_match)` is the strict decoding of the WHOLE
  content behind the signature with that codec.  The `errors="replace"` fallback (`fallback`) is only reached when the
  detector gives no verdict or its own decoding raises;
* `fileFullText`: `next(read_plain_text(io.BytesIO(content))).get_full_text()`.

Nothing here depends on the SIZE of the file: that is the point the theorems of `Props/C02_Plain.lean` make, and
`S2T.Gen.C02Plain` re-derives from the current source that the code has no size-dependent branch either.
Core Lean only (the driver links this file).
-/
namespace S2T.Plain
open S2T.Tok

inductive Codec | ascii | utf8 | latin1
deriving DecidableEq, Repr

def byteChar (x : UInt8) : Char := Char.ofNat x.toNat
def charByte (c : Char) : UInt8 := c.toNat.toUInt8

/-- strict `bytes.decode(codec)`; `none` = UnicodeDecodeError -/
def decode : Codec → ByteArray → Option Str
  | .utf8, b => b.utf8Decode?.map Array.toList
  | .latin1, b => some (b.data.toList.map byteChar)
  | .ascii, b => if b.data.toList.all (fun x => x.toNat < 128) then some (b.data.toList.map byteChar) else none

/-- strict `str.encode(codec)`; `none` = UnicodeEncodeError -/
def encode : Codec → Str → Option ByteArray
  | .utf8, s => some (String.ofList s).toByteArray
  | .latin1, s => if s.all (fun c => c.toNat < 256) then some ⟨(s.map charByte).toArray⟩ else none
  | .ascii, s => if s.all (fun c => c.toNat < 128) then some ⟨(s.map charByte).toArray⟩ else none

/-- what charset_normalizer reports: `best_match.encoding` and the length of the signature it stripped -/
structure Verdict where
  codec : Codec
  sigLen : Nat
deriving DecidableEq, Repr

/-- the bytes `str(best_match)` decodes: everything behind the recognised signature -/
def payload (v : Verdict) (content : ByteArray) : ByteArray := content.extract v.sigLen content.size

/-- `_detect_and_decode(content)` → (text, detected_encoding) -/
def detectAndDecode (detect : ByteArray → Option Verdict) (fallback : ByteArray → Str) (content : ByteArray) :
    Str × Codec :=
  if content.size = 0 then ([], .utf8)
  else match detect content with
    | some v =>
      match decode v.codec (payload v content) with
      | some t => (t, v.codec)
      | none => (fallback content, .utf8)
    | none => (fallback content, .utf8)

/-- `next(read_plain_text(BytesIO(content))).get_full_text()` -/
def fileFullText (p : Char → Bool) (detect : ByteArray → Option Verdict) (fallback : ByteArray → Str)
    (content : ByteArray) : Str :=
  S2T.Rtf.plainFullText p (detectAndDecode detect fallback content).1

/-! ## the writer the theorems are about -/

def utf8Sig : ByteArray := ⟨#[0xEF, 0xBB, 0xBF]⟩

/-- signature written in front of the text (`utf-8-sig`) -/
def sigBytes (c : Codec) (sig : Bool) : ByteArray := if sig ∧ c = .utf8 then utf8Sig else ByteArray.empty

/-- a plain-text file: optional signature + the encoded text; `none` when the codec cannot represent the text -/
def renderText (c : Codec) (sig : Bool) (s : Str) : Option ByteArray := (encode c s).map (sigBytes c sig ++ ·)

/-- lines of a document joined by the file's newline convention -/
def docText (nl : Str) (lines : List Str) : Str := join nl lines

end S2T.Plain
