import S2T.Model.Aes
/-!
# Several threads inside the built-in AES (C20, re-entrancy)

`_aes_encrypt_block` / `_aes_decrypt_block` are a sequence of round functions applied to a 16-entry state.  A thread
can be preempted between any two of them (and inside them: a finer program is again a list of steps).  Two readings
of the source:

* **private state** (`Thread`, `run`) — the state is an object only that call can reach (a parameter / a fresh local):
  what `Gen.AesState` establishes for the current source.  Under ANY schedule of ANY number of threads each thread
  ends with what it computes alone (`S2T.AesThreadsL.run_private`).
* **shared scratch state** (`SThread`, `srun`) — the steps of all threads work on one cell (a module-level list that is
  refilled per block): the reading under which the answer depends on the schedule (`shared_scratch_counterexample`).
-/
namespace S2T.AesThreads
open S2T.Aes

/-- a thread inside the AES: the steps it still has to execute on ITS OWN state -/
structure Thread (σ : Type) where
  todo : List (σ → σ)
  st : σ

/-- the thread is given the processor for one step (nothing happens if it has finished) -/
def Thread.step {σ : Type} (t : Thread σ) : Thread σ :=
  match t.todo with
  | [] => t
  | f :: r => { todo := r, st := f t.st }

/-- what the thread computes when it runs alone -/
def Thread.alone {σ : Type} (t : Thread σ) : σ := t.todo.foldl (fun s f => f s) t.st

/-- one scheduling decision: thread number `i` runs one step (a number that names no thread: nothing happens) -/
def sched1 {σ : Type} : List (Thread σ) → Nat → List (Thread σ)
  | [], _ => []
  | t :: ts, 0 => t.step :: ts
  | t :: ts, i + 1 => t :: sched1 ts i

/-- a schedule is any list of thread numbers -/
def run {σ : Type} (ts : List (Thread σ)) (sched : List Nat) : List (Thread σ) := sched.foldl sched1 ts

def finished {σ : Type} (ts : List (Thread σ)) : Bool := ts.all fun t => t.todo.isEmpty

/-! ### the block functions as step programs -/

/-- `_aes_encrypt_block` after `state = list(block)`: the calls of the round functions in program order -/
def encProgram (T : Tables) (rks : List (List Nat)) : List (List Nat → List Nat) :=
  let nr := rks.length - 1
  (fun s => addRoundKey s (rks.getD 0 [])) ::
    ((List.range' 1 (nr - 1)).flatMap fun r =>
      [subBytes T, shiftRows, mixColumns T, fun s => addRoundKey s (rks.getD r [])]) ++
    [subBytes T, shiftRows, fun s => addRoundKey s (rks.getD nr [])]

/-- `_aes_decrypt_block` after `state = list(block)` -/
def decProgram (T : Tables) (rks : List (List Nat)) : List (List Nat → List Nat) :=
  let nr := rks.length - 1
  (fun s => addRoundKey s (rks.getD nr [])) ::
    ((List.range' 1 (nr - 1)).reverse.flatMap fun r =>
      [invShiftRows, invSubBytes T, (fun s => addRoundKey s (rks.getD r [])), invMixColumns T]) ++
    [invShiftRows, invSubBytes T, fun s => addRoundKey s (rks.getD 0 [])]

/-! ### the other reading: one scratch state for all threads -/

/-- a thread whose block function works on the SHARED cell: `state[:] = block`, the round functions, `bytes(state)` -/
structure SThread where
  input : List Nat
  loaded : Bool := false
  todo : List (List Nat → List Nat)
  out : Option (List Nat) := none

/-- one step of thread `t` on the shared cell -/
def SThread.step (t : SThread) (cell : List Nat) : SThread × List Nat :=
  if !t.loaded then ({ t with loaded := true }, t.input)
  else match t.todo with
    | f :: r => ({ t with todo := r }, f cell)
    | [] => if t.out.isNone then ({ t with out := some cell }, cell) else (t, cell)

def ssched1 : List SThread × List Nat → Nat → List SThread × List Nat
  | ([], c), _ => ([], c)
  | (t :: ts, c), 0 => let (t', c') := t.step c; (t' :: ts, c')
  | (t :: ts, c), i + 1 => let (ts', c') := ssched1 (ts, c) i; (t :: ts', c')

def srun (ts : List SThread) (cell : List Nat) (sched : List Nat) : List SThread × List Nat :=
  sched.foldl ssched1 (ts, cell)

end S2T.AesThreads
