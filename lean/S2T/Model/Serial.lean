/-!
# Executable model of `sharepoint2text/parsing/extractors/serialization.py`

Function by function:

| Python                                   | here                         |
|------------------------------------------|------------------------------|
| `_bytes_to_base64` / `_bytesio_to_base64`| `b64enc`                     |
| `_base64_to_bytes` / `_base64_to_bytesio`| `b64ToBytes` / `b64ToBytesio` (`b64dec`: canonical input only, everything else is *unmodelled*, never a default) |
| `_serialize_for_json`                    | `ser` (+ `serList`, `serKVs`, `serFields`, `normKeys` = Python's insert-or-overwrite dict build) |
| `serialize_extraction`                   | `serializeExtraction`        |
| `_unwrap_optional`                       | `unwrapOpt`                  |
| `_deserialize_value`                     | `deserValue` (+ `deserList`, `deserKVs`) |
| `_deserialize_dataclass`                 | `resolveClass`, `deserFields`, `build`, `deserDataclass` |
| `deserialize_extraction`                 | `deserializeExtraction`      |
| `cli._serialize_results` / `_serialize_unit_results` | `cliResults` / `cliUnitResults` |
| `xlsx_extractor._get_cell_value`         | `Cell`, `cellValue`          |

Core Lean only (the driver links this file).
-/
namespace S2T.Serial

abbrev Str := List Char

/-- Python dict keys (hashable values).  `other` carries what `str(key)` returns
(float / tuple / bytes / frozenset keys), supplied by the harness. -/
inductive Key
  | none | bool (b : Bool) | int (i : Int) | str (s : Str) | other (strOf : Str)
  deriving DecidableEq, Repr, Inhabited

/-- The value universe. `float` is an opaque token (its `repr`); `set` carries its iteration order;
`obj` is a dataclass instance: class name and `(field name, value)` in `dataclasses.fields` order;
`foreign` is any other Python object (`datetime.timedelta`, `Decimal`, …): the serialiser returns it as is. -/
inductive PyVal
  | none | bool (b : Bool) | int (i : Int) | float (tok : Str) | str (s : Str)
  | bytes (b : List Nat) | bytearray (b : List Nat) | bytesio (b : List Nat)
  | list (xs : List PyVal) | tuple (xs : List PyVal) | set (xs : List PyVal)
  | dict (kvs : List (Key × PyVal))
  | obj (cls : Str) (fields : List (Str × PyVal))
  | foreign (tyname : Str)
  deriving Repr, Inhabited

/-- resolved type hints, as far as `_deserialize_value` looks at them -/
inductive Ty
  | any | none | bool | int | float | str | bytes | bytearray | bytesio
  | opt (t : Ty)            -- `typing.Optional[X]` / `Union[X, None]`: unwrapped by `_unwrap_optional`
  | list (t : Ty)           -- origin `list`
  | dict (k v : Ty)         -- origin `dict`
  | cls (name : Str)        -- a class whose `__name__` is in the registry
  | other (repr : Str)      -- everything else (`str | None` is a `types.UnionType`, Protocol classes, …): no type-directed step
  deriving Repr, Inhabited

structure Field where
  name : Str
  ty : Ty
  /-- `none` = required constructor argument -/
  default : Option PyVal
  deriving Repr, Inhabited

structure Class where
  name : Str
  fields : List Field
  /-- fields `f` for which `__post_init__` does `self.f = self.f.strip()` -/
  strip : List Str
  /-- Protocol / abstract classes cannot be instantiated (`TypeError`) -/
  abstract : Bool
  deriving Repr, Inhabited

abbrev Schema := List Class

def Schema.find (S : Schema) (n : Str) : Option Class := S.find? (fun c => c.name == n)

def Class.fieldNames (c : Class) : List Str := c.fields.map (·.name)
def Class.fieldTy (c : Class) (n : Str) : Option Ty := (c.fields.find? (fun f => f.name == n)).map (·.ty)

/-! ## marker vocabulary -/
def kType : Str := "_type".toList
def kBytes : Str := "_bytes".toList
def kBytesio : Str := "_bytesio".toList
def kValue : Str := "value".toList
def markers : List Str := [kBytesio, kBytes, kType]

/-! ## str(key) -/
def intStr (i : Int) : Str := (toString i).toList
def keyStr : Key → Str
  | .none => "None".toList
  | .bool true => "True".toList
  | .bool false => "False".toList
  | .int i => intStr i
  | .str s => s
  | .other r => r

/-! ## base64 (RFC 4648 standard alphabet, as `base64.b64encode`) -/
def b64Alphabet : List Char := "ABCDEFGHIJKLMNOPQRSTUVWXYZabcdefghijklmnopqrstuvwxyz0123456789+/".toList
def b64c (n : Nat) : Char := b64Alphabet.getD n '='
def b64idx (c : Char) : Option Nat := b64Alphabet.findIdx? (· == c)

def b64enc : List Nat → List Char
  | [] => []
  | [a] => [b64c (a / 4), b64c ((a % 4) * 16), '=', '=']
  | [a, b] => [b64c (a / 4), b64c ((a % 4) * 16 + b / 16), b64c ((b % 16) * 4), '=']
  | a :: b :: c :: rest =>
      b64c (a / 4) :: b64c ((a % 4) * 16 + b / 16) :: b64c ((b % 16) * 4 + c / 64) :: b64c (c % 64) :: b64enc rest

/-- decoder for *canonical* base64 only (what `b64enc` produces).  `none` = not canonical:
CPython's lenient `binascii.a2b_base64` (discarding, partial padding) is **not modelled**. -/
def b64dec : List Char → Option (List Nat)
  | [] => some []
  | w :: x :: y :: z :: rest =>
      match b64idx w, b64idx x with
      | some p, some q =>
        if y = '=' then
          if z = '=' ∧ rest = [] ∧ q % 16 = 0 then some [p * 4 + q / 16] else none
        else match b64idx y with
          | some r =>
            if z = '=' then
              if rest = [] ∧ r % 4 = 0 then some [p * 4 + q / 16, (q % 16) * 16 + r / 4] else none
            else match b64idx z, b64dec rest with
              | some s, some tl => some ((p * 4 + q / 16) :: ((q % 16) * 16 + r / 4) :: ((r % 4) * 64 + s) :: tl)
              | _, _ => none
          | none => none
      | _, _ => none
  | _ => none

/-! ## serialiser -/

/-- `result[k] = v` on an insertion-ordered dict -/
def ins : List (Key × PyVal) → Key → PyVal → List (Key × PyVal)
  | [], k, v => [(k, v)]
  | (k', v') :: t, k, v => if k' = k then (k', v) :: t else (k', v') :: ins t k v

def normGo (acc : List (Key × PyVal)) : List (Key × PyVal) → List (Key × PyVal)
  | [] => acc
  | (k, v) :: l => normGo (ins acc k v) l

/-- building a dict from an item sequence: first position, last value -/
def normKeys (l : List (Key × PyVal)) : List (Key × PyVal) := normGo [] l

mutual
/-- `_serialize_for_json(value, include_binary=b)` -/
def ser (b : Bool) : PyVal → PyVal
  | .bytesio bs => if b then .dict [(.str kBytesio, .str (b64enc bs))] else .none
  | .bytes bs => if b then .dict [(.str kBytes, .str (b64enc bs))] else .none
  | .bytearray bs => if b then .dict [(.str kBytes, .str (b64enc bs))] else .none
  | .obj c fs => .dict (normKeys ((.str kType, .str c) :: serFields b fs))
  | .dict kvs => .dict (normKeys (serKVs b kvs))
  | .list xs => .list (serList b xs)
  | .tuple xs => .list (serList b xs)
  | .set xs => .list (serList b xs)
  | .none => .none
  | .bool x => .bool x
  | .int i => .int i
  | .float t => .float t
  | .str s => .str s
  | .foreign n => .foreign n
def serList (b : Bool) : List PyVal → List PyVal
  | [] => []
  | x :: xs => ser b x :: serList b xs
def serKVs (b : Bool) : List (Key × PyVal) → List (Key × PyVal)
  | [] => []
  | (k, v) :: r => (.str (keyStr k), ser b v) :: serKVs b r
def serFields (b : Bool) : List (Str × PyVal) → List (Key × PyVal)
  | [] => []
  | (n, v) :: r => (.str n, ser b v) :: serFields b r
end

/-- `serialize_extraction` -/
def serializeExtraction (b : Bool) (v : PyVal) : PyVal :=
  match ser b v with
  | .dict kvs => .dict kvs
  | j => .dict [(.str kValue, j)]

/-! ## deserialiser -/

inductive Err
  | typeError | valueError | attributeError | binasciiError
  /-- outside the modelled fragment (never produced on serialiser output) -/
  | unmodelled (why : String)
  deriving Repr, DecidableEq, Inhabited

def unwrapOpt : Ty → Ty
  | .opt t => t
  | t => t

def dget (k : Str) (kvs : List (Key × PyVal)) : Option PyVal := kvs.lookup (Key.str k)

def b64ToBytes : PyVal → Except Err PyVal
  | .str s => match b64dec s with
      | some bs => .ok (.bytes bs)
      | none => .error (.unmodelled "non-canonical base64")
  | .obj _ _ => .error (.unmodelled "dataclass instance inside JSON input")
  | _ => .error .attributeError      -- `.encode` on a non-str

def b64ToBytesio : PyVal → Except Err PyVal
  | .str s => match b64dec s with
      | some bs => .ok (.bytesio bs)
      | none => .error (.unmodelled "non-canonical base64")
  | .obj _ _ => .error (.unmodelled "dataclass instance inside JSON input")
  | _ => .error .attributeError

/-- Python truthiness of a JSON value -/
def truthy : PyVal → Bool
  | .none => false | .bool b => b | .int i => i != 0 | .float t => !(t == "0.0".toList || t == "-0.0".toList)
  | .str s => !s.isEmpty | .bytes b => !b.isEmpty | .bytearray b => !b.isEmpty | .bytesio _ => true
  | .list xs => !xs.isEmpty | .tuple xs => !xs.isEmpty | .set xs => !xs.isEmpty | .dict kvs => !kvs.isEmpty
  | .obj _ _ => true | .foreign _ => true

/-- `type_name = data.get("_type"); if type_name and type_name in registry: … elif expected_class …`.
`ok none` = "can't determine the class, return dict as-is". -/
def resolveClass (S : Schema) (expected : Option Str) (kvs : List (Key × PyVal)) : Except Err (Option Class) :=
  let fallback : Except Err (Option Class) := match expected with
    | some n => .ok (S.find n)
    | none => .ok none
  match dget kType kvs with
  | some (.str n) => match S.find n with
      | some c => if n.isEmpty then fallback else .ok (some c)
      | none => fallback
  | some tv =>
      if !truthy tv then fallback
      else match tv with
        | .list _ | .dict _ => .error .typeError            -- unhashable in `type_name in registry`
        | .bool _ | .int _ | .float _ => fallback           -- hashable, not a registry key
        | _ => .error (.unmodelled "non-JSON value under _type")
  | none => fallback

def kImageMetadata : Str := "ImageMetadata".toList
def kUnitIndex : Str := "unit_index".toList
def kUnitNumber : Str := "unit_number".toList
def kImageIndex : Str := "image_index".toList
def kImageNumber : Str := "image_number".toList

/-- backwards-compatibility shim of `_deserialize_dataclass` for `ImageMetadata`, entry-wise:
the field a data key feeds, if any -/
def targetField (c : Class) (full : List (Key × PyVal)) (k : Key) : Option Str :=
  match k with
  | .str s =>
    if c.fieldNames.contains s then some s
    else if c.name == kImageMetadata then
      if s == kUnitIndex && (dget kUnitNumber full).isNone && c.fieldNames.contains kUnitNumber
        then some kUnitNumber
      else if s == kImageIndex && (dget kImageNumber full).isNone && c.fieldNames.contains kImageNumber
        then some kImageNumber
      else none
    else none
  | _ => none

/-- Python `str.strip()`: code points with `str.isspace()` (cross-checked against the runtime by the generator) -/
def pyWhitespace : List Nat :=
  [9, 10, 11, 12, 13, 28, 29, 30, 31, 32, 133, 160, 5760, 8192, 8193, 8194, 8195, 8196, 8197, 8198, 8199,
   8200, 8201, 8202, 8232, 8233, 8239, 8287, 12288]
def isSpace (c : Char) : Bool := pyWhitespace.contains c.toNat
def lstrip (s : Str) : Str := s.dropWhile isSpace
def strip (s : Str) : Str := (lstrip (lstrip s).reverse).reverse

def isSpaceByte (b : Nat) : Bool := [9, 10, 11, 12, 13, 32].contains b
def stripBytes (b : List Nat) : List Nat := (((b.dropWhile isSpaceByte).reverse).dropWhile isSpaceByte).reverse

/-- `__post_init__`: `self.f = self.f.strip()` for the class's strip fields -/
def postInit (strip? : List Str) : List (Str × PyVal) → Except Err (List (Str × PyVal))
  | [] => .ok []
  | (n, v) :: r =>
      if strip?.contains n then
        match v with
        | .str s => match postInit strip? r with
            | .ok r' => .ok ((n, .str (strip s)) :: r')
            | .error e => .error e
        | .bytes b => match postInit strip? r with     -- `bytes.strip()` exists too (ASCII whitespace)
            | .ok r' => .ok ((n, .bytes (stripBytes b)) :: r')
            | .error e => .error e
        | _ => .error .attributeError
      else match postInit strip? r with
        | .ok r' => .ok ((n, v) :: r')
        | .error e => .error e

/-- `cls(**kwargs)`: every field from kwargs, else its default, else `TypeError` -/
def fillFields (got : List (Str × PyVal)) : List Field → Except Err (List (Str × PyVal))
  | [] => .ok []
  | f :: fs =>
      match got.lookup f.name, f.default with
      | some w, _ => (match fillFields got fs with | .ok r => .ok ((f.name, w) :: r) | .error e => .error e)
      | none, some d => (match fillFields got fs with | .ok r => .ok ((f.name, d) :: r) | .error e => .error e)
      | none, none => .error .typeError

def build (c : Class) (got : List (Str × PyVal)) : Except Err PyVal :=
  if c.abstract then .error .typeError
  else match fillFields got c.fields with
    | .error e => .error e
    | .ok fs => match postInit c.strip fs with
      | .error e => .error e
      | .ok fs' => .ok (.obj c.name fs')

mutual
/-- `_deserialize_value(value, expected_type)` -/
def deserValue (S : Schema) : Ty → PyVal → Except Err PyVal
  | _, .none => .ok .none
  | ty, .dict kvs =>
      match unwrapOpt ty with
      | .dict _ vt =>
          -- a position declared as a plain dict holds content: no marker interpretation
          match deserKVs S vt kvs with
          | .error e => .error e
          | .ok r => .ok (.dict r)
      | uty =>
      match dget kBytesio kvs with
      | some x => b64ToBytesio x
      | none =>
      match dget kBytes kvs with
      | some x => b64ToBytes x
      | none =>
      if (dget kType kvs).isSome then
        -- `_deserialize_dataclass(value)`
        match resolveClass S none kvs with
        | .error e => .error e
        | .ok none => .ok (.dict kvs)
        | .ok (some c) => match deserFields S c kvs kvs with
            | .error e => .error e
            | .ok got => build c got
      else match uty with
        | .cls n => match S.find n with
            | some c => match deserFields S c kvs kvs with
                | .error e => .error e
                | .ok got => build c got
            | none => .ok (.dict kvs)
        | _ => .ok (.dict kvs)
  | ty, .list xs =>
      match unwrapOpt ty with
      | .list t => match deserList S t xs with
          | .error e => .error e
          | .ok r => .ok (.list r)
      | _ => .ok (.list xs)
  | ty, .str s =>
      match unwrapOpt ty with
      | .bytes => b64ToBytes (.str s)
      | .bytearray => b64ToBytes (.str s)
      | .bytesio => b64ToBytesio (.str s)
      | _ => .ok (.str s)
  | _, .bool b => .ok (.bool b)
  | _, .int i => .ok (.int i)
  | _, .float t => .ok (.float t)
  | _, .foreign n => .ok (.foreign n)
  | _, .bytes b => .ok (.bytes b)
  | _, .bytearray b => .ok (.bytearray b)
  | _, .bytesio b => .ok (.bytesio b)
  | _, .tuple xs => .ok (.tuple xs)
  | _, .set xs => .ok (.set xs)
  | _, .obj _ _ => .error (.unmodelled "dataclass instance inside JSON input")
def deserList (S : Schema) (t : Ty) : List PyVal → Except Err (List PyVal)
  | [] => .ok []
  | x :: xs => match deserValue S t x with
      | .error e => .error e
      | .ok w => match deserList S t xs with
          | .error e => .error e
          | .ok ws => .ok (w :: ws)
def deserKVs (S : Schema) (t : Ty) : List (Key × PyVal) → Except Err (List (Key × PyVal))
  | [] => .ok []
  | (k, v) :: r => match deserValue S t v with
      | .error e => .error e
      | .ok w => match deserKVs S t r with
          | .error e => .error e
          | .ok ws => .ok ((k, w) :: ws)
/-- the `for field_name in field_names: if field_name in data: kwargs[…] = _deserialize_value(…)` loop,
entry-wise over the data (keys of a dict are unique, so this is the same kwargs) -/
def deserFields (S : Schema) (c : Class) (full : List (Key × PyVal)) : List (Key × PyVal) → Except Err (List (Str × PyVal))
  | [] => .ok []
  | (k, v) :: r =>
      match targetField c full k with
      | none => deserFields S c full r
      | some f =>
        match deserValue S ((c.fieldTy f).getD .any) v with
        | .error e => .error e
        | .ok w => match deserFields S c full r with
            | .error e => .error e
            | .ok ws => .ok ((f, w) :: ws)
end

/-- `_deserialize_dataclass(data)` with no expected class (used at top level) -/
def deserDataclass (S : Schema) (kvs : List (Key × PyVal)) : Except Err PyVal :=
  match resolveClass S none kvs with
  | .error e => .error e
  | .ok none => .ok (.dict kvs)
  | .ok (some c) => match deserFields S c kvs kvs with
      | .error e => .error e
      | .ok got => build c got

/-- `deserialize_extraction(data)` -/
def deserializeExtraction (S : Schema) : PyVal → Except Err PyVal
  | .dict kvs => if (dget kType kvs).isSome then deserDataclass S kvs else .error .valueError
  | .obj _ _ => .error (.unmodelled "dataclass instance as input")
  | _ => .error .valueError

/-! ## CLI payload shaping (`cli._serialize_results`, `cli._serialize_unit_results`) -/
def cliResults (b : Bool) (results : List PyVal) : PyVal :=
  match results with
  | [r] => serializeExtraction b r
  | rs => .list (rs.map (serializeExtraction b))

/-- `units r` = the list `r.iterate_units()` yields -/
def cliUnitResults (b : Bool) (units : PyVal → List PyVal) (results : List PyVal) : PyVal :=
  match results with
  | [r] => .list ((units r).map (serializeExtraction b))
  | rs => .list (rs.map (fun r => .list ((units r).map (serializeExtraction b))))

/-- `cli.main` with `--json` / `--json-unit` [`--binary`]: the payload written to stdout -/
def cliPayload (jsonUnit binary : Bool) (units : PyVal → List PyVal) (results : List PyVal) : PyVal :=
  if jsonUnit then cliUnitResults binary units results else cliResults binary results

/-- how `cli.py` hands `--binary` on to the serialiser (current source: `passed` everywhere — tie:
`S2T.Gen.SerialSites.flagSites`); `droppedForSeveral` = the several-results branch mentions the serialiser without
the keyword (`map(serialize_extraction, results)`), which falls back to its default `include_binary=True` -/
inductive FlagPlumbing
  | passed
  | droppedForSeveral
  deriving DecidableEq, Repr, Inhabited

def cliResultsWith (pl : FlagPlumbing) (b : Bool) (results : List PyVal) : PyVal :=
  match pl, results with
  | _, [r] => serializeExtraction b r
  | .passed, rs => .list (rs.map (serializeExtraction b))
  | .droppedForSeveral, rs => .list (rs.map (serializeExtraction true))

/-! ## spreadsheet cell normalisation (`xlsx_extractor._get_cell_value`) -/

/-- what openpyxl (`read_only=True, data_only=True`) hands over for a cell: `None`, `bool`, `int`, `float`, `str`,
`datetime.datetime` / `date` / `time` (`iso` = its `.isoformat()`), `datetime.timedelta` (`s` = `str(td)`),
or anything else (`s` = `str(value)`, `tyname` = its type name). -/
inductive Cell
  | none | bool (b : Bool) | int (i : Int) | float (tok : Str) | str (s : Str)
  | datetime (iso : Str) | date (iso : Str) | time (iso : Str)
  | timedelta (s : Str)
  | other (tyname : Str) (s : Str)
  deriving Repr, Inhabited

/-- `_get_cell_value` -/
def cellValue : Cell → PyVal
  | .none => .none
  | .bool b => .bool b
  | .int i => .int i
  | .float t => .float t
  | .str s => .str s
  | .datetime iso => .str iso
  | .date iso => .str iso
  | .time iso => .str iso
  | .timedelta s => .str s
  | .other _ s => .str s

end S2T.Serial
