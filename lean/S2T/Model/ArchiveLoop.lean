import S2T.Model.SevenZip
/-
Model of sharepoint2text/parsing/extractors/archive_extractor.py: archive type detection,
`_should_skip_file`, `_process_archive_entry`, the ZIP / TAR / 7z member loops and `read_archive`.

* strings are lists of code points; `str.lower()` and `is_supported_file` (router, property C07) are
  parameters; the member extractor (`get_extractor(basename)(BytesIO(data), path=…)`) is a parameter that
  answers with the values it yields and whether it then raised;
* `zipfile` / `tarfile` are parameters: the archive is handed over as the member list they report,
  each member with the outcome of reading it;
* a generator is the list of values it yields plus how it ended (`Out`).

The model is of the code WITH the detection repair (plain TAR is recognised before the short
signatures); the previous order is `detectOld`.
-/
namespace S2T.ArchiveLoop
open S2T.SevenZip (Bytes Str)

/-- terminal exceptions of `read_archive` -/
inductive Exc
  | encrypted      -- ExtractionFileEncryptedError
  | failed         -- ExtractionFailedError
  | tooLarge       -- ExtractionFileTooLargeError
deriving Repr, DecidableEq

structure Out (ρ : Type) where
  yields : List ρ
  terminal : Option Exc := none
deriving Repr

/-- constants of archive_extractor.py (generated instance: `S2T.Gen.SevenZip.consts`) -/
structure Consts where
  signatures : List (Bytes × Str × Nat)     -- MAGIC_SIGNATURES
  tarMagicOffset : Nat
  tarMagic : Bytes
  nested : List Str                         -- NESTED_ARCHIVE_EXTENSIONS (set: order irrelevant for `any`)
  maxArchiveFileSize : Nat                  -- MAX_ARCHIVE_FILE_SIZE
  maxMemorySize : Nat                       -- MAX_MEMORY_SIZE (default `_config.max_memory_size`)
  max7zFileSize : Nat                       -- MAX_7Z_FILE_SIZE
deriving Repr, DecidableEq

structure Env (ρ : Type) where
  consts : Consts
  supported : Str → Bool                    -- `is_supported_file(basename)`
  lower : Str → Str                         -- `str.lower`
  routedBack : Str → Bool                   -- `get_extractor(basename) is read_archive` (router aliases / MIME types)
  /-- `list(get_extractor(basename)(BytesIO(data), path=path))` as far as it gets, and whether it raised -/
  extract : Str → Bytes → Str → List ρ × Bool

def s (x : String) : Str := x.toList.map Char.toNat

/-! ### detection -/

def isTarAt (c : Consts) (header : Bytes) : Bool :=
  decide (header.length ≥ c.tarMagicOffset + 5) && ((header.drop c.tarMagicOffset).take 5 == c.tarMagic)

def sigMatch (header : Bytes) : List (Bytes × Str × Nat) → Option Str
  | [] => none
  | (magic, ty, len) :: r => if header.take len == magic then some ty else sigMatch header r

/-- `_detect_archive_type_optimized` (repaired order) -/
def detect (c : Consts) (file : Bytes) : Option Str :=
  let header := file.take 512
  if header.isEmpty then none
  else if isTarAt c header then some (s "tar")
  else sigMatch header c.signatures

/-- previous order: signatures first -/
def detectOld (c : Consts) (file : Bytes) : Option Str :=
  let header := file.take 512
  if header.isEmpty then none
  else match sigMatch header c.signatures with
    | some t => some t
    | none => if isTarAt c header then some (s "tar") else none

/-- `archive_type.split('.')[-1]` -/
def lastDotPart (t : Str) : Str := (t.reverse.takeWhile (· ≠ 46)).reverse

inductive Route
  | zip | sevenZ | tar (mode : Str) | unsupported
deriving Repr, DecidableEq

/-- the dispatch of `read_archive` -/
def route (t : Str) : Route :=
  if t = s "zip" then .zip
  else if t = s "7z" then .sevenZ
  else if t = s "tar" ∨ t = s "tar.gz" ∨ t = s "tar.bz2" ∨ t = s "tar.xz" then .tar (s "r:" ++ lastDotPart t)
  else .unsupported

/-! ### per entry -/

/-- `os.path.basename` (posixpath) -/
def baseName (p : Str) : Str := (p.reverse.takeWhile (· ≠ 47)).reverse

/-- `_should_skip_file` -/
def shouldSkip {ρ} (env : Env ρ) (filename basename : Str) : Bool :=
  basename.head? == some 46 || (s "__MACOSX/").isPrefixOf filename
  || !env.supported basename
  || env.consts.nested.any (fun e => e.isSuffixOf (env.lower basename))
  || env.routedBack basename

/-- `f"{archive_path}!/{filename}" if archive_path else filename` -/
def fullPath (archivePath : Option Str) (filename : Str) : Str :=
  match archivePath with
  | none => filename
  | some [] => filename
  | some a => a ++ s "!/" ++ filename

/-- `_process_archive_entry`: what it yields (every exception is swallowed) -/
def processEntry {ρ} (env : Env ρ) (archivePath : Option Str) (filename : Str) (data : Bytes) (basename : Str) : List ρ :=
  if data.length > env.consts.maxArchiveFileSize then []
  else (env.extract basename data (fullPath archivePath filename)).1

/-! ### ZIP -/

inductive ZipRead
  | data (b : Bytes)
  | runtimeError          -- encrypted member surfacing at read time
  | badZip                -- zipfile.BadZipFile
  | otherExc              -- anything else (zlib.error, NotImplementedError, …)
deriving Repr, DecidableEq

structure ZipInfo where
  filename : Str
  isDir : Bool
  flagBits : Nat
  fileSize : Nat
  read : ZipRead
deriving Repr, DecidableEq

/-- first pass of `_extract_from_zip_optimized` -/
def zipScan {ρ} (env : Env ρ) : List ZipInfo → Except Exc (List ZipInfo)
  | [] => .ok []
  | i :: rest =>
    if i.isDir then zipScan env rest
    else if i.flagBits &&& 1 ≠ 0 then .error .encrypted
    else if shouldSkip env i.filename (baseName i.filename) then zipScan env rest
    else match zipScan env rest with
      | .ok l => .ok (i :: l)
      | .error e => .error e

/-- second pass -/
def zipLoop {ρ} (env : Env ρ) (ap : Option Str) : List ZipInfo → Out ρ
  | [] => { yields := [] }
  | i :: rest =>
    if i.fileSize > env.consts.maxMemorySize then zipLoop env ap rest
    else match i.read with
      | .data b =>
        let o := zipLoop env ap rest
        { o with yields := processEntry env ap i.filename b (baseName i.filename) ++ o.yields }
      | .runtimeError => { yields := [], terminal := some .encrypted }
      | .badZip => { yields := [], terminal := some .failed }
      | .otherExc => { yields := [], terminal := some .failed }

/-- `_extract_from_zip_optimized` on an archive `zipfile` could open -/
def readZip {ρ} (env : Env ρ) (ap : Option Str) (infos : List ZipInfo) : Out ρ :=
  match zipScan env infos with
  | .error e => { yields := [], terminal := some e }
  | .ok l => zipLoop env ap l

/-! ### TAR -/

inductive TarRead
  | data (b : Bytes)
  | noFile                -- `extractfile` returned None
  | raised
deriving Repr, DecidableEq

structure TarMember where
  name : Str
  isReg : Bool
  size : Nat
  read : TarRead
deriving Repr, DecidableEq

/-- the member loop of `_extract_from_tar_optimized` -/
def readTar {ρ} (env : Env ρ) (ap : Option Str) : List TarMember → List ρ
  | [] => []
  | m :: rest =>
    if !m.isReg then readTar env ap rest
    else if shouldSkip env m.name (baseName m.name) then readTar env ap rest
    else if m.size > env.consts.maxMemorySize then readTar env ap rest
    else match m.read with
      | .data b => processEntry env ap m.name b (baseName m.name) ++ readTar env ap rest
      | .noFile => readTar env ap rest
      | .raised => readTar env ap rest

/-! ### 7z -/

open S2T.SevenZip in
/-- the pre-filter of `_extract_from_7z_optimized`: the entries to process, each with its index in `list()`
    (`i` = index of the head of the list) -/
def sevenFilter {ρ} (env : Env ρ) : List FileInfo → Nat → List (Nat × FileInfo)
  | [], _ => []
  | f :: rest, i =>
    if f.isDirectory then sevenFilter env rest (i + 1)
    else if shouldSkip env f.filename (baseName f.filename) then sevenFilter env rest (i + 1)
    else if f.uncompressed > env.consts.maxMemorySize then sevenFilter env rest (i + 1)
    else (i, f) :: sevenFilter env rest (i + 1)

/-- the temporary directory after `extractall`, as the list of (member name, bytes) written in order;
    reading `os.path.join(temp_dir, filename)` back gives the last write under that name.
    (Names are compared as written: path normalisation and the confinement of the paths are C09's.) -/
def readBack : List (Str × Bytes) → Str → Option Bytes
  | [], _ => none
  | (n, b) :: rest, filename =>
    match readBack rest filename with
    | some later => some later           -- a later write under the same name replaced this one
    | none => if n = filename then some b else none

open S2T.SevenZip in
/-- `_process_7z_files_sequential` -/
def sevenLoop {ρ} (env : Env ρ) (ap : Option Str) (writes : List (Str × Bytes)) : List FileInfo → List ρ
  | [] => []
  | f :: rest =>
    match readBack writes f.filename with
    | none => sevenLoop env ap writes rest
    | some b => processEntry env ap f.filename b (baseName f.filename) ++ sevenLoop env ap writes rest

open S2T.SevenZip in
/-- `_extract_from_7z_optimized` given the reader construction and `extractall(members=…)` as functions of
    the file; `members` is handed over as the indices of the entries that passed the filters -/
def read7z {ρ} (env : Env ρ) (ap : Option Str) (file : Bytes)
    (parse : Bytes → Except Err R) (needsPw : R → Bool)
    (extract : Bytes → R → Option (List Nat) → Except Err (List (Str × Bytes))) : Out ρ :=
  if file.length > env.consts.max7zFileSize then { yields := [], terminal := some .tooLarge }
  else match parse file with
    | .error (.encrypted7z _) => { yields := [], terminal := some .encrypted }     -- AES-encoded header
    | .error _ => { yields := [], terminal := some .failed }
    | .ok r =>
      if needsPw r then { yields := [], terminal := some .encrypted }
      else
        let todo := sevenFilter env r.files 0
        match extract file r (some (todo.map (·.1))) with
        | .error _ => { yields := [], terminal := some .failed }
        | .ok writes => { yields := sevenLoop env ap writes (todo.map (·.2)) }

/-! ### read_archive -/

/-- `read_archive`: detection, dispatch; the three readers are given as functions of what they need
    (`tarfile.open` gets the mode string computed here). Every failure surfaces as one of `Exc`. -/
def readArchive {ρ} (c : Consts) (file : Bytes) (zip : Unit → Out ρ) (seven : Unit → Out ρ) (tar : Str → Out ρ) : Out ρ :=
  match detect c file with
  | none => { yields := [], terminal := some .failed }
  | some t =>
    match route t with
    | .zip => zip ()
    | .sevenZ => seven ()
    | .tar mode => tar mode
    | .unsupported => { yields := [], terminal := some .failed }

end S2T.ArchiveLoop
