import S2T.Model.C02OdfTok
/-
Model of the OpenDocument text walkers (C02, part 'odf'):

* `open_office/_shared.py`: `element_text` / `_append_element_text`
* `odt_extractor.py`: `_append_full_text_from_element`, `_extract_full_text`
  (as repaired by fix-odt-fulltext-walk + fix-odt-tracked-deletions; `odtWalkOld` is the walker before the repair)
* `odg_extractor.py`: `_extract_full_text`, `OdgContent.get_full_text`
* `odf_extractor.py`: `_extract_full_text` on trees without MathML (`none` = not modelled)
* `odp_extractor.py`: `_extract_slide` (text side), `OdpSlide.text_combined`, `OdpContent.get_full_text`
* `ods_extractor.py`: `_extract_cell_value` (display text), `_extract_sheet` (text side), `OdsContent.get_full_text`

over ElementTree-shaped trees (`Xml`: tag, attributes, text, tail, children).  Tag names, skip-tag sets and the
whitespace table are parameters (`Tables`), the generated instance is `S2T.Gen.C02Odf.tables`.
Core Lean only (the driver links this file).
-/
namespace S2T.OdfText
open S2T.Tok

inductive Xml where
  | node (tag : Str) (attrs : List (Str × Str)) (text tail : Str) (kids : List Xml) : Xml
  deriving Repr

def Xml.tag : Xml → Str | .node t _ _ _ _ => t
def Xml.attrs : Xml → List (Str × Str) | .node _ a _ _ _ => a
def Xml.text : Xml → Str | .node _ _ x _ _ => x
def Xml.tail : Xml → Str | .node _ _ _ l _ => l
def Xml.kids : Xml → List Xml | .node _ _ _ _ k => k
def Xml.withTail : Xml → Str → Xml | .node t a x _ k, l => .node t a x l k

/-- `dict.get` on the attribute list (ElementTree keeps one value per name) -/
def attr (k : Str) : List (Str × Str) → Option Str
  | [] => none
  | (k', v) :: r => if k = k' then some v else attr k r

/-- the constants of one extractor module that `_get_text_recursive` passes to `element_text` -/
structure Fmt where
  space : Str
  tab : Str
  lb : Str
  attrC : Str
  skip : List Str
  deriving DecidableEq, Repr

structure Tables where
  ws : List Nat                  -- code points c with chr(c).isspace()
  odt : Fmt
  odp : Fmt
  ods : Fmt
  odg : Fmt
  odf : Fmt
  -- odt_extractor
  odtP : Str
  odtH : Str
  odtTracked : Str               -- _TEXT_TRACKED_CHANGES_TAG ([] when the source has no such constant)
  odtTable : Str
  odtRow : Str
  odtCell : Str
  odtList : Str
  odtItem : Str
  -- odg / odf
  odgP : Str
  odgH : Str
  odfP : Str
  odfH : Str
  odfMathAnnotation : Str
  odfMathNs : Str                -- "{http://www.w3.org/1998/Math/MathML}"
  -- odp
  odpP : Str
  odpFrame : Str
  odpTextBox : Str
  odpStyleName : Str
  odpSvgX : Str
  odpSvgY : Str
  odpPage : Str
  -- ods
  odsP : Str
  odsTable : Str
  odsRow : Str
  odsCell : Str
  odsName : Str
  odsRepRows : Str
  odsRepCols : Str
  odsValueType : Str
  odsValue : Str
  odsDateValue : Str
  odsTimeValue : Str
  odsBoolValue : Str
  deriving Repr

def Tables.isWs (T : Tables) (c : Char) : Bool := isWsTab T.ws c

/-! ## `int(str)` for ASCII input -/

def digitVal (c : Char) : Option Nat := if '0' ≤ c ∧ c ≤ '9' then some (c.toNat - 48) else none

/-- digits with single underscores between digits (`int("1_0")`), accumulator `acc`; `prevDigit` = the previous
    character was a digit -/
def parseDigits : Str → Nat → Bool → Option Nat
  | [], acc, prevDigit => if prevDigit then some acc else none
  | c :: r, acc, prevDigit =>
    match digitVal c with
    | some d => parseDigits r (acc * 10 + d) true
    | none => if c = '_' ∧ prevDigit ∧ r ≠ [] then parseDigits r acc false else none

/-- `int(s)` (base 10) for ASCII digits: surrounding whitespace, one optional sign; `none` = ValueError.
    (Python also accepts other Unicode decimal digits; those are outside this model and never generated.) -/
def pyInt (p : Char → Bool) (s : Str) : Option Int :=
  match strip p s with
  | '-' :: r => (parseDigits r 0 false).map (fun n => - (n : Int))
  | '+' :: r => (parseDigits r 0 false).map (fun n => (n : Int))
  | r => (parseDigits r 0 false).map (fun n => (n : Int))

/-! ## `_shared._append_element_text` -/

/-- the `text:s` branch: `int(child.get(attr_text_c, "1"))`, 1 on ValueError, nothing when ≤ 0 -/
def spaceRun (p : Char → Bool) (F : Fmt) (attrs : List (Str × Str)) : Str :=
  let raw := (attr F.attrC attrs).getD ['1']
  let count : Int := (pyInt p raw).getD 1
  List.replicate count.toNat ' '

mutual
/-- what `_append_element_text(element, parts, …)` appends, concatenated (the element's own tail is the caller's) -/
def elemText (p : Char → Bool) (F : Fmt) : Xml → Str
  | .node _ _ text _ kids => text ++ kidsText p F kids
def kidsText (p : Char → Bool) (F : Fmt) : List Xml → Str
  | [] => []
  | k :: ks =>
    (if F.skip.contains k.tag then []
     else if k.tag = F.space then spaceRun p F k.attrs
     else if k.tag = F.tab then ['\t']
     else if k.tag = F.lb then ['\n']
     else elemText p F k) ++ k.tail ++ kidsText p F ks
end

/-! ## ElementTree navigation -/

mutual
/-- `list(elem.iter())`: the element and all descendants, document order -/
def iterAll : Xml → List Xml
  | .node t a x l kids => .node t a x l kids :: iterAllL kids
def iterAllL : List Xml → List Xml
  | [] => []
  | k :: ks => iterAll k ++ iterAllL ks
end

def iterTag (t : Str) (x : Xml) : List Xml := (iterAll x).filter (fun e => e.tag = t)
def findall (t : Str) (x : Xml) : List Xml := x.kids.filter (fun e => e.tag = t)
def find (t : Str) (x : Xml) : Option Xml := x.kids.find? (fun e => e.tag = t)

/-! ## ODT -/

def nonBlank (T : Tables) (s : Str) : List Str := if blank T.isWs s then [] else [s]

mutual
/-- `_append_full_text_from_element` (repaired): every paragraph/heading once, where it stands;
    `text:tracked-changes` is not body text -/
def odtWalk (T : Tables) : Xml → List Str
  | .node tag attrs text tail kids =>
    if tag = T.odtTracked then []
    else if tag = T.odtP ∨ tag = T.odtH then nonBlank T (elemText T.isWs T.odt (.node tag attrs text tail kids))
    else odtWalkL T kids
def odtWalkL (T : Tables) : List Xml → List Str
  | [] => []
  | k :: ks => odtWalk T k ++ odtWalkL T ks
end

/-- `_extract_full_text(body)` = `OdtContent.get_full_text()` -/
def odtFullText (T : Tables) (body : Xml) : Str := joinNl (odtWalk T body)

mutual
/-- the walker before the repair: `table:table` and `text:list` were expanded with `iter()` -/
def odtWalkOld (T : Tables) : Xml → List Str
  | .node tag attrs text tail kids =>
    let self := Xml.node tag attrs text tail kids
    if tag = T.odtP ∨ tag = T.odtH then nonBlank T (elemText T.isWs T.odt self)
    else if tag = T.odtTable then
      (iterTag T.odtRow self).flatMap (fun row => (findall T.odtCell row).flatMap (fun cell =>
        (iterTag T.odtP cell).flatMap (fun q => nonBlank T (elemText T.isWs T.odt q))))
    else if tag = T.odtList then
      (iterTag T.odtItem self).flatMap (fun item =>
        (iterTag T.odtP item).flatMap (fun q => nonBlank T (elemText T.isWs T.odt q)))
    else odtWalkOldL T kids
def odtWalkOldL (T : Tables) : List Xml → List Str
  | [] => []
  | k :: ks => odtWalkOld T k ++ odtWalkOldL T ks
end
def odtFullTextOld (T : Tables) (body : Xml) : Str := joinNl (odtWalkOld T body)

/-! ## ODG / ODF -/

/-- the stripped, non-empty texts of all `text:p` / `text:h` of `root.iter()` -/
def phLines (T : Tables) (F : Fmt) (pTag hTag : Str) (root : Xml) : List Str :=
  ((iterAll root).filter (fun e => e.tag = hTag ∨ e.tag = pTag)).filterMap (fun e =>
    let v := strip T.isWs (elemText T.isWs F e)
    if v = [] then none else some v)

mutual
/-- `odg_extractor._iter_text_blocks` (fix-odg-annotation-leak) below an element: the `text:p` / `text:h` elements in
    document order, not descending into skipped tags (annotations) nor into a paragraph / heading.  The code walks
    `root.iter()` (parents before children) with a set `covered` of the children of every skipped or yielded element;
    on a tree that is this structural recursion. -/
def textBlocks (T : Tables) : Xml → List Xml
  | .node _ _ _ _ kids => textBlocksL T kids
def textBlocksL (T : Tables) : List Xml → List Xml
  | [] => []
  | k :: ks =>
    (if T.odg.skip.contains k.tag then []
     else if k.tag = T.odgH ∨ k.tag = T.odgP then [k]
     else textBlocks T k) ++ textBlocksL T ks
end

/-- `_iter_text_blocks(root)`: `root.iter()` starts with the root itself -/
def textBlocksRoot (T : Tables) (root : Xml) : List Xml := textBlocksL T [root]

def odgLine (T : Tables) (e : Xml) : List Str :=
  let v := strip T.isWs (elemText T.isWs T.odg e)
  if v = [] then [] else [v]

/-- `odg_extractor._extract_full_text` -/
def odgExtract (T : Tables) (drawing : Xml) : Str := strip T.isWs (joinNl ((textBlocksRoot T drawing).flatMap (odgLine T)))
/-- `OdgContent.get_full_text()`: `_join_unit_text([unit(full_text.strip())])` -/
def odgFullText (T : Tables) (drawing : Xml) : Str := strip T.isWs (strip T.isWs (odgExtract T drawing))

mutual
/-- `list(root.itertext())` -/
def itertext : Xml → List Str
  | .node _ _ text _ kids => (if text = [] then [] else [text]) ++ itertextL kids
def itertextL : List Xml → List Str
  | [] => []
  | k :: ks => itertext k ++ (if k.tail = [] then [] else [k.tail]) ++ itertextL ks
end

/-- `odf_extractor._extract_full_text` for content without MathML elements (`none`: a `math:*` element is present,
    the StarMath / MathML branches are not modelled) -/
def odfExtract (T : Tables) (root : Xml) : Option Str :=
  if (iterAll root).any (fun e => T.odfMathNs.isPrefixOf e.tag) then none
  else
    let lines := phLines T T.odf T.odfP T.odfH root
    if lines ≠ [] then some (strip T.isWs (joinNl lines))
    else some (strip T.isWs (normWs T.isWs (join [' '] (itertext root))))
def odfFullText (T : Tables) (root : Xml) : Option Str :=
  (odfExtract T root).map (fun s => strip T.isWs (strip T.isWs s))

/-! ## ODP -/

/-- an exact non-negative rational `num / den` -/
structure Q where
  num : Nat
  den : Nat
  deriving Repr, DecidableEq

def Q.lt (a b : Q) : Bool := a.num * b.den < b.num * a.den
def Q.eq (a b : Q) : Bool := a.num * b.den = b.num * a.den

def isAsciiAlpha (c : Char) : Bool := ('a' ≤ c ∧ c ≤ 'z') ∨ ('A' ≤ c ∧ c ≤ 'Z')
def lowerAscii (c : Char) : Char := if 'A' ≤ c ∧ c ≤ 'Z' then Char.ofNat (c.toNat + 32) else c

def digitsVal : Str → Nat → Nat
  | [], acc => acc
  | c :: r, acc => digitsVal r (acc * 10 + (c.toNat - 48))

def isDigitC (c : Char) : Bool := '0' ≤ c ∧ c ≤ '9'

/-- `_parse_odf_length_to_px` as an exact rational (the code computes the same quantity in binary floating point;
    the order of two lengths can differ from the exact order only when they are closer than the rounding error).
    `^\s*(\d+(?:\.\d+)?)\s*([a-zA-Z]+)?\s*$`, ASCII digits. -/
def lengthPx (p : Char → Bool) (v : Option Str) : Q :=
  match v with
  | none => ⟨0, 1⟩
  | some s =>
    let s1 := s.dropWhile p
    let ip := s1.takeWhile isDigitC
    let r1 := s1.dropWhile isDigitC
    if ip = [] then ⟨0, 1⟩ else
    -- optional fraction
    let (fp, r2) : Str × Str :=
      match r1 with
      | '.' :: r => let f := r.takeWhile isDigitC; if f = [] then ([], r1) else (f, r.dropWhile isDigitC)
      | _ => ([], r1)
    let r3 := r2.dropWhile p
    let unit := r3.takeWhile isAsciiAlpha
    let r4 := (r3.dropWhile isAsciiAlpha).dropWhile p
    if r4 ≠ [] then ⟨0, 1⟩ else
    -- a trailing "\n" is tolerated by `$`: covered because "\n" is whitespace
    let num := digitsVal (ip ++ fp) 0
    let den := 10 ^ fp.length
    let u := (if unit = [] then "px".toList else unit.map lowerAscii)
    if u = "px".toList then ⟨num, den⟩
    else if u = "in".toList then ⟨num * 96, den⟩
    else if u = "cm".toList then ⟨num * 9600, den * 254⟩
    else if u = "mm".toList then ⟨num * 960, den * 254⟩
    else if u = "pt".toList then ⟨num * 96, den * 72⟩
    else if u = "pc".toList then ⟨num * 12 * 96, den * 72⟩
    else ⟨num, den⟩

/-- sort key `(y, x)` compared lexicographically -/
def keyLe (a b : Q × Q) : Bool := a.1.lt b.1 || (a.1.eq b.1 && (a.2.lt b.2 || a.2.eq b.2))

/-- stable insertion sort (`list.sort(key=…)` is stable) -/
def insertBy {α} (le : α → α → Bool) (x : α) : List α → List α
  | [] => [x]
  | y :: r => if le x y then x :: y :: r else y :: insertBy le x r
def sortBy {α} (le : α → α → Bool) : List α → List α
  | [] => []
  | x :: r => insertBy le x (sortBy le r)

/-- `a in b` for strings -/
def isInfix (a : Str) : Str → Bool
  | [] => a.isEmpty
  | c :: r => a.isPrefixOf (c :: r) || isInfix a r

structure Slide where
  title : Str := []
  body : List Str := []
  other : List Str := []
  deriving Repr, DecidableEq

/-- the text-box loop of `_extract_slide` over the paragraphs `(style, stripped text)` in visiting order -/
def classify : List (Str × Str) → Bool → Slide → Slide
  | [], _, s => s
  | (style, text) :: r, found, s =>
    if !found && isInfix "Title".toList style then classify r true { s with title := text }
    else if isInfix "Body".toList style then classify r found { s with body := s.body ++ [text] }
    else classify r found { s with other := s.other ++ [text] }

def frameKey (T : Tables) (f : Xml) : Q × Q :=
  (lengthPx T.isWs (attr T.odpSvgY f.attrs), lengthPx T.isWs (attr T.odpSvgX f.attrs))

mutual
/-- `odp_extractor._iter_text_paragraphs` (fix-odp-annotation-leak) below an element: the `text:p` elements in
    document order, not descending into skipped tags (annotations) nor into a paragraph (`covered` set of the code) -/
def odpParas (T : Tables) : Xml → List Xml
  | .node _ _ _ _ kids => odpParasL T kids
def odpParasL (T : Tables) : List Xml → List Xml
  | [] => []
  | k :: ks =>
    (if T.odp.skip.contains k.tag then []
     else if k.tag = T.odpP then [k]
     else odpParas T k) ++ odpParasL T ks
end

/-- non-empty stripped paragraphs `(style, text)` of a frame's first `draw:text-box` child -/
def frameParas (T : Tables) (f : Xml) : List (Str × Str) :=
  match find T.odpTextBox f with
  | none => []
  | some tb => (odpParasL T [tb]).filterMap (fun q =>      -- `root.iter()` starts with the text box itself
      let t := strip T.isWs (elemText T.isWs T.odp q)
      if t = [] then none else some ((attr T.odpStyleName q.attrs).getD [], t))

def odpSlide (T : Tables) (page : Xml) : Slide :=
  let frames := sortBy (fun a b => keyLe (frameKey T a) (frameKey T b)) (findall T.odpFrame page)
  classify (frames.flatMap (frameParas T)) false {}

/-- `OdpSlide.text_combined` (a slide whose title is empty has no title line; an extracted title is never empty) -/
def slideText (s : Slide) : Str := joinNl ((if s.title = [] then [] else [s.title]) ++ s.body ++ s.other)

/-- `OdpContent.get_full_text()` of `read_odp` on the `office:presentation` element -/
def odpFullText (T : Tables) (pres : Xml) : Str :=
  strip T.isWs (joinNl ((findall T.odpPage pres).map (fun pg => slideText (odpSlide T pg))))

/-! ## ODS -/

mutual
/-- `_iter_cell_paragraphs` (fix-ods-cell-comment-leak) below an element: the `text:p` elements in document order,
    not descending into skipped tags (annotations) nor into a paragraph (`covered` set of the code) -/
def cellParas (T : Tables) : Xml → List Xml
  | .node _ _ _ _ kids => cellParasL T kids
def cellParasL (T : Tables) : List Xml → List Xml
  | [] => []
  | k :: ks =>
    (if T.ods.skip.contains k.tag then []
     else if k.tag = T.odsP then [k]
     else cellParas T k) ++ cellParasL T ks
end

/-- display text of `_extract_cell_value` (the typed value is `None` iff the display text is empty) -/
def cellDisplay (T : Tables) (cell : Xml) : Str :=
  let vt := (attr T.odsValueType cell.attrs).getD []
  let get (k : Str) : Str := (attr k cell.attrs).getD []
  -- `cell.iter()` starts with the cell itself
  let fallback := joinNl ((cellParasL T [cell]).map (fun q => elemText T.isWs T.ods q))
  if (vt = "float".toList ∨ vt = "currency".toList ∨ vt = "percentage".toList) ∧ get T.odsValue ≠ [] then get T.odsValue
  else if vt = "date".toList ∧ get T.odsDateValue ≠ [] then get T.odsDateValue
  else if vt = "time".toList ∧ get T.odsTimeValue ≠ [] then get T.odsTimeValue
  else if vt = "boolean".toList ∧ get T.odsBoolValue ≠ [] then get T.odsBoolValue
  else fallback

inductive OdsErr | valueError
  deriving Repr, DecidableEq

/-- `int(elem.get(attr, "1"))`: a ValueError aborts the extraction -/
def repeatOf (T : Tables) (k : Str) (e : Xml) : Except OdsErr Int :=
  match pyInt T.isWs ((attr k e.attrs).getD ['1']) with
  | some n => .ok n
  | none => .error .valueError

/-- one `table:table-row`: the display texts of its cells after column-repeat expansion -/
def rowValues (T : Tables) : List Xml → Except OdsErr (List Str)
  | [] => .ok []
  | c :: cs => do
    let rep ← repeatOf T T.odsRepCols c
    let d := cellDisplay T c
    let rest ← rowValues T cs
    if d = [] ∧ rep > 100 then .ok ([] :: rest) else .ok (List.replicate rep.toNat d ++ rest)

def rawRows (T : Tables) : List Xml → Except OdsErr (List (List Str))
  | [] => .ok []
  | r :: rs => do
    let rep ← repeatOf T T.odsRepRows r
    let vals ← rowValues T (findall T.odsCell r)
    let rest ← rawRows T rs
    if rep > 100 ∧ vals.all (· = []) then .ok (vals :: rest) else .ok (List.replicate rep.toNat vals ++ rest)

/-- drop trailing rows without data -/
def trimRows (rows : List (List Str)) : List (List Str) :=
  (rows.reverse.dropWhile (fun r => r.all (· = []))).reverse

/-- 1 + index of the last cell with data (0 if none) -/
def lastData (row : List Str) : Nat := (row.reverse.dropWhile (· = [])).length

/-- `sheet.text` -/
def sheetText (T : Tables) (table : Xml) : Except OdsErr Str := do
  let rows := trimRows (← rawRows T (findall T.odsRow table))
  let maxCols := rows.foldl (fun m r => max m (lastData r)) 0
  let lines := rows.filterMap (fun r =>
    let texts := (r.take maxCols).filter (· ≠ [])
    if texts = [] then none else some (join ['\t'] texts))
  .ok (joinNl lines)

/-- `OdsUnit.text` -/
def sheetUnitText (T : Tables) (table : Xml) : Except OdsErr Str := do
  let t ← sheetText T table
  .ok (strip T.isWs ((attr T.odsName table.attrs).getD [] ++ ['\n'] ++ strip T.isWs t))

def mapE {α β ε} (f : α → Except ε β) : List α → Except ε (List β)
  | [] => .ok []
  | a :: r => do
    let b ← f a
    let bs ← mapE f r
    .ok (b :: bs)

/-- `OdsContent.get_full_text()` of `read_ods` on the `office:spreadsheet` element -/
def odsFullText (T : Tables) (sheetDoc : Xml) : Except OdsErr Str := do
  let us ← mapE (sheetUnitText T) (findall T.odsTable sheetDoc)
  .ok (strip T.isWs (joinNl us))

end S2T.OdfText
