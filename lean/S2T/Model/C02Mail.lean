import S2T.Model.OoxmlText
/-!
C02 (part 'mail'): the text/plain body of a mail as a client writes it, and what the extractors make of it.

`mbox_email_extractor.get_body_content`: the body is the transfer-decoded payload of the first text/plain part that is
not an attachment, decoded with the part's charset; `EmailContent.__post_init__` strips it; `iterate_units` yields it
(the HTML body only if it is empty); `_join_unit_text` strips again.  No Content-Type parameter but the charset and no
other header of the part is read on that way (`S2T.Gen.C02Mail.bodyReads`, re-decided every run): the parameter list is
an argument of the model that the model does not look at.
-/
namespace S2T.C02.Mail
open S2T.C02.Ooxml

/-- one line of the body: leading blanks (space-stuffing, indentation), the words, trailing blanks (a soft line break
    of format=flowed, or stray blanks of a fixed body) -/
structure Line where
  pre : Str
  words : List Str
  trail : Str

def lineText (l : Line) : Str := l.pre ++ join [' '] l.words ++ l.trail

/-- the body text: the lines, one line break `nl` (LF, or CRLF as the message is stored) between two of them -/
def renderBody (nl : Str) (ls : List Line) : Str := join nl (ls.map lineText)

/-- the decoded payload of the text/plain part ↦ `body_plain` before `__post_init__`: unchanged, whatever the
    Content-Type parameters (format, delsp, reply-type, …) say -/
def bodyPlain (_params : List (Str × Str)) (payload : Str) : Str := payload

/-- `EmailContent.get_full_text()` for a message with that text/plain payload and that HTML body -/
def fullText (ws : Char → Bool) (params : List (Str × Str)) (payload html : Str) : Str :=
  let b := strip ws (bodyPlain params payload)
  if b.isEmpty then strip ws html else strip ws b

end S2T.C02.Mail
