/-
Model of the `iterate_units()` / `get_full_text()` pairs of
sharepoint2text/parsing/extractors/data_types.py (all 17 result types) and of the places on the
extraction side where the unit sequence is constructed by plain logic:

* `_PptxContext._compute_slide_order` + the numbering loop of `read_pptx`,
* `_parse_slide_list_container`, `_build_slides_from_text_blocks`, `_parse_ppt_document` (PPT),
* the spine loop of `read_epub`, `_split_mbox_messages`, the page flush of
  `_strip_rtf_full_with_pages`, the slide loop of `read_odp`.

Strings are `List Char`; Python's whitespace set (`str.strip`, `str.split`, `str.isspace`), the
`str.splitlines` boundaries and the PPT placeholder-type sets are *parameters* (`Tables`), the
generated instance is `S2T.Gen.Units.tables`.  Core Lean only (the driver links this file).

A `DUnit` (document unit) carries `lines`, the body pieces it was assembled from — model-internal bookkeeping used
to state "the units partition the body"; the observable text is `text`.
-/
namespace S2T.Units

abbrev Str := List Char

structure Tables where
  wsCodes : List Nat            -- code points c with chr(c).isspace()  (= what strip()/split() remove)
  lineBreakCodes : List Nat     -- code points at which str.splitlines() breaks
  pptTitleTypes : List Nat      -- ppt_extractor._TITLE_TYPES
  pptBodyTypes : List Nat       -- ppt_extractor._BODY_TYPES
  pptNotesType : Nat            -- PPT_TEXT_TYPE_NOTES
  lowerAscii : List (Nat × List Nat)   -- non-ASCII code points whose .lower() contains an ASCII letter
  docHeadingRules : List (Bool × Str × Int)   -- DocContent.heading_level_for: (isPrefixRule, word, level), source order

/-! ## Python string primitives -/

def isWs (T : Tables) (c : Char) : Bool := T.wsCodes.contains c.toNat
def isLb (T : Tables) (c : Char) : Bool := T.lineBreakCodes.contains c.toNat

def lstrip (T : Tables) (s : Str) : Str := s.dropWhile (isWs T)
def rstrip (T : Tables) (s : Str) : Str := (s.reverse.dropWhile (isWs T)).reverse
/-- `str.strip()` -/
def strip (T : Tables) (s : Str) : Str := rstrip T (lstrip T s)
/-- every character is whitespace (`not s.strip()`) -/
def blank (T : Tables) (s : Str) : Bool := s.all (isWs T)

/-- `"\n".join(l)` -/
def joinNl (l : List Str) : Str := List.intercalate ['\n'] l

/-- `str.splitlines()`; `prevCR` makes "\r\n" one boundary. -/
def splitlinesAux (T : Tables) : Str → Str → Bool → List Str
  | [], acc, _ => if acc.isEmpty then [] else [acc.reverse]
  | c :: r, acc, prevCR =>
    if c = '\n' && prevCR then splitlinesAux T r acc false
    else if isLb T c then acc.reverse :: splitlinesAux T r [] (c = '\r')
    else splitlinesAux T r (c :: acc) false
def splitlines (T : Tables) (s : Str) : List Str := splitlinesAux T s [] false

/-- `str.split()` (no argument). -/
def splitWsAux (T : Tables) : Str → Str → List Str
  | [], acc => if acc.isEmpty then [] else [acc.reverse]
  | c :: r, acc =>
    if isWs T c then
      (if acc.isEmpty then splitWsAux T r [] else acc.reverse :: splitWsAux T r [])
    else splitWsAux T r (c :: acc)
def splitWs (T : Tables) (s : Str) : List Str := splitWsAux T s []

/-- `str.lower()` as far as ASCII letters in the result are concerned (see `Tables.lowerAscii`). -/
def lowerChar (T : Tables) (c : Char) : Str :=
  if 'A' ≤ c ∧ c ≤ 'Z' then [Char.ofNat (c.toNat + 32)]
  else match T.lowerAscii.lookup c.toNat with
    | some l => l.map Char.ofNat
    | none => [c]
def lower (T : Tables) (s : Str) : Str := s.flatMap (lowerChar T)

/-- `a in b` for strings -/
def isInfixB (a : Str) : Str → Bool
  | [] => a.isEmpty
  | c :: r => a.isPrefixOf (c :: r) || isInfixB a r

/-! ## Units -/

structure DUnit where
  number : Nat
  text : Str
  path : List Str := []          -- heading_path (heading-section formats)
  level : Option Int := none     -- heading_level
  lines : List Str := []         -- body pieces assembled into `text` (model-internal)
  nImages : Nat := 0
  nTables : Nat := 0
  deriving DecidableEq, Repr

/-- `_join_unit_text` -/
def joinUnitText (T : Tables) (us : List DUnit) : Str := strip T (joinNl (us.map (·.text)))

/-- `for i, x in enumerate(xs, start=k)` building one unit per element -/
def enumUnits {α} (f : Nat → α → DUnit) : Nat → List α → List DUnit
  | _, [] => []
  | k, x :: r => f k x :: enumUnits f (k + 1) r

/-! ### single-unit formats -/

/-- PlainTextContent / HtmlContent / OdgContent / OdfContent: `yield DUnit(text=self.<field>.strip())` -/
def singleUnits (T : Tables) (content : Str) : List DUnit := [{ number := 1, text := strip T content }]
def singleFullText (T : Tables) (content : Str) : Str := joinUnitText T (singleUnits T content)

structure Email where
  bodyPlain : Str
  bodyHtml : Str
def emailUnits (e : Email) : List DUnit :=
  if e.bodyPlain ≠ [] then [{ number := 1, text := e.bodyPlain }]
  else if e.bodyHtml ≠ [] then [{ number := 1, text := e.bodyHtml }]
  else [{ number := 1, text := [] }]
def emailFullText (T : Tables) (e : Email) : Str := joinUnitText T (emailUnits e)

/-! ### page / sheet formats numbered by `enumerate(..., start=1)` -/

structure Page where
  text : Str
  nImages : Nat := 0
  nTables : Nat := 0

def pdfUnits (pages : List Page) : List DUnit :=
  enumUnits (fun k p => { number := k, text := p.text, nImages := p.nImages, nTables := p.nTables }) 1 pages
def pdfFullText (T : Tables) (pages : List Page) : Str := joinUnitText T (pdfUnits pages)

structure Sheet where
  name : Str
  text : Str

def xlsUnits (T : Tables) (sheets : List Sheet) : List DUnit :=
  enumUnits (fun k s => { number := k, text := strip T s.text }) 1 sheets
/-- XlsContent.get_full_text: the stored field, not the units -/
def xlsFullText (T : Tables) (fullText : Str) : Str := strip T fullText

def xlsxUnits (T : Tables) (sheets : List Sheet) : List DUnit :=
  enumUnits (fun k s => { number := k, text := s.name ++ '\n' :: strip T s.text }) 1 sheets
def xlsxFullText (T : Tables) (sheets : List Sheet) : Str := joinUnitText T (xlsxUnits T sheets)

def odsUnits (T : Tables) (sheets : List Sheet) : List DUnit :=
  enumUnits (fun k s => { number := k, text := strip T (s.name ++ '\n' :: strip T s.text) }) 1 sheets
def odsFullText (T : Tables) (sheets : List Sheet) : Str := joinUnitText T (odsUnits T sheets)

/-! ### slide formats: the number is a field written by the extractor -/

structure PptSlide where
  number : Nat
  title : Option Str := none
  body : List Str := []
  other : List Str := []
  notes : List Str := []
  deriving DecidableEq, Repr

/-- `text_combined` (PptSlideContent and OdpSlide): a falsy title (None / "") is left out -/
def textCombined (title : Option Str) (body other : List Str) : Str :=
  joinNl ((match title with | some t => if t ≠ [] then [t] else [] | none => []) ++ body ++ other)

def pptUnits (slides : List PptSlide) : List DUnit :=
  slides.map (fun s => { number := s.number, text := textCombined s.title s.body s.other })
/-- PptContent.get_full_text: newline-join of the non-empty stripped unit texts -/
def pptFullText (T : Tables) (slides : List PptSlide) : Str :=
  joinNl (((pptUnits slides).map (fun u => strip T u.text)).filter (· ≠ []))

def odpUnits (slides : List PptSlide) : List DUnit :=
  slides.map (fun s => { number := s.number, text := joinNl [textCombined s.title s.body s.other],
                         path := (match s.title with | some t => if t ≠ [] then [t] else [] | none => []) })
def odpFullText (T : Tables) (slides : List PptSlide) : Str := joinUnitText T (odpUnits slides)

structure PptxSlide where
  number : Nat
  baseText : Str := []
  formulas : List (Str × Bool) := []     -- (latex, is_display)
  imageDescs : List Str := []            -- image.description per image
  deriving DecidableEq, Repr

def pptxSlideText (s : PptxSlide) (captions : Bool) : Str :=
  joinNl ((if s.baseText ≠ [] then [s.baseText] else [])
    ++ s.formulas.map (fun f => if f.2 then "$$".toList ++ f.1 ++ "$$".toList else '$' :: f.1 ++ ['$'])
    ++ (if captions then (s.imageDescs.filter (· ≠ [])).map (fun d => "[Image: ".toList ++ d ++ [']']) else []))
def pptxUnits (T : Tables) (slides : List PptxSlide) (captions : Bool) : List DUnit :=
  slides.map (fun s => { number := s.number, text := strip T (pptxSlideText s captions), nImages := s.imageDescs.length })
def pptxFullText (T : Tables) (slides : List PptxSlide) (captions : Bool) : Str :=
  joinUnitText T (pptxUnits T slides captions)

structure Chapter where
  number : Nat
  text : Str
  deriving DecidableEq, Repr
def epubUnits (chs : List Chapter) : List DUnit := chs.map (fun c => { number := c.number, text := c.text })
def epubFullText (T : Tables) (chs : List Chapter) : Str := joinUnitText T (epubUnits chs)

/-! ### RTF (explicit pages) — models the tree with fix-rtf-blank-pages applied: every page of
`pages` is a unit, blank or not, so images/tables keyed by page number always have a unit. -/

structure Rtf where
  pages : List Str
  fullText : Str
  paragraphs : List Str
  imagePages : List (Option Int)    -- img.page_number
  tablePages : List (Option Int)

/-- `x.page_number or 1` -/
def pageOr1 : Option Int → Int
  | none => 1
  | some n => if n = 0 then 1 else n

def countOnPage (l : List (Option Int)) (k : Nat) : Nat := (l.filter (fun p => pageOr1 p = Int.ofNat k)).length

def rtfUnits (T : Tables) (r : Rtf) : List DUnit :=
  if r.pages ≠ [] then
    enumUnits (fun k p => { number := k, text := p, nImages := countOnPage r.imagePages k, nTables := countOnPage r.tablePages k }) 1 r.pages
  else if r.fullText ≠ [] then
    [{ number := 1, text := r.fullText, nImages := countOnPage r.imagePages 1, nTables := countOnPage r.tablePages 1 }]
  else
    let combined := joinNl (r.paragraphs.filter (fun p => strip T p ≠ []))
    if combined ≠ [] then
      [{ number := 1, text := combined, nImages := countOnPage r.imagePages 1, nTables := countOnPage r.tablePages 1 }]
    else []
def rtfFullText (T : Tables) (r : Rtf) : Str :=
  if r.fullText ≠ [] then r.fullText else joinUnitText T (rtfUnits T r)

/-! ### heading-section machine shared by DocContent and OdtContent
(`flush_current`, `heading_stack`, `pending_tables` have the same shape in both). -/

inductive Ev where
  | heading (level : Int) (text : Str)   -- text already stripped, non-empty
  | body (text : Str)                    -- stripped, non-empty
  | table
  deriving DecidableEq, Repr

structure Sec where
  stackRev : List (Int × Str) := []   -- heading_stack, top first
  level : Option Int := none
  path : List Str := []
  lines : List Str := []
  curTables : Nat := 0
  pending : Nat := 0
  units : List DUnit := []
  any : Bool := false

/-- `while heading_stack and heading_stack[-1][0] >= level: heading_stack.pop()` -/
def popStack (level : Int) : List (Int × Str) → List (Int × Str)
  | [] => []
  | (l, t) :: r => if l ≥ level then popStack level r else (l, t) :: r

/-- `[t for _, t in heading_stack if t]` -/
def pathOf (stackRev : List (Int × Str)) : List Str := (stackRev.reverse.map (·.2)).filter (· ≠ [])

def secFlush (T : Tables) (mkPath : List Str → List Str) (s : Sec) : Sec :=
  let text := strip T (joinNl (s.lines.filter (· ≠ [])))
  if text = [] ∧ s.curTables = 0 then { s with lines := [], curTables := 0 }
  else { s with
    units := s.units ++ [{ number := s.units.length + 1, text := text, path := mkPath s.path, level := s.level,
                           lines := s.lines, nTables := s.curTables }],
    lines := [], curTables := 0 }

def secStep (T : Tables) (mkPath : List Str → List Str) (s : Sec) : Ev → Sec
  | .table => { s with pending := s.pending + 1 }
  | .body t => { s with lines := s.lines ++ [t] }
  | .heading lv t =>
    let s1 := secFlush T mkPath { s with any := true }
    let st := (lv, t) :: popStack lv s1.stackRev
    { s1 with stackRev := st, level := some lv, path := pathOf st, curTables := s1.curTables + s1.pending, pending := 0 }

def secRun (T : Tables) (mkPath : List Str → List Str) (evs : List Ev) : Sec :=
  let s := evs.foldl (secStep T mkPath) {}
  secFlush T mkPath { s with curTables := s.curTables + s.pending, pending := 0 }

/-! ### DocContent -/

structure Doc where
  mainText : Str
  title : Str
  tables : List (List Str)      -- each table flattened: [cell for row in table for cell in row]

def docHeadingLevel (T : Tables) (line : Str) : Option Int :=
  let text := strip T line
  if text = [] then none else
  let lowered := lower T text
  (T.docHeadingRules.find? (fun r => if r.1 then r.2.1.isPrefixOf lowered else r.2.1 = lowered)).map (·.2.2)

/-- heading / body classification of one line of `DocContent.iterate_units`' main loop -/
def docLine (T : Tables) (line : Str) : List Ev :=
  match docHeadingLevel T line with
  | some lv => [Ev.heading lv (strip T line)]
  | none => let t := strip T line; if t = [] then [] else [Ev.body t]

/-- the main loop's per-line classification, `consume_table_if_present` first -/
def docEvents (T : Tables) : List Str → List (List Str) → List Ev
  | [], _ => []
  | line :: r, [] => docLine T line ++ docEvents T r []
  | line :: r, tb :: tr =>
    let tokens := splitWs T line
    if tokens ≠ [] ∧ tokens = tb then Ev.table :: docEvents T r tr
    else docLine T line ++ docEvents T r (tb :: tr)

def docUnits (T : Tables) (d : Doc) : List DUnit :=
  let lines := (splitlines T d.mainText).map (rstrip T)
  if lines = [] then [{ number := 1, text := [] }]
  else
    let s := secRun T id (docEvents T lines d.tables)
    if !s.any then [{ number := 1, text := strip T d.mainText, nTables := d.tables.length }]
    else s.units
def docFullText (T : Tables) (d : Doc) : Str := strip T (d.title ++ '\n' :: joinUnitText T (docUnits T d))

/-! ### OdtContent -/

structure OdtPara where
  text : Str
  outline : Option Int       -- outline_level
  style : Str                -- style_name or ""

structure Odt where
  paragraphs : List OdtPara
  title : Str
  fullText : Str
  nTables : Nat
  nImages : Nat

/-- `style.startswith("Table") or "Table_" in style` -/
def odtIsTableStyle (style : Str) : Bool := "Table".toList.isPrefixOf style || isInfixB "Table_".toList style

def odtEvents (T : Tables) : List OdtPara → Bool → Nat → List Ev
  | [], _, _ => []
  | p :: r, inTable, tablesLeft =>
    match p.outline with
    | some lv =>
      let t := strip T p.text
      if t ≠ [] then Ev.heading lv t :: odtEvents T r inTable tablesLeft else odtEvents T r inTable tablesLeft
    | none =>
      if odtIsTableStyle p.style then
        if !inTable then
          (match tablesLeft with
           | 0 => odtEvents T r true 0
           | k + 1 => Ev.table :: odtEvents T r true k)
        else odtEvents T r true tablesLeft
      else
        let t := strip T p.text
        if t ≠ [] then Ev.body t :: odtEvents T r false tablesLeft else odtEvents T r false tablesLeft

/-- `unit_heading_path`: base path, then the heading path without immediate repetitions -/
def odtMkPath (base : List Str) (path : List Str) : List Str :=
  path.foldl (fun acc tok => if acc = [] ∨ acc.getLast? ≠ some tok then acc ++ [tok] else acc) base

def odtSingle (o : Odt) : List DUnit :=
  let base : List Str := if o.title ≠ [] then [o.title] else []
  [{ number := 1, text := o.fullText, level := if base ≠ [] then some 1 else none, path := base,
     nImages := o.nImages, nTables := o.nTables }]

def odtUnits (T : Tables) (o : Odt) : List DUnit :=
  if o.paragraphs = [] then odtSingle o
  else
    let base : List Str := if o.title ≠ [] then [o.title] else []
    let s := secRun T (odtMkPath base) (odtEvents T o.paragraphs false o.nTables)
    if !s.any then odtSingle o else s.units
def odtFullText (o : Odt) : Str := o.fullText

/-! ### DocxContent — models the tree with fix-docx-pagebreak-text applied (a page-break paragraph that
carries text is an ordinary body paragraph).  As in the code, `flush_current` emits nothing while the heading
path is empty: text before the first heading, or under a blank top-level heading, is in no unit when the
document has a heading (open finding `docx.text-before-first-heading-dropped`). -/

structure DocxPara where
  text : Str
  level : Option Int      -- heading_level(paragraph.style)  (regex on the style name; parameter of the model)
  pageBreak : Bool
  nImages : Nat           -- images anchored at this paragraph index
  nTables : Nat           -- tables anchored at this paragraph index

structure Docx where
  paragraphs : List DocxPara
  fullText : Str
  title : Str
  nImages : Nat
  nTables : Nat

def DocxPara.payload (T : Tables) (p : DocxPara) : Bool := strip T p.text ≠ [] || p.nImages + p.nTables > 0

/-- `heading_has_payload[h]` seen from the paragraphs after heading `h` -/
def payloadUntilHeading (T : Tables) : List DocxPara → Bool
  | [] => false
  | p :: r => if p.level.isSome then false else p.payload T || payloadUntilHeading T r

/-- `heading_has_payload.get(next_heading_for_index[i], False)` seen from the paragraphs after `i` -/
def nextHeadingHasPayload (T : Tables) : List DocxPara → Bool
  | [] => false
  | p :: r => if p.level.isSome then payloadUntilHeading T r else nextHeadingHasPayload T r

structure DocxSt where
  stackRev : List (Int × Str) := []
  level : Option Int := none
  path : List Str := []
  lines : List Str := []
  accImages : Nat := 0       -- images anchored in range(start, current)
  accTables : Nat := 0
  hasPayload : Bool := false
  units : List DUnit := []
  any : Bool := false

/-- `next_heading_level is not None and current_heading_level is not None and next > current` -/
def deeper : Option Int → Option Int → Bool
  | some n, some c => decide (n > c)
  | _, _ => false

/-- `flush_current(end_paragraph_index=…, next_heading_level=…)`; the caller resets `lines`/acc. -/
def docxFlush (T : Tables) (next : Option Int) (s : DocxSt) : DocxSt :=
  if s.path = [] then s else        -- `if not current_heading_path: return iter(())`
  let text := strip T (joinNl (s.lines.filter (fun l => strip T l ≠ [])))
  let empty := text = [] ∧ s.accImages = 0 ∧ s.accTables = 0
  if empty ∧ deeper next s.level = true then s
  else { s with units := s.units ++ [{ number := s.units.length + 1, text := text, path := s.path, level := s.level,
                                         lines := s.lines, nImages := s.accImages, nTables := s.accTables }] }

/-- anchors of a body paragraph join the running section (`current_has_payload = True` when there are any) -/
def docxBump (s : DocxSt) (p : DocxPara) : DocxSt :=
  { s with accImages := s.accImages + p.nImages, accTables := s.accTables + p.nTables,
           hasPayload := s.hasPayload || p.nImages + p.nTables > 0 }

/-- one iteration of the paragraph loop; `rest` = the paragraphs after this one (look-ahead only) -/
def docxStep (T : Tables) (s : DocxSt) (p : DocxPara) (rest : List DocxPara) : DocxSt :=
  match p.level with
  | some lv =>
    let s1 := docxFlush T (some lv) { s with any := true }
    let st := (lv, strip T p.text) :: popStack lv s1.stackRev
    { s1 with stackRev := st, level := some lv, path := pathOf st, lines := [],
              accImages := p.nImages, accTables := p.nTables, hasPayload := p.nImages + p.nTables > 0 }
  | none =>
    let s0 := docxBump s p
    if s0.path ≠ [] ∧ !s0.hasPayload ∧ p.pageBreak ∧ strip T p.text = [] ∧ nextHeadingHasPayload T rest then
      let s1 := docxFlush T none s0
      { s1 with lines := [], accImages := 0, accTables := 0, hasPayload := false }
    else
      let t := strip T p.text
      if t ≠ [] then { s0 with lines := s0.lines ++ [t], hasPayload := true } else s0

def docxLoop (T : Tables) : DocxSt → List DocxPara → DocxSt
  | s, [] => s
  | s, p :: r => docxLoop T (docxStep T s p r) r

def docxUnits (T : Tables) (d : Docx) : List DUnit :=
  let s := docxLoop T {} d.paragraphs
  let s := if d.paragraphs ≠ [] then docxFlush T none s else s
  if s.any then s.units
  else [{ number := 1, text := d.fullText, path := [], level := none, nImages := d.nImages, nTables := d.nTables }]
def docxFullText (d : Docx) : Str := d.fullText

/-! ## Extraction side: where the unit sequence is built -/

/-! ### PPTX: `_compute_slide_order` and the numbering loop of `read_pptx` -/

structure Rel where
  id : Str
  target : Str
  typeLower : Str        -- rel["type"].lower()  (CPython's lower is a parameter)

/-- `target.replace("../", "ppt/")` -/
def replaceDotDot : Str → Str
  | '.' :: '.' :: '/' :: r => "ppt/".toList ++ replaceDotDot r
  | c :: r => c :: replaceDotDot r
  | [] => []

def relFullPath (target : Str) : Str :=
  if "slides/".toList.isPrefixOf target then "ppt/".toList ++ target
  else if "../".toList.isPrefixOf target then replaceDotDot target
  else "ppt/".toList ++ target

/-- dict insert-or-overwrite -/
def dictSet (k : Str) (v : Str) : List (Str × Str) → List (Str × Str)
  | [] => [(k, v)]
  | (k', v') :: r => if k' = k then (k, v) :: r else (k', v') :: dictSet k v r

def relsMap (rels : List Rel) : List (Str × Str) :=
  rels.foldl (fun m r => if r.id ≠ [] ∧ r.target ≠ [] ∧ isInfixB "slide".toList r.typeLower
                         then dictSet r.id (relFullPath r.target) m else m) []

/-- `_compute_slide_order`: `sldIds` = the r:id attribute of each `p:sldId` (none = attribute missing) -/
def slideOrder (rels : List Rel) (sldIds : List (Option Str)) : List Str :=
  let m := relsMap rels
  sldIds.filterMap (fun o => match o with
    | some rid => if rid ≠ [] then m.lookup rid else none
    | none => none)

/-- `for slide_index, slide_path in enumerate(slide_paths, start=1)`; `mk` stands for
`_process_slide_from_context`, which stores the number it is given -/
def pptxExtract (mk : Str → PptxSlide) (order : List Str) : List PptxSlide :=
  (enumUnits (fun k p => { number := k, text := p }) 1 order).map (fun u => { mk u.text with number := u.number })

/-! ### PPT: `_parse_slide_list_container`, `_build_slides_from_text_blocks`, `_parse_ppt_document` -/

inductive PRec where
  | persist                 -- RT_SLIDE_PERSIST_ATOM
  | header (t : Nat)        -- RT_TEXT_HEADER_ATOM with ≥ 4 data bytes
  | text (s : Str)          -- text atom; `s` = _clean_text(_decode_text(..)) or "" when that is falsy
  deriving DecidableEq, Repr

structure Block where
  text : Str
  ttype : Option Nat
  isTitle : Bool
  isBody : Bool
  isNotes : Bool
  deriving DecidableEq, Repr

def mkBlock (T : Tables) (text : Str) (tt : Option Nat) : Block :=
  { text, ttype := tt,
    isTitle := match tt with | some t => T.pptTitleTypes.contains t | none => false,
    isBody := match tt with | some t => T.pptBodyTypes.contains t | none => false,
    isNotes := tt = some T.pptNotesType }

/-- slide boundary / end of container: what happens to the slide collected so far -/
def slideListEmit (started anyText : Bool) (cur : List Block) : List (List Block) :=
  if started then (if anyText then (if cur ≠ [] then [cur] else []) else [cur]) else []

def parseSlideList (T : Tables) : List PRec → List Block → Option Nat → Bool → Bool → List (List Block)
  | [], cur, _, started, anyText => slideListEmit started anyText cur
  | .persist :: r, cur, tt, started, anyText => slideListEmit started anyText cur ++ parseSlideList T r [] tt true anyText
  | .header t :: r, cur, _, started, anyText => parseSlideList T r cur (some t) started anyText
  | .text s :: r, cur, tt, started, anyText =>
    if s ≠ [] then parseSlideList T r (cur ++ [mkBlock T s tt]) tt started true
    else parseSlideList T r cur tt started anyText

def addBlock (T : Tables) (s : PptSlide) (b : Block) : PptSlide :=
  let inT := match b.ttype with | some t => T.pptTitleTypes.contains t | none => false
  let inB := match b.ttype with | some t => T.pptBodyTypes.contains t | none => false
  if inT || b.isTitle then
    (match s.title with
     | some t => if t ≠ [] then { s with other := s.other ++ [b.text] } else { s with title := some b.text }
     | none => { s with title := some b.text })
  else if inB || b.isBody then { s with body := s.body ++ [b.text] }
  else if b.ttype = some T.pptNotesType || b.isNotes then { s with notes := s.notes ++ [b.text] }
  else { s with other := s.other ++ [b.text] }

/-- `_build_slides_from_text_blocks` on an empty `content`: (slides, all_text) -/
def buildSlides (T : Tables) : Nat → List (List Block) → List PptSlide × List Str
  | _, [] => ([], [])
  | k, bs :: r =>
    let rest := buildSlides T (k + 1) r
    (bs.foldl (addBlock T) { number := k } :: rest.1, bs.map (·.text) ++ rest.2)

/-- which source feeds `_build_slides_from_text_blocks`: SlideListWithText first, else the container pass -/
def pptSources (T : Tables) (slideList containerSlides : List (List Block)) : List PptSlide × List Str :=
  if slideList ≠ [] then buildSlides T 1 slideList
  else if containerSlides ≠ [] then buildSlides T 1 containerSlides
  else ([], [])

/-- `_parse_ppt_document` as far as `content.slides` is concerned (notes from the container pass do not
touch unit texts).  Models the tree with fix-ppt-fallback-slide-number applied. -/
def pptParseDocument (T : Tables) (slideList containerSlides : List (List Block)) (raw : List Str) : List PptSlide :=
  let r := pptSources T slideList containerSlides
  if r.2 = [] ∧ raw ≠ [] then r.1 ++ [{ number := r.1.length + 1, other := raw }]
  else r.1

/-! ### EPUB spine loop: `chapter_number += 1` for every spine item, kept or skipped -/

def epubSpine : Nat → List (Option Str) → List Chapter
  | _, [] => []
  | k, none :: r => epubSpine (k + 1) r
  | k, some t :: r => { number := k, text := t } :: epubSpine (k + 1) r
def epubChapters (items : List (Option Str)) : List Chapter := epubSpine 1 items

/-! ### ODP: `for slide_num, page in enumerate(body.findall("draw:page"), start=1)` -/
def odpExtract (mk : Str → PptSlide) (pages : List Str) : List PptSlide :=
  (enumUnits (fun k p => { number := k, text := p }) 1 pages).map (fun u => { mk u.text with number := u.number })

/-! ### mbox: `_split_mbox_messages` (bytes as chars < 256) -/

def isByteWs (c : Char) : Bool := c = ' ' || c = '\t' || c = '\n' || c = '\r' || c.toNat = 11 || c.toNat = 12
def isAsciiDigit (c : Char) : Bool := '0' ≤ c && c ≤ '9'

/-- does the line content `c` (without its "\n") match `From \S+.*\d{4}\r?` entirely? -/
def isFromLine (c : Str) : Bool :=
  match c with
  | 'F' :: 'r' :: 'o' :: 'm' :: ' ' :: rest =>
    let ok (x : Str) : Bool :=     -- x = S M D with |S| ≥ 1, S starts non-space, D four digits
      x.length ≥ 5 && (match x.head? with | some h => !isByteWs h | none => false)
      && ((x.reverse.take 4).all isAsciiDigit)
    ok rest || (match rest.reverse with | '\r' :: xr => ok xr.reverse | _ => false)
  | _ => false

/-- lines of `data` with their terminating "\n" flag: (content, terminated) -/
def rawLines : Str → Str → List (Str × Bool)
  | [], acc => if acc.isEmpty then [] else [(acc.reverse, false)]
  | c :: r, acc => if c = '\n' then (acc.reverse, true) :: rawLines r [] else rawLines r (c :: acc)

def rstripCRLF (s : Str) : Str := (s.reverse.dropWhile (fun c => c = '\r' || c = '\n')).reverse

/-- fold over the lines: `cur` = the message being collected (none before the first separator) -/
def mboxGo : List (Str × Bool) → Option Str → List Str
  | [], cur => (match cur with | some m => [m] | none => [])
  | (c, term) :: r, cur =>
    if term && isFromLine c then (match cur with | some m => [m] | none => []) ++ mboxGo r (some [])
    else mboxGo r (cur.map (fun m => m ++ c ++ (if term then ['\n'] else [])))

def mboxSplit (data : Str) : List Str :=
  ((mboxGo (rawLines data []) none).map rstripCRLF).filter (· ≠ [])

/-! ### RTF page flush of `_strip_rtf_full_with_pages` (with fix-rtf-blank-pages applied).
`pieces` = the text accumulated between consecutive explicit page breaks (k pieces = k-1 breaks). -/

/-- `_RE_MULTI_SPACE.sub(" ", s)`: runs of ' ' / '\t' become one ' ' -/
def collapseSpaces : Str → Bool → Str
  | [], _ => []
  | c :: r, prevSp =>
    if c = ' ' || c = '\t' then (if prevSp then collapseSpaces r true else ' ' :: collapseSpaces r true)
    else c :: collapseSpaces r false

/-- `_RE_MULTI_NEWLINE.sub("\n\n", s)`: runs of ≥ 3 '\n' become two -/
def collapseNewlines : Str → Nat → Str
  | [], _ => []
  | c :: r, n =>
    if c = '\n' then (if n ≥ 2 then collapseNewlines r n else '\n' :: collapseNewlines r (n + 1))
    else c :: collapseNewlines r 0

def rtfPageText (T : Tables) (piece : Str) : Str := collapseNewlines (collapseSpaces (strip T piece) false) 0

/-- pages list after the loop and the final flush -/
def rtfFlushPages (T : Tables) : List Str → List Str
  | [] => []
  | [last] => let p := rtfPageText T last; if p ≠ [] then [p] else []
  | p :: q :: r => (p :: q :: r).map (rtfPageText T)

/-! ### PPTX: a `p:sldId` entry as the source writes it.  `numId` is the numeric `id` attribute (the slide's
creation id, kept when slides are moved); `_compute_slide_order` never reads it: the show order is the
document order of the entries. -/

structure SldId where
  numId : Option Str := none    -- the `id` attribute text (none = attribute missing)
  rid : Option Str := none      -- the `r:id` attribute (none = attribute missing)
  deriving DecidableEq, Repr

/-- `_compute_slide_order` on full `p:sldId` entries -/
def slideOrderE (rels : List Rel) (es : List SldId) : List Str := slideOrder rels (es.map (·.rid))

/-- what one `p:sldId` contributes: its relationship target, if `r:id` is present, non-empty and a slide relationship -/
def sldResolve (rels : List Rel) (o : Option Str) : Option Str :=
  match o with
  | some rid => if rid ≠ [] then (relsMap rels).lookup rid else none
  | none => none

/-! ### RTF: the scanner of `_strip_rtf_full_with_pages` seen as a stream of events.
A character event carries one UTF-16 code unit or code point as the scanner appends it (`chr(int(N) & 0xFFFF)` for
`\uN`, `chr(int(hh, 16))` for `\'hh`, the literal character otherwise — a literal may be beyond the BMP); a break
event is `\page` / `\sbkpage`.  Each page has its own buffer, surrogate pairs are combined *per page buffer*, then
the page is trimmed and its blank runs collapsed. -/

inductive RtfEv where
  | ch (c : Nat)
  | brk
  deriving DecidableEq, Repr

def isHighSur (c : Nat) : Bool := 0xD800 ≤ c && c ≤ 0xDBFF
def isLowSur (c : Nat) : Bool := 0xDC00 ≤ c && c ≤ 0xDFFF
def isSur (c : Nat) : Bool := 0xD800 ≤ c && c ≤ 0xDFFF

/-- `_combine_surrogates`: `text.encode("utf-16-le", "surrogatepass").decode("utf-16-le", "replace")` on code
points: a high surrogate directly followed by a low one is the character they encode, any other surrogate is U+FFFD -/
def combineSur : List Nat → List Nat
  | [] => []
  | [c] => if isSur c then [0xFFFD] else [c]
  | h :: l :: r =>
    if isHighSur h && isLowSur l then (0x10000 + (h - 0xD800) * 0x400 + (l - 0xDC00)) :: combineSur r
    else (if isSur h then 0xFFFD else h) :: combineSur (l :: r)

/-- the per-page buffers: k breaks give k + 1 pieces -/
def rtfPiecesAux : List RtfEv → List Nat → List (List Nat)
  | [], cur => [cur.reverse]
  | .ch c :: r, cur => rtfPiecesAux r (c :: cur)
  | .brk :: r, cur => cur.reverse :: rtfPiecesAux r []
def rtfPieces (evs : List RtfEv) : List (List Nat) := rtfPiecesAux evs []

/-- all characters of the body, breaks removed (`result`) -/
def rtfChars : List RtfEv → List Nat
  | [] => []
  | .ch c :: r => c :: rtfChars r
  | .brk :: r => rtfChars r

def codesToStr (l : List Nat) : Str := l.map Char.ofNat

/-- `self.pages` after `_strip_rtf_full_with_pages` -/
def rtfExtractPages (T : Tables) (evs : List RtfEv) : List Str :=
  rtfFlushPages T ((rtfPieces evs).map (fun p => codesToStr (combineSur p)))

/-- the value `_strip_rtf_full_with_pages` returns -/
def rtfExtractText (evs : List RtfEv) : List Nat := combineSur (rtfChars evs)

end S2T.Units
