/-
C06 model of process-global state that is not a container: a ONE-SHOT ITERATOR bound at module level
(`TABLE = zip(keys, values)`, `map(...)`, `filter(...)`, `iter(...)`, a generator expression, …) and scanned by
every extraction with `for k, v in TABLE: if p(doc, k): found = v; break`.

The store is what the iterator still has to give.  A re-iterable table (tuple / list / dict) is scanned from its
beginning every time (`sniff`, store unchanged); the iterator hands out each entry once (`scan`).
-/
namespace S2T.Exhaust

/-- first matching entry of a re-iterable table: what an `if / elif` chain or a loop over a tuple computes -/
def sniff {κ ν δ} (p : δ → κ → Bool) : List (κ × ν) → δ → Option ν
  | [], _ => none
  | e :: es, d => if p d e.1 then some e.2 else sniff p es d

/-- the same loop over a one-shot iterator whose remaining entries are the store: (found, what is left) -/
def scan {κ ν δ} (p : δ → κ → Bool) : List (κ × ν) → δ → Option ν × List (κ × ν)
  | [], _ => (none, [])
  | e :: es, d => if p d e.1 then (some e.2, es) else scan p es d

/-- extraction over a constant table: the store is handed back unchanged -/
def runConst {κ ν δ} (p : δ → κ → Bool) (tbl : List (κ × ν)) (d : δ) : Option ν × List (κ × ν) := (sniff p tbl d, tbl)

end S2T.Exhaust
