import S2T.Model.C02SheetsTables
import S2T.Model.C02OdfRtf
/-
Model of the XLSX sheet text (C02, part 'sheets'):

* xlsx_extractor.py: `_is_cell_non_empty`, `_find_last_data_row` / `_find_last_data_column` (+ the slicing of
  `_read_sheet_data`), the header names (`f"Unnamed: {i}"` for an empty first-row cell, else `str(val)`),
  `_format_value_for_display`, `_format_sheet_as_text` (pad to the column count, right-justify to the column width,
  join cells / rows);
* data_types.py: `XlsxContent.iterate_units` (`name + "\n" + text.strip()`), `_join_unit_text`.

The cell values are the parameter: what `ws.iter_rows(values_only=True)` (openpyxl) returns, restricted to
`None`, `str`, `int`, `bool` and `float` (a float carries its `str()` and, when it is whole, its `int()`).
`rjust` and the column width are the definitions of the 'odf' part's XLS model.  Core Lean only.
-/
namespace S2T.C02.Sheets.Xlsx
open S2T.Tok S2T.OdfText S2T.C02.Sheets

inductive XCell where
  | empty
  | str (s : Str)
  | int (i : Int)
  | bool (b : Bool)
  | float (repr : Str) (whole : Option Int)     -- `str(v)`, and `int(v)` when `v == int(v)`
  deriving Repr, DecidableEq

def natDec (n : Nat) : Str := (toString n).toList
def intDec (i : Int) : Str := (toString i).toList

/-- `_is_cell_non_empty` -/
def nonEmpty (p : Char → Bool) : XCell → Bool
  | .empty => false
  | .str s => !blank p s
  | _ => true

/-- `str(val)` -/
def pyStr : XCell → Str
  | .empty => "None".toList
  | .str s => s
  | .int i => intDec i
  | .bool b => if b then "True".toList else "False".toList
  | .float r _ => r

/-- `_format_value_for_display` (after `_get_cell_value`, the identity on these types) -/
def display : XCell → Str
  | .empty => []
  | .float _ (some i) => intDec i
  | c => pyStr c

/-- the header name `_read_sheet_data` generates for column `i` from the first row's cell -/
def header (T : XlsxT) (i : Nat) (c : XCell) : Str := if nonEmpty T.isWs c then pyStr c else T.unnamed ++ natDec i

/-- `rows[:_find_last_data_row(rows)]`: the rows up to the last one that has a non-empty cell -/
def trimRows (p : Char → Bool) (rows : List (List XCell)) : List (List XCell) :=
  rstrip (fun r => !r.any (nonEmpty p)) rows

/-- 1 + index of the last non-empty cell of a row (0 if none) -/
def lastCol (p : Char → Bool) (row : List XCell) : Nat := (rstrip (fun c => !nonEmpty p c) row).length

/-- `_find_last_data_column` -/
def width (p : Char → Bool) (rows : List (List XCell)) : Nat := rows.foldl (fun m r => max m (lastCol p r)) 0

/-- `all_rows` of `_read_sheet_data`, already formatted for display (the header row holds strings) -/
def allRows (T : XlsxT) (rows : List (List XCell)) : List (List Str) :=
  match trimRows T.isWs rows with
  | [] => []
  | first :: rest =>
    let n := width T.isWs (first :: rest)
    ((first.take n).zipIdx.map (fun ci => header T ci.2 ci.1)) :: rest.map (fun r => (r.take n).map display)

def padRow (n : Nat) (row : List Str) : List Str := row ++ List.replicate (n - row.length) []

/-- `_format_sheet_as_text(all_rows)` -/
def formatSheet (T : XlsxT) (rows : List (List Str)) : Str :=
  let n := rows.foldl (fun m r => max m r.length) 0
  let fr := rows.map (padRow n)
  join T.rowSep (fr.map (fun row => join T.colSep (row.zipIdx.map (fun vi => S2T.Rtf.rjust (S2T.Rtf.colWidth fr vi.2) vi.1))))

/-- `XlsxUnit.text` -/
def unitOf (T : XlsxT) (name text : Str) : Str :=
  let u := name ++ T.unitSep ++ strip T.isWs text
  if T.unitStrip then strip T.isWs u else u

/-- `XlsxContent.get_full_text()` -/
def fullText (T : XlsxT) (sheets : List (Str × List (List XCell))) : Str :=
  strip T.isWs (join T.joinSep (sheets.map (fun s => unitOf T s.1 (formatSheet T (allRows T s.2)))))

end S2T.C02.Sheets.Xlsx
