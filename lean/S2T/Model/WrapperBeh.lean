import S2T.Model.Wrapper
/-
Behaviour analysis for skeletons that write to stdout / stderr (the CLI): a finite
over-approximation of (number of stdout writes, number of stderr writes, outcome kind),
counts saturated at 2.
-/
namespace S2T.Wrapper

inductive K where
  | normal | ret (tag : String) | brk | cont | rfam | rother
  deriving DecidableEq, Repr

structure Beh where
  o : Nat
  e : Nat
  k : K
  deriving DecidableEq, Repr

def sat (n : Nat) : Nat := if 2 ≤ n then 2 else n
def addc (a b : Nat) : Nat := sat (a + b)

def kindOf : Out → K
  | .normal => .normal
  | .ret t => .ret t
  | .brk => .brk
  | .cont => .cont
  | .raised (.fam _) => .rfam
  | .raised (.other _) => .rother

def isRaise : K → Bool
  | .rfam => true
  | .rother => true
  | _ => false

def isExit : K → Bool
  | .ret _ => true
  | .rfam => true
  | .rother => true
  | _ => false

def catchAll (pats : List String) : Bool := pats.any (fun p => p = "Exception" || p = "BaseException" || p = "")

/-- may `except pats` catch an exception of kind `k`? (over-approximation) -/
def mayCatch (isFam : String → Bool) (pats : List String) (k : K) : Bool :=
  catchAll pats || (match k with
    | .rfam => pats.any isFam
    | .rother => pats.any (fun p => !isFam p)
    | _ => false)

/-- can an exception of kind `k` pass all handlers? (over-approximation) -/
def canPass (root : String) (hs : List (List String × Stmt)) (k : K) : Bool :=
  !(hs.any (fun h => catchAll h.1)) && !(k = .rfam && hs.any (fun h => h.1.contains root))

def loopTop (bs : List Beh) : List Beh :=
  (K.normal :: (bs.map (·.k)).filter isExit).flatMap fun k =>
    [0, 1, 2].flatMap fun o => [0, 1, 2].map fun e => ⟨o, e, k⟩

def combine (x y : Beh) : Beh := ⟨addc x.o y.o, addc x.e y.e, y.k⟩

def withFin (r f : Beh) : Beh := ⟨addc r.o f.o, addc r.e f.e, if f.k = .normal then r.k else f.k⟩

mutual
def behav (root : String) (isFam : String → Bool) (cur : List K) : Stmt → List Beh
  | .atom _ total => ⟨0, 0, .normal⟩ :: (if total then [] else [⟨0, 0, .rfam⟩, ⟨0, 0, .rother⟩])
  | .write ch total =>
      (match ch with | .out => (⟨1, 0, .normal⟩ : Beh) | .err => ⟨0, 1, .normal⟩) ::
      (if total then [] else
        (match ch with
          | .out => [⟨0, 0, .rfam⟩, ⟨0, 0, .rother⟩, ⟨1, 0, .rfam⟩, ⟨1, 0, .rother⟩]
          | .err => [⟨0, 0, .rfam⟩, ⟨0, 0, .rother⟩, ⟨0, 1, .rfam⟩, ⟨0, 1, .rother⟩]))
  | .raise_ cls => [⟨0, 0, if isFam cls then .rfam else .rother⟩]
  | .reraise => if cur.isEmpty then [⟨0, 0, .rother⟩] else cur.map (fun k => ⟨0, 0, k⟩)
  | .ret t => [⟨0, 0, .ret t⟩]
  | .brk => [⟨0, 0, .brk⟩]
  | .cont => [⟨0, 0, .cont⟩]
  | .yield_ => [⟨0, 0, .normal⟩]
  | .seq a b =>
      let bb := behav root isFam cur b
      (behav root isFam cur a).flatMap fun x => if x.k = .normal then bb.map (combine x) else [x]
  | .ite a b => behav root isFam cur a ++ behav root isFam cur b
  | .loop b =>
      let bs := behav root isFam cur b
      if bs.all (fun x => x.o = 0 && x.e = 0) then
        ⟨0, 0, .normal⟩ :: bs.filter (fun x => isExit x.k)
      else loopTop bs
  | .try_ body hs fin =>
      let bb := behav root isFam cur body
      let bf := behav root isFam cur fin
      let mid := bb.flatMap fun x =>
        if isRaise x.k then
          (if canPass root hs x.k then [x] else []) ++ behavHandlers root isFam x hs
        else [x]
      mid.flatMap fun r => bf.map (withFin r)
def behavHandlers (root : String) (isFam : String → Bool) (x : Beh) : List (List String × Stmt) → List Beh
  | [] => []
  | (pats, h) :: rest =>
      (if mayCatch isFam pats x.k then (behav root isFam [x.k] h).map (combine x) else []) ++
      behavHandlers root isFam x rest
end

def countCh (c : Ch) (t : List Ch) : Nat := (t.filter (· = c)).length

/-- the abstract behaviour of one concrete run -/
def behOf (t : List Ch) (o : Out) : Beh := ⟨sat (countCh .out t), sat (countCh .err t), kindOf o⟩

end S2T.Wrapper
