/-!
# Model: AES provisioning of `_open_pdf_reader` (pdf_extractor.py) against a PDF's crypt-filter dictionary

pypdf's fallback crypto provider cannot do AES; the library patches a pure-Python AES into pypdf
*process-wide* and *on demand* (`patch_pypdf_fallback_aes`).  Whether an encrypted PDF that the empty
password opens extracts like its original therefore depends on two things this file models:

* which crypt filters the document's `/Encrypt` dictionary declares (PDF 32000-1 §7.6.5: `/CF` maps
  FREE names to filters with a method `/CFM`; `/StmF`, `/StrF`, `/EFF` select by name, `/Identity`
  is predefined and the default) — `EncryptDict`, `needsAes`;
* the process state (`Proc.aes`: has the patch been applied by an earlier document?) and the
  conditions under which `_open_pdf_reader` applies it — `OpenCode` (generated from the source:
  the handler around `PdfReader(...)` and the guard of every later call of the patch function).

Core Lean only.
-/
namespace S2T.PdfCrypt

/-- value of `/CFM` in a crypt filter dictionary -/
inductive Cfm where
  | v2 | aesv2 | aesv3 | none | other
  deriving DecidableEq, Repr, Inhabited

/-- what a filter name resolves to -/
inductive Method where
  | identity | rc4 | aes
  /-- a name that is not in `/CF`, or a `/CFM` pypdf does not implement: the reader refuses the file at open -/
  | unsupported
  deriving DecidableEq, Repr, Inhabited

/-- the trailer's `/Encrypt` dictionary as far as algorithm selection goes.  Names without the slash.
    `cf` in file order (first binding of a name wins, as in a dictionary). -/
structure EncryptDict where
  v : Nat
  cf : List (String × Cfm)
  stmF : Option String
  strF : Option String
  eff : Option String
  deriving Repr, Inhabited

def Cfm.method : Cfm → Method
  | .v2 => .rc4
  | .aesv2 | .aesv3 => .aes
  | .none | .other => .unsupported

/-- §7.6.5 / pypdf `Encryption.read`: absent = `/Identity`; `/Identity` is predefined; else look the name up in `/CF` -/
def EncryptDict.resolve (e : EncryptDict) (n : Option String) : Method :=
  match n with
  | none => .identity
  | some n => if n = "Identity" then .identity else
    match e.cf.lookup n with
    | some c => c.method
    | none => .unsupported

/-- the three methods in use: streams, strings, embedded files (`/EFF` defaults to `/StmF`).  Below V4 there are no
    crypt filters: everything is RC4, whatever a stray `/CF` says. -/
def EncryptDict.effOrStm (e : EncryptDict) : Option String :=
  match e.eff with
  | some x => some x
  | none => e.stmF

def EncryptDict.methods (e : EncryptDict) : List Method :=
  if 4 ≤ e.v then [e.resolve e.stmF, e.resolve e.strF, e.resolve e.effOrStm]
  else [.rc4, .rc4, .rc4]

def EncryptDict.supported (e : EncryptDict) : Bool := !e.methods.contains .unsupported

/-- V5 (R5/R6) validates passwords with AES: already *opening* the file needs it -/
def EncryptDict.openNeedsAes (e : EncryptDict) : Bool := e.v == 5

/-- some stream / string / embedded file of the document is AES-encrypted, or opening needs AES -/
def EncryptDict.needsAes (e : EncryptDict) : Bool := e.openNeedsAes || e.methods.contains .aes

/-- a document: `none` = no `/Encrypt` entry -/
abbrev Doc := Option EncryptDict

/-- process-wide state: pypdf's fallback provider has the library's AES -/
structure Proc where
  aes : Bool
  deriving DecidableEq, Repr

def Proc.fresh : Proc := ⟨false⟩

/-- a guard expression in front of a call of the patch function.  `enc` = `<reader>.is_encrypted`; `atom i` = any other
    sub-expression (a helper call, a look into the /Encrypt dictionary, …): its value is a parameter. -/
inductive Guard where
  | enc
  | const (b : Bool)
  | atom (i : Nat)
  | not (g : Guard)
  | and (a b : Guard)
  | or (a b : Guard)
  deriving Repr, Inhabited

def Guard.eval (g : Guard) (enc : Bool) (ρ : Nat → Bool) : Bool :=
  match g with
  | .enc => enc
  | .const b => b
  | .atom i => ρ i
  | .not g => !(g.eval enc ρ)
  | .and a b => a.eval enc ρ && b.eval enc ρ
  | .or a b => a.eval enc ρ || b.eval enc ρ

mutual
/-- syntactic, sound: the guard is true whenever the reader is encrypted, whatever the opaque parts say -/
def Guard.impliedByEnc : Guard → Bool
  | .enc => true
  | .const b => b
  | .atom _ => false
  | .not g => g.refutedByEnc
  | .and a b => a.impliedByEnc && b.impliedByEnc
  | .or a b => a.impliedByEnc || b.impliedByEnc
/-- … is false whenever the reader is encrypted -/
def Guard.refutedByEnc : Guard → Bool
  | .enc => false
  | .const b => !b
  | .atom _ => false
  | .not g => g.impliedByEnc
  | .and a b => a.refutedByEnc || b.refutedByEnc
  | .or a b => a.refutedByEnc && b.refutedByEnc
end

/-- what the generator reads from `_open_pdf_reader` and `patch_pypdf_fallback_aes` -/
structure OpenCode where
  /-- the handler around `PdfReader(...)` catches pypdf's DependencyError, applies the patch and opens again … -/
  handlerRetries : Bool
  /-- … provided this literal occurs in the error text (`if "<marker>" not in str(exc): raise`) -/
  retryMarker : String
  /-- the text of the DependencyError pypdf's fallback provider raises for AES -/
  aesErrorMessage : String
  /-- guards of the calls of the patch function after the reader has been opened (outside the handler) -/
  postGuards : List Guard
  /-- (module, name) bindings the patch function assigns -/
  patchBindings : List (String × String)
  /-- AES entry points pypdf's modules hold bindings of (runtime inventory) -/
  neededBindings : List (String × String)
  deriving Repr, Inhabited

/-- naive substring test (the handler's `in`) -/
def isInfix (p s : List Char) : Bool :=
  match s with
  | [] => p.isEmpty
  | c :: r => p.isPrefixOf (c :: r) || isInfix p r

def OpenCode.patchComplete (c : OpenCode) : Bool := c.neededBindings.all (c.patchBindings.contains ·)
def OpenCode.handlerFires (c : OpenCode) : Bool :=
  c.handlerRetries && isInfix c.retryMarker.toList c.aesErrorMessage.toList

inductive OpenErr where
  | dependency      -- pypdf's DependencyError leaves `_open_pdf_reader`
  | notImplemented  -- unsupported handler / method
  deriving DecidableEq, Repr

/-- `_open_pdf_reader` on document `d` in process state `p`; `ρ d i` = value of the `i`-th opaque guard part on `d` -/
def openReader (c : OpenCode) (ρ : Doc → Nat → Bool) (p : Proc) (d : Doc) : Except OpenErr Proc :=
  match d with
  | none => .ok (if c.postGuards.any (·.eval false (ρ d)) && c.patchComplete then ⟨true⟩ else p)
  | some e =>
    if !e.supported then .error .notImplemented
    else
      -- constructing the reader verifies the empty password: V5 needs AES for that
      let afterOpen : Except OpenErr Proc :=
        if e.openNeedsAes && !p.aes then
          (if c.handlerFires && c.patchComplete then .ok ⟨true⟩ else .error .dependency)
        else .ok p
      match afterOpen with
      | .error x => .error x
      | .ok p1 => .ok (if c.postGuards.any (·.eval true (ρ d)) && c.patchComplete then ⟨true⟩ else p1)

/-- the documents a process read before (failed opens leave the state as it was) -/
def runHistory (c : OpenCode) (ρ : Doc → Nat → Bool) (p : Proc) : List Doc → Proc
  | [] => p
  | d :: r => runHistory c ρ (match openReader c ρ p d with | .ok p' => p' | .error _ => p) r

/-- the document can be decrypted after `_open_pdf_reader` returned: it is open and, if it uses AES anywhere, AES is there -/
def ready (c : OpenCode) (ρ : Doc → Nat → Bool) (p : Proc) (d : Doc) : Bool :=
  match openReader c ρ p d with
  | .error _ => false
  | .ok p' => match d with
    | none => true
    | some e => !e.needsAes || p'.aes

/-- consistent renaming of the crypt filters of a dictionary -/
def EncryptDict.rename (f : String → String) (e : EncryptDict) : EncryptDict :=
  { e with cf := e.cf.map (fun x => (f x.1, x.2)), stmF := e.stmF.map f, strF := e.strF.map f, eff := e.eff.map f }

end S2T.PdfCrypt
