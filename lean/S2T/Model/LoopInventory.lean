/-
Inventory of the library's `while` loops against the models of `S2T/Model/Loops.lean` (C12 / C01).
A key is (file, function, loop test, sorted updates of the test's variables) — exactly what the translator
emits into `S2T.Gen.Loops.whileLoops`; `Props/C12_Loops.lean` proves that every loop found in the current
source has its key here, so a new loop or a changed header/update set breaks that theorem.
-/
namespace S2T.Loops

abbrev LoopKey := String × String × String × List String

/-- loops with a Lean model defined by structural / well-founded recursion on the loop's own variant
    (key, model in S2T.Loops, how the model is tied to the real loop) -/
def provenLoops : List (LoopKey × String × String) := [
  (("sharepoint2text/parsing/extractors/data_types.py", "DocContent.iterate_units", "heading_stack and heading_stack[-1][0] >= level", ["heading_stack.pop()"]), "popHeadings", "inventory key (header + update set) only"),
  (("sharepoint2text/parsing/extractors/data_types.py", "DocxContent.iterate_units", "heading_stack and heading_stack[-1][0] >= level", ["heading_stack.pop()"]), "popHeadings", "inventory key (header + update set) only"),
  (("sharepoint2text/parsing/extractors/data_types.py", "OdtContent.iterate_units", "heading_stack and heading_stack[-1][0] >= heading_level", ["heading_stack.pop()"]), "popHeadings", "inventory key (header + update set) only"),
  (("sharepoint2text/parsing/extractors/ms_legacy/doc_extractor.py", "_DocReader._extract_images_from_word_document", "i + 40 <= data_len", ["i += 1", "i += dib_len", "i = start"]), "dibCarve", "correspondence: accepted DIB lengths + iteration count"),
  (("sharepoint2text/parsing/extractors/ms_legacy/doc_extractor.py", "_DocReader._extract_png_images_from_bytes", "True", []), "pngCarve", "correspondence: carved images + outer iteration count"),
  (("sharepoint2text/parsing/extractors/ms_legacy/doc_extractor.py", "_DocReader._extract_png_images_from_bytes", "pos + 12 <= len(data)", ["pos = crc_end"]), "pngChunks", "correspondence: inner iteration count (summed over all signatures)"),
  (("sharepoint2text/parsing/extractors/ms_legacy/ppt_extractor.py", "_iter_records", "offset <= data_len - min_size", ["offset += 1", "offset = data_start if is_container else data_end"]), "pptIter", "correspondence: yielded records + iteration count + bytes copied"),
  (("sharepoint2text/parsing/extractors/ms_legacy/ppt_extractor.py", "_parse_containers", "container_stack and record.offset >= container_stack[-1][1]", ["container_stack.pop()"]), "popEnded", "inventory key only"),
  (("sharepoint2text/parsing/extractors/ms_legacy/rtf_extractor.py", "_RtfParser._remove_ignorable_groups", "i < n", ["i += 1"]), "removeIgnorable / skipGroup", "correspondence: output + outer and inner iteration counts"),
  (("sharepoint2text/parsing/extractors/ms_legacy/rtf_extractor.py", "_RtfParser._remove_ignorable_groups", "i < n", ["i += 1"]), "removeIgnorable / skipGroup", "correspondence: output + outer and inner iteration counts"),
  (("sharepoint2text/parsing/extractors/ms_legacy/rtf_extractor.py", "_RtfParser._strip_rtf_full_with_pages", "i < n", ["i += 1", "i += 2", "i += 4", "i += len(m.group(0))", "i = j"]), "rtfWalk", "correspondence: value of i at the start of every iteration"),
  (("sharepoint2text/parsing/extractors/ms_legacy/rtf_extractor.py", "_RtfParser._strip_rtf_full_with_pages", "j < n and text[j].isalpha()", ["j += 1"]), "scanWhile", "correspondence through rtfWalk (i = j)"),
  (("sharepoint2text/parsing/extractors/ms_legacy/rtf_extractor.py", "_RtfParser._strip_rtf_full_with_pages", "j < n and (text[j].isdigit() or text[j] == '-')", ["j += 1"]), "scanWhile", "correspondence through rtfWalk (i = j)"),
  (("sharepoint2text/parsing/extractors/ms_legacy/rtf_extractor.py", "_RtfParser._strip_rtf_full_with_pages", "k and (control_word[k - 1].isdigit() or control_word[k - 1] == '-')", ["k -= 1"]), "trimBack", "inventory key only"),
  (("sharepoint2text/parsing/extractors/ms_legacy/xls_extractor.py", "_extract_images_from_workbook", "offset <= data_len - _RECORD_HEADER_SIZE", ["offset += 1", "offset += _RECORD_HEADER_SIZE + rec_len"]), "xlsBlipScan", "correspondence: value of offset at the start of every iteration"),
  (("sharepoint2text/parsing/extractors/ms_modern/docx_extractor.py", "_get_image_pixel_dimensions", "i + 4 <= size", ["i += 1", "i += 2 + length"]), "sofScan / pixelDims", "correspondence: result + iteration count"),
  (("sharepoint2text/parsing/extractors/ms_modern/pptx_extractor.py", "_get_image_pixel_dimensions", "i + 4 <= size", ["i += 1", "i += 2 + length"]), "sofScan / pixelDims", "correspondence: result + iteration count"),
  (("sharepoint2text/parsing/extractors/ms_modern/xlsx_extractor.py", "_get_image_pixel_dimensions", "i + 4 <= size", ["i += 1", "i += 2 + length"]), "sofScan / pixelDims", "correspondence: result + iteration count"),
  (("sharepoint2text/parsing/extractors/open_office/ods_extractor.py", "_extract_sheet", "raw_rows and all((v[0] is None for v in raw_rows[-1]))", ["raw_rows.pop()"]), "trimEmptyRows / trimRows", "correspondence through the ODS sheet shape"),
  (("sharepoint2text/parsing/extractors/pdf/_pypdf_aes_fallback.py", "_gf_mul", "b", ["b >>= 1"]), "gfMulLoop", "correspondence: result + iteration count"),
  (("sharepoint2text/parsing/extractors/pdf/pdf_extractor.py", "_TableExtractor._extract_row", "idx >= 0 and self.is_numeric_token(tokens[idx])", ["idx -= 1"]), "trailingNumeric", "correspondence: number of values + iteration count"),
  (("sharepoint2text/parsing/extractors/pdf/pdf_extractor.py", "_TableExtractor._normalize_values", "len(merged) > expected_count", []), "normalizeLoop", "correspondence: merged values + iteration count"),
  (("sharepoint2text/parsing/extractors/pdf/pdf_extractor.py", "_TableExtractor._extract_word_date_header", "look_idx < len(self.lines) and len(block_indices) < max_block", ["block_indices.append(look_idx)", "look_idx += 1"]), "lookAhead", "inventory key only"),
  (("sharepoint2text/parsing/extractors/util/encryption.py", "is_xls_encrypted", "offset + 4 <= data_len", ["offset += 4 + record_len"]), "xlsFilepass", "correspondence: result + iteration count"),
  (("sharepoint2text/parsing/extractors/util/image_utils.py", "get_jpeg_dimensions", "offset < len(data) - 9", ["offset += 1", "offset += 2 + segment_len"]), "jpegDims", "correspondence: result + iteration count"),
  (("sharepoint2text/parsing/extractors/pdf/pdf_extractor.py", "_patched_build_char_map", "_CHAR_MAP_PATCH_ORIGINALS", ["_CHAR_MAP_PATCH_ORIGINALS.pop()"]), "drainStack", "inventory key only (the section itself is modelled and tied in C15)"),
  (("sharepoint2text/parsing/extractors/util/omml_to_latex.py", "omml_to_latex.process_element", "pending_sqrt_close and pending_sqrt_close[-1] in converted", ["pending_sqrt_close.pop()"]), "popSqrtClose", "inventory key only"),
  (("sharepoint2text/parsing/extractors/util/sevenzip.py", "SevenZipReader._parse_main_header", "True", []), "skipArchiveProps", "correspondence: iteration count + error class"),
  (("sharepoint2text/parsing/extractors/util/sevenzip.py", "SevenZipReader._parse_files_info", "True", []), "filesInfoLoop / readName", "correspondence: names, final position, outer and inner iteration counts, error class"),
  (("sharepoint2text/parsing/extractors/util/sevenzip.py", "SevenZipReader._parse_files_info", "True", []), "filesInfoLoop / readName", "correspondence: names, final position, outer and inner iteration counts, error class")
]

/-- loops NOT modelled: termination is the environment's business, or the body was too large to model;
    (key, reason with the variant seen by reading) -/
def assumedLoops : List (LoopKey × String) := [
  (("sharepoint2text/parsing/extractors/pdf/pdf_extractor.py", "_TableExtractor._extract", "idx < len(self.lines)", ["idx += 1", "idx = next_idx"]), "not modelled (125-line body driven by regex classifiers of pypdf text lines). Variant by reading: len(self.lines) - idx; every path ends in `idx += 1` or `idx = next_idx` with next_idx = max(block_indices) + 1 > idx. Monitored at run time by the correspondence (idx strictly increases on generated line lists)."),
  (("sharepoint2text/sharepoint_io/client.py", "SharePointRestClient._get_folders_from_url", "current_url", ["current_url = data.get('@odata.nextLink')"]), "environment: Graph `@odata.nextLink` pagination ends when the server stops sending a next link (C18 bounds it by fuel)"),
  (("sharepoint2text/sharepoint_io/client.py", "SharePointRestClient._list_items_paginated", "current_url", ["current_url = data.get('@odata.nextLink')"]), "environment: Graph `@odata.nextLink` pagination ends when the server stops sending a next link (C18 bounds it by fuel)")
]

/-- directly self-recursive functions: NOT modelled; the variant seen by reading (depth is bounded by the
    input tree's depth; CPython's recursion limit turns runaway depth into RecursionError, see C01) -/
def recursiveByReading : List ((String × String) × String) := [
  (("sharepoint2text/parsing/extractors/epub_extractor.py", "_parse_ncx.extract_nav_points"), "structural: recurses into the children of an NCX navPoint element (finite parsed tree)"),
  (("sharepoint2text/parsing/extractors/html_extractor.py", "_HtmlTextExtractor._collect_headings_recursive"), "structural: recurses into node.children of the parsed HTML tree"),
  (("sharepoint2text/parsing/extractors/html_extractor.py", "_HtmlTextExtractor._collect_links_recursive"), "structural: recurses into node.children of the parsed HTML tree"),
  (("sharepoint2text/parsing/extractors/html_extractor.py", "_HtmlTextExtractor._collect_nodes_by_tag"), "structural: recurses into node.children of the parsed HTML tree"),
  (("sharepoint2text/parsing/extractors/html_extractor.py", "_HtmlTextExtractor._find_nested_tables"), "structural: recurses into node.children of the parsed HTML tree (modelled and proved in C13: Model/Tables.lean)"),
  (("sharepoint2text/parsing/extractors/html_extractor.py", "_HtmlTextExtractor._find_own_rows"), "structural: recurses into node.children of the parsed HTML tree (modelled and proved in C13)"),
  (("sharepoint2text/parsing/extractors/html_extractor.py", "_HtmlTextExtractor._get_cell_text"), "structural: recurses into node.children of the parsed HTML tree (modelled and proved in C13)"),
  (("sharepoint2text/parsing/extractors/html_extractor.py", "_HtmlTextExtractor._find_node"), "structural: recurses into node.children of the parsed HTML tree"),
  (("sharepoint2text/parsing/extractors/html_extractor.py", "_HtmlTextExtractor._find_nodes"), "structural: recurses into node.children of the parsed HTML tree"),
  (("sharepoint2text/parsing/extractors/html_extractor.py", "_HtmlTextExtractor._get_node_text"), "structural: recurses into node.children of the parsed HTML tree"),
  (("sharepoint2text/parsing/extractors/html_extractor.py", "_HtmlTextExtractor._process_node"), "structural: recurses into node.children of the parsed HTML tree"),
  (("sharepoint2text/parsing/extractors/mail/mbox_email_extractor.py", "_iter_message_parts"), "structural: recurses into the sub-parts of a parsed multipart message (attachments are not descended into)"),
  (("sharepoint2text/parsing/extractors/mail/msg_email_extractor.py", "_parse_multi_recipients"), "structural: recurses into the items of a list argument (strings do not recurse)"),
  (("sharepoint2text/parsing/extractors/ms_modern/docx_extractor.py", "_process_text_element"), "structural: recurses into the children of an XML element"),
  (("sharepoint2text/parsing/extractors/ms_modern/docx_extractor.py", "_unwrap_block_children"), "structural: recurses into the w:sdtContent / w:customXml children of an XML element (finite parsed tree; modelled in C02: Model/OoxmlDocx.lean blockTexts / sdtBlocks)"),
  (("sharepoint2text/parsing/extractors/open_office/_shared.py", "_append_element_text"), "structural: recurses into the children of an XML element"),
  (("sharepoint2text/parsing/extractors/open_office/odf_extractor.py", "_mathml_to_text"), "structural: recurses into the children of a MathML element"),
  (("sharepoint2text/parsing/extractors/open_office/odt_extractor.py", "_iter_own_rows"), "structural: recurses into the children of an ODF table element (finite parsed tree; modelled and proved in C13)"),
  (("sharepoint2text/parsing/extractors/open_office/odt_extractor.py", "_append_full_text_from_element"), "structural: recurses into the children of an XML element"),
  (("sharepoint2text/parsing/extractors/pdf/pdf_extractor.py", "_stable_pdf_str"), "structural: recurses into the items of a pypdf array; an IndirectObject is resolved once at top level and never followed when nested"),
  (("sharepoint2text/parsing/extractors/serialization.py", "_deserialize_value"), "structural: recurses into the members of a decoded JSON value"),
  (("sharepoint2text/parsing/extractors/serialization.py", "_serialize_for_json"), "structural: recurses into dataclass fields / list items / dict values (acyclic by construction)"),
  (("sharepoint2text/parsing/extractors/util/omml_to_latex.py", "omml_to_latex.process_element"), "structural: recurses into the children of an OMML element"),
  (("sharepoint2text/sharepoint_io/client.py", "SharePointRestClient._walk_drive_items"), "environment: recurses into Graph drive folders (C18)")
]

def knownKeys : List LoopKey := provenLoops.map (·.1) ++ assumedLoops.map (·.1)

end S2T.Loops
